import PydraModel.Basic
import PydraModel.Mount.Model
/-
Engine `Files` (DESIGN §5.9): staging and collecting files.

Mirrors, in pydra's pinned tree,

* `TypeParser.apply_to_instances`            pydra/utils/typing.py   (`applyToInstances`, `applyList`)
* `copy_nested_files` and its `copy_fileset` pydra/utils/typing.py   (`copyNested`, `copyFileset`, `reduceSupported`)
* `copyfile_workflow`                        pydra/engine/result.py  (`copyfileWorkflow`)
* the staging loop of `Job.inputs`           pydra/engine/job.py     (`stageInputs`)

`fileformats.FileSet.copy(dest_dir, mode=…, collation=…, supported_modes=…, avoid_clashes=S)` is NOT pydra code: it
is a parameter `P : Prim` of every function here.  Its assumed contract is `Contract` in `Files/Lemmas.lean`; the
harness samples that contract against the real `fileformats` on every run.  `copyOneRef` below is one concrete
primitive (counter-suffix naming as `fileformats` does it for file-sets whose paths share one parent directory) used for
the non-vacuity examples, the witnesses and the driver; `copyOneScript` replays a recorded call log.

Paths are `List Char` (Python `str(path)`), as in the `Mount` engine whose `onCifs`/`onSameMount` are used read-only.
-/
namespace PydraModel.Files
open PydraModel.Mount (Str Table)

abbrev Path := Str

/-! ### `FileSet.CopyMode` (an `Enum` over 4 bits) -/

/-- The four basic operations; also the bit positions of `CopyMode`. -/
inductive Op | leave | hard | sym | copy
deriving DecidableEq, Repr, Inhabited

structure Mode where
  leave : Bool
  hard : Bool
  sym : Bool
  copy : Bool
deriving DecidableEq, Repr, Inhabited

namespace Mode
def ofNat (n : Nat) : Mode := ⟨n.testBit 0, n.testBit 1, n.testBit 2, n.testBit 3⟩
def toNat (m : Mode) : Nat :=
  (if m.leave then 1 else 0) + (if m.hard then 2 else 0) + (if m.sym then 4 else 0) + (if m.copy then 8 else 0)
/-- `CopyMode.__and__` -/
def and (a b : Mode) : Mode := ⟨a.leave && b.leave, a.hard && b.hard, a.sym && b.sym, a.copy && b.copy⟩
/-- `CopyMode.__xor__` -/
def xor (a b : Mode) : Mode := ⟨a.leave ^^ b.leave, a.hard ^^ b.hard, a.sym ^^ b.sym, a.copy ^^ b.copy⟩
/-- `CopyMode.__sub__`: `type(self)(self.value & (self.value ^ other.value))` -/
def sub (a b : Mode) : Mode := a.and (a.xor b)
def isNone (a : Mode) : Bool := !(a.leave || a.hard || a.sym || a.copy)
def has (a : Mode) : Op → Bool
  | .leave => a.leave | .hard => a.hard | .sym => a.sym | .copy => a.copy
def any : Mode := ⟨true, true, true, true⟩
def symlink : Mode := ⟨false, false, true, false⟩
def hardlink : Mode := ⟨false, true, false, false⟩
def copyOnly : Mode := ⟨false, false, false, true⟩
def hardlinkOrCopy : Mode := ⟨false, true, false, true⟩
end Mode

/-! ### Values -/

/-- A `FileSet` object.  `oid` = Python object identity, `cls` = class name, `paths` = `fspaths` in canonical (sorted)
    order, `content` = ghost identifier of what is on disk at those paths. -/
structure FileObj where
  oid : Nat
  cls : Str
  paths : List Path
  content : Nat
deriving DecidableEq, Repr, Inhabited

/-- What `FileSet.__eq__`/`__hash__` look at: the class and the set of paths.  This is the key of the memo dict
    `cache` in `copy_nested_files`. -/
abbrev Key := Str × List Path
def FileObj.key (x : FileObj) : Key := (x.cls, x.paths)

inductive Kind | list | tuple | dict
deriving DecidableEq, Repr, Inhabited

/-- Nested Python values.  `atom`: anything `apply_to_instances` returns untouched (not a FileSet, Mapping or Sequence,
    or a `str`; `bytes` is rebuilt to an equal value).  `node`: list / tuple / dict with its object identity; a dict's
    children are `k₁, v₁, k₂, v₂, …` in insertion order (keys are mapped too, as in the code). -/
inductive Val
  | atom (a : Str)
  | file (x : FileObj)
  | node (oid : Nat) (k : Kind) (cs : List Val)
deriving Repr, Inhabited

mutual
/-- Plain tree map (rebuilt containers are new objects: identity 0 = "not modelled"). -/
def mapVal (g : FileObj → FileObj) : Val → Val
  | .atom a => .atom a
  | .file x => .file (g x)
  | .node _ k cs => .node 0 k (mapList g cs)
def mapList (g : FileObj → FileObj) : List Val → List Val
  | [] => []
  | c :: cs => mapVal g c :: mapList g cs
end

mutual
/-- File leaves in traversal order. -/
def leaves : Val → List FileObj
  | .atom _ => []
  | .file x => [x]
  | .node _ _ cs => leavesL cs
def leavesL : List Val → List FileObj
  | [] => []
  | c :: cs => leaves c ++ leavesL cs
end

mutual
/-- Structural equality (decidable equality is not derivable for the nested type). -/
def beqVal : Val → Val → Bool
  | .atom a, .atom b => a == b
  | .file x, .file y => x == y
  | .node i k cs, .node j k' ds => i == j && k == k' && beqList cs ds
  | _, _ => false
def beqList : List Val → List Val → Bool
  | [], [] => true
  | c :: cs, d :: ds => beqVal c d && beqList cs ds
  | _, _ => false
end

/-- The shape of a value: container structure and non-file leaves; file leaves and identities erased. -/
def shape (v : Val) : Val := mapVal (fun _ => default) v

/-! ### `TypeParser.apply_to_instances(FileSet, func, value, cache=None)` -/

abbrev IdCache := List (Nat × Val)

mutual
/-- `func` may have effects (it closes over a memo dict and the clash set), hence the state `σ`.
    `cache` is the id-keyed dict.  NB the recursive calls of the pinned code do **not** pass `cache` on, so every
    nested call starts with a fresh `{}` (`applyList` passes `[]`). -/
def applyToInstances {σ ε : Type} (f : σ → FileObj → Except ε (FileObj × σ)) (cache : IdCache) (st : σ) :
    Val → Except ε (Val × σ)
  | .atom a => .ok (.atom a, st)                     -- first `if`: returned before `id(value)` is looked at
  | .file x =>
    match cache.lookup x.oid with
    | some r => .ok (r, st)
    | none =>
      match f st x with
      | .error e => .error e
      | .ok (d, st') => .ok (.file d, st')
  | .node i k cs =>
    match cache.lookup i with
    | some r => .ok (r, st)
    | none =>
      match applyList f st cs with
      | .error e => .error e
      | .ok (cs', st') => .ok (.node 0 k cs', st')
def applyList {σ ε : Type} (f : σ → FileObj → Except ε (FileObj × σ)) (st : σ) :
    List Val → Except ε (List Val × σ)
  | [] => .ok ([], st)
  | c :: cs =>
    match applyToInstances f [] st c with
    | .error e => .error e
    | .ok (c', st1) =>
      match applyList f st1 cs with
      | .error e => .error e
      | .ok (cs', st2) => .ok (c' :: cs', st2)
end

/-! ### `FileSet.copy` as a parameter -/

/-- Python exception class name (or a model-internal tag starting with `model:`). -/
abbrev Err := Str

structure CopyArgs where
  destDir : Path
  mode : Mode            -- `mode=`
  coll : Nat             -- `collation=` (0 any, 1 siblings, 2 adjacent)
  supported : Mode       -- `supported_modes=`
  clashes : List Path    -- content of the `avoid_clashes=` set at call time
  ex : List Path         -- paths that exist (as far as `Path.exists()` in the primitive looks)
  fresh : Nat            -- identity of the object a real copy returns; also the running call number
deriving Repr

structure CopyOut where
  dst : FileObj
  op : Op                -- what was done
  clashes : List Path    -- the `avoid_clashes` set afterwards
  ex : List Path
deriving Repr

abbrev Prim := CopyArgs → FileObj → Except Err CopyOut

/-! ### `copy_nested_files` -/

/-- `supported -= symlink` when any path is on CIFS; `supported -= hardlink` when not all paths are on the mount of
    `dest_dir`.  `get` is the mount lookup (`getMountComp`: whole path components, the working tree since the repair of D22;
    `getMountStr` is the pinned commit's `str.startswith`).  All theorems hold for any `get`. -/
def reduceSupported (get : Table → Str → Mount.Entry) (tbl : Table) (destDir : Path) (paths : List Path)
    (supported : Mode) : Mode :=
  let s1 := if paths.any (fun p => Mount.onCifs get tbl p) then supported.sub Mode.symlink else supported
  if !(paths.all (fun p => Mount.onSameMount get tbl p destDir)) then s1.sub Mode.hardlink else s1

structure Env where
  get : Table → Str → Mount.Entry
  tbl : Table
  destDir : Path
  mode : Mode            -- `**kwargs`: mode
  coll : Nat             -- `**kwargs`: collation (absent = 0)
  supported : Mode       -- `supported_modes`

/-- One executed `fileset.copy(...)`.  The Python memo dict maps `key ↦ dst`; `src` and `op` are ghost fields. -/
structure Entry where
  key : Key
  src : FileObj
  dst : FileObj
  op : Op
deriving Repr

structure St where
  memo : List Entry          -- `cache` of `copy_nested_files` (insertion order)
  clashes : List Path        -- `clashes_to_avoid`
  ex : List Path
  nextId : Nat

/-- The arguments of `fileset.copy(dest_dir=dest_dir, supported_modes=supported, avoid_clashes=clashes_to_avoid,
    **kwargs)` inside `copy_fileset`. -/
def argsOf (env : Env) (st : St) (x : FileObj) : CopyArgs :=
  { destDir := env.destDir, mode := env.mode, coll := env.coll,
    supported := reduceSupported env.get env.tbl env.destDir x.paths env.supported,
    clashes := st.clashes, ex := st.ex, fresh := st.nextId }

/-- The closure `copy_fileset`. -/
def copyFileset (P : Prim) (env : Env) (st : St) (x : FileObj) : Except Err (FileObj × St) :=
  match st.memo.find? (fun e => e.key == x.key) with
  | some e => .ok (e.dst, st)
  | none =>
    match P (argsOf env st x) x with
    | .error e => .error e
    | .ok r =>
      .ok (r.dst, { memo := st.memo ++ [⟨x.key, x, r.dst, r.op⟩], clashes := r.clashes, ex := r.ex,
                    nextId := st.nextId + 1 })

/-- `copy_nested_files(value, dest_dir, supported_modes, clashes_to_avoid, **kwargs)`; `clashes = none` is the
    `None` default (a new empty set).  The final state is returned too (ghost: Python drops the memo). -/
def copyNested (P : Prim) (env : Env) (clashes : Option (List Path)) (ex : List Path) (nextId : Nat) (v : Val) :
    Except Err (Val × St) :=
  applyToInstances (copyFileset P env) [] { memo := [], clashes := clashes.getD [], ex := ex, nextId := nextId } v

/-! ### `copyfile_workflow` -/

def wfEnv (get : Table → Str → Mount.Entry) (tbl : Table) (wfDir : Path) : Env :=
  { get := get, tbl := tbl, destDir := wfDir, mode := Mode.hardlinkOrCopy, coll := 0, supported := Mode.any }

structure Collected where
  fields : List (Str × Val)
  memos : List (List Entry)     -- ghost: per field, the copies made for it
  clashes : List Path
  ex : List Path
  nextId : Nat

/-- The `for field in attrs_fields(outputs)` loop: ONE `clashes_to_avoid` set is handed from field to field.
    A field is its name and its VALUE; its declared type is not an input of the loop. -/
def collectLoop (P : Prim) (env : Env) : List (Str × Val) → List Path → List Path → Nat → Except Err Collected
  | [], S, ex, n => .ok ⟨[], [], S, ex, n⟩
  | (name, v) :: fs, S, ex, n =>
    match copyNested P env (some S) ex n v with
    | .error e => .error e
    | .ok (v', st) =>
      match collectLoop P env fs st.clashes st.ex st.nextId with
      | .error e => .error e
      | .ok r => .ok ⟨(name, v') :: r.fields, st.memo :: r.memos, r.clashes, r.ex, r.nextId⟩

/-- DOCUMENTATION VARIANT, not the code: the same loop with a per-field `skip` predicate (for instance "the field's
    DECLARED type does not spell out a FileSet").  The real loop has no such test — `copyfile_workflow` looks at the
    VALUE of every field whatever its declared type — which is why `collectLoop`/`copyfileWorkflow` take no type argument.
    `Props/C33.lean` shows what a skip costs (`C33_witness_skipped_field`). -/
def collectLoopSkip (P : Prim) (env : Env) (skip : Str × Val → Bool) :
    List (Str × Val) → List Path → List Path → Nat → Except Err Collected
  | [], S, ex, n => .ok ⟨[], [], S, ex, n⟩
  | (name, v) :: fs, S, ex, n =>
    if skip (name, v) then
      match collectLoopSkip P env skip fs S ex n with
      | .error e => .error e
      | .ok r => .ok ⟨(name, v) :: r.fields, [] :: r.memos, r.clashes, r.ex, r.nextId⟩
    else
      match copyNested P env (some S) ex n v with
      | .error e => .error e
      | .ok (v', st) =>
        match collectLoopSkip P env skip fs st.clashes st.ex st.nextId with
        | .error e => .error e
        | .ok r => .ok ⟨(name, v') :: r.fields, st.memo :: r.memos, r.clashes, r.ex, r.nextId⟩

def copyfileWorkflow (P : Prim) (get : Table → Str → Mount.Entry) (tbl : Table) (wfDir : Path)
    (fields : List (Str × Val)) (ex : List Path) (nextId : Nat) : Except Err Collected :=
  collectLoop P (wfEnv get tbl wfDir) fields [] ex nextId      -- `clashes_to_avoid: set[Path] = set()`

/-! ### the staging loop of `Job.inputs` -/

/-- The DECLARED type of a field, as far as `TypeParser.contains_type` looks at it.
    `file`: a class that is a subclass of the target (`is_subclass(type_, FileSet)`);
    `atom`: anything without type arguments or cut short by the primitive shortcut (`int`, `str`, bare `list`,
            `object`, `None`, `typing.Any` — for which `is_subclass(Any, FileSet)` is false);
    `union`: `Union[…]`/`X | Y`/`Optional[X]`;  `mapping`: `dict[K, V]`, `Mapping[K, V]`;
    `seq`: `list[T]`, `tuple[T₁, …, Tₙ]`, `Sequence[T]`; `ell` = the argument list ended in `...` (already stripped). -/
inductive Ty
  | file (n : Str)
  | atom (n : Str)
  | union (args : List Ty)
  | mapping (k v : Ty)
  | seq (args : List Ty) (ell : Bool)
deriving Repr, Inhabited

mutual
/-- `TypeParser.contains_type(FileSet, type_)`: ANY type argument, at any depth. -/
def containsType : Ty → Bool
  | .file _ => true                          -- `if cls.is_subclass(type_, target): return True`
  | .atom _ => false                         -- primitive shortcut / `if not type_args: return False`
  | .union args => containsAny args          -- `for type_arg in type_args: if contains_type(...): return True`
  | .mapping k v => containsType k || containsType v
  | .seq args _ => containsAny args          -- trailing Ellipsis stripped, then `any(contains_type(target, a) for a in type_args)`
def containsAny : List Ty → Bool
  | [] => false
  | t :: ts => containsType t || containsAny ts
end

mutual
/-- The file classes occurring anywhere in a type. -/
def Ty.fileLeaves : Ty → List Str
  | .file n => [n]
  | .atom _ => []
  | .union args => Ty.fileLeavesL args
  | .mapping k v => Ty.fileLeaves k ++ Ty.fileLeaves v
  | .seq args _ => Ty.fileLeavesL args
def Ty.fileLeavesL : List Ty → List Str
  | [] => []
  | t :: ts => Ty.fileLeaves t ++ Ty.fileLeavesL ts
end

structure Field where
  name : Str
  ty : Ty           -- `fld.type`
  truthy : Bool     -- `bool(value)`
  mode : Mode       -- `fld.copy_mode`
  coll : Nat        -- `fld.copy_collation`
  value : Val

/-- The staging gate `TypeParser.contains_type(FileSet, fld.type)`. -/
def Field.typed (f : Field) : Bool := containsType f.ty

/-- The environment `Job.inputs` builds for field `f`: `dest_dir=self.cache_dir, mode=fld.copy_mode,
    collation=fld.copy_collation, supported_modes=self.SUPPORTED_COPY_MODES`. -/
def stageEnv (get : Table → Str → Mount.Entry) (tbl : Table) (jobDir : Path) (supported : Mode) (f : Field) : Env :=
  { get := get, tbl := tbl, destDir := jobDir, mode := f.mode, coll := f.coll, supported := supported }

/-- Each field gets its own `copy_nested_files` call with `clashes_to_avoid` left at its default: a NEW set (and a new
    memo) per field.  Only the file system (`ex`) is shared. -/
def stageInputs (P : Prim) (get : Table → Str → Mount.Entry) (tbl : Table) (jobDir : Path) (supported : Mode) :
    List Field → List Path → Nat → Except Err Collected
  | [], ex, n => .ok ⟨[], [], [], ex, n⟩
  | fld :: fs, ex, n =>
    if fld.truthy && fld.typed then
      match copyNested P (stageEnv get tbl jobDir supported fld) none ex n fld.value with
      | .error e => .error e
      | .ok (v', st) =>
        match stageInputs P get tbl jobDir supported fs st.ex st.nextId with
        | .error e => .error e
        | .ok r => .ok ⟨(fld.name, v') :: r.fields, st.memo :: r.memos, st.clashes ++ r.clashes, r.ex, r.nextId⟩
    else
      match stageInputs P get tbl jobDir supported fs ex n with
      | .error e => .error e
      | .ok r => .ok ⟨(fld.name, fld.value) :: r.fields, [] :: r.memos, r.clashes, r.ex, r.nextId⟩

/-! ### A concrete primitive: counter-suffix naming (what `fileformats` does when all paths share one parent) -/

/-- Index of the last occurrence (`str.rfind`). -/
def rfind (c : Char) (s : Str) : Option Nat :=
  let rec go : Str → Nat → Option Nat → Option Nat
    | [], _, acc => acc
    | x :: xs, i, acc => go xs (i + 1) (if x = c then some i else acc)
  go s 0 none

def nameOf (p : Path) : Str := match rfind '/' p with | some i => p.drop (i + 1) | none => p
def parentOf (p : Path) : Str := match rfind '/' p with | some i => p.take i | none => []

/-- `PurePath.stem`, `PurePath.suffix` (CPython 3.12). -/
def splitName (name : Str) : Str × Str :=
  match rfind '.' name with
  | some i => if 0 < i ∧ i < name.length - 1 then (name.take i, name.drop i) else (name, [])
  | none => (name, [])

def natStr (n : Nat) : Str := (Nat.repr n).toList

/-- `clash_template = "{stem} ({counter})"`, applied when the counter is non-zero. -/
def clashStem (stem : Str) (c : Nat) : Str :=
  if c = 0 then stem else stem ++ [' ', '('] ++ natStr c ++ [')']

def candidate (destDir : Path) (p : Path) (c : Nat) : Path :=
  let se := splitName (nameOf p)
  destDir ++ ['/'] ++ clashStem se.1 c ++ se.2

inductive Scan | accept | retry | raise
deriving DecidableEq, Repr

/-- `_destination_to_avoid` over the candidate paths of one counter value, in order. -/
def scan (S ex : List Path) : List Path → Scan
  | [] => .accept
  | p :: ps => if p ∈ S then .retry else if p ∈ ex then .raise else scan S ex ps

def search (S ex : List Path) (cands : Nat → List Path) : Nat → Nat → Except Err (List Path)
  | 0, _ => .error "model:fuel".toList
  | fuel + 1, c =>
    match scan S ex (cands c) with
    | .accept => .ok (cands c)
    | .retry => search S ex cands fuel (c + 1)
    | .raise => .error "FileExistsError".toList

/-- Preference order of `FileSet.copy`: leave, symlink, hardlink, copy. -/
def chooseOp (sel : Mode) : Option Op :=
  if sel.leave then some .leave else if sel.sym then some .sym else if sel.hard then some .hard
  else if sel.copy then some .copy else none

def sameParent (paths : List Path) : Bool :=
  match paths with
  | [] => true
  | p :: ps => ps.all (fun q => parentOf q == parentOf p)

def copyOneRef : Prim := fun a x =>
  if x.paths = [] then .error "ValueError".toList else
  if !(sameParent x.paths) || (x.paths.length > 1 && a.coll ≥ 2) then .error "model:unsupported-by-ref".toList else
  match chooseOp (a.mode.and a.supported) with
  | none => .error "UnsatisfiableCopyModeError".toList
  | some .leave => .ok ⟨x, .leave, a.clashes, a.ex⟩
  | some op =>
    match search a.clashes a.ex (fun c => x.paths.map (fun p => candidate a.destDir p c)) (a.clashes.length + 2) 0 with
    | .error e => .error e
    | .ok ds => .ok ⟨{ oid := a.fresh, cls := x.cls, paths := ds, content := x.content }, op,
                      a.clashes ++ ds, a.ex ++ ds⟩

/-! ### A replaying primitive: the recorded log of the real `FileSet.copy` calls -/

structure Resp where
  key : Key                 -- expected receiver
  supported : Mode          -- expected `supported_modes`
  clashes : List Path       -- expected content of `avoid_clashes` (sorted)
  result : Except Err (List Path × Op)
deriving Repr

/-- Insertion sort on strings by code points, for comparing sets given as lists. -/
def strLe : Str → Str → Bool
  | [], _ => true
  | _ :: _, [] => false
  | a :: as, b :: bs => if a.toNat < b.toNat then true else if b.toNat < a.toNat then false else strLe as bs
def insertSorted (p : Str) : List Str → List Str
  | [] => [p]
  | q :: qs => if strLe p q then p :: q :: qs else q :: insertSorted p qs
def sortStrs (l : List Str) : List Str := l.foldr insertSorted []

/-- Replays call number `a.fresh - base`, insisting that pydra's side of the call is the recorded one. -/
def copyOneScript (script : List Resp) (base : Nat) : Prim := fun a x =>
  match script[a.fresh - base]? with
  | none => .error "model:script-exhausted".toList
  | some r =>
    if r.key != x.key then .error "model:script-mismatch-receiver".toList else
    if r.supported != a.supported then .error "model:script-mismatch-supported".toList else
    if sortStrs r.clashes != sortStrs a.clashes then .error "model:script-mismatch-clashes".toList else
    match r.result with
    | .error e => .error e
    | .ok (ds, .leave) => if ds = x.paths then .ok ⟨x, .leave, a.clashes, a.ex⟩ else .error "model:script-leave".toList
    | .ok (ds, op) => .ok ⟨{ oid := a.fresh, cls := x.cls, paths := ds, content := x.content }, op,
                           a.clashes ++ ds, a.ex ++ ds⟩

end PydraModel.Files
