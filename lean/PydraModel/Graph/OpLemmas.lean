import PydraModel.Graph.SortLemmas
namespace PydraModel.Graph

/-- Invariant of every `DiGraph` reached by non-raising calls. -/
structure Inv (g : G) : Prop where
  nodup  : g.nodes.Nodup
  closed : ∀ e ∈ g.edges, e.2 ∈ g.nodes → e.1 ∈ g.nodes ∨ e.1 ∈ g.wip
  valid  : ∀ l, g.sorted = some l → l.Perm g.nodes ∧ Topo g l

theorem topo_congr {g g' : G} (he : g.edges = g'.edges) (hw : g.wip = g'.wip) {l : List Id}
    (h : Topo g l) : Topo g' l := by
  intro l1 x l2 hl e hmem hx
  rw [← he] at hmem; rw [← hw]
  exact h l1 x l2 hl e hmem hx

theorem inv_empty : Inv G.empty :=
  ⟨by simp [G.empty], by simp [G.empty], by simp [G.empty]⟩

/-- shared tail of the re-sorting operations -/
theorem inv_resort {g1 : G} {pre l : List Id} (hn : g1.nodes.Nodup)
    (hc : ∀ e ∈ g1.edges, e.2 ∈ g1.nodes → e.1 ∈ g1.nodes ∨ e.1 ∈ g1.wip)
    (hpre : pre ≠ [] → pre.Perm g1.nodes) (hs : sortFrom g1 pre = some l) :
    Inv { g1 with sorted := some l } := by
  obtain ⟨ht, hp⟩ := sortFrom_spec g1 pre l hs
  refine ⟨hn, hc, ?_⟩
  intro l' hl'
  simp at hl'; subst hl'
  refine ⟨?_, topo_congr rfl rfl ht⟩
  by_cases hpe : pre = []
  · simpa [hpe] using hp
  · simp only [hpe, if_false] at hp; exact hp.trans (hpre hpe)

theorem inv_unsorted {g1 : G} (hn : g1.nodes.Nodup)
    (hc : ∀ e ∈ g1.edges, e.2 ∈ g1.nodes → e.1 ∈ g1.nodes ∨ e.1 ∈ g1.wip) : Inv { g1 with sorted := none } :=
  ⟨hn, hc, by intro l hl; simp at hl⟩

theorem inv_addNodes {g g' : G} (hi : Inv g) (new : List Id) (h : addNodes g new = (.ok (), g')) : Inv g' := by
  unfold addNodes at h
  simp only at h
  split at h
  · simp at h
  · rename_i hnd
    simp only [Decidable.not_not] at hnd
    split at h
    · simp at h
    · rename_i hreuse
      simp only [List.any_eq_true, Bool.or_eq_true, List.contains_eq_mem, decide_eq_true_eq, beq_iff_eq,
        not_exists, not_and, not_or] at hreuse
      have hc : ∀ e ∈ g.edges, e.2 ∈ g.nodes ++ new → e.1 ∈ g.nodes ++ new ∨ e.1 ∈ g.wip := by
        intro e he h2
        rcases List.mem_append.mp h2 with h2 | h2
        · rcases hi.closed e he h2 with h1 | h1
          · exact Or.inl (List.mem_append_left _ h1)
          · exact Or.inr h1
        · exact absurd rfl ((hreuse e.2 h2).2 e he).2
      cases hs : g.sorted with
      | none =>
        simp [hs] at h; subst h
        exact ⟨hnd, hc, by intro l hl; simp at hl⟩
      | some s =>
        simp only [hs] at h
        split at h
        · rename_i l hl
          simp at h; subst h
          have hpre : (s ++ new).Perm (g.nodes ++ new) := List.Perm.append_right new (hi.valid s hs).1
          exact inv_resort (g1 := { g with nodes := g.nodes ++ new, sorted := some s }) hnd hc (fun _ => hpre) hl
        · simp at h

theorem inv_addEdges {g g' : G} (hi : Inv g) (new : List (Id × Id)) (h : addEdges g new = (.ok (), g')) : Inv g' := by
  unfold addEdges at h
  split at h
  · simp at h
  · rename_i hchk
    simp only [List.any_eq_true, Bool.not_eq_true', not_exists, not_and, Bool.not_eq_false, Bool.and_eq_true, List.contains_eq_mem, decide_eq_true_eq] at hchk
    have hc : ∀ e ∈ g.edges ++ new, e.2 ∈ g.nodes → e.1 ∈ g.nodes ∨ e.1 ∈ g.wip := by
      intro e he _; exact Or.inl (hchk e he).1
    cases hs : g.sorted with
    | none =>
      simp [hs] at h; subst h
      exact ⟨hi.nodup, hc, by intro l hl; simp at hl⟩
    | some s =>
      simp only [hs] at h
      split at h
      · rename_i l hl
        simp at h; subst h
        exact inv_resort (g1 := { g with edges := g.edges ++ new, sorted := some s }) hi.nodup hc (fun _ => (hi.valid s hs).1) hl
      · simp at h

/-- what a non-raising `for nd in nodes:` loop of `remove_nodes` has done -/
theorem markLoop_ok (c : Bool) : ∀ (ns : List Id) (g g1 : G), markLoop c g ns = (.ok (), g1) →
    g1.edges = g.edges ∧ g1.sorted = g.sorted ∧ g1.wip = g.wip ++ ns ∧
    g1.nodes = ns.foldl (fun acc n => acc.erase n) g.nodes := by
  intro ns
  induction ns with
  | nil => intro g g1 h; simp [markLoop] at h; subst h; simp
  | cons n ns ih =>
    intro g g1 h
    unfold markLoop at h
    split at h
    · simp at h
    · split at h
      · simp at h
      · obtain ⟨h1, h2, h3, h4⟩ := ih _ _ h
        refine ⟨h1, h2, ?_, ?_⟩
        · simp [h3]
        · simp [h4]

theorem foldl_erase_nodup : ∀ (ns l : List Id), l.Nodup → (ns.foldl (fun acc n => acc.erase n) l).Nodup := by
  intro ns; induction ns with
  | nil => intro l h; simpa
  | cons n ns ih => intro l h; exact ih _ (h.erase n)

theorem foldl_erase_perm : ∀ (ns l l' : List Id), l.Perm l' →
    (ns.foldl (fun acc n => acc.erase n) l).Perm (ns.foldl (fun acc n => acc.erase n) l') := by
  intro ns; induction ns with
  | nil => intro l l' h; simpa
  | cons n ns ih => intro l l' h; exact ih _ _ (h.erase n)

theorem foldl_erase_mem : ∀ (ns l : List Id) (a : Id), a ∈ ns.foldl (fun acc n => acc.erase n) l → a ∈ l := by
  intro ns; induction ns with
  | nil => intro l a h; simpa using h
  | cons n ns ih => intro l a h; exact List.mem_of_mem_erase (ih _ a h)

theorem mem_foldl_erase_or : ∀ (ns l : List Id) (a : Id), a ∈ l → a ∈ ns ∨ a ∈ ns.foldl (fun acc n => acc.erase n) l := by
  intro ns; induction ns with
  | nil => intro l a h; exact Or.inr (by simpa using h)
  | cons n ns ih =>
    intro l a h
    by_cases han : a = n
    · exact Or.inl (by simp [han])
    · rcases ih (l.erase n) a ((List.mem_erase_of_ne han).mpr h) with h1 | h1
      · exact Or.inl (by simp [h1])
      · exact Or.inr h1

theorem foldl_erase_prefix : ∀ (ns rest : List Id), (ns ++ rest).Nodup →
    ns.foldl (fun acc n => acc.erase n) (ns ++ rest) = rest := by
  intro ns; induction ns with
  | nil => intro rest _; rfl
  | cons n ns ih =>
    intro rest h
    simp only [List.cons_append, List.foldl_cons, List.erase_cons_head]
    exact ih rest (List.nodup_cons.mp h).2

theorem inv_removeNodes {g g' : G} (hi : Inv g) (ns : List Id) (c : Bool)
    (h : removeNodes g ns c = (.ok (), g')) : Inv g' := by
  unfold removeNodes at h
  split at h
  · simp at h
  · rename_i g1 hm
    obtain ⟨he, hsd, hw, hnodes⟩ := markLoop_ok c ns g g1 hm
    have hn1 : g1.nodes.Nodup := by rw [hnodes]; exact foldl_erase_nodup ns _ hi.nodup
    have hc1 : ∀ e ∈ g1.edges, e.2 ∈ g1.nodes → e.1 ∈ g1.nodes ∨ e.1 ∈ g1.wip := by
      intro e hmem h2; rw [he] at hmem
      have h2' : e.2 ∈ g.nodes := foldl_erase_mem ns g.nodes e.2 (by rw [← hnodes]; exact h2)
      rcases hi.closed e hmem h2' with h1 | h1
      · rcases mem_foldl_erase_or ns g.nodes e.1 h1 with h2 | h2
        · exact Or.inr (by rw [hw]; exact List.mem_append_right _ h2)
        · exact Or.inl (by rw [hnodes]; exact h2)
      · exact Or.inr (by rw [hw]; exact List.mem_append_left _ h1)
    cases hs : g1.sorted with
    | none =>
      simp [hs] at h; subst h
      exact ⟨hn1, hc1, by intro l hl; rw [hs] at hl; simp at hl⟩
    | some s =>
      have hsg : g.sorted = some s := by rw [← hsd]; exact hs
      obtain ⟨hperm, htopo⟩ := hi.valid s hsg
      simp only [hs] at h
      split at h
      · -- fast path: the removed nodes are the head of the sorted list
        rename_i htake
        simp at h; subst h
        have hsplit : s = ns ++ s.drop ns.length := by
          conv => lhs; rw [← List.take_append_drop ns.length s]
          rw [← htake]
        have hsn : s.Nodup := hperm.nodup_iff.mpr hi.nodup
        refine ⟨hn1, hc1, ?_⟩
        intro l hl; simp at hl; subst hl
        constructor
        · have := foldl_erase_perm ns _ _ hperm
          rw [← hnodes] at this
          rw [hsplit] at this
          rw [foldl_erase_prefix ns _ (hsplit ▸ hsn)] at this
          exact this
        · intro l1 x l2 hl e hmem hx
          rw [he] at hmem
          have := htopo (ns ++ l1) x l2 (by rw [List.append_assoc, ← hl]; exact hsplit) e hmem hx
          rcases this with h1 | h1
          · rcases List.mem_append.mp h1 with h2 | h2
            · exact Or.inr (by simp only [hw]; exact List.mem_append_right _ h2)
            · exact Or.inl h2
          · exact Or.inr (by simp only [hw]; exact List.mem_append_left _ h1)
      · split at h
        · simp at h
        · split at h
          · rename_i l hl
            simp at h; subst h
            have hpre : (ns.foldl (fun acc n => acc.erase n) s).Perm g1.nodes := by
              rw [hnodes]; exact foldl_erase_perm ns _ _ hperm
            exact inv_resort hn1 hc1 (fun _ => hpre) hl
          · simp at h

theorem inv_removeConnections : ∀ (ns : List Id) (g g' : G), Inv g →
    removeConnections g ns = (.ok (), g') → Inv g' := by
  intro ns
  induction ns with
  | nil => intro g g' hi h; simp [removeConnections] at h; subst h; exact hi
  | cons n ns ih =>
    intro g g' hi h
    unfold removeConnections at h
    split at h
    · simp at h
    · apply ih _ _ _ h
      refine ⟨hi.nodup, ?_, ?_⟩
      · intro e he h2
        simp only [List.mem_filter, bne_iff_ne, ne_eq] at he
        rcases hi.closed e he.1 h2 with h1 | h1
        · exact Or.inl h1
        · exact Or.inr ((List.mem_erase_of_ne he.2).mpr h1)
      · intro l hl
        obtain ⟨hp, ht⟩ := hi.valid l hl
        refine ⟨hp, ?_⟩
        intro l1 x l2 hsplit e he hx
        simp only [List.mem_filter, bne_iff_ne, ne_eq] at he
        rcases ht l1 x l2 hsplit e he.1 hx with h1 | h1
        · exact Or.inl h1
        · exact Or.inr ((List.mem_erase_of_ne he.2).mpr h1)

theorem not_mem_foldl_erase : ∀ (ns l : List Id) (a : Id), l.Nodup → a ∈ ns →
    a ∉ ns.foldl (fun acc n => acc.erase n) l := by
  intro ns; induction ns with
  | nil => intro l a _ h; simp at h
  | cons n ns ih =>
    intro l a hl ha hmem
    rcases List.mem_cons.mp ha with rfl | ha
    · have h1 := foldl_erase_mem ns (l.erase a) a hmem
      exact (List.Nodup.mem_erase_iff hl).mp h1 |>.1 rfl
    · exact ih (l.erase n) a (hl.erase n) ha hmem

/-- the fields a non-raising `remove_nodes` call leaves behind -/
theorem removeNodes_ok_fields {g g' : G} (ns : List Id) (c : Bool) (h : removeNodes g ns c = (.ok (), g')) :
    g'.edges = g.edges ∧ g'.wip = g.wip ++ ns ∧ g'.nodes = ns.foldl (fun acc n => acc.erase n) g.nodes := by
  unfold removeNodes at h
  split at h
  · simp at h
  · rename_i g1 hm
    obtain ⟨he, _, hw, hnodes⟩ := markLoop_ok c ns g g1 hm
    cases hs : g1.sorted with
    | none => simp [hs] at h; subst h; exact ⟨he, hw, hnodes⟩
    | some s =>
      simp only [hs] at h
      split at h
      · simp at h; subst h; exact ⟨he, hw, hnodes⟩
      · split at h
        · simp at h
        · split at h
          · simp at h; subst h; exact ⟨he, hw, hnodes⟩
          · simp at h

/-- one `remove_previous_connections` step keeps the invariant when the node's outgoing connections do not
    reach a remaining node -/
theorem inv_removePrev1 {g g' : G} (hi : Inv g) (d : Id)
    (hout : ∀ e ∈ g.edges, e.1 = d → e.2 ∉ g.nodes)
    (h : removePrevConnections1 g d = (.ok (), g')) :
    Inv g' ∧ g'.nodes = g.nodes ∧ (∀ e ∈ g'.edges, e ∈ g.edges) := by
  unfold removePrevConnections1 at h
  split at h
  · simp at h
  · simp at h; subst h
    refine ⟨⟨hi.nodup, ?_, ?_⟩, rfl, ?_⟩
    · intro e he h2
      simp only [List.mem_filter, bne_iff_ne, ne_eq] at he
      rcases hi.closed e he.1 h2 with h1 | h1
      · exact Or.inl h1
      · by_cases hd : e.1 = d
        · exact absurd h2 (hout e he.1 hd)
        · exact Or.inr ((List.mem_erase_of_ne hd).mpr h1)
    · intro l hl
      obtain ⟨hp, ht⟩ := hi.valid l hl
      refine ⟨hp, ?_⟩
      intro l1 x l2 hsplit e he hx
      simp only [List.mem_filter, bne_iff_ne, ne_eq] at he
      rcases ht l1 x l2 hsplit e he.1 hx with h1 | h1
      · exact Or.inl h1
      · by_cases hd : e.1 = d
        · have hxn : x ∈ g.nodes := hp.subset (by rw [hsplit]; simp)
          exact absurd (hx ▸ hxn) (hout e he.1 hd)
        · exact Or.inr ((List.mem_erase_of_ne hd).mpr h1)
    · intro e he
      exact (List.mem_filter.mp he).1

theorem inv_removePrev : ∀ (ds : List Id) (g g' : G), Inv g →
    (∀ e ∈ g.edges, e.1 ∈ ds → e.2 ∉ g.nodes) →
    removePrevConnections g ds = (.ok (), g') → Inv g' := by
  intro ds
  induction ds with
  | nil => intro g g' hi _ h; simp [removePrevConnections] at h; subst h; exact hi
  | cons d ds ih =>
    intro g g' hi hout h
    unfold removePrevConnections at h
    split at h
    · rename_i g1 h1
      obtain ⟨hi1, hn1, he1⟩ := inv_removePrev1 hi d (fun e he hd => hout e he (by simp [hd])) h1
      apply ih g1 g' hi1 _ h
      intro e he hd
      rw [hn1]
      exact hout e (he1 e he) (by simp [hd])
    · rename_i r hne
      cases hr : removePrevConnections1 g d with
      | mk o g1 =>
        cases o with
        | ok u => cases u; exact absurd hr (by intro hh; exact hne g1 hh)
        | error e => rw [hr] at h; simp at h

theorem inv_removeSuccessors {g g' : G} (hi : Inv g) (n : Id)
    (h : removeSuccessors g n = (.ok (), g')) : Inv g' := by
  unfold removeSuccessors at h
  simp only at h
  split at h
  · simp at h
  · rename_i g1 h1
    have hi1 := inv_removeConnections [n] g g1 hi h1
    split at h
    · simp at h
    · rename_i hcl
      simp only [Bool.not_eq_true, Bool.not_eq_false] at hcl
      split at h
      · simp at h
      · rename_i g2 h2
        have hi2 := inv_removeNodes hi1 (toRemove g n) false h2
        obtain ⟨he2, hw2, hn2⟩ := removeNodes_ok_fields (toRemove g n) false h2
        apply inv_removePrev (toRemove g n) g2 g' hi2 _ h
        intro e he hd hmem
        rw [he2] at he
        rw [hn2] at hmem
        have hmem1 : e.2 ∈ g1.nodes := foldl_erase_mem _ _ _ hmem
        unfold succClosed at hcl
        simp only [List.all_eq_true, Bool.or_eq_true, Bool.not_eq_true', List.contains_eq_mem,
          decide_eq_false_iff_not, decide_eq_true_eq] at hcl
        rcases hcl e he with (h3 | h3) | h3
        · exact h3 hd
        · exact h3 hmem1
        · exact not_mem_foldl_erase _ _ _ hi1.nodup h3 hmem

theorem inv_readSorted {g g' : G} (hi : Inv g) {l : List Id} (h : readSorted g = (.ok l, g')) :
    Inv g' ∧ g'.sorted = some l := by
  unfold readSorted at h
  cases hs : g.sorted with
  | some s => simp [hs] at h; obtain ⟨rfl, rfl⟩ := h; exact ⟨hi, hs⟩
  | none =>
    simp only [hs] at h
    split at h
    · rename_i l' hl
      simp at h; obtain ⟨rfl, rfl⟩ := h
      exact ⟨inv_resort hi.nodup hi.closed (fun h => absurd rfl h) hl, rfl⟩
    · simp at h

theorem inv_stepOk {g g' : G} (hi : Inv g) (op : Op) (h : stepOk g op = some g') : Inv g' := by
  cases op with
  | addNodes ns =>
    simp only [stepOk] at h
    split at h
    · rename_i u g1 heq; simp at h; subst h; cases u; exact inv_addNodes hi ns heq
    · simp at h
  | addEdges es =>
    simp only [stepOk] at h
    split at h
    · rename_i u g1 heq; simp at h; subst h; cases u; exact inv_addEdges hi es heq
    · simp at h
  | removeNodes ns =>
    simp only [stepOk] at h
    split at h
    · rename_i u g1 heq; simp at h; subst h; cases u; exact inv_removeNodes hi ns true heq
    · simp at h
  | removeConnections ns =>
    simp only [stepOk] at h
    split at h
    · rename_i u g1 heq; simp at h; subst h; cases u; exact inv_removeConnections ns _ _ hi heq
    · simp at h
  | read =>
    simp only [stepOk] at h
    split at h
    · rename_i l g1 heq; simp at h; subst h; exact (inv_readSorted hi heq).1
    · simp at h
  | removeSuccessors n =>
    simp only [stepOk] at h
    split at h
    · rename_i u g1 heq; simp at h; subst h; cases u; exact inv_removeSuccessors hi n heq
    · simp at h

theorem inv_runOk : ∀ (ops : List Op) (g g' : G), Inv g → runOk ops g = some g' → Inv g' := by
  intro ops
  induction ops with
  | nil => intro g g' hi h; simp [runOk] at h; subst h; exact hi
  | cons op ops ih =>
    intro g g' hi h
    unfold runOk at h
    split at h
    · rename_i g1 hs; exact ih _ _ (inv_stepOk hi op hs) h
    · simp at h

end PydraModel.Graph
