import PydraModel.Basic
/-
Engine `Graph` (DESIGN §5.5): `DiGraph` of pydra/engine/graph.py — `sorting/_sorting`, `add_nodes`,
`add_edges`, `remove_nodes`, `remove_nodes_connections`, `sorted_nodes`.

Nodes are identified by their (unique) names, here `Nat`.  The `predecessors`/`successors`
dictionaries of the code are kept coherent with the edge list by every operation of the class, so the
model derives them from `edges` (the correspondence check compares the implementation's dictionaries
with this derivation after every operation).  `wip` is `_node_wip`: nodes already removed from `nodes`
whose outgoing connections are still in `edges`; `sorting` discounts them.
-/
namespace PydraModel.Graph

abbrev Id := Nat

structure G where
  nodes  : List Id
  edges  : List (Id × Id)
  wip    : List Id
  sorted : Option (List Id)
deriving Repr, DecidableEq

def G.empty : G := ⟨[], [], [], none⟩

inductive Err | duplicate | badEdge | notPresent | notReady | cycle | notWip | reused | notClosed
deriving Repr, DecidableEq

/-- `not predecessors[n]` inside `sorting`: every connection into `n` starts at a node that is already
    sorted (`done`) or is marked for removal (`wip`). -/
def ready (g : G) (done : List Id) (n : Id) : Bool :=
  g.edges.all (fun e => e.2 != n || done.contains e.1 || g.wip.contains e.1)

/-- The `while notsorted_nodes:` loop of `sorting` (with the no-progress check).  `fuel` bounds the
    number of passes; `ns.length` passes always suffice (`sortFrom`). `none` = `ValueError` (cycle). -/
def sortLoop (g : G) : Nat → List Id → List Id → Option (List Id)
  | 0, ns, acc => if ns = [] then some acc else none
  | fuel + 1, ns, acc =>
    if ns = [] then some acc else
    let part := ns.filter (ready g acc)
    if part = [] then none
    else sortLoop g fuel (ns.filter (fun n => !ready g acc n)) (acc ++ part)

/-- `sorting(presorted)`: start from `presorted` if it is non-empty, else from `nodes`. -/
def sortFrom (g : G) (presorted : List Id) : Option (List Id) :=
  let start := if presorted = [] then g.nodes else presorted
  sortLoop g start.length start []

/-- An operation returns the Python-visible outcome and the state left behind (exceptions leave the
    partial mutations made before them, as in the code). -/
abbrev Res := Except Err Unit × G

def addNodes (g : G) (new : List Id) : Res :=
  let all := g.nodes ++ new
  if ¬ all.Nodup then (.error .duplicate, g)
  -- MODEL RESTRICTION (not in the code, never generated): a name is not used again while a removed node of
  -- that name is still marked for removal or still occurs in a connection
  else if new.any (fun n => g.wip.contains n || g.edges.any (fun e => e.1 == n || e.2 == n)) then (.error .reused, g)
  else
    let g1 := { g with nodes := all }
    match g.sorted with
    | none => (.ok (), g1)
    | some s => match sortFrom g1 (s ++ new) with
      | some l => (.ok (), { g1 with sorted := some l })
      | none => (.error .cycle, { g1 with sorted := none })

def addEdges (g : G) (new : List (Id × Id)) : Res :=
  if (g.edges ++ new).any (fun e => !(g.nodes.contains e.1 && g.nodes.contains e.2)) then (.error .badEdge, g)
  else
    let g1 := { g with edges := g.edges ++ new }
    match g.sorted with
    | none => (.ok (), g1)
    | some s => match sortFrom g1 s with
      | some l => (.ok (), { g1 with sorted := some l })
      | none => (.error .cycle, { g1 with sorted := none })

/-- the `for nd in nodes:` loop of `remove_nodes` -/
def markLoop (checkReady : Bool) : G → List Id → Except Err Unit × G
  | g, [] => (.ok (), g)
  | g, n :: ns =>
    if ¬ g.nodes.contains n then (.error .notPresent, g)
    else if checkReady && g.edges.any (fun e => e.2 == n) then (.error .notReady, g)
    else markLoop checkReady { g with nodes := g.nodes.erase n, wip := g.wip ++ [n] } ns

def removeNodes (g : G) (ns : List Id) (checkReady : Bool := true) : Res :=
  match markLoop checkReady g ns with
  | (.error e, g1) => (.error e, g1)
  | (.ok (), g1) =>
    match g1.sorted with
    | none => (.ok (), g1)
    | some s =>
      if ns = s.take ns.length then (.ok (), { g1 with sorted := some (s.drop ns.length) })
      else if ns.any (fun n => !s.contains n) then (.error .notPresent, g1)   -- list.remove(x): ValueError
      else
        let s' := ns.foldl (fun acc n => acc.erase n) s
        match sortFrom g1 s' with
        | some l => (.ok (), { g1 with sorted := some l })
        | none => (.error .cycle, { g1 with sorted := none })

/-- `remove_nodes_connections` for nodes marked by `remove_nodes` -/
def removeConnections : G → List Id → Res
  | g, [] => (.ok (), g)
  | g, n :: ns =>
    if ¬ g.wip.contains n then (.error .notWip, { g with edges := g.edges.filter (fun e => e.1 != n) })
    else removeConnections { g with edges := g.edges.filter (fun e => e.1 != n), wip := g.wip.erase n } ns

/-- reading the `sorted_nodes` property -/
def readSorted (g : G) : Except Err (List Id) × G :=
  match g.sorted with
  | some l => (.ok l, g)
  | none => match sortFrom g [] with
    | some l => (.ok l, { g with sorted := some l })
    | none => (.error .cycle, { g with sorted := none })

/-- `remove_previous_connections` for one node marked by `remove_nodes` -/
def removePrevConnections1 (g : G) (n : Id) : Res :=
  if ¬ g.wip.contains n then (.error .notWip, { g with edges := g.edges.filter (fun e => e.2 != n) })
  else (.ok (), { g with edges := g.edges.filter (fun e => e.2 != n), wip := g.wip.erase n })

def removePrevConnections : G → List Id → Res
  | g, [] => (.ok (), g)
  | g, n :: ns => match removePrevConnections1 g n with
    | (.ok (), g') => removePrevConnections g' ns
    | r => r

/-- `successors[a]` derived from the connection list (with multiplicity, in insertion order) -/
def succOf (g : G) (a : Id) : List Id := (g.edges.filter (fun e => e.1 == a)).map (·.2)

/-- `_checking_successors_nodes`: depth-first listing of everything reachable from `a`, with repetitions.
    `fuel` bounds the depth (the number of nodes suffices on an acyclic graph). -/
def dfs (g : G) : Nat → Id → List Id
  | 0, _ => []
  | fuel + 1, a => (succOf g a).flatMap (fun b => b :: dfs g fuel b)

/-- the `to_remove` list of `remove_successors_nodes`: first occurrences, still present in `nodes` -/
def toRemove (g : G) (n : Id) : List Id :=
  ((dfs g (g.nodes.length + g.wip.length + 1) n).eraseDups).filter (fun d => g.nodes.contains d)

/-- every present successor of a listed node is listed (what a complete traversal guarantees) -/
def succClosed (g : G) (ds : List Id) : Bool :=
  g.edges.all (fun e => !(ds.contains e.1) || !(g.nodes.contains e.2) || ds.contains e.2)

/-- `remove_successors_nodes(n)` (after the repair): drop `n`'s connections, mark all successors for removal
    in one `remove_nodes` call, then remove their incoming connections.  `.notClosed` is a model-only outcome
    for an incomplete traversal (fuel exhausted); it does not occur on acyclic graphs. -/
def removeSuccessors (g : G) (n : Id) : Res :=
  let ds := toRemove g n
  match removeConnections g [n] with
  | (.error e, g1) => (.error e, g1)
  | (.ok (), g1) =>
    if ¬ succClosed g1 ds then (.error .notClosed, g1) else
    match removeNodes g1 ds false with
    | (.error e, g2) => (.error e, g2)
    | (.ok (), g2) => removePrevConnections g2 ds

/-- the pre-repair `remove_successors_nodes` (D71), kept as documentation only: each successor is removed and
    its incoming connections dropped before the next one is looked at -/
def removeSuccessorsOld (g : G) (n : Id) : Res :=
  let ds := toRemove g n
  match removeConnections g [n] with
  | (.error e, g1) => (.error e, g1)
  | (.ok (), g1) =>
    ds.foldl (fun (r : Res) d => match r with
      | (.ok (), gi) =>
        if ¬ gi.nodes.contains d then (.ok (), gi) else
        (match removeNodes gi [d] false with
         | (.ok (), gj) => removePrevConnections1 gj d
         | r' => r')
      | r' => r') (.ok (), g1)

inductive Op
  | addNodes (ns : List Id) | addEdges (es : List (Id × Id)) | removeNodes (ns : List Id)
  | removeConnections (ns : List Id) | read | removeSuccessors (n : Id)
deriving Repr, DecidableEq

def step (g : G) : Op → G
  | .addNodes ns => (addNodes g ns).2
  | .addEdges es => (addEdges g es).2
  | .removeNodes ns => (removeNodes g ns).2
  | .removeConnections ns => (removeConnections g ns).2
  | .read => (readSorted g).2
  | .removeSuccessors n => (removeSuccessors g n).2

def run (ops : List Op) : G := ops.foldl step G.empty

end PydraModel.Graph

namespace PydraModel.Graph

/-- outcome of one operation (`none` = the call raised) -/
def stepOk (g : G) : Op → Option G
  | .addNodes ns => match addNodes g ns with | (.ok _, g') => some g' | _ => none
  | .addEdges es => match addEdges g es with | (.ok _, g') => some g' | _ => none
  | .removeNodes ns => match removeNodes g ns with | (.ok _, g') => some g' | _ => none
  | .removeConnections ns => match removeConnections g ns with | (.ok _, g') => some g' | _ => none
  | .read => match readSorted g with | (.ok _, g') => some g' | _ => none
  | .removeSuccessors n => match removeSuccessors g n with | (.ok _, g') => some g' | _ => none

/-- a history of calls none of which raised, from the empty graph -/
def runOk : List Op → G → Option G
  | [], g => some g
  | op :: ops, g => match stepOk g op with
    | some g' => runOk ops g'
    | none => none

end PydraModel.Graph
