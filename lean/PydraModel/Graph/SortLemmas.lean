import PydraModel.Graph.Model
namespace PydraModel.Graph

/-- Every node of `l` is placed after all of its predecessors (sources marked for removal do not count):
    for each split `l = l1 ++ x :: l2`, each connection into `x` starts in `l1` or at a `wip` node. -/
def Topo (g : G) (l : List Id) : Prop :=
  ∀ l1 x l2, l = l1 ++ x :: l2 → ∀ e ∈ g.edges, e.2 = x → e.1 ∈ l1 ∨ e.1 ∈ g.wip

theorem ready_iff (g : G) (done : List Id) (n : Id) :
    ready g done n = true ↔ ∀ e ∈ g.edges, e.2 = n → e.1 ∈ done ∨ e.1 ∈ g.wip := by
  unfold ready
  simp only [List.all_eq_true, Bool.or_eq_true, bne_iff_ne, ne_eq, List.contains_eq_mem,
    decide_eq_true_eq]
  constructor
  · intro h e he hn
    rcases h e he with (h1 | h1) | h1
    · exact absurd hn h1
    · exact Or.inl h1
    · exact Or.inr h1
  · intro h e he
    by_cases hn : e.2 = n
    · rcases h e he hn with h1 | h1
      · exact Or.inl (Or.inr h1)
      · exact Or.inr h1
    · exact Or.inl (Or.inl hn)

theorem ready_mono (g : G) {d d' : List Id} (hsub : ∀ a ∈ d, a ∈ d') {n : Id}
    (h : ready g d n = true) : ready g d' n = true := by
  rw [ready_iff] at *
  intro e he hn
  rcases h e he hn with h1 | h1
  · exact Or.inl (hsub _ h1)
  · exact Or.inr h1

/-- prefix form of `Topo`, convenient as a loop invariant -/
def PrefReady (g : G) (l : List Id) : Prop :=
  ∀ l1 x l2, l = l1 ++ x :: l2 → ready g l1 x = true

theorem topo_of_prefReady {g : G} {l : List Id} (h : PrefReady g l) : Topo g l := by
  intro l1 x l2 hl e he hx
  exact (ready_iff g l1 x).mp (h l1 x l2 hl) e he hx

theorem prefReady_of_topo {g : G} {l : List Id} (h : Topo g l) : PrefReady g l := by
  intro l1 x l2 hl
  exact (ready_iff g l1 x).mpr (h l1 x l2 hl)

theorem prefReady_append {g : G} {acc part : List Id} (h : PrefReady g acc)
    (hp : ∀ x ∈ part, ready g acc x = true) : PrefReady g (acc ++ part) := by
  intro l1 x l2 hl
  rcases List.append_eq_append_iff.mp hl with ⟨a', h1, h2⟩ | ⟨c', h1, h2⟩
  · -- l1 = acc ++ a', part = a' ++ x :: l2
    have hx : x ∈ part := by rw [h2]; simp
    exact ready_mono g (by intro a ha; rw [h1]; exact List.mem_append_left _ ha) (hp x hx)
  · -- acc = l1 ++ c', x :: l2 = c' ++ part
    cases c' with
    | nil =>
      simp at h1 h2
      have hx : x ∈ part := by rw [← h2]; simp
      rw [← h1]; exact hp x hx
    | cons y ys =>
      simp at h2
      obtain ⟨rfl, _⟩ := h2
      exact h l1 x ys h1

theorem sortLoop_spec (g : G) : ∀ (fuel : Nat) (ns acc l : List Id),
    PrefReady g acc → sortLoop g fuel ns acc = some l → PrefReady g l ∧ l.Perm (acc ++ ns) := by
  intro fuel
  induction fuel with
  | zero =>
    intro ns acc l hacc h
    unfold sortLoop at h
    split at h
    · rename_i hns; subst hns; simp at h; subst h; exact ⟨hacc, by simp⟩
    · exact absurd h (by simp)
  | succ fuel ih =>
    intro ns acc l hacc h
    unfold sortLoop at h
    split at h
    · rename_i hns; subst hns; simp at h; subst h; exact ⟨hacc, by simp⟩
    · simp only at h
      split at h
      · exact absurd h (by simp)
      · have hpart : ∀ x ∈ ns.filter (ready g acc), ready g acc x = true := by
          intro x hx; exact (List.mem_filter.mp hx).2
        obtain ⟨h1, h2⟩ := ih _ _ l (prefReady_append hacc hpart) h
        refine ⟨h1, h2.trans ?_⟩
        rw [List.append_assoc]
        exact List.Perm.append_left acc (List.filter_append_perm (ready g acc) ns)

/-- SAFETY of `sorting`, unconditionally: whenever it returns a list, that list is a permutation of
    the nodes it started from and is topologically ordered. -/
theorem sortFrom_spec (g : G) (pre l : List Id) (h : sortFrom g pre = some l) :
    Topo g l ∧ l.Perm (if pre = [] then g.nodes else pre) := by
  unfold sortFrom at h
  have := sortLoop_spec g _ _ [] l (by intro l1 x l2 hl; simp at hl) h
  exact ⟨topo_of_prefReady this.1, by simpa using this.2⟩

/-! ### progress -/

/-- the connections that count for sorting admit a rank function: no cycle -/
def Acyclic (g : G) : Prop := ∃ r : Id → Nat, ∀ e ∈ g.edges, e.1 ∉ g.wip → r e.1 < r e.2

theorem exists_min_rank (r : Id → Nat) : ∀ (ns : List Id), ns ≠ [] → ∃ n ∈ ns, ∀ m ∈ ns, r n ≤ r m := by
  intro ns
  induction ns with
  | nil => intro h; exact absurd rfl h
  | cons x xs ih =>
    intro _
    by_cases hxs : xs = []
    · subst hxs; exact ⟨x, by simp, by intro m hm; simp at hm; subst hm; exact Nat.le_refl _⟩
    · obtain ⟨n, hn, hmin⟩ := ih hxs
      by_cases hle : r x ≤ r n
      · refine ⟨x, by simp, ?_⟩
        intro m hm
        rcases List.mem_cons.mp hm with rfl | hm
        · exact Nat.le_refl _
        · exact Nat.le_trans hle (hmin m hm)
      · refine ⟨n, by simp [hn], ?_⟩
        intro m hm
        rcases List.mem_cons.mp hm with rfl | hm
        · omega
        · exact hmin m hm

theorem sortLoop_progress (g : G) (hac : Acyclic g) : ∀ (fuel : Nat) (ns acc : List Id),
    ns.length ≤ fuel →
    (∀ e ∈ g.edges, e.2 ∈ ns → e.1 ∈ g.wip ∨ e.1 ∈ acc ∨ e.1 ∈ ns) →
    ∃ l, sortLoop g fuel ns acc = some l := by
  obtain ⟨r, hr⟩ := hac
  intro fuel
  induction fuel with
  | zero =>
    intro ns acc hlen _
    have : ns = [] := List.length_eq_zero_iff.mp (Nat.le_zero.mp hlen)
    subst this; exact ⟨acc, by simp [sortLoop]⟩
  | succ fuel ih =>
    intro ns acc hlen hclosed
    unfold sortLoop
    by_cases hns : ns = []
    · exact ⟨acc, by simp [hns]⟩
    · simp only [hns, if_false]
      obtain ⟨n, hn, hmin⟩ := exists_min_rank r ns hns
      have hready : ready g acc n = true := by
        rw [ready_iff]
        intro e he hen
        rcases hclosed e he (hen ▸ hn) with h | h | h
        · exact Or.inr h
        · exact Or.inl h
        · by_cases hw : e.1 ∈ g.wip
          · exact Or.inr hw
          · have h1 := hr e he hw
            have h2 := hmin e.1 h
            rw [hen] at h1; omega
      have hpart : ns.filter (ready g acc) ≠ [] := by
        intro hc
        have : n ∈ ns.filter (ready g acc) := List.mem_filter.mpr ⟨hn, hready⟩
        rw [hc] at this; simp at this
      simp only [hpart, if_false]
      apply ih
      · have h1 : (ns.filter (fun n => !ready g acc n)).length < ns.length := by
          have hlen2 := (List.filter_append_perm (ready g acc) ns).length_eq
          rw [List.length_append] at hlen2
          have : 0 < (ns.filter (ready g acc)).length := List.length_pos_iff.mpr hpart
          omega
        omega
      · intro e he h2
        have h2' : e.2 ∈ ns := (List.mem_filter.mp h2).1
        rcases hclosed e he h2' with h | h | h
        · exact Or.inl h
        · exact Or.inr (Or.inl (List.mem_append_left _ h))
        · by_cases hre : ready g acc e.1 = true
          · exact Or.inr (Or.inl (List.mem_append_right _ (List.mem_filter.mpr ⟨h, hre⟩)))
          · exact Or.inr (Or.inr (List.mem_filter.mpr ⟨h, by simp [hre]⟩))

/-- PROGRESS of `sorting`: on an acyclic graph whose connection sources are all among the nodes being
    sorted (or marked for removal) a sorted list is always produced (no `ValueError`, no endless loop). -/
theorem sortFrom_progress (g : G) (pre : List Id) (hac : Acyclic g)
    (hclosed : ∀ e ∈ g.edges, e.2 ∈ (if pre = [] then g.nodes else pre) →
      e.1 ∈ g.wip ∨ e.1 ∈ (if pre = [] then g.nodes else pre)) :
    ∃ l, sortFrom g pre = some l := by
  unfold sortFrom
  apply sortLoop_progress g hac _ _ _ (Nat.le_refl _)
  intro e he h2
  rcases hclosed e he h2 with h | h
  · exact Or.inl h
  · exact Or.inr (Or.inr h)

end PydraModel.Graph
