/-
Shared, import-free helpers for all engines (no Mathlib here: drivers import this).
-/
namespace PydraModel

/-- Python `str.split(sep)` for a single-character separator (keeps empty pieces). -/
def splitOnChar (c : Char) : List Char → List (List Char)
  | [] => [[]]
  | x :: xs =>
    if x = c then [] :: splitOnChar c xs
    else match splitOnChar c xs with
      | [] => [[x]]
      | p :: ps => (x :: p) :: ps

/-- Python `str.startswith`. -/
def strStartsWith (s p : String) : Bool := p.toList.isPrefixOf s.toList

end PydraModel
