import PydraModel.Batch.Model
/-
Helper lemmas for C28: detection of user options in `sbatch_args` by the look-behind regexes.
-/
namespace PydraModel.Batch
open PydraModel.Envs.Lmod (isPySpace)

/-! ### option detection -/

theorem scanOpt_cons (sh lg rp : Str) (c : Char) (cs : Str) :
    scanOpt sh lg rp (c :: cs) =
      if !isPySpace c && (sh.reverse.isPrefixOf rp || lg.reverse.isPrefixOf rp) then some (takeNonSpace (c :: cs))
      else scanOpt sh lg (c :: rp) cs := rfl

/-- text in which nothing is detected can be skipped -/
theorem scanOpt_none_append (sh lg : Str) (pre t rp : Str) (h : scanOpt sh lg rp pre = none) :
    scanOpt sh lg rp (pre ++ t) = scanOpt sh lg (pre.reverse ++ rp) t := by
  induction pre generalizing rp with
  | nil => rfl
  | cons c cs ih =>
    rw [scanOpt_cons] at h
    rw [List.cons_append, scanOpt_cons]
    split at h
    · cases h
    · rename_i hc
      simp only [hc, if_false, Bool.false_eq_true]
      rw [ih _ h]
      simp

/-- a detection inside a prefix stays a detection when text is appended -/
theorem scanOpt_some_append (sh lg : Str) (pre t rp : Str) (h : (scanOpt sh lg rp pre).isSome = true) :
    (scanOpt sh lg rp (pre ++ t)).isSome = true := by
  induction pre generalizing rp with
  | nil => simp [scanOpt] at h
  | cons c cs ih =>
    rw [scanOpt_cons] at h
    rw [List.cons_append, scanOpt_cons]
    split
    · rfl
    · rename_i hc
      simp only [hc, if_false, Bool.false_eq_true] at h
      exact ih _ h

theorem takeNonSpace_value (v rest : Str) (hv : ∀ c ∈ v, isPySpace c = false)
    (hr : rest = [] ∨ ∃ y ys, rest = y :: ys ∧ isPySpace y = true) : takeNonSpace (v ++ rest) = v := by
  induction v with
  | nil =>
    rcases hr with rfl | ⟨y, ys, rfl, hy⟩
    · rfl
    · simp [takeNonSpace, hy]
  | cons c cs ih =>
    have hc := hv c (by simp)
    simp [takeNonSpace, hc, ih (fun d hd => hv d (by simp [hd]))]

/-- right behind the option text a value is detected -/
theorem scanOpt_hit (sh lg x : Str) (mark : Str) (hm : mark = sh ∨ mark = lg) (v0 : Char) (vs rest : Str)
    (hv0 : isPySpace v0 = false) :
    scanOpt sh lg (mark.reverse ++ x) (v0 :: vs ++ rest) = some (takeNonSpace (v0 :: vs ++ rest)) := by
  rw [List.cons_append, scanOpt_cons]
  have : (sh.reverse.isPrefixOf (mark.reverse ++ x) || lg.reverse.isPrefixOf (mark.reverse ++ x)) = true := by
    rcases hm with rfl | rfl
    · simp [List.isPrefixOf_iff_prefix]
    · simp [List.isPrefixOf_iff_prefix]
  simp [hv0, this]

/-- whatever precedes it, an option written in either spelling with a value is detected (so no second one is added) -/
theorem findOpt_isSome (sh lg : Str) (mark : Str) (hm : mark = sh ∨ mark = lg) (pre : Str) (v0 : Char) (vs rest : Str)
    (hv0 : isPySpace v0 = false) : (findOpt sh lg (pre ++ mark ++ (v0 :: vs ++ rest))).isSome = true := by
  unfold findOpt
  cases h : scanOpt sh lg [] (pre ++ mark) with
  | some y => exact scanOpt_some_append sh lg _ _ _ (by simp [h])
  | none =>
    rw [scanOpt_none_append sh lg _ _ _ h]
    have : (pre ++ mark).reverse ++ [] = mark.reverse ++ pre.reverse := by simp
    rw [this, scanOpt_hit sh lg _ mark hm v0 vs rest hv0]
    rfl

/-- the first option of that kind is read with its whole value -/
theorem findOpt_value (sh lg : Str) (mark : Str) (hm : mark = sh ∨ mark = lg) (pre v rest : Str)
    (hne : v ≠ []) (hv : ∀ c ∈ v, isPySpace c = false)
    (hr : rest = [] ∨ ∃ y ys, rest = y :: ys ∧ isPySpace y = true)
    (hfirst : scanOpt sh lg [] (pre ++ mark) = none) :
    findOpt sh lg (pre ++ mark ++ (v ++ rest)) = some v := by
  unfold findOpt
  rw [scanOpt_none_append sh lg _ _ _ hfirst]
  cases v with
  | nil => exact absurd rfl hne
  | cons v0 vs =>
    have : (pre ++ mark).reverse ++ [] = mark.reverse ++ pre.reverse := by simp
    rw [this, scanOpt_hit sh lg _ mark hm v0 vs rest (hv v0 (by simp))]
    rw [takeNonSpace_value (v0 :: vs) rest hv hr]

end PydraModel.Batch
