import PydraModel.Envs.Lmod
/-
Engine `Batch` (DESIGN §5.8, property C28): `SlurmWorker.run / _poll_job / _verify_exit_code` (pydra/workers/slurm.py)
as a machine over the responses of the scheduler commands, and the part of `SgeWorker.run` (pydra/workers/sge.py)
that every submission reaches.

    slurmRun : Args → World → List Response → Outcome

A `Response` is the `(rc, stdout, stderr)` of the next `sbatch / squeue / sacct / scontrol` call, in the order the
worker makes them.  Two layers:
  * `classify…`  raw text → observation (the source's regexes as hand-written matchers; the regex strings are
                 regenerated from /repo into `Gen/EnvRegexes.lean` and pinned in `Props/C28.lean`);
  * `stepObs`    the decision logic on observations.
Strings are `List Char`.  `\d`, `\w` are modelled for ASCII text (scheduler output is ASCII).
-/
namespace PydraModel.Batch

abbrev Str := List Char

open PydraModel.Envs.Lmod (isPySpace)

/-! ### small string functions -/

def isDigit (c : Char) : Bool := '0' ≤ c && c ≤ '9'

/-- `\w` on ASCII text -/
def isWord (c : Char) : Bool := isDigit c || ('a' ≤ c && c ≤ 'z') || ('A' ≤ c && c ≤ 'Z') || c == '_'

/-- Python `pat in s` -/
def isInfix (pat : Str) : Str → Bool
  | [] => pat.isEmpty
  | c :: cs => pat.isPrefixOf (c :: cs) || isInfix pat cs

/-- Python `s.replace(pat, rep)` for a non-empty `pat` (leftmost, non-overlapping); `skip` = characters of the
    current occurrence still to be dropped -/
def replaceGo (pat rep : Str) : Nat → Str → Str
  | _, [] => []
  | k + 1, _ :: cs => replaceGo pat rep k cs
  | 0, c :: cs =>
    if pat.isPrefixOf (c :: cs) then rep ++ replaceGo pat rep (pat.length - 1) cs
    else c :: replaceGo pat rep 0 cs

def replace (pat rep s : Str) : Str := replaceGo pat rep 0 s

/-- Python `s.split()` (runs of whitespace separate, no empty pieces) -/
def pySplitGo : Str → Str → List Str
  | cur, [] => if cur.isEmpty then [] else [cur.reverse]
  | cur, c :: cs =>
    if isPySpace c then (if cur.isEmpty then pySplitGo [] cs else cur.reverse :: pySplitGo [] cs)
    else pySplitGo (c :: cur) cs

def pySplit (s : Str) : List Str := pySplitGo [] s

def natOfDigits (s : Str) : Nat := s.foldl (fun n c => 10 * n + (c.toNat - '0'.toNat)) 0

/-! ### user options in `sbatch_args`: `(?<=-J )\S+|(?<=--job-name=)\S+` and its siblings -/

def takeNonSpace : Str → Str
  | [] => []
  | c :: cs => if isPySpace c then [] else c :: takeNonSpace cs

/-- leftmost position that is preceded by `sh` or by `lg` (look-behind) and holds a non-space character; the match is the
    maximal run of non-space characters from there.  `revPre` = the text before the position, reversed. -/
def scanOpt (sh lg : Str) : Str → Str → Option Str
  | _, [] => none
  | revPre, c :: cs =>
    if !isPySpace c && (sh.reverse.isPrefixOf revPre || lg.reverse.isPrefixOf revPre) then some (takeNonSpace (c :: cs))
    else scanOpt sh lg (c :: revPre) cs

def findOpt (sh lg : Str) (s : Str) : Option Str := scanOpt sh lg [] s

def findJobName := findOpt "-J ".toList "--job-name=".toList
def findOutput := findOpt "-o ".toList "--output=".toList
def findError := findOpt "-e ".toList "--error=".toList

/-- what the worker would add on its own: job name, output file, error file, and the batch script -/
structure Defaults where
  jobName : Str
  outFile : Str
  errFile : Str
  script : Str

/-- the argument list given to `sbatch`, and the error-file pattern the worker remembers -/
def sbatchArgs (user : Str) (d : Defaults) : List Str × Str :=
  let s0 := pySplit user
  let s1 := if (findJobName user).isSome then s0 else s0 ++ ["--job-name=".toList ++ d.jobName]
  let s2 := if (findOutput user).isSome then s1 else s1 ++ ["--output=".toList ++ d.outFile]
  match findError user with
  | some e => (s2 ++ [d.script], e)
  | none => (s2 ++ ["--error=".toList ++ d.errFile] ++ [d.script], d.errFile)

/-! ### `re.search(r"\d+", stdout)` -/

def spanP (p : Char → Bool) : Str → Str × Str
  | [] => ([], [])
  | c :: cs => if p c then let (a, b) := spanP p cs; (c :: a, b) else ([], c :: cs)

def firstDigits : Str → Option Str
  | [] => none
  | c :: cs => if isDigit c then some (spanP isDigit (c :: cs)).1 else firstDigits cs

/-! ### `_sacct_re = (?P<jobid>\d*) +(?P<status>\w*)\+? +(?P<exit_code>\d+):\d+`

Anchored at a position the backtracking search is deterministic: the job id is the maximal digit run (it must be
followed by a blank), then either
  A  all blanks, the maximal word run as status, an optional `+`, at least one blank, the maximal digit run as exit
     code, `:` and a digit; or, when A fails and there are at least two blanks,
  B  the blanks are shared between the two ` +`, the status is empty, and digits `:` digit follow at once. -/

def isBlank (c : Char) : Bool := c == ' '

def codeThenSignal (s : Str) : Option Str :=
  let (d1, r) := spanP isDigit s
  match d1, r with
  | _ :: _, ':' :: x :: _ => if isDigit x then some d1 else none
  | _, _ => none

/-- `\+?` (greedy; giving the `+` back never helps because a blank must follow) -/
def stripPlus : Str → Str
  | '+' :: r => r
  | r => r

def sacctAt (s : Str) : Option (Str × Str) :=
  let (_, r0) := spanP isDigit s
  let (s1, r1) := spanP isBlank r0
  if s1.isEmpty then none else
  let (w, r2) := spanP isWord r1
  let r3 := stripPlus r2
  let (s2, r4) := spanP isBlank r3
  let a : Option (Str × Str) :=
    if s2.isEmpty then none else (codeThenSignal r4).map (fun code => (w, code))
  match a with
  | some x => some x
  | none => if s1.length ≥ 2 then (codeThenSignal r1).map (fun code => ([], code)) else none

/-- `_sacct_re.search(stdout)`: (status, exit_code) of the leftmost match -/
def sacctSearch : Str → Option (Str × Str)
  | [] => sacctAt []
  | c :: cs => match sacctAt (c :: cs) with
    | some x => some x
    | none => sacctSearch cs

/-! ### observations -/

structure Response where
  rc : Nat
  out : Str
  err : Str

inductive Verdict where
  | done                                  -- `run` returns True
  | raised (cls : String) (msg : Str)     -- `run` raises
  | stillPolling                          -- the response stream ended first
  deriving DecidableEq, Repr

inductive SubmitObs where
  | failed (stderr : Str)
  | noJobId
  | submitted (jobid : Str)

def classifySbatch (r : Response) : SubmitObs :=
  if r.rc != 0 then .failed r.err
  else match firstDigits r.out with
    | some j => .submitted j
    | none => .noJobId

/-- `_poll_job`: `not stdout or "slurm_load_jobs error" in stderr` -/
def squeueGone (r : Response) : Bool := r.out.isEmpty || isInfix "slurm_load_jobs error".toList r.err

inductive AcctObs where
  | noInfo                                  -- sacct printed nothing
  | unparsable                              -- `_sacct_re.search` returned None
  | record (status : Str) (code : Nat)
  deriving DecidableEq, Repr

def classifySacct (r : Response) : AcctObs :=
  if r.out.isEmpty then .noInfo
  else match sacctSearch r.out with
    | none => .unparsable
    | some (st, code) => .record st (natOfDigits code)

def requeueStates : List Str := ["CANCELLED".toList, "TIMEOUT".toList, "PREEMPTED".toList]
def pollingStates : List Str := ["RUNNING".toList, "PENDING".toList]
def completedState : Str := "COMPLETED".toList

/-- the message `_verify_exit_code` builds from the job's error file (`none` = the file does not exist) -/
def failureOf (errFile : Option Str) : Verdict :=
  match errFile with
  | none => .raised "FileNotFoundError" []
  | some txt =>
    let lines := splitOnChar '\n' txt
    if lines.length < 2 then .raised "IndexError" []
    else
      let line := lines.getD (lines.length - 2) []
      if isInfix "Exception".toList line then .raised "Exception" (replace "Exception: ".toList [] line)
      else if isInfix "Error".toList line then .raised "Exception" (replace "Exception: ".toList [] line)
      else .raised "Exception" "Job failed (unknown reason - TODO)".toList

/-- outcome of `_verify_exit_code` -/
inductive Acct where
  | success
  | requeue
  | polling
  | failure (v : Verdict)
  deriving DecidableEq, Repr

def verify (errFile : Option Str) : AcctObs → Acct
  | .noInfo => .failure (.raised "RuntimeError" "Job information not found".toList)
  | .unparsable => .failure (.raised "AttributeError" [])
  | .record st code =>
    if code != 0 || st != completedState then
      if requeueStates.contains st then .requeue
      else if pollingStates.contains st then .polling
      else .failure (failureOf errFile)
    else .success

/-! ### the machine -/

inductive Phase where
  | submit
  | squeue
  | sacct
  | scontrol
  | fin (v : Verdict)
  deriving DecidableEq, Repr

structure St where
  phase : Phase
  calls : List (List Str)        -- argv of every scheduler command issued so far
  jobid : Str
  errPath : Str                  -- `self.error[jobid]`
  requeues : Nat

structure Args where
  user : Str                     -- `sbatch_args`
  defaults : Defaults

/-- what the world holds: contents of files that may be read as the job's error file -/
structure World where
  files : List (Str × Str)

def World.read (w : World) (p : Str) : Option Str :=
  match w.files.find? (fun f => f.1 == p) with
  | some f => some f.2
  | none => none

def noRequeue (a : Args) : Bool := isInfix "--no-requeue".toList a.user

def squeueCmd (jobid : Str) : List Str := ["squeue".toList, "-h".toList, "-j".toList, jobid]
def sacctCmd (jobid : Str) : List Str :=
  ["sacct".toList, "-n".toList, "-X".toList, "-j".toList, jobid, "-o".toList, "JobID,State,ExitCode".toList]
def scontrolCmd (jobid : Str) : List Str := ["scontrol".toList, "requeue".toList, jobid]

def init (a : Args) : St :=
  { phase := .submit, calls := [("sbatch".toList :: (sbatchArgs a.user a.defaults).1)], jobid := [], errPath := [], requeues := 0 }

/-- one scheduler response.  The command that the *next* phase issues is appended to `calls` at once (it is issued
    before its response is read). -/
def step (a : Args) (w : World) (s : St) (r : Response) : St :=
  match s.phase with
  | .fin _ => s
  | .submit =>
    match classifySbatch r with
    | .failed e => { s with phase := .fin (.raised "RuntimeError" ("Error returned from sbatch: ".toList ++ e)) }
    | .noJobId => { s with phase := .fin (.raised "RuntimeError" "Could not extract job ID".toList) }
    | .submitted j =>
      { s with phase := .squeue, jobid := j, errPath := replace "%j".toList j (sbatchArgs a.user a.defaults).2,
               calls := s.calls ++ [squeueCmd j] }
  | .squeue =>
    if squeueGone r then { s with phase := .sacct, calls := s.calls ++ [sacctCmd s.jobid] }
    else { s with calls := s.calls ++ [squeueCmd s.jobid] }
  | .sacct =>
    match verify (w.read s.errPath) (classifySacct r) with
    | .success => { s with phase := .fin .done }
    | .polling => { s with phase := .squeue, calls := s.calls ++ [squeueCmd s.jobid] }
    | .failure v => { s with phase := .fin v }
    | .requeue =>
      if noRequeue a then { s with phase := .fin .done }
      else { s with phase := .scontrol, calls := s.calls ++ [scontrolCmd s.jobid], requeues := s.requeues + 1 }
  | .scontrol => { s with phase := .squeue, calls := s.calls ++ [squeueCmd s.jobid] }

def runFrom (a : Args) (w : World) (s : St) (rs : List Response) : St := rs.foldl (step a w) s

structure Outcome where
  verdict : Verdict
  calls : List (List Str)
  requeues : Nat
  errPath : Str

def verdictOf (s : St) : Verdict := match s.phase with | .fin v => v | _ => .stillPolling

def outcomeOf (s : St) : Outcome :=
  { verdict := verdictOf s, calls := s.calls, requeues := s.requeues, errPath := s.errPath }

/-- `SlurmWorker.run` against a scripted scheduler -/
def slurmRun (a : Args) (w : World) (rs : List Response) : Outcome := outcomeOf (runFrom a w (init a) rs)

/-! ### what the submitter makes of the worker's verdict -/

inductive Final where
  | complete
  | failed
  | stillPolling
  | hang                -- the submission never returns
  deriving DecidableEq, Repr

/-- a plain task: `Submitter.__call__` looks for the result after `worker.run` returned -/
def submitPlain (v : Verdict) (resultExists : Bool) : Final :=
  match v with
  | .done => if resultExists then .complete else .failed
  | .raised _ _ => .failed
  | .stillPolling => .stillPolling

/-- a workflow node: `expand_workflow_async` keeps asking for runnable jobs; a node whose worker returned without a
    result stays "queued" for ever (D24) -/
def submitNode (v : Verdict) (resultExists : Bool) : Final :=
  match v with
  | .done => if resultExists then .complete else .hang
  | .raised _ _ => .failed
  | .stillPolling => .stillPolling

/-! ### `load_and_run` (pydra/engine/job.py): what the batch script's interpreter leaves behind

    try: job = load_job(job_pkl)
    except Exception:
        if job_pkl.parent.exists(): record_error(parent); save(parent, result=Result(cache_dir=…, errored=True, …))
        raise
    try: job.run(rerun)
    except Exception as e:
        if not errorfile.exists(): record_error(job.cache_dir, …)
        if not resultfile.exists(): save(job.cache_dir, result=Result(cache_dir=…, errored=True, …))
        e.add_note(…); raise
-/

/-- does a call `Result(**kwargs)` succeed: only known field names, every field without default given -/
def ctorOK (fields mandatory kwargs : List String) : Bool :=
  kwargs.all (fun k => fields.contains k) && mandatory.all (fun m => kwargs.contains m)

structure LRIn where
  pklIsPath : Bool         -- the handler sees `job_pkl` as a `Path` (the batch scripts pass a `str`, which has no `.parent`)
  pickleLoads : Bool       -- `load_job` succeeds
  parentExists : Bool      -- `job_pkl.parent.exists()`
  runRaises : Bool         -- `job.run` raises
  resultByRun : Bool       -- `job.run` saved a result before raising
  errorByRun : Bool        -- `job.run` recorded `_error.pklz` before raising
  deriving DecidableEq, Repr

inductive LRExc where
  | none                   -- returns the result file
  | original               -- the exception of `load_job` / `job.run` is re-raised
  | typeError              -- `Result(...)` itself raised in the handler, masking the original exception
  | attributeError         -- `job_pkl.parent` on a `str` raised in the handler, masking the original exception
  deriving DecidableEq, Repr

structure LROut where
  exc : LRExc
  erroredResultWritten : Bool     -- the handler saved an errored result
  errorFileWritten : Bool         -- the handler recorded the error file
  resultKept : Bool               -- a result written by `job.run` is left as it is
  deriving DecidableEq, Repr

/-- does the unloadable-pickle handler see a `Path`: `load_and_run` converts its argument first (after repair D72s), or
    the caller passed a `Path` -/
def handlerSeesPath (converts argIsPath : Bool) : Bool := converts || argIsPath

/-- `ok1`, `ok2`: whether the `Result(...)` call of the first / second handler can be evaluated -/
def loadAndRun (ok1 ok2 : Bool) (i : LRIn) : LROut :=
  if !i.pickleLoads then
    if !i.pklIsPath then ⟨.attributeError, false, false, false⟩
    else if i.parentExists then
      if ok1 then ⟨.original, true, true, false⟩ else ⟨.typeError, false, true, false⟩
    else ⟨.original, false, false, false⟩
  else if !i.runRaises then ⟨.none, false, false, true⟩
  else
    let wroteErr := !i.errorByRun
    if i.resultByRun then ⟨.original, false, wroteErr, true⟩
    else if ok2 then ⟨.original, true, wroteErr, false⟩
    else ⟨.typeError, false, wroteErr, false⟩

/-! ### SGE: the statements every `SgeWorker.run` executes before the first `qsub` -/

inductive PyVal where
  | dict
  | int
  deriving DecidableEq, Repr

/-- `x += n` for an int `n` -/
def augAddInt : PyVal → Except String PyVal
  | .int => .ok .int
  | .dict => .error "TypeError"

/-- `self.threads_used += threads_requested * len(tasks_to_run)` precedes `submit_array_job` -/
def sgeRun (threadsUsed : PyVal) (augBeforeSubmit : Bool) (tasks : Nat) (_rs : List Response) : Outcome :=
  if tasks = 0 then { verdict := .done, calls := [], requeues := 0, errPath := [] }
  else if augBeforeSubmit then
    match augAddInt threadsUsed with
    | .error e => { verdict := .raised e [], calls := [], requeues := 0, errPath := [] }
    | .ok _ => { verdict := .stillPolling, calls := [["qsub".toList]], requeues := 0, errPath := [] }
  else { verdict := .stillPolling, calls := [["qsub".toList]], requeues := 0, errPath := [] }

end PydraModel.Batch
