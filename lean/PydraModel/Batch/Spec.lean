import PydraModel.Batch.Model
/-
Reference semantics for C28: the verdict table of the property, over an abstract scheduler history, and the text a
scheduler prints for such a history.
-/
namespace PydraModel.Batch

/-- one accounting line as `sacct -n -X -j <id> -o JobID,State,ExitCode` prints it: columns padded with blanks, a
    truncated state is marked with `+`, the exit code is `<code>:<signal>` -/
structure AcctLine where
  jobid : Str
  pad1 : Nat          -- blanks between the columns are pad + 1
  state : Str
  plus : Bool
  pad2 : Nat
  code : Str
  signal : Str
  trail : Str

def blanks (n : Nat) : Str := List.replicate n ' '

def AcctLine.render (l : AcctLine) : Str :=
  l.jobid ++ ' ' :: blanks l.pad1 ++ l.state ++ (if l.plus then ['+'] else []) ++ ' ' :: blanks l.pad2
    ++ l.code ++ ':' :: l.signal ++ l.trail

/-- digits for the numeric columns, a non-empty word for the state -/
def AcctLine.WF (l : AcctLine) : Prop :=
  (∀ c ∈ l.jobid, isDigit c = true) ∧ l.state ≠ [] ∧ (∀ c ∈ l.state, isWord c = true)
  ∧ l.code ≠ [] ∧ (∀ c ∈ l.code, isDigit c = true) ∧ l.signal ≠ [] ∧ (∀ c ∈ l.signal, isDigit c = true)

/-- what one polling round finds -/
inductive Poll where
  | queued (out err : Str)      -- `squeue` lists the job (pending or running)
  | ended (l : AcctLine)        -- `squeue` no longer lists it; the accounting record
  | noAccounting                -- `squeue` no longer lists it and `sacct` prints nothing

def Poll.WF : Poll → Prop
  | .queued out err => out ≠ [] ∧ isInfix "slurm_load_jobs error".toList err = false
  | .ended l => l.WF
  | .noAccounting => True

inductive SpecVerdict where
  | complete
  | failed
  | stillPolling
  deriving DecidableEq, Repr

def isRequeueState (st : Str) : Bool := requeueStates.contains st
def isPollingState (st : Str) : Bool := pollingStates.contains st
def isSuccess (st code : Str) : Bool := st == completedState && natOfDigits code == 0

/-- THE TABLE (worker level): complete when the scheduler reports COMPLETED with exit code 0; requeued (and polling goes
    on) after CANCELLED / TIMEOUT / PREEMPTED; polling goes on while the scheduler still says RUNNING / PENDING; failed for
    every other final state and for missing accounting; still polling when the history ends before any of these.
    Second component: how many times the job was requeued. -/
def specPolls : List Poll → SpecVerdict × Nat
  | [] => (.stillPolling, 0)
  | .queued _ _ :: ps => specPolls ps
  | .noAccounting :: _ => (.failed, 0)
  | .ended l :: ps =>
    if isSuccess l.state l.code then (.complete, 0)
    else if isRequeueState l.state then let (v, n) := specPolls ps; (v, n + 1)
    else if isPollingState l.state then specPolls ps
    else (.failed, 0)

def specOf : Verdict → SpecVerdict
  | .done => .complete
  | .raised _ _ => .failed
  | .stillPolling => .stillPolling

/-- the submission as a whole: complete exactly when the scheduler reports successful completion AND the result exists -/
def specFinal (v : SpecVerdict) (resultExists : Bool) : Final :=
  match v with
  | .complete => if resultExists then .complete else .failed
  | .failed => .failed
  | .stillPolling => .stillPolling

/-! ### what the scheduler commands print for a history -/

def rSubmit (j : Str) : Response := ⟨0, "Submitted batch job ".toList ++ j ++ ['\n'], []⟩
def rGone : Response := ⟨0, [], []⟩
def rAck : Response := ⟨0, [], []⟩

/-- responses of one polling round; after a requeue-able final state the worker calls `scontrol requeue`, which answers -/
def renderPoll : Poll → List Response
  | .queued out err => [⟨0, out, err⟩]
  | .noAccounting => [rGone, ⟨0, [], []⟩]
  | .ended l =>
    [rGone, ⟨0, l.render, []⟩]
      ++ (if !isSuccess l.state l.code && isRequeueState l.state then [rAck] else [])

def renderPolls (ps : List Poll) : List Response := ps.flatMap renderPoll

end PydraModel.Batch
