import PydraModel.Batch.LemmasParse
/-
Helper lemmas for C28: the polling machine follows the verdict table from any polling state.
-/
namespace PydraModel.Batch

/-! ### the machine -/

theorem runFrom_nil (a : Args) (w : World) (s : St) : runFrom a w s [] = s := rfl

theorem runFrom_cons (a : Args) (w : World) (s : St) (r : Response) (rs : List Response) :
    runFrom a w s (r :: rs) = runFrom a w (step a w s r) rs := rfl

theorem runFrom_append (a : Args) (w : World) (s : St) (rs ts : List Response) :
    runFrom a w s (rs ++ ts) = runFrom a w (runFrom a w s rs) ts := by
  simp [runFrom, List.foldl_append]

/-- once a verdict is reached nothing further is consumed or issued -/
theorem runFrom_fin (a : Args) (w : World) (s : St) (v : Verdict) (h : s.phase = .fin v) (rs : List Response) :
    runFrom a w s rs = s := by
  induction rs with
  | nil => rfl
  | cons r rs ih =>
    rw [runFrom_cons]
    have : step a w s r = s := by simp [step, h]
    rw [this, ih]

theorem squeueGone_rGone : squeueGone rGone = true := by decide

/-- state of the worker while it polls job `j` -/
structure Polling (s : St) (j : Str) : Prop where
  phase : s.phase = .squeue
  jobid : s.jobid = j

theorem verify_record (ef : Option Str) (st : Str) (code : Nat) :
    verify ef (.record st code) =
      if st == completedState && code == 0 then .success
      else if isRequeueState st then .requeue
      else if isPollingState st then .polling
      else .failure (failureOf ef) := by
  unfold verify isRequeueState isPollingState
  by_cases h1 : st = completedState <;> by_cases h2 : code = 0 <;> simp [h1, h2]

theorem failureOf_spec (ef : Option Str) : ∃ c m, failureOf ef = .raised c m := by
  unfold failureOf
  cases ef with
  | none => exact ⟨_, _, rfl⟩
  | some txt =>
    simp only
    split
    · exact ⟨_, _, rfl⟩
    · split
      · exact ⟨_, _, rfl⟩
      · split <;> exact ⟨_, _, rfl⟩

theorem specOf_failureOf (ef : Option Str) : specOf (failureOf ef) = .failed := by
  obtain ⟨c, m, h⟩ := failureOf_spec ef
  rw [h]; rfl

/-- THE TABLE, for histories of any length, from any polling state -/
theorem table_from (a : Args) (w : World) (hnr : noRequeue a = false) (j : Str) (polls : List Poll)
    (hwf : ∀ p ∈ polls, p.WF) (s : St) (hs : Polling s j) :
    specOf (verdictOf (runFrom a w s (renderPolls polls))) = (specPolls polls).1
    ∧ (runFrom a w s (renderPolls polls)).requeues = s.requeues + (specPolls polls).2 := by
  induction polls generalizing s with
  | nil => simp [renderPolls, runFrom_nil, verdictOf, hs.phase, specPolls, specOf]
  | cons p ps ih =>
    have hps : ∀ q ∈ ps, q.WF := fun q hq => hwf q (by simp [hq])
    have hp := hwf p (by simp)
    have hrp : renderPolls (p :: ps) = renderPoll p ++ renderPolls ps := by simp [renderPolls]
    rw [hrp, runFrom_append]
    cases p with
    | queued out err =>
      simp only [Poll.WF] at hp
      have hgone : squeueGone ⟨0, out, err⟩ = false := by
        unfold squeueGone
        have : out.isEmpty = false := by
          cases out with
          | nil => exact absurd rfl hp.1
          | cons _ _ => rfl
        rw [this, Bool.false_or]; exact hp.2
      have hstep : runFrom a w s (renderPoll (.queued out err)) = { s with calls := s.calls ++ [squeueCmd s.jobid] } := by
        simp [renderPoll, runFrom_cons, runFrom_nil, step, hs.phase, hgone]
      rw [hstep]
      have := ih hps { s with calls := s.calls ++ [squeueCmd s.jobid] } ⟨hs.phase, hs.jobid⟩
      simpa [specPolls] using this
    | noAccounting =>
      have hstep : (runFrom a w s (renderPoll .noAccounting)).phase
          = .fin (.raised "RuntimeError" "Job information not found".toList) := by
        simp [renderPoll, runFrom_cons, runFrom_nil, step, hs.phase, squeueGone_rGone, classifySacct, verify]
      have hreq : (runFrom a w s (renderPoll .noAccounting)).requeues = s.requeues := by
        simp [renderPoll, runFrom_cons, runFrom_nil, step, hs.phase, squeueGone_rGone, classifySacct, verify]
      rw [runFrom_fin a w _ _ hstep]
      simp [verdictOf, hstep, specPolls, specOf, hreq]
    | ended l =>
      simp only [Poll.WF] at hp
      have hcl := classifySacct_render l hp
      -- after the squeue round: the worker asks sacct
      let s1 : St := { s with phase := .sacct, calls := s.calls ++ [sacctCmd s.jobid] }
      have h1 : step a w s rGone = s1 := by simp [step, hs.phase, squeueGone_rGone, s1]
      have hv := verify_record (w.read s1.errPath) l.state (natOfDigits l.code)
      by_cases hsucc : isSuccess l.state l.code = true
      · -- COMPLETED 0 : done
        have hcond : (l.state == completedState && natOfDigits l.code == 0) = true := hsucc
        have hstep : (runFrom a w s (renderPoll (.ended l))).phase = .fin .done := by
          simp [renderPoll, hsucc, runFrom_cons, runFrom_nil, h1]
          simp [step, s1, hcl, hv, hcond]
        have hreq : (runFrom a w s (renderPoll (.ended l))).requeues = s.requeues := by
          simp [renderPoll, hsucc, runFrom_cons, runFrom_nil, h1]
          simp [step, s1, hcl, hv, hcond]
        rw [runFrom_fin a w _ _ hstep]
        simp [verdictOf, hstep, specPolls, hsucc, specOf, hreq]
      · have hsf : isSuccess l.state l.code = false := by simpa using hsucc
        have hcond : (l.state == completedState && natOfDigits l.code == 0) = false := hsf
        by_cases hrq : isRequeueState l.state = true
        · -- requeue, then polling goes on
          let s2 : St := { s1 with phase := .scontrol, calls := s1.calls ++ [scontrolCmd s1.jobid], requeues := s1.requeues + 1 }
          let s3 : St := { s2 with phase := .squeue, calls := s2.calls ++ [squeueCmd s2.jobid] }
          have hstep : runFrom a w s (renderPoll (.ended l)) = s3 := by
            simp [renderPoll, hsf, hrq, runFrom_cons, runFrom_nil, h1]
            simp [step, s1, s2, s3, hcl, hv, hcond, hrq, hnr]
          rw [hstep]
          have := ih hps s3 ⟨rfl, hs.jobid⟩
          simp only [specPolls, hsf, hrq, Bool.false_eq_true, if_false, if_true]
          refine ⟨this.1, ?_⟩
          rw [this.2]
          simp [s3, s2, s1]
          omega
        · have hrf : isRequeueState l.state = false := by simpa using hrq
          by_cases hpl : isPollingState l.state = true
          · let s2 : St := { s1 with phase := .squeue, calls := s1.calls ++ [squeueCmd s1.jobid] }
            have hstep : runFrom a w s (renderPoll (.ended l)) = s2 := by
              simp [renderPoll, hsf, hrf, runFrom_cons, runFrom_nil, h1]
              simp [step, s1, s2, hcl, hv, hcond, hrf, hpl]
            rw [hstep]
            have := ih hps s2 ⟨rfl, hs.jobid⟩
            simpa [specPolls, hsf, hrf, hpl, s2, s1] using this
          · have hpf : isPollingState l.state = false := by simpa using hpl
            have hstep : (runFrom a w s (renderPoll (.ended l))).phase = .fin (failureOf (w.read s1.errPath)) := by
              simp [renderPoll, hsf, hrf, runFrom_cons, runFrom_nil, h1]
              simp [step, s1, hcl, hv, hcond, hrf, hpf]
            have hreq : (runFrom a w s (renderPoll (.ended l))).requeues = s.requeues := by
              simp [renderPoll, hsf, hrf, runFrom_cons, runFrom_nil, h1]
              simp [step, s1, hcl, hv, hcond, hrf, hpf]
            rw [runFrom_fin a w _ _ hstep]
            simp [verdictOf, hstep, specPolls, hsf, hrf, hpf, specOf_failureOf, hreq]

/-! ### the job is submitted once -/

def isSbatch (c : List Str) : Bool := c.head? == some "sbatch".toList

theorem isSbatch_squeue (j : Str) : isSbatch (squeueCmd j) = false := by simp [isSbatch, squeueCmd]
theorem isSbatch_sacct (j : Str) : isSbatch (sacctCmd j) = false := by simp [isSbatch, sacctCmd]
theorem isSbatch_scontrol (j : Str) : isSbatch (scontrolCmd j) = false := by simp [isSbatch, scontrolCmd]

theorem step_calls (a : Args) (w : World) (s : St) (r : Response) :
    (step a w s r).calls = s.calls ∨ ∃ c, (step a w s r).calls = s.calls ++ [c] ∧ isSbatch c = false := by
  unfold step
  cases s.phase with
  | fin v => left; rfl
  | submit =>
    simp only
    cases classifySbatch r with
    | failed e => left; rfl
    | noJobId => left; rfl
    | submitted j => right; exact ⟨_, rfl, isSbatch_squeue j⟩
  | squeue =>
    simp only
    split
    · right; exact ⟨_, rfl, isSbatch_sacct _⟩
    · right; exact ⟨_, rfl, isSbatch_squeue _⟩
  | sacct =>
    simp only
    cases verify (w.read s.errPath) (classifySacct r) with
    | success => left; rfl
    | polling => right; exact ⟨_, rfl, isSbatch_squeue _⟩
    | failure v => left; rfl
    | requeue =>
      simp only
      split
      · left; rfl
      · right; exact ⟨_, rfl, isSbatch_scontrol _⟩
  | scontrol => right; exact ⟨_, rfl, isSbatch_squeue _⟩

theorem single_submission_from (a : Args) (w : World) (rs : List Response) (s : St)
    (hs : (s.calls.filter isSbatch).length = 1) : ((runFrom a w s rs).calls.filter isSbatch).length = 1 := by
  induction rs generalizing s with
  | nil => exact hs
  | cons r rs ih =>
    rw [runFrom_cons]
    apply ih
    rcases step_calls a w s r with h | ⟨c, h, hc⟩
    · rw [h]; exact hs
    · rw [h, List.filter_append]; simp [hc, hs]
end PydraModel.Batch
