import PydraModel.Batch.Spec
/-
Helper lemmas for C28: the hand-written matchers read back what a scheduler prints (spans, sacct line, job id).
-/
namespace PydraModel.Batch

/-! ### spans -/

theorem spanP_append_cons (p : Char → Bool) (xs : Str) (y : Char) (ys : Str)
    (hx : ∀ c ∈ xs, p c = true) (hy : p y = false) : spanP p (xs ++ y :: ys) = (xs, y :: ys) := by
  induction xs with
  | nil => simp [spanP, hy]
  | cons c cs ih =>
    have hc := hx c (by simp)
    have := ih (fun d hd => hx d (by simp [hd]))
    simp [spanP, hc, this]

theorem spanP_all (p : Char → Bool) (xs : Str) (hx : ∀ c ∈ xs, p c = true) : spanP p xs = (xs, []) := by
  induction xs with
  | nil => rfl
  | cons c cs ih =>
    have hc := hx c (by simp)
    have := ih (fun d hd => hx d (by simp [hd]))
    simp [spanP, hc, this]

theorem blanks_all (n : Nat) : ∀ c ∈ blanks n, isBlank c = true := by
  intro c hc
  simp [blanks] at hc
  simp [isBlank, hc.2]

theorem isWord_not_blank (c : Char) (h : isWord c = true) : isBlank c = false := by
  unfold isBlank
  apply Bool.eq_false_iff.mpr
  intro hb
  have : c = ' ' := by simpa using hb
  subst this
  revert h
  decide

theorem isDigit_not_blank (c : Char) (h : isDigit c = true) : isBlank c = false := by
  unfold isBlank
  apply Bool.eq_false_iff.mpr
  intro hb
  have : c = ' ' := by simpa using hb
  subst this
  revert h
  decide

theorem codeThenSignal_ok (code signal trail : Str) (hc : code ≠ []) (hcd : ∀ c ∈ code, isDigit c = true)
    (hs : signal ≠ []) (hsd : ∀ c ∈ signal, isDigit c = true) :
    codeThenSignal (code ++ ':' :: signal ++ trail) = some code := by
  unfold codeThenSignal
  have h1 : spanP isDigit (code ++ ':' :: (signal ++ trail)) = (code, ':' :: (signal ++ trail)) :=
    spanP_append_cons isDigit code ':' _ hcd (by decide)
  simp only [List.append_assoc, List.cons_append] at h1 ⊢
  rw [h1]
  cases code with
  | nil => exact absurd rfl hc
  | cons c cs =>
    cases signal with
    | nil => exact absurd rfl hs
    | cons x xs =>
      have hx := hsd x (by simp)
      simp [hx]

theorem sacctAt_shape (jobid state after tail2 : Str) (n1 n2 : Nat) (code : Str)
    (hj : ∀ c ∈ jobid, isDigit c = true) (hst : state ≠ []) (hsw : ∀ c ∈ state, isWord c = true)
    (hafter : ∃ y ys, after = y :: ys ∧ isWord y = false)
    (hstrip : stripPlus after = ' ' :: (blanks n2 ++ tail2))
    (ht0 : ∃ c0 cs, tail2 = c0 :: cs ∧ isDigit c0 = true)
    (hcode : codeThenSignal tail2 = some code) :
    sacctAt (jobid ++ ' ' :: (blanks n1 ++ (state ++ after))) = some (state, code) := by
  obtain ⟨s0, ss, hse⟩ : ∃ s0 ss, state = s0 :: ss := by
    cases state with
    | nil => exact absurd rfl hst
    | cons a b => exact ⟨a, b, rfl⟩
  have hs0 : isWord s0 = true := hsw s0 (by simp [hse])
  obtain ⟨c0, cs, htc, hc0⟩ := ht0
  obtain ⟨y, ys, hay, hyw⟩ := hafter
  unfold sacctAt
  have e1 : spanP isDigit (jobid ++ ' ' :: (blanks n1 ++ (state ++ after)))
      = (jobid, ' ' :: (blanks n1 ++ (state ++ after))) :=
    spanP_append_cons isDigit _ ' ' _ hj (by decide)
  have e2 : spanP isBlank (' ' :: (blanks n1 ++ (state ++ after))) = (' ' :: blanks n1, state ++ after) := by
    have := spanP_append_cons isBlank (' ' :: blanks n1) s0 (ss ++ after)
      (by intro c hc'; rcases List.mem_cons.mp hc' with rfl | h'; decide; exact blanks_all _ c h')
      (isWord_not_blank s0 hs0)
    simpa [hse, List.append_assoc] using this
  have e3 : spanP isWord (state ++ after) = (state, after) := by
    rw [hay]; exact spanP_append_cons isWord _ y ys hsw hyw
  have e5 : spanP isBlank (' ' :: (blanks n2 ++ tail2)) = (' ' :: blanks n2, tail2) := by
    have := spanP_append_cons isBlank (' ' :: blanks n2) c0 cs
      (by intro c hc'; rcases List.mem_cons.mp hc' with rfl | h'; decide; exact blanks_all _ c h')
      (isDigit_not_blank c0 hc0)
    simpa [htc, List.append_assoc] using this
  simp only [e1, e2, e3, hstrip, e5, hcode, List.isEmpty_cons, Bool.false_eq_true, if_false, Option.map_some]

/-- a well-formed accounting line is read as its state and exit code, whatever the padding -/
theorem sacctAt_render (l : AcctLine) (h : l.WF) : sacctAt l.render = some (l.state, l.code) := by
  obtain ⟨hj, hst, hsw, hc, hcd, hs, hsd⟩ := h
  have hr : l.render = l.jobid ++ ' ' :: (blanks l.pad1 ++ (l.state ++
      ((if l.plus then ['+'] else []) ++ ' ' :: (blanks l.pad2 ++ (l.code ++ ':' :: l.signal ++ l.trail))))) := by
    simp [AcctLine.render, List.append_assoc]
  rw [hr]
  apply sacctAt_shape _ _ _ (l.code ++ ':' :: l.signal ++ l.trail) _ l.pad2 _ hj hst hsw
  · cases hp : l.plus
    · exact ⟨' ', blanks l.pad2 ++ (l.code ++ ':' :: l.signal ++ l.trail), by simp, by decide⟩
    · exact ⟨'+', ' ' :: (blanks l.pad2 ++ (l.code ++ ':' :: l.signal ++ l.trail)), by simp, by decide⟩
  · cases hp : l.plus <;> simp [stripPlus]
  · cases hl : l.code with
    | nil => exact absurd hl hc
    | cons a b => exact ⟨a, b ++ ':' :: l.signal ++ l.trail, by simp, hcd a (by simp [hl])⟩
  · exact codeThenSignal_ok _ _ _ hc hcd hs hsd

theorem sacctSearch_of_at (s : Str) (x : Str × Str) (h : sacctAt s = some x) : sacctSearch s = some x := by
  cases s with
  | nil => simpa [sacctSearch] using h
  | cons c cs => simp [sacctSearch, h]

theorem render_ne_nil (l : AcctLine) : l.render ≠ [] := by
  simp [AcctLine.render]

theorem classifySacct_render (l : AcctLine) (h : l.WF) :
    classifySacct ⟨0, l.render, []⟩ = .record l.state (natOfDigits l.code) := by
  unfold classifySacct
  have hne : (l.render).isEmpty = false := by
    cases hr : l.render with
    | nil => exact absurd hr (render_ne_nil l)
    | cons a b => rfl
  simp only [hne, Bool.false_eq_true, if_false]
  rw [sacctSearch_of_at _ _ (sacctAt_render l h)]

/-! ### job id -/

theorem firstDigits_skip (pre s : Str) (h : ∀ c ∈ pre, isDigit c = false) : firstDigits (pre ++ s) = firstDigits s := by
  induction pre with
  | nil => rfl
  | cons c cs ih =>
    have hc := h c (by simp)
    simp [firstDigits, hc, ih (fun d hd => h d (by simp [hd]))]

theorem classifySbatch_submit (j : Str) (hne : j ≠ []) (hd : ∀ c ∈ j, isDigit c = true) :
    classifySbatch (rSubmit j) = .submitted j := by
  unfold classifySbatch rSubmit
  simp only [bne_self_eq_false, Bool.false_eq_true, if_false]
  rw [List.append_assoc, firstDigits_skip _ _ (by decide)]
  cases j with
  | nil => exact absurd rfl hne
  | cons c cs =>
    have hc := hd c (by simp)
    have hsp : spanP isDigit (c :: cs ++ ['\n']) = (c :: cs, ['\n']) :=
      spanP_append_cons isDigit (c :: cs) '\n' [] hd (by decide)
    simp only [List.cons_append] at hsp
    simp [firstDigits, hc, hsp]

end PydraModel.Batch
