import PydraModel.StateAlg.Lemmas6
/-
StateAlg helper lemmas, part 7: the rows of a splitter tree projected to the kept fields are the rows of the reduced tree,
indexed by the pattern `pat shape mask` (claim A of the first-occurrence-order proof).
-/
namespace PydraModel.StateAlg
open Spec

/-- which fields (left to right) are kept -/
def fmask (C : List Name) (t : Bin) : List Bool := t.fields.map (fun x => !C.contains x)

/-- keep the entries of a row whose mask bit is set -/
def proj (mask : List Bool) (row : List Nat) : List Nat := ((mask.zip row).filter (·.1)).map (·.2)

theorem proj_append (m1 m2 : List Bool) (r1 r2 : List Nat) (h : m1.length = r1.length) :
    proj (m1 ++ m2) (r1 ++ r2) = proj m1 r1 ++ proj m2 r2 := by
  simp [proj, List.zip_append h]

/-- which axes are kept; `none` when an inner product pairs a kept axis with a removed one (the set of removed fields is
    then not closed under inner-product links) -/
def maskOf (C : List Name) : Bin → Option (List Bool)
  | .leaf n => some [!C.contains n]
  | .node false l r =>
    match maskOf C l, maskOf C r with
    | some a, some b => some (a ++ b)
    | _, _ => none
  | .node true l r =>
    match maskOf C l, maskOf C r with
    | some a, some b => if a = b then some a else none
    | _, _ => none

/-- rows and shape of a possibly empty reduced tree -/
def evalOpt (env : ShapeEnv) : Option Bin → Option (List (List Nat) × List Nat)
  | none => some ([[]], [])
  | some t =>
    match evalBin env t with
    | .ok v => some v
    | .error _ => none

theorem prodRows_unit_right (A : List (List Nat)) : prodRows A [[]] = A := by
  simp [prodRows]

theorem prodRows_unit_left (B : List (List Nat)) : prodRows [[]] B = B := by
  simp [prodRows]

theorem prodRows_cons (a : List Nat) (A B : List (List Nat)) :
    prodRows (a :: A) B = B.map (fun r => a ++ r) ++ prodRows A B := by simp [prodRows]

theorem length_prodRows (A B : List (List Nat)) : (prodRows A B).length = A.length * B.length := by
  induction A with
  | nil => simp [prodRows]
  | cons a A ih => rw [prodRows_cons, List.length_append, ih]; simp [Nat.add_mul, Nat.add_comm]

theorem getD_prodRows (B : List (List Nat)) : ∀ (A : List (List Nat)) (i k : Nat), i < A.length → k < B.length →
    (prodRows A B).getD (i * B.length + k) [] = A.getD i [] ++ B.getD k [] := by
  intro A
  induction A with
  | nil => intro i k hi; simp at hi
  | cons a A ih =>
    intro i k hi hk
    rw [prodRows_cons]
    cases i with
    | zero =>
      simp only [Nat.zero_mul, Nat.zero_add, List.getD_eq_getElem?_getD]
      rw [List.getElem?_append_left (by simpa using hk)]
      simp [List.getElem?_eq_getElem hk]
    | succ i =>
      have hlen : (B.map (fun r => a ++ r)).length ≤ (i + 1) * B.length + k := by
        simp only [List.length_map, Nat.add_mul, Nat.one_mul]; omega
      simp only [List.getD_eq_getElem?_getD]
      rw [List.getElem?_append_right hlen]
      have : (i + 1) * B.length + k - (B.map (fun r => a ++ r)).length = i * B.length + k := by
        simp only [List.length_map, Nat.add_mul, Nat.one_mul]; omega
      rw [this]
      have := ih i k (by simpa using hi) hk
      simp only [List.getD_eq_getElem?_getD] at this
      rw [this]
      simp

theorem getD_zipRows : ∀ (A B : List (List Nat)) (i : Nat), i < A.length → i < B.length →
    (zipRows A B).getD i [] = A.getD i [] ++ B.getD i [] := by
  intro A
  induction A with
  | nil => intro B i h; simp at h
  | cons a A ih =>
    intro B i hA hB
    cases B with
    | nil => simp at hB
    | cons b B =>
      cases i with
      | zero => simp [zipRows]
      | succ i =>
        have := ih B i (by simpa using hA) (by simpa using hB)
        simpa [zipRows] using this

theorem length_zipRows (A B : List (List Nat)) : (zipRows A B).length = min A.length B.length := by
  simp [zipRows]

theorem map_proj_prodRows (f1 f2 : List Bool) (A B : List (List Nat)) (hA : ∀ x ∈ A, x.length = f1.length) :
    (prodRows A B).map (proj (f1 ++ f2)) = prodRows (A.map (proj f1)) (B.map (proj f2)) := by
  unfold prodRows
  simp only [List.map_flatMap, List.flatMap_map, List.map_map]
  apply flatMap_congr'
  intro x hx
  apply List.map_congr_left
  intro y _
  simp [proj_append f1 f2 x y (hA x hx).symm]

theorem map_proj_zipRows (f1 f2 : List Bool) : ∀ (A B : List (List Nat)), (∀ x ∈ A, x.length = f1.length) →
    (zipRows A B).map (proj (f1 ++ f2)) = zipRows (A.map (proj f1)) (B.map (proj f2))
  | [], _, _ => by simp [zipRows]
  | _ :: _, [], _ => by simp [zipRows]
  | a :: A, b :: B, h => by
    have ih := map_proj_zipRows f1 f2 A B (fun x hx => h x (by simp [hx]))
    simp only [zipRows] at ih ⊢
    simp only [List.zipWith_cons_cons, List.map_cons, ih]
    simp [proj_append f1 f2 a b (h a (by simp)).symm]

theorem zipRows_map_same {α} (g1 g2 : α → List Nat) (l : List α) :
    zipRows (l.map g1) (l.map g2) = l.map (fun i => g1 i ++ g2 i) := by
  induction l with
  | nil => simp [zipRows]
  | cons x xs ih => simp only [zipRows] at ih ⊢; simp [ih]

theorem proj_all_false (m : List Bool) (row : List Nat) (h : ∀ b ∈ m, b = false) : proj m row = [] := by
  simp only [proj, List.map_eq_nil_iff, List.filter_eq_nil_iff]
  intro p hp
  have := h p.1 (List.of_mem_zip hp).1
  simp [this]

theorem proj_eq_nil (m : List Bool) (sh : List Nat) (hl : m.length = sh.length) (h : proj m sh = []) :
    ∀ b ∈ m, b = false := by
  induction m generalizing sh with
  | nil => intro b hb; simp at hb
  | cons c m ih =>
    cases sh with
    | nil => simp at hl
    | cons n sh =>
      intro b hb
      cases c with
      | true => simp [proj] at h
      | false =>
        have h' : proj m sh = [] := by simpa [proj] using h
        rcases List.mem_cons.mp hb with rfl | hb
        · rfl
        · exact ih sh (by simpa using hl) h' b hb

theorem cnt_all_false (sh : List Nat) (m : List Bool) (h : ∀ b ∈ m, b = false) : cnt sh m = 1 := by
  induction sh generalizing m with
  | nil => cases m <;> simp [cnt]
  | cons n sh ih =>
    cases m with
    | nil => simp [cnt]
    | cons b m =>
      have hb : b = false := h b (by simp)
      subst hb
      simp [cnt, ih m (fun c hc => h c (by simp [hc]))]

theorem pat_all_zero (sh : List Nat) (m : List Bool) (h : ∀ b ∈ m, b = false) : ∀ x ∈ pat sh m, x = 0 := by
  intro x hx
  have := pat_lt sh m x hx
  rw [cnt_all_false sh m h] at this
  omega

end PydraModel.StateAlg

namespace PydraModel.StateAlg
open Spec

theorem evalOpt_some_inv (env : ShapeEnv) (a : Bin) (x : List (List Nat) × List Nat)
    (h : evalOpt env (some a) = some x) : evalBin env a = .ok x := by
  simp only [evalOpt] at h
  cases he : evalBin env a with
  | error e => simp [he] at h
  | ok v => simp only [he, Option.some.injEq] at h; rw [h]

theorem evalOpt_none_inv (env : ShapeEnv) (x : List (List Nat) × List Nat)
    (h : evalOpt env none = some x) : x = ([[]], []) := by
  simp only [evalOpt, Option.some.injEq] at h; exact h.symm

theorem evalOpt_prod (env : ShapeEnv) (C : List Name) (l r : Bin) (A B : List (List Nat)) (sa sb : List Nat)
    (hl : evalOpt env (removeT C l) = some (A, sa)) (hr : evalOpt env (removeT C r) = some (B, sb)) :
    evalOpt env (removeT C (.node false l r)) = some (prodRows A B, sa ++ sb) := by
  simp only [removeT]
  cases h1 : removeT C l with
  | none =>
    rw [h1] at hl
    have := evalOpt_none_inv env _ hl
    simp only [Prod.mk.injEq] at this
    obtain ⟨rfl, rfl⟩ := this
    cases h2 : removeT C r with
    | none =>
      rw [h2] at hr
      have := evalOpt_none_inv env _ hr
      simp only [Prod.mk.injEq] at this
      obtain ⟨rfl, rfl⟩ := this
      simp [evalOpt, prodRows]
    | some b =>
      rw [h2] at hr
      simp only [hr, prodRows_unit_left, List.nil_append]
  | some a =>
    rw [h1] at hl
    cases h2 : removeT C r with
    | none =>
      rw [h2] at hr
      have := evalOpt_none_inv env _ hr
      simp only [Prod.mk.injEq] at this
      obtain ⟨rfl, rfl⟩ := this
      simp only [hl, prodRows_unit_right, List.append_nil]
    | some b =>
      rw [h2] at hr
      have ea := evalOpt_some_inv env a _ hl
      have eb := evalOpt_some_inv env b _ hr
      simp [evalOpt, evalBin, ea, eb, opVal]

theorem evalOpt_zip (env : ShapeEnv) (C : List Name) (l r : Bin) (A B : List (List Nat)) (sa sb : List Nat)
    (hl : evalOpt env (removeT C l) = some (A, sa)) (hr : evalOpt env (removeT C r) = some (B, sb))
    (hs : sa = sb) (hiff : removeT C l = none ↔ removeT C r = none) :
    evalOpt env (removeT C (.node true l r)) = some (zipRows A B, sb) := by
  simp only [removeT]
  cases h1 : removeT C l with
  | none =>
    have h2 := hiff.mp h1
    rw [h1] at hl; rw [h2] at hr
    have e1 := evalOpt_none_inv env _ hl
    have e2 := evalOpt_none_inv env _ hr
    simp only [Prod.mk.injEq] at e1 e2
    obtain ⟨rfl, rfl⟩ := e1
    obtain ⟨rfl, rfl⟩ := e2
    simp [h2, evalOpt, zipRows]
  | some a =>
    cases h2 : removeT C r with
    | none => rw [hiff.mpr h2] at h1; cases h1
    | some b =>
      rw [h1] at hl; rw [h2] at hr
      have ea := evalOpt_some_inv env a _ hl
      have eb := evalOpt_some_inv env b _ hr
      simp [evalOpt, evalBin, ea, eb, opVal, hs]

theorem pat_single_true (n : Nat) : pat [n] [true] = List.range n := by
  simp only [pat, cnt, ↓reduceIte, Nat.mul_one, List.map_cons, Nat.zero_add, List.map_nil]
  induction n with
  | zero => simp
  | succ n ih => rw [flatMap_range_succ, ih, List.range_succ]

theorem pat_single_false (n : Nat) : pat [n] [false] = (List.range n).map (fun _ => 0) := by
  simp only [pat, Bool.false_eq_true, ↓reduceIte, Nat.add_zero, List.map_cons, List.map_nil]
  induction n with
  | zero => simp
  | succ n ih => rw [flatMap_range_succ, ih, List.range_succ]; simp

/-- claim A: what the projection of the rows of `t` to the kept fields looks like -/
structure ClaimA (env : ShapeEnv) (C : List Name) (t : Bin) (v : List (List Nat) × List Nat) (m : List Bool) : Prop where
  mlen : m.length = v.2.length
  shne : v.2 ≠ []
  shpos : ∀ n ∈ v.2, 1 ≤ n
  ex : ∃ R' sh', evalOpt env (removeT C t) = some (R', sh') ∧ sh' = proj m v.2 ∧ R'.length = cnt v.2 m ∧
        v.1.map (proj (fmask C t)) = (pat v.2 m).map (fun i => R'.getD i []) ∧ (removeT C t = none ↔ sh' = [])

theorem claimA (env : ShapeEnv) (C : List Name) : ∀ (t : Bin) (v : List (List Nat) × List Nat) (m : List Bool),
    (∀ n ∈ t.fields, ∃ k, env n = [k + 1]) → evalBin env t = .ok v → maskOf C t = some m → ClaimA env C t v m := by
  intro t
  induction t with
  | leaf n =>
    intro v m h1 hv hm
    obtain ⟨k, hk⟩ := h1 n (by simp [Bin.fields])
    simp only [evalBin, hk, Except.ok.injEq] at hv
    subst hv
    simp only [maskOf, Option.some.injEq] at hm
    subst hm
    have hprod : prod [k + 1] = k + 1 := by simp [prod]
    refine ⟨by simp, by simp, by simp, ?_⟩
    cases hc : C.contains n with
    | true =>
      have hmem : n ∈ C := by simpa using hc
      refine ⟨[[]], [], by simp [removeT, hmem, evalOpt], by simp [proj], by simp [cnt], ?_, by simp [removeT, hmem]⟩
      simp [fmask, Bin.fields, hmem, rawRows, hprod, pat_single_false, proj, List.map_map, Function.comp_def]
    | false =>
      have hmem : n ∉ C := by simpa using hc
      refine ⟨rawRows [k + 1], [k + 1], by simp [removeT, hmem, evalOpt, evalBin, hk], by simp [proj],
        by simp [rawRows, hprod, cnt], ?_, by simp [removeT, hmem]⟩
      simp only [fmask, Bin.fields, hc, List.map_cons, List.map_nil, Bool.not_false, pat_single_true]
      have h1 : (rawRows [k + 1]).map (proj [true]) = rawRows [k + 1] := by
        simp [rawRows, proj, List.map_map, Function.comp_def]
      rw [h1]
      have hl : (rawRows [k + 1]).length = k + 1 := by simp [rawRows, hprod]
      have := range_map_getD (rawRows [k + 1]) ([] : List Nat)
      rw [hl] at this
      exact this.symm
  | node d l r ihl ihr =>
    intro v m h1 hv hm
    have h1l : ∀ n ∈ l.fields, ∃ k, env n = [k + 1] := fun n hn => h1 n (by simp [Bin.fields, hn])
    have h1r : ∀ n ∈ r.fields, ∃ k, env n = [k + 1] := fun n hn => h1 n (by simp [Bin.fields, hn])
    simp only [evalBin] at hv
    cases hel : evalBin env l with
    | error e => simp [hel] at hv
    | ok vl =>
      cases her : evalBin env r with
      | error e => simp [hel, her] at hv
      | ok vr =>
        simp only [hel, her] at hv
        have rll := evalBin_len env l vl hel
        have hfm : fmask C (.node d l r) = fmask C l ++ fmask C r := by simp [fmask, Bin.fields]
        have rll' : ∀ x ∈ vl.1, x.length = (fmask C l).length := by
          intro x hx; rw [rll x hx]; simp [fmask]
        cases d with
        | false =>
          simp only [opVal, Bool.false_eq_true, ↓reduceIte, Except.ok.injEq] at hv
          subst hv
          simp only [maskOf] at hm
          cases hml : maskOf C l with
          | none => simp [hml] at hm
          | some ml =>
            cases hmr : maskOf C r with
            | none => simp [hml, hmr] at hm
            | some mr =>
              simp only [hml, hmr, Option.some.injEq] at hm
              subst hm
              have cl := ihl vl ml h1l hel hml
              have cr := ihr vr mr h1r her hmr
              obtain ⟨Rl, shl, el, esl, lenl, mapl, nonel⟩ := cl.ex
              obtain ⟨Rr, shr, er, esr, lenr, mapr, noner⟩ := cr.ex
              refine ⟨by simp [cl.mlen, cr.mlen], by simp [cl.shne], ?_, ?_⟩
              · intro n hn
                rcases List.mem_append.mp hn with hn | hn
                · exact cl.shpos n hn
                · exact cr.shpos n hn
              · refine ⟨prodRows Rl Rr, shl ++ shr, evalOpt_prod env C l r _ _ _ _ el er, ?_, ?_, ?_, ?_⟩
                · rw [esl, esr, proj_append _ _ _ _ cl.mlen]
                · rw [length_prodRows, lenl, lenr, cnt_append _ _ _ _ cl.mlen.symm]
                · rw [hfm, map_proj_prodRows _ _ _ _ rll', mapl, mapr, pat_append _ _ _ _ cl.mlen.symm]
                  simp only [prodRows, List.flatMap_map, List.map_map, List.map_flatMap]
                  apply flatMap_congr'
                  intro a ha
                  apply List.map_congr_left
                  intro b hb
                  simp only [Function.comp]
                  have ha' : a < Rl.length := by rw [lenl]; exact pat_lt _ _ a ha
                  have hb' : b < Rr.length := by rw [lenr]; exact pat_lt _ _ b hb
                  have := getD_prodRows Rr Rl a b ha' hb'
                  rw [lenr] at this
                  simp only [prodRows] at this
                  rw [this]
                · simp only [removeT]
                  constructor
                  · intro h
                    cases h1' : removeT C l <;> cases h2' : removeT C r <;> simp [h1', h2'] at h
                    rw [nonel.mp h1', noner.mp h2']; rfl
                  · intro h
                    have hh := List.append_eq_nil_iff.mp h
                    rw [nonel.mpr hh.1, noner.mpr hh.2]
        | true =>
          simp only [opVal, ↓reduceIte] at hv
          split at hv
          · simp at hv
          · rename_i hsh
            simp only [ne_eq, Decidable.not_not] at hsh
            simp only [Except.ok.injEq] at hv
            subst hv
            simp only [maskOf] at hm
            cases hml : maskOf C l with
            | none => simp [hml] at hm
            | some ml =>
              cases hmr : maskOf C r with
              | none => simp [hml, hmr] at hm
              | some mr =>
                simp only [hml, hmr] at hm
                split at hm
                · rename_i hmm
                  simp only [Option.some.injEq] at hm
                  subst hm
                  subst hmm
                  have cl := ihl vl ml h1l hel hml
                  have cr := ihr vr ml h1r her hmr
                  obtain ⟨Rl, shl, el, esl, lenl, mapl, nonel⟩ := cl.ex
                  obtain ⟨Rr, shr, er, esr, lenr, mapr, noner⟩ := cr.ex
                  have hshape : shl = shr := by rw [esl, esr, hsh]
                  have hiff : removeT C l = none ↔ removeT C r = none := by
                    rw [nonel, noner, hshape]
                  refine ⟨cr.mlen, cr.shne, cr.shpos, ?_⟩
                  refine ⟨zipRows Rl Rr, shr, evalOpt_zip env C l r _ _ _ _ el er hshape hiff, esr, ?_, ?_, ?_⟩
                  · rw [length_zipRows, lenl, lenr, hsh]; simp
                  · rw [hfm, map_proj_zipRows _ _ _ _ rll', mapl, mapr, hsh, zipRows_map_same]
                    apply List.map_congr_left
                    intro i hi
                    have hi1 : i < Rl.length := by rw [lenl, hsh]; exact pat_lt _ _ i hi
                    have hi2 : i < Rr.length := by rw [lenr]; exact pat_lt _ _ i hi
                    rw [getD_zipRows Rl Rr i hi1 hi2]
                  · simp only [removeT]
                    constructor
                    · intro h
                      cases h1' : removeT C l <;> cases h2' : removeT C r <;> simp [h1', h2'] at h
                      exact noner.mp h2'
                    · intro h
                      have h2' := noner.mpr h
                      have h1' := hiff.mpr h2'
                      rw [h1', h2']
                · simp at hm

end PydraModel.StateAlg
