import PydraModel.StateAlg.Model
/-
Documentation variant: `State.splits` as it was BEFORE the repair of D1 — one global `keys` list updated by four cases
(`keys = keys + new_keys_L + new_keys_R`, `keys = new_keys_L + keys`, `keys = keys + new_keys_R`, unchanged).  Nothing in
the property theorems depends on this file; `C01_witness_5` (Props/C01.lean) evaluates it on `[[a,b],[c,[d,e]]]`.
-/
namespace PydraModel.StateAlg.OldKeys
open PydraModel.StateAlg

inductive Item where
  | raw (n : Name)
  | done (rows : List (List Nat)) (shape : List Nat)
  deriving DecidableEq, Repr

structure M where
  stack : List Item
  keys : List Name
  deriving DecidableEq, Repr

def pushVal (dot : Bool) (shL : List Nat) (indL : List (List Nat)) (shR : List Nat) (indR : List (List Nat)) :
    Except Err Item :=
  if dot then
    if shL ≠ shR then .error .shape else .ok (.done (zipRows indL indR) shR)
  else .ok (.done (prodRows indL indR) (shL ++ shR))

/-- the four `isinstance(term_L, str)` / `isinstance(term_R, str)` cases with their `keys` updates, verbatim -/
def splitsStep (env : ShapeEnv) (m : M) : Tok → Except Err M
  | .f n => .ok { m with stack := .raw n :: m.stack }
  | tok =>
    match m.stack with
    | termR :: termL :: st =>
      match termL, termR with
      | .raw l, .raw r =>
        let (shL, indL, keysL) := processingTerms env l
        let (shR, indR, keysR) := processingTerms env r
        match pushVal (tok == .dot) shL indL shR indR with
        | .ok it => .ok ⟨it :: st, m.keys ++ keysL ++ keysR⟩          -- keys = keys + new_keys_L + new_keys_R
        | .error e => .error e
      | .raw l, .done indR shR =>
        let (shL, indL, keysL) := processingTerms env l
        match pushVal (tok == .dot) shL indL shR indR with
        | .ok it => .ok ⟨it :: st, keysL ++ m.keys⟩                    -- keys = new_keys_L + keys
        | .error e => .error e
      | .done indL shL, .raw r =>
        let (shR, indR, keysR) := processingTerms env r
        match pushVal (tok == .dot) shL indL shR indR with
        | .ok it => .ok ⟨it :: st, m.keys ++ keysR⟩                    -- keys = keys + new_keys_R
        | .error e => .error e
      | .done indL shL, .done indR shR =>
        match pushVal (tok == .dot) shL indL shR indR with
        | .ok it => .ok ⟨it :: st, m.keys⟩
        | .error e => .error e
    | _ => .error .stack

def runToks (env : ShapeEnv) : M → List Tok → Except Err M
  | m, [] => .ok m
  | m, t :: ts =>
    match splitsStep env m t with
    | .ok m' => runToks env m' ts
    | .error e => .error e

def splits (env : ShapeEnv) (rpn : List Tok) : Except Err (List (List Nat) × List Name) :=
  match rpn with
  | [.f n] => .ok (rawRows (env n), [n])
  | [_] => .error .key
  | _ =>
    match runToks env ⟨[], []⟩ rpn with
    | .error e => .error e
    | .ok m =>
      match m.stack with
      | .done rows _ :: _ => .ok (rows, m.keys)
      | .raw _ :: _ => .error .malformed
      | [] => .error .stack

end PydraModel.StateAlg.OldKeys
