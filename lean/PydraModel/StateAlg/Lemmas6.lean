import PydraModel.StateAlg.Lemmas5
/-
StateAlg helper lemmas, part 6: first-occurrence order.
  * `nub` / `positions` (the declarative stable group-by of the reference)
  * `pat sh m`: for the row-major enumeration of a shape `sh`, the number of the combination of the *kept* axes (mask `m`)
    that each row projects to; `nub (pat sh m) = range (cnt sh m)`: the kept combinations are first met in their own
    row-major order (the mixed-radix argument behind "groups come out in enumeration order")
-/
namespace PydraModel.StateAlg
open Spec

section Nub
variable {κ : Type} [BEq κ] [LawfulBEq κ]

theorem mem_nub (l : List κ) (x : κ) : x ∈ nub l ↔ x ∈ l := by
  induction l with
  | nil => simp [nub]
  | cons y ys ih =>
    simp only [nub, List.mem_cons, List.mem_filter, ih, Bool.not_eq_true', beq_eq_false_iff_ne, ne_eq]
    constructor
    · rintro (h | ⟨h, _⟩)
      · exact Or.inl h
      · exact Or.inr h
    · rintro (h | h)
      · exact Or.inl h
      · by_cases hx : x = y
        · exact Or.inl hx
        · exact Or.inr ⟨h, hx⟩

theorem nub_append (l1 l2 : List κ) : nub (l1 ++ l2) = nub l1 ++ (nub l2).filter (fun y => !l1.contains y) := by
  induction l1 with
  | nil =>
    have : (nub l2).filter (fun _ => true) = nub l2 := List.filter_eq_self.mpr (fun _ _ => rfl)
    simp [nub, this]
  | cons x xs ih =>
    simp only [List.cons_append, nub, ih, List.filter_append, List.filter_filter, List.cons.injEq, true_and,
      List.append_cancel_left_eq]
    apply List.filter_congr
    intro y _
    simp only [List.contains_cons, Bool.not_or, Bool.and_comm]

theorem nub_map_inj {β : Type} [BEq β] [LawfulBEq β] (f : κ → β) (l : List κ)
    (hinj : ∀ x ∈ l, ∀ y ∈ l, f x = f y → x = y) : nub (l.map f) = (nub l).map f := by
  induction l with
  | nil => simp [nub]
  | cons x xs ih =>
    have ih' := ih (fun a ha b hb => hinj a (by simp [ha]) b (by simp [hb]))
    simp only [List.map_cons, nub, ih', List.filter_map, List.cons.injEq, true_and]
    congr 1
    apply List.filter_congr
    intro y hy
    have hy' : y ∈ xs := (mem_nub xs y).mp hy
    simp only [Function.comp]
    by_cases h : y = x
    · simp [h]
    · have : ¬ f y = f x := fun hf => h (hinj y (by simp [hy']) x (by simp) hf)
      have e1 : (f y == f x) = false := by simpa using this
      have e2 : (y == x) = false := by simpa using h
      rw [e1, e2]

theorem positions_map_inj {β : Type} [BEq β] [LawfulBEq β] (f : κ → β) (k : κ) :
    ∀ (l : List κ) (ii : Nat), (∀ x ∈ l, f x = f k → x = k) → positions (f k) ii (l.map f) = positions k ii l := by
  intro l
  induction l with
  | nil => intro ii _; simp [positions]
  | cons x xs ih =>
    intro ii h
    simp only [List.map_cons, positions]
    rw [ih (ii + 1) (fun y hy => h y (by simp [hy]))]
    congr 1
    by_cases hx : x = k
    · simp [hx]
    · have : ¬ f x = f k := fun hf => hx (h x (by simp) hf)
      simp [hx, this]

theorem positions_not_mem (k : κ) : ∀ (l : List κ) (ii : Nat), k ∉ l → positions k ii l = [] := by
  intro l
  induction l with
  | nil => intro ii _; simp [positions]
  | cons x xs ih =>
    intro ii h
    simp only [List.mem_cons, not_or] at h
    have : ¬ x = k := fun e => h.1 e.symm
    simp [positions, this, ih (ii + 1) h.2]

end Nub

/-! ### the projection pattern of a row-major enumeration -/

/-- number of combinations of the kept axes -/
def cnt : List Nat → List Bool → Nat
  | n :: sh, b :: m => (if b then n else 1) * cnt sh m
  | _, _ => 1

/-- for every row of the row-major enumeration of `sh`: the number (in their own row-major order) of the combination of
    kept axes it projects to -/
def pat : List Nat → List Bool → List Nat
  | n :: sh, b :: m =>
    (List.range n).flatMap (fun i => (pat sh m).map (fun x => x + (if b then i * cnt sh m else 0)))
  | _, _ => [0]

theorem cnt_pos (sh : List Nat) (m : List Bool) (h : ∀ n ∈ sh, 1 ≤ n) : 1 ≤ cnt sh m := by
  induction sh generalizing m with
  | nil => cases m <;> simp [cnt]
  | cons n sh ih =>
    cases m with
    | nil => simp [cnt]
    | cons b m =>
      simp only [cnt]
      have h1 := ih m (fun k hk => h k (by simp [hk]))
      have h2 := h n (by simp)
      cases b with
      | false => simpa using h1
      | true => simp only [↓reduceIte]; exact Nat.mul_pos (by omega) (by omega)

theorem pat_lt (sh : List Nat) (m : List Bool) : ∀ x ∈ pat sh m, x < cnt sh m := by
  induction sh generalizing m with
  | nil => cases m <;> simp [pat, cnt]
  | cons n sh ih =>
    cases m with
    | nil => simp [pat, cnt]
    | cons b m =>
      intro x hx
      simp only [pat, List.mem_flatMap, List.mem_range, List.mem_map] at hx
      obtain ⟨i, hi, y, hy, rfl⟩ := hx
      have hy' := ih m y hy
      simp only [cnt]
      cases b with
      | false => simpa using hy'
      | true =>
        simp only [↓reduceIte]
        calc y + i * cnt sh m < cnt sh m + i * cnt sh m := by omega
          _ = (i + 1) * cnt sh m := by rw [Nat.add_mul, Nat.one_mul, Nat.add_comm]
          _ ≤ n * cnt sh m := Nat.mul_le_mul_right _ (by omega)

theorem cnt_append (s1 s2 : List Nat) (m1 m2 : List Bool) (h : s1.length = m1.length) :
    cnt (s1 ++ s2) (m1 ++ m2) = cnt s1 m1 * cnt s2 m2 := by
  induction s1 generalizing m1 with
  | nil =>
    cases m1 with
    | nil => simp [cnt]
    | cons _ _ => simp at h
  | cons n s1 ih =>
    cases m1 with
    | nil => simp at h
    | cons b m1 =>
      simp only [List.cons_append, cnt, ih m1 (by simpa using h), Nat.mul_assoc]

theorem pat_append (s1 s2 : List Nat) (m1 m2 : List Bool) (h : s1.length = m1.length) :
    pat (s1 ++ s2) (m1 ++ m2) =
      (pat s1 m1).flatMap (fun a => (pat s2 m2).map (fun b => a * cnt s2 m2 + b)) := by
  induction s1 generalizing m1 with
  | nil =>
    cases m1 with
    | nil => simp [pat]
    | cons _ _ => simp at h
  | cons n s1 ih =>
    cases m1 with
    | nil => simp at h
    | cons b m1 =>
      have hl : s1.length = m1.length := by simpa using h
      simp only [List.cons_append, pat, ih m1 hl, cnt_append s1 s2 m1 m2 hl, List.flatMap_assoc, List.map_flatMap,
        List.flatMap_map, List.map_map]
      apply flatMap_congr'
      intro i _
      apply flatMap_congr'
      intro a _
      apply List.map_congr_left
      intro c _
      simp only [Function.comp]
      cases b with
      | false => simp
      | true =>
        simp only [↓reduceIte, Nat.add_mul, Nat.mul_assoc]
        omega

theorem flatMap_range_succ {β} (f : Nat → List β) (n : Nat) :
    (List.range (n + 1)).flatMap f = (List.range n).flatMap f ++ f n := by
  rw [List.range_succ, List.flatMap_append]
  simp

/-- the kept combinations are first met in their own row-major order -/
theorem nub_pat (sh : List Nat) (m : List Bool) (h : ∀ n ∈ sh, 1 ≤ n) : nub (pat sh m) = List.range (cnt sh m) := by
  induction sh generalizing m with
  | nil => cases m <;> simp [pat, cnt, nub, List.range_succ]
  | cons n sh ih =>
    cases m with
    | nil => simp [pat, cnt, nub, List.range_succ]
    | cons b m =>
      have ihm := ih m (fun k hk => h k (by simp [hk]))
      have hn : 1 ≤ n := h n (by simp)
      cases b with
      | false =>
        -- n copies of the same pattern
        simp only [pat, cnt, Bool.false_eq_true, ↓reduceIte, Nat.add_zero, List.map_id', Nat.one_mul]
        have : ∀ k, nub ((List.range (k + 1)).flatMap (fun _ => pat sh m)) = nub (pat sh m) := by
          intro k
          induction k with
          | zero => simp [List.range_succ]
          | succ k ihk =>
            rw [flatMap_range_succ, nub_append, ihk]
            have : (nub (pat sh m)).filter (fun y => !((List.range (k + 1)).flatMap (fun _ => pat sh m)).contains y) = [] := by
              apply List.filter_eq_nil_iff.mpr
              intro y hy
              have hy' := (mem_nub _ y).mp hy
              simp only [Bool.not_eq_true, Bool.not_eq_false', List.contains_iff_mem, List.mem_flatMap, List.mem_range]
              exact ⟨0, by omega, hy'⟩
            rw [this, List.append_nil]
        obtain ⟨k, rfl⟩ : ∃ k, n = k + 1 := ⟨n - 1, by omega⟩
        rw [this k, ihm]
      | true =>
        simp only [pat, cnt, ↓reduceIte]
        have : ∀ k, nub ((List.range k).flatMap (fun i => (pat sh m).map (fun x => x + i * cnt sh m)))
            = List.range (k * cnt sh m) := by
          intro k
          induction k with
          | zero => simp [nub]
          | succ k ihk =>
            rw [flatMap_range_succ, nub_append, ihk]
            have hinj : ∀ x ∈ pat sh m, ∀ y ∈ pat sh m, x + k * cnt sh m = y + k * cnt sh m → x = y := by
              intro x _ y _ hxy; omega
            rw [nub_map_inj _ _ hinj, ihm]
            have hfil : ((List.range (cnt sh m)).map (fun x => x + k * cnt sh m)).filter
                (fun y => !((List.range k).flatMap (fun i => (pat sh m).map (fun x => x + i * cnt sh m))).contains y)
                = (List.range (cnt sh m)).map (fun x => x + k * cnt sh m) := by
              apply List.filter_eq_self.mpr
              intro y hy
              simp only [List.mem_map, List.mem_range] at hy
              obtain ⟨x, _, rfl⟩ := hy
              have hnot : ¬ (x + k * cnt sh m) ∈
                  (List.range k).flatMap (fun i => (pat sh m).map (fun x => x + i * cnt sh m)) := by
                simp only [List.mem_flatMap, List.mem_range, List.mem_map]
                rintro ⟨i, hi, z, hz, heq⟩
                have hz' := pat_lt sh m z hz
                have : (i + 1) * cnt sh m ≤ k * cnt sh m := Nat.mul_le_mul_right _ (by omega)
                rw [Nat.add_mul, Nat.one_mul] at this
                omega
              simpa using hnot
            rw [hfil]
            have : (k + 1) * cnt sh m = k * cnt sh m + cnt sh m := by rw [Nat.add_mul, Nat.one_mul]
            rw [this, List.range_add]
            congr 1
            apply List.map_congr_left
            intro a _
            omega
        exact this n

end PydraModel.StateAlg
