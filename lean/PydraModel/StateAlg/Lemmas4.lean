import PydraModel.StateAlg.Lemmas3
/-
StateAlg helper lemmas, part 4: equivalent spellings (C05).
  * one-element nodes and the normal form; the normal form is compositional (congruence in any list position)
  * the n-ary reference loops distribute over `++`, hence nested outer (inner) chains can be re-bracketed
-/
namespace PydraModel.StateAlg
open Spec

theorem normalize_outer_single (s : Spl) : normalize (.outer [s]) = normalize s := by
  simp only [normalize, normList]
  cases normalize s <;> simp [normRest]

theorem normalize_inner_single (s : Spl) : normalize (.inner [s]) = normalize s := by
  simp only [normalize, normList]
  cases normalize s <;> simp [normRest]

theorem normRest_congr (d : Bool) (a a' : Spl) (h : normalize a = normalize a') (ys : List Spl) :
    ∀ (xs : List Spl) (acc : Bin), normRest d acc (xs ++ a :: ys) = normRest d acc (xs ++ a' :: ys) := by
  intro xs
  induction xs with
  | nil => intro acc; simp [normRest, h]
  | cons x xs ih =>
    intro acc
    simp only [List.cons_append, normRest]
    cases normalize x with
    | none => rfl
    | some b => exact ih _

theorem normList_congr (d : Bool) (a a' : Spl) (h : normalize a = normalize a') (xs ys : List Spl) :
    normList d (xs ++ a :: ys) = normList d (xs ++ a' :: ys) := by
  cases xs with
  | nil => simp [normList, h]
  | cons x xs =>
    simp only [List.cons_append, normList]
    cases normalize x with
    | none => rfl
    | some b => exact normRest_congr d a a' h ys xs b

namespace Spec

theorem prodO_unit_left {α} (x : Option (Exp α)) : prodO (some ⟨[[]], []⟩) x = x := by
  cases x with
  | none => rfl
  | some a =>
    cases a with
    | mk rows shape => simp [prodO, Exp.product]

theorem expandOuter_append {α} (elems : Name → List α) (shape : Name → List Nat) :
    ∀ (xs ys : List Spl), expandOuter elems shape (xs ++ ys) =
      prodO (expandOuter elems shape xs) (expandOuter elems shape ys) := by
  intro xs ys
  induction xs with
  | nil => simp [expandOuter, prodO_unit_left]
  | cons x xs ih => simp only [List.cons_append, expandOuter, ih, prodO_assoc]

theorem expandInner_append {α} (elems : Name → List α) (shape : Name → List Nat) :
    ∀ (xs ys : List Spl), xs ≠ [] → ys ≠ [] → expandInner elems shape (xs ++ ys) =
      zipO (expandInner elems shape xs) (expandInner elems shape ys) := by
  intro xs
  induction xs with
  | nil => intro ys h; exact absurd rfl h
  | cons x xs ih =>
    intro ys _ hy
    cases xs with
    | nil =>
      cases ys with
      | nil => exact absurd rfl hy
      | cons y ys => simp only [List.cons_append, List.nil_append, expandInner_cons2, expandInner_single]
    | cons x2 xs =>
      have := ih ys (by simp) hy
      simp only [List.cons_append] at this ⊢
      rw [expandInner_cons2, this, expandInner_cons2, zipO_assoc]

end Spec

end PydraModel.StateAlg
