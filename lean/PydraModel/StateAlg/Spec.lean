import PydraModel.StateAlg.Model
/-
Reference semantics for the splitter / combiner properties C01, C02, C04, C05 (DESIGN §5.1).
Only the *types* `Spl`, `Nested`, `Err`, `Out` are shared with the model; nothing here looks at an RPN, a stack or
a `keys` list.

  * `expand`      literally nested loops over an n-ary splitter tree: `outer` = row-major Cartesian product,
                  left-most element slowest; `inner` = positional zip that is an error unless the operands have equal shape
  * `leavesAt`    the elements of a nested list found at depth `n`, depth first
  * `dims?`       the dimensions of a nested list that is rectangular down to depth `n`
  * `combineSpec` stable group-by of the jobs on their projection to the uncombined fields
-/
namespace PydraModel.StateAlg.Spec
open PydraModel.StateAlg

/-- The expansion of a splitter: one row per job (field ↦ element, fields left to right), and the shape
    (number of elements along every axis) that an enclosing inner product compares. -/
structure Exp (α : Type) where
  rows : List (List (Name × α))
  shape : List Nat

/-- for x in a: for y in b: x ++ y -/
def Exp.product {α} (a b : Exp α) : Exp α :=
  ⟨a.rows.flatMap (fun r => b.rows.map (fun r' => r ++ r')), a.shape ++ b.shape⟩

/-- for (x, y) in zip(a, b): x ++ y   — only for operands of equal shape (`none` = the request is rejected) -/
def Exp.zip {α} (a b : Exp α) : Option (Exp α) :=
  if a.shape = b.shape then some ⟨List.zipWith (· ++ ·) a.rows b.rows, a.shape⟩ else none

/-- lift to possibly rejected operands -/
def prodO {α} (x y : Option (Exp α)) : Option (Exp α) :=
  match x, y with
  | some a, some b => some (a.product b)
  | _, _ => none

def zipO {α} (x y : Option (Exp α)) : Option (Exp α) :=
  match x, y with
  | some a, some b => a.zip b
  | _, _ => none

mutual
/-- `elems n` = the elements field `n` is split over, `shape n` = its shape.  `none` = rejected. -/
def expand {α} (elems : Name → List α) (shape : Name → List Nat) : Spl → Option (Exp α)
  | .fld n => some ⟨(elems n).map (fun x => [(n, x)]), shape n⟩
  | .outer l => expandOuter elems shape l
  | .inner l => expandInner elems shape l
def expandOuter {α} (elems : Name → List α) (shape : Name → List Nat) : List Spl → Option (Exp α)
  | [] => some ⟨[[]], []⟩
  | s :: rest => prodO (expand elems shape s) (expandOuter elems shape rest)
def expandInner {α} (elems : Name → List α) (shape : Name → List Nat) : List Spl → Option (Exp α)
  | [] => none
  | s :: rest =>
    match rest with
    | [] => expand elems shape s
    | _ :: _ => zipO (expand elems shape s) (expandInner elems shape rest)
end

/-- the jobs of a split: one row per job, `none` = rejected before any job -/
def jobs {α} (elems : Name → List α) (shape : Name → List Nat) (s : Spl) : Option (List (List (Name × α))) :=
  (expand elems shape s).map (·.rows)

/-- index level: field `n` is split over `0 … prod (env n) - 1` -/
def expandInd (env : ShapeEnv) (s : Spl) : Option (List (List (Name × Nat))) :=
  jobs (fun n => List.range (prod (env n))) env s

mutual
/-- elements found `n` levels below `v`, depth first (an atom met earlier counts as an element) -/
def leavesOf : Nat → Nested → List Nested
  | 0, v => [v]
  | _ + 1, .leaf x => [.leaf x]
  | n + 1, .node l => leavesOfList n l
def leavesOfList : Nat → List Nested → List Nested
  | _, [] => []
  | n, v :: rest => leavesOf n v ++ leavesOfList n rest
end

/-- the elements of the list `l` at depth `n ≥ 1` (depth 1 = the items of `l` itself) -/
def leavesAt (n : Nat) (l : List Nested) : List Nested := leavesOf n (.node l)

/-- dimensions of a list that is rectangular down to depth `n ≥ 1` (`none` = ragged or too shallow, or `n = 0`,
    which is not a container dimension). -/
def dims? : Nat → List Nested → Option (List Nat)
  | 0, _ => none
  | 1, l => some [l.length]
  | n + 2, l =>
    match l with
    | [] => some [0]
    | .leaf _ :: _ => none
    | .node c :: xs =>
      match dims? (n + 1) c with
      | none => none
      | some d =>
        if xs.all (fun y => match y with
                            | .leaf _ => false
                            | .node c' => dims? (n + 1) c' == some d) then some ((xs.length + 1) :: d) else none

/-- shape of a field for the inner-product check: its dimensions when rectangular, else its element count -/
def specShape (n : Nat) (l : List Nested) : List Nat :=
  match dims? n l with
  | some d => d
  | none => [(leavesAt n l).length]

/-- value level: nested loops over the depth-`ndim` elements of every field -/
def expandVal (venv : VEnv) (s : Spl) : Option (List (List (Name × Nested))) :=
  jobs (fun n => leavesAt (venv n).2 (venv n).1) (fun n => specShape (venv n).2 (venv n).1) s

/-! ### combine -/

mutual
/-- the axes of a splitter, each with the fields that vary along it (inner products pair axes positionally) -/
def axes : Spl → List (List Name)
  | .fld n => [[n]]
  | .outer l => axesOuter l
  | .inner l => axesInner l
def axesOuter : List Spl → List (List Name)
  | [] => []
  | s :: rest => axes s ++ axesOuter rest
def axesInner : List Spl → List (List Name)
  | [] => []
  | s :: rest =>
    match rest with
    | [] => axes s
    | _ :: _ => List.zipWith (· ++ ·) (axes s) (axesInner rest)
end

/-- every field sharing an axis with a combiner field ("combining a field also combines every field paired with it") -/
def closure (s : Spl) (comb : List Name) : List Name :=
  s.fields.filter (fun x => (axes s).any (fun ax => ax.contains x && ax.any (fun c => comb.contains c)))

/-- the uncombined fields, left to right -/
def remaining (s : Spl) (comb : List Name) : List Name :=
  s.fields.filter (fun x => !(closure s comb).contains x)

def project {α} (keep : List Name) (row : List (Name × α)) : List (Name × α) :=
  row.filter (fun e => keep.contains e.1)

/-- the distinct elements in order of first occurrence -/
def nub {κ} [BEq κ] : List κ → List κ
  | [] => []
  | x :: xs => x :: (nub xs).filter (fun y => !(y == x))

/-- the positions (counted from `ii`) at which `k` occurs, ascending -/
def positions {κ} [BEq κ] (k : κ) : Nat → List κ → List Nat
  | _, [] => []
  | ii, x :: xs => (if x == k then [ii] else []) ++ positions k (ii + 1) xs

/-- stable group-by: one group per distinct key, groups in first-occurrence order, members in enumeration order -/
def groupBy {κ} [BEq κ] (keys : List κ) : List (List Nat) :=
  (nub keys).map (fun k => positions k 0 keys)

/-- group the jobs on their projection to the fields `keep` (all jobs in one flat list when nothing is kept) -/
def combineSpecKeep (keep : List Name) (jobs : List (List (Name × Nat))) : Out :=
  if keep.isEmpty then .flat (List.range jobs.length)
  else .grouped (groupBy (jobs.map (project keep)))

/-- What combining `comb` must return for the jobs `jobs` (rows of `expandInd`), as job numbers. -/
def combineSpec (s : Spl) (comb : List Name) (jobs : List (List (Name × Nat))) : Out :=
  combineSpecKeep (remaining s comb) jobs

end PydraModel.StateAlg.Spec
