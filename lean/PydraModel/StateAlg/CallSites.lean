import PydraModel.Gen.StateCallSites
/-
Call-site skeleton of the functions between `Task.split` / `Task.combine` and the creation of the task jobs, regenerated from
the source on every run (`harness/engines/statealg.py:extract_state_call_sites`).  Used by `C05_before_jobs`.
-/
namespace PydraModel.StateAlg.CallSites
open PydraModel.Gen.StateCallSites

structure Ev where
  recv : String
  attr : String
  guarded : Bool
  deriving DecidableEq, Repr

def ofRaw (r : RawEv) : Ev := ⟨r.1, r.2.1, r.2.2⟩

def precededGo (p q : Ev → Bool) : Bool → List Ev → Bool
  | _, [] => true
  | seen, e :: rest => (!(q e) || seen) && precededGo p q (seen || p e) rest

/-- every `q`-event has a `p`-event strictly before it in the list -/
def preceded (p q : Ev → Bool) (l : List Ev) : Bool := precededGo p q false l

theorem precededGo_spec (p q : Ev → Bool) : ∀ (l : List Ev) (seen : Bool), precededGo p q seen l = true →
    ∀ pre e post, l = pre ++ e :: post → q e = true → seen = true ∨ ∃ c ∈ pre, p c = true := by
  intro l
  induction l with
  | nil => intro seen _ pre e post hl; cases pre <;> simp at hl
  | cons x xs ih =>
    intro seen h pre e post hl hq
    simp only [precededGo, Bool.and_eq_true, Bool.or_eq_true, Bool.not_eq_true'] at h
    cases pre with
    | nil =>
      simp only [List.nil_append, List.cons.injEq] at hl
      obtain ⟨rfl, _⟩ := hl
      rcases h.1 with h1 | h1
      · rw [hq] at h1; cases h1
      · exact Or.inl h1
    | cons y ys =>
      simp only [List.cons_append, List.cons.injEq] at hl
      obtain ⟨rfl, hl⟩ := hl
      rcases ih (seen || p x) h.2 ys e post hl hq with h2 | ⟨c, hc, hp⟩
      · simp only [Bool.or_eq_true] at h2
        rcases h2 with h2 | h2
        · exact Or.inl h2
        · exact Or.inr ⟨x, by simp, h2⟩
      · exact Or.inr ⟨c, by simp [hc], hp⟩

theorem preceded_spec (p q : Ev → Bool) (l : List Ev) (h : preceded p q l = true) :
    ∀ pre e post, l = pre ++ e :: post → q e = true → ∃ c ∈ pre, p c = true := by
  intro pre e post hl hq
  rcases precededGo_spec p q l false h pre e post hl hq with h | h
  · cases h
  · exact h

def taskSplitEv := taskSplit.map ofRaw
def taskCombineEv := taskCombine.map ofRaw
def submitterCallEv := submitterCall.map ofRaw
def nodeSetStateEv := nodeSetState.map ofRaw
def nodeExecStartEv := nodeExecStart.map ofRaw
def statePrepareStatesEv := statePrepareStates.map ofRaw
def statePrepareStatesIndEv := statePrepareStatesInd.map ofRaw
def stateSplitsEv := stateSplits.map ofRaw
def stateCombinerValidationEv := stateCombinerValidation.map ofRaw

/-- a `Job` object is constructed -/
def isJob (e : Ev) : Bool := e.recv == "" && e.attr == "Job"
/-- a task body is run / a job is handed to a worker -/
def isRun (e : Ev) : Bool := e.attr == "_run" || e.attr == "submit" || e.attr == "run"
def isRaise (e : Ev) : Bool := e.attr == "raise"

def stages : List String :=
  ["splitter_validation", "combiner_validation", "set_input_groups", "prepare_states_ind", "prepare_states_val"]

/-- the unconditional calls `self.<stage>()` of `State.prepare_states`, in order of occurrence -/
def selfCalls (l : List Ev) : List String :=
  (l.filter (fun e => e.recv == "self" && !e.guarded && stages.contains e.attr)).map (·.attr)

end PydraModel.StateAlg.CallSites
