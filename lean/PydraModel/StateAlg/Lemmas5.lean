import PydraModel.StateAlg.Lemmas4
/-
StateAlg helper lemmas, part 5: the combiner side.
  * `fillMapping` (the loop that fills `final_combined_ind_mapping`) puts job `j` into the group selected by its
    projection to `keys_final`, in enumeration order — for any input
  * enumeration of all binary splitter shapes with canonical field labels, used for the ≤ 4-field structural facts
-/
namespace PydraModel.StateAlg
open Spec

/-- the group a state is filed under by `prepare_states_combined_ind` -/
def groupIndex (indLFinal : List (List Nat)) (keysFinal : List Name) (st : List (Name × Nat)) : Option Nat :=
  match lookupAll st keysFinal with
  | .ok indF => indLFinal.findIdx? (· == indF)
  | .error _ => none

/-- the jobs (numbered from `ii`) of `sts` filed under group `g`, in order -/
def members (indLFinal : List (List Nat)) (keysFinal : List Name) (g : Nat) : Nat → List (List (Name × Nat)) → List Nat
  | _, [] => []
  | ii, st :: rest =>
    (if groupIndex indLFinal keysFinal st = some g then [ii] else []) ++ members indLFinal keysFinal g (ii + 1) rest

theorem fillMapping_spec (F : List (List Nat)) (K : List Name) :
    ∀ (sts : List (List (Name × Nat))) (acc : List (List Nat)) (ii : Nat) (mp : List (List Nat)),
      fillMapping F K acc ii sts = .ok mp →
      mp.length = acc.length ∧
      (∀ st ∈ sts, (groupIndex F K st).isSome = true) ∧
      ∀ g, mp[g]? = (acc[g]?).map (fun a => a ++ members F K g ii sts) := by
  intro sts
  induction sts with
  | nil =>
    intro acc ii mp h
    simp only [fillMapping, Except.ok.injEq] at h
    subst h
    refine ⟨rfl, by simp, ?_⟩
    intro g
    cases acc[g]? <;> simp [members]
  | cons st rest ih =>
    intro acc ii mp h
    simp only [fillMapping] at h
    cases hl : lookupAll st K with
    | error e => simp [hl] at h
    | ok indF =>
      simp only [hl] at h
      cases hf : F.findIdx? (· == indF) with
      | none => simp [hf] at h
      | some g0 =>
        simp only [hf] at h
        obtain ⟨h1, h2, h3⟩ := ih _ _ _ h
        have hgi : groupIndex F K st = some g0 := by simp [groupIndex, hl, hf]
        refine ⟨by simpa using h1, ?_, ?_⟩
        · intro s hs
          rcases List.mem_cons.mp hs with rfl | hs
          · simp [hgi]
          · exact h2 s hs
        · intro g
          rw [h3 g, List.getElem?_modify]
          cases acc[g]? with
          | none => simp
          | some a =>
            by_cases hg : g0 = g
            · subst hg; simp [members, hgi]
            · have : ¬ (some g0 = some g) := by simpa using hg
              simp [members, hgi, hg, this]

/-- every number in `members … ii sts` lies in `[ii, ii + |sts|)`, the list is strictly increasing, and a job is a member
    exactly of the group its projection selects -/
theorem members_mem (F : List (List Nat)) (K : List Name) (g : Nat) :
    ∀ (sts : List (List (Name × Nat))) (ii j : Nat),
      j ∈ members F K g ii sts ↔ ∃ k, ∃ h : k < sts.length, j = ii + k ∧ groupIndex F K sts[k] = some g := by
  intro sts
  induction sts with
  | nil => intro ii j; simp [members]
  | cons st rest ih =>
    intro ii j
    simp only [members, List.mem_append, ih]
    constructor
    · rintro (h | ⟨k, hk, rfl, hg⟩)
      · split at h
        · rename_i hg
          simp only [List.mem_singleton] at h
          exact ⟨0, by simp, by simp [h], by simpa using hg⟩
        · simp at h
      · exact ⟨k + 1, by simp; omega, by omega, by simpa using hg⟩
    · rintro ⟨k, hk, rfl, hg⟩
      cases k with
      | zero =>
        left
        simp only [List.getElem_cons_zero] at hg
        simp [hg]
      | succ k =>
        right
        exact ⟨k, by simpa using hk, by omega, by simpa using hg⟩

theorem members_sorted (F : List (List Nat)) (K : List Name) (g : Nat) :
    ∀ (sts : List (List (Name × Nat))) (ii : Nat), (members F K g ii sts).Pairwise (· < ·) := by
  intro sts
  induction sts with
  | nil => intro ii; simp [members]
  | cons st rest ih =>
    intro ii
    simp only [members]
    apply List.pairwise_append.mpr
    refine ⟨?_, ih (ii + 1), ?_⟩
    · split <;> simp
    · intro a ha b hb
      split at ha
      · simp only [List.mem_singleton] at ha
        obtain ⟨k, _, hb', _⟩ := (members_mem F K g rest (ii + 1) b).mp hb
        omega
      · simp at ha

/-! ### remove_inp_from_splitter_rpn = removal on the tree -/

/-- the tree with the fields `C` removed (`none` = nothing left): an operator disappears iff one of its operands vanished -/
def removeT (C : List Name) : Bin → Option Bin
  | .leaf n => if C.contains n then none else some (.leaf n)
  | .node d l r =>
    match removeT C l, removeT C r with
    | none, none => none
    | some a, none => some a
    | none, some b => some b
    | some a, some b => some (.node d a b)

def rpnOpt : Option Bin → List Tok
  | some t => t.rpn
  | none => []

theorem rpn_isEmpty (t : Bin) : t.rpn.isEmpty = false := by
  have := rpn_ne_nil t
  cases h : t.rpn with
  | nil => exact absurd h this
  | cons _ _ => rfl

theorem removeLoop_cons (C : List Name) (st : List (List Tok)) (t : Tok) (ts : List Tok) :
    removeLoop C st (t :: ts) = match removeStep C st t with
      | .ok st' => removeLoop C st' ts
      | .error e => .error e := rfl

theorem removeLoop_rpn (C : List Name) : ∀ (t : Bin) (st : List (List Tok)) (rest : List Tok),
    removeLoop C st (t.rpn ++ rest) = removeLoop C (rpnOpt (removeT C t) :: st) rest := by
  intro t
  induction t with
  | leaf n =>
    intro st rest
    simp only [Bin.rpn, List.singleton_append, removeLoop_cons, removeStep, removeT]
    cases C.contains n <;> rfl
  | node d l r ihl ihr =>
    intro st rest
    have e1 : (Bin.node d l r).rpn ++ rest = l.rpn ++ (r.rpn ++ (tokOf d :: rest)) := by simp [Bin.rpn]
    rw [e1, ihl, ihr, removeLoop_cons]
    have hstep : removeStep C (rpnOpt (removeT C r) :: rpnOpt (removeT C l) :: st) (tokOf d) =
        .ok (rpnOpt (removeT C (.node d l r)) :: st) := by
      cases hl : removeT C l <;> cases hr : removeT C r <;> cases d <;>
        simp [removeStep, tokOf, removeT, hl, hr, rpnOpt, rpn_isEmpty, Bin.rpn]
    rw [hstep]

/-- FULL: `remove_inp_from_splitter_rpn` on the RPN of any tree returns the RPN of the tree with exactly those fields removed -/
theorem removeRPN_rpn (C : List Name) (t : Bin) : removeRPN t.rpn C = .ok (rpnOpt (removeT C t)) := by
  unfold removeRPN
  have := removeLoop_rpn C t [] []
  rw [List.append_nil] at this
  rw [this]
  simp [removeLoop]

/-- the fields of the reduced tree are the fields not removed, in order -/
theorem removeT_fields (C : List Name) : ∀ (t : Bin),
    (match removeT C t with | some t' => t'.fields | none => []) = t.fields.filter (fun x => !C.contains x) := by
  intro t
  induction t with
  | leaf n =>
    simp only [removeT, Bin.fields]
    cases h : C.contains n
    · have : decide (n ∈ C) = false := by simpa using h
      simp [Bin.fields, List.filter, this]
    · have : decide (n ∈ C) = true := by simpa using h
      simp [List.filter, this]
  | node d l r ihl ihr =>
    simp only [removeT, Bin.fields, List.filter_append, ← ihl, ← ihr]
    cases removeT C l <;> cases removeT C r <;> simp [Bin.fields]

/-- number of axes; `none` when an inner product pairs operands with different numbers of axes (such a splitter over plain
    lists is always rejected, so the combine property is vacuous for it) -/
def rank? : Bin → Option Nat
  | .leaf _ => some 1
  | .node false l r => match rank? l, rank? r with
    | some a, some b => some (a + b)
    | _, _ => none
  | .node true l r => match rank? l, rank? r with
    | some a, some b => if a = b then some a else none
    | _, _ => none

/-! ### all binary shapes with canonical labels -/

/-- a binary splitter written with two-element lists / tuples -/
def ofBin : Bin → Spl
  | .leaf n => .fld n
  | .node false l r => .outer [ofBin l, ofBin r]
  | .node true l r => .inner [ofBin l, ofBin r]

theorem normalize_ofBin : ∀ (t : Bin), normalize (ofBin t) = some t := by
  intro t
  induction t with
  | leaf n => simp [ofBin, normalize]
  | node d l r ihl ihr => cases d <;> simp [ofBin, normalize, normList, normRest, ihl, ihr]

/-- all binary trees with `k + 1` leaves labelled `start, start + 1, …` left to right (`fuel` bounds the recursion) -/
def shapes : Nat → Nat → Nat → List Bin
  | 0, _, _ => []
  | _ + 1, start, 0 => [.leaf start]
  | fuel + 1, start, k + 1 =>
    (List.range (k + 1)).flatMap (fun i =>
      -- left subtree has i + 1 leaves, right subtree k - i + 1 leaves
      (shapes fuel start i).flatMap (fun l =>
        (shapes fuel (start + i + 1) (k - i)).flatMap (fun r => [.node false l r, .node true l r])))

/-- every shape with at most four fields -/
def shapesLe4 : List Bin := shapes 5 0 0 ++ shapes 5 0 1 ++ shapes 5 0 2 ++ shapes 5 0 3

/-- all non-empty sub-lists -/
def subsets : List Name → List (List Name)
  | [] => [[]]
  | x :: xs => (subsets xs).map (x :: ·) ++ subsets xs

end PydraModel.StateAlg

namespace PydraModel.StateAlg

/-! ### lazy.py's `group_values` against the state's mapping -/

theorem dictGet?_of_mem (st : List (Name × Nat)) (hnd : (st.map (·.1)).Nodup) (k : Name) (v : Nat) (h : (k, v) ∈ st) :
    dictGet? st k = some v := by
  induction st with
  | nil => simp at h
  | cons e rest ih =>
    obtain ⟨k0, v0⟩ := e
    simp only [List.map_cons, List.nodup_cons] at hnd
    unfold dictGet?
    simp only [List.find?_cons]
    by_cases hk : k0 = k
    · subst hk
      simp only [beq_self_eq_true, Option.map_some, Option.some.injEq]
      rcases List.mem_cons.mp h with h | h
      · exact (Prod.mk.inj h).2.symm
      · exfalso
        apply hnd.1
        exact List.mem_map.mpr ⟨(k0, v), h, rfl⟩
    · have : (k0 == k) = false := by simpa using hk
      simp only [this]
      rcases List.mem_cons.mp h with h | h
      · exact absurd (Prod.mk.inj h).1.symm hk
      · exact ih hnd.2 h

theorem mem_of_dictGet? (st : List (Name × Nat)) (k : Name) (v : Nat) (h : dictGet? st k = some v) : (k, v) ∈ st := by
  unfold dictGet? at h
  cases hf : st.find? (fun e => e.1 == k) with
  | none => simp [hf] at h
  | some e =>
    simp only [hf, Option.map_some, Option.some.injEq] at h
    have h1 := List.find?_some hf
    have h2 := List.mem_of_find?_eq_some hf
    simp only [beq_iff_eq] at h1
    obtain ⟨k', v'⟩ := e
    simp only at h1 h
    subst h1; subst h
    exact h2

theorem superset_iff (st : List (Name × Nat)) (hnd : (st.map (·.1)).Nodup) :
    ∀ (K : List Name) (row indF : List Nat), lookupAll st K = .ok indF → row.length = K.length →
      (isSuperset st (K.zip row) = true ↔ indF = row) := by
  intro K
  induction K with
  | nil =>
    intro row indF h hl
    simp only [lookupAll, Except.ok.injEq] at h
    have : row = [] := List.length_eq_zero_iff.mp (by simpa using hl)
    subst this; subst h
    simp [isSuperset]
  | cons k ks ih =>
    intro row indF h hl
    cases row with
    | nil => simp at hl
    | cons r rs =>
      simp only [lookupAll] at h
      cases hd : dictGet? st k with
      | none => simp [hd] at h
      | some v =>
        cases hr : lookupAll st ks with
        | error e => simp [hd, hr] at h
        | ok ind' =>
          simp only [hd, hr, Except.ok.injEq] at h
          subst h
          have ih' := ih rs ind' hr (by simpa using hl)
          simp only [isSuperset, List.zip_cons_cons, List.all_cons, Bool.and_eq_true] at ih' ⊢
          rw [ih']
          simp only [List.cons.injEq]
          constructor
          · rintro ⟨hm, rfl⟩
            have hm' : (k, r) ∈ st := by simpa using hm
            have := dictGet?_of_mem st hnd k r hm'
            rw [hd] at this
            exact ⟨Option.some.inj this, rfl⟩
          · rintro ⟨rfl, rfl⟩
            exact ⟨by simpa using mem_of_dictGet? st k v hd, rfl⟩

theorem findIdx?_nodup (F : List (List Nat)) (hF : F.Nodup) (x : List Nat) (g : Nat) (hg : g < F.length) :
    F.findIdx? (· == x) = some g ↔ F[g] = x := by
  rw [List.findIdx?_eq_some_iff_getElem]
  constructor
  · rintro ⟨_, h, _⟩
    simpa using h
  · intro h
    refine ⟨hg, by simp [h], ?_⟩
    intro j hj hp
    have hjx : F[j] = x := by simpa using hp
    have : j = g := (List.getElem_inj hF).mp (hjx.trans h.symm)
    omega

/-- `group_values` written with the enumeration started at `ii` -/
def groupValuesFrom (fin : List (Name × Nat)) : Nat → List (List (Name × Nat)) → List Nat
  | _, [] => []
  | ii, st :: rest => (if isSuperset st fin then [ii] else []) ++ groupValuesFrom fin (ii + 1) rest

theorem groupValuesFrom_eq (fin : List (Name × Nat)) : ∀ (sts : List (List (Name × Nat))) (ii : Nat),
    (enumFrom' ii sts).filterMap (fun e => if isSuperset e.2 fin then some e.1 else none) = groupValuesFrom fin ii sts := by
  intro sts
  induction sts with
  | nil => intro ii; simp [enumFrom', groupValuesFrom]
  | cons st rest ih =>
    intro ii
    simp only [enumFrom', List.filterMap_cons, groupValuesFrom]
    split <;> rename_i hs
    · split at hs <;> simp_all
    · split at hs
      · simp only [Option.some.injEq] at hs
        subst hs
        simp_all
      · simp at hs

theorem groupValuesFrom_members (F : List (List Nat)) (hF : F.Nodup) (K : List Name)
    (hlen : ∀ r ∈ F, r.length = K.length) (g : Nat) (hg : g < F.length) :
    ∀ (sts : List (List (Name × Nat))) (ii : Nat),
      (∀ st ∈ sts, (st.map (·.1)).Nodup ∧ (groupIndex F K st).isSome = true) →
      groupValuesFrom (K.zip F[g]) ii sts = members F K g ii sts := by
  intro sts
  induction sts with
  | nil => intro ii _; simp [groupValuesFrom, members]
  | cons st rest ih =>
    intro ii h
    obtain ⟨hnd, hsome⟩ := h st (by simp)
    simp only [groupValuesFrom, members]
    rw [ih (ii + 1) (fun s hs => h s (by simp [hs]))]
    congr 1
    unfold groupIndex at hsome ⊢
    cases hl : lookupAll st K with
    | error e => simp [hl] at hsome
    | ok indF =>
      simp only [hl]
      have h1 := superset_iff st hnd K F[g] indF hl (hlen _ (List.getElem_mem hg))
      have h2 := findIdx?_nodup F hF indF g hg
      by_cases hx : indF = F[g]
      · have : isSuperset st (K.zip F[g]) = true := h1.mpr hx
        simp [this, h2.mpr hx.symm]
      · have h3 : ¬ isSuperset st (K.zip F[g]) = true := fun h => hx (h1.mp h)
        have h4 : ¬ F.findIdx? (· == indF) = some g := fun h => hx (h2.mp h).symm
        simp [h3, h4]

end PydraModel.StateAlg

namespace PydraModel.StateAlg

/-! ### the rows `State.splits` produces for a tree are pairwise distinct and as long as the tree has fields -/

theorem evalBin_len (env : ShapeEnv) (b : Bin) (v : List (List Nat) × List Nat) (h : evalBin env b = .ok v) :
    ∀ r ∈ v.1, r.length = b.fields.length := by
  have := evalBin_spec env b
  rw [h] at this
  exact this.2

theorem prodRows_nodup (n : Nat) : ∀ (A B : List (List Nat)), A.Nodup → B.Nodup → (∀ x ∈ A, x.length = n) →
    (prodRows A B).Nodup := by
  intro A
  induction A with
  | nil => intro B _ _ _; simp [prodRows]
  | cons a A ih =>
    intro B hA hB hlen
    rw [List.nodup_cons] at hA
    have hcons : prodRows (a :: A) B = B.map (fun r => a ++ r) ++ prodRows A B := by simp [prodRows]
    rw [hcons, List.nodup_append]
    refine ⟨?_, ih B hA.2 hB (fun x hx => hlen x (by simp [hx])), ?_⟩
    · rw [List.nodup_iff_pairwise_ne, List.pairwise_map]
      exact List.Pairwise.imp (fun h hab => h (List.append_cancel_left hab)) (List.nodup_iff_pairwise_ne.mp hB)
    · intro x hx y hy hxy
      simp only [List.mem_map] at hx
      obtain ⟨b, _, rfl⟩ := hx
      simp only [prodRows, List.mem_flatMap, List.mem_map] at hy
      obtain ⟨a', ha', b', _, rfl⟩ := hy
      have hl : a.length = a'.length := by rw [hlen a (by simp), hlen a' (by simp [ha'])]
      have := (List.append_inj hxy hl).1
      subst this
      exact hA.1 ha'

theorem zipRows_nodup (n : Nat) : ∀ (A B : List (List Nat)), A.Nodup → (∀ x ∈ A, x.length = n) → (zipRows A B).Nodup := by
  intro A
  induction A with
  | nil => intro B _ _; simp [zipRows]
  | cons a A ih =>
    intro B hA hlen
    cases B with
    | nil => simp [zipRows]
    | cons b B =>
      rw [List.nodup_cons] at hA
      simp only [zipRows, List.zipWith_cons_cons, List.nodup_cons]
      refine ⟨?_, ih B hA.2 (fun x hx => hlen x (by simp [hx]))⟩
      intro hmem
      obtain ⟨a', ha', b', _, hab⟩ := mem_zipWith' _ _ _ _ hmem
      have hl : a.length = a'.length := by rw [hlen a (by simp), hlen a' (by simp [ha'])]
      have := (List.append_inj hab hl).1
      subst this
      exact hA.1 ha'

theorem evalBin_nodup (env : ShapeEnv) : ∀ (b : Bin) (v : List (List Nat) × List Nat), evalBin env b = .ok v → v.1.Nodup := by
  intro b
  induction b with
  | leaf n =>
    intro v h
    simp only [evalBin, Except.ok.injEq] at h
    subst h
    simp only [rawRows]
    rw [List.nodup_iff_pairwise_ne, List.pairwise_map]
    exact List.Pairwise.imp (fun h hab => h (by simpa using hab)) (List.nodup_iff_pairwise_ne.mp List.nodup_range)
  | node d l r ihl ihr =>
    intro v h
    simp only [evalBin] at h
    cases hl : evalBin env l with
    | error e => simp [hl] at h
    | ok vl =>
      cases hr : evalBin env r with
      | error e => simp [hl, hr] at h
      | ok vr =>
        simp only [hl, hr] at h
        have hA := ihl vl hl
        have hB := ihr vr hr
        have hlen := evalBin_len env l vl hl
        cases d with
        | false =>
          simp only [opVal, Bool.false_eq_true, ↓reduceIte, Except.ok.injEq] at h
          subst h
          exact prodRows_nodup _ _ _ hA hB hlen
        | true =>
          simp only [opVal, ↓reduceIte] at h
          split at h
          · simp at h
          · simp only [Except.ok.injEq] at h
            subst h
            exact zipRows_nodup _ _ _ hA hlen

end PydraModel.StateAlg
