import PydraModel.StateAlg.Model
/-
StateAlg helper lemmas, part 1 (model side only):
  * the binary normal form `Bin` of a splitter (`normalize`: one-element nodes unwrapped, n-ary nodes nested to the left,
    exactly what `_ordering` emits) and `toRPN s = (normalize s).rpn`
  * compiler correctness: the stack machine `State.splits` run on `t.rpn` = the tree evaluation `evalBin t`, every
    processed term carrying the fields of its subtree (after the repair of D1 no side condition on the tree is needed)
-/
namespace PydraModel.StateAlg

deriving instance DecidableEq for Except

inductive Bin where
  | leaf (n : Name)
  | node (dot : Bool) (l r : Bin)
  deriving DecidableEq, Repr

def tokOf (dot : Bool) : Tok := if dot then .dot else .star

def Bin.rpn : Bin → List Tok
  | .leaf n => [.f n]
  | .node d l r => l.rpn ++ r.rpn ++ [tokOf d]

def Bin.fields : Bin → List Name
  | .leaf n => [n]
  | .node _ l r => l.fields ++ r.fields

def Bin.nleaves : Bin → Nat
  | .leaf _ => 1
  | .node _ l r => l.nleaves + r.nleaves

mutual
/-- one-element lists/tuples disappear, `[s0, s1, s2, …]` becomes `((s0 * s1) * s2) …`; `none` for an empty list/tuple -/
def normalize : Spl → Option Bin
  | .fld n => some (.leaf n)
  | .outer l => normList false l
  | .inner l => normList true l
def normList (d : Bool) : List Spl → Option Bin
  | [] => none
  | s :: rest =>
    match normalize s with
    | none => none
    | some b => normRest d b rest
def normRest (d : Bool) (acc : Bin) : List Spl → Option Bin
  | [] => some acc
  | s :: rest =>
    match normalize s with
    | none => none
    | some b => normRest d (.node d acc b) rest
end

/-! ### `_ordering` emits the RPN of the normal form -/

mutual
theorem ordering_eq : (s : Spl) → ∀ (after : Option Tok) (t : Bin), normalize s = some t →
    ordering s after = t.rpn ++ after.toList
  | .fld n, after, t, h => by
    simp only [normalize, Option.some.injEq] at h
    subst h
    simp [ordering, Bin.rpn]
  | .outer l, after, t, h => by
    simp only [normalize] at h
    simp only [ordering]
    exact orderingNode_eq false l after t h
  | .inner l, after, t, h => by
    simp only [normalize] at h
    simp only [ordering]
    exact orderingNode_eq true l after t h
theorem orderingNode_eq (d : Bool) : (l : List Spl) → ∀ (after : Option Tok) (t : Bin), normList d l = some t →
    orderingNode (tokOf d) l after = t.rpn ++ after.toList
  | [], after, t, h => by simp [normList] at h
  | s :: rest, after, t, h => by
    simp only [normList] at h
    cases hs : normalize s with
    | none => simp [hs] at h
    | some b =>
      simp only [hs] at h
      match rest, h with
      | [], h =>
        simp only [normRest, Option.some.injEq] at h
        subst h
        simp only [orderingNode]
        exact ordering_eq s after b hs
      | t' :: r', h =>
        simp only [orderingNode]
        rw [ordering_eq s none b hs]
        have h2 := orderingRest_eq d (t' :: r') b t h
        simp only [Option.toList, List.append_nil]
        rw [h2]
theorem orderingRest_eq (d : Bool) : (rest : List Spl) → ∀ (acc t : Bin), normRest d acc rest = some t →
    acc.rpn ++ orderingRest (tokOf d) rest = t.rpn
  | [], acc, t, h => by
    simp only [normRest, Option.some.injEq] at h
    subst h
    simp [orderingRest]
  | s :: rest, acc, t, h => by
    simp only [normRest] at h
    cases hs : normalize s with
    | none => simp [hs] at h
    | some b =>
      simp only [hs] at h
      simp only [orderingRest]
      rw [ordering_eq s (some (tokOf d)) b hs]
      have h2 := orderingRest_eq d rest (.node d acc b) t h
      rw [← h2]
      simp [Bin.rpn]
end

theorem toRPN_eq {s : Spl} {t : Bin} (h : normalize s = some t) : toRPN s = t.rpn := by
  have := ordering_eq s none t h
  simpa [toRPN] using this

mutual
theorem fields_normalize : (s : Spl) → ∀ t, normalize s = some t → t.fields = s.fields
  | .fld n, t, h => by
    simp only [normalize, Option.some.injEq] at h
    subst h; simp [Bin.fields, Spl.fields]
  | .outer l, t, h => by
    simp only [normalize] at h
    simp only [Spl.fields]
    exact fields_normList false l t h
  | .inner l, t, h => by
    simp only [normalize] at h
    simp only [Spl.fields]
    exact fields_normList true l t h
theorem fields_normList (d : Bool) : (l : List Spl) → ∀ t, normList d l = some t → t.fields = fieldsList l
  | [], t, h => by simp [normList] at h
  | s :: rest, t, h => by
    simp only [normList] at h
    cases hs : normalize s with
    | none => simp [hs] at h
    | some b =>
      simp only [hs] at h
      have h1 := fields_normalize s b hs
      have h2 := fields_normRest d rest b t h
      simp only [fieldsList]
      rw [h2, h1]
theorem fields_normRest (d : Bool) : (rest : List Spl) → ∀ acc t, normRest d acc rest = some t →
    t.fields = acc.fields ++ fieldsList rest
  | [], acc, t, h => by
    simp only [normRest, Option.some.injEq] at h
    subst h; simp [fieldsList]
  | s :: rest, acc, t, h => by
    simp only [normRest] at h
    cases hs : normalize s with
    | none => simp [hs] at h
    | some b =>
      simp only [hs] at h
      have h1 := fields_normalize s b hs
      have h2 := fields_normRest d rest (.node d acc b) t h
      simp only [fieldsList]
      rw [h2]
      simp [Bin.fields, h1]
end

mutual
/-- a splitter without empty lists/tuples has a normal form -/
theorem normalize_of_wf : (s : Spl) → s.wf = true → ∃ t, normalize s = some t
  | .fld n, _ => ⟨.leaf n, by simp [normalize]⟩
  | .outer l, h => by
    simp only [Spl.wf, Bool.and_eq_true, Bool.not_eq_true', List.isEmpty_eq_false_iff] at h
    simp only [normalize]
    exact normList_of_wf false l h.1 h.2
  | .inner l, h => by
    simp only [Spl.wf, Bool.and_eq_true, Bool.not_eq_true', List.isEmpty_eq_false_iff] at h
    simp only [normalize]
    exact normList_of_wf true l h.1 h.2
theorem normList_of_wf (d : Bool) : (l : List Spl) → wfList l = true → l ≠ [] → ∃ t, normList d l = some t
  | [], _, hne => absurd rfl hne
  | s :: rest, h, _ => by
    simp only [wfList, Bool.and_eq_true] at h
    obtain ⟨b, hb⟩ := normalize_of_wf s h.1
    simp only [normList, hb]
    exact normRest_of_wf d rest b h.2
theorem normRest_of_wf (d : Bool) : (rest : List Spl) → ∀ acc, wfList rest = true → ∃ t, normRest d acc rest = some t
  | [], acc, _ => ⟨acc, by simp [normRest]⟩
  | s :: rest, acc, h => by
    simp only [wfList, Bool.and_eq_true] at h
    obtain ⟨b, hb⟩ := normalize_of_wf s h.1
    simp only [normRest, hb]
    exact normRest_of_wf d rest (.node d acc b) h.2
end

/-! ### tree evaluation and compiler correctness -/

/-- shape check and the new rows / shape of `State.splits`, as a pair -/
def opVal (d : Bool) (shL : List Nat) (indL : List (List Nat)) (shR : List Nat) (indR : List (List Nat)) :
    Except Err (List (List Nat) × List Nat) :=
  if d then
    if shL ≠ shR then .error .shape else .ok (zipRows indL indR, shR)
  else .ok (prodRows indL indR, shL ++ shR)

theorem pushVal_eq (d : Bool) (shL indL shR indR) (keys : List Name) :
    pushVal d shL indL shR indR keys =
      match opVal d shL indL shR indR with
      | .ok v => .ok (.done v.1 v.2 keys)
      | .error e => .error e := by
  unfold pushVal opVal
  cases d <;> simp
  split <;> simp_all

/-- the value the machine computes for a subtree: `(rows, shape)` -/
def evalBin (env : ShapeEnv) : Bin → Except Err (List (List Nat) × List Nat)
  | .leaf n => .ok (rawRows (env n), env n)
  | .node d l r =>
    match evalBin env l with
    | .error e => .error e
    | .ok vl =>
      match evalBin env r with
      | .error e => .error e
      | .ok vr => opVal d vl.2 vl.1 vr.2 vr.1

/-- what a finished subtree leaves on the stack: a processed term carries the fields of the subtree, left to right -/
def itemOf (b : Bin) (v : List (List Nat) × List Nat) : Item :=
  match b with
  | .leaf n => .raw n
  | .node .. => .done v.1 v.2 b.fields

/-- the variable `keys` after the tokens of a subtree: the names of the last operation -/
def keysAfter (b : Bin) (K : List Name) : List Name :=
  match b with
  | .leaf _ => K
  | .node .. => b.fields

theorem tokOf_ne_f (d : Bool) (n : Name) : tokOf d ≠ .f n := by cases d <;> simp [tokOf]

@[simp] theorem star_beq_dot : (Tok.star == Tok.dot) = false := by decide
@[simp] theorem dot_beq_dot : (Tok.dot == Tok.dot) = true := by decide

theorem runToks_append_single (env : ShapeEnv) (m : M) (t : Tok) (ts : List Tok) :
    runToks env m (t :: ts) = match splitsStep env m t with
      | .ok m' => runToks env m' ts
      | .error e => .error e := rfl

theorem unpack_itemOf (env : ShapeEnv) (b : Bin) (v : List (List Nat) × List Nat) (h : evalBin env b = .ok v) :
    unpack env (itemOf b v) = (v.2, v.1, b.fields) := by
  cases b with
  | leaf n =>
    simp only [evalBin, Except.ok.injEq] at h
    subst h
    simp [itemOf, unpack, processingTerms, Bin.fields]
  | node d l r => simp [itemOf, unpack]

/-- the machine step on an operator token when the two top entries come from subtrees `l`, `r` -/
theorem step_op (env : ShapeEnv) (d : Bool) (l r : Bin) (vl vr : List (List Nat) × List Nat)
    (hl : evalBin env l = .ok vl) (hr : evalBin env r = .ok vr) (st : List Item) (K : List Name) :
    splitsStep env ⟨itemOf r vr :: itemOf l vl :: st, K⟩ (tokOf d) =
      match opVal d vl.2 vl.1 vr.2 vr.1 with
      | .ok v => .ok ⟨.done v.1 v.2 (l.fields ++ r.fields) :: st, l.fields ++ r.fields⟩
      | .error e => .error e := by
  have ul := unpack_itemOf env l vl hl
  have ur := unpack_itemOf env r vr hr
  cases ho : opVal d vl.2 vl.1 vr.2 vr.1 <;>
    cases d <;> simp [splitsStep, tokOf, ul, ur, pushVal_eq, ho]

/-- Compiler correctness: running the tokens of a subtree = evaluating the subtree. -/
theorem run_rpn (env : ShapeEnv) : ∀ (b : Bin) (st : List Item) (K : List Name) (rest : List Tok),
    runToks env ⟨st, K⟩ (b.rpn ++ rest) =
      match evalBin env b with
      | .error e => .error e
      | .ok v => runToks env ⟨itemOf b v :: st, keysAfter b K⟩ rest := by
  intro b
  induction b with
  | leaf n =>
    intro st K rest
    simp [Bin.rpn, runToks, splitsStep, evalBin, itemOf, keysAfter]
  | node d l r ihl ihr =>
    intro st K rest
    have e1 : (Bin.node d l r).rpn ++ rest = l.rpn ++ (r.rpn ++ (tokOf d :: rest)) := by simp [Bin.rpn]
    rw [e1, ihl]
    cases hl : evalBin env l with
    | error e => simp [evalBin, hl]
    | ok vl =>
      simp only []
      rw [ihr]
      cases hr : evalBin env r with
      | error e => simp [evalBin, hl, hr]
      | ok vr =>
        simp only []
        rw [runToks_append_single, step_op env d l r vl vr hl hr]
        simp only [evalBin, hl, hr]
        cases opVal d vl.2 vl.1 vr.2 vr.1 with
        | error e => rfl
        | ok v => simp [itemOf, keysAfter, Bin.fields]

theorem rpn_ne_nil (b : Bin) : b.rpn ≠ [] := by
  cases b <;> simp [Bin.rpn]

theorem rpn_node_length (d : Bool) (l r : Bin) : 3 ≤ (Bin.node d l r).rpn.length := by
  have h1 := List.length_pos_iff.mpr (rpn_ne_nil l)
  have h2 := List.length_pos_iff.mpr (rpn_ne_nil r)
  simp [Bin.rpn]; omega

theorem splits_long (env : ShapeEnv) (rpn : List Tok) (h : 2 ≤ rpn.length) :
    splits env rpn =
      match runToks env ⟨[], []⟩ rpn with
      | .error e => .error e
      | .ok m =>
        match m.stack with
        | .done rows _ _ :: _ => .ok (rows, m.keys)
        | .raw _ :: _ => .error .malformed
        | [] => .error .stack := by
  match rpn, h with
  | x :: y :: zs, _ => cases x <;> rfl

/-- `State.splits` on the RPN of ANY tree: the rows of the tree evaluation, labelled with the fields left to right
    (no condition on the tree: every processed term carries its own keys). -/
theorem splits_rpn (env : ShapeEnv) (b : Bin) :
    splits env b.rpn =
      match evalBin env b with
      | .error e => .error e
      | .ok v => .ok (v.1, b.fields) := by
  cases b with
  | leaf n => simp [Bin.rpn, splits, evalBin, Bin.fields]
  | node d l r =>
    rw [splits_long env _ (by have := rpn_node_length d l r; omega)]
    have := run_rpn env (.node d l r) [] [] []
    rw [List.append_nil] at this
    rw [this]
    cases evalBin env (.node d l r) with
    | error e => rfl
    | ok v => simp [runToks, itemOf, keysAfter]

theorem nleaves_pos (b : Bin) : 1 ≤ b.nleaves := by
  induction b with
  | leaf n => simp [Bin.nleaves]
  | node d l r ihl ihr => simp only [Bin.nleaves]; omega

theorem nleaves_eq_fields (b : Bin) : b.nleaves = b.fields.length := by
  induction b with
  | leaf n => simp [Bin.nleaves, Bin.fields]
  | node d l r ihl ihr => simp [Bin.nleaves, Bin.fields, ihl, ihr]

end PydraModel.StateAlg
