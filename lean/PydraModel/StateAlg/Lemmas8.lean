import PydraModel.StateAlg.Lemmas7
/-
StateAlg helper lemmas, part 8: from claim A to the grouping — projections of labelled rows, `members` as `positions`.
-/
namespace PydraModel.StateAlg
open Spec

theorem lookupAll_cons_skip (f : Name) (x : Nat) (st : List (Name × Nat)) :
    ∀ (ks : List Name), (∀ k ∈ ks, k ≠ f) → lookupAll ((f, x) :: st) ks = lookupAll st ks := by
  intro ks
  induction ks with
  | nil => intro _; simp [lookupAll]
  | cons k ks ih =>
    intro h
    have hk : ¬ f = k := fun e => h k (by simp) e.symm
    have hd : dictGet? ((f, x) :: st) k = dictGet? st k := by
      simp [dictGet?, List.find?_cons, hk]
    simp only [lookupAll, hd, ih (fun k' hk' => h k' (by simp [hk']))]

/-- reading the kept fields out of a labelled row gives the projected row -/
theorem lookupAll_zip_filter (p : Name → Bool) : ∀ (fs : List Name) (row : List Nat), fs.Nodup → row.length = fs.length →
    lookupAll (fs.zip row) (fs.filter p) = .ok (proj (fs.map p) row) := by
  intro fs
  induction fs with
  | nil => intro row _ _; simp [lookupAll, proj]
  | cons f fs ih =>
    intro row hnd hl
    cases row with
    | nil => simp at hl
    | cons x row =>
      rw [List.nodup_cons] at hnd
      have hskip : ∀ k ∈ fs.filter p, k ≠ f := by
        intro k hk e
        subst e
        exact hnd.1 (List.mem_filter.mp hk).1
      have ih' := ih row hnd.2 (by simpa using hl)
      simp only [List.zip_cons_cons, List.filter_cons, List.map_cons]
      cases hp : p f with
      | true =>
        simp only [↓reduceIte, lookupAll]
        have hd : dictGet? ((f, x) :: fs.zip row) f = some x := by simp [dictGet?, List.find?_cons]
        rw [hd, lookupAll_cons_skip f x _ _ hskip, ih']
        simp [proj]
      | false =>
        simp only [Bool.false_eq_true, ↓reduceIte]
        rw [lookupAll_cons_skip f x _ _ hskip, ih']
        simp [proj]

/-- the reference's projection of a labelled row: the kept fields with the projected row -/
theorem project_zip (p : Name → Bool) : ∀ (fs : List Name) (row : List Nat), fs.Nodup → row.length = fs.length →
    project (fs.filter p) (fs.zip row) = (fs.filter p).zip (proj (fs.map p) row) := by
  intro fs row hnd hl
  have h1 : project (fs.filter p) (fs.zip row) = (fs.zip row).filter (fun e => p e.1) := by
    show (fs.zip row).filter (fun e => (fs.filter p).contains e.1) = _
    apply List.filter_congr
    intro e he
    have hm := (List.of_mem_zip he).1
    by_cases hp : p e.1 = true
    · rw [hp]; simp [List.mem_filter, hm, hp]
    · have hp' : p e.1 = false := by simpa using hp
      rw [hp']; simp [List.mem_filter, hp']
  rw [h1]
  clear h1 hnd
  induction fs generalizing row with
  | nil => simp [proj]
  | cons f fs ih =>
    cases row with
    | nil => simp at hl
    | cons x row =>
      have ih' := ih row (by simpa using hl)
      simp only [List.zip_cons_cons, List.filter_cons, List.map_cons]
      cases hp : p f with
      | true => simp only [↓reduceIte]; rw [ih']; simp [proj]
      | false => simp only [Bool.false_eq_true, ↓reduceIte]; rw [ih']; simp [proj]

theorem zip_left_inj (K : List Name) (a b : List Nat) (ha : a.length = K.length) (hb : b.length = K.length)
    (h : K.zip a = K.zip b) : a = b := by
  have := congrArg (List.map Prod.snd) h
  rwa [List.map_snd_zip (by omega), List.map_snd_zip (by omega)] at this

/-- the jobs filed under group `g` are the positions at which the pattern takes the value `g` -/
theorem members_eq_positions (F : List (List Nat)) (hF : F.Nodup) (fs : List Name) (hnd : fs.Nodup) (p : Name → Bool)
    (g : Nat) : ∀ (rows : List (List Nat)) (ψ : List Nat) (ii : Nat),
      (∀ r ∈ rows, r.length = fs.length) → (∀ i ∈ ψ, i < F.length) →
      rows.map (proj (fs.map p)) = ψ.map (fun i => F.getD i []) →
      members F (fs.filter p) g ii (rows.map (fs.zip ·)) = positions g ii ψ := by
  intro rows
  induction rows with
  | nil =>
    intro ψ ii _ _ h
    have : ψ = [] := by simpa using h.symm
    subst this
    simp [members, positions]
  | cons row rows ih =>
    intro ψ ii hlen hlt h
    cases ψ with
    | nil => simp at h
    | cons i ψ =>
      simp only [List.map_cons, List.cons.injEq] at h
      have hi : i < F.length := hlt i (by simp)
      simp only [List.map_cons, members, positions]
      rw [ih ψ (ii + 1) (fun r hr => hlen r (by simp [hr])) (fun j hj => hlt j (by simp [hj])) h.2]
      congr 1
      have hgi : groupIndex F (fs.filter p) (fs.zip row) = some i := by
        simp only [groupIndex, lookupAll_zip_filter p fs row hnd (hlen row (by simp)), h.1]
        rw [findIdx?_nodup F hF _ i hi]
        simp [List.getD, List.getElem?_eq_getElem hi]
      rw [hgi]
      by_cases hig : i = g
      · simp [hig]
      · have : ¬ (some i = some g) := by simpa using hig
        simp [hig, this]

end PydraModel.StateAlg
