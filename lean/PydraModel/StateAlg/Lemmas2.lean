import PydraModel.StateAlg.Lemmas1
import PydraModel.StateAlg.Spec
/-
StateAlg helper lemmas, part 2 (spec side and the bridge):
  * the nested-loop reference on the binary normal form (`expandB`), associativity of product and zip,
    and `expand s = expandB (normalize s)` for the n-ary, right-nested reference loops
  * `evalBin` (what the machine computes) = `expandB` once the rows are labelled with the fields in left-to-right order
-/
namespace PydraModel.StateAlg
open Spec

namespace Spec

/-- the reference loops on a binary tree -/
def expandB {α} (elems : Name → List α) (shape : Name → List Nat) : Bin → Option (Exp α)
  | .leaf n => some ⟨(elems n).map (fun x => [(n, x)]), shape n⟩
  | .node false l r => prodO (expandB elems shape l) (expandB elems shape r)
  | .node true l r => zipO (expandB elems shape l) (expandB elems shape r)

theorem prod_rows_assoc {β} (A B C : List (List β)) :
    (A.flatMap (fun r => B.map (fun r' => r ++ r'))).flatMap (fun r => C.map (fun r' => r ++ r')) =
    A.flatMap (fun r => (B.flatMap (fun r1 => C.map (fun r' => r1 ++ r'))).map (fun r' => r ++ r')) := by
  simp [List.flatMap_assoc, List.flatMap_map, List.map_flatMap, List.map_map, Function.comp_def, List.append_assoc]

theorem zip_rows_assoc {β} : ∀ (A B C : List (List β)),
    List.zipWith (· ++ ·) (List.zipWith (· ++ ·) A B) C = List.zipWith (· ++ ·) A (List.zipWith (· ++ ·) B C)
  | [], _, _ => by simp
  | _ :: _, [], _ => by simp
  | _ :: _, _ :: _, [] => by simp
  | a :: A, b :: B, c :: C => by simp [zip_rows_assoc A B C, List.append_assoc]

theorem product_assoc {α} (a b c : Exp α) : (a.product b).product c = a.product (b.product c) := by
  simp only [Exp.product, prod_rows_assoc, List.append_assoc]

theorem prodO_assoc {α} (x y z : Option (Exp α)) : prodO (prodO x y) z = prodO x (prodO y z) := by
  cases x <;> cases y <;> cases z <;> simp [prodO, product_assoc]

theorem prodO_unit {α} (x : Option (Exp α)) : prodO x (some ⟨[[]], []⟩) = x := by
  cases x with
  | none => rfl
  | some a =>
    cases a with
    | mk rows shape => simp [prodO, Exp.product]

theorem zip_some {α} {a b : Exp α} (h : a.shape = b.shape) :
    a.zip b = some ⟨List.zipWith (· ++ ·) a.rows b.rows, a.shape⟩ := by simp [Exp.zip, h]

theorem zip_none {α} {a b : Exp α} (h : ¬ a.shape = b.shape) : a.zip b = none := by simp [Exp.zip, h]

theorem zipO_none_right {α} (x : Option (Exp α)) : zipO x none = none := by cases x <;> rfl

theorem zipO_assoc {α} (x y z : Option (Exp α)) : zipO (zipO x y) z = zipO x (zipO y z) := by
  cases x with
  | none => cases y <;> cases z <;> rfl
  | some a =>
    cases y with
    | none => cases z <;> rfl
    | some b =>
      cases z with
      | none =>
        show zipO (a.zip b) none = zipO (some a) (zipO (some b) none)
        rw [zipO_none_right, zipO_none_right, zipO_none_right]
      | some c =>
        show zipO (a.zip b) (some c) = zipO (some a) (b.zip c)
        by_cases h1 : a.shape = b.shape
        · by_cases h2 : b.shape = c.shape
          · rw [zip_some h1, zip_some h2]
            show Exp.zip _ c = Exp.zip a _
            simp [Exp.zip, h1, h2, zip_rows_assoc]
          · rw [zip_some h1, zip_none h2, zipO_none_right]
            show Exp.zip _ c = none
            exact zip_none (fun h => h2 (h1.symm.trans h))
        · rw [zip_none h1]
          by_cases h2 : b.shape = c.shape
          · rw [zip_some h2]
            show none = Exp.zip a _
            simp [Exp.zip, h1]
          · rw [zip_none h2]; rfl

theorem expandInner_single {α} (elems : Name → List α) (shape : Name → List Nat) (s : Spl) :
    expandInner elems shape [s] = expand elems shape s := by rw [expandInner]

theorem expandInner_cons2 {α} (elems : Name → List α) (shape : Name → List Nat) (s t : Spl) (r : List Spl) :
    expandInner elems shape (s :: t :: r) = zipO (expand elems shape s) (expandInner elems shape (t :: r)) := by
  rw [expandInner]

end Spec

theorem flatMap_congr' {α β} {f g : α → List β} (l : List α) (h : ∀ a ∈ l, f a = g a) : l.flatMap f = l.flatMap g := by
  induction l with
  | nil => rfl
  | cons x xs ih =>
    simp only [List.flatMap_cons]
    rw [h x (by simp), ih (fun a ha => h a (by simp [ha]))]

theorem mem_zipWith' {α β γ} (f : α → β → γ) : ∀ (A : List α) (B : List β) (x : γ), x ∈ List.zipWith f A B →
    ∃ a, a ∈ A ∧ ∃ b, b ∈ B ∧ x = f a b
  | [], _, x, h => by simp at h
  | _ :: _, [], x, h => by simp at h
  | a :: A, b :: B, x, h => by
    simp only [List.zipWith_cons_cons, List.mem_cons] at h
    rcases h with rfl | h
    · exact ⟨a, by simp, b, by simp, rfl⟩
    · obtain ⟨a', ha, b', hb, rfl⟩ := mem_zipWith' f A B x h
      exact ⟨a', by simp [ha], b', by simp [hb], rfl⟩

/-! ### the n-ary reference loops agree with the loops on the normal form -/

mutual
theorem expand_norm {α} (elems : Name → List α) (shape : Name → List Nat) :
    (s : Spl) → ∀ t, normalize s = some t → expand elems shape s = expandB elems shape t
  | .fld n, t, h => by
    simp only [normalize, Option.some.injEq] at h
    subst h; simp [expand, expandB]
  | .outer l, t, h => by
    simp only [normalize] at h
    simp only [expand]
    exact expandOuter_norm elems shape l t h
  | .inner l, t, h => by
    simp only [normalize] at h
    simp only [expand]
    exact expandInner_norm elems shape l t h
theorem expandOuter_norm {α} (elems : Name → List α) (shape : Name → List Nat) :
    (l : List Spl) → ∀ t, normList false l = some t → expandOuter elems shape l = expandB elems shape t
  | [], t, h => by simp [normList] at h
  | s :: rest, t, h => by
    simp only [normList] at h
    cases hs : normalize s with
    | none => simp [hs] at h
    | some b =>
      simp only [hs] at h
      simp only [expandOuter]
      rw [expand_norm elems shape s b hs, expandOuterRest_norm elems shape rest b t h]
theorem expandOuterRest_norm {α} (elems : Name → List α) (shape : Name → List Nat) :
    (rest : List Spl) → ∀ acc t, normRest false acc rest = some t →
      expandB elems shape t = prodO (expandB elems shape acc) (expandOuter elems shape rest)
  | [], acc, t, h => by
    simp only [normRest, Option.some.injEq] at h
    subst h
    simp [expandOuter, prodO_unit]
  | s :: rest, acc, t, h => by
    simp only [normRest] at h
    cases hs : normalize s with
    | none => simp [hs] at h
    | some b =>
      simp only [hs] at h
      rw [expandOuterRest_norm elems shape rest (.node false acc b) t h]
      simp only [expandOuter, expandB]
      rw [prodO_assoc, expand_norm elems shape s b hs]
theorem expandInner_norm {α} (elems : Name → List α) (shape : Name → List Nat) :
    (l : List Spl) → ∀ t, normList true l = some t → expandInner elems shape l = expandB elems shape t
  | [], t, h => by simp [normList] at h
  | s :: rest, t, h => by
    simp only [normList] at h
    cases hs : normalize s with
    | none => simp [hs] at h
    | some b =>
      simp only [hs] at h
      match rest, h with
      | [], h =>
        simp only [normRest, Option.some.injEq] at h
        subst h
        rw [expandInner_single]
        exact expand_norm elems shape s b hs
      | t' :: r', h =>
        rw [expandInner_cons2]
        rw [expand_norm elems shape s b hs, expandInnerRest_norm elems shape (t' :: r') b t h (by simp)]
theorem expandInnerRest_norm {α} (elems : Name → List α) (shape : Name → List Nat) :
    (rest : List Spl) → ∀ acc t, normRest true acc rest = some t → rest ≠ [] →
      expandB elems shape t = zipO (expandB elems shape acc) (expandInner elems shape rest)
  | [], acc, t, h, hne => absurd rfl hne
  | s :: rest, acc, t, h, _ => by
    simp only [normRest] at h
    cases hs : normalize s with
    | none => simp [hs] at h
    | some b =>
      simp only [hs] at h
      match rest, h with
      | [], h =>
        simp only [normRest, Option.some.injEq] at h
        subst h
        rw [expandInner_single]
        simp only [expandB]
        rw [expand_norm elems shape s b hs]
      | t' :: r', h =>
        rw [expandInnerRest_norm elems shape (t' :: r') (.node true acc b) t h (by simp)]
        rw [expandInner_cons2 elems shape s t' r']
        simp only [expandB]
        rw [zipO_assoc, expand_norm elems shape s b hs]
end

/-! ### the machine's rows, labelled with the fields, are the reference rows -/

theorem named_prod (fl fr : List Name) (A B : List (List Nat)) (hA : ∀ x ∈ A, x.length = fl.length) :
    (prodRows A B).map ((fl ++ fr).zip ·) =
      (A.map (fl.zip ·)).flatMap (fun r => (B.map (fr.zip ·)).map (fun r' => r ++ r')) := by
  unfold prodRows
  simp only [List.map_flatMap, List.flatMap_map, List.map_map]
  apply flatMap_congr'
  intro x hx
  apply List.map_congr_left
  intro y _
  simp [List.zip_append (hA x hx).symm]

theorem named_zip (fl fr : List Name) : ∀ (A B : List (List Nat)), (∀ x ∈ A, x.length = fl.length) →
    (zipRows A B).map ((fl ++ fr).zip ·) = List.zipWith (· ++ ·) (A.map (fl.zip ·)) (B.map (fr.zip ·))
  | [], _, _ => by simp [zipRows]
  | _ :: _, [], _ => by simp [zipRows]
  | a :: A, b :: B, h => by
    have ih := named_zip fl fr A B (fun x hx => h x (by simp [hx]))
    simp only [zipRows] at ih ⊢
    simp only [List.zipWith_cons_cons, List.map_cons, ih]
    simp [List.zip_append (h a (by simp)).symm]

/-- index ranges of the fields -/
def idxElems (env : ShapeEnv) : Name → List Nat := fun n => List.range (prod (env n))

theorem evalBin_spec (env : ShapeEnv) : ∀ (b : Bin),
    match evalBin env b with
    | .ok v => expandB (idxElems env) env b = some ⟨v.1.map (b.fields.zip ·), v.2⟩ ∧ ∀ r ∈ v.1, r.length = b.fields.length
    | .error e => e = .shape ∧ expandB (idxElems env) env b = none := by
  intro b
  induction b with
  | leaf n =>
    simp only [evalBin, expandB, idxElems, rawRows, Bin.fields]
    refine ⟨?_, ?_⟩
    · simp [List.map_map, Function.comp_def]
    · intro r hr
      simp only [List.mem_map] at hr
      obtain ⟨i, _, rfl⟩ := hr
      simp
  | node d l r ihl ihr =>
    simp only [evalBin]
    cases hl : evalBin env l with
    | error e =>
      simp only [hl] at ihl
      obtain ⟨he, hn⟩ := ihl
      subst he
      cases d <;> simp [expandB, hn, prodO, zipO]
    | ok vl =>
      simp only [hl] at ihl
      obtain ⟨el, ll⟩ := ihl
      cases hr : evalBin env r with
      | error e =>
        simp only [hr] at ihr
        obtain ⟨he, hn⟩ := ihr
        subst he
        cases d <;> simp [expandB, hn, el, prodO, zipO]
      | ok vr =>
        simp only [hr] at ihr
        obtain ⟨er, lr⟩ := ihr
        cases d with
        | false =>
          simp only [opVal, Bool.false_eq_true, ↓reduceIte]
          refine ⟨?_, ?_⟩
          · simp only [expandB, el, er, prodO, Exp.product, Bin.fields]
            rw [named_prod _ _ _ _ ll]
          · intro x hx
            simp only [prodRows, List.mem_flatMap, List.mem_map] at hx
            obtain ⟨a, ha, b, hb, rfl⟩ := hx
            simp [Bin.fields, ll a ha, lr b hb]
        | true =>
          simp only [opVal, ↓reduceIte]
          by_cases hs : vl.2 = vr.2
          · simp only [hs, ne_eq, not_true_eq_false, ↓reduceIte]
            refine ⟨?_, ?_⟩
            · simp only [expandB, el, er, zipO, Exp.zip, hs, ↓reduceIte, Bin.fields]
              rw [named_zip _ _ _ _ ll]
            · intro x hx
              simp only [zipRows] at hx
              obtain ⟨a, ha, b, hb, rfl⟩ := mem_zipWith' _ _ _ _ hx
              simp [Bin.fields, ll a ha, lr b hb]
          · simp only [ne_eq, hs, not_false_eq_true, ↓reduceIte, true_and]
            simp [expandB, el, er, zipO, Exp.zip, hs]

end PydraModel.StateAlg
