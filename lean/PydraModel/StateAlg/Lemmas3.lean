import PydraModel.StateAlg.Lemmas2
/-
StateAlg helper lemmas, part 3: nested input values.
  * `flatten` (the code's element extraction) = `leavesAt` (elements at depth n, depth first) for every nested list
  * for a list that is rectangular down to depth n: `input_shape` = its dimensions and `prod shape` = number of elements
  * the reference loops are natural in the elements (`expandB_map`), depend only on the fields of the tree, and only
    produce elements of the fields; reading values through indices (`mapSplits`) = looping over the values
-/
namespace PydraModel.StateAlg
open Spec

/-! ### flatten = leavesAt -/

theorem leavesOf_leaf (m : Nat) (x : Int) : leavesOf m (.leaf x) = [.leaf x] := by
  cases m <;> simp [leavesOf]

theorem leavesOfList_eq (m : Nat) (l : List Nested) : leavesOfList m l = l.flatMap (leavesOf m) := by
  induction l with
  | nil => simp [leavesOfList]
  | cons v rest ih => simp [leavesOfList, ih]

theorem flatten_eq_leavesAt : ∀ (m : Nat) (vals : List Nested), flatten m vals = leavesAt m vals := by
  intro m
  induction m with
  | zero => intro vals; simp [flatten, leavesAt, leavesOf]
  | succ m ih =>
    intro vals
    simp only [flatten, leavesAt, leavesOf, leavesOfList_eq]
    apply flatMap_congr'
    intro v _
    cases v with
    | leaf x => simp [leavesOf_leaf]
    | node l => simpa [leavesAt] using ih l

/-! ### rectangular values -/

theorem prod_cons (x : Nat) (xs : List Nat) : prod (x :: xs) = x * prod xs := rfl

theorem length_flatMap_const {α β} (l : List α) (f : α → List β) (k : Nat) (h : ∀ a ∈ l, (f a).length = k) :
    (l.flatMap f).length = l.length * k := by
  induction l with
  | nil => simp
  | cons x xs ih =>
    simp only [List.flatMap_cons, List.length_append, List.length_cons]
    rw [h x (by simp), ih (fun a ha => h a (by simp [ha]))]
    rw [Nat.add_mul, Nat.one_mul, Nat.add_comm]

theorem rect_shape : ∀ (n : Nat) (l : List Nested) (d : List Nat), dims? n l = some d →
    inputShape n l = d ∧ (flatten n l).length = prod d := by
  intro n
  induction n using Nat.strongRecOn with
  | _ n ih =>
    intro l d h
    match n, h with
    | 0, h => simp [dims?] at h
    | 1, h =>
      simp only [dims?, Option.some.injEq] at h
      subst h
      refine ⟨by simp [inputShape], ?_⟩
      simp only [flatten, prod, Nat.mul_one]
      rw [length_flatMap_const l _ 1]
      · simp
      · intro a _; cases a <;> simp [flatten]
    | k + 2, h =>
      match l, h with
      | [], h =>
        simp only [dims?, Option.some.injEq] at h
        subst h
        simp [inputShape, flatten, prod]
      | .leaf x :: xs, h => simp [dims?] at h
      | .node c :: xs, h =>
        simp only [dims?] at h
        cases hc : dims? (k + 1) c with
        | none => simp [hc] at h
        | some dc =>
          simp only [hc] at h
          split at h
          · rename_i hall
            simp only [Option.some.injEq] at h
            subst h
            obtain ⟨hs, hl⟩ := ih (k + 1) (by omega) c dc hc
            have hxs : ∀ y ∈ xs, ∃ c', y = .node c' ∧ dims? (k + 1) c' = some dc := by
              intro y hy
              have := List.all_eq_true.mp hall y hy
              cases y with
              | leaf _ => simp at this
              | node c' => exact ⟨c', rfl, by simpa using this⟩
            refine ⟨?_, ?_⟩
            · simp only [inputShape, hs, List.length_cons]
              split
              · rfl
              · rename_i hneg
                exfalso
                apply hneg
                apply List.all_eq_true.mpr
                intro y hy
                obtain ⟨c', rfl, hc'⟩ := hxs y hy
                simp [(ih (k + 1) (by omega) c' dc hc').1]
            · simp only [flatten]
              rw [length_flatMap_const (.node c :: xs) _ (prod dc)]
              · simp [prod]
              · intro a ha
                rcases List.mem_cons.mp ha with rfl | ha
                · exact hl
                · obtain ⟨c', rfl, hc'⟩ := hxs a ha
                  exact (ih (k + 1) (by omega) c' dc hc').2
          · simp at h

/-! ### reading elements through indices -/

theorem elemsUpTo_range' (v : List Nested) (n : Nat) : ∀ (k s : Nat), s + k ≤ (flatten n v).length →
    elemsUpTo v n (List.range' s k) = .ok (((flatten n v).drop s).take k) := by
  intro k
  induction k with
  | zero => intro s _; simp [elemsUpTo]
  | succ k ih =>
    intro s h
    have hs : s < (flatten n v).length := by omega
    simp only [List.range'_succ, elemsUpTo, elementAt, List.getElem?_eq_getElem hs]
    rw [ih (s + 1) (by omega)]
    simp only [List.drop_eq_getElem_cons hs, List.take_succ_cons]

theorem elemsUpTo_range'_err (v : List Nested) (n : Nat) : ∀ (k s : Nat), s ≤ (flatten n v).length →
    (flatten n v).length < s + k → elemsUpTo v n (List.range' s k) = .error .index := by
  intro k
  induction k with
  | zero => intro s h1 h2; omega
  | succ k ih =>
    intro s h1 h2
    simp only [List.range'_succ, elemsUpTo, elementAt]
    by_cases hs : s < (flatten n v).length
    · rw [List.getElem?_eq_getElem hs]
      simp only []
      rw [ih (s + 1) (by omega) (by omega)]
    · have : (flatten n v)[s]? = none := List.getElem?_eq_none (by omega)
      rw [this]

/-- the values the model visits, for EVERY nested value: the first `prod (input_shape)` leaves, or IndexError when
    `input_shape` promises more elements than `flatten` yields -/
theorem elements_char (v : List Nested) (n : Nat) :
    elements v n =
      if prod (inputShape n v) ≤ (leavesAt n v).length then .ok ((leavesAt n v).take (prod (inputShape n v)))
      else .error .index := by
  unfold elements
  rw [← flatten_eq_leavesAt, List.range_eq_range']
  split
  · rename_i h
    rw [elemsUpTo_range' v n _ 0 (by omega)]
    simp
  · rename_i h
    exact elemsUpTo_range'_err v n _ 0 (by omega) (by omega)

/-- C04 core: for a rectangular value the jobs' elements are exactly the depth-n leaves. -/
theorem elements_rect (v : List Nested) (n : Nat) (d : List Nat) (h : dims? n v = some d) :
    elements v n = .ok (leavesAt n v) := by
  obtain ⟨hs, hl⟩ := rect_shape n v d h
  unfold elements
  rw [hs, ← hl, List.range_eq_range', elemsUpTo_range' v n _ 0 (by omega)]
  simp [flatten_eq_leavesAt]

/-! ### properties of the reference loops on the normal form -/

def mapExp {α β} (g : Name → α → β) (e : Exp α) : Exp β :=
  ⟨e.rows.map (fun row => row.map (fun p => (p.1, g p.1 p.2))), e.shape⟩

theorem zipWith_map_append {α β} (f : α → β) : ∀ (A B : List (List α)),
    (List.zipWith (· ++ ·) A B).map (List.map f) = List.zipWith (· ++ ·) (A.map (List.map f)) (B.map (List.map f))
  | [], _ => by simp
  | _ :: _, [] => by simp
  | a :: A, b :: B => by simp [zipWith_map_append f A B]

/-- naturality: looping over mapped elements = mapping the rows -/
theorem expandB_map {α β} (g : Name → α → β) (elems : Name → List α) (shape : Name → List Nat) : ∀ (t : Bin),
    expandB (fun n => (elems n).map (g n)) shape t = (expandB elems shape t).map (mapExp g) := by
  intro t
  induction t with
  | leaf n => simp [expandB, mapExp, List.map_map, Function.comp_def]
  | node d l r ihl ihr =>
    cases d with
    | false =>
      simp only [expandB, ihl, ihr]
      cases expandB elems shape l <;> cases expandB elems shape r <;> simp [prodO, mapExp, Exp.product,
        List.map_flatMap, List.flatMap_map, List.map_map, Function.comp_def]
    | true =>
      simp only [expandB, ihl, ihr]
      cases hl : expandB elems shape l with
      | none => simp [zipO]
      | some a =>
        cases hr : expandB elems shape r with
        | none => simp [zipO]
        | some b =>
          show Exp.zip (mapExp g a) (mapExp g b) = (a.zip b).map (mapExp g)
          by_cases hs : a.shape = b.shape
          · have hs' : (mapExp g a).shape = (mapExp g b).shape := hs
            rw [zip_some hs, zip_some hs']
            simp [mapExp, zipWith_map_append]
          · have hs' : ¬ (mapExp g a).shape = (mapExp g b).shape := hs
            rw [zip_none hs, zip_none hs']
            rfl

/-- the loops only look at the fields of the tree -/
theorem expandB_congr {α} (e1 e2 : Name → List α) (s1 s2 : Name → List Nat) : ∀ (t : Bin),
    (∀ n ∈ t.fields, e1 n = e2 n ∧ s1 n = s2 n) → expandB e1 s1 t = expandB e2 s2 t := by
  intro t
  induction t with
  | leaf n => intro h; simp [expandB, (h n (by simp [Bin.fields])).1, (h n (by simp [Bin.fields])).2]
  | node d l r ihl ihr =>
    intro h
    have hl := ihl (fun n hn => h n (by simp [Bin.fields, hn]))
    have hr := ihr (fun n hn => h n (by simp [Bin.fields, hn]))
    cases d <;> simp [expandB, hl, hr]

/-- every entry of every row is a field of the tree paired with an element of that field -/
theorem expandB_mem {α} (elems : Name → List α) (shape : Name → List Nat) : ∀ (t : Bin) (e : Exp α),
    expandB elems shape t = some e → ∀ row ∈ e.rows, ∀ p ∈ row, p.1 ∈ t.fields ∧ p.2 ∈ elems p.1 := by
  intro t
  induction t with
  | leaf n =>
    intro e h row hrow p hp
    simp only [expandB, Option.some.injEq] at h
    subst h
    simp only [List.mem_map] at hrow
    obtain ⟨x, hx, rfl⟩ := hrow
    simp only [List.mem_singleton] at hp
    subst hp; exact ⟨by simp [Bin.fields], hx⟩
  | node d l r ihl ihr =>
    intro e h row hrow p hp
    cases hl : expandB elems shape l with
    | none => cases d <;> simp [expandB, hl, prodO, zipO] at h
    | some a =>
      cases hr : expandB elems shape r with
      | none => cases d <;> simp [expandB, hl, hr, prodO, zipO] at h
      | some b =>
        have key : ∀ x ∈ a.rows, ∀ y ∈ b.rows, p ∈ x ++ y → p.1 ∈ (Bin.node d l r).fields ∧ p.2 ∈ elems p.1 := by
          intro x hx y hy hp
          rcases List.mem_append.mp hp with hp | hp
          · have := ihl a hl x hx p hp
            exact ⟨by simp [Bin.fields, this.1], this.2⟩
          · have := ihr b hr y hy p hp
            exact ⟨by simp [Bin.fields, this.1], this.2⟩
        cases d with
        | false =>
          simp only [expandB, hl, hr, prodO, Option.some.injEq] at h
          subst h
          simp only [Exp.product, List.mem_flatMap, List.mem_map] at hrow
          obtain ⟨x, hx, y, hy, rfl⟩ := hrow
          exact key x hx y hy hp
        | true =>
          simp only [expandB, hl, hr, zipO, Exp.zip] at h
          split at h
          · simp only [Option.some.injEq] at h
            subst h
            obtain ⟨x, hx, y, hy, rfl⟩ := mem_zipWith' _ _ _ _ hrow
            exact key x hx y hy hp
          · simp at h

/-- an empty field empties the expansion -/
theorem expandB_empty {α} (elems : Name → List α) (shape : Name → List Nat) (n : Name) (hn : elems n = []) :
    ∀ (t : Bin) (e : Exp α), expandB elems shape t = some e → n ∈ t.fields → e.rows = [] := by
  intro t
  induction t with
  | leaf m =>
    intro e h hm
    simp only [Bin.fields, List.mem_singleton] at hm
    subst hm
    simp only [expandB, Option.some.injEq] at h
    subst h; simp [hn]
  | node d l r ihl ihr =>
    intro e h hm
    simp only [Bin.fields, List.mem_append] at hm
    cases hl : expandB elems shape l with
    | none => cases d <;> simp [expandB, hl, prodO, zipO] at h
    | some a =>
      cases hr : expandB elems shape r with
      | none => cases d <;> simp [expandB, hl, hr, prodO, zipO] at h
      | some b =>
        have hab : a.rows = [] ∨ b.rows = [] := by
          rcases hm with hm | hm
          · exact Or.inl (ihl a hl hm)
          · exact Or.inr (ihr b hr hm)
        cases d with
        | false =>
          simp only [expandB, hl, hr, prodO, Option.some.injEq] at h
          subst h
          rcases hab with h0 | h0 <;> simp [Exp.product, h0]
        | true =>
          simp only [expandB, hl, hr, zipO, Exp.zip] at h
          split at h
          · simp only [Option.some.injEq] at h
            subst h
            rcases hab with h0 | h0 <;> simp [h0]
          · simp at h

/-- `map_splits`: when every index is in range, the values are read off position by position -/
theorem mapRow_ok (venv : VEnv) : ∀ (row : List (Name × Nat)),
    (∀ p ∈ row, p.2 < (flatten (venv p.1).2 (venv p.1).1).length) →
    mapRow venv row = .ok (row.map (fun p => (p.1, (flatten (venv p.1).2 (venv p.1).1).getD p.2 (.leaf 0)))) := by
  intro row
  induction row with
  | nil => intro _; simp [mapRow]
  | cons p rest ih =>
    intro h
    obtain ⟨k, i⟩ := p
    have hi := h (k, i) (by simp)
    simp only [mapRow, elementAt, List.getElem?_eq_getElem hi]
    rw [ih (fun q hq => h q (by simp [hq]))]
    simp [List.getD, List.getElem?_eq_getElem hi]

theorem mapSplits_ok (venv : VEnv) : ∀ (rows : List (List (Name × Nat))),
    (∀ row ∈ rows, ∀ p ∈ row, p.2 < (flatten (venv p.1).2 (venv p.1).1).length) →
    mapSplits venv rows =
      .ok (rows.map (fun row => row.map (fun p => (p.1, (flatten (venv p.1).2 (venv p.1).1).getD p.2 (.leaf 0))))) := by
  intro rows
  induction rows with
  | nil => intro _; simp [mapSplits]
  | cons row rest ih =>
    intro h
    simp only [mapSplits]
    rw [mapRow_ok venv row (h row (by simp)), ih (fun r hr => h r (by simp [hr]))]
    simp

/-- splitting a field alone: `map_splits` over `range(prod(shape))` is `elemsUpTo` -/
theorem mapSplits_single (venv : VEnv) (x : Name) : ∀ (idxs : List Nat),
    mapSplits venv (idxs.map (fun i => [(x, i)])) =
      match elemsUpTo (venv x).1 (venv x).2 idxs with
      | .ok es => .ok (es.map (fun e => [(x, e)]))
      | .error e => .error e := by
  intro idxs
  induction idxs with
  | nil => simp [mapSplits, elemsUpTo]
  | cons i rest ih =>
    simp only [List.map_cons, mapSplits, mapRow, elemsUpTo]
    cases elementAt (venv x).1 (venv x).2 i with
    | error e => rfl
    | ok y =>
      simp only []
      rw [ih]
      cases elemsUpTo (venv x).1 (venv x).2 rest <;> simp

theorem range_map_getD {α} (L : List α) (dflt : α) : (List.range L.length).map (fun i => L.getD i dflt) = L := by
  apply List.ext_getElem
  · simp
  · intro i h1 h2
    simp at h1
    simp [List.getD, List.getElem?_eq_getElem h1]

end PydraModel.StateAlg
