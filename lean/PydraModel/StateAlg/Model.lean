import PydraModel.Basic
/-
Engine `StateAlg` (DESIGN §5.1): the splitter / combiner algebra of `pydra/engine/state.py`
(pinned commit), for a state without upstream states (`other_states = {}`), plus the split/combine
validation of `pydra/compose/base/task.py`.

The functions mirror *the algorithm the code uses*, including its defects:
  * `splitter2rpn/_ordering/_iterate_list`         → `toRPN`
  * `State.splits` (stack machine; keys per stack entry since the repair of D1; the old global-`keys` machine is kept in
    `OldKeys.lean`) → `splitsStep`, `runToks`, `splits`
  * `_processing_terms`, `_single_op_splits`        → `processingTerms`, the `[.f n]` case of `splits`
  * `iter_splits`                                   → `iterSplits`
  * `input_shape`, `flatten`, `map_splits`          → `inputShape`, `flatten`, `elementAt`, `statesVal`
  * `splits_groups`, `combine_final_groups`, `converter_groups_to_input` → `splitsGroups`, `combineFinalGroups`
  * `remove_inp_from_splitter_rpn`                  → `removeRPN`
  * `prepare_states_ind/_combined_ind/_val`         → `prepareStates`
  * `LazyOutField._get_value` (`group_values`)      → `groupValues`, `publicGroups`
  * `Task.split`, `Task.combine`, `Submitter.__call__`'s combiner check, `State.combiner_validation`
                                                   → `splitCheck`, `combineCheck`, `submitCheck`, `combinerValidation`

Index tuples: the code builds nested tuples (`zip`/`itertools.product` of iterators of tuples) and
flattens them in `iter_splits` (`flatten(.., max_depth=1000)`); the model keeps every row already
flattened (`flatten (l, r) = flatten l ++ flatten r`).
Field names are numbers (the harness numbers the fields; `State` prefixes every name with the node name,
which is a bijection and not modelled).
-/
namespace PydraModel.StateAlg

abbrev Name := Nat

/-- A splitter as the user writes it: a field, a Python list (outer product) or a tuple (inner). -/
inductive Spl where
  | fld (n : Name)
  | outer (l : List Spl)
  | inner (l : List Spl)

inductive Tok where
  | f (n : Name)
  | star
  | dot
  deriving DecidableEq, Repr

/-- Exceptions the modelled code can raise.
`shape` = ValueError("Operands … do not have same shape"), `stack` = IndexError (pop from empty list),
`index` = IndexError (list index out of range), `state` = PydraStateError, `key` = KeyError,
`value` = ValueError (validation in Task.split/combine, Submitter), `type` = TypeError,
`assertion` = AssertionError (`State.depth`),
`malformed` = a machine configuration the Python code cannot reach from a splitter. -/
inductive Err where
  | shape | stack | index | state | key | value | type | malformed
  deriving DecidableEq, Repr

/-! ### splitter2rpn -/

mutual
/-- `_ordering(el, i, output_splitter, current_sign)`; `after` = `some current_sign` when `i > 0` (the sign appended by the
    trailing `if i > 0: output_splitter.append(current_sign)`), `none` when `i = 0`.
    A one-element list/tuple is unwrapped by a recursive call with the same `i` and `current_sign`, which already appends the
    sign, followed by `return` (after the repair of D33; before it the sign was emitted twice at positions `i > 0`). -/
def ordering : Spl → Option Tok → List Tok
  | .fld n, after => .f n :: after.toList
  | .outer l, after => orderingNode .star l after
  | .inner l, after => orderingNode .dot l after
def orderingNode (sign : Tok) : List Spl → Option Tok → List Tok
  | [], _ => []                      -- Python raises IndexError on a nested `[]`; excluded by `Spl.wf`
  | s :: rest, after =>
    match rest with
    | [] => ordering s after                                    -- len(el) == 1: recursive call, then `return`
    | _ :: _ => ordering s none ++ orderingRest sign rest ++ after.toList   -- `_iterate_list`: i = 0, then i > 0
def orderingRest (sign : Tok) : List Spl → List Tok
  | [] => []
  | s :: rest => ordering s (some sign) ++ orderingRest sign rest
end

/-- `splitter2rpn(splitter)` -/
def toRPN (s : Spl) : List Tok := ordering s none

mutual
/-- `unwrap_splitter`: the fields, left to right. -/
def Spl.fields : Spl → List Name
  | .fld n => [n]
  | .outer l => fieldsList l
  | .inner l => fieldsList l
def fieldsList : List Spl → List Name
  | [] => []
  | s :: rest => s.fields ++ fieldsList rest
end

mutual
/-- no empty list/tuple anywhere (those make `_ordering` raise IndexError when the State is built). -/
def Spl.wf : Spl → Bool
  | .fld _ => true
  | .outer l => wfList l && !l.isEmpty
  | .inner l => wfList l && !l.isEmpty
def wfList : List Spl → Bool
  | [] => true
  | s :: rest => s.wf && wfList rest
end

/-! ### State.splits -/

/-- An entry of the `stack` in `State.splits`: a field name not yet processed (a Python `str`) or a
    processed term `(iterator of index tuples, shape, keys)` — after the repair of D1 every processed term carries the
    names of its own variables, in the order of the indices its iterator yields. -/
inductive Item where
  | raw (n : Name)
  | done (rows : List (List Nat)) (shape : List Nat) (keys : List Name)
  deriving DecidableEq, Repr

/-- The two local variables of `State.splits` that survive an iteration: `stack` and `keys` (the names of the last
    operation processed; this is what the function returns next to the iterator). -/
structure M where
  stack : List Item
  keys : List Name
  deriving DecidableEq, Repr

/-- `input_shape(self.inputs[term], container_ndim)` for every field. -/
abbrev ShapeEnv := Name → List Nat

/-- `math.prod` -/
def prod : List Nat → Nat
  | [] => 1
  | x :: xs => x * prod xs

/-- `range(prod(shape))`, each index as a row of its own -/
def rawRows (sh : List Nat) : List (List Nat) := (List.range (prod sh)).map (fun i => [i])

/-- `op["."] = zip` (rows concatenated = flattened pair) -/
def zipRows (a b : List (List Nat)) : List (List Nat) := List.zipWith (· ++ ·) a b

/-- `op["*"] = itertools.product`: left operand slowest -/
def prodRows (a b : List (List Nat)) : List (List Nat) := a.flatMap (fun l => b.map (fun r => l ++ r))

/-- `_processing_terms` for a field of the current node: `(shape, var_ind, new_keys)` -/
def processingTerms (env : ShapeEnv) (n : Name) : List Nat × List (List Nat) × List Name :=
  (env n, rawRows (env n), [n])

/-- an operand popped from the stack, unpacked: `(shape, var_ind, keys)` -/
def unpack (env : ShapeEnv) : Item → List Nat × List (List Nat) × List Name
  | .raw n => processingTerms env n                 -- `isinstance(term, str)`: `_processing_terms`
  | .done rows shape keys => (shape, rows, keys)    -- `var_ind, shape, keys = term`

/-- shape check and `pushval = (op[token](var_ind_L, var_ind_R), newshape, keys)` with `keys = keys_L + keys_R` -/
def pushVal (dot : Bool) (shL : List Nat) (indL : List (List Nat)) (shR : List Nat) (indR : List (List Nat))
    (keys : List Name) : Except Err Item :=
  if dot then
    if shL ≠ shR then .error .shape else .ok (.done (zipRows indL indR) shR keys)
  else .ok (.done (prodRows indL indR) (shL ++ shR) keys)

/-- One iteration of the `for token in splitter_rpn` loop of `State.splits`. -/
def splitsStep (env : ShapeEnv) (m : M) : Tok → Except Err M
  | .f n => .ok { m with stack := .raw n :: m.stack }
  | tok =>
    match m.stack with
    | termR :: termL :: st =>
      let (shL, indL, keysL) := unpack env termL
      let (shR, indR, keysR) := unpack env termR
      match pushVal (tok == .dot) shL indL shR indR (keysL ++ keysR) with
      | .ok it => .ok ⟨it :: st, keysL ++ keysR⟩
      | .error e => .error e
    | _ => .error .stack

def runToks (env : ShapeEnv) : M → List Tok → Except Err M
  | m, [] => .ok m
  | m, t :: ts =>
    match splitsStep env m t with
    | .ok m' => runToks env m' ts
    | .error e => .error e

/-- `State.splits(splitter_rpn)` → `(var_ind, keys)` -/
def splits (env : ShapeEnv) (rpn : List Tok) : Except Err (List (List Nat) × List Name) :=
  match rpn with
  | [.f n] => .ok (rawRows (env n), [n])           -- `_single_op_splits`: `op["*"](range(prod(shape)))`, keys `[op_single]`
  | [_] => .error .key                             -- a lone sign: `self.inputs["*"]`
  | _ =>
    match runToks env ⟨[], []⟩ rpn with
    | .error e => .error e
    | .ok m =>
      match m.stack with
      | .done rows _ _ :: _ => .ok (rows, m.keys)
      | .raw _ :: _ => .error .malformed
      | [] => .error .stack

/-- `iter_splits`: `dict(zip(keys, flatten(row)))` (duplicate keys are excluded by `Task.split`) -/
def iterSplits (rows : List (List Nat)) (keys : List Name) : List (List (Name × Nat)) :=
  rows.map (fun r => keys.zip r)

/-- `prepare_states_ind` without combiner: `states_ind` -/
def statesInd (env : ShapeEnv) (s : Spl) : Except Err (List (List (Name × Nat))) :=
  match splits env (toRPN s) with
  | .ok (rows, keys) => .ok (iterSplits rows keys)
  | .error e => .error e

/-! ### nested input values: input_shape, flatten, map_splits -/

/-- A value inside a split field: an atom or a Python list. -/
inductive Nested where
  | leaf (v : Int)
  | node (l : List Nested)

/-- `input_shape(inp, container_ndim)`; `inp` is the list held by the field.  The loop keeps `last_shape` only while
    every element is a list whose own shape equals the first one's; anything else falls back to `(len(inp),)`. -/
def inputShape : Nat → List Nested → List Nat
  | 0, inp => [inp.length]
  | 1, inp => [inp.length]
  | n + 2, inp =>
    inp.length ::
      (match inp with
       | [] => []
       | .leaf _ :: _ => []
       | .node c :: xs =>
         let sh := inputShape (n + 1) c
         if xs.all (fun y => match y with
                             | .leaf _ => false
                             | .node c' => inputShape (n + 1) c' == sh) then sh else [])

/-- `flatten(vals, cur_depth, max_depth)` with `m = max_depth - cur_depth` levels left. -/
def flatten : Nat → List Nested → List Nested
  | 0, vals => [.node vals]
  | m + 1, vals => vals.flatMap (fun v => match v with
                                          | .node l => flatten m l
                                          | .leaf x => [.leaf x])

/-- `list(flatten(ensure_list(inputs[k]), max_depth=container_ndim.get(k)))[v]` -/
def elementAt (v : List Nested) (ndim : Nat) (i : Nat) : Except Err Nested :=
  match (flatten ndim v)[i]? with
  | some x => .ok x
  | none => .error .index

/-- value and `container_ndim` (default 1) of every field -/
abbrev VEnv := Name → List Nested × Nat

def shapeEnv (venv : VEnv) : ShapeEnv := fun n => inputShape (venv n).2 (venv n).1

def mapRow (venv : VEnv) : List (Name × Nat) → Except Err (List (Name × Nested))
  | [] => .ok []
  | (k, i) :: rest =>
    match elementAt (venv k).1 (venv k).2 i with
    | .error e => .error e
    | .ok x =>
      match mapRow venv rest with
      | .error e => .error e
      | .ok r => .ok ((k, x) :: r)

/-- `map_splits` over all states (a generator consumed by `list(...)`: the first failure aborts) -/
def mapSplits (venv : VEnv) : List (List (Name × Nat)) → Except Err (List (List (Name × Nested)))
  | [] => .ok []
  | row :: rest =>
    match mapRow venv row with
    | .error e => .error e
    | .ok r =>
      match mapSplits venv rest with
      | .error e => .error e
      | .ok rs => .ok (r :: rs)

/-- `prepare_states` without combiner: `states_val` -/
def statesVal (venv : VEnv) (s : Spl) : Except Err (List (List (Name × Nested))) :=
  match statesInd (shapeEnv venv) s with
  | .error e => .error e
  | .ok inds => mapSplits venv inds

def elemsUpTo (v : List Nested) (ndim : Nat) : List Nat → Except Err (List Nested)
  | [] => .ok []
  | i :: rest =>
    match elementAt v ndim i with
    | .error e => .error e
    | .ok x =>
      match elemsUpTo v ndim rest with
      | .error e => .error e
      | .ok r => .ok (x :: r)

/-- the values a field split alone is run over: `range(prod(input_shape))` indexing into `flatten` -/
def elements (v : List Nested) (ndim : Nat) : Except Err (List Nested) :=
  elemsUpTo v ndim (List.range (prod (inputShape ndim v)))

/-! ### splits_groups / combine_final_groups -/

/-- a value of the `groups` dict or of the groups stack: an `int` or a `list` of ints -/
inductive G where
  | one (g : Nat)
  | many (l : List Nat)
  deriving DecidableEq, Repr

/-- `ensure_list` -/
def G.list : G → List Nat
  | .one g => [g]
  | .many l => l

inductive GItem where
  | raw (n : Name)
  | grp (g : G)
  deriving DecidableEq, Repr

/-- insertion-ordered dict assignment `d[k] = v` -/
def dictSet {α} (d : List (Name × α)) (k : Name) (v : α) : List (Name × α) :=
  if d.any (fun e => e.1 == k) then d.map (fun e => if e.1 == k then (k, v) else e) else d ++ [(k, v)]

def dictGet? {α} (d : List (Name × α)) (k : Name) : Option α := (d.find? (fun e => e.1 == k)).map (·.2)

structure GS where
  stack : List GItem
  keys : List Name
  groups : List (Name × G)
  count : Option Nat            -- `group_count` (None at the start)
  deriving DecidableEq, Repr

/-- `group_count = 0 if None else group_count + 1` -/
def bump : Option Nat → Nat
  | none => 0
  | some c => c + 1

/-- position of `v` in `l` (`list.index`) -/
def indexOf? (l : List Nat) (v : Nat) : Option Nat :=
  match l with
  | [] => none
  | x :: xs => if x == v then some 0 else (indexOf? xs v).map (· + 1)

/-- One iteration of the loop of `splits_groups` (no `inner_inputs`). -/
def groupsStep (s : GS) : Tok → Except Err GS
  | .f n => .ok { s with stack := .raw n :: s.stack }
  | tok =>
    match s.stack with
    | termR :: termL :: st =>
      -- keys: `keys.insert(0, L)` if L is a str, `keys.append(R)` if R is a str
      let keys1 := match termL with | .raw l => l :: s.keys | _ => s.keys
      let keys2 := match termR with | .raw r => keys1 ++ [r] | _ => keys1
      if tok == .dot then
        match termL, termR with
        | .raw l, .raw r =>
          let c := bump s.count
          .ok ⟨.grp (.one c) :: st, keys2, dictSet (dictSet s.groups l (.one c)) r (.one c), some c⟩
        | .grp gl, .raw r => .ok ⟨.grp gl :: st, keys2, dictSet s.groups r gl, s.count⟩
        | .raw l, .grp gr => .ok ⟨.grp gr :: st, keys2, dictSet s.groups l gr, s.count⟩
        | .grp gl, .grp gr =>
          if gl.list.length ≠ gr.list.length then .error .shape      -- ValueError("Operands do not have same shape (left one is {}d …")
          else
            -- "changing axes for Right part of the scalar op": only *int* values are renamed
            -- (`v in ensure_list(oldgroups["R"])` is False for a list `v`); the dict is updated while iterating,
            -- later entries see earlier renamings only through their own value, so a `map` is exact
            let groups' := s.groups.map (fun e =>
              match e.2 with
              | .one v => (match indexOf? gr.list v with
                           | some i => (e.1, .one (gl.list.getD i v))
                           | none => e)
              | .many _ => e)
            .ok ⟨.grp gl :: st, keys2, groups', s.count⟩
      else
        match termL, termR with
        | .raw l, .raw r =>
          let c := bump s.count
          .ok ⟨.grp (.many [c, c + 1]) :: st, keys2, dictSet (dictSet s.groups l (.one c)) r (.one (c + 1)), some (c + 1)⟩
        | .grp gl, .raw r =>
          match s.count with
          | none => .error .type                                     -- `None += 1`
          | some c0 =>
            let c := c0 + 1
            .ok ⟨.grp (.many (gl.list ++ [c])) :: st, keys2, dictSet s.groups r (.one c), some c⟩
        | .raw l, .grp gr =>
          match s.count with
          | none => .error .type
          | some c0 =>
            let c := c0 + 1
            .ok ⟨.grp (.many ([c] ++ gr.list)) :: st, keys2, dictSet s.groups l (.one c), some c⟩
        | .grp gl, .grp gr => .ok ⟨.grp (.many (gl.list ++ gr.list)) :: st, keys2, s.groups, s.count⟩
    | _ => .error .stack

def runGroups : GS → List Tok → Except Err GS
  | s, [] => .ok s
  | s, t :: ts =>
    match groupsStep s t with
    | .ok s' => runGroups s' ts
    | .error e => .error e

def dedup (l : List Nat) : List Nat := l.foldl (fun acc x => if acc.contains x then acc else acc ++ [x]) []

/-- insertion sort (`list.sort()` on distinct numbers) -/
def insertSorted (x : Nat) : List Nat → List Nat
  | [] => [x]
  | y :: ys => if x ≤ y then x :: y :: ys else y :: insertSorted x ys
def sortNat (l : List Nat) : List Nat := l.foldr insertSorted []

/-- fields whose group (or one of whose groups) is `g` — `converter_groups_to_input(groups)[0][g]` -/
def inputsForGroup (groups : List (Name × G)) (g : Nat) : List Name :=
  (groups.filter (fun e => e.2.list.contains g)).map (·.1)

/-- the "not ready to combine" loop of `combine_final_groups` on the last level of the groups stack -/
def removeGroups : List Nat → List Nat → List Nat → Except Err (List Nat × List Nat)
  | last, removed, [] => .ok (last, removed)
  | last, removed, g :: gs =>
    if last.contains g then removeGroups (last.erase g) (g :: removed) gs
    else if removed.contains g then removeGroups last removed gs
    else .error .state

structure GroupsOut where
  keysFinal : List Name
  groupsFinal : List (Name × G)
  stackFinal : List Nat
  combinerAll : List Name
  deriving DecidableEq, Repr

/-- `combine_final_groups(combiner, groups, [groups_stack], keys)` -/
def combineFinalGroups (combiner : List Name) (groups : List (Name × G)) (stackTop : List Nat) (keys : List Name) :
    Except Err GroupsOut :=
  -- combiner_all
  let rec gather : List Name → Except Err (List Name)
    | [] => .ok []
    | c :: cs =>
      match dictGet? groups c with
      | none => .error .key
      | some g =>
        match gather cs with
        | .error e => .error e
        | .ok r => .ok (g.list.flatMap (inputsForGroup groups) ++ r)
  let rec grsOf : List Name → List Nat
    | [] => []
    | c :: cs => (match dictGet? groups c with | some g => g.list | none => []) ++ grsOf cs
  match gather combiner with
  | .error e => .error e
  | .ok all0 =>
    let combinerAll := sortNat (dedup all0)
    match removeGroups stackTop [] (grsOf combiner) with
    | .error e => .error e
    | .ok (last, _) =>
      let groupsFinal := groups.filter (fun e => !combinerAll.contains e.1)
      let grFinal := sortNat (dedup (groupsFinal.flatMap (fun e => e.2.list)))
      let renum (g : Nat) : Option Nat := indexOf? grFinal g
      let rec renumAll : List Nat → Except Err (List Nat)
        | [] => .ok []
        | g :: gs =>
          match renum g, renumAll gs with
          | some i, .ok r => .ok (i :: r)
          | none, _ => .error .key
          | _, .error e => .error e
      let rec mapGroups : List (Name × G) → Except Err (List (Name × G))
        | [] => .ok []
        | (k, .one g) :: r =>
          match renum g, mapGroups r with
          | some i, .ok r' => .ok ((k, .one i) :: r')
          | none, _ => .error .key
          | _, .error e => .error e
        | (k, .many l) :: r =>
          match renumAll l, mapGroups r with
          | .ok l', .ok r' => .ok ((k, .many l') :: r')
          | .error e, _ => .error e
          | _, .error e => .error e
      match mapGroups groupsFinal, renumAll last with
      | .ok gf, .ok sf => .ok ⟨keys.filter (fun k => !combinerAll.contains k), gf, sf, combinerAll⟩
      | .error e, _ => .error e
      | _, .error e => .error e

/-- `splits_groups(splitter_rpn, combiner)` without `inner_inputs` -/
def splitsGroups (rpn : List Tok) (combiner : List Name) : Except Err GroupsOut :=
  match rpn with
  | [] => .ok ⟨[], [], [], []⟩
  | [.f n] =>                                          -- `_single_op_splits_groups`
    if combiner.isEmpty then .ok ⟨[n], [(n, .one 0)], [0], []⟩
    else if combiner == [n] then .ok ⟨[], [], [], combiner⟩
    else .error .state
  | [_] => .error .malformed
  | _ =>
    match runGroups ⟨[], [], [], none⟩ rpn with
    | .error e => .error e
    | .ok s =>
      match s.stack with
      | .grp g :: _ =>
        if combiner.isEmpty then .ok ⟨s.keys, s.groups, g.list, []⟩
        else combineFinalGroups combiner s.groups g.list s.keys
      | _ => .error .malformed

/-- `NodeExecution._split_task`: `attrs.evolve(task, **resolved)` where `resolved[name] = vals[state_key]` (`try … except
    KeyError`) for the fields found in the job's `states_val` entry — WHATEVER the value is (`α` may contain Python's `None`,
    `0`, `''`, `[]` …: presence of the key decides, not the truth value) — every other input keeps the value of the base task. -/
def splitTask {α : Type} (base vals : List (Name × α)) : List (Name × α) :=
  base.map (fun e => match dictGet? vals e.1 with
                     | some x => (e.1, x)
                     | none => e)

/-- documentation variant (NOT the code): looking the value up with `vals.get(state_key)` and substituting only `if state_val is
    not None` cannot tell an element that is `None` from "field not in the state"; `Option β` models values that may be `None` -/
def splitTaskNotNone {β : Type} (base vals : List (Name × Option β)) : List (Name × Option β) :=
  base.map (fun e => match dictGet? vals e.1 with
                     | some (some x) => (e.1, some x)
                     | _ => e)

/-! ### remove_inp_from_splitter_rpn -/

/-- one iteration of the loop of `remove_inp_from_splitter_rpn` (after the repair of D34): the RPN is evaluated on a stack
    of possibly empty sub-splitters in RPN form; a removed input becomes the empty splitter and an operator is kept only
    if both of its operands are still non-empty -/
def removeStep (toRemove : List Name) (stack : List (List Tok)) : Tok → Except Err (List (List Tok))
  | .f n => .ok ((if toRemove.contains n then [] else [.f n]) :: stack)
  | sign =>
    match stack with
    | right :: left :: st =>
      .ok ((if right.isEmpty then left else if left.isEmpty then right else left ++ right ++ [sign]) :: st)
    | _ => .error .stack

def removeLoop (toRemove : List Name) : List (List Tok) → List Tok → Except Err (List (List Tok))
  | st, [] => .ok st
  | st, t :: ts =>
    match removeStep toRemove st t with
    | .ok st' => removeLoop toRemove st' ts
    | .error e => .error e

def enumFrom' {α} : Nat → List α → List (Nat × α)
  | _, [] => []
  | i, x :: xs => (i, x) :: enumFrom' (i + 1) xs

/-- `remove_inp_from_splitter_rpn`: `stack.pop() if stack else []` -/
def removeRPN (rpn : List Tok) (toRemove : List Name) : Except Err (List Tok) :=
  match removeLoop toRemove [] rpn with
  | .error e => .error e
  | .ok [] => .ok []
  | .ok (top :: _) => .ok top

/-! ### combiner_validation, prepare_states with a combiner, lazy.py grouping -/

def rpnFields (rpn : List Tok) : List Name := rpn.filterMap (fun t => match t with | .f n => some n | _ => none)

/-- `State.combiner_validation` (the splitter is set) -/
def combinerValidation (rpn : List Tok) (combiner : List Name) : Except Err Unit :=
  if combiner.all (fun c => (rpnFields rpn).contains c) then .ok () else .error .state

def lookupAll (st : List (Name × Nat)) : List Name → Except Err (List Nat)
  | [] => .ok []
  | k :: ks =>
    match dictGet? st k, lookupAll st ks with
    | some v, .ok r => .ok (v :: r)
    | none, _ => .error .key
    | _, .error e => .error e

/-- the loop filling `final_combined_ind_mapping` (a dict group → list of state numbers, kept as a list indexed by group) -/
def fillMapping (indLFinal : List (List Nat)) (keysFinal : List Name) :
    List (List Nat) → Nat → List (List (Name × Nat)) → Except Err (List (List Nat))
  | acc, _, [] => .ok acc
  | acc, ii, st :: rest =>
    match lookupAll st keysFinal with
    | .error e => .error e
    | .ok indF =>
      match indLFinal.findIdx? (· == indF) with        -- `ind_map[ind_f]` (rows are distinct; the dict keeps the last, equal here)
      | none => .error .key
      | some g => fillMapping indLFinal keysFinal (acc.modify g (· ++ [ii])) (ii + 1) rest

structure Prepared where
  statesInd : List (List (Name × Nat))
  keys : List Name
  combinerAll : List Name
  rpnFinal : List Tok
  indLFinal : List (List Nat)
  keysFinal : List Name
  statesIndFinal : List (List (Name × Nat))
  mapping : List (List Nat)            -- `final_combined_ind_mapping`, by group number
  deriving DecidableEq, Repr

/-- `prepare_states` for a state with splitter `s` and combiner `comb` (index level).
    `partial_rpn = splitter2rpn(rpn2splitter(rpn))` is taken to be `rpn` (round trip on a well-formed RPN). -/
def prepareStates (env : ShapeEnv) (s : Spl) (comb : List Name) : Except Err Prepared :=
  let rpn := toRPN s
  match combinerValidation rpn comb with
  | .error e => .error e
  | .ok _ =>
  match splitsGroups rpn comb with                      -- set_input_groups
  | .error e => .error e
  | .ok go =>
  match splits env rpn with                             -- prepare_states_ind
  | .error e => .error e
  | .ok (rows, keys) =>
    let sti := iterSplits rows keys
    if comb.isEmpty then
      .ok ⟨sti, keys, [], rpn, rows, keys, sti, (List.range sti.length).map (fun i => [i])⟩
    else
      match removeRPN rpn go.combinerAll with
      | .error e => .error e
      | .ok crpn =>
        if crpn.isEmpty then
          .ok ⟨sti, keys, go.combinerAll, crpn, [], [], [], [List.range sti.length]⟩
        else
          match splits env crpn with
          | .error e => .error e
          | .ok (vals, keyR) =>
            if vals.isEmpty then
              .ok ⟨sti, keys, go.combinerAll, crpn, [], keyR, [], [List.range sti.length]⟩
            else
              match fillMapping vals keyR (vals.map (fun _ => [])) 0 sti with
              | .error e => .error e
              | .ok mp => .ok ⟨sti, keys, go.combinerAll, crpn, vals, keyR, iterSplits vals keyR, mp⟩

/-- `set(ind.items()).issuperset(final_index)` -/
def isSuperset (ind fin : List (Name × Nat)) : Bool := fin.all (fun e => ind.contains e)

/-- `group_values(index)` of `LazyOutField._get_value`: numbers of the jobs in group `index` -/
def groupValues (p : Prepared) (index : Nat) : List Nat :=
  match p.statesIndFinal[index]? with
  | none => []
  | some fin => (enumFrom' 0 p.statesInd).filterMap (fun e => if isSuperset e.2 fin then some e.1 else none)

/-- What `Task.split(..).combine(..)()` returns, as job numbers: `flat` list or list of groups. -/
inductive Out where
  | flat (jobs : List Nat)
  | grouped (groups : List (List Nat))
  deriving DecidableEq, Repr

/-- `LazyOutField._get_value(state_index=None)` for the node inside the implicit `Split` workflow -/
def publicGroups (p : Prepared) (hasCombiner : Bool) : Out :=
  if p.statesInd.isEmpty then .flat []                              -- `if not upstream_node._tasks: return StateArray()`
  else if !hasCombiner then .flat (List.range p.statesInd.length)
  else if p.indLFinal.isEmpty then .flat (List.range p.statesInd.length)
  else .grouped ((List.range p.indLFinal.length).map (groupValues p))

/-- `State.depth()` as called by `Submitter.__call__` (through `nest_output_type`) before anything runs: only its
    `assert`s matter here.  `true` = no AssertionError. -/
def depthCheck (rpn : List Tok) : Bool :=
  let rec go : Nat → List Tok → Option Nat
    | n, [] => some n
    | n, .f _ :: ts => go (n + 1) ts
    | n, _ :: ts => if n ≥ 2 then go (n - 1) ts else none
  go 0 rpn == some 1

/-! ### Task.split / Task.combine / Submitter.__call__ validation -/

structure SplitReq where
  splitter : Option Spl            -- positional argument (None / empty ⇒ names of the keyword arguments)
  kwargs : List Name               -- names of the keyword arguments, in call order
  taskFields : List Name           -- input fields of the task class
  hasSplitter : Bool               -- `self._splitter` already set
  overwrite : Bool
  ndimNames : List Name            -- keys of `container_ndim`
  nonSeq : List Name               -- keyword arguments whose value is not an iterable (or a str / Mapping)

def countIn (l : List Name) (x : Name) : Nat := (l.filter (· == x)).length

def hasDup (l : List Name) : Bool := l.any (fun x => countIn l x > 1)

/-- is the positional splitter "truthy" in Python (`if splitter:`) -/
def truthy : Option Spl → Bool
  | none => false
  | some (.fld _) => true
  | some (.outer l) => !l.isEmpty
  | some (.inner l) => !l.isEmpty

/-- `Task.split`: the checks in source order; returns the splitter that is stored. -/
def splitCheck (r : SplitReq) : Except Err Spl :=
  if r.hasSplitter && !r.overwrite then .error .value
  else
    let checked : Except Err (Spl × List Name) :=
      match r.splitter with
      | some s =>
        if truthy (some s) then
          let un := s.fields
          if hasDup un then .error .value
          else if un.any (fun x => !r.kwargs.contains x) then .error .value      -- missing_inputs
          else if r.kwargs.any (fun x => !un.contains x) then .error .value      -- unrecognised_inputs
          else .ok (s, un)
        else .ok (.outer (r.kwargs.map .fld), r.kwargs)
      | none => .ok (.outer (r.kwargs.map .fld), r.kwargs)
    match checked with
    | .error e => .error e
    | .ok (s, names) =>
      if r.ndimNames.any (fun x => !names.contains x) then .error .value
      else if r.kwargs.any (fun x => r.nonSeq.contains x) then .error .type
      else if r.kwargs.any (fun x => !r.taskFields.contains x) then .error .type  -- attrs.evolve: unexpected keyword
      else .ok s

/-- `Task.combine` -/
def combineCheck (taskFields : List Name) (hasCombiner overwrite : Bool) (combiner : List Name) : Except Err Unit :=
  if hasCombiner && !overwrite then .error .value
  else if combiner.any (fun c => !taskFields.contains c) then .error .value
  else .ok ()

/-- `Submitter.__call__`: a combiner without a splitter -/
def submitCheck (hasSplitter hasCombiner : Bool) : Except Err Unit :=
  if !hasSplitter && hasCombiner then .error .value else .ok ()

end PydraModel.StateAlg
