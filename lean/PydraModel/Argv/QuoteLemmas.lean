import PydraModel.Argv.ShlexSurvive
/-
Lemmas for C23 (quote stripping keeps inert runs) and C24 (reading back one rendered argument).
-/
namespace PydraModel.Argv

theorem infix_of_cons {e l : Str} {c : Char} (h : e <:+: c :: l) (hc : c ∉ e) (hne : e ≠ []) : e <:+: l := by
  rcases List.infix_cons_iff.mp h with h | h
  · rcases List.prefix_cons_iff.mp h with h | ⟨t, rfl, _⟩
    · exact absurd h hne
    · exact absurd (by simp) hc
  · exact h

theorem infix_of_concat {e l : Str} {c : Char} (h : e <:+: l ++ [c]) (hc : c ∉ e) (hne : e ≠ []) : e <:+: l := by
  rcases List.infix_concat_iff.mp h with h | h
  · rcases List.suffix_concat_iff.mp h with h | ⟨t, rfl, _⟩
    · exact absurd h hne
    · exact absurd (by simp) hc
  · exact h

theorem eq_dropLast_concat {l : Str} {c : Char} (h : l.getLast? = some c) : l = l.dropLast ++ [c] := by
  obtain ⟨ys, rfl⟩ := List.getLast?_eq_some_iff.mp h
  simp

theorem inert_not_mem {e : Str} (he : ∀ c ∈ e, inertChar c = true) {c : Char} (hc : inertChar c = false) : c ∉ e := by
  intro h; rw [he c h] at hc; exact absurd hc (by simp)

/-- `split_cmd`'s quote stripping never damages a run of inert characters. -/
theorem strip_keeps_inert (e t : Str) (hne : e ≠ []) (he : ∀ c ∈ e, inertChar c = true) (h : e <:+: t) :
    e <:+: stripOuterQuotes t := by
  unfold stripOuterQuotes
  cases t with
  | nil => exact h
  | cons q rest =>
    simp only
    split
    · rename_i hq
      have hqe : q ∉ e := by
        rcases hq with rfl | rfl <;> exact inert_not_mem he (by decide)
      have hnl : '\n' ∉ e := inert_not_mem he (by decide)
      have h1 : e <:+: rest := infix_of_cons h hqe hne
      by_cases hl : rest.getLast? = some '\n'
      · simp only [hl, if_true]
        split
        · rename_i hcond
          have h2 : e <:+: rest.dropLast := by
            rw [eq_dropLast_concat hl] at h1; exact infix_of_concat h1 hnl hne
          rw [eq_dropLast_concat hcond.1] at h2
          exact infix_of_concat h2 hqe hne
        · exact h
      · simp only [hl, if_false]
        split
        · rename_i hcond
          rw [eq_dropLast_concat hcond.1] at h1
          exact infix_of_concat h1 hqe hne
        · exact h
    · exact h

/-- C23 at the level of `split_cmd`: whatever text surrounds it, an inert run is found inside one argument. -/
theorem splitCmd_inert_survives (pre e post : Str) (hne : e ≠ []) (he : ∀ c ∈ e, inertChar c = true)
    (toks : List Str) (h : splitCmd (pre ++ (e ++ post)) = .ok toks) : ∃ t ∈ toks, e <:+: t := by
  unfold splitCmd shlexSplit at h
  cases hx : lex .ws (pre ++ (e ++ post)) with
  | error _ => simp [hx] at h
  | ok r =>
    simp [hx] at h
    have hr := lex_inert_survives e post hne he pre .ws r hx
    have h0 := lex_ws_fst _ r hx
    rcases hr with hr | ⟨t, ht, hr⟩
    · rw [h0] at hr; exact absurd (List.infix_nil.mp hr) hne
    · refine ⟨stripOuterQuotes t, ?_, strip_keeps_inert e t hne he hr⟩
      rw [← h]; exact List.mem_map.mpr ⟨t, ht, rfl⟩

/-! ### reading back one rendered argument (C24) -/

/-- A rendering `q` of the argument `a` is *readable* if, wherever it stands at the start of a word,
    the automaton reads exactly `a` and continues in the word state. -/
def Readable (q a : Str) : Prop :=
  ∀ rest, lex .ws (q ++ rest) = (lex .word rest).map (fun r => ([], (a ++ r.1) :: r.2))

theorem readable_quoteAlways (a : Str) : Readable (shQuoteAlways a) a := by
  intro rest
  simp only [shQuoteAlways, List.cons_append, List.append_assoc, List.nil_append]
  have : lex .ws ('\'' :: (quoteBody a ++ '\'' :: rest))
      = (lex .sq (quoteBody a ++ '\'' :: rest)).map (fun r => ([], r.1 :: r.2)) := by
    simp [lex, isWs]
  rw [this, lex_sq_quoteBody, emap_map]; rfl

theorem readable_bare (a : Str) (hne : a ≠ []) (ha : ∀ c ∈ a, inertChar c = true) : Readable a a := by
  intro rest
  obtain ⟨c, a', rfl⟩ := List.exists_cons_of_ne_nil hne
  exact lex_ws_inert c a' rest ha

theorem readable_squoted (a : Str) (ha : ∀ c ∈ a, c ≠ '\'') : Readable ('\'' :: (a ++ ['\''])) a := by
  intro rest
  simp only [List.cons_append, List.append_assoc, List.nil_append]
  have : lex .ws ('\'' :: (a ++ '\'' :: rest))
      = (lex .sq (a ++ '\'' :: rest)).map (fun r => ([], r.1 :: r.2)) := by
    simp [lex, isWs]
  rw [this, lex_sq_copy a rest ha, emap_map]; rfl

/-- blank-separated readable renderings are read back as the arguments, in any number -/
theorem lex_word_tail (Q : Str → Str) (l : List Str) (hQ : ∀ a ∈ l, Readable (Q a) a) :
    lex .word (l.flatMap (fun x => ' ' :: Q x)) = .ok ([], l) := by
  induction l with
  | nil => simp [lex]
  | cons a l ih =>
    have ih' := ih (fun x hx => hQ x (by simp [hx]))
    simp only [List.flatMap_cons, List.cons_append]
    have : lex .word (' ' :: (Q a ++ l.flatMap (fun x => ' ' :: Q x)))
        = (lex .ws (Q a ++ l.flatMap (fun x => ' ' :: Q x))).map (fun r => ([], r.2)) := by
      simp [lex, isWs]
    rw [this, hQ a (by simp) _, ih']
    simp

theorem joinSp_eq (Q : Str → Str) (a : Str) (l : List Str) :
    joinSp ((a :: l).map Q) = Q a ++ l.flatMap (fun x => ' ' :: Q x) := by
  induction l generalizing a with
  | nil => simp [joinSp]
  | cons b l ih =>
    simp only [List.map_cons, joinSp, List.flatMap_cons]
    have := ih b
    simp only [List.map_cons] at this
    rw [this]; simp

theorem roundtrip_of_readable (Q : Str → Str) (argv : List Str) (hQ : ∀ a ∈ argv, Readable (Q a) a) :
    shlexSplit (joinSp (argv.map Q)) = .ok argv := by
  cases argv with
  | nil => simp [joinSp, shlexSplit, lex]
  | cons a l =>
    rw [joinSp_eq, shlexSplit, hQ a (by simp) _, lex_word_tail Q l (fun x hx => hQ x (by simp [hx]))]
    simp

theorem isWs_cases {c : Char} (h : isWs c = true) : c = ' ' ∨ c = '\t' ∨ c = '\r' ∨ c = '\n' := by
  simpa [isWs, or_assoc] using h

theorem quoteSafe_inert (c : Char) (h : quoteSafeChar c = true) : inertChar c = true := by
  rw [inertChar_iff]
  refine ⟨?_, ?_, ?_, ?_⟩
  · cases hw : isWs c with
    | false => rfl
    | true =>
      rcases isWs_cases hw with rfl | rfl | rfl | rfl <;> exact absurd h (by decide)
  all_goals (intro hc; subst hc; exact absurd h (by decide))

end PydraModel.Argv
