import PydraModel.Argv.QuoteLemmas
import PydraModel.Argv.Model
/-
C23 for templated argstrs: `argstr_formatting`'s bracket clean-up and `strip()` leave a value in place
when it contains none of `[ ] ,` and blank and does not begin or end with a character `str.strip()` removes.
-/
namespace PydraModel.Argv
open List

theorem replace2Go_copy (a b : Char) (rep : Str) (e post : Str) (he : a ∉ e) :
    replace2Go a b rep false (e ++ post) = e ++ replace2Go a b rep false post := by
  induction e with
  | nil => rfl
  | cons c e ih =>
    have hc : c ≠ a := fun h => he (by simp [h])
    simp [replace2Go, hc, ih (fun h => he (by simp [h]))]

/-- a run without the two pattern characters is not touched by `str.replace` of that pattern -/
theorem replace2Go_survive (a b : Char) (rep : Str) (e post : Str) (hne : e ≠ []) (ha : a ∉ e) (hb : b ∉ e) :
    ∀ (pre : Str) (held : Bool), ∃ pre' post', replace2Go a b rep held (pre ++ (e ++ post)) = pre' ++ (e ++ post') := by
  intro pre
  induction pre with
  | nil =>
    intro held
    obtain ⟨c, e', rfl⟩ := exists_cons_of_ne_nil hne
    have hca : c ≠ a := fun h => ha (by simp [h])
    have hcb : c ≠ b := fun h => hb (by simp [h])
    have ha' : a ∉ e' := fun h => ha (by simp [h])
    cases held
    · refine ⟨[], replace2Go a b rep false post, ?_⟩
      simp [replace2Go, hca, replace2Go_copy a b rep e' post ha']
    · refine ⟨[a], replace2Go a b rep false post, ?_⟩
      simp [replace2Go, hca, hcb, replace2Go_copy a b rep e' post ha']
  | cons y pre ih =>
    intro held
    cases held
    · by_cases hy : y = a
      · obtain ⟨p', q', h⟩ := ih true
        exact ⟨p', q', by simp [replace2Go, hy, h]⟩
      · obtain ⟨p', q', h⟩ := ih false
        exact ⟨y :: p', q', by simp [replace2Go, hy, h]⟩
    · by_cases hyb : y = b
      · obtain ⟨p', q', h⟩ := ih false
        exact ⟨rep ++ p', q', by simp [replace2Go, hyb, h]⟩
      · by_cases hy : y = a
        · obtain ⟨p', q', h⟩ := ih true
          have hab : a ≠ b := fun hh => hyb (hy.trans hh)
          exact ⟨a :: p', q', by subst hy; simp [replace2Go, hab, h]⟩
        · obtain ⟨p', q', h⟩ := ih false
          exact ⟨a :: y :: p', q', by simp [replace2Go, hyb, hy, h]⟩

theorem replace2_survive (a b : Char) (rep : Str) (pre e post : Str) (hne : e ≠ []) (ha : a ∉ e) (hb : b ∉ e) :
    ∃ pre' post', replace2 a b rep (pre ++ (e ++ post)) = pre' ++ (e ++ post') :=
  replace2Go_survive a b rep e post hne ha hb pre false

theorem dropWhile_survive (p : Char → Bool) (e post : Str) (c : Char) (e' : Str) (he : e = c :: e') (hc : p c = false) :
    ∀ pre : Str, ∃ pre', (pre ++ (e ++ post)).dropWhile p = pre' ++ (e ++ post) := by
  intro pre
  induction pre with
  | nil => exact ⟨[], by subst he; simp [dropWhile_cons, hc]⟩
  | cons y pre ih =>
    by_cases hy : p y = true
    · obtain ⟨p', h⟩ := ih
      exact ⟨p', by simp [dropWhile_cons, hy, h]⟩
    · exact ⟨y :: pre, by simp [dropWhile_cons, hy]⟩

/-- `str.strip()` keeps a run whose first and last characters are not white space -/
theorem pyStrip_survive (pre e post : Str) (hne : e ≠ [])
    (hfirst : ∀ c, e.head? = some c → pySpace c = false) (hlast : ∀ c, e.getLast? = some c → pySpace c = false) :
    ∃ pre' post', pyStrip (pre ++ (e ++ post)) = pre' ++ (e ++ post') := by
  obtain ⟨c, e', he⟩ := exists_cons_of_ne_nil hne
  obtain ⟨p1, h1⟩ := dropWhile_survive pySpace e post c e' he (hfirst c (by simp [he])) pre
  -- now from the right
  have hrne : e.reverse ≠ [] := by simpa using hne
  obtain ⟨d, r', hr⟩ := exists_cons_of_ne_nil hrne
  have hd : pySpace d = false := by
    apply hlast d
    have : e = (d :: r').reverse := by rw [← hr]; simp
    rw [this]; simp
  obtain ⟨q1, h2⟩ := dropWhile_survive pySpace e.reverse p1.reverse d r' hr hd post.reverse
  refine ⟨p1, q1.reverse, ?_⟩
  unfold pyStrip
  rw [h1]
  have : (p1 ++ (e ++ post)).reverse = post.reverse ++ (e.reverse ++ p1.reverse) := by simp
  rw [this, h2]
  simp

/-- the whole tail of `argstr_formatting` -/
theorem cleanup_survive (pre e post : Str) (hne : e ≠ [])
    (hchars : ∀ c ∈ e, c ≠ '[' ∧ c ≠ ']' ∧ c ≠ ',' ∧ c ≠ ' ')
    (hfirst : ∀ c, e.head? = some c → pySpace c = false) (hlast : ∀ c, e.getLast? = some c → pySpace c = false) :
    ∃ pre' post', cleanup (pre ++ (e ++ post)) = pre' ++ (e ++ post') := by
  have n1 : '[' ∉ e := fun h => (hchars _ h).1 rfl
  have n2 : ']' ∉ e := fun h => (hchars _ h).2.1 rfl
  have n3 : ',' ∉ e := fun h => (hchars _ h).2.2.1 rfl
  have n4 : ' ' ∉ e := fun h => (hchars _ h).2.2.2 rfl
  obtain ⟨p1, q1, h1⟩ := replace2_survive '[' ' ' ['['] pre e post hne n1 n4
  obtain ⟨p2, q2, h2⟩ := replace2_survive ' ' ']' [']'] p1 e q1 hne n4 n2
  obtain ⟨p3, q3, h3⟩ := replace2_survive '[' ',' ['['] p2 e q2 hne n1 n3
  obtain ⟨p4, q4, h4⟩ := replace2_survive ',' ']' [']'] p3 e q3 hne n3 n2
  obtain ⟨p5, q5, h5⟩ := pyStrip_survive p4 e q4 hne hfirst hlast
  exact ⟨p5, q5, by unfold cleanup; rw [h1, h2, h3, h4, h5]⟩

/-- the rendered template contains the value wherever `{name}` stands -/
theorem renderSegs_contains (env : Env) (name e : Str) : ∀ (segs : List Seg) (r : Str),
    Seg.ref name ∈ segs → renderSegs (env.set name e) segs = .ok r → ∃ pre post, r = pre ++ (e ++ post) := by
  intro segs
  induction segs with
  | nil => intro r h; simp at h
  | cons seg segs ih =>
    intro r hmem hr
    cases seg with
    | lit s =>
      simp only [renderSegs] at hr
      cases hx : renderSegs (env.set name e) segs with
      | error _ => simp [hx] at hr
      | ok r' =>
        simp [hx] at hr
        have hm : Seg.ref name ∈ segs := by simpa using hmem
        obtain ⟨p, q, h⟩ := ih r' hm hx
        exact ⟨s ++ p, q, by rw [← hr, h]; simp⟩
    | ref n =>
      simp only [renderSegs] at hr
      by_cases hn : n = name
      · subst hn
        simp only [Env.set, if_true] at hr
        cases hx : renderSegs (Env.set env n e) segs with
        | error _ => simp [Env.set, hx] at hr
        | ok r' =>
          simp [Env.set, hx] at hr
          exact ⟨[], r', by rw [← hr]; simp⟩
      · have hm : Seg.ref name ∈ segs := by
          rcases mem_cons.mp hmem with h | h
          · exact absurd (by cases h; rfl) hn
          · exact h
        cases hv : (env.set name e) n with
        | none => simp [hv] at hr
        | some v =>
          simp only [hv] at hr
          cases hx : renderSegs (env.set name e) segs with
          | error _ => simp [hx] at hr
          | ok r' =>
            simp [hx] at hr
            obtain ⟨p, q, h⟩ := ih r' hm hx
            exact ⟨v ++ p, q, by rw [← hr, h]; simp⟩

end PydraModel.Argv
