import PydraModel.Argv.Spec
/-
`position_sort` (three buckets filled with `bisect.insort`) is a sorted, stable permutation, and it is
the documented order (`Spec.ordered`) whenever positions are pairwise different.
-/
namespace PydraModel.Argv
open List

variable {α : Type}

abbrev keyLE (a b : Int × α) : Prop := a.1 ≤ b.1
abbrev keyLT (a b : Int × α) : Prop := a.1 < b.1

/-! ### `insortR` -/

theorem insortR_perm (e : Int × α) (l : List (Int × α)) : Perm (insortR e l) (e :: l) := by
  induction l with
  | nil => exact Perm.refl _
  | cons x xs ih =>
    unfold insortR; split
    · exact Perm.refl _
    · exact (Perm.cons x ih).trans (Perm.swap e x xs)

theorem mem_insortR {e x : Int × α} {l : List (Int × α)} : x ∈ insortR e l ↔ x = e ∨ x ∈ l := by
  rw [(insortR_perm e l).mem_iff]; simp

theorem insortR_sorted (e : Int × α) (l : List (Int × α)) (h : l.Pairwise keyLE) :
    (insortR e l).Pairwise keyLE := by
  induction l with
  | nil => simp [insortR]
  | cons x xs ih =>
    rw [pairwise_cons] at h
    unfold insortR; split
    · rename_i hlt
      refine pairwise_cons.mpr ⟨?_, pairwise_cons.mpr h⟩
      intro b hb
      rcases mem_cons.mp hb with rfl | hb
      · exact Int.le_of_lt hlt
      · exact Int.le_trans (Int.le_of_lt hlt) (h.1 b hb)
    · rename_i hge
      refine pairwise_cons.mpr ⟨?_, ih h.2⟩
      intro b hb
      rcases mem_insortR.mp hb with rfl | hb
      · exact Int.not_lt.mp hge
      · exact h.1 b hb

/-- stability: among entries with the same position the new one comes last -/
theorem insortR_filter (e : Int × α) (l : List (Int × α)) (h : l.Pairwise keyLE) (k : Int) :
    (insortR e l).filter (fun x => x.1 == k) =
      l.filter (fun x => x.1 == k) ++ (if e.1 = k then [e] else []) := by
  induction l with
  | nil => by_cases hk : e.1 = k <;> simp [insortR, hk]
  | cons x xs ih =>
    rw [pairwise_cons] at h
    unfold insortR; split
    · rename_i hlt
      -- everything from x on has a larger key than e
      by_cases hk : e.1 = k
      · have hnone : ∀ y ∈ x :: xs, ¬ (y.1 == k) = true := by
          intro y hy hyk
          have hyk' : y.1 = k := by simpa using hyk
          have : x.1 ≤ y.1 := by
            rcases mem_cons.mp hy with rfl | hy
            · exact Int.le_refl _
            · exact h.1 y hy
          omega
        have hf : (x :: xs).filter (fun x => x.1 == k) = [] := filter_eq_nil_iff.mpr hnone
        simp only [hk, if_true]
        rw [filter_cons, hf]; simp [hk]
      · simp [filter_cons, hk]
    · rename_i hge
      rw [filter_cons, filter_cons, ih h.2]
      split <;> simp

/-! ### the three buckets -/

/-- `foldl insort` — what each of the two sorted buckets computes -/
def isortFrom (acc l : List (Int × α)) : List (Int × α) := l.foldl (fun a e => insortR e a) acc
def isortL (l : List (Int × α)) : List (Int × α) := isortFrom [] l

def nonnegOf (l : List (Option Int × α)) : List (Int × α) :=
  l.filterMap (fun e => match e.1 with | some p => if p < 0 then none else some (p, e.2) | none => none)
def negOf (l : List (Option Int × α)) : List (Int × α) :=
  l.filterMap (fun e => match e.1 with | some p => if p < 0 then some (p, e.2) else none | none => none)
def noneOf (l : List (Option Int × α)) : List α :=
  l.filterMap (fun e => match e.1 with | none => some e.2 | some _ => none)

theorem foldl_psStep (l : List (Option Int × α)) : ∀ b : Buckets α,
    l.foldl psStep b = ⟨isortFrom b.pos (nonnegOf l), b.none ++ noneOf l, isortFrom b.neg (negOf l)⟩ := by
  induction l with
  | nil => intro b; simp [isortFrom, nonnegOf, negOf, noneOf]
  | cons e l ih =>
    intro b
    rw [foldl_cons, ih]
    obtain ⟨p, x⟩ := e
    cases p with
    | none => simp [psStep, isortFrom, nonnegOf, negOf, noneOf]
    | some p =>
      by_cases hp : p < 0 <;> simp [psStep, isortFrom, nonnegOf, negOf, noneOf, hp]

/-- `position_sort` = sorted non-negative bucket, then the unpositioned in arrival order, then the sorted negative bucket -/
theorem positionSort_eq (l : List (Option Int × α)) :
    positionSort l = (isortL (nonnegOf l)).map (·.2) ++ noneOf l ++ (isortL (negOf l)).map (·.2) := by
  simp [positionSort, foldl_psStep, isortL]

theorem isortFrom_perm (acc l : List (Int × α)) : Perm (isortFrom acc l) (acc ++ l) := by
  induction l generalizing acc with
  | nil => simp [isortFrom]
  | cons e l ih =>
    simp only [isortFrom, foldl_cons]
    refine (ih (insortR e acc)).trans ?_
    refine ((insortR_perm e acc).append_right l).trans ?_
    simpa using (perm_middle (l₁ := acc) (a := e) (l₂ := l)).symm

theorem isortFrom_sorted (acc l : List (Int × α)) (h : acc.Pairwise keyLE) : (isortFrom acc l).Pairwise keyLE := by
  induction l generalizing acc with
  | nil => simpa [isortFrom]
  | cons e l ih => simp only [isortFrom, foldl_cons]; exact ih _ (insortR_sorted e acc h)

theorem isortFrom_filter (acc l : List (Int × α)) (h : acc.Pairwise keyLE) (k : Int) :
    (isortFrom acc l).filter (fun x => x.1 == k) = acc.filter (fun x => x.1 == k) ++ l.filter (fun x => x.1 == k) := by
  induction l generalizing acc with
  | nil => simp [isortFrom]
  | cons e l ih =>
    simp only [isortFrom, foldl_cons]
    have := ih (insortR e acc) (insortR_sorted e acc h)
    simp only [isortFrom] at this
    rw [this, insortR_filter e acc h k, filter_cons]
    by_cases hk : e.1 = k <;> simp [hk]

theorem isortL_perm (l : List (Int × α)) : Perm (isortL l) l := by simpa [isortL] using isortFrom_perm [] l
theorem isortL_sorted (l : List (Int × α)) : (isortL l).Pairwise keyLE := isortFrom_sorted [] l (by simp)
theorem isortL_stable (l : List (Int × α)) (k : Int) :
    (isortL l).filter (fun x => x.1 == k) = l.filter (fun x => x.1 == k) := by
  simpa [isortL] using isortFrom_filter [] l (by simp) k

/-! ### the reference sort -/

theorem insertAsc_perm (e : Int × α) (l : List (Int × α)) : Perm (Spec.insertAsc e l) (e :: l) := by
  induction l with
  | nil => exact Perm.refl _
  | cons x xs ih =>
    unfold Spec.insertAsc; split
    · exact Perm.refl _
    · exact (Perm.cons x ih).trans (Perm.swap e x xs)

theorem insertAsc_sorted (e : Int × α) (l : List (Int × α)) (h : l.Pairwise keyLE) :
    (Spec.insertAsc e l).Pairwise keyLE := by
  induction l with
  | nil => simp [Spec.insertAsc]
  | cons x xs ih =>
    rw [pairwise_cons] at h
    unfold Spec.insertAsc; split
    · rename_i hle
      refine pairwise_cons.mpr ⟨?_, pairwise_cons.mpr h⟩
      intro b hb
      rcases mem_cons.mp hb with rfl | hb
      · exact hle
      · exact Int.le_trans hle (h.1 b hb)
    · rename_i hgt
      refine pairwise_cons.mpr ⟨?_, ih h.2⟩
      intro b hb
      rcases mem_cons.mp ((insertAsc_perm e xs).subset hb) with rfl | hb
      · exact Int.le_of_lt (Int.not_le.mp hgt)
      · exact h.1 b hb

theorem sortAsc_perm (l : List (Int × α)) : Perm (Spec.sortAsc l) l := by
  induction l with
  | nil => exact Perm.refl _
  | cons x xs ih => exact (insertAsc_perm x _).trans (Perm.cons x ih)

theorem sortAsc_sorted (l : List (Int × α)) : (Spec.sortAsc l).Pairwise keyLE := by
  induction l with
  | nil => simp [Spec.sortAsc]
  | cons x xs ih => exact insertAsc_sorted x _ ih

/-! ### uniqueness when positions are pairwise different -/

theorem eq_of_mem_strict {l : List (Int × α)} (h : l.Pairwise keyLT) {a b : Int × α}
    (ha : a ∈ l) (hb : b ∈ l) (hk : a.1 = b.1) : a = b := by
  induction l with
  | nil => simp at ha
  | cons x xs ih =>
    rw [pairwise_cons] at h
    rcases mem_cons.mp ha with ha1 | ha1 <;> rcases mem_cons.mp hb with hb1 | hb1
    · rw [ha1, hb1]
    · have := h.1 b hb1; simp only [keyLT] at this; rw [ha1] at hk; omega
    · have := h.1 a ha1; simp only [keyLT] at this; rw [hb1] at hk; omega
    · exact ih h.2 ha1 hb1

/-- a strictly sorted list is the only sorted arrangement of its entries -/
theorem sorted_unique {l₁ l₂ : List (Int × α)} (h₁ : l₁.Pairwise keyLT) (h₂ : l₂.Pairwise keyLE)
    (hp : Perm l₁ l₂) : l₁ = l₂ := by
  refine Perm.eq_of_pairwise (le := keyLE) ?_ (h₁.imp (fun h => Int.le_of_lt h)) h₂ hp
  intro a b ha hb hab hba
  exact eq_of_mem_strict h₁ ha (hp.symm.subset hb) (Int.le_antisymm hab hba)

/-- strictness of a sorted list whose keys are pairwise different -/
theorem strict_of_sorted_nodup {l : List (Int × α)} (h : l.Pairwise keyLE) (hn : (l.map (·.1)).Nodup) :
    l.Pairwise keyLT := by
  induction l with
  | nil => simp
  | cons x xs ih =>
    rw [pairwise_cons] at h
    simp only [map_cons, nodup_cons, mem_map, not_exists, not_and] at hn
    refine pairwise_cons.mpr ⟨?_, ih h.2 hn.2⟩
    intro b hb
    have h1 := h.1 b hb
    have h2 := hn.1 b hb
    simp only [keyLE] at h1
    simp only [keyLT]
    omega

theorem isortL_eq_sortAsc (l : List (Int × α)) (hn : (l.map (·.1)).Nodup) : isortL l = Spec.sortAsc l := by
  have hp : Perm (Spec.sortAsc l) (isortL l) := (sortAsc_perm l).trans (isortL_perm l).symm
  have hn' : ((Spec.sortAsc l).map (·.1)).Nodup := ((sortAsc_perm l).map _).nodup_iff.mpr hn
  exact (sorted_unique (strict_of_sorted_nodup (sortAsc_sorted l) hn') (isortL_sorted l) hp).symm

/-! ### the buckets in terms of the reference's selectors -/

theorem nonnegOf_eq_sel (l : List (Option Int × α)) : nonnegOf l = l.filterMap Spec.selNonneg := by
  induction l with
  | nil => rfl
  | cons e l ih =>
    obtain ⟨p, x⟩ := e
    simp only [nonnegOf, filterMap_cons, Spec.selNonneg] at ih ⊢
    cases p with
    | none => simpa using ih
    | some p =>
      by_cases hp : p < 0
      · have : ¬ 0 ≤ p := by omega
        simp [hp, this, ih]
      · have : 0 ≤ p := by omega
        simp [hp, this, ih]

theorem nonneg_keys_sublist (l : List (Option Int × α)) :
    Sublist ((nonnegOf l).map (·.1)) (l.filterMap (·.1)) := by
  induction l with
  | nil => simp [nonnegOf]
  | cons e l ih =>
    obtain ⟨p, x⟩ := e
    cases p with
    | none => simpa [nonnegOf] using ih
    | some p =>
      by_cases hp : p < 0
      · simpa [nonnegOf, hp] using ih.cons p
      · simpa [nonnegOf, hp] using ih.cons_cons p

theorem neg_keys_sublist (l : List (Option Int × α)) :
    Sublist ((negOf l).map (·.1)) (l.filterMap (·.1)) := by
  induction l with
  | nil => simp [negOf]
  | cons e l ih =>
    obtain ⟨p, x⟩ := e
    cases p with
    | none => simpa [negOf] using ih
    | some p =>
      by_cases hp : p < 0
      · simpa [negOf, hp] using ih.cons_cons p
      · simpa [negOf, hp] using ih.cons p

end PydraModel.Argv
