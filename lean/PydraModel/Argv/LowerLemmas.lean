import PydraModel.Argv.AssemblyX
/-
What lowering (`lowerField`, `prepare`) does, feature by feature, and the refinement theorem of the
extended model.
-/
namespace PydraModel.Argv
open List

theorem mapE_length {α β ε} (g : α → Except ε β) : ∀ (l : List α) (r : List β), mapE g l = .ok r → r.length = l.length := by
  intro l
  induction l with
  | nil => intro r h; simp [mapE] at h; subst h; rfl
  | cons x xs ih =>
    intro r h
    simp only [mapE] at h
    cases hx : g x with
    | error _ => simp [hx] at h
    | ok y =>
      simp only [hx] at h
      cases hr : mapE g xs with
      | error _ => simp [hr] at h
      | ok ys => simp [hr] at h; subst h; simp [ih ys hr]

/-- REFINEMENT of the extended model: once the definition is accepted, the values are prepared and every
    field is lowered, the argument vector is the documented one of the lowered definition (under the
    hypotheses of `C22_commandArgs_partial` on the lowered definition, with the extended environment). -/
theorem runDefX_eq_spec (F : FormatterFn) (xenv : Env) (cd : Str) (exe app : List Str)
    (fxs : List FieldX) (vs : List ValueX) (filled : List Int)
    (pairs : List (FieldX × ValueX)) (low : List (Field × Value))
    (hdef : definePositions (fxs.map (·.base.position)) = .ok filled)
    (hprep : prepare cd fxs vs = .ok pairs)
    (hlow : mapE (fun p => lowerField F (inputsOf pairs) p.1 p.2) pairs = .ok low)
    (hpos : (low.map (·.1)).map (·.position) = fxs.map (·.base.position))
    (hsafe : ∀ t ∈ (triples (low.map (·.1)) filled (low.map (·.2))).filter Triple.live,
        ∃ a, t.1.argstr = some a ∧ SafeField (envX (inputsOf pairs) xenv) t.1 a t.2.2)
    (h26 : NoImplicitBelowExplicit (triples (low.map (·.1)) filled (low.map (·.2)))) :
    runDefX F xenv cd exe fxs vs app
      = .ok (Spec.commandArgsWith (envX (inputsOf pairs) xenv) exe (low.map (·.1)) (low.map (·.2)) app) := by
  unfold runDefX
  simp only [hdef, hprep, hlow]
  rw [commandArgsWith_eq_spec _ exe app (low.map (·.1)) (low.map (·.2)) filled (by rw [hpos]; exact hdef) (by simp) hsafe h26]
  rfl

/-! ### lowering keeps positions -/

theorem lowerField_position (F : FormatterFn) (inputs : List (Str × ValueX)) (fx : FieldX) (v : ValueX)
    (r : Field × Value) (h : lowerField F inputs fx v = .ok r) : r.1.position = fx.base.position := by
  unfold lowerField at h
  split at h
  · cases h; rfl
  · split at h
    · cases h; rfl
    · split at h
      · cases h
      · split at h
        · unfold lowerFormatter at h
          split at h
          · cases h
          · cases h; rfl
        · unfold lowerPlain at h
          split at h
          · cases h; rfl
          · cases h; rfl
          · split at h
            · unfold lowerOne at h
              split at h
              · cases h; rfl
              · split at h
                · cases h
                · cases h; rfl
            · cases h; rfl
          · split at h
            · unfold lowerMany at h
              split at h
              · cases h; rfl
              · split at h
                · split at h
                  · cases h
                  · cases h; rfl
                · split at h
                  · cases h; rfl
                  · split at h
                    · cases h
                    · cases h; rfl
            · cases h; rfl

/-! ### feature by feature -/

/-- a `bool` on a File-union field contributes nothing (C22's omission clause) -/
theorem lower_fileUnion_bool (F : FormatterFn) (inputs : List (Str × ValueX)) (fx : FieldX) (b : Bool)
    (h : fx.x.fileUnion = true) : lowerField F inputs fx (.v (.one (.bool b))) = .ok (fx.base, .unset) := by
  unfold lowerField; simp [droppedX, h]

/-- what a formatter is called with: one argument per parameter name, `field` ↦ the field, `inputs` ↦ the
    values dict, any other name ↦ that input's value — and an AttributeError when it is not a set input -/
theorem formatterArgs_spec (fx : FieldX) (inputs : List (Str × ValueX)) : ∀ (names : List Str) (args : List FArg),
    formatterArgs fx inputs names = .ok args →
    args.length = names.length ∧ ∀ i (hi : i < names.length) (hi' : i < args.length),
      (names[i] = "field".toList → args[i] = .field fx)
      ∧ (names[i] ≠ "field".toList → names[i] = "inputs".toList → args[i] = .inputs inputs)
      ∧ (names[i] ≠ "field".toList → names[i] ≠ "inputs".toList →
          ∃ v, lookupX inputs names[i] = some v ∧ args[i] = .val v) := by
  intro names
  induction names with
  | nil => intro args h; simp [formatterArgs] at h; subst h; simp
  | cons n ns ih =>
    intro args h
    simp only [formatterArgs] at h
    cases hr : formatterArgs fx inputs ns with
    | error e =>
      rw [hr] at h
      split at h
      · simp at h
      · split at h
        · simp at h
        · split at h <;> simp at h
    | ok rest =>
      rw [hr] at h
      obtain ⟨il, ih'⟩ := ih rest hr
      have key : ∀ a : FArg, args = a :: rest →
          ((n = "field".toList → a = .field fx)
          ∧ (n ≠ "field".toList → n = "inputs".toList → a = .inputs inputs)
          ∧ (n ≠ "field".toList → n ≠ "inputs".toList → ∃ v, lookupX inputs n = some v ∧ a = .val v)) →
          args.length = (n :: ns).length ∧ ∀ i (hi : i < (n :: ns).length) (hi' : i < args.length),
            ((n :: ns)[i] = "field".toList → args[i] = .field fx)
            ∧ ((n :: ns)[i] ≠ "field".toList → (n :: ns)[i] = "inputs".toList → args[i] = .inputs inputs)
            ∧ ((n :: ns)[i] ≠ "field".toList → (n :: ns)[i] ≠ "inputs".toList →
                ∃ v, lookupX inputs (n :: ns)[i] = some v ∧ args[i] = .val v) := by
        intro a ha hprop
        subst ha
        refine ⟨by simp [il], ?_⟩
        intro i hi hi'
        cases i with
        | zero => simpa using hprop
        | succ j => simpa using ih' j (by simpa using hi) (by simpa using hi')
      split at h
      · rename_i hn
        simp at h
        exact key _ h.symm ⟨fun _ => rfl, fun hh => absurd hn hh, fun hh => absurd hn hh⟩
      · rename_i hn
        split at h
        · rename_i hn2
          simp at h
          exact key _ h.symm ⟨fun hh => absurd hh hn, fun _ _ => rfl, fun _ hh => absurd hn2 hh⟩
        · rename_i hn2
          split at h
          · rename_i v hv
            simp at h
            exact key _ h.symm ⟨fun hh => absurd hh hn, fun _ hh => absurd hh hn2, fun _ _ => ⟨v, hv, rfl⟩⟩
          · simp at h

/-- a field with a `formatter`: lowered to a field whose only text is the (squeezed) result -/
theorem lower_formatter (F : FormatterFn) (inputs : List (Str × ValueX)) (fx : FieldX) (v : ValueX)
    (names : List Str) (args : List FArg) (hf : fx.x.formatter = some names)
    (hd : droppedX fx v = false) (hro : fx.x.readonly = false)
    (ha : formatterArgs fx inputs names = .ok args) :
    lowerField F inputs fx v
      = .ok ({ fx.base with isBool := false, isMulti := false, argstr := some ⟨[], false, []⟩ },
             .one (.str (squeeze (F fx.base.name args)))) := by
  unfold lowerField lowerFormatter; simp [hd, hf, hro, ha, roBad]

theorem splitCmd_cons_space (s : Str) : splitCmd (' ' :: s) = splitCmd s := by
  simp [splitCmd, shlexSplit, lex, isWs]

/-- … and where the result lands: it is re-tokenised by `split_cmd` as the field's whole contribution
    (nothing when it is empty) -/
theorem formatter_lands (env : Env) (f : Field) (out : Str) :
    fieldArgs env { f with isBool := false, isMulti := false, argstr := some ⟨[], false, []⟩ } ⟨[], false, []⟩ (.one (.str out))
      = if out.isEmpty then .ok [] else splitCmd out := by
  cases out with
  | nil => simp [fieldArgs, formatArg, formatScalar, Argstr.templated, Scalar.truthy]
  | cons c cs =>
    simp [fieldArgs, formatArg, formatScalar, Argstr.templated, Scalar.truthy, litText, Scalar.render, splitCmd_cons_space]

/-- a value given to a `readonly` field is refused … -/
theorem lower_readonly_given (F : FormatterFn) (inputs : List (Str × ValueX)) (fx : FieldX) (s : Str)
    (hro : fx.x.readonly = true) (ha : fx.base.argstr.isSome = true) :
    lowerField F inputs fx (.v (.one (.str s))) = .error .readonlyGiven := by
  have : fx.base.argstr.isNone = false := by cases h : fx.base.argstr <;> simp_all
  unfold lowerField; simp [droppedX, hro, this, roBad]

/-- … and a `readonly` field that is not set takes part with `str(attrs.NOTHING)` as its own (falsy) value -/
theorem lower_readonly_nothing (F : FormatterFn) (inputs : List (Str × ValueX)) (fx : FieldX)
    (hfo : fx.x.formatter = none) (ha : fx.base.argstr.isSome = true) :
    lowerField F inputs fx .nothing = .ok (fx.base, .one nothingScalar) := by
  have : fx.base.argstr.isNone = false := by cases h : fx.base.argstr <;> simp_all
  unfold lowerField; simp [droppedX, this, hfo, roBad, lowerPlain]

/-- an outarg with a `path_template` whose value is `True` holds the path `PathTemplate.resolve` gives -/
theorem resolveOne_template (cd : Str) (all : List (Str × PathTemplate.Val)) (fx : FieldX) (t : TemplateX) (p : Str)
    (ht : fx.x.template = some t)
    (hr : PathTemplate.resolve cd ⟨t.tmpl, all, t.keep, false⟩ .template = .ok (.one p)) :
    resolveOne cd all fx (.v (.one (.bool true))) = .ok (.v (.one (.path p))) := by
  simp [resolveOne, ht, givenOf, hr]

/-- brace-free values leave the argstr alone -/
theorem lowerArgstr_nobrace (a : Argstr) (name value : Str) (h : hasBrace value = false) :
    lowerArgstr a name value = .ok a := by
  simp [lowerArgstr, h]

/-- CONSERVATIVITY (field level): on a base field (no extras) with a value whose text has no braces,
    lowering returns the field itself, with its value when it takes part in the command -/
theorem lower_base (F : FormatterFn) (inputs : List (Str × ValueX)) (f : Field) (v : Value)
    (hb : match v with
      | .unset => True
      | .one x => hasBrace x.render = false
      | .many xs => (∀ x ∈ xs, hasBrace x.render = false) ∧ hasBrace (joinWith f.sep (xs.map Scalar.render)) = false) :
    lowerField F inputs ⟨f, {}⟩ (.v v) = .ok (f, if (Bound.mk f none v).live then v else .unset) := by
  unfold lowerField
  cases ha : f.argstr with
  | none => simp [droppedX, Bound.live, ha]
  | some a =>
    have hf : ({ f with argstr := some a } : Field) = f := by cases f; simp_all
    cases v with
    | unset => simp [droppedX, Bound.live]
    | one x =>
      simp only at hb
      have hd : droppedX ⟨f, {}⟩ (.v (.one x)) = false := by cases x <;> rfl
      simp only [hd, ha, Bound.live, roBad, lowerPlain, lowerOne, lowerArgstr_nobrace a f.name _ hb, hf]
      simp
    | many xs =>
      simp only at hb
      cases xs with
      | nil =>
        cases hm : f.isMulti
        · simp [droppedX, Bound.live, ha, hm, roBad, lowerPlain, lowerMany, lowerArgstr, hasBrace, joinWith, hf]
          intro _ _
          rw [← hm]; exact hf
        · simp [droppedX, Bound.live, ha, hm]
      | cons x xs =>
        have hany : (x :: xs).any (fun x => hasBrace x.render) = false := by
          simp only [any_eq_false]
          intro y hy; simpa using hb.1 y hy
        simp only [droppedX, Bound.live, ha, roBad, lowerPlain, lowerMany, lowerArgstr_nobrace a f.name _ hb.2, hany, hf]
        simp

end PydraModel.Argv

namespace PydraModel.Argv
open List

/-! ### the class form -/

theorem sortByName_sorted_id : ∀ (l : List (FieldX × ValueX)),
    l.Pairwise (fun p q => strLE p.1.base.name q.1.base.name = true) → sortByName l = l := by
  intro l
  induction l with
  | nil => intro _; rfl
  | cons p l ih =>
    intro h
    rw [pairwise_cons] at h
    have : sortByName (p :: l) = insertByName p (sortByName l) := rfl
    rw [this, ih h.2]
    cases l with
    | nil => rfl
    | cons q qs => simp [insertByName, h.1 q (by simp)]

/-- a class whose fields are written in name order (inputs, then outargs) is the `inputs=[…]` form -/
theorem classOrder_id (pairs : List (FieldX × ValueX))
    (h1 : pairs.filter (fun p => !p.1.x.out) ++ pairs.filter (fun p => p.1.x.out) = pairs)
    (h2 : (pairs.filter (fun p => !p.1.x.out)).Pairwise (fun p q => strLE p.1.base.name q.1.base.name = true))
    (h3 : (pairs.filter (fun p => p.1.x.out)).Pairwise (fun p q => strLE p.1.base.name q.1.base.name = true)) :
    classOrder pairs = pairs := by
  unfold classOrder
  rw [sortByName_sorted_id _ h2, sortByName_sorted_id _ h3, h1]

theorem tpIsBool_eq (f : Field) : f.tpIsBool = f.isBool := by
  unfold Field.tpIsBool Field.typeIsBool
  cases f.optional <;> simp

end PydraModel.Argv
