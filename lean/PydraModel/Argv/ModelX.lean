import PydraModel.Argv.Spec
import PydraModel.PathTemplate.Model
/-
Engine `Argv`, extended model: the parts of `_command_args` / `_command_pos_args` / `_format_arg` that
`Argv/Model.lean` leaves out, added WITHOUT changing any definition other engines build on:

* `allowed_values` (validator at instantiation), the mandatory-field rule of `_check_rules`,
* `readonly` fields (value `attrs.NOTHING`, or an error when a value is given),
* `bool` values on File-union fields (deleted from `values`),
* `formatter=` (an UNINTERPRETED function of the documented arguments; the model computes what is
  passed to it and where its result lands),
* conversions and format specs in an argstr (`{x!r}`, `{x:.2f}`: `parseArgstr` makes the whole text
  between the braces the reference's key; what `format()` produces for such a key is a parameter `xenv`),
* `outarg`s with a `path_template` (resolved by `PathTemplate.resolve`, owned by the PathTemplate engine),
* values containing `{` `}`: `_format_arg` substitutes the value into the argstr TEXT and only then calls
  `str.format`, so the value is re-parsed as a format string (errors, or injection of other fields).

Method: every extended field/value is LOWERED to a base `Field`/`Value` with the same contribution, and the
base pipeline (`definePositions`, `buildEntries`, `positionSort`) runs on the lowered definition with an
explicit environment.  `Argv/LowerLemmas.lean`: lowering is the identity on base definitions.
-/
namespace PydraModel.Argv

inductive ErrX where
  | base (e : Err)
  | notAllowed            -- ValueError: value … has to be from allowed_values
  | mandatory             -- ValueError: Mandatory field … is not set
  | readonlyGiven         -- Exception: … is read only, the value can't be provided
  | formatterArg          -- AttributeError: arguments of the formatter function … has to be in inputs or be field
  | reformat              -- str.format on the argstr with the value substituted: ValueError / IndexError / KeyError
  | template (e : PathTemplate.Err)
  | unmodelled (why : String)
  deriving DecidableEq, Repr

/-- a value as `attrs_values(task)` holds it: `attrs.NOTHING` or a value (`None` = `.v .unset`) -/
inductive ValueX where
  | nothing
  | v (v : Value)
  deriving DecidableEq, Repr

structure TemplateX where
  tmpl : Str
  keep : Bool
  deriving DecidableEq, Repr

/-- field attributes beyond `Argv.Field` -/
structure Extras where
  readonly : Bool := false
  fileUnion : Bool := false                  -- `is_fileset_or_union(fld.type)`
  allowed : Option (List Scalar) := none     -- `allowed_values`
  formatter : Option (List Str) := none      -- parameter names of `fld.formatter`
  template : Option TemplateX := none        -- `path_template`, `keep_extension` of an outarg
  out : Bool := false                        -- declared in `Outputs` (a `shell.outarg`)
  deriving DecidableEq, Repr

structure FieldX where
  base : Field
  x : Extras := {}
  deriving DecidableEq, Repr

/-- what a formatter function receives for one parameter -/
inductive FArg where
  | field (f : FieldX)                       -- parameter `field`
  | inputs (vals : List (Str × ValueX))      -- parameter `inputs`: the `values` dict of `_command_args`
  | val (v : ValueX)                         -- parameter named like an input: its value
  deriving Repr

/-- the formatter functions of a definition, by field name: uninterpreted -/
abbrev FormatterFn := Str → List FArg → Str

/-- `str(attrs.NOTHING)`; `bool(attrs.NOTHING)` is False -/
def nothingText : Str := "_Nothing.NOTHING".toList
def nothingScalar : Scalar := .float nothingText true

/-! ### before the loop -/

/-- `allowed_values_validator` -/
def checkAllowed (fx : FieldX) (v : ValueX) : Except ErrX Unit :=
  match fx.x.allowed, v with
  | some al, .v (.one x) => if al.contains x then .ok () else .error .notAllowed
  | some al, .v (.many xs) => if xs.all al.contains then .ok () else .error .notAllowed
  | _, _ => .ok ()

def scalarToPT : Scalar → Except ErrX PathTemplate.Scalar
  | .str s => .ok (.str s)
  | .path s => .ok (.str s)
  | .int i => .ok (.int i)
  | .float _ _ => .error (.unmodelled "float in a path template")
  | .bool _ => .error (.unmodelled "bool in a path template")

def mapE {α β ε} (g : α → Except ε β) : List α → Except ε (List β)
  | [] => .ok []
  | x :: xs =>
    match g x with
    | .error e => .error e
    | .ok y => (mapE g xs).map (y :: ·)

/-- `attrs_values(task)` as the PathTemplate engine reads it.  Only values a template refers to matter;
    what cannot be converted becomes `none` there and the resolver answers for itself. -/
def valueToPT : ValueX → PathTemplate.Val
  | .nothing => .none
  | .v .unset => .none
  | .v (.one x) => match scalarToPT x with | .ok s => .sc s | .error _ => .none
  | .v (.many xs) => match mapE scalarToPT xs with | .ok l => .list l | .error _ => .none

def givenOf : ValueX → Except ErrX PathTemplate.Given
  | .v (.one (.bool true)) => .ok .template
  | .v (.one (.bool false)) => .ok .off
  | .v .unset => .ok .off
  | .v (.one (.path p)) => .ok (.path p)
  | .v (.one (.str p)) => .ok (.path p)
  | _ => .error (.unmodelled "outarg value")

/-- `template_update`: the value an outarg with a `path_template` has in `job.inputs` -/
def resolveOne (cd : Str) (all : List (Str × PathTemplate.Val)) (fx : FieldX) (v : ValueX) : Except ErrX ValueX :=
  match fx.x.template with
  | none => .ok v
  | some t =>
    match givenOf v with
    | .error e => .error e
    | .ok g =>
      match PathTemplate.resolve cd ⟨t.tmpl, all, t.keep, false⟩ g with
      | .error e => .error (.template e)
      | .ok .absent => .ok (.v (.one (.bool false)))       -- stays False; deleted as a bool on a File field
      | .ok (.one p) => .ok (.v (.one (.path p)))
      | .ok (.many ps) => .ok (.v (.many (ps.map Scalar.path)))

/-- `_check_rules`, the rule that concerns the command line: a mandatory field left at NOTHING -/
def checkMandatory (fx : FieldX) (v : ValueX) : Except ErrX Unit :=
  match v with
  | .nothing => if fx.x.readonly || fx.x.template.isSome then .ok () else .error .mandatory
  | _ => .ok ()

/-- deleted from `values` at the top of `_command_args` -/
def droppedX (fx : FieldX) : ValueX → Bool
  | .v .unset => true
  | .v (.many []) => fx.base.isMulti
  | .v (.one (.bool _)) => fx.x.fileUnion
  | _ => false

/-! ### the environment `str.format` sees -/

/-- a Python identifier (what `parse_format_string` extracts and `values.get` is asked for) -/
def isPlainKey (n : Str) : Bool :=
  match n with
  | [] => false
  | c :: _ => !c.isDigit && n.all isIdentChar

def lookupX (inputs : List (Str × ValueX)) (n : Str) : Option ValueX :=
  (inputs.find? (fun e => e.1 == n)).map (·.2)

/-- `values.get(name, "")` formatted; keys with a conversion / format spec are answered by `xenv`
    (= Python's `format()` on the value, a parameter of the model); the empty key is the marker
    `lowerArgstr` appends (renders as nothing). -/
def envX (inputs : List (Str × ValueX)) (xenv : Env) : Env := fun n =>
  if n.isEmpty then some []
  else if isPlainKey n then
    match lookupX inputs n with
    | none => some []
    | some .nothing => some nothingText
    | some (.v .unset) => some []
    | some (.v (.one s)) => some s.render
    | some (.v (.many _)) => none
  else xenv n

/-! ### lowering one field -/

/-- `.strip().replace("  ", " ")` on a formatter's result -/
def squeeze (s : Str) : Str := replace2 ' ' ' ' [' '] (pyStrip s)

/-- the arguments a formatter is called with (`inspect.getfullargspec(fld.formatter).args`) -/
def formatterArgs (fx : FieldX) (inputs : List (Str × ValueX)) : List Str → Except ErrX (List FArg)
  | [] => .ok []
  | n :: ns =>
    let rest := formatterArgs fx inputs ns
    if n = "field".toList then rest.map (.field fx :: ·)
    else if n = "inputs".toList then rest.map (.inputs inputs :: ·)
    else match lookupX inputs n with
      | some v => rest.map (.val v :: ·)
      | none => .error .formatterArg

/-- `argstr.replace("{name}", str(value))` on the text the segments stand for -/
def substOwn (name value : Str) : List Seg → Str
  | [] => []
  | .lit s :: r => s ++ substOwn name value r
  | .ref n :: r => (if n = name then value else '{' :: (n ++ ['}'])) ++ substOwn name value r

def hasBrace (s : Str) : Bool := s.contains '{' || s.contains '}'

/-- the argstr `str.format` really sees when the value text contains braces: substituted, re-parsed;
    the trailing empty-key reference keeps it a templated argstr for the base pipeline -/
def lowerArgstr (a : Argstr) (name value : Str) : Except ErrX Argstr :=
  if a.templated && hasBrace value then
    match parseSegs [] none (substOwn name value a.segs) with
    | .error _ => .error .reformat
    | .ok segs => .ok { a with segs := segs ++ [.ref []] }
  else .ok a

/-- `if fld.readonly and type(value) is not bool and value is not attrs.NOTHING: raise` -/
def roBad (fx : FieldX) (v : ValueX) : Bool :=
  fx.x.readonly && (match v with | .nothing => false | .v (.one (.bool _)) => false | _ => true)

/-- a field with a `formatter`: its whole text is the (squeezed) result of the call -/
def lowerFormatter (F : FormatterFn) (inputs : List (Str × ValueX)) (fx : FieldX) (names : List Str) :
    Except ErrX (Field × Value) :=
  match formatterArgs fx inputs names with
  | .error e => .error e
  | .ok args =>
    .ok ({ fx.base with isBool := false, isMulti := false, argstr := some ⟨[], false, []⟩ },
         .one (.str (squeeze (F fx.base.name args))))

def lowerOne (f : Field) (a : Argstr) (x : Scalar) : Except ErrX (Field × Value) :=
  if f.isBool && !a.raw.contains '{' then .ok (f, .one x) else
  match lowerArgstr a f.name x.render with
  | .error e => .error e
  | .ok a' => .ok ({ f with argstr := some a' }, .one x)

def lowerMany (f : Field) (a : Argstr) (xs : List Scalar) : Except ErrX (Field × Value) :=
  if f.isBool && !a.raw.contains '{' then .ok (f, .many xs)
  else if f.isMulti then
    (if a.templated && xs.any (fun x => hasBrace x.render) then .error (.unmodelled "braces in a multi-input element")
     else .ok (f, .many xs))
  else if a.dots then .ok (f, .many xs)
  else
    match lowerArgstr a f.name (joinWith f.sep (xs.map Scalar.render)) with
    | .error e => .error e
    | .ok a' => .ok ({ f with argstr := some a' }, .many xs)

/-- a field without a formatter -/
def lowerPlain (f : Field) : ValueX → Except ErrX (Field × Value)
  | .nothing => .ok (f, .one nothingScalar)
  | .v .unset => .ok (f, .unset)
  | .v (.one x) => (match f.argstr with | some a => lowerOne f a x | none => .ok (f, .one x))
  | .v (.many xs) => (match f.argstr with | some a => lowerMany f a xs | none => .ok (f, .many xs))

/-- the base field and value with the same contribution to the command -/
def lowerField (F : FormatterFn) (inputs : List (Str × ValueX)) (fx : FieldX) (v : ValueX) :
    Except ErrX (Field × Value) :=
  if droppedX fx v then .ok (fx.base, .unset)
  else if fx.base.argstr.isNone && fx.x.formatter.isNone then .ok (fx.base, .unset)
  else if roBad fx v then .error .readonlyGiven
  else match fx.x.formatter with
    | some names => lowerFormatter F inputs fx names
    | none => lowerPlain fx.base v

def zipX : List FieldX → List ValueX → List (FieldX × ValueX)
  | f :: fs, v :: vs => (f, v) :: zipX fs vs
  | _, _ => []

/-- `ShellTask._command_args` with an explicit environment -/
def commandArgsWith (env : Env) (exe : List Str) (bs : List Bound) (appendArgs : List Str) : Except Err (List Str) :=
  (buildEntries env [0] bs).map (fun es => (positionSort ((some 0, exe) :: es)).flatten ++ appendArgs)

def liftE {α} : Except Err α → Except ErrX α
  | .ok a => .ok a
  | .error e => .error (.base e)

/-- everything that happens to the values before the loop of `_command_args` -/
def prepare (cd : Str) (fxs : List FieldX) (vs : List ValueX) : Except ErrX (List (FieldX × ValueX)) :=
  let pairs := zipX fxs vs
  match mapE (fun p => checkAllowed p.1 p.2) pairs with
  | .error e => .error e
  | .ok _ =>
    let all := pairs.map (fun p => (p.1.base.name, valueToPT p.2))
    match mapE (fun p => (resolveOne cd all p.1 p.2).map (fun v => (p.1, v))) pairs with
    | .error e => .error e
    | .ok pairs' =>
      match mapE (fun p => checkMandatory p.1 p.2) pairs' with
      | .error e => .error e
      | .ok _ => .ok pairs'

def inputsOf (pairs : List (FieldX × ValueX)) : List (Str × ValueX) :=
  (pairs.filter (fun p => !droppedX p.1 p.2)).map (fun p => (p.1.base.name, p.2))

/-- From an extended definition as written to the argument vector.  `cd` = the job directory. -/
def runDefX (F : FormatterFn) (xenv : Env) (cd : Str) (exe : List Str) (fxs : List FieldX) (vs : List ValueX)
    (appendArgs : List Str) : Except ErrX (List Str) :=
  match definePositions (fxs.map (·.base.position)) with
  | .error e => .error (.base e)
  | .ok ps =>
    match prepare cd fxs vs with
    | .error e => .error e
    | .ok pairs =>
      let inputs := inputsOf pairs
      match mapE (fun p => lowerField F inputs p.1 p.2) pairs with
      | .error e => .error e
      | .ok low =>
        liftE (commandArgsWith (envX inputs xenv) exe (bindAll (low.map (·.1)) ps (low.map (·.2))) appendArgs)

/-! ### the canonical (class) form of a definition

`shell.define` on a class collects the fields with `dir(klass)` (`extract_fields_from_class`), i.e. SORTED BY
NAME, inputs first, then the fields of `Outputs`; with `inputs=[…]` / `inputs={…}` they come in the order
written.  That order is the order in which unpositioned fields receive the free slots. -/

/-- Python `a <= b` on `str` (code points, lexicographic) -/
def strLE : Str → Str → Bool
  | [], _ => true
  | _ :: _, [] => false
  | a :: as, b :: bs => if a.toNat < b.toNat then true else if a = b then strLE as bs else false

def insertByName (p : FieldX × ValueX) : List (FieldX × ValueX) → List (FieldX × ValueX)
  | [] => [p]
  | q :: qs => if strLE p.1.base.name q.1.base.name then p :: q :: qs else q :: insertByName p qs

def sortByName (l : List (FieldX × ValueX)) : List (FieldX × ValueX) := l.foldr insertByName []

/-- `parsed_inputs` order of the class form -/
def classOrder (pairs : List (FieldX × ValueX)) : List (FieldX × ValueX) :=
  sortByName (pairs.filter (fun p => !p.1.x.out)) ++ sortByName (pairs.filter (fun p => p.1.x.out))

/-- the argument vector of a definition written as a class (`classForm`) or with `inputs=` / `outputs=` -/
def runDefForm (classForm : Bool) (F : FormatterFn) (xenv : Env) (cd : Str) (exe : List Str)
    (fxs : List FieldX) (vs : List ValueX) (appendArgs : List Str) : Except ErrX (List Str) :=
  if classForm then
    let ps := classOrder (zipX fxs vs)
    runDefX F xenv cd exe (ps.map (·.1)) (ps.map (·.2)) appendArgs
  else runDefX F xenv cd exe fxs vs appendArgs

/-! ### a small language of formatter bodies for the driver (the theorems quantify over every `FormatterFn`) -/

inductive FPiece where
  | lit (s : Str)
  | arg (i : Nat)                 -- `str(<i-th parameter>)`
  | fieldName (i : Nat)           -- `<i-th parameter>.name` (the parameter `field`)
  | input (i : Nat) (name : Str)  -- `str(<i-th parameter>[name])` (the parameter `inputs`)
  deriving Repr

def renderX : ValueX → Str
  | .nothing => nothingText
  | .v .unset => "None".toList
  | .v (.one s) => s.render
  | .v (.many _) => "<list>".toList

def interpPiece (args : List FArg) : FPiece → Str
  | .lit s => s
  | .arg i => match args[i]? with | some (.val v) => renderX v | _ => "<?>".toList
  | .fieldName i => match args[i]? with | some (.field f) => f.base.name | _ => "<?>".toList
  | .input i n => match args[i]? with
    | some (.inputs vals) => (match lookupX vals n with | some v => renderX v | none => "<KeyError>".toList)
    | _ => "<?>".toList

def interpFormatter (pieces : List FPiece) (args : List FArg) : Str := pieces.flatMap (interpPiece args)

end PydraModel.Argv
