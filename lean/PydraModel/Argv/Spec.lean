import PydraModel.Argv.Model
/-
Engine `Argv`: reference semantics of property C22 (the documented field semantics), written
without building-and-re-tokenising strings and without implicit slot filling.

* order: fields with an explicit non-negative position (ascending), then the fields without a
  position in definition order, then the fields with a negative position (ascending);
* a field's arguments: the blank-separated words of its argstr, with the value as one more word
  (plain argstr) or substituted for `{name}` (templated argstr); `...` repeats this for every
  element; without `...` a list is one value joined with the separator; a True flag gives the
  argstr itself; unset / False / empty multi-input give nothing.
-/
namespace PydraModel.Argv.Spec
open PydraModel.Argv

/-- textbook insertion sort (right to left, insert before the first entry that is not smaller):
    ascending by position, equal keys keep their order -/
def insertAsc {α} (e : Int × α) : List (Int × α) → List (Int × α)
  | [] => [e]
  | x :: xs => if e.1 ≤ x.1 then e :: x :: xs else x :: insertAsc e xs

def sortAsc {α} (l : List (Int × α)) : List (Int × α) := l.foldr insertAsc []

def selNonneg {α} (e : Option Int × α) : Option (Int × α) :=
  match e.1 with | some p => if 0 ≤ p then some (p, e.2) else none | none => none
def selNone {α} (e : Option Int × α) : Option α :=
  match e.1 with | none => some e.2 | some _ => none
def selNeg {α} (e : Option Int × α) : Option (Int × α) :=
  match e.1 with | some p => if p < 0 then some (p, e.2) else none | none => none

/-- explicit non-negative ascending, then unpositioned in the given order, then negative ascending -/
def ordered {α} (l : List (Option Int × α)) : List α :=
  (sortAsc (l.filterMap selNonneg)).map (·.2) ++ l.filterMap selNone ++ (sortAsc (l.filterMap selNeg)).map (·.2)

/-- substitution of values into an argstr; a name that is not a set field gives the empty text -/
def subst (env : Env) : List Seg → Str
  | [] => []
  | .lit s :: r => s ++ subst env r
  | .ref n :: r => (env n).getD [] ++ subst env r

/-- arguments of one (scalar) value under an argstr -/
def scalarArgs (env : Env) (name : Str) (a : Argstr) (v : Scalar) : List Str :=
  if a.templated then words (subst (env.set name v.render) a.segs)
  else words (litText a.segs) ++ [v.render]

/-- arguments of a list value: repeated per element under `...` (and for a MultiInputObj), otherwise
    one value joined with the separator -/
def manyArgs (env : Env) (f : Field) (a : Argstr) (vs : List Scalar) : List Str :=
  if a.dots ∨ f.isMulti then vs.flatMap (scalarArgs env f.name a)
  else
    let joined := joinWith f.sep (vs.map Scalar.render)
    if a.templated then words (subst (env.set f.name joined) a.segs)
    else words (litText a.segs) ++ words joined

def fieldArgs (env : Env) (f : Field) (a : Argstr) (v : Value) : List Str :=
  if f.isBool ∧ ¬ a.templated then
    (match v with
     | .one (.bool true) => [a.raw]
     | _ => [])
  else
    match v with
    | .unset => []
    | .one x => scalarArgs env f.name a x
    | .many vs => manyArgs env f a vs

/-- is the field set (and part of the command at all)? -/
def isSet (f : Field) (v : Value) : Bool :=
  f.argstr.isSome &&
  (match v with
   | .unset => false
   | .many [] => !f.isMulti
   | _ => true)

def specEntries (env : Env) : List Field → List Value → List (Option Int × List Str)
  | f :: fs, v :: vs =>
    match f.argstr, isSet f v with
    | some a, true => (f.position, fieldArgs env f a v) :: specEntries env fs vs
    | _, _ => specEntries env fs vs
  | _, _ => []

/-- environment for `{other}` references, from the definition and the assignment -/
def envOfDef (fs : List Field) (vs : List Value) : Env :=
  envOf (bindAll fs (fs.map (fun _ => 0)) vs)

/-- C22's reference: executable, the set fields' arguments in documented order, appended arguments. -/
def commandArgs (exe : List Str) (fs : List Field) (vs : List Value) (appendArgs : List Str) : List Str :=
  exe ++ (ordered (specEntries (envOfDef fs vs) fs vs)).flatten ++ appendArgs

end PydraModel.Argv.Spec
