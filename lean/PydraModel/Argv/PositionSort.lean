import PydraModel.Argv.Shlex
/-
Engine `Argv`, part 2: ordering.
* `positionSort`        — `pydra.utils.general.position_sort` (three buckets, `bisect.insort`)
* `remainingPositions`  — `pydra.compose.shell.builder.remaining_positions` (free slots)
* `definePositions`     — the loop in `shell.define` that gives every unpositioned field the next free slot
-/
namespace PydraModel.Argv

/-- `bisect.insort(a, (p, x))` on a list kept sorted by `p`: insert after the last entry whose key is
    `≤ p` (insort = insort_right).  Python compares the whole tuple; positions are unique where the
    code calls it (a duplicate raises before), so only the key is compared here. -/
def insortR {α} (e : Int × α) : List (Int × α) → List (Int × α)
  | [] => [e]
  | x :: xs => if e.1 < x.1 then e :: x :: xs else x :: insortR e xs

structure Buckets (α : Type) where
  pos : List (Int × α)
  none : List α
  neg : List (Int × α)

def psStep {α} (b : Buckets α) (entry : Option Int × α) : Buckets α :=
  match entry.1 with
  | none => { b with none := b.none ++ [entry.2] }
  | some p => if p < 0 then { b with neg := insortR (p, entry.2) b.neg }
              else { b with pos := insortR (p, entry.2) b.pos }

/-- `position_sort(args)` -/
def positionSort {α} (l : List (Option Int × α)) : List α :=
  let b := l.foldl psStep ⟨[], [], []⟩
  b.pos.map (·.2) ++ b.none ++ b.neg.map (·.2)

def allDistinct : List Int → Bool
  | [] => true
  | x :: xs => !(xs.contains x) && allDistinct xs

/-- slot a position claims in `remaining_positions`: negative ones count from `num_args` -/
def slotOf (numArgs : Int) (p : Int) : Int := if 0 ≤ p then p else numArgs + p

/-- `remaining_positions(args)` with the defaults `num_args = len(args) - 1`, `start = 0`, no xor sets.
    `ps` are the positions of all fields except `append_args` (so `num_args = ps.length`). -/
def remainingPositions (ps : List (Option Int)) : Except Err (List Int) :=
  let n : Int := ps.length
  let occ := ps.filterMap (fun p => p.map (slotOf n))
  if allDistinct occ then
    .ok (((List.range ps.length).map Int.ofNat).filter (fun i => !(occ.contains i)))
  else .error .overlap

/-- `for inpt in parsed_inputs.values(): if inpt.position is None: inpt.position = position_stack.pop(0)` -/
def fillPositions : List (Option Int) → List Int → Except Err (List Int)
  | [], _ => .ok []
  | some p :: ps, stack => (fillPositions ps stack).map (p :: ·)
  | none :: _, [] => .error .noSlot
  | none :: ps, s :: stack => (fillPositions ps stack).map (s :: ·)

/-- Positions after `shell.define`.  `ps` = positions as written, in `parsed_inputs` order: the inputs,
    then the `outarg`s; the executable (position 0) is added last by `define` itself. -/
def definePositions (ps : List (Option Int)) : Except Err (List Int) :=
  match remainingPositions (ps ++ [some 0]) with
  | .error e => .error e
  | .ok stack => fillPositions ps stack

end PydraModel.Argv
