import PydraModel.Argv.PositionSort
/-
Engine `Argv`, part 3: `ShellTask._command_args`, `_command_pos_args`, `_format_arg`, `cmdline`
(pydra/compose/shell/task.py) and `argstr_formatting` (pydra/compose/shell/templating.py), for fields
without `formatter`, `readonly`, `allowed_values` and without format specs/conversions in the argstr.

The model mirrors the code's way of working: every field's contribution is first built as ONE STRING
and then re-tokenised with `split_cmd` (that is where D14 comes from), falsy values of plain-argstr
fields vanish (`if value:`), the separator is also applied between the repetitions of a `...` argstr.
-/
namespace PydraModel.Argv

/-- piece of an argstr: literal text or `{name}` -/
inductive Seg where
  | lit (s : Str)
  | ref (name : Str)
  deriving DecidableEq, Repr

/-- An argstr as the code looks at it: the raw text (a True flag is emitted as the raw text),
    whether it ends with `...`, and the text with every `...` removed, cut at `{name}` references.
    `parseArgstr` (below) computes the last two from the first. -/
structure Argstr where
  raw : Str
  dots : Bool
  segs : List Seg
  deriving DecidableEq, Repr

def Argstr.templated (a : Argstr) : Bool := a.segs.any (fun s => match s with | .ref _ => true | .lit _ => false)

/-- literal text of a plain argstr (`argstr.replace("...", "")`) -/
def litText : List Seg → Str
  | [] => []
  | .lit s :: r => s ++ litText r
  | .ref _ :: r => litText r

inductive Scalar where
  | str (s : Str)
  | int (i : Int)
  | float (repr : Str) (zero : Bool)     -- `repr` = Python's `str(x)`; `zero` = `x == 0`
  | path (s : Str)                       -- `str(Path)`
  | bool (b : Bool)
  deriving DecidableEq, Repr

/-- `str(value)` (= `format(value, "")` for these types) -/
def Scalar.render : Scalar → Str
  | .str s => s
  | .int i => (toString i).toList
  | .float r _ => r
  | .path s => s
  | .bool b => if b then "True".toList else "False".toList

/-- `bool(value)` -/
def Scalar.truthy : Scalar → Bool
  | .str s => !s.isEmpty
  | .int i => i != 0
  | .float _ z => !z
  | .path _ => true
  | .bool b => b

inductive Value where
  | unset                       -- None (or never provided and optional)
  | one (s : Scalar)
  | many (l : List Scalar)      -- list / tuple / MultiInputObj value
  deriving DecidableEq, Repr

structure Field where
  name : Str
  isBool : Bool                 -- declared type (Optional stripped) `is bool`
  isMulti : Bool                -- declared type is `MultiInputObj[...]`
  argstr : Option Argstr        -- `None`: not part of the command
  position : Option Int         -- as written in the definition
  sep : Str
  optional : Bool := false      -- the declared type is `T | None` (`is_optional(fld.type)`)
  deriving DecidableEq, Repr

/-- `fld.type is bool`: the declared type ITSELF is `bool` (false for `bool | None`) -/
def Field.typeIsBool (f : Field) : Bool := f.isBool && !f.optional

/-- `tp is bool` with `tp = optional_type(fld.type) if is_optional(fld.type) else fld.type`, the test
    `_command_pos_args` uses to choose the flag branch: the `| None` is unwrapped first, so an optional flag
    is a flag.  (`isBool` is stated on the unwrapped type; `fieldArgs` below tests exactly this.) -/
def Field.tpIsBool (f : Field) : Bool := if f.optional then f.isBool else f.typeIsBool

/-- a field at run time: its position attribute after `shell.define`, and its value -/
structure Bound where
  fld : Field
  pos : Option Int
  val : Value
  deriving Repr

/-- `sep.join(parts)` -/
def joinWith (sep : Str) : List Str → Str
  | [] => []
  | [a] => a
  | a :: b :: rest => a ++ sep ++ joinWith sep (b :: rest)

/-- `str.isspace` characters (what `str.strip()` removes). -/
def pySpace (c : Char) : Bool :=
  let n := c.toNat
  (9 ≤ n && n ≤ 13) || (28 ≤ n && n ≤ 32) || n == 0x85 || n == 0xa0 || n == 0x1680
    || (0x2000 ≤ n && n ≤ 0x200a) || n == 0x2028 || n == 0x2029 || n == 0x202f || n == 0x205f || n == 0x3000

def pyStrip (s : Str) : Str := ((s.dropWhile pySpace).reverse.dropWhile pySpace).reverse

/-- `s.replace(a+b, rep)` for a two-character pattern: left-to-right scan; `held` = the previous
    character was `a` and has not been emitted yet -/
def replace2Go (a b : Char) (rep : Str) : Bool → Str → Str
  | held, [] => if held then [a] else []
  | true, y :: cs =>
    if y = b then rep ++ replace2Go a b rep false cs
    else if y = a then a :: replace2Go a b rep true cs
    else a :: y :: replace2Go a b rep false cs
  | false, y :: cs => if y = a then replace2Go a b rep true cs else y :: replace2Go a b rep false cs

def replace2 (a b : Char) (rep : Str) (s : Str) : Str := replace2Go a b rep false s

/-- tail of `argstr_formatting`: `.replace("[ ", "[").replace(" ]", "]").replace("[,", "[").replace(",]", "]").strip()` -/
def cleanup (s : Str) : Str :=
  pyStrip (replace2 ',' ']' [']'] (replace2 '[' ',' ['['] (replace2 ' ' ']' [']'] (replace2 '[' ' ' ['['] s))))

/-- what `str.format` puts for `{name}`: `values.get(name, "")` formatted.  `none` = not modelled
    (a list value would be formatted with Python's `repr` of lists). -/
abbrev Env := Str → Option Str

def renderSegs (env : Env) : List Seg → Except Err Str
  | [] => .ok []
  | .lit s :: r => (renderSegs env r).map (s ++ ·)
  | .ref n :: r =>
    match env n with
    | none => .error .format
    | some v => (renderSegs env r).map (v ++ ·)

/-- environment of the other fields' values: dropped (None) fields format as "" -/
def envOf (bs : List Bound) : Env := fun n =>
  match bs.find? (fun b => b.fld.name == n) with
  | none => none                                 -- not a field: rejected by `_check_rules`
  | some b =>
    match b.val with
    | .unset => some []
    | .one s => some s.render
    | .many [] => if b.fld.isMulti then some [] else none
    | .many _ => none

def Env.set (env : Env) (name : Str) (v : Str) : Env := fun n => if n = name then some v else env n

/-- `argstr_formatting(argstr, values)` with `values[name] = v` -/
def argstrFormatting (env : Env) (name : Str) (v : Str) (segs : List Seg) : Except Err Str :=
  (renderSegs (env.set name v) segs).map cleanup

/-- `_format_arg` for a value that is not a list/tuple -/
def formatScalar (env : Env) (f : Field) (a : Argstr) (v : Scalar) : Except Err (List Str) :=
  if a.templated then
    match argstrFormatting env f.name v.render a.segs with
    | .error e => .error e
    | .ok s => splitCmd s
  else if v.truthy then splitCmd (litText a.segs ++ ' ' :: v.render)
  else .ok []                                   -- `if value:` … `else: cmd_el_str = ""`

def formatEach (env : Env) (name : Str) (segs : List Seg) : List Scalar → Except Err (List Str)
  | [] => .ok []
  | v :: vs =>
    match argstrFormatting env name v.render segs with
    | .error e => .error e
    | .ok s => (formatEach env name segs vs).map ((' ' :: s) :: ·)

/-- `_format_arg` for a list/tuple value -/
def formatMany (env : Env) (f : Field) (a : Argstr) (vs : List Scalar) : Except Err (List Str) :=
  if a.dots then
    if a.templated then
      match formatEach env f.name a.segs vs with
      | .error e => .error e
      | .ok parts => splitCmd (joinWith f.sep parts)
    else splitCmd (joinWith f.sep (vs.map (fun v => ' ' :: (litText a.segs ++ ' ' :: v.render))))
  else
    let joined := joinWith f.sep (vs.map Scalar.render)
    if a.templated then
      match argstrFormatting env f.name joined a.segs with
      | .error e => .error e
      | .ok s => splitCmd s
    else if !joined.isEmpty then splitCmd (litText a.segs ++ ' ' :: joined)
    else .ok []

def formatArg (env : Env) (f : Field) (a : Argstr) : Value → Except Err (List Str)
  | .unset => .ok []
  | .one v => formatScalar env f a v
  | .many vs => formatMany env f a vs

def flatMapE {α β} (g : α → Except Err (List β)) : List α → Except Err (List β)
  | [] => .ok []
  | x :: xs =>
    match g x with
    | .error e => .error e
    | .ok ys => (flatMapE g xs).map (ys ++ ·)

/-- the `cmd_add` of `_command_pos_args` for a field that has an argstr and a value -/
def fieldArgs (env : Env) (f : Field) (a : Argstr) (v : Value) : Except Err (List Str) :=
  if f.isBool ∧ ¬ a.raw.contains '{' then
    (match v with
     | .one (.bool true) => .ok [a.raw]           -- `if value is True: cmd_add.append(fld.argstr)`
     | _ => .ok [])
  else if f.isMulti then
    (match v with
     | .many vs => flatMapE (fun x => formatScalar env f a x) vs
     | .one x => formatScalar env f a x
     | .unset => .ok [])
  else formatArg env f a v

/-- does the field take part in `_command_args`' loop?  (`None` values and empty multi-inputs are deleted
    from `values`; a field without argstr returns `None` from `_command_pos_args`) -/
def Bound.live (b : Bound) : Bool :=
  b.fld.argstr.isSome &&
  (match b.val with
   | .unset => false
   | .many [] => !b.fld.isMulti
   | _ => true)

/-- the loop of `_command_args`: `prov` is `positions_provided` -/
def buildEntries (env : Env) : List Int → List Bound → Except Err (List (Option Int × List Str))
  | _, [] => .ok []
  | prov, b :: bs =>
    match b.fld.argstr, b.live with
    | some a, true =>
      (match b.pos with
       | some p =>
         if prov.contains p then .error .dupPosition
         else match fieldArgs env b.fld a b.val with
           | .error e => .error e
           | .ok args => (buildEntries env (p :: prov) bs).map ((some p, args) :: ·)
       | none =>
         match fieldArgs env b.fld a b.val with
           | .error e => .error e
           | .ok args => (buildEntries env prov bs).map ((none, args) :: ·))
    | _, _ => buildEntries env prov bs

/-- `ShellTask._command_args` -/
def commandArgs (exe : List Str) (bs : List Bound) (appendArgs : List Str) : Except Err (List Str) :=
  (buildEntries (envOf bs) [0] bs).map
    (fun es => (positionSort ((some 0, exe) :: es)).flatten ++ appendArgs)

/-- `ShellTask.cmdline` -/
def cmdline (exe : List Str) (bs : List Bound) (appendArgs : List Str) : Except Err Str :=
  (commandArgs exe bs appendArgs).map cmdlineOf

/-- bind the definition's fields to the positions `shell.define` computed and to the values -/
def bindAll : List Field → List Int → List Value → List Bound
  | f :: fs, p :: ps, v :: vs => ⟨f, some p, v⟩ :: bindAll fs ps vs
  | _, _, _ => []

/-- The whole path from a definition as written to the argument vector. -/
def runDef (exe : List Str) (fs : List Field) (vs : List Value) (appendArgs : List Str) :
    Except Err (List Str) :=
  match definePositions (fs.map (·.position)) with
  | .error e => .error e
  | .ok ps => commandArgs exe (bindAll fs ps vs) appendArgs

/-! ### parsing an argstr as written -/

/-- remove every `...` (`str.replace("...", "")`, leftmost non-overlapping): left-to-right scan,
    `k` = number of dots read and not yet emitted (0, 1 or 2) -/
def removeDotsGo : Nat → Str → Str
  | k, [] => List.replicate k '.'
  | k, c :: cs =>
    if c = '.' then (if k = 2 then removeDotsGo 0 cs else removeDotsGo (k + 1) cs)
    else List.replicate k '.' ++ c :: removeDotsGo 0 cs

def removeDots (s : Str) : Str := removeDotsGo 0 s

def endsWithDots (s : Str) : Bool := "...".toList.isSuffixOf s

def isIdentChar (c : Char) : Bool := c.isAlphanum || c == '_'

/-- does the text read so far inside `{…}` already contain a conversion / format-spec marker? -/
def inSpec (nm : Str) : Bool := nm.any (fun c => c == ':' || c == '!')

/-- cut at `{identifier}` and `{identifier!c:spec}` (the whole text between the braces becomes the
    reference's key); `{{`, `}}`, attribute/item lookups and nested braces are outside the modelled fragment.
    `cur` = literal text read so far (reversed), `name` = `some` reversed key while inside braces. -/
def parseSegs : Str → Option Str → Str → Except Err (List Seg)
  | cur, none, [] => .ok (if cur.isEmpty then [] else [.lit cur.reverse])
  | _, some _, [] => .error .format
  | cur, none, c :: cs =>
    if c = '{' then (parseSegs [] (some []) cs).map (fun r => if cur.isEmpty then r else .lit cur.reverse :: r)
    else if c = '}' then .error .format
    else parseSegs (c :: cur) none cs
  | cur, some nm, c :: cs =>
    if c = '}' then
      (if nm.isEmpty then .error .format else (parseSegs [] none cs).map (.ref nm.reverse :: ·))
    else if c = '{' then .error .format
    else if isIdentChar c || inSpec nm || ((c == ':' || c == '!') && !nm.isEmpty) then parseSegs cur (some (c :: nm)) cs
    else .error .format

/-- the text a segment list stands for -/
def unparse : List Seg → Str
  | [] => []
  | .lit s :: r => s ++ unparse r
  | .ref n :: r => '{' :: (n ++ '}' :: unparse r)

def parseArgstr (raw : Str) : Except Err Argstr :=
  (parseSegs [] none (removeDots raw)).map (fun segs => ⟨raw, endsWithDots raw, segs⟩)

end PydraModel.Argv
