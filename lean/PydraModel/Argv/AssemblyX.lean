import PydraModel.Argv.AssemblyLemmas
import PydraModel.Argv.ModelX
/-
The extended model (`Argv/ModelX.lean`): the base refinement theorem for an arbitrary environment,
and what lowering does for each extended feature.
-/
namespace PydraModel.Argv

/-- C22's reference with an explicit environment for `{key}` references -/
def Spec.commandArgsWith (env : Env) (exe : List Str) (fs : List Field) (vs : List Value) (appendArgs : List Str) : List Str :=
  exe ++ (Spec.ordered (Spec.specEntries env fs vs)).flatten ++ appendArgs

open List

/-- the assembly of `AssemblyLemmas.runDef_eq_spec` for an arbitrary environment (same proof) -/
theorem commandArgsWith_eq_spec (env : Env) (exe app : List Str) (fs : List Field) (vs : List Value) (filled : List Int)
    (hdef : definePositions (fs.map (·.position)) = .ok filled) (hlen : vs.length = fs.length)
    (hsafe : ∀ t ∈ (triples fs filled vs).filter Triple.live,
        ∃ a, t.1.argstr = some a ∧ SafeField env t.1 a t.2.2)
    (h26 : NoImplicitBelowExplicit (triples fs filled vs)) :
    commandArgsWith env exe (bindAll fs filled vs) app = .ok (Spec.commandArgsWith env exe fs vs app) := by
  obtain ⟨stack, hfill, hst, hnn, hnd, h0⟩ := define_spec _ filled hdef
  have hflen : filled.length = fs.length := by simpa using fill_length _ stack filled hfill
  obtain ⟨t1, t2, t3⟩ := triples_fill fs stack filled vs hfill hlen
  unfold commandArgsWith
  rw [bindAll_eq]
  -- the loop
  let g : Bound → List Str := fun b => specArgsOf env (b.fld, b.pos.getD 0, b.val)
  have hlivepos : (((triples fs filled vs).map Triple.toBound).filter (·.live)).filterMap (·.pos) = ((triples fs filled vs).filter Triple.live).map (·.2.1) := by
    rw [live_filter_bound, filterMap_map]
    have : ((fun b : Bound => b.pos) ∘ Triple.toBound) = (fun t : Triple => some t.2.1) := by funext t; rfl
    rw [this]
    induction ((triples fs filled vs).filter Triple.live) with
    | nil => rfl
    | cons t l ih => simp [filterMap_cons, ih]
  have hsubl : Sublist (((triples fs filled vs).filter Triple.live).map (·.2.1)) filled := by
    have := (filter_sublist (l := triples fs filled vs) (p := Triple.live)).map (fun x : Triple => x.2.1)
    rw [t3] at this; exact this
  have hbuild := buildEntries_ok env g ((triples fs filled vs).map Triple.toBound) [0]
    (by
      intro b hb hl
      obtain ⟨t, ht, rfl⟩ := mem_map.mp hb
      obtain ⟨a, ha, hs⟩ := hsafe t (mem_filter.mpr ⟨ht, hl⟩)
      refine ⟨a, t.2.1, ha, rfl, ?_⟩
      have := fieldArgs_spec env t.1 a t.2.2 hs
      simp only [Triple.toBound, g, specArgsOf, Option.getD_some, ha]
      exact this)
    (by rw [hlivepos]; exact Nodup.sublist hsubl hnd)
    (by
      intro p hp
      simp only [mem_singleton] at hp
      subst hp
      rw [hlivepos]
      exact fun hh => h0 (hsubl.subset hh))
  rw [hbuild]
  simp only [emap_ok]
  -- the entries are the filled entries of the live items
  have hent : (((triples fs filled vs).map Triple.toBound).filter (·.live)).map (fun b => (b.pos, g b)) = filledEntries (liveItems env (triples fs filled vs)) := by
    rw [live_filter_bound]
    simp [filledEntries, liveItems, Triple.toBound, g, Function.comp_def]
  rw [hent]
  have hne0 : ∀ e ∈ filledEntries (liveItems env (triples fs filled vs)), e.1 ≠ some 0 := by
    intro e he
    simp only [filledEntries, liveItems, map_map, mem_map, Function.comp] at he
    obtain ⟨t, ht, rfl⟩ := he
    simp only [ne_eq, Option.some.injEq]
    intro hz
    exact h0 (hsubl.subset (mem_map.mpr ⟨t, ht, hz⟩))
  rw [positionSort_exe exe _ hne0,
    positionSort_filled_eq_ordered _ (orderOK_of_fill env fs stack filled vs hfill hlen hst hnn hnd h26)]
  -- the spec side
  unfold Spec.commandArgsWith
  rw [specEntries_eq env fs filled vs hflen hlen]
  have huser : (((triples fs filled vs).filter Triple.live).filterMap
      (fun t => t.1.argstr.map (fun a => (t.1.position, Spec.fieldArgs env t.1 a t.2.2)))) = userEntries (liveItems env (triples fs filled vs)) := by
    have hall : ∀ t ∈ (triples fs filled vs).filter Triple.live, ∃ a, t.1.argstr = some a := fun t ht => by
      obtain ⟨a, ha, _⟩ := hsafe t ht; exact ⟨a, ha⟩
    simp only [userEntries, liveItems, map_map]
    generalize (triples fs filled vs).filter Triple.live = L at hall
    induction L with
    | nil => rfl
    | cons t L ih =>
      obtain ⟨a, ha⟩ := hall t (by simp)
      simp [filterMap_cons, ha, specArgsOf, ih (fun u hu => hall u (by simp [hu]))]
  rw [huser]
  simp [flatten_cons, append_assoc]


end PydraModel.Argv
