import PydraModel.Argv.QuoteLemmas
/-
Algebra of blank-splitting (`words`) and its agreement with `split_cmd` on harmless text.
-/
namespace PydraModel.Argv

theorem wordsAux_false_fst (s : Str) : (wordsAux false s).1 = [] := by
  induction s with
  | nil => rfl
  | cons c s ih => simp only [wordsAux]; split <;> simp [ih]

/-- splitting at a blank: the text before and the text after are split independently -/
theorem wordsAux_append_ws (a b : Str) (w : Char) (hw : isWs w = true) (st : Bool) :
    wordsAux st (a ++ w :: b) = ((wordsAux st a).1, (wordsAux st a).2 ++ words b) := by
  induction a generalizing st with
  | nil =>
    cases st
    · simp [wordsAux, hw, words]
      exact Prod.ext (wordsAux_false_fst b) rfl
    · simp [wordsAux, hw, words]
  | cons c a ih =>
    cases st <;> simp only [List.cons_append, wordsAux] <;> split <;> simp [ih]

theorem words_append_ws (a b : Str) (w : Char) (hw : isWs w = true) :
    words (a ++ w :: b) = words a ++ words b := by
  simp [words, wordsAux_append_ws a b w hw false]

theorem words_cons_ws (b : Str) (w : Char) (hw : isWs w = true) : words (w :: b) = words b := by
  have := words_append_ws [] b w hw
  simpa [words, wordsAux] using this

/-- a blank-free text is one word -/
theorem wordsAux_true_solid (w : Str) (h : ∀ c ∈ w, isWs c = false) : wordsAux true w = (w, []) := by
  induction w with
  | nil => rfl
  | cons c w ih =>
    simp [wordsAux, h c (by simp), ih (fun x hx => h x (by simp [hx]))]

theorem words_solid (w : Str) (hne : w ≠ []) (h : ∀ c ∈ w, isWs c = false) : words w = [w] := by
  obtain ⟨c, w', rfl⟩ := List.exists_cons_of_ne_nil hne
  simp [words, wordsAux, h c (by simp), wordsAux_true_solid w' (fun x hx => h x (by simp [hx]))]

theorem words_blank (s : Str) (h : ∀ c ∈ s, isWs c = true) : words s = [] := by
  induction s with
  | nil => rfl
  | cons c s ih => rw [words_cons_ws s c (h c (by simp))]; exact ih (fun x hx => h x (by simp [hx]))

theorem words_append_blank (a s : Str) (h : ∀ c ∈ s, isWs c = true) : words (a ++ s) = words a := by
  cases s with
  | nil => simp
  | cons w s =>
    rw [words_append_ws a s w (h w (by simp)), words_blank s (fun x hx => h x (by simp [hx]))]; simp

/-- every word is a non-empty, blank-free piece of the text -/
theorem wordsAux_chars (s : Str) : ∀ st,
    (∀ c ∈ (wordsAux st s).1, c ∈ s ∧ isWs c = false) ∧
    (∀ t ∈ (wordsAux st s).2, t ≠ [] ∧ ∀ c ∈ t, c ∈ s ∧ isWs c = false) := by
  induction s with
  | nil => intro st; cases st <;> simp [wordsAux]
  | cons c s ih =>
    intro st
    cases st <;> simp only [wordsAux] <;> split
    · rename_i hc
      exact ⟨fun x hx => by have := (ih false).1 x hx; exact ⟨by simp [this.1], this.2⟩,
        fun t ht => ⟨((ih false).2 t ht).1, fun x hx => by
          have := ((ih false).2 t ht).2 x hx; exact ⟨by simp [this.1], this.2⟩⟩⟩
    · rename_i hc
      refine ⟨by simp, ?_⟩
      intro t ht
      simp only [List.mem_cons] at ht
      rcases ht with rfl | ht
      · refine ⟨by simp, ?_⟩
        intro x hx
        simp only [List.mem_cons] at hx
        rcases hx with rfl | hx
        · exact ⟨by simp, by simpa using hc⟩
        · have := (ih true).1 x hx; exact ⟨by simp [this.1], this.2⟩
      · exact ⟨((ih true).2 t ht).1, fun x hx => by
          have := ((ih true).2 t ht).2 x hx; exact ⟨by simp [this.1], this.2⟩⟩
    · rename_i hc
      refine ⟨by simp, ?_⟩
      intro t ht
      exact ⟨((ih false).2 t ht).1, fun x hx => by
          have := ((ih false).2 t ht).2 x hx; exact ⟨by simp [this.1], this.2⟩⟩
    · rename_i hc
      refine ⟨?_, ?_⟩
      · intro x hx
        simp only [List.mem_cons] at hx
        rcases hx with rfl | hx
        · exact ⟨by simp, by simpa using hc⟩
        · have := (ih true).1 x hx; exact ⟨by simp [this.1], this.2⟩
      · intro t ht
        exact ⟨((ih true).2 t ht).1, fun x hx => by
          have := ((ih true).2 t ht).2 x hx; exact ⟨by simp [this.1], this.2⟩⟩

theorem words_chars {s t : Str} (ht : t ∈ words s) : t ≠ [] ∧ ∀ c ∈ t, c ∈ s ∧ isWs c = false :=
  (wordsAux_chars s false).2 t ht

theorem strip_id_of_head (t : Str) (h : ∀ c, t.head? = some c → c ≠ '\'' ∧ c ≠ '"') : stripOuterQuotes t = t := by
  unfold stripOuterQuotes
  cases t with
  | nil => rfl
  | cons q rest =>
    have := h q rfl
    simp [this.1, this.2]

/-- On text made of inert characters and blanks `split_cmd` is plain blank-splitting. -/
theorem splitCmd_words (s : Str) (hs : ∀ c ∈ s, inertChar c = true ∨ isWs c = true) :
    splitCmd s = .ok (words s) := by
  unfold splitCmd
  rw [shlexSplit_words s hs]
  simp only [emap_ok]
  congr 1
  rw [List.map_congr_left (g := id)]
  · simp
  · intro t ht
    apply strip_id_of_head
    intro c hc
    obtain ⟨_, hch⟩ := words_chars ht
    have hct : c ∈ t := by
      cases t with
      | nil => simp at hc
      | cons x t => simp at hc; subst hc; simp
    have := hch c hct
    rcases hs c this.1 with hi | hw
    · exact ⟨((inertChar_iff c).mp hi).2.1, ((inertChar_iff c).mp hi).2.2.1⟩
    · rw [this.2] at hw; exact absurd hw (by simp)

end PydraModel.Argv
