import PydraModel.Basic
/-
Engine `Argv` (DESIGN §5.7), part 1: POSIX-mode `shlex.split` as used by
`pydra.compose.shell.task.split_cmd` and `append_args_converter`
(`shlex.split(s, comments=False, posix=True)`: `whitespace_split = True`, `commenters = ''`).

Strings are `List Char` (a Python `str` as a sequence of code points).

Two formulations are given:
* `lexRaw`   — a literal transcription of `shlex.shlex.read_token` (token accumulator, `quoted`
               flag, the `escapedstate` register folded into the state name);
* `lex`      — the same automaton without accumulators (the result of the rest of the input is
               post-processed), which is what the theorems are proved about.
`Argv/ShlexLemmas.lean` proves `lexRaw = lex` for every input, so the driver may run either.
-/
namespace PydraModel.Argv

abbrev Str := List Char

inductive Err where
  | noClosingQuote      -- ValueError("No closing quotation")
  | noEscapedChar       -- ValueError("No escaped character")
  | overlap             -- ValueError: Multiple fields have the overlapping positions  (shell.define)
  | dupPosition         -- Exception: "... can't have provided position, ... is already used"
  | noSlot              -- IndexError: pop from empty list (position stack exhausted)
  | format              -- str.format failure (unknown name, stray brace)
  deriving DecidableEq, Repr

instance instDecEqExcept {ε α} [DecidableEq ε] [DecidableEq α] : DecidableEq (Except ε α)
  | .ok a, .ok b => if h : a = b then isTrue (by rw [h]) else isFalse (by intro h'; cases h'; exact h rfl)
  | .error a, .error b => if h : a = b then isTrue (by rw [h]) else isFalse (by intro h'; cases h'; exact h rfl)
  | .ok _, .error _ => isFalse (by intro h; cases h)
  | .error _, .ok _ => isFalse (by intro h; cases h)

/-- `shlex.whitespace` = `' \t\r\n'`. -/
def isWs (c : Char) : Bool := c == ' ' || c == '\t' || c == '\r' || c == '\n'

/-- States of `read_token` in POSIX mode.  Python's `state` is `' '` (`ws`), `'a'` (`word`),
    a quote character (`sq`, `dq`) or the escape character, in which case `escapedstate` says
    where to return to (`escW`: back to `'a'`; `escD`: back into the double quotes). -/
inductive St where
  | ws | word | sq | dq | escW | escD
  deriving DecidableEq, Repr

/-- Accumulator-free automaton.  Result = (remaining characters of the token being read,
    the tokens after it).  In state `ws` no token is being read and the first component is `[]`. -/
def lex : St → List Char → Except Err (Str × List Str)
  | .ws, [] => .ok ([], [])
  | .ws, c :: cs =>
    if isWs c then lex .ws cs
    else if c = '\\' then (lex .escW cs).map (fun r => ([], r.1 :: r.2))
    else if c = '\'' then (lex .sq cs).map (fun r => ([], r.1 :: r.2))
    else if c = '"' then (lex .dq cs).map (fun r => ([], r.1 :: r.2))
    else (lex .word cs).map (fun r => ([], (c :: r.1) :: r.2))
  | .word, [] => .ok ([], [])
  | .word, c :: cs =>
    if isWs c then (lex .ws cs).map (fun r => ([], r.2))
    else if c = '\'' then lex .sq cs
    else if c = '"' then lex .dq cs
    else if c = '\\' then lex .escW cs
    else (lex .word cs).map (fun r => (c :: r.1, r.2))
  | .sq, [] => .error .noClosingQuote
  | .sq, c :: cs =>
    if c = '\'' then lex .word cs
    else (lex .sq cs).map (fun r => (c :: r.1, r.2))
  | .dq, [] => .error .noClosingQuote
  | .dq, c :: cs =>
    if c = '"' then lex .word cs
    else if c = '\\' then lex .escD cs
    else (lex .dq cs).map (fun r => (c :: r.1, r.2))
  | .escW, [] => .error .noEscapedChar
  | .escW, c :: cs => (lex .word cs).map (fun r => (c :: r.1, r.2))
  | .escD, [] => .error .noEscapedChar
  | .escD, c :: cs =>
    -- inside "...": a backslash before anything but `\` or `"` is kept
    if c = '\\' ∨ c = '"' then (lex .dq cs).map (fun r => (c :: r.1, r.2))
    else (lex .dq cs).map (fun r => ('\\' :: c :: r.1, r.2))

/-- `shlex.split(s)` (POSIX mode). -/
def shlexSplit (s : Str) : Except Err (List Str) := (lex .ws s).map (·.2)

/-- Literal transcription of `read_token`/`__next__`: `tok` is `self.token`, `q` is the local
    `quoted`, `acc` the tokens returned so far (in order).  A token is emitted when
    `self.token or (self.posix and quoted)`. -/
def emitTok (tok : Str) (q : Bool) (acc : List Str) : List Str :=
  if tok ≠ [] ∨ q then acc ++ [tok] else acc

def lexRaw : St → Str → Bool → List Str → List Char → Except Err (List Str)
  | .ws, _, _, acc, [] => .ok acc
  | .ws, tok, q, acc, c :: cs =>
    if isWs c then lexRaw .ws tok q acc cs            -- `continue` (token is empty, nothing quoted)
    else if c = '\\' then lexRaw .escW tok q acc cs
    else if c = '\'' then lexRaw .sq tok true acc cs  -- `quoted = True` is set on the next read
    else if c = '"' then lexRaw .dq tok true acc cs
    else lexRaw .word [c] q acc cs
  | .word, tok, q, acc, [] => .ok (emitTok tok q acc)
  | .word, tok, q, acc, c :: cs =>
    if isWs c then
      (if tok ≠ [] ∨ q then lexRaw .ws [] false (acc ++ [tok]) cs else lexRaw .ws tok q acc cs)
    else if c = '\'' then lexRaw .sq tok true acc cs
    else if c = '"' then lexRaw .dq tok true acc cs
    else if c = '\\' then lexRaw .escW tok q acc cs
    else lexRaw .word (tok ++ [c]) q acc cs
  | .sq, _, _, _, [] => .error .noClosingQuote
  | .sq, tok, q, acc, c :: cs =>
    if c = '\'' then lexRaw .word tok q acc cs else lexRaw .sq (tok ++ [c]) q acc cs
  | .dq, _, _, _, [] => .error .noClosingQuote
  | .dq, tok, q, acc, c :: cs =>
    if c = '"' then lexRaw .word tok q acc cs
    else if c = '\\' then lexRaw .escD tok q acc cs
    else lexRaw .dq (tok ++ [c]) q acc cs
  | .escW, _, _, _, [] => .error .noEscapedChar
  | .escW, tok, q, acc, c :: cs => lexRaw .word (tok ++ [c]) q acc cs
  | .escD, _, _, _, [] => .error .noEscapedChar
  | .escD, tok, q, acc, c :: cs =>
    if c = '\\' ∨ c = '"' then lexRaw .dq (tok ++ [c]) q acc cs
    else lexRaw .dq (tok ++ ['\\', c]) q acc cs

def shlexSplitRaw (s : Str) : Except Err (List Str) := lexRaw .ws [] false [] s

/-- Whitespace splitting (`str.split()` restricted to `shlex.whitespace`): the reference for
    "the text of a field is cut into arguments at blanks".  Result = (rest of current word, later words). -/
def wordsAux : Bool → List Char → Str × List Str
  | _, [] => ([], [])
  | false, c :: cs =>
    if isWs c then wordsAux false cs
    else let r := wordsAux true cs; ([], (c :: r.1) :: r.2)
  | true, c :: cs =>
    if isWs c then ([], (wordsAux false cs).2)
    else let r := wordsAux true cs; (c :: r.1, r.2)

def words (s : Str) : List Str := (wordsAux false s).2

/-- A character `shlex` gives no meaning to: not whitespace, not a quote, not the escape. -/
def inertChar (c : Char) : Bool := !(isWs c) && c != '\'' && c != '"' && c != '\\'

/-- `split_cmd`'s post-processing `re.match("(['\"])(.*)\\1$", arg)`: an argument that (still)
    starts and ends with the same quote character loses that pair; `.` does not match a newline and
    `$` also matches before one trailing newline, which is then lost as well. -/
def stripOuterQuotes (a : Str) : Str :=
  match a with
  | [] => a
  | q :: rest =>
    if q = '\'' ∨ q = '"' then
      let rest' := if rest.getLast? = some '\n' then rest.dropLast else rest
      if rest'.getLast? = some q ∧ ¬ rest'.dropLast.contains '\n' then rest'.dropLast else a
    else a

/-- `pydra.compose.shell.task.split_cmd` on a POSIX system. -/
def splitCmd (s : Str) : Except Err (List Str) := (shlexSplit s).map (·.map stripOuterQuotes)

/-- `shlex.quote`'s quoting of one argument: `'` + s.replace("'", "'\"'\"'") + `'`. -/
def quoteBody : Str → Str
  | [] => []
  | c :: cs => if c = '\'' then '\'' :: '"' :: '\'' :: '"' :: '\'' :: quoteBody cs else c :: quoteBody cs

def shQuoteAlways (s : Str) : Str := '\'' :: (quoteBody s ++ ['\''])

/-- `shlex.quote`: bare when non-empty and made of ASCII letters, digits and `_ @ % + = : , . / -` (hyphen), quoted otherwise. -/
def quoteSafeChar (c : Char) : Bool :=
  c.isAlphanum || c == '_' || c == '@' || c == '%' || c == '+' || c == '=' || c == ':' || c == ','
    || c == '.' || c == '/' || c == '-'

def shQuote (s : Str) : Str := if s ≠ [] ∧ s.all quoteSafeChar then s else shQuoteAlways s

/-- `" ".join(parts)` -/
def joinSp : List Str → Str
  | [] => []
  | [a] => a
  | a :: b :: rest => a ++ ' ' :: joinSp (b :: rest)

/-- `ShellTask.cmdline`'s rendering of an argument vector: the first argument bare, every further
    one preceded by a blank and wrapped in single quotes iff it contains a space character. -/
def cmdlineArg (a : Str) : Str := if a.contains ' ' then '\'' :: (a ++ ['\'']) else a

def cmdlineOf : List Str → Str
  | [] => []            -- (Python: IndexError; the executable is never empty)
  | a :: rest => a ++ rest.flatMap (fun x => ' ' :: cmdlineArg x)

end PydraModel.Argv
