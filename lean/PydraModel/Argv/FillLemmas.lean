import PydraModel.Argv.OrderLemmas
import PydraModel.Argv.ShlexLemmas
/-
What `shell.define`'s slot filling (`remaining_positions` + `pop(0)` loop) guarantees.
-/
namespace PydraModel.Argv
open List

def explicitOf (ps : List (Option Int)) : List Int := ps.filterMap id

theorem allDistinct_nodup : ∀ l : List Int, allDistinct l = true → l.Nodup := by
  intro l
  induction l with
  | nil => simp
  | cons x xs ih =>
    intro h
    simp only [allDistinct, Bool.and_eq_true, Bool.not_eq_true', contains_eq_mem, decide_eq_false_iff_not] at h
    exact nodup_cons.mpr ⟨h.1, ih h.2⟩

theorem fill_mem : ∀ (ps : List (Option Int)) (stack filled : List Int), fillPositions ps stack = .ok filled →
    ∀ x ∈ filled, x ∈ explicitOf ps ∨ x ∈ stack := by
  intro ps
  induction ps with
  | nil => intro stack filled h; simp [fillPositions] at h; subst h; simp
  | cons p ps ih =>
    intro stack filled h x hx
    cases p with
    | some p =>
      simp only [fillPositions] at h
      cases hr : fillPositions ps stack with
      | error _ => simp [hr] at h
      | ok r =>
        simp [hr] at h; subst h
        rcases mem_cons.mp hx with rfl | hx
        · left; simp [explicitOf]
        · rcases ih stack r hr x hx with h' | h'
          · left; simp only [explicitOf, filterMap_cons, id] at h' ⊢; simp [h']
          · right; exact h'
    | none =>
      cases stack with
      | nil => simp [fillPositions] at h
      | cons s stack =>
        simp only [fillPositions] at h
        cases hr : fillPositions ps stack with
        | error _ => simp [hr] at h
        | ok r =>
          simp [hr] at h; subst h
          rcases mem_cons.mp hx with rfl | hx
          · right; simp
          · rcases ih stack r hr x hx with h' | h'
            · left; simpa [explicitOf] using h'
            · right; simp [h']

theorem fill_nodup : ∀ (ps : List (Option Int)) (stack filled : List Int), fillPositions ps stack = .ok filled →
    (explicitOf ps).Nodup → stack.Nodup → (∀ p ∈ explicitOf ps, p ∉ stack) → filled.Nodup := by
  intro ps
  induction ps with
  | nil => intro stack filled h; simp [fillPositions] at h; subst h; simp
  | cons p ps ih =>
    intro stack filled h he hs hd
    cases p with
    | some p =>
      simp only [fillPositions] at h
      cases hr : fillPositions ps stack with
      | error _ => simp [hr] at h
      | ok r =>
        simp [hr] at h; subst h
        simp only [explicitOf, filterMap_cons, id] at he hd
        have he' := nodup_cons.mp he
        refine nodup_cons.mpr ⟨?_, ih stack r hr he'.2 hs (fun q hq => hd q (by simp [explicitOf] at hq ⊢; simp [hq]))⟩
        intro hp
        rcases fill_mem ps stack r hr p hp with h' | h'
        · exact he'.1 (by simpa [explicitOf] using h')
        · exact hd p (by simp) h'
    | none =>
      cases stack with
      | nil => simp [fillPositions] at h
      | cons s stack =>
        simp only [fillPositions] at h
        cases hr : fillPositions ps stack with
        | error _ => simp [hr] at h
        | ok r =>
          simp [hr] at h; subst h
          have hs' := nodup_cons.mp hs
          have he1 : (explicitOf ps).Nodup := by simpa [explicitOf] using he
          refine nodup_cons.mpr ⟨?_, ih stack r hr he1 hs'.2 (fun q hq hqs => hd q (by simpa [explicitOf] using hq) (by simp [hqs]))⟩
          intro hsr
          rcases fill_mem ps stack r hr s hsr with h' | h'
          · exact hd s (by simpa [explicitOf] using h') (by simp)
          · exact hs'.1 h'

theorem nodup_of_map {α β} (f : α → β) : ∀ l : List α, (l.map f).Nodup → l.Nodup := by
  intro l
  induction l with
  | nil => simp
  | cons x xs ih =>
    intro h
    simp only [map_cons, nodup_cons] at h
    exact nodup_cons.mpr ⟨fun hx => h.1 (mem_map.mpr ⟨x, hx, rfl⟩), ih h.2⟩

theorem occ_eq (ps : List (Option Int)) (n : Int) :
    (ps ++ [some (0 : Int)]).filterMap (fun p => p.map (slotOf n)) = (explicitOf ps).map (slotOf n) ++ [0] := by
  induction ps with
  | nil => simp [explicitOf, slotOf]
  | cons p ps ih =>
    cases p with
    | none => simpa [explicitOf] using ih
    | some p => simp only [explicitOf, cons_append, filterMap_cons, Option.map_some, id, map_cons] at ih ⊢; rw [ih]

/-- the free slots: increasing, non-negative, none of them claimed -/
theorem remaining_spec (ps : List (Option Int)) (stack : List Int) (h : remainingPositions ps = .ok stack) :
    stack.Pairwise (· < ·) ∧ (∀ s ∈ stack, 0 ≤ s) ∧
    (ps.filterMap (fun p => p.map (slotOf ps.length))).Nodup ∧
    (∀ s ∈ stack, s ∉ ps.filterMap (fun p => p.map (slotOf ps.length))) := by
  unfold remainingPositions at h
  simp only at h
  split at h
  · rename_i hd
    simp at h
    subst h
    refine ⟨?_, ?_, allDistinct_nodup _ hd, ?_⟩
    · refine Pairwise.filter _ ?_
      rw [pairwise_map]
      exact (pairwise_lt_range (n := ps.length)).imp (fun h => by simpa using Int.ofNat_lt.mpr h)
    · intro s hs
      have := (mem_filter.mp hs).1
      obtain ⟨i, _, rfl⟩ := mem_map.mp this
      exact Int.natCast_nonneg i
    · intro s hs
      have := (mem_filter.mp hs).2
      simpa using this
  · simp at h

/-- Everything `definePositions` guarantees about the positions it returns. -/
theorem define_spec (ps : List (Option Int)) (filled : List Int) (h : definePositions ps = .ok filled) :
    ∃ stack, fillPositions ps stack = .ok filled ∧ stack.Pairwise (· < ·) ∧ (∀ s ∈ stack, 0 ≤ s)
      ∧ filled.Nodup ∧ (0 : Int) ∉ filled := by
  unfold definePositions at h
  cases hr : remainingPositions (ps ++ [some 0]) with
  | error e => simp [hr] at h
  | ok stack =>
    simp only [hr] at h
    obtain ⟨h1, h2, h3, h4⟩ := remaining_spec _ stack hr
    have hlen : ((ps ++ [some 0]).length : Int) = ps.length + 1 := by simp
    -- the claimed slots: those of the explicit positions, and slot 0 of the executable
    have hocc := occ_eq ps ((ps ++ [some (0 : Int)]).length : Nat)
    rw [hocc] at h3 h4
    have hexp : (explicitOf ps).Nodup := by
      have := (nodup_append.mp h3).1
      exact nodup_of_map _ _ this
    have hstack0 : (0 : Int) ∉ stack := fun h0 => h4 0 h0 (by simp)
    have hdisj : ∀ p ∈ explicitOf ps, p ∉ stack := by
      intro p hp hps
      by_cases hp0 : 0 ≤ p
      · exact h4 p hps (by simp only [mem_append, mem_map]; left; exact ⟨p, hp, by simp [slotOf, hp0]⟩)
      · have := h2 p hps; omega
    have hex0 : (0 : Int) ∉ explicitOf ps := by
      intro h0
      have := (nodup_append.mp h3).2.2 0 (mem_map.mpr ⟨0, h0, by simp [slotOf]⟩) 0 (by simp)
      exact this rfl
    refine ⟨stack, h, h1, h2, fill_nodup ps stack filled h hexp (h1.imp (fun h => Int.ne_of_lt h)) hdisj, ?_⟩
    intro h0
    rcases fill_mem ps stack filled h 0 h0 with h' | h'
    · exact hex0 h'
    · exact hstack0 h'

end PydraModel.Argv
