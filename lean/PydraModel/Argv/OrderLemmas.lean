import PydraModel.Argv.PositionSortLemmas
/-
The order produced by the code (implicit slots filled in by `shell.define`, then `position_sort`)
equals the documented order (`Spec.ordered` on the positions as written) whenever no unpositioned
field receives a slot below an explicitly positioned one.
-/
namespace PydraModel.Argv
open List

/-- a field taking part in the command: position as written, position after `shell.define`, payload -/
structure Item (β : Type) where
  user : Option Int
  filled : Int
  val : β

variable {β : Type}

def Item.isE (x : Item β) : Bool := match x.user with | some p => decide (0 ≤ p) | none => false
def Item.isN (x : Item β) : Bool := match x.user with | some p => decide (p < 0) | none => false
def Item.isU (x : Item β) : Bool := match x.user with | some _ => false | none => true
def Item.kv (x : Item β) : Int × β := (x.filled, x.val)

def filledEntries (xs : List (Item β)) : List (Option Int × β) := xs.map (fun x => (some x.filled, x.val))
def userEntries (xs : List (Item β)) : List (Option Int × β) := xs.map (fun x => (x.user, x.val))

/-- what `shell.define` guarantees, and what the D26-excluding hypothesis adds -/
structure OrderOK (xs : List (Item β)) : Prop where
  explicitKept : ∀ x ∈ xs, ∀ p, x.user = some p → x.filled = p
  implicitNonneg : ∀ x ∈ xs, x.user = none → 0 ≤ x.filled
  implicitIncreasing : ((xs.filter Item.isU).map Item.filled).Pairwise (· < ·)
  distinct : (xs.map Item.filled).Nodup
  /-- excludes D26 -/
  noImplicitBelowExplicit : ∀ x ∈ xs, ∀ y ∈ xs, ∀ p, x.user = some p → 0 ≤ p → y.user = none → p < y.filled

theorem OrderOK.tail {x : Item β} {xs : List (Item β)} (h : OrderOK (x :: xs)) : OrderOK xs where
  explicitKept := fun y hy => h.explicitKept y (by simp [hy])
  implicitNonneg := fun y hy => h.implicitNonneg y (by simp [hy])
  implicitIncreasing := by
    have := h.implicitIncreasing
    rw [filter_cons] at this
    split at this
    · exact (pairwise_cons.mp (by simpa using this)).2
    · exact this
  distinct := by have := h.distinct; simp only [map_cons, nodup_cons] at this; exact this.2
  noImplicitBelowExplicit := fun a ha b hb => h.noImplicitBelowExplicit a (by simp [ha]) b (by simp [hb])

/-! model side -/

theorem model_buckets (xs : List (Item β))
    (h1 : ∀ x ∈ xs, ∀ p, x.user = some p → x.filled = p) (h2 : ∀ x ∈ xs, x.user = none → 0 ≤ x.filled) :
    nonnegOf (filledEntries xs) = (xs.filter (fun x => !x.isN)).map Item.kv
    ∧ negOf (filledEntries xs) = (xs.filter Item.isN).map Item.kv
    ∧ noneOf (filledEntries xs) = [] := by
  induction xs with
  | nil => simp [filledEntries, nonnegOf, negOf, noneOf]
  | cons x xs ih =>
    obtain ⟨i1, i2, i3⟩ := ih (fun y hy => h1 y (by simp [hy])) (fun y hy => h2 y (by simp [hy]))
    have hx : (x.filled < 0) ↔ x.isN = true := by
      unfold Item.isN
      cases hu : x.user with
      | none => have := h2 x (by simp) hu; simp; omega
      | some p => have := h1 x (by simp) p hu; simp [this]
    simp only [filledEntries, nonnegOf, negOf, noneOf, map_cons, filterMap_cons] at i1 i2 i3 ⊢
    by_cases hn : x.isN = true
    · have : x.filled < 0 := hx.mpr hn
      simp [this, hn, i1, i2, i3, Item.kv, filter_cons]
    · have : ¬ x.filled < 0 := fun h => hn (hx.mp h)
      simp [this, hn, i1, i2, i3, Item.kv, filter_cons]

/-! spec side -/

theorem spec_bucket_E (xs : List (Item β)) (h1 : ∀ x ∈ xs, ∀ p, x.user = some p → x.filled = p) :
    (userEntries xs).filterMap Spec.selNonneg
      = (xs.filter Item.isE).map Item.kv := by
  induction xs with
  | nil => simp [userEntries]
  | cons x xs ih =>
    have ih' := ih (fun y hy => h1 y (by simp [hy]))
    simp only [userEntries, map_cons, filterMap_cons] at ih' ⊢
    cases hu : x.user with
    | none => simp [ih', filter_cons, Item.isE, hu, Spec.selNonneg]
    | some p =>
      have := h1 x (by simp) p hu
      by_cases hp : 0 ≤ p <;> simp [ih', filter_cons, Item.isE, hu, hp, Item.kv, this, Spec.selNonneg]

theorem spec_bucket_N (xs : List (Item β)) (h1 : ∀ x ∈ xs, ∀ p, x.user = some p → x.filled = p) :
    (userEntries xs).filterMap Spec.selNeg
      = (xs.filter Item.isN).map Item.kv := by
  induction xs with
  | nil => simp [userEntries]
  | cons x xs ih =>
    have ih' := ih (fun y hy => h1 y (by simp [hy]))
    simp only [userEntries, map_cons, filterMap_cons] at ih' ⊢
    cases hu : x.user with
    | none => simp [ih', filter_cons, Item.isN, hu, Spec.selNeg]
    | some p =>
      have := h1 x (by simp) p hu
      by_cases hp : p < 0 <;> simp [ih', filter_cons, Item.isN, hu, hp, Item.kv, this, Spec.selNeg]

theorem spec_bucket_U (xs : List (Item β)) :
    (userEntries xs).filterMap Spec.selNone
      = (xs.filter Item.isU).map Item.val := by
  induction xs with
  | nil => simp [userEntries]
  | cons x xs ih =>
    simp only [userEntries, map_cons, filterMap_cons] at ih ⊢
    cases hu : x.user <;> simp [ih, filter_cons, Item.isU, hu, Spec.selNone]

theorem spec_buckets (xs : List (Item β)) (h1 : ∀ x ∈ xs, ∀ p, x.user = some p → x.filled = p) :
    Spec.ordered (userEntries xs) =
      (Spec.sortAsc ((xs.filter Item.isE).map Item.kv)).map (·.2)
      ++ (xs.filter Item.isU).map Item.val
      ++ (Spec.sortAsc ((xs.filter Item.isN).map Item.kv)).map (·.2) := by
  unfold Spec.ordered
  rw [spec_bucket_E xs h1, spec_bucket_N xs h1, spec_bucket_U xs]

/-! the two agree -/

theorem keys_nodup_of_filter (xs : List (Item β)) (p : Item β → Bool) (h : (xs.map Item.filled).Nodup) :
    (((xs.filter p).map Item.kv).map (·.1)).Nodup := by
  have : ((xs.filter p).map Item.kv).map (·.1) = (xs.filter p).map Item.filled := by simp [Item.kv]
  rw [this]
  exact Nodup.sublist ((filter_sublist (l := xs)).map _) h

theorem nonneg_split (xs : List (Item β)) (hok : OrderOK xs) :
    isortL ((xs.filter (fun x => !x.isN)).map Item.kv)
      = Spec.sortAsc ((xs.filter Item.isE).map Item.kv) ++ (xs.filter Item.isU).map Item.kv := by
  symm
  apply sorted_unique
  · -- strictly sorted
    rw [pairwise_append]
    refine ⟨?_, ?_, ?_⟩
    · refine strict_of_sorted_nodup (sortAsc_sorted _) ?_
      exact ((sortAsc_perm _).map _).nodup_iff.mpr (keys_nodup_of_filter xs _ hok.distinct)
    · have := hok.implicitIncreasing
      rw [pairwise_map] at this ⊢
      exact this
    · intro a ha b hb
      have ha' := (sortAsc_perm _).subset ha
      obtain ⟨x, hx, rfl⟩ := mem_map.mp ha'
      obtain ⟨y, hy, rfl⟩ := mem_map.mp hb
      rw [mem_filter] at hx hy
      simp only [keyLT, Item.kv]
      cases hux : x.user with
      | none => simp [Item.isE, hux] at hx
      | some p =>
        cases huy : y.user with
        | some q => simp [Item.isU, huy] at hy
        | none =>
          have hp : 0 ≤ p := by simpa [Item.isE, hux] using hx.2
          have := hok.noImplicitBelowExplicit x hx.1 y hy.1 p hux hp huy
          rw [hok.explicitKept x hx.1 p hux]; exact this
  · exact isortL_sorted _
  · -- permutation
    refine Perm.trans ?_ (isortL_perm _).symm
    refine ((sortAsc_perm _).append_right _).trans ?_
    rw [← map_append]
    refine Perm.map _ ?_
    -- E ++ U is the part of xs that is not N
    have hE : xs.filter Item.isE = (xs.filter (fun x => !x.isN)).filter Item.isE := by
      rw [filter_filter]; apply filter_congr; intro x _
      cases hu : x.user with
      | none => simp [Item.isE, Item.isN, hu]
      | some p => by_cases hp : 0 ≤ p <;> simp [Item.isE, Item.isN, hu, hp] <;> omega
    have hU : xs.filter Item.isU = (xs.filter (fun x => !x.isN)).filter (fun x => !x.isE) := by
      rw [filter_filter]; apply filter_congr; intro x _
      cases hu : x.user with
      | none => simp [Item.isE, Item.isN, Item.isU, hu]
      | some p => by_cases hp : 0 ≤ p <;> simp [Item.isE, Item.isN, Item.isU, hu, hp] <;> omega
    rw [hE, hU]
    exact filter_append_perm _ _

/-- Refinement of the documented order, for any number of fields. -/
theorem positionSort_filled_eq_ordered (xs : List (Item β)) (hok : OrderOK xs) :
    positionSort (filledEntries xs) = Spec.ordered (userEntries xs) := by
  obtain ⟨m1, m2, m3⟩ := model_buckets xs hok.explicitKept hok.implicitNonneg
  rw [positionSort_eq, m1, m2, m3, spec_buckets xs hok.explicitKept, nonneg_split xs hok,
    isortL_eq_sortAsc _ (keys_nodup_of_filter xs _ hok.distinct)]
  simp [Item.kv, Function.comp_def]

end PydraModel.Argv
