import PydraModel.Argv.CommandLemmas
import PydraModel.Argv.FieldLemmas
/-
Putting the pieces together: `shell.define` + `_command_args` = the documented argument vector.
-/
namespace PydraModel.Argv
open List

theorem fill_length : ∀ (ps : List (Option Int)) (stack filled : List Int),
    fillPositions ps stack = .ok filled → filled.length = ps.length := by
  intro ps
  induction ps with
  | nil => intro stack filled h; simp [fillPositions] at h; subst h; rfl
  | cons p ps ih =>
    intro stack filled h
    cases p with
    | some p =>
      simp only [fillPositions] at h
      cases hr : fillPositions ps stack with
      | error _ => simp [hr] at h
      | ok r => simp [hr] at h; subst h; simp [ih stack r hr]
    | none =>
      cases stack with
      | nil => simp [fillPositions] at h
      | cons s stack =>
        simp only [fillPositions] at h
        cases hr : fillPositions ps stack with
        | error _ => simp [hr] at h
        | ok r => simp [hr] at h; subst h; simp [ih stack r hr]

/-- documented arguments of a zipped field (nothing when it has no argstr) -/
def specArgsOf (env : Env) (t : Triple) : List Str :=
  match t.1.argstr with
  | some a => Spec.fieldArgs env t.1 a t.2.2
  | none => []

/-- the fields that take part, as items of the ordering theorem -/
def liveItems (env : Env) (T : List Triple) : List (Item (List Str)) :=
  (T.filter Triple.live).map (fun t => ⟨t.1.position, t.2.1, specArgsOf env t⟩)

/-- D26-excluding hypothesis on a definition with its filled positions and an assignment: no set
    unpositioned field has received a slot below the explicit non-negative position of a set field. -/
def NoImplicitBelowExplicit (T : List Triple) : Prop :=
  ∀ x ∈ T.filter Triple.live, ∀ y ∈ T.filter Triple.live, ∀ p,
    x.1.position = some p → 0 ≤ p → y.1.position = none → p < y.2.1

instance (T : List Triple) : Decidable (NoImplicitBelowExplicit T) := by
  unfold NoImplicitBelowExplicit
  refine @List.decidableBAll _ _ (fun x => @List.decidableBAll _ _ (fun y => ?_) _) _
  cases hx : x.1.position with
  | none => exact isTrue (fun p h => by simp at h)
  | some p =>
    cases hy : y.1.position with
    | some q => exact isTrue (fun p' _ _ h => by simp at h)
    | none =>
      by_cases h : 0 ≤ p → p < y.2.1
      · exact isTrue (fun p' hp' h0 _ => by simp at hp'; subst hp'; exact h h0)
      · exact isFalse (fun hh => h (fun h0 => hh p rfl h0 rfl))

theorem live_filter_bound (T : List Triple) :
    (T.map Triple.toBound).filter (·.live) = (T.filter Triple.live).map Triple.toBound := by
  rw [filter_map]; rfl

theorem orderOK_of_fill (env : Env) (fs : List Field) (stack filled : List Int) (vs : List Value)
    (hfill : fillPositions (fs.map (·.position)) stack = .ok filled) (hlen : vs.length = fs.length)
    (hst : stack.Pairwise (· < ·)) (hnn : ∀ s ∈ stack, 0 ≤ s) (hnd : filled.Nodup)
    (h26 : NoImplicitBelowExplicit (triples fs filled vs)) :
    OrderOK (liveItems env (triples fs filled vs)) := by
  obtain ⟨t1, t2, t3⟩ := triples_fill fs stack filled vs hfill hlen
  have hmem : ∀ x ∈ liveItems env (triples fs filled vs), ∃ t ∈ (triples fs filled vs).filter Triple.live,
      x = ⟨t.1.position, t.2.1, specArgsOf env t⟩ := by
    intro x hx
    obtain ⟨t, ht, rfl⟩ := mem_map.mp hx
    exact ⟨t, ht, rfl⟩
  refine ⟨?_, ?_, ?_, ?_, ?_⟩
  · intro x hx p hp
    obtain ⟨t, ht, rfl⟩ := hmem x hx
    exact t1 t (mem_filter.mp ht).1 p hp
  · intro x hx hu
    obtain ⟨t, ht, rfl⟩ := hmem x hx
    have : t.2.1 ∈ ((triples fs filled vs).filter (fun t => t.1.position.isNone)).map (·.2.1) :=
      mem_map.mpr ⟨t, mem_filter.mpr ⟨(mem_filter.mp ht).1, by simpa using hu⟩, rfl⟩
    exact hnn _ (t2.subset this)
  · -- the implicit slots of the set fields are a sublist of the stack prefix
    have hsub : Sublist (((liveItems env (triples fs filled vs)).filter Item.isU).map Item.filled)
        ((((triples fs filled vs).filter (fun t => t.1.position.isNone)).map (·.2.1))) := by
      unfold liveItems
      rw [filter_map, map_map]
      have : ((triples fs filled vs).filter Triple.live).filter (Item.isU ∘ fun t => (⟨t.1.position, t.2.1, specArgsOf env t⟩ : Item (List Str)))
          = ((triples fs filled vs).filter (fun t => t.1.position.isNone)).filter Triple.live := by
        rw [filter_filter, filter_filter]
        apply filter_congr
        intro t _
        cases hp : t.1.position <;> simp [Item.isU, hp, Bool.and_comm]
      rw [this]
      exact (filter_sublist (l := _)).map _
    exact (hst.sublist t2.sublist).sublist hsub
  · have : (liveItems env (triples fs filled vs)).map Item.filled = ((triples fs filled vs).filter Triple.live).map (·.2.1) := by
      simp [liveItems, Function.comp_def]
    rw [this]
    refine Nodup.sublist ((filter_sublist (l := _)).map _) ?_
    rw [t3]; exact hnd
  · intro x hx y hy p hp h0 hu
    obtain ⟨t, ht, rfl⟩ := hmem x hx
    obtain ⟨u, hu', rfl⟩ := hmem y hy
    exact h26 t ht u hu' p hp h0 hu

/-- MAIN ASSEMBLY.  `g`-free statement: see `Props/C22.lean`. -/
theorem runDef_eq_spec (exe app : List Str) (fs : List Field) (vs : List Value) (filled : List Int)
    (hdef : definePositions (fs.map (·.position)) = .ok filled) (hlen : vs.length = fs.length)
    (hsafe : ∀ t ∈ (triples fs filled vs).filter Triple.live,
        ∃ a, t.1.argstr = some a ∧ SafeField (Spec.envOfDef fs vs) t.1 a t.2.2)
    (h26 : NoImplicitBelowExplicit (triples fs filled vs)) :
    runDef exe fs vs app = .ok (Spec.commandArgs exe fs vs app) := by
  obtain ⟨stack, hfill, hst, hnn, hnd, h0⟩ := define_spec _ filled hdef
  have hflen : filled.length = fs.length := by simpa using fill_length _ stack filled hfill
  obtain ⟨t1, t2, t3⟩ := triples_fill fs stack filled vs hfill hlen
  have henv : envOf (bindAll fs filled vs) = Spec.envOfDef fs vs := by
    unfold Spec.envOfDef
    exact envOf_indep fs filled (fs.map (fun _ => 0)) vs hflen (by simp)
  unfold runDef
  simp only [hdef]
  unfold commandArgs
  rw [henv, bindAll_eq]
  -- the loop
  let g : Bound → List Str := fun b => specArgsOf (Spec.envOfDef fs vs) (b.fld, b.pos.getD 0, b.val)
  have hlivepos : (((triples fs filled vs).map Triple.toBound).filter (·.live)).filterMap (·.pos) = ((triples fs filled vs).filter Triple.live).map (·.2.1) := by
    rw [live_filter_bound, filterMap_map]
    have : ((fun b : Bound => b.pos) ∘ Triple.toBound) = (fun t : Triple => some t.2.1) := by funext t; rfl
    rw [this]
    induction ((triples fs filled vs).filter Triple.live) with
    | nil => rfl
    | cons t l ih => simp [filterMap_cons, ih]
  have hsubl : Sublist (((triples fs filled vs).filter Triple.live).map (·.2.1)) filled := by
    have := (filter_sublist (l := triples fs filled vs) (p := Triple.live)).map (fun x : Triple => x.2.1)
    rw [t3] at this; exact this
  have hbuild := buildEntries_ok (Spec.envOfDef fs vs) g ((triples fs filled vs).map Triple.toBound) [0]
    (by
      intro b hb hl
      obtain ⟨t, ht, rfl⟩ := mem_map.mp hb
      obtain ⟨a, ha, hs⟩ := hsafe t (mem_filter.mpr ⟨ht, hl⟩)
      refine ⟨a, t.2.1, ha, rfl, ?_⟩
      have := fieldArgs_spec (Spec.envOfDef fs vs) t.1 a t.2.2 hs
      simp only [Triple.toBound, g, specArgsOf, Option.getD_some, ha]
      exact this)
    (by rw [hlivepos]; exact Nodup.sublist hsubl hnd)
    (by
      intro p hp
      simp only [mem_singleton] at hp
      subst hp
      rw [hlivepos]
      exact fun hh => h0 (hsubl.subset hh))
  rw [hbuild]
  simp only [emap_ok]
  -- the entries are the filled entries of the live items
  have hent : (((triples fs filled vs).map Triple.toBound).filter (·.live)).map (fun b => (b.pos, g b)) = filledEntries (liveItems (Spec.envOfDef fs vs) (triples fs filled vs)) := by
    rw [live_filter_bound]
    simp [filledEntries, liveItems, Triple.toBound, g, Function.comp_def]
  rw [hent]
  have hne0 : ∀ e ∈ filledEntries (liveItems (Spec.envOfDef fs vs) (triples fs filled vs)), e.1 ≠ some 0 := by
    intro e he
    simp only [filledEntries, liveItems, map_map, mem_map, Function.comp] at he
    obtain ⟨t, ht, rfl⟩ := he
    simp only [ne_eq, Option.some.injEq]
    intro hz
    exact h0 (hsubl.subset (mem_map.mpr ⟨t, ht, hz⟩))
  rw [positionSort_exe exe _ hne0,
    positionSort_filled_eq_ordered _ (orderOK_of_fill (Spec.envOfDef fs vs) fs stack filled vs hfill hlen hst hnn hnd h26)]
  -- the spec side
  unfold Spec.commandArgs
  rw [specEntries_eq (Spec.envOfDef fs vs) fs filled vs hflen hlen]
  have huser : (((triples fs filled vs).filter Triple.live).filterMap
      (fun t => t.1.argstr.map (fun a => (t.1.position, Spec.fieldArgs (Spec.envOfDef fs vs) t.1 a t.2.2)))) = userEntries (liveItems (Spec.envOfDef fs vs) (triples fs filled vs)) := by
    have hall : ∀ t ∈ (triples fs filled vs).filter Triple.live, ∃ a, t.1.argstr = some a := fun t ht => by
      obtain ⟨a, ha, _⟩ := hsafe t ht; exact ⟨a, ha⟩
    simp only [userEntries, liveItems, map_map]
    generalize (triples fs filled vs).filter Triple.live = L at hall
    induction L with
    | nil => rfl
    | cons t L ih =>
      obtain ⟨a, ha⟩ := hall t (by simp)
      simp [filterMap_cons, ha, specArgsOf, ih (fun u hu => hall u (by simp [hu]))]
  rw [huser]
  simp [flatten_cons, append_assoc]

end PydraModel.Argv
