import PydraModel.Argv.Shlex
/-
Lemmas about the `shlex` automaton: the literal transcription equals the accumulator-free one,
runs of inert characters are copied, single-quoted bodies are copied, inert text splits at blanks.
-/
namespace PydraModel.Argv

@[simp] theorem emap_ok {ε α β} (f : α → β) (a : α) : Except.map f (.ok a : Except ε α) = .ok (f a) := rfl
@[simp] theorem emap_error {ε α β} (f : α → β) (e : ε) : Except.map f (.error e : Except ε α) = .error e := rfl
theorem emap_map {ε α β γ} (f : α → β) (g : β → γ) (x : Except ε α) :
    Except.map g (Except.map f x) = Except.map (g ∘ f) x := by cases x <;> rfl
theorem emap_id' {ε α} (x : Except ε α) (f : α → α) (h : ∀ a, f a = a) : Except.map f x = x := by
  cases x <;> simp [h]

theorem inertChar_iff (c : Char) :
    inertChar c = true ↔ isWs c = false ∧ c ≠ '\'' ∧ c ≠ '"' ∧ c ≠ '\\' := by
  simp [inertChar, and_assoc]

/-! ### the raw transcription equals `lex` -/

/-- Invariant of `read_token` outside the blank state: a token has been started. -/
def RawInv (st : St) (tok : Str) (q : Bool) : Prop :=
  match st with
  | .ws => tok = [] ∧ q = false
  | .escW => True
  | _ => tok ≠ [] ∨ q = true

def rawOut (st : St) (tok : Str) (acc : List Str) (r : Str × List Str) : List Str :=
  match st with
  | .ws => acc ++ r.2
  | _ => acc ++ (tok ++ r.1) :: r.2

theorem lexRaw_eq_lex (cs : List Char) : ∀ (st : St) (tok : Str) (q : Bool) (acc : List Str),
    RawInv st tok q → lexRaw st tok q acc cs = (lex st cs).map (rawOut st tok acc) := by
  induction cs with
  | nil =>
    intro st tok q acc h
    cases st
    · simp [lexRaw, lex, rawOut]
    · have h' : tok ≠ [] ∨ q = true := h
      simp [lexRaw, lex, rawOut, emitTok, h']
    all_goals simp [lexRaw, lex]
  | cons c cs ih =>
    intro st tok q acc h
    cases st
    · -- ws
      obtain ⟨rfl, rfl⟩ := h
      simp only [lexRaw, lex]
      split
      · rw [ih .ws [] false acc ⟨rfl, rfl⟩]
      · split
        · rw [ih .escW [] false acc trivial, emap_map]; congr
        · split
          · rw [ih .sq [] true acc (Or.inr rfl), emap_map]; congr
          · split
            · rw [ih .dq [] true acc (Or.inr rfl), emap_map]; congr
            · rw [ih .word [c] false acc (Or.inl (by simp)), emap_map]; congr
    · -- word
      simp only [lexRaw, lex]
      have h' : tok ≠ [] ∨ q = true := h
      split
      · rw [ih .ws [] false _ ⟨rfl, rfl⟩, emap_map]
        congr; funext r; simp [rawOut]
      · split
        · rw [ih .sq tok true acc (Or.inr rfl)]; rfl
        · split
          · rw [ih .dq tok true acc (Or.inr rfl)]; rfl
          · split
            · rw [ih .escW tok q acc trivial]; rfl
            · rw [ih .word (tok ++ [c]) q acc (Or.inl (by simp)), emap_map]
              congr; funext r; simp [rawOut]
    · -- sq
      simp only [lexRaw, lex]
      split
      · rw [ih .word tok q acc h]; rfl
      · rw [ih .sq (tok ++ [c]) q acc (Or.inl (by simp)), emap_map]
        congr; funext r; simp [rawOut]
    · -- dq
      simp only [lexRaw, lex]
      split
      · rw [ih .word tok q acc h]; rfl
      · split
        · rw [ih .escD tok q acc h]; rfl
        · rw [ih .dq (tok ++ [c]) q acc (Or.inl (by simp)), emap_map]
          congr; funext r; simp [rawOut]
    · -- escW
      simp only [lexRaw, lex]
      rw [ih .word (tok ++ [c]) q acc (Or.inl (by simp)), emap_map]
      congr; funext r; simp [rawOut]
    · -- escD
      simp only [lexRaw, lex]
      split
      · rw [ih .dq (tok ++ [c]) q acc (Or.inl (by simp)), emap_map]
        congr; funext r; simp [rawOut]
      · rw [ih .dq (tok ++ ['\\', c]) q acc (Or.inl (by simp)), emap_map]
        congr; funext r; simp [rawOut]

/-- The literal transcription of `shlex.split` and the automaton the theorems use agree on every input. -/
theorem shlexSplitRaw_eq (s : Str) : shlexSplitRaw s = shlexSplit s := by
  unfold shlexSplitRaw shlexSplit
  rw [lexRaw_eq_lex s .ws [] false [] ⟨rfl, rfl⟩]
  congr

/-! ### basic facts -/

theorem lex_ws_fst : ∀ (cs : List Char) (r : Str × List Str), lex .ws cs = .ok r → r.1 = [] := by
  intro cs
  induction cs with
  | nil => intro r h; simp [lex] at h; rw [← h]
  | cons c cs ih =>
    intro r h
    simp only [lex] at h
    split at h
    · exact ih r h
    · split at h
      · cases hx : lex .escW cs <;> simp [hx] at h; rw [← h]
      · split at h
        · cases hx : lex .sq cs <;> simp [hx] at h; rw [← h]
        · split at h
          · cases hx : lex .dq cs <;> simp [hx] at h; rw [← h]
          · cases hx : lex .word cs <;> simp [hx] at h; rw [← h]

/-! ### runs of characters that are copied -/

theorem lex_word_inert (e rest : Str) (he : ∀ c ∈ e, inertChar c = true) :
    lex .word (e ++ rest) = (lex .word rest).map (fun r => (e ++ r.1, r.2)) := by
  induction e with
  | nil => simp; exact (emap_id' _ _ (fun _ => rfl)).symm
  | cons c e ih =>
    have hc := (inertChar_iff c).mp (he c (by simp))
    have ih' := ih (fun x hx => he x (by simp [hx]))
    simp only [List.cons_append, lex, hc.1, hc.2.1, hc.2.2.1, hc.2.2.2, if_false, Bool.false_eq_true]
    rw [ih', emap_map]; rfl

theorem lex_ws_inert (c : Char) (e rest : Str) (he : ∀ x ∈ c :: e, inertChar x = true) :
    lex .ws (c :: e ++ rest) = (lex .word rest).map (fun r => ([], (c :: e ++ r.1) :: r.2)) := by
  have hc := (inertChar_iff c).mp (he c (by simp))
  simp only [List.cons_append, lex, hc.1, hc.2.1, hc.2.2.1, hc.2.2.2, if_false, Bool.false_eq_true]
  rw [lex_word_inert e rest (fun x hx => he x (by simp [hx])), emap_map]; rfl

/-- Inside single quotes everything up to the closing quote is copied. -/
theorem lex_sq_copy (e rest : Str) (he : ∀ c ∈ e, c ≠ '\'') :
    lex .sq (e ++ '\'' :: rest) = (lex .word rest).map (fun r => (e ++ r.1, r.2)) := by
  induction e with
  | nil => simp [lex]; exact (emap_id' _ _ (fun _ => rfl)).symm
  | cons c e ih =>
    have hc := he c (by simp)
    simp only [List.cons_append, lex, hc, if_false]
    rw [ih (fun x hx => he x (by simp [hx])), emap_map]; rfl

/-- The `'"'"'` idiom: a quoted body as produced by `shlex.quote` is read back verbatim. -/
theorem lex_sq_quoteBody (s rest : Str) :
    lex .sq (quoteBody s ++ '\'' :: rest) = (lex .word rest).map (fun r => (s ++ r.1, r.2)) := by
  induction s with
  | nil => simp [quoteBody, lex]; exact (emap_id' _ _ (fun _ => rfl)).symm
  | cons c s ih =>
    by_cases hc : c = '\''
    · subst hc
      simp only [quoteBody, if_true, List.cons_append]
      -- ' closes, " opens, ' is copied, " closes, ' reopens
      have : lex .sq ('\'' :: '"' :: '\'' :: '"' :: '\'' :: (quoteBody s ++ '\'' :: rest))
          = (lex .sq (quoteBody s ++ '\'' :: rest)).map (fun r => ('\'' :: r.1, r.2)) := by
        simp [lex, isWs]
      rw [this, ih, emap_map]; rfl
    · simp only [quoteBody, hc, if_false, List.cons_append, lex]
      rw [ih, emap_map]; rfl

/-! ### inert text splits exactly at blanks -/

theorem lex_words (s : Str) (hs : ∀ c ∈ s, inertChar c = true ∨ isWs c = true) :
    lex .ws s = .ok ([], (wordsAux false s).2) ∧ lex .word s = .ok (wordsAux true s) := by
  induction s with
  | nil => simp [lex, wordsAux]
  | cons c s ih =>
    obtain ⟨ih1, ih2⟩ := ih (fun x hx => hs x (by simp [hx]))
    rcases hs c (by simp) with hc | hc
    · have hc' := (inertChar_iff c).mp hc
      simp [lex, wordsAux, hc'.1, hc'.2.1, hc'.2.2.1, hc'.2.2.2, ih2]
    · simp [lex, wordsAux, hc, ih1]

theorem shlexSplit_words (s : Str) (hs : ∀ c ∈ s, inertChar c = true ∨ isWs c = true) :
    shlexSplit s = .ok (words s) := by
  simp [shlexSplit, words, (lex_words s hs).1]

end PydraModel.Argv
