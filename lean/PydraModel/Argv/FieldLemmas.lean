import PydraModel.Argv.WordsLemmas
import PydraModel.Argv.Spec
/-
On harmless definitions and values, building a field's text and re-tokenising it (`_format_arg` +
`split_cmd`) gives the documented arguments (`Spec.fieldArgs`).
-/
namespace PydraModel.Argv
open List

/-- no meaning for `shlex`, not removed by `str.strip()`, not a bracket (`argstr_formatting`'s clean-up) -/
def plainChar (c : Char) : Bool := inertChar c && !pySpace c && c != '[' && c != ']'
/-- argstr and separator text may also contain plain spaces -/
def argChar (c : Char) : Bool := plainChar c || c == ' '

def PlainStr (s : Str) : Prop := ∀ c ∈ s, plainChar c = true
def ArgStr (s : Str) : Prop := ∀ c ∈ s, argChar c = true
instance (s : Str) : Decidable (PlainStr s) := by unfold PlainStr; infer_instance
instance (s : Str) : Decidable (ArgStr s) := by unfold ArgStr; infer_instance

theorem plainChar_iff (c : Char) : plainChar c = true ↔
    inertChar c = true ∧ pySpace c = false ∧ c ≠ '[' ∧ c ≠ ']' := by
  simp [plainChar, and_assoc]

theorem argChar_cases {c : Char} (h : argChar c = true) : plainChar c = true ∨ c = ' ' := by
  simpa [argChar] using h

theorem PlainStr.argStr {s : Str} (h : PlainStr s) : ArgStr s := fun c hc => by simp [argChar, h c hc]

theorem ArgStr.harmless {s : Str} (h : ArgStr s) : ∀ c ∈ s, inertChar c = true ∨ isWs c = true := by
  intro c hc
  rcases argChar_cases (h c hc) with h | rfl
  · exact Or.inl ((plainChar_iff c).mp h).1
  · exact Or.inr (by decide)

theorem ArgStr.append {a b : Str} (ha : ArgStr a) (hb : ArgStr b) : ArgStr (a ++ b) := by
  intro c hc; rcases mem_append.mp hc with h | h; exact ha c h; exact hb c h

theorem ArgStr.cons_space {a : Str} (ha : ArgStr a) : ArgStr (' ' :: a) := by
  intro c hc; rcases mem_cons.mp hc with rfl | h; decide; exact ha c h

theorem ArgStr.of_subset {a b : Str} (hb : ArgStr b) (h : ∀ c ∈ a, c ∈ b) : ArgStr a := fun c hc => hb c (h c hc)

theorem ArgStr.pySpace_eq {s : Str} (h : ArgStr s) {c : Char} (hc : c ∈ s) (hp : pySpace c = true) : c = ' ' := by
  rcases argChar_cases (h c hc) with h' | rfl
  · rw [((plainChar_iff c).mp h').2.1] at hp; exact absurd hp (by simp)
  · rfl

theorem PlainStr.solid {s : Str} (h : PlainStr s) : ∀ c ∈ s, isWs c = false :=
  fun c hc => ((inertChar_iff c).mp ((plainChar_iff c).mp (h c hc)).1).1

theorem splitCmd_argStr (s : Str) (h : ArgStr s) : splitCmd s = .ok (words s) := splitCmd_words s h.harmless

/-! ### `argstr_formatting`'s clean-up does nothing to harmless text, as far as the words go -/

theorem replace2_id_left (a b : Char) (rep s : Str) (h : a ∉ s) : replace2 a b rep s = s := by
  unfold replace2
  induction s with
  | nil => simp [replace2Go]
  | cons y cs ih =>
    have hy : y ≠ a := fun hh => h (by simp [hh])
    simp [replace2Go, hy, ih (fun hh => h (by simp [hh]))]

theorem replace2Go_id_right (a b : Char) (rep s : Str) (h : b ∉ s) : ∀ held,
    replace2Go a b rep held s = if held then a :: s else s := by
  induction s with
  | nil => intro held; cases held <;> simp [replace2Go]
  | cons y cs ih =>
    intro held
    have hy : y ≠ b := fun hh => h (by simp [hh])
    have ih' := ih (fun hh => h (by simp [hh]))
    cases held
    · by_cases hya : y = a
      · simp [replace2Go, hya, ih' true]
      · simp [replace2Go, hya, ih' false]
    · by_cases hya : y = a
      · simp [replace2Go, hy, hya, ih' true]
        intro hab; exact absurd (hya ▸ hab) hy
      · simp [replace2Go, hy, hya, ih' false]

theorem replace2_id_right (a b : Char) (rep s : Str) (h : b ∉ s) : replace2 a b rep s = s := by
  simpa [replace2] using replace2Go_id_right a b rep s h false

theorem ArgStr.no_open {s : Str} (h : ArgStr s) : '[' ∉ s := by
  intro hc
  rcases argChar_cases (h _ hc) with h' | h'
  · exact absurd rfl ((plainChar_iff _).mp h').2.2.1
  · exact absurd h' (by decide)

theorem ArgStr.no_close {s : Str} (h : ArgStr s) : ']' ∉ s := by
  intro hc
  rcases argChar_cases (h _ hc) with h' | h'
  · exact absurd rfl ((plainChar_iff _).mp h').2.2.2
  · exact absurd h' (by decide)

theorem cleanup_argStr (s : Str) (h : ArgStr s) : cleanup s = pyStrip s := by
  unfold cleanup
  rw [replace2_id_left '[' ' ' _ s h.no_open, replace2_id_right ' ' ']' _ s h.no_close,
    replace2_id_left '[' ',' _ s h.no_open, replace2_id_right ',' ']' _ s h.no_close]

theorem words_dropWhile (s : Str) (h : ArgStr s) : words (s.dropWhile pySpace) = words s := by
  induction s with
  | nil => rfl
  | cons c s ih =>
    rw [dropWhile_cons]
    split
    · rename_i hp
      have : c = ' ' := h.pySpace_eq (by simp) hp
      subst this
      rw [words_cons_ws s ' ' (by decide)]
      exact ih (fun x hx => h x (by simp [hx]))
    · rfl

theorem mem_takeWhile_imp' {α} {p : α → Bool} {l : List α} {x : α} (h : x ∈ l.takeWhile p) : p x = true ∧ x ∈ l := by
  induction l with
  | nil => simp at h
  | cons y l ih =>
    rw [takeWhile_cons] at h
    split at h
    · rcases mem_cons.mp h with rfl | h
      · exact ⟨by assumption, by simp⟩
      · exact ⟨(ih h).1, by simp [(ih h).2]⟩
    · simp at h

theorem words_dropTrailing (t : Str) (h : ArgStr t) : words (t.reverse.dropWhile pySpace).reverse = words t := by
  have hsplit := takeWhile_append_dropWhile (p := pySpace) (l := t.reverse)
  have ht : t = (t.reverse.dropWhile pySpace).reverse ++ (t.reverse.takeWhile pySpace).reverse := by
    have := congrArg reverse hsplit
    rw [reverse_append, reverse_reverse] at this
    exact this.symm
  have hblank : ∀ c ∈ (t.reverse.takeWhile pySpace).reverse, isWs c = true := by
    intro c hc
    have := mem_takeWhile_imp' (mem_reverse.mp hc)
    have hc' : c = ' ' := h.pySpace_eq (mem_reverse.mp this.2) this.1
    subst hc'; decide
  conv => rhs; rw [ht]
  rw [words_append_blank _ _ hblank]

theorem pyStrip_subset (s : Str) : ∀ c ∈ pyStrip s, c ∈ s := by
  intro c hc
  unfold pyStrip at hc
  have h1 := mem_reverse.mp hc
  have h2 := (dropWhile_sublist pySpace).subset h1
  have h3 := mem_reverse.mp h2
  exact (dropWhile_sublist pySpace).subset h3

theorem words_pyStrip (s : Str) (h : ArgStr s) : words (pyStrip s) = words s := by
  unfold pyStrip
  have h' : ArgStr (s.dropWhile pySpace) := h.of_subset (fun c hc => (dropWhile_sublist pySpace).subset hc)
  rw [words_dropTrailing _ h', words_dropWhile s h]

/-- the text of a templated argstr after `argstr_formatting`, re-tokenised -/
theorem splitCmd_cleanup (s : Str) (h : ArgStr s) : splitCmd (cleanup s) = .ok (words s) := by
  rw [cleanup_argStr s h, splitCmd_argStr _ (h.of_subset (pyStrip_subset s)), words_pyStrip s h]

/-! ### rendering templates -/

/-- every `{name}` of the argstr resolves to harmless text, every literal piece is harmless -/
def SafeSegs (env : Env) (segs : List Seg) : Prop :=
  ∀ seg ∈ segs, match seg with
    | .lit s => ArgStr s
    | .ref n => match env n with | some w => ArgStr w | none => False

instance (env : Env) (segs : List Seg) : Decidable (SafeSegs env segs) := by
  unfold SafeSegs
  refine @List.decidableBAll _ _ (fun seg => ?_) segs
  cases seg with
  | lit s => simp only; infer_instance
  | ref n => simp only; cases env n <;> simp only <;> infer_instance

theorem renderSegs_safe (env : Env) (segs : List Seg) (h : SafeSegs env segs) :
    renderSegs env segs = .ok (Spec.subst env segs) ∧ ArgStr (Spec.subst env segs) := by
  induction segs with
  | nil => exact ⟨rfl, fun c hc => by simp [Spec.subst] at hc⟩
  | cons seg segs ih =>
    obtain ⟨i1, i2⟩ := ih (fun s hs => h s (by simp [hs]))
    have hseg := h seg (by simp)
    cases seg with
    | lit s =>
      simp only at hseg
      exact ⟨by simp [renderSegs, i1, Spec.subst], by simpa [Spec.subst] using hseg.append i2⟩
    | ref n =>
      simp only at hseg
      cases hn : env n with
      | none => simp [hn] at hseg
      | some w =>
        simp only [hn] at hseg
        exact ⟨by simp [renderSegs, hn, i1, Spec.subst], by simpa [Spec.subst, hn] using hseg.append i2⟩

theorem litText_argStr (env : Env) (segs : List Seg) (h : SafeSegs env segs) : ArgStr (litText segs) := by
  induction segs with
  | nil => intro c hc; simp [litText] at hc
  | cons seg segs ih =>
    have i := ih (fun s hs => h s (by simp [hs]))
    have hseg := h seg (by simp)
    cases seg with
    | lit s => simp only at hseg; simpa [litText] using hseg.append i
    | ref n => simpa [litText] using i

/-- `argstr_formatting` on a harmless argstr -/
theorem argstrFormatting_safe (env : Env) (name : Str) (v : Str) (segs : List Seg) (h : SafeSegs (env.set name v) segs) :
    argstrFormatting env name v segs = .ok (cleanup (Spec.subst (env.set name v) segs))
    ∧ ArgStr (Spec.subst (env.set name v) segs) := by
  obtain ⟨h1, h2⟩ := renderSegs_safe _ segs h
  exact ⟨by simp [argstrFormatting, h1], h2⟩

/-! ### scalars -/

def SafeScalar (x : Scalar) : Prop := x.render ≠ [] ∧ PlainStr x.render
instance (x : Scalar) : Decidable (SafeScalar x) := by unfold SafeScalar; infer_instance

theorem words_lit_value (lit v : Str) (hv : v ≠ []) (hp : PlainStr v) :
    words (lit ++ ' ' :: v) = words lit ++ [v] := by
  rw [words_append_ws _ _ ' ' (by decide), words_solid v hv hp.solid]

theorem formatScalar_spec (env : Env) (f : Field) (a : Argstr) (x : Scalar)
    (hsegs : SafeSegs (env.set f.name x.render) a.segs) (hx : SafeScalar x)
    (htruthy : a.templated = false → x.truthy = true) :
    formatScalar env f a x = .ok (Spec.scalarArgs env f.name a x) := by
  unfold formatScalar Spec.scalarArgs
  cases ht : a.templated with
  | true =>
    obtain ⟨h1, h2⟩ := argstrFormatting_safe env f.name x.render a.segs hsegs
    simp only [if_true, h1]
    exact splitCmd_cleanup _ h2
  | false =>
    simp only [Bool.false_eq_true, if_false, htruthy ht, if_true]
    rw [splitCmd_argStr _ ((litText_argStr _ _ hsegs).append (hx.2.argStr.cons_space)),
      words_lit_value _ _ hx.1 hx.2]

/-! ### lists -/

theorem joinWith_argStr (sep : Str) (hs : ArgStr sep) : ∀ parts : List Str, (∀ p ∈ parts, ArgStr p) →
    ArgStr (joinWith sep parts)
  | [], _ => fun c hc => by simp [joinWith] at hc
  | [a], h => by simpa [joinWith] using h a (by simp)
  | a :: b :: rest, h => by
    simp only [joinWith]
    exact ((h a (by simp)).append hs).append (joinWith_argStr sep hs (b :: rest) (fun p hp => h p (by simp [hp])))

theorem joinWith_ne_nil (sep : Str) : ∀ parts : List Str, parts ≠ [] → (∀ p ∈ parts, p ≠ []) → joinWith sep parts ≠ []
  | [], h, _ => absurd rfl h
  | [a], _, h => by simpa [joinWith] using h a (by simp)
  | a :: b :: rest, _, h => by
    simp only [joinWith]
    intro hh
    have := h a (by simp)
    simp at hh
    exact this hh.1

/-- parts that each begin with a blank, joined by a blank separator: the words of the parts -/
theorem words_joinWith_blank (sep : Str) (hs : ∀ c ∈ sep, isWs c = true) : ∀ parts : List Str,
    (∀ p ∈ parts, ∃ x, p = ' ' :: x) → words (joinWith sep parts) = parts.flatMap words
  | [], _ => by simp [joinWith, words, wordsAux]
  | [a], _ => by simp [joinWith]
  | a :: b :: rest, h => by
    have ih := words_joinWith_blank sep hs (b :: rest) (fun p hp => h p (by simp [hp]))
    obtain ⟨x, hx⟩ := h b (by simp)
    have hJ : ∃ J', joinWith sep (b :: rest) = ' ' :: J' := by
      subst hx
      cases rest with
      | nil => exact ⟨x, by simp [joinWith]⟩
      | cons r rest => exact ⟨x ++ (sep ++ joinWith sep (r :: rest)), by simp [joinWith]⟩
    obtain ⟨J', hJ'⟩ := hJ
    simp only [joinWith, flatMap_cons] at ih ⊢
    rw [hJ'] at ih ⊢
    rw [words_append_ws _ _ ' ' (by decide), words_append_blank _ _ hs]
    rw [words_cons_ws _ ' ' (by decide)] at ih
    rw [ih]

theorem formatEach_spec (env : Env) (name : Str) (segs : List Seg) : ∀ vs : List Scalar,
    (∀ x ∈ vs, SafeSegs (env.set name x.render) segs) →
    formatEach env name segs vs = .ok (vs.map (fun x => ' ' :: cleanup (Spec.subst (env.set name x.render) segs)))
  | [], _ => rfl
  | x :: vs, h => by
    have ih := formatEach_spec env name segs vs (fun y hy => h y (by simp [hy]))
    obtain ⟨h1, _⟩ := renderSegs_safe _ segs (h x (by simp))
    simp [formatEach, argstrFormatting, h1, ih]

theorem words_cleanup (s : Str) (h : ArgStr s) : words (cleanup s) = words s := by
  rw [cleanup_argStr s h, words_pyStrip s h]

theorem cleanup_argStr' (s : Str) (h : ArgStr s) : ArgStr (cleanup s) := by
  rw [cleanup_argStr s h]; exact h.of_subset (pyStrip_subset s)

/-- everything the per-field theorem needs to know about a definition and an assignment -/
structure SafeField (env : Env) (f : Field) (a : Argstr) (v : Value) : Prop where
  /-- the parsed argstr agrees with its raw text about being templated -/
  wf : a.raw.contains '{' = a.templated
  sep : ArgStr f.sep
  vals : match v with
    | .unset => True
    | .one x => SafeScalar x ∧ SafeSegs (env.set f.name x.render) a.segs
    | .many vs => (∀ x ∈ vs, SafeScalar x ∧ SafeSegs (env.set f.name x.render) a.segs)
                  ∧ (f.isMulti = true ∨ vs ≠ [])
                  ∧ SafeSegs (env.set f.name (joinWith f.sep (vs.map Scalar.render))) a.segs
  /-- excludes D41: no falsy value under a plain argstr -/
  truthy : a.templated = false → match v with
    | .unset => True
    | .one x => x.truthy = true
    | .many vs => f.isMulti = true → ∀ x ∈ vs, x.truthy = true
  /-- excludes D42: a `...` argstr only with a blank separator -/
  dotsSep : a.dots = true → f.isMulti = false → ∀ c ∈ f.sep, c = ' '

theorem flatMapE_spec (env : Env) (f : Field) (a : Argstr) : ∀ vs : List Scalar,
    (∀ x ∈ vs, SafeScalar x ∧ SafeSegs (env.set f.name x.render) a.segs) →
    (a.templated = false → ∀ x ∈ vs, x.truthy = true) →
    flatMapE (fun x => formatScalar env f a x) vs = .ok (vs.flatMap (Spec.scalarArgs env f.name a))
  | [], _, _ => rfl
  | x :: vs, h, ht => by
    have ih := flatMapE_spec env f a vs (fun y hy => h y (by simp [hy])) (fun hh y hy => ht hh y (by simp [hy]))
    have hx := h x (by simp)
    simp [flatMapE, formatScalar_spec env f a x hx.2 hx.1 (fun hh => ht hh x (by simp)), ih]

theorem flatMap_parts_templated (env : Env) (name : Str) (segs : List Seg) : ∀ vs : List Scalar,
    (∀ x ∈ vs, SafeSegs (env.set name x.render) segs) →
    (vs.map (fun x => ' ' :: cleanup (Spec.subst (env.set name x.render) segs))).flatMap words
      = vs.flatMap (fun x => words (Spec.subst (env.set name x.render) segs))
  | [], _ => rfl
  | x :: vs, h => by
    have ih := flatMap_parts_templated env name segs vs (fun y hy => h y (by simp [hy]))
    obtain ⟨_, h2⟩ := renderSegs_safe _ segs (h x (by simp))
    simp only [map_cons, flatMap_cons, ih, words_cons_ws _ ' ' (by decide), words_cleanup _ h2]

theorem flatMap_parts_plain (lit : Str) : ∀ vs : List Scalar, (∀ x ∈ vs, SafeScalar x) →
    (vs.map (fun x => ' ' :: (lit ++ ' ' :: x.render))).flatMap words
      = vs.flatMap (fun x => words lit ++ [x.render])
  | [], _ => rfl
  | x :: vs, h => by
    have ih := flatMap_parts_plain lit vs (fun y hy => h y (by simp [hy]))
    have hx := h x (by simp)
    simp only [map_cons, flatMap_cons, ih, words_cons_ws _ ' ' (by decide), words_lit_value _ _ hx.1 hx.2]

theorem formatMany_spec (env : Env) (f : Field) (a : Argstr) (vs : List Scalar)
    (hm : f.isMulti = false) (h : SafeField env f a (.many vs)) :
    formatMany env f a vs = .ok (Spec.manyArgs env f a vs) := by
  obtain ⟨hall, hne, hjoin⟩ := h.vals
  have hne' : vs ≠ [] := by
    rcases hne with h' | h'
    · rw [hm] at h'; exact absurd h' (by simp)
    · exact h'
  unfold formatMany Spec.manyArgs
  cases hd : a.dots with
  | true =>
    have hsep : ∀ c ∈ f.sep, isWs c = true := fun c hc => by rw [h.dotsSep hd hm c hc]; decide
    simp only [if_true, true_or]
    cases ht : a.templated with
    | true =>
      simp only [if_true]
      rw [formatEach_spec env f.name a.segs vs (fun x hx => (hall x hx).2)]
      simp only
      rw [splitCmd_argStr, words_joinWith_blank f.sep hsep, flatMap_parts_templated env f.name a.segs vs (fun x hx => (hall x hx).2)]
      · have hfun : Spec.scalarArgs env f.name a = fun x => words (Spec.subst (env.set f.name x.render) a.segs) := by
          funext x; simp [Spec.scalarArgs, ht]
        rw [hfun]
      · intro p hp
        obtain ⟨x, _, rfl⟩ := mem_map.mp hp
        exact ⟨_, rfl⟩
      · apply joinWith_argStr f.sep h.sep
        intro p hp
        obtain ⟨x, hx, rfl⟩ := mem_map.mp hp
        obtain ⟨_, h2⟩ := renderSegs_safe _ a.segs (hall x hx).2
        exact (cleanup_argStr' _ h2).cons_space
    | false =>
      simp only [Bool.false_eq_true, if_false]
      have hlit : ArgStr (litText a.segs) := by
        obtain ⟨x, hx⟩ := exists_mem_of_ne_nil vs hne'
        exact litText_argStr _ _ (hall x hx).2
      rw [splitCmd_argStr, words_joinWith_blank f.sep hsep, flatMap_parts_plain (litText a.segs) vs (fun x hx => (hall x hx).1)]
      · have hfun : Spec.scalarArgs env f.name a = fun x => words (litText a.segs) ++ [x.render] := by
          funext x; simp [Spec.scalarArgs, ht]
        rw [hfun]
      · intro p hp
        obtain ⟨x, _, rfl⟩ := mem_map.mp hp
        exact ⟨_, rfl⟩
      · apply joinWith_argStr f.sep h.sep
        intro p hp
        obtain ⟨x, hx, rfl⟩ := mem_map.mp hp
        exact (hlit.append ((hall x hx).1.2.argStr.cons_space)).cons_space
  | false =>
    simp only [hm, Bool.false_eq_true, if_false, or_self]
    have hjoined : ArgStr (joinWith f.sep (vs.map Scalar.render)) := by
      apply joinWith_argStr f.sep h.sep
      intro p hp
      obtain ⟨x, hx, rfl⟩ := mem_map.mp hp
      exact (hall x hx).1.2.argStr
    cases ht : a.templated with
    | true =>
      simp only [if_true]
      obtain ⟨h1, h2⟩ := argstrFormatting_safe env f.name _ a.segs hjoin
      simp only [h1]
      exact splitCmd_cleanup _ h2
    | false =>
      simp only [Bool.false_eq_true, if_false]
      have hjne : joinWith f.sep (vs.map Scalar.render) ≠ [] := by
        apply joinWith_ne_nil
        · simpa using hne'
        · intro p hp
          obtain ⟨x, hx, rfl⟩ := mem_map.mp hp
          exact (hall x hx).1.1
      have : (!(joinWith f.sep (vs.map Scalar.render)).isEmpty) = true := by
        cases hj : joinWith f.sep (vs.map Scalar.render) with
        | nil => exact absurd hj hjne
        | cons _ _ => rfl
      simp only [this, if_true]
      rw [splitCmd_argStr _ ((litText_argStr _ _ hjoin).append hjoined.cons_space),
        words_append_ws _ _ ' ' (by decide)]

/-- PER-FIELD REFINEMENT: on a harmless definition and assignment the arguments the code produces for a
    field are the documented ones. -/
theorem fieldArgs_spec (env : Env) (f : Field) (a : Argstr) (v : Value) (h : SafeField env f a v) :
    fieldArgs env f a v = .ok (Spec.fieldArgs env f a v) := by
  unfold fieldArgs Spec.fieldArgs
  rw [h.wf]
  by_cases hb : f.isBool = true ∧ ¬ a.templated = true
  · simp only [hb, not_false_eq_true, and_self, if_true]
    cases v with
    | unset => rfl
    | many vs => rfl
    | one x =>
      cases x with
      | bool b => cases b <;> rfl
      | _ => rfl
  · simp only [hb, if_false]
    have htr : a.templated = false → ¬ (f.isBool = true) ∨ True := fun _ => Or.inr trivial
    cases v with
    | unset => cases f.isMulti <;> rfl
    | one x =>
      have hv := h.vals
      simp only at hv
      have := formatScalar_spec env f a x hv.2 hv.1 (fun ht => by have := h.truthy ht; simpa using this)
      cases hm : f.isMulti <;> simp [formatArg, this]
    | many vs =>
      cases hm : f.isMulti with
      | true =>
        have hv := h.vals
        simp only at hv
        simp only [if_true]
        rw [flatMapE_spec env f a vs hv.1 (fun ht => by have := h.truthy ht; simpa using this hm)]
        simp [Spec.manyArgs, hm]
      | false =>
        simp only [Bool.false_eq_true, if_false, formatArg]
        exact formatMany_spec env f a vs hm h

end PydraModel.Argv
