import PydraModel.Argv.ShlexLemmas
/-
C23 core: a run of shlex-inert characters placed anywhere in a string that `shlex.split` accepts
comes out contiguous inside one token, whatever precedes and follows it (quotes left open by the
prefix, a dangling backslash, …) — and `split_cmd`'s quote stripping keeps it as well.
-/
namespace PydraModel.Argv

/-- `e` occurs contiguously in the token being read or in one of the later tokens. -/
def Holds (e : Str) (r : Str × List Str) : Prop := e <:+: r.1 ∨ ∃ t ∈ r.2, e <:+: t

theorem holds_of_map {e : Str} {f : Str × List Str → Str × List Str}
    (hf : ∀ r', Holds e r' → Holds e (f r')) (x : Except Err (Str × List Str))
    (ih : ∀ r', x = .ok r' → Holds e r') : ∀ r, x.map f = .ok r → Holds e r := by
  intro r h
  cases x with
  | error _ => simp at h
  | ok r' => simp at h; rw [← h]; exact hf r' (ih r' rfl)

theorem holds_cons (e : Str) (c : Char) : ∀ r', Holds e r' → Holds e (c :: r'.1, r'.2) := by
  intro r' h
  rcases h with h | h
  · exact Or.inl (List.infix_cons h)
  · exact Or.inr h

theorem holds_cons2 (e : Str) (b c : Char) : ∀ r', Holds e r' → Holds e (b :: c :: r'.1, r'.2) := by
  intro r' h
  rcases h with h | h
  · exact Or.inl (List.infix_cons (List.infix_cons h))
  · exact Or.inr h

theorem holds_start (e : Str) : ∀ r', Holds e r' → Holds e ([], r'.1 :: r'.2) := by
  intro r' h
  rcases h with h | ⟨t, ht, h⟩
  · exact Or.inr ⟨r'.1, by simp, h⟩
  · exact Or.inr ⟨t, by simp [ht], h⟩

theorem holds_start_cons (e : Str) (c : Char) : ∀ r', Holds e r' → Holds e ([], (c :: r'.1) :: r'.2) := by
  intro r' h
  rcases h with h | ⟨t, ht, h⟩
  · exact Or.inr ⟨c :: r'.1, by simp, List.infix_cons h⟩
  · exact Or.inr ⟨t, by simp [ht], h⟩

/-- copying inside double quotes: anything but `"` and `\` -/
theorem lex_dq_copy (e rest : Str) (he : ∀ c ∈ e, c ≠ '"' ∧ c ≠ '\\') :
    lex .dq (e ++ rest) = (lex .dq rest).map (fun r => (e ++ r.1, r.2)) := by
  induction e with
  | nil => simp; exact (emap_id' _ _ (fun _ => rfl)).symm
  | cons c e ih =>
    have hc := he c (by simp)
    simp only [List.cons_append, lex, hc.1, hc.2, if_false]
    rw [ih (fun x hx => he x (by simp [hx])), emap_map]; rfl

/-- copying inside single quotes without looking for the closing quote -/
theorem lex_sq_copy' (e rest : Str) (he : ∀ c ∈ e, c ≠ '\'') :
    lex .sq (e ++ rest) = (lex .sq rest).map (fun r => (e ++ r.1, r.2)) := by
  induction e with
  | nil => simp; exact (emap_id' _ _ (fun _ => rfl)).symm
  | cons c e ih =>
    have hc := he c (by simp)
    simp only [List.cons_append, lex, hc, if_false]
    rw [ih (fun x hx => he x (by simp [hx])), emap_map]; rfl

/-- Base case: the automaton is about to read `e` (in any state). -/
theorem lex_inert_here (e post : Str) (hne : e ≠ []) (he : ∀ c ∈ e, inertChar c = true) :
    ∀ (st : St) (r : Str × List Str), lex st (e ++ post) = .ok r → Holds e r := by
  intro st r h
  obtain ⟨c, e', rfl⟩ := List.exists_cons_of_ne_nil hne
  have hc := (inertChar_iff c).mp (he c (by simp))
  have he' : ∀ x ∈ e', inertChar x = true := fun x hx => he x (by simp [hx])
  have hsq : ∀ x ∈ c :: e', x ≠ '\'' := fun x hx => ((inertChar_iff x).mp (he x hx)).2.1
  have hdq : ∀ x ∈ c :: e', x ≠ '"' ∧ x ≠ '\\' := fun x hx =>
    ⟨((inertChar_iff x).mp (he x hx)).2.2.1, ((inertChar_iff x).mp (he x hx)).2.2.2⟩
  cases st
  · rw [lex_ws_inert c e' post he] at h
    cases hx : lex .word post <;> simp [hx] at h
    rename_i a
    rw [← h]; exact Or.inr ⟨c :: (e' ++ a.1), by simp, by simpa using (List.prefix_append (c :: e') a.1).isInfix⟩
  · rw [lex_word_inert (c :: e') post he] at h
    cases hx : lex .word post <;> simp [hx] at h
    rw [← h]; exact Or.inl (List.prefix_append _ _ |>.isInfix)
  · rw [lex_sq_copy' (c :: e') post hsq] at h
    cases hx : lex .sq post <;> simp [hx] at h
    rw [← h]; exact Or.inl (List.prefix_append _ _ |>.isInfix)
  · rw [lex_dq_copy (c :: e') post hdq] at h
    cases hx : lex .dq post <;> simp [hx] at h
    rw [← h]; exact Or.inl (List.prefix_append _ _ |>.isInfix)
  · simp only [List.cons_append, lex] at h
    rw [lex_word_inert e' post he'] at h
    cases hx : lex .word post <;> simp [hx] at h
    rw [← h]; exact Or.inl (by simpa using (List.prefix_append (c :: e') _).isInfix)
  · simp only [List.cons_append, lex, hc.2.2.1, hc.2.2.2, or_self, if_false] at h
    rw [lex_dq_copy e' post (fun x hx => hdq x (by simp [hx]))] at h
    cases hx : lex .dq post <;> simp [hx] at h
    rw [← h]
    refine Or.inl (List.infix_cons ?_)
    simpa using (List.prefix_append (c :: e') _).isInfix

/-- Whatever precedes and follows, in whatever state: if `shlex` accepts the text, the inert run `e`
    is found contiguous in one token. -/
theorem lex_inert_survives (e post : Str) (hne : e ≠ []) (he : ∀ c ∈ e, inertChar c = true) :
    ∀ (pre : Str) (st : St) (r : Str × List Str), lex st (pre ++ (e ++ post)) = .ok r → Holds e r := by
  intro pre
  induction pre with
  | nil => intro st r h; exact lex_inert_here e post hne he st r h
  | cons c pre ih =>
    intro st r h
    simp only [List.cons_append] at h
    cases st <;> simp only [lex] at h
    · -- ws
      split at h
      · exact ih _ _ h
      · split at h
        · exact holds_of_map (holds_start e) _ (ih _) r h
        · split at h
          · exact holds_of_map (holds_start e) _ (ih _) r h
          · split at h
            · exact holds_of_map (holds_start e) _ (ih _) r h
            · exact holds_of_map (holds_start_cons e c) _ (ih _) r h
    · -- word
      split at h
      · cases hx : lex .ws (pre ++ (e ++ post)) with
        | error _ => simp [hx] at h
        | ok r' =>
          simp [hx] at h
          have h1 := ih _ r' hx
          have h2 := lex_ws_fst _ r' hx
          rw [← h]
          rcases h1 with h1 | h1
          · rw [h2] at h1
            exact absurd (List.infix_nil.mp h1) hne
          · exact Or.inr h1
      · split at h
        · exact ih _ _ h
        · split at h
          · exact ih _ _ h
          · split at h
            · exact ih _ _ h
            · exact holds_of_map (holds_cons e c) _ (ih _) r h
    · split at h
      · exact ih _ _ h
      · exact holds_of_map (holds_cons e c) _ (ih _) r h
    · split at h
      · exact ih _ _ h
      · split at h
        · exact ih _ _ h
        · exact holds_of_map (holds_cons e c) _ (ih _) r h
    · exact holds_of_map (holds_cons e c) _ (ih _) r h
    · split at h
      · exact holds_of_map (holds_cons e c) _ (ih _) r h
      · exact holds_of_map (holds_cons2 e '\\' c) _ (ih _) r h

end PydraModel.Argv
