import PydraModel.Argv.FillLemmas
/-
From the loop of `_command_args` to `executable ++ (fields in documented order) ++ append_args`.
-/
namespace PydraModel.Argv
open List

abbrev Triple := Field × Int × Value

/-- the same zipping as `bindAll`, without packing -/
def triples : List Field → List Int → List Value → List Triple
  | f :: fs, p :: ps, v :: vs => (f, p, v) :: triples fs ps vs
  | _, _, _ => []

def Triple.toBound (t : Triple) : Bound := ⟨t.1, some t.2.1, t.2.2⟩
def Triple.live (t : Triple) : Bool := t.toBound.live

theorem bindAll_eq (fs : List Field) (ps : List Int) (vs : List Value) :
    bindAll fs ps vs = (triples fs ps vs).map Triple.toBound := by
  induction fs generalizing ps vs with
  | nil => simp [bindAll, triples]
  | cons f fs ih =>
    cases ps with
    | nil => simp [bindAll, triples]
    | cons p ps =>
      cases vs with
      | nil => simp [bindAll, triples]
      | cons v vs => simp [bindAll, triples, ih, Triple.toBound]

/-- what the slot filling means for the zipped fields -/
theorem triples_fill : ∀ (fs : List Field) (stack filled : List Int) (vs : List Value),
    fillPositions (fs.map (·.position)) stack = .ok filled → vs.length = fs.length →
    (∀ t ∈ triples fs filled vs, ∀ p, t.1.position = some p → t.2.1 = p)
    ∧ (((triples fs filled vs).filter (fun t => t.1.position.isNone)).map (·.2.1)) <+: stack
    ∧ (triples fs filled vs).map (·.2.1) = filled := by
  intro fs
  induction fs with
  | nil => intro stack filled vs h _; simp [fillPositions] at h; subst h; simp [triples]
  | cons f fs ih =>
    intro stack filled vs h hl
    cases vs with
    | nil => simp at hl
    | cons v vs =>
      have hl' : vs.length = fs.length := by simpa using hl
      simp only [map_cons] at h
      cases hp : f.position with
      | some p =>
        rw [hp] at h
        simp only [fillPositions] at h
        cases hr : fillPositions (fs.map (·.position)) stack with
        | error _ => simp [hr] at h
        | ok r =>
          simp [hr] at h; subst h
          obtain ⟨i1, i2, i3⟩ := ih stack r vs hr hl'
          refine ⟨?_, ?_, ?_⟩
          · intro t ht q hq
            simp only [triples, mem_cons] at ht
            rcases ht with rfl | ht
            · simp [hp] at hq; simp [hq]
            · exact i1 t ht q hq
          · simpa [triples, filter_cons, hp] using i2
          · simp [triples, i3]
      | none =>
        rw [hp] at h
        cases stack with
        | nil => simp [fillPositions] at h
        | cons s stack =>
          simp only [fillPositions] at h
          cases hr : fillPositions (fs.map (·.position)) stack with
          | error _ => simp [hr] at h
          | ok r =>
            simp [hr] at h; subst h
            obtain ⟨i1, i2, i3⟩ := ih stack r vs hr hl'
            refine ⟨?_, ?_, ?_⟩
            · intro t ht q hq
              simp only [triples, mem_cons] at ht
              rcases ht with rfl | ht
              · simp [hp] at hq
              · exact i1 t ht q hq
            · simp only [triples, filter_cons, hp, Option.isNone_none, if_true, map_cons]
              exact (prefix_cons_inj s).mpr i2
            · simp [triples, i3]

/-- the loop of `_command_args` when no position is used twice and every field can be formatted -/
theorem buildEntries_ok (env : Env) (g : Bound → List Str) : ∀ (bs : List Bound) (prov : List Int),
    (∀ b ∈ bs, b.live = true → ∃ a p, b.fld.argstr = some a ∧ b.pos = some p ∧ fieldArgs env b.fld a b.val = .ok (g b)) →
    ((bs.filter (·.live)).filterMap (·.pos)).Nodup →
    (∀ p ∈ prov, p ∉ (bs.filter (·.live)).filterMap (·.pos)) →
    buildEntries env prov bs = .ok ((bs.filter (·.live)).map (fun b => (b.pos, g b))) := by
  intro bs
  induction bs with
  | nil => intro prov _ _ _; simp [buildEntries]
  | cons b bs ih =>
    intro prov hall hnd hprov
    by_cases hl : b.live = true
    · obtain ⟨a, p, ha, hp, hf⟩ := hall b (by simp) hl
      simp only [filter_cons, hl, if_true, filterMap_cons, hp, nodup_cons] at hnd hprov
      have hpp : prov.contains p = false := by
        cases hc : prov.contains p with
        | false => rfl
        | true => exact absurd (by simp) (hprov p (by simpa using hc))
      simp only [buildEntries, ha, hl, hp, hpp, hf, filter_cons, if_true, map_cons]
      rw [ih (p :: prov) (fun b' hb' => hall b' (by simp [hb'])) hnd.2 ?_]
      · simp [hp]
      · intro q hq
        rcases mem_cons.mp hq with rfl | hq
        · exact hnd.1
        · exact fun hh => hprov q hq (by simp [hh])
    · have hl' : b.live = false := by simpa using hl
      simp only [filter_cons, hl', Bool.false_eq_true, if_false] at hnd hprov ⊢
      have : buildEntries env prov (b :: bs) = buildEntries env prov bs := by
        simp only [buildEntries, hl']
        cases b.fld.argstr <;> rfl
      rw [this]
      exact ih prov (fun b' hb' => hall b' (by simp [hb'])) hnd hprov

/-! the executable stays in front -/

theorem isortFrom_head {α} (a : Int × α) : ∀ (l acc : List (Int × α)), (∀ e ∈ l, a.1 < e.1) →
    isortFrom (a :: acc) l = a :: isortFrom acc l := by
  intro l
  induction l with
  | nil => intro acc _; simp [isortFrom]
  | cons e l ih =>
    intro acc h
    have he : ¬ e.1 < a.1 := by have := h e (by simp); omega
    simp only [isortFrom, foldl_cons, insortR, he, if_false]
    exact ih (insortR e acc) (fun x hx => h x (by simp [hx]))

theorem positionSort_exe {α} (x : α) (es : List (Option Int × α)) (h : ∀ e ∈ es, e.1 ≠ some 0) :
    positionSort ((some 0, x) :: es) = x :: positionSort es := by
  rw [positionSort_eq, positionSort_eq]
  have h1 : nonnegOf ((some (0 : Int), x) :: es) = (0, x) :: nonnegOf es := by simp [nonnegOf]
  have h2 : negOf ((some (0 : Int), x) :: es) = negOf es := by simp [negOf]
  have h3 : noneOf ((some (0 : Int), x) :: es) = noneOf es := by simp [noneOf]
  rw [h1, h2, h3]
  have : isortL ((0, x) :: nonnegOf es) = (0, x) :: isortL (nonnegOf es) := by
    simp only [isortL, isortFrom, foldl_cons, insortR]
    apply isortFrom_head
    intro e he
    simp only [nonnegOf, mem_filterMap] at he
    obtain ⟨⟨p, y⟩, hm, hy⟩ := he
    cases p with
    | none => simp at hy
    | some p =>
      simp only at hy
      split at hy
      · simp at hy
      · rename_i hp
        simp at hy
        have := h _ hm
        simp at this
        rw [← hy]; simp; omega
  rw [this]; simp

/-- `specEntries` in terms of the zipped fields -/
theorem specEntries_eq (env : Env) : ∀ (fs : List Field) (filled : List Int) (vs : List Value),
    filled.length = fs.length → vs.length = fs.length →
    Spec.specEntries env fs vs =
      ((triples fs filled vs).filter Triple.live).filterMap
        (fun t => t.1.argstr.map (fun a => (t.1.position, Spec.fieldArgs env t.1 a t.2.2))) := by
  intro fs
  induction fs with
  | nil => intro filled vs _ _; cases vs <;> simp [Spec.specEntries, triples]
  | cons f fs ih =>
    intro filled vs h1 h2
    cases filled with
    | nil => simp at h1
    | cons p filled =>
      cases vs with
      | nil => simp at h2
      | cons v vs =>
        have ih' := ih filled vs (by simpa using h1) (by simpa using h2)
        have hlive : Triple.live (f, p, v) = Spec.isSet f v := rfl
        simp only [Spec.specEntries, triples, filter_cons, hlive]
        cases ha : f.argstr with
        | none =>
          have : Spec.isSet f v = false := by simp [Spec.isSet, ha]
          simp [this, ih']
        | some a =>
          cases hs : Spec.isSet f v with
          | false => simp [ih']
          | true => simp [ih', ha]

theorem envOf_indep : ∀ (fs : List Field) (ps ps' : List Int) (vs : List Value),
    ps.length = fs.length → ps'.length = fs.length →
    envOf (bindAll fs ps vs) = envOf (bindAll fs ps' vs) := by
  intro fs
  induction fs with
  | nil => intro ps ps' vs _ _; simp [bindAll]
  | cons f fs ih =>
    intro ps ps' vs h h'
    cases ps with
    | nil => simp at h
    | cons p ps =>
      cases ps' with
      | nil => simp at h'
      | cons p' ps' =>
        cases vs with
        | nil => simp [bindAll]
        | cons v vs =>
          have ih' := ih ps ps' vs (by simpa using h) (by simpa using h')
          funext n
          have ihn := congrFun ih' n
          simp only [envOf, bindAll, find?_cons] at ihn ⊢
          cases hn : (f.name == n) with
          | true => rfl
          | false => exact ihn

end PydraModel.Argv
