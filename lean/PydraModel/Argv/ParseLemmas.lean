import PydraModel.Argv.FieldLemmas
/-
`parseArgstr` ties the argstr text a user writes to the segment list the theorems speak about:
the segments render back to the text (minus the `...` the code removes), literal pieces are brace-free,
and "templated" on segments is `"{" in argstr` on the text.
-/
namespace PydraModel.Argv
open List

def Seg.isRef : Seg → Bool
  | .ref _ => true
  | .lit _ => false

theorem templated_eq (a : Argstr) : a.templated = a.segs.any Seg.isRef := by
  unfold Argstr.templated
  congr

/-- ROUND TRIP at the level of `parseSegs` (any state of the scanner). -/
theorem parseSegs_unparse : ∀ (s cur : Str) (st : Option Str) (segs : List Seg),
    parseSegs cur st s = .ok segs →
    unparse segs = (match st with | none => cur.reverse ++ s | some nm => '{' :: (nm.reverse ++ s)) := by
  intro s
  induction s with
  | nil =>
    intro cur st segs h
    cases st with
    | none =>
      simp only [parseSegs] at h
      cases hc : cur.isEmpty with
      | true =>
        simp [hc] at h; subst h
        have : cur = [] := by simpa using hc
        simp [unparse, this]
      | false => simp [hc] at h; subst h; simp [unparse]
    | some nm => simp [parseSegs] at h
  | cons c cs ih =>
    intro cur st segs h
    cases st with
    | none =>
      simp only [parseSegs] at h
      split at h
      · rename_i hc
        subst hc
        cases hx : parseSegs [] (some []) cs with
        | error _ => simp [hx] at h
        | ok r =>
          simp [hx] at h
          have := ih [] (some []) r hx
          simp only [reverse_nil, nil_append] at this
          by_cases hce : cur = []
          · simp [hce] at h; subst h; simp [hce, *]
          · simp [hce] at h; subst h; simp [unparse, *]
      · split at h
        · simp at h
        · have := ih (c :: cur) none segs h
          simpa using this
    | some nm =>
      simp only [parseSegs] at h
      split at h
      · rename_i hc
        subst hc
        split at h
        · simp at h
        · cases hx : parseSegs [] none cs with
          | error _ => simp [hx] at h
          | ok r =>
            simp [hx] at h; subst h
            have := ih [] none r hx
            simp only [reverse_nil, nil_append] at this
            simp [unparse, this]
      · split at h
        · simp at h
        · split at h
          · have := ih cur (some (c :: nm)) segs h
            simpa using this
          · simp at h

/-- literal pieces are non-empty, brace-free and made of characters of the text; keys are non-empty and brace-free -/
theorem parseSegs_pieces : ∀ (s cur : Str) (st : Option Str) (segs : List Seg),
    parseSegs cur st s = .ok segs → ('{' ∉ cur ∧ '}' ∉ cur) →
    (match st with | none => True | some nm => '{' ∉ nm ∧ '}' ∉ nm) →
    (∀ l, Seg.lit l ∈ segs → l ≠ [] ∧ '{' ∉ l ∧ '}' ∉ l ∧ ∀ c ∈ l, c ∈ cur ∨ c ∈ s)
    ∧ (∀ n, Seg.ref n ∈ segs → n ≠ [] ∧ '{' ∉ n ∧ '}' ∉ n) := by
  intro s
  induction s with
  | nil =>
    intro cur st segs h hcur _
    cases st with
    | none =>
      simp only [parseSegs] at h
      cases hc : cur.isEmpty with
      | true => simp [hc] at h; subst h; simp
      | false =>
        simp [hc] at h; subst h
        have hne : cur ≠ [] := by intro hh; simp [hh] at hc
        refine ⟨?_, by simp⟩
        intro l hl
        simp only [mem_singleton, Seg.lit.injEq] at hl
        subst hl
        exact ⟨by simpa using hne, by simpa using hcur.1, by simpa using hcur.2, fun c hc' => Or.inl (by simpa using hc')⟩
    | some nm => simp [parseSegs] at h
  | cons c cs ih =>
    intro cur st segs h hcur hst
    cases st with
    | none =>
      simp only [parseSegs] at h
      split at h
      · rename_i hc
        subst hc
        cases hx : parseSegs [] (some []) cs with
        | error _ => simp [hx] at h
        | ok r =>
          simp [hx] at h
          obtain ⟨i1, i2⟩ := ih [] (some []) r hx (by simp) (by simp)
          by_cases hce : cur = []
          · simp [hce] at h; subst h
            exact ⟨fun l hl => by
              obtain ⟨a, b, c', d⟩ := i1 l hl
              exact ⟨a, b, c', fun x hx' => by rcases d x hx' with h' | h'; simp at h'; exact Or.inr (by simp [h'])⟩, i2⟩
          · simp [hce] at h; subst h
            have hne : cur ≠ [] := hce
            refine ⟨?_, fun n hn => i2 n (by simpa using hn)⟩
            intro l hl
            simp only [mem_cons, Seg.lit.injEq] at hl
            rcases hl with rfl | hl
            · exact ⟨by simpa using hne, by simpa using hcur.1, by simpa using hcur.2, fun x hx' => Or.inl (by simpa using hx')⟩
            · obtain ⟨a, b, c', d⟩ := i1 l hl
              exact ⟨a, b, c', fun x hx' => by rcases d x hx' with h' | h'; simp at h'; exact Or.inr (by simp [h'])⟩
      · rename_i hc1
        split at h
        · simp at h
        · rename_i hc2
          obtain ⟨i1, i2⟩ := ih (c :: cur) none segs h
            ⟨by simp [hcur.1]; exact fun hh => hc1 hh.symm, by simp [hcur.2]; exact fun hh => hc2 hh.symm⟩ trivial
          refine ⟨fun l hl => ?_, i2⟩
          obtain ⟨a, b, c', d⟩ := i1 l hl
          refine ⟨a, b, c', fun x hx' => ?_⟩
          rcases d x hx' with h' | h'
          · rcases mem_cons.mp h' with rfl | h''
            · exact Or.inr (by simp)
            · exact Or.inl h''
          · exact Or.inr (by simp [h'])
    | some nm =>
      simp only [parseSegs] at h
      split at h
      · rename_i hc
        subst hc
        split at h
        · simp at h
        · rename_i hne
          cases hx : parseSegs [] none cs with
          | error _ => simp [hx] at h
          | ok r =>
            simp [hx] at h; subst h
            obtain ⟨i1, i2⟩ := ih [] none r hx (by simp) trivial
            refine ⟨fun l hl => ?_, fun n hn => ?_⟩
            · obtain ⟨a, b, c', d⟩ := i1 l (by simpa using hl)
              exact ⟨a, b, c', fun x hx' => by rcases d x hx' with h' | h'; simp at h'; exact Or.inr (by simp [h'])⟩
            · simp only [mem_cons, Seg.ref.injEq] at hn
              rcases hn with rfl | hn
              · refine ⟨?_, by simpa using hst.1, by simpa using hst.2⟩
                intro hh; apply hne; simpa using hh
              · exact i2 n hn
      · rename_i hc1
        split at h
        · simp at h
        · rename_i hc2
          split at h
          · obtain ⟨i1, i2⟩ := ih cur (some (c :: nm)) segs h hcur
              ⟨by simp [hst.1]; exact fun hh => hc2 hh.symm, by simp [hst.2]; exact fun hh => hc1 hh.symm⟩
            refine ⟨fun l hl => ?_, i2⟩
            obtain ⟨a, b, c', d⟩ := i1 l hl
            exact ⟨a, b, c', fun x hx' => by rcases d x hx' with h' | h'; exact Or.inl h'; exact Or.inr (by simp [h'])⟩
          · simp at h

theorem unparse_brace (segs : List Seg) (hl : ∀ l, Seg.lit l ∈ segs → '{' ∉ l) :
    '{' ∈ unparse segs ↔ segs.any Seg.isRef = true := by
  induction segs with
  | nil => simp [unparse]
  | cons seg segs ih =>
    have ih' := ih (fun l h => hl l (by simp [h]))
    cases seg with
    | lit s =>
      have := hl s (by simp)
      simp [unparse, this, ih', Seg.isRef]
    | ref n => simp [unparse, Seg.isRef]

/-! ### `...` removal only touches dots -/

theorem removeDotsGo_mem (c : Char) (hc : c ≠ '.') : ∀ (s : Str) (k : Nat), c ∈ removeDotsGo k s ↔ c ∈ s := by
  intro s
  induction s with
  | nil => intro k; simp [removeDotsGo, hc]
  | cons x xs ih =>
    intro k
    simp only [removeDotsGo]
    split
    · rename_i hx
      subst hx
      split <;> simp [ih, hc]
    · simp [ih, hc]

theorem removeDotsGo_subset : ∀ (s : Str) (k : Nat), ∀ c ∈ removeDotsGo k s, c ∈ s ∨ (c = '.' ∧ 0 < k) := by
  intro s
  induction s with
  | nil =>
    intro k c hc
    simp only [removeDotsGo, mem_replicate] at hc
    exact Or.inr ⟨hc.2, by omega⟩
  | cons x xs ih =>
    intro k c hc
    simp only [removeDotsGo] at hc
    split at hc
    · rename_i hx
      subst hx
      split at hc
      · rcases ih 0 c hc with h | h
        · exact Or.inl (by simp [h])
        · omega
      · rcases ih (k + 1) c hc with h | h
        · exact Or.inl (by simp [h])
        · exact Or.inl (by simp [h.1])
    · simp only [mem_append, mem_replicate, mem_cons] at hc
      rcases hc with h | h | h
      · exact Or.inr ⟨h.2, by omega⟩
      · exact Or.inl (by simp [h])
      · rcases ih 0 c h with h' | h'
        · exact Or.inl (by simp [h'])
        · omega

theorem removeDots_subset (s : Str) : ∀ c ∈ removeDots s, c ∈ s := by
  intro c hc
  rcases removeDotsGo_subset s 0 c hc with h | h
  · exact h
  · omega

/-! ### `parseArgstr` -/

theorem parseArgstr_ok {raw : Str} {a : Argstr} (h : parseArgstr raw = .ok a) :
    ∃ segs, parseSegs [] none (removeDots raw) = .ok segs ∧ a = ⟨raw, endsWithDots raw, segs⟩ := by
  unfold parseArgstr at h
  cases hx : parseSegs [] none (removeDots raw) with
  | error _ => simp [hx] at h
  | ok segs => simp [hx] at h; exact ⟨segs, rfl, h.symm⟩

/-- ROUND TRIP: the segments render back to the argstr text with its `...` removed -/
theorem parseArgstr_unparse {raw : Str} {a : Argstr} (h : parseArgstr raw = .ok a) :
    a.raw = raw ∧ a.dots = endsWithDots raw ∧ unparse a.segs = removeDots raw := by
  obtain ⟨segs, hs, rfl⟩ := parseArgstr_ok h
  refine ⟨rfl, rfl, ?_⟩
  simpa using parseSegs_unparse _ [] none segs hs

/-- "templated" on the segments is `"{" in argstr` on the text (the `wf` hypothesis of `SafeField`) -/
theorem parseArgstr_wf {raw : Str} {a : Argstr} (h : parseArgstr raw = .ok a) :
    a.raw.contains '{' = a.templated := by
  obtain ⟨segs, hs, rfl⟩ := parseArgstr_ok h
  have hu := parseSegs_unparse _ [] none segs hs
  obtain ⟨hl, _⟩ := parseSegs_pieces _ [] none segs hs (by simp) trivial
  simp only [reverse_nil, nil_append] at hu
  have h1 := unparse_brace segs (fun l hl' => (hl l hl').2.1)
  rw [hu, removeDots, removeDotsGo_mem '{' (by decide)] at h1
  rw [templated_eq]
  cases hb : segs.any Seg.isRef with
  | true => simpa using h1.mpr hb
  | false =>
    have : '{' ∉ raw := fun hh => by have := h1.mp hh; rw [hb] at this; exact absurd this (by simp)
    simpa using this

/-- every literal piece is non-empty, brace-free text of the argstr; every key is non-empty and brace-free -/
theorem parseArgstr_pieces {raw : Str} {a : Argstr} (h : parseArgstr raw = .ok a) :
    (∀ l, Seg.lit l ∈ a.segs → l ≠ [] ∧ '{' ∉ l ∧ '}' ∉ l ∧ ∀ c ∈ l, c ∈ raw)
    ∧ (∀ n, Seg.ref n ∈ a.segs → n ≠ [] ∧ '{' ∉ n ∧ '}' ∉ n) := by
  obtain ⟨segs, hs, rfl⟩ := parseArgstr_ok h
  obtain ⟨hl, hr⟩ := parseSegs_pieces _ [] none segs hs (by simp) trivial
  refine ⟨fun l hl' => ?_, hr⟩
  obtain ⟨a, b, c, d⟩ := hl l hl'
  refine ⟨a, b, c, fun x hx => ?_⟩
  rcases d x hx with h' | h'
  · simp at h'
  · exact removeDots_subset raw x h'

/-- harmless argstr text: plain characters, spaces, and the braces of references -/
def TextOK (raw : Str) : Prop := ∀ c ∈ raw, argChar c = true ∨ c = '{' ∨ c = '}'
instance (raw : Str) : Decidable (TextOK raw) := by unfold TextOK; infer_instance

/-- every `{key}` of the argstr resolves to harmless text -/
def SafeRefs (env : Env) (segs : List Seg) : Prop :=
  ∀ n, Seg.ref n ∈ segs → match env n with | some w => ArgStr w | none => False

theorem safeSegs_of_text {raw : Str} {a : Argstr} (h : parseArgstr raw = .ok a) (ht : TextOK raw)
    (env : Env) (hr : SafeRefs env a.segs) : SafeSegs env a.segs := by
  obtain ⟨hl, _⟩ := parseArgstr_pieces h
  intro seg hseg
  cases seg with
  | lit l =>
    simp only
    obtain ⟨_, b, c, d⟩ := hl l hseg
    intro x hx
    rcases ht x (d x hx) with h' | rfl | rfl
    · exact h'
    · exact absurd hx b
    · exact absurd hx c
  | ref n => exact hr n hseg

end PydraModel.Argv

namespace PydraModel.Argv
open List

/-- completeness on brace-free text: a plain argstr is one literal piece (none when empty) -/
theorem parseSegs_plain : ∀ (s cur : Str), '{' ∉ s → '}' ∉ s →
    parseSegs cur none s = .ok (if (cur.reverse ++ s).isEmpty then [] else [.lit (cur.reverse ++ s)]) := by
  intro s
  induction s with
  | nil => intro cur _ _; simp [parseSegs]
  | cons c cs ih =>
    intro cur h1 h2
    have c1 : c ≠ '{' := fun h => h1 (by simp [h])
    have c2 : c ≠ '}' := fun h => h2 (by simp [h])
    simp only [parseSegs, c1, c2, if_false]
    rw [ih (c :: cur) (fun h => h1 (by simp [h])) (fun h => h2 (by simp [h]))]
    simp

theorem parseArgstr_plain (raw : Str) (h1 : '{' ∉ raw) (h2 : '}' ∉ raw) :
    parseArgstr raw = .ok ⟨raw, endsWithDots raw,
      if (removeDots raw).isEmpty then [] else [.lit (removeDots raw)]⟩ := by
  unfold parseArgstr
  rw [parseSegs_plain _ [] (fun h => h1 (removeDots_subset raw _ h)) (fun h => h2 (removeDots_subset raw _ h))]
  simp

/-- everything `C22_commandArgs_partial` needs to know about one field, stated on the argstr TEXT -/
structure SafeFieldText (env : Env) (f : Field) (raw : Str) (a : Argstr) (v : Value) : Prop where
  parsed : parseArgstr raw = .ok a
  text : TextOK raw
  sep : ArgStr f.sep
  vals : match v with
    | .unset => True
    | .one x => SafeScalar x ∧ SafeRefs (env.set f.name x.render) a.segs
    | .many vs => (∀ x ∈ vs, SafeScalar x ∧ SafeRefs (env.set f.name x.render) a.segs)
                  ∧ (f.isMulti = true ∨ vs ≠ [])
                  ∧ SafeRefs (env.set f.name (joinWith f.sep (vs.map Scalar.render))) a.segs
  truthy : a.templated = false → match v with
    | .unset => True
    | .one x => x.truthy = true
    | .many vs => f.isMulti = true → ∀ x ∈ vs, x.truthy = true
  dotsSep : a.dots = true → f.isMulti = false → ∀ c ∈ f.sep, c = ' '

theorem SafeFieldText.toSafeField {env : Env} {f : Field} {raw : Str} {a : Argstr} {v : Value}
    (h : SafeFieldText env f raw a v) : SafeField env f a v := by
  cases v with
  | unset =>
    exact ⟨parseArgstr_wf h.parsed, h.sep, trivial, fun _ => trivial, h.dotsSep⟩
  | one x =>
    have hv := h.vals
    exact ⟨parseArgstr_wf h.parsed, h.sep, ⟨hv.1, safeSegs_of_text h.parsed h.text _ hv.2⟩,
      fun ht => h.truthy ht, h.dotsSep⟩
  | many vs =>
    have hv := h.vals
    exact ⟨parseArgstr_wf h.parsed, h.sep,
      ⟨fun x hx => ⟨(hv.1 x hx).1, safeSegs_of_text h.parsed h.text _ (hv.1 x hx).2⟩, hv.2.1,
        safeSegs_of_text h.parsed h.text _ hv.2.2⟩,
      fun ht => h.truthy ht, h.dotsSep⟩

end PydraModel.Argv
