import PydraModel.Typing.Static6
/-
C21 over the whole pattern grammar, part 3: the induction and the MultiInputObj retry of `check_type`.
-/
namespace PydraModel.Typing

/-! ### static inversions for the remaining pattern shapes -/

/-- pattern `o[p]` with one argument, `o` neither a mapping nor a tuple (includes MultiInputObj[p] and the sets) -/
theorem expandCheck_gen1_inv {o : Cls} {p S : Ty} (hnm : issub o .Mapping = false) (hnt : issub o .tuple = false)
    (h : expandCheck (.gen o [p]) S = .ok ()) :
    ∃ o' as, S.srcOf = some (o', as) ∧ coercibleStatic (.cls o') o = true ∧ ∀ s ∈ as, expandCheck p s = .ok () := by
  unfold expandCheck at h
  cases S with
  | cls a => cases h
  | any => cases h
  | union l => cases h
  | gen o' targs =>
    simp only [hnm, hnt, Bool.false_eq_true, ↓reduceIte] at h
    split at h
    · cases h
    · rename_i hc
      exact ⟨o', targs, rfl, by simpa using hc, forAllR_ok h⟩
  | tupleVar t' =>
    simp only [hnm, hnt, Bool.false_eq_true, ↓reduceIte] at h
    split at h
    · cases h
    · rename_i hc
      refine ⟨.tuple, [t'], rfl, by simpa using hc, ?_⟩
      intro s hs
      simp only [List.mem_singleton] at hs
      subst hs; exact h

/-- mapping pattern `o[kp, vp]` -/
theorem expandCheck_map_inv {o : Cls} {kp vp S : Ty} (hm : issub o .Mapping = true)
    (h : expandCheck (.gen o [kp, vp]) S = .ok ()) :
    ∃ o' kt vt, S = .gen o' [kt, vt] ∧ coercibleStatic (.cls o') o = true ∧
      expandCheck kp kt = .ok () ∧ expandCheck vp vt = .ok () := by
  unfold expandCheck at h
  cases S with
  | cls a => cases h
  | any => cases h
  | union l => cases h
  | gen o' targs =>
    simp only [hm, ↓reduceIte] at h
    split at h
    · cases h
    · rename_i hc
      match targs, h with
      | [kt, vt], h =>
        simp only at h
        split at h
        · cases h
        · rename_i u hk
          cases u
          exact ⟨o', kt, vt, rfl, by simpa using hc, hk, h⟩
      | [], h => cases h
      | [_], h => cases h
      | _ :: _ :: _ :: _, h => cases h
  | tupleVar t' =>
    simp only [hm, ↓reduceIte] at h
    split at h
    · cases h
    · cases h

/-- a standard value conforming to a mapping source type is a dict whose keys / values conform -/
theorem conforms_map_shape {o' : Cls} {kt vt : Ty} {v : V} (hom : issub o' .Mapping = true)
    (hc : conforms (.gen o' [kt, vt]) v = true) (hv : v.std = true)
    (hst : hit pbStrict pgStrict (.gen o' [kt, vt]) v = false) :
    ∃ ks vs, v = .map .dict ks vs ∧ V.stdL ks = true ∧ V.stdL vs = true ∧ issub .dict o' = true ∧
      (∀ x ∈ ks, conforms kt x = true ∧ hit pbStrict pgStrict kt x = false) ∧
      (∀ x ∈ vs, conforms vt x = true ∧ hit pbStrict pgStrict vt x = false) := by
  obtain ⟨hnt, hmio⟩ := mapping_not_tuple_mio hom
  unfold conforms at hc
  unfold hit at hst
  simp only [hmio, Bool.false_eq_true, ↓reduceIte, Bool.and_eq_true, Bool.or_eq_false_iff, isInstance, hnt] at hc hst
  cases v with
  | atom c p =>
    exfalso
    have hsb : isStrBytes c = false := hst.1
    have hit' : issub c .Iterable = true := issub_trans hc.1 (issub_trans hom (by decide))
    have := atom_iterable_strbytes hv hit'
    rw [hsb] at this; cases this
  | seq c l =>
    exfalso
    have := hc.2
    simp at this
  | map c ks vs =>
    simp only [V.std, Bool.and_eq_true, beq_iff_eq] at hv
    have hcd : c = .dict := hv.1.1
    subst hcd
    simp only [elems_map, vals, cls_map, Bool.and_eq_true] at hc hst
    refine ⟨ks, vs, rfl, hv.1.2, hv.2, hc.1, ?_, ?_⟩
    · exact all_any_mem hc.2.1 hst.2.1
    · exact all_any_mem hc.2.2 hst.2.2

/-! ### building `type_(items)` -/

theorem setLike_isSet {c : Cls} (h : stdSeqClasses.contains c = true) :
    (isSetCls c = true ∧ ctorKind c = .setLike) ∨ (isSetCls c = false ∧ ctorKind c = .seqLike) := by
  have h0 : (!(stdSeqClasses.contains c) || ((isSetCls c && ctorKind c == .setLike) || (!(isSetCls c) && ctorKind c == .seqLike))) = true :=
    forall_cls (P := fun c => !(stdSeqClasses.contains c) || ((isSetCls c && ctorKind c == .setLike) || (!(isSetCls c) && ctorKind c == .seqLike)))
      (by decide) c
  rw [h] at h0
  cases h1 : isSetCls c <;> cases h2 : (ctorKind c == .setLike) <;> cases h3 : (ctorKind c == .seqLike) <;> simp_all

/-- non-mapping generic origin: `type_` exists, is not a mapping, and is list/tuple-like, or set-like with a
    `hashTy` item pattern (outside the exclusions) -/
theorem genType_build_okX (sac : Bool) {oT o' : Cls} {n : Nat} {args : List Ty} {v : V}
    (hg : genOK oT n = true) (hnm : issub oT .Mapping = false)
    (hstd : isStdValueCls v.cls = true) (hsub : issub v.cls (effCls o') = true) (hsb : isStrBytes v.cls = false)
    (hcls : stdSeqClasses.contains v.cls = true ∨ v.cls = .dict)
    (hcs : coercibleStatic (.cls o') oT = true) (hex : pgEx21x oT args v = false) :
    ∃ type_, genType (cfgOf sac) oT v = .ok type_ ∧ issub type_ .Mapping = false ∧
      (ctorKind type_ = .seqLike ∨ (ctorKind type_ = .setLike ∧ elemHashOK args = true)) := by
  have hstep := C21_tables_static_dynamic sac v.cls o' oT hstd hsub (by rw [hsb]; rfl) hcs
  unfold genType
  unfold pgEx21x setBuild at hex
  simp only [Bool.or_eq_false_iff] at hex
  obtain ⟨⟨⟨hex1, hex2⟩, hex3⟩, _⟩ := hex
  by_cases hi : isInstance v oT = true
  · simp only [hi, ↓reduceIte]
    rcases hcls with hc | hc
    · rcases setLike_isSet hc with ⟨hs, hk⟩ | ⟨hs, hk⟩
      · rw [hi, hs] at hex3
        have hh : elemHashOK args = true := by
          cases he : elemHashOK args with
          | true => rfl
          | false => rw [he] at hex3; simp at hex3
        have hm : issub v.cls .Mapping = false := by
          have h0 : (!(stdSeqClasses.contains v.cls) || !(issub v.cls .Mapping)) = true :=
            forall_cls (P := fun c => !(stdSeqClasses.contains c) || !(issub c .Mapping)) (by decide) v.cls
          rw [hc] at h0; simpa using h0
        exact ⟨v.cls, rfl, hm, Or.inr ⟨hk, hh⟩⟩
      · obtain ⟨h1, h2⟩ := stdSeq_seqLike hc hs
        exact ⟨v.cls, rfl, h2, Or.inl h1⟩
    · exfalso
      rw [hi, hc, hnm] at hex2
      revert hex2; decide
  · have hi' : isInstance v oT = false := by simpa using hi
    have hco : coercibleRT (cfgOf sac) v.cls oT = true := by
      rcases hstep with h | h
      · unfold isInstance at hi'; rw [hi'] at h; cases h
      · exact h
    simp only [hi', Bool.false_eq_true, ↓reduceIte, hco]
    rw [hi'] at hex1 hex3
    rcases nonmap_origin_ctor hg hnm with hk | hk | hk
    · exact ⟨oT, rfl, hnm, Or.inl hk⟩
    · rw [hk] at hex3
      have hh : elemHashOK args = true := by
        cases he : elemHashOK args with
        | true => rfl
        | false => rw [he] at hex3; simp at hex3
      exact ⟨oT, rfl, hnm, Or.inr ⟨hk, hh⟩⟩
    · exfalso; rw [hk] at hex1; simp at hex1

/-- `seqBody` with items that are each accepted or arity-rejected -/
theorem OkAr_seqBodyX (cfg : Cfg) {type_ : Cls} {p : Ty} {xs : List V} (hp : p.wf = true) (hsx : V.stdL xs = true)
    (hk : ctorKind type_ = .seqLike ∨ (ctorKind type_ = .setLike ∧ hashTy p = true))
    (h : ∀ x ∈ xs, OkAr (coerce cfg p x)) : OkAr (seqBody type_ (coerce cfg p) xs) := by
  unfold seqBody
  rcases mapM'_OkAr h with ⟨ys, hys⟩ | he
  · rw [hys]; simp only
    rcases hk with hk | ⟨hk, hh⟩
    · rw [build_seqLike_ok ys hk]; exact OkAr_ok _
    · have hhash : hashableL ys = true := by
        apply hashableL_of_forall
        intro y hy
        obtain ⟨x, hx, hfx⟩ := (mapM'_ok hys).2 y hy
        exact coerce_hashable cfg p x y hp hh (stdL_mem hsx hx) hfx
      unfold build construct
      simp only [hk, iter_seq, hhash, ↓reduceIte]
      exact OkAr_ok _
  · rw [he]; exact Or.inr rfl

/-! ### MultiInputObj -/

/-- the general path: the items were checked statically -/
theorem OkAr_multi_items {f : V → R V} {v : V} {xs : List V} (hxs : iter v = some xs) (hns : v.isStr = false)
    (hitems : ∀ x ∈ xs, OkAr (f x)) (hte : IsTypeErr (f v)) : OkAr (multiBody f v) := by
  unfold multiBody
  simp only [hns, Bool.false_eq_true, ↓reduceIte, hxs]
  rcases mapM'_OkAr hitems with ⟨ys, hys⟩ | he
  · simp only [hys]; exact OkAr_ok _
  · simp only [he]
    cases hr : f v with
    | ok y => exact OkAr_ok _
    | error e =>
      have := hte e hr
      cases e with
      | type ar2 => simp only [Bool.true_or]; exact Or.inr rfl
      | value => cases this
      | assertion => cases this
      | other n => cases this

/-- the retry path: the whole value was checked against the item type -/
theorem OkAr_multi_whole {f : V → R V} {v : V} (hwhole : OkAr (f v)) (hte : ∀ x ∈ elems v, IsTypeErr (f x)) :
    OkAr (multiBody f v) := by
  unfold multiBody
  split
  · rcases hwhole with ⟨y, hy⟩ | he
    · simp only [hy]; exact OkAr_ok _
    · simp only [he]; exact Or.inr rfl
  · simp only
    split
    · exact OkAr_ok _
    · rename_i ar1 hatt
      rcases hwhole with ⟨y, hy⟩ | he
      · simp only [hy]; exact OkAr_ok _
      · simp only [he, Bool.or_true]; exact Or.inr rfl
    · rename_i e hne hatt
      exfalso
      split at hatt
      · cases hatt; exact hne false rfl
      · rename_i xs hxs
        split at hatt
        · rename_i e' he
          cases hatt
          obtain ⟨x, hx', hfx⟩ := mapM'_err he
          have := hte x (by rw [elems_of_iter hxs]; exact hx') e hfx
          cases e <;> simp_all [Err.isType]
        · cases hatt

theorem coerceUnion_flagX (sac : Bool) : ∀ (l : List Ty) (v : V), Ty.wfL l = true →
    hitXAny (pbEx21 sac) pgEx21x pNoU l v = false → OkAr (coerceUnion (cfgOf sac) l v true)
  | [], _, _, _ => Or.inr rfl
  | a :: as, v, hw, h1 => by
    simp only [Ty.wfL_cons, Bool.and_eq_true] at hw
    simp only [hitXAny_cons, Bool.or_eq_false_iff] at h1
    simp only [coerceUnion]
    cases hr : coerce (cfgOf sac) a v with
    | ok r => exact OkAr_ok r
    | error e =>
      have := coerce_typeErrX sac a v hw.1 h1.1 e hr
      cases e with
      | type ar' => simp only [Bool.true_or]; exact coerceUnion_flagX sac as v hw.2 h1.2
      | value => cases this
      | assertion => cases this
      | other n => cases this

theorem not_isStr_of_strbytes {v : V} (h : isStrBytes v.cls = false) : v.isStr = false := by
  cases hs : v.isStr with
  | false => rfl
  | true =>
    unfold V.isStr at hs
    have := str_sub_only _ hs
    rw [this] at h
    revert h; decide

mutual
/-- C21 on every well-formed pattern -/
theorem c21_mainX (sac : Bool) : ∀ (T S : Ty) (v : V), T.wf = true → S.wf = true → S.anyFree = true →
    v.std = true → expandCheck T S = .ok () → conforms S v = true → hit pbStrict pgStrict S v = false →
    hitX (pbEx21 sac) pgEx21x pNoU T v = false → OkAr (coerce (cfgOf sac) T v)
  | .any, _, v, _, _, _, _, _, _, _, _ => by simp only [coerce]; exact OkAr_ok v
  | .cls c, S, v, _, _, haf, hv, hchk, hc, hst, hex => by
    simp only [expandCheck] at hchk
    simp only [hitX] at hex
    simp only [coerce]
    exact Or.inl (basic_step sac S c v hchk haf hc hv hst hex)
  | .union pargs, S, v, hT, hwf, haf, hv, hchk, hc, hst, hex => by
    simp only [Ty.wf] at hT
    simp only [hitX, pNoU, Bool.false_or] at hex
    simp only [coerce]
    cases S with
    | union targs =>
      simp only [expandCheck] at hchk
      simp only [Ty.wf] at hwf
      simp only [Ty.anyFree] at haf
      simp only [conforms] at hc
      simp only [hit] at hst
      obtain ⟨t, ht, h1, h2, h3, h4⟩ := conformsAny_pick targs v hc hst hwf haf
      have := forAllR_ok hchk t ht
      exact c21_unionX sac pargs t v false hT h3 h4 hv this h1 h2 hex
    | cls a =>
      simp only [expandCheck] at hchk
      exact c21_unionX sac pargs _ v false hT hwf haf hv hchk hc hst hex
    | any => simp [Ty.anyFree] at haf
    | gen o args =>
      simp only [expandCheck] at hchk
      exact c21_unionX sac pargs _ v false hT hwf haf hv hchk hc hst hex
    | tupleVar t =>
      simp only [expandCheck] at hchk
      exact c21_unionX sac pargs _ v false hT hwf haf hv hchk hc hst hex
  | .tupleVar p, S, v, hT, hwf, haf, hv, hchk, hc, hst, hex => by
    simp only [Ty.wf] at hT
    simp only [hitX, Bool.or_eq_false_iff] at hex
    obtain ⟨o', as, hsrc, hcs, hall⟩ := expandCheck_tvar_inv hchk
    obtain ⟨xs, hxs, hsx, hwas, hel, hsub, hsb, hcls, _⟩ := conforms_gen_shape hsrc hwf hc hv hst
    obtain ⟨type_, hty, hnm, hk⟩ := genType_build_okX sac (oT := .tuple) (n := 1) (args := [p]) (by decide) (by decide)
      (std_cls hv) hsub hsb hcls hcs hex.1
    have hafs := srcOf_anyFree hsrc haf
    simp only [coerce, hty, hxs]
    rw [elems_of_iter hxs] at hex
    apply OkAr_seqBodyX (cfgOf sac) hT hsx hk
    intro x hx
    obtain ⟨s, hs, h1, h2⟩ := hel x hx
    exact c21_mainX sac p s x hT (wfL_mem hwas hs) (anyFreeL_mem hafs hs) (stdL_mem hsx hx) (hall s hs) h1 h2
      (any_false_mem hex.2 hx)
  | .gen o args, S, v, hT, hwf, haf, hv, hchk, hc, hst, hex => by
    simp only [Ty.wf, Bool.and_eq_true] at hT
    unfold hitX at hex
    unfold coerce
    by_cases hmio : o = MIO
    · -- MultiInputObj[a], general path
      subst hmio
      have hlen := genOK_MIO hT.1
      cases args with
      | nil => simp at hlen
      | cons a rest =>
        cases rest with
        | cons q r => simp at hlen
        | nil =>
          simp only [Ty.wfL_cons, Ty.wfL_nil, Bool.and_true] at hT
          simp only [beq_self_eq_true, ↓reduceIte, Bool.or_eq_false_iff] at hex ⊢
          obtain ⟨o', as, hsrc, hcs, hall⟩ := expandCheck_gen1_inv (by decide) (by decide) hchk
          obtain ⟨xs, hxs, hsx, hwas, hel, hsub, hsb, hcls, _⟩ := conforms_gen_shape hsrc hwf hc hv hst
          have hafs := srcOf_anyFree hsrc haf
          rw [elems_of_iter hxs] at hex
          apply OkAr_multi_items hxs (not_isStr_of_strbytes hsb)
          · intro x hx
            obtain ⟨s, hs, h1, h2⟩ := hel x hx
            exact c21_mainX sac a s x hT.2 (wfL_mem hwas hs) (anyFreeL_mem hafs hs) (stdL_mem hsx hx) (hall s hs) h1 h2
              (any_false_mem hex.2 hx)
          · exact coerce_typeErrX sac a v hT.2 hex.1
    · have hmio' : (o == MIO) = false := by simpa using hmio
      simp only [hmio', Bool.false_eq_true, ↓reduceIte, Bool.or_eq_false_iff] at hex ⊢
      by_cases hom : issub o .Mapping = true
      · -- mapping pattern o[kp, vp]
        have hlen := (origin_len hT.1).1 hom
        obtain ⟨hnt, _⟩ := mapping_not_tuple_mio hom
        cases args with
        | nil => simp at hlen
        | cons kp rest =>
          cases rest with
          | nil => simp at hlen
          | cons vp rest2 =>
            cases rest2 with
            | cons q r => simp at hlen
            | nil =>
              simp only [Ty.wfL_cons, Ty.wfL_nil, Bool.and_true, Bool.and_eq_true] at hT
              simp only [hnt, Bool.false_eq_true, ↓reduceIte, Bool.or_eq_false_iff] at hex
              obtain ⟨o', kt, vt, rfl, hcs, hck, hcv⟩ := expandCheck_map_inv hom hchk
              have hom' := static_to_mapping hcs hom
              obtain ⟨ks, vs, rfl, hsk, hsv, hdo, hkk, hvv⟩ := conforms_map_shape hom' hc hv hst
              simp only [Ty.wf, Ty.wfL_cons, Ty.wfL_nil, Bool.and_true, Bool.and_eq_true] at hwf
              simp only [Ty.anyFree, Ty.anyFreeL_cons, Ty.anyFreeL_nil, Bool.and_true, Bool.and_eq_true] at haf
              simp only [elems_map, vals] at hex
              -- type_
              have hstep := C21_tables_static_dynamic sac .dict o' o (by decide)
                (by unfold effCls; rw [(mapping_not_tuple_mio hom').2]; exact hdo)
                (by have : isStrBytes Cls.dict = false := by decide
                    rw [this]; rfl) hcs
              have hexg := hex.1
              unfold pgEx21x setBuild at hexg
              simp only [Bool.or_eq_false_iff] at hexg
              obtain ⟨⟨⟨hex1, _⟩, _⟩, hex4⟩ := hexg
              have hkh : hashTy kp = true := by
                rw [hom] at hex4
                cases hh : hashTy kp with
                | true => rfl
                | false => simp [keyHashOK, hh] at hex4
              have hty : ∃ type_, genType (cfgOf sac) o (.map .dict ks vs) = .ok type_ ∧
                  issub type_ .Mapping = true ∧ ctorKind type_ = .dictLike := by
                unfold genType
                by_cases hi : isInstance (V.map .dict ks vs) o = true
                · simp only [hi, ↓reduceIte]
                  exact ⟨.dict, rfl, by decide, by decide⟩
                · have hi' : isInstance (V.map .dict ks vs) o = false := by simpa using hi
                  have hco : coercibleRT (cfgOf sac) .dict o = true := by
                    rcases hstep with h | h
                    · unfold isInstance at hi'; simp only [cls_map] at hi'; rw [hi'] at h; cases h
                    · exact h
                  simp only [hi', Bool.false_eq_true, ↓reduceIte, cls_map, hco]
                  rw [hi'] at hex1
                  rcases mapping_ctorKind o hom with hk | hk
                  · exact ⟨o, rfl, hom, hk⟩
                  · exfalso; rw [hk] at hex1; simp at hex1
              obtain ⟨type_, hty, htm, hkd⟩ := hty
              simp only [hty, htm, ↓reduceIte]
              unfold mapBody
              simp only
              have hko : ∀ x ∈ ks, OkAr (coerce (cfgOf sac) kp x) := fun x hx =>
                c21_mainX sac kp kt x hT.2.1 hwf.2.1 haf.1 (stdL_mem hsk hx) hck (hkk x hx).1 (hkk x hx).2
                  (any_false_mem hex.2.1 hx)
              have hvo : ∀ x ∈ vs, OkAr (coerce (cfgOf sac) vp x) := fun x hx =>
                c21_mainX sac vp vt x hT.2.2 hwf.2.2 haf.2 (stdL_mem hsv hx) hcv (hvv x hx).1 (hvv x hx).2
                  (any_false_mem hex.2.2 hx)
              rcases mapM'_OkAr hko with ⟨ks', hks'⟩ | he
              · simp only [hks']
                rcases mapM'_OkAr hvo with ⟨vs', hvs'⟩ | he
                · simp only [hvs']
                  have hhash : hashableL ks' = true := by
                    apply hashableL_of_forall
                    intro y hy
                    obtain ⟨x, hx, hfx⟩ := (mapM'_ok hks').2 y hy
                    exact coerce_hashable (cfgOf sac) kp x y hT.2.1 hkh (stdL_mem hsk hx) hfx
                  unfold buildMap
                  simp only [hhash, ↓reduceIte]
                  unfold construct
                  simp only [hkd]
                  exact OkAr_ok _
                · simp only [he]; exact Or.inr rfl
              · simp only [he]; exact Or.inr rfl
      · have hom' : issub o .Mapping = false := by simpa using hom
        by_cases htup : issub o .tuple = true
        · -- tuple[p1, .., pn]
          have hto := tuple_sub_only o htup
          subst hto
          simp only [htup, ↓reduceIte] at hex ⊢
          have hshape : ∃ o' as, S.srcOf = some (o', as) ∧ coercibleStatic (.cls o') .tuple = true := by
            rcases expandCheck_tuple_inv hchk with ⟨o', targs, rfl, hcs, _⟩ | ⟨t', rfl, _⟩
            · exact ⟨o', targs, rfl, hcs⟩
            · exact ⟨.tuple, [t'], rfl, by decide⟩
          obtain ⟨o', as, hsrc, hcs⟩ := hshape
          obtain ⟨xs, hxs, hsx, hwas, hel, hsub, hsb, hcls, hzip⟩ := conforms_gen_shape hsrc hwf hc hv hst
          obtain ⟨type_, hty, hnm, hk⟩ := genType_build_okX sac hT.1 hom' (std_cls hv) hsub hsb hcls hcs hex.1
          have htt : type_ = .tuple := tuple_sub_only type_ (genType_issub hty)
          subst htt
          have hk' : ctorKind Cls.tuple = .seqLike := rfl
          have hafs := srcOf_anyFree hsrc haf
          simp only [hty, hnm, Bool.false_eq_true, ↓reduceIte, hxs]
          rw [elems_of_iter hxs] at hex
          unfold tupleBody
          by_cases hl : args.length = xs.length
          · have hl' : (args.length != xs.length) = false := by simp [hl]
            simp only [hl', Bool.false_eq_true, ↓reduceIte]
            have hz : OkAr (coerceZip (cfgOf sac) args xs) := by
              rcases expandCheck_tuple_inv hchk with ⟨o'', targs, rfl, _, hbr⟩ | ⟨t', rfl, hap⟩
              · simp only [Ty.srcOf, Option.some.injEq, Prod.mk.injEq] at hsrc
                obtain ⟨rfl, rfl⟩ := hsrc
                rcases hbr with ⟨ht, hlen2, hcz⟩ | ⟨_, a, rfl, hap⟩
                · obtain ⟨hcz2, hhz⟩ := hzip ht rfl
                  exact c21_zipX sac args targs xs hT.2 hwas hafs hsx hcz hlen2 hcz2 hhz hex.2
                · have hwa : a.wf = true := wfL_mem hwas (by simp)
                  have haa : a.anyFree = true := anyFreeL_mem hafs (by simp)
                  refine c21_allpatX sac args a xs hT.2 hwa haa hsx hap hl ?_ hex.2
                  intro x hx
                  obtain ⟨s, hs, h1, h2⟩ := hel x hx
                  simp only [List.mem_singleton] at hs
                  subst hs; exact ⟨h1, h2⟩
              · simp only [Ty.srcOf, Option.some.injEq, Prod.mk.injEq] at hsrc
                obtain ⟨rfl, rfl⟩ := hsrc
                have hwa : t'.wf = true := wfL_mem hwas (by simp)
                have haa : t'.anyFree = true := anyFreeL_mem hafs (by simp)
                refine c21_allpatX sac args t' xs hT.2 hwa haa hsx hap hl ?_ hex.2
                intro x hx
                obtain ⟨s, hs, h1, h2⟩ := hel x hx
                simp only [List.mem_singleton] at hs
                subst hs; exact ⟨h1, h2⟩
            rcases hz with ⟨ys, hys⟩ | he
            · rw [hys]; simp only; rw [build_seqLike_ok ys hk']; exact OkAr_ok _
            · rw [he]; exact Or.inr rfl
          · have hl' : (args.length != xs.length) = true := by simp [hl]
            simp only [hl', ↓reduceIte]
            exact Or.inr rfl
        · -- o[p]: list / set / frozenset / abstract sequence, set and iterable origins
          have htup' : issub o .tuple = false := by simpa using htup
          have hlen := (origin_len hT.1).2 hom' htup'
          cases args with
          | nil => simp at hlen
          | cons p rest =>
            cases rest with
            | cons q r => simp at hlen
            | nil =>
              simp only [Ty.wfL_cons, Ty.wfL_nil, Bool.and_true] at hT
              simp only [htup', Bool.false_eq_true, ↓reduceIte] at hex ⊢
              obtain ⟨o', as, hsrc, hcs, hall⟩ := expandCheck_gen1_inv hom' htup' hchk
              obtain ⟨xs, hxs, hsx, hwas, hel, hsub, hsb, hcls, _⟩ := conforms_gen_shape hsrc hwf hc hv hst
              obtain ⟨type_, hty, hnm, hk⟩ := genType_build_okX sac hT.1 hom' (std_cls hv) hsub hsb hcls hcs hex.1
              have hafs := srcOf_anyFree hsrc haf
              simp only [hty, hnm, Bool.false_eq_true, ↓reduceIte, hxs]
              rw [elems_of_iter hxs] at hex
              apply OkAr_seqBodyX (cfgOf sac) hT.2 hsx hk
              intro x hx
              obtain ⟨s, hs, h1, h2⟩ := hel x hx
              exact c21_mainX sac p s x hT.2 (wfL_mem hwas hs) (anyFreeL_mem hafs hs) (stdL_mem hsx hx) (hall s hs) h1 h2
                (any_false_mem hex.2 hx)
termination_by T => sizeOf T
theorem c21_unionX (sac : Bool) : ∀ (pargs : List Ty) (S : Ty) (v : V) (ar : Bool), Ty.wfL pargs = true →
    S.wf = true → S.anyFree = true → v.std = true → checkUnionFirst pargs S = .ok () → conforms S v = true →
    hit pbStrict pgStrict S v = false → hitXAny (pbEx21 sac) pgEx21x pNoU pargs v = false →
    OkAr (coerceUnion (cfgOf sac) pargs v ar)
  | [], _, _, _, _, _, _, _, hchk, _, _, _ => by simp [checkUnionFirst, tErr] at hchk
  | p :: ps, S, v, ar, hT, hwf, haf, hv, hchk, hc, hst, hex => by
    simp only [Ty.wfL_cons, Bool.and_eq_true] at hT
    simp only [hitXAny_cons, Bool.or_eq_false_iff] at hex
    simp only [checkUnionFirst] at hchk
    simp only [coerceUnion]
    split at hchk
    · rename_i hp
      have := c21_mainX sac p S v hT.1 hwf haf hv hp hc hst hex.1
      rcases this with ⟨y, hy⟩ | he
      · rw [hy]; exact OkAr_ok y
      · rw [he]
        simp only [Bool.or_true]
        exact coerceUnion_flagX sac ps v hT.2 hex.2
    · cases hr : coerce (cfgOf sac) p v with
      | ok r => exact OkAr_ok r
      | error e =>
        have := coerce_typeErrX sac p v hT.1 hex.1 e hr
        cases e with
        | type ar' => exact c21_unionX sac ps S v _ hT.2 hwf haf hv hchk hc hst hex.2
        | value => cases this
        | assertion => cases this
        | other n => cases this
    · cases hchk
termination_by pargs => sizeOf pargs
theorem c21_zipX (sac : Bool) : ∀ (pargs targs : List Ty) (xs : List V), Ty.wfL pargs = true →
    Ty.wfL targs = true → Ty.anyFreeL targs = true → V.stdL xs = true → checkZip pargs targs = .ok () →
    pargs.length = targs.length → conformsZip targs xs = true → hitZip pbStrict pgStrict targs xs = false →
    hitXZip (pbEx21 sac) pgEx21x pNoU pargs xs = false → OkAr (coerceZip (cfgOf sac) pargs xs)
  | [], _, _, _, _, _, _, _, _, _, _, _ => by simp only [coerceZip]; exact OkAr_ok _
  | _ :: _, [], _, _, _, _, _, _, hl, _, _, _ => by simp at hl
  | _ :: _, _ :: _, [], _, _, _, _, _, _, hc, _, _ => by simp [conformsZip] at hc
  | p :: ps, t :: ts, x :: xs, hT, hwf, haf, hsx, hchk, hl, hc, hst, hex => by
    simp only [Ty.wfL_cons, Bool.and_eq_true] at hT hwf
    simp only [Ty.anyFreeL_cons, Bool.and_eq_true] at haf
    simp only [V.stdL_cons, Bool.and_eq_true] at hsx
    simp only [conformsZip, Bool.and_eq_true] at hc
    simp only [hitZip_cons, Bool.or_eq_false_iff] at hst
    simp only [hitXZip_cons, Bool.or_eq_false_iff] at hex
    simp only [checkZip] at hchk
    simp only [coerceZip]
    split at hchk
    · cases hchk
    · rename_i u hp
      cases u
      have h1 := c21_mainX sac p t x hT.1 hwf.1 haf.1 hsx.1 hp hc.1 hst.1 hex.1
      have h2 := c21_zipX sac ps ts xs hT.2 hwf.2 haf.2 hsx.2 hchk (by simpa using hl) hc.2 hst.2 hex.2
      rcases h1 with ⟨y, hy⟩ | he
      · rcases h2 with ⟨ys, hys⟩ | he2
        · simp only [hy, hys]; exact OkAr_ok _
        · simp only [hy, he2]; exact Or.inr rfl
      · simp only [he]; exact Or.inr rfl
termination_by pargs => sizeOf pargs
theorem c21_allpatX (sac : Bool) : ∀ (pargs : List Ty) (s : Ty) (xs : List V), Ty.wfL pargs = true →
    s.wf = true → s.anyFree = true → V.stdL xs = true → checkAllPat pargs s = .ok () →
    pargs.length = xs.length → (∀ x ∈ xs, conforms s x = true ∧ hit pbStrict pgStrict s x = false) →
    hitXZip (pbEx21 sac) pgEx21x pNoU pargs xs = false → OkAr (coerceZip (cfgOf sac) pargs xs)
  | [], _, _, _, _, _, _, _, _, _, _ => by simp only [coerceZip]; exact OkAr_ok _
  | _ :: _, _, [], _, _, _, _, _, hl, _, _ => by simp at hl
  | p :: ps, s, x :: xs, hT, hwf, haf, hsx, hchk, hl, hall, hex => by
    simp only [Ty.wfL_cons, Bool.and_eq_true] at hT
    simp only [V.stdL_cons, Bool.and_eq_true] at hsx
    simp only [hitXZip_cons, Bool.or_eq_false_iff] at hex
    simp only [checkAllPat] at hchk
    simp only [coerceZip]
    split at hchk
    · cases hchk
    · rename_i u hp
      cases u
      have hx := hall x (by simp)
      have h1 := c21_mainX sac p s x hT.1 hwf haf hsx.1 hp hx.1 hx.2 hex.1
      have h2 := c21_allpatX sac ps s xs hT.2 hwf haf hsx.2 hchk (by simpa using hl)
          (fun x' hx' => hall x' (by simp [hx'])) hex.2
      rcases h1 with ⟨y, hy⟩ | he
      · rcases h2 with ⟨ys, hys⟩ | he2
        · simp only [hy, hys]; exact OkAr_ok _
        · simp only [hy, he2]; exact Or.inr rfl
      · simp only [he]; exact Or.inr rfl
termination_by pargs => sizeOf pargs
end

end PydraModel.Typing
