import PydraModel.Typing.Sound
/-
C21: a connection accepted by `check_type` is honoured by `coerce` (tuple arity aside).
Part 1: helper lemmas (error kinds, class-level table lemma, shape of conforming values).
-/
namespace PydraModel.Typing

/-- the outcome allowed by C21: accepted, or rejected because of a fixed-length tuple arity mismatch -/
def OkAr {α} (r : R α) : Prop := (∃ y, r = .ok y) ∨ r = .error (.type true)

theorem OkAr_ok {α} (y : α) : OkAr (.ok y : R α) := Or.inl ⟨y, rfl⟩

/-! ### constructors raise TypeError only -/

theorem construct_err {tgt : Cls} {v : V} {e : Err} (h : construct tgt v = .error e) : e = .type false := by
  unfold construct at h
  cases hk : ctorKind tgt <;> simp only [hk] at h
  · split at h <;> cases h; rfl
  · split at h
    · split at h <;> cases h; rfl
    · cases h; rfl
  · split at h <;> cases h; rfl
  · split at h
    · split at h <;> cases h
    · cases h
  · split at h
    · cases h
    · split at h <;> cases h; rfl
    · cases h; rfl
  · split at h
    · split at h <;> cases h; rfl
    · cases h; rfl
  · split at h
    · split at h <;> cases h; rfl
    · cases h; rfl
  · split at h
    · split at h <;> cases h; rfl
    · cases h; rfl
  · split at h
    · split at h
      · cases h
      · split at h <;> cases h; rfl
    · cases h; rfl
  · split at h
    · split at h <;> cases h; rfl
    · split at h <;> cases h; rfl
    · cases h; rfl
  · cases h; rfl

theorem genType_err {cfg : Cfg} {o : Cls} {v : V} {e : Err} (h : genType cfg o v = .error e) : e = .type false := by
  unfold genType at h
  split at h
  · cases h
  · split at h <;> cases h; rfl

theorem mapM'_err {f : V → R V} : ∀ {xs : List V} {e : Err}, mapM' f xs = .error e → ∃ x ∈ xs, f x = .error e
  | [], e, h => by simp [mapM'] at h
  | x :: xs, e, h => by
    simp only [mapM'] at h
    split at h
    · rename_i e' he
      cases h
      exact ⟨x, by simp, he⟩
    · split at h
      · rename_i e' he
        cases h
        obtain ⟨x', hx', hf⟩ := mapM'_err he
        exact ⟨x', by simp [hx'], hf⟩
      · cases h

/-- `mapM'` over elements that are each accepted-or-arity-rejected -/
theorem mapM'_OkAr {f : V → R V} : ∀ {xs : List V}, (∀ x ∈ xs, OkAr (f x)) →
    (∃ ys, mapM' f xs = .ok ys) ∨ mapM' f xs = .error (.type true)
  | [], _ => Or.inl ⟨[], rfl⟩
  | x :: xs, h => by
    rcases h x (by simp) with ⟨y, hy⟩ | he
    · rcases mapM'_OkAr (xs := xs) (fun x' hx' => h x' (by simp [hx'])) with ⟨ys, hys⟩ | he
      · exact Or.inl ⟨y :: ys, by simp [mapM', hy, hys]⟩
      · exact Or.inr (by simp [mapM', hy, he])
    · exact Or.inr (by simp [mapM', he])

/-! ### class-level base case (regenerated tables) -/

def isStdValueCls (b : Cls) : Bool :=
  [Cls.NoneType, .bool, .int, .float, .str, .bytes, .PosixPath, .FieldInteger, .FieldDecimal, .FieldText, .FieldBoolean,
   .list, .tuple, .set, .frozenset, .dict].contains b

/-- the class a value conforming to a source type with origin/class `a` is an instance of -/
def effCls (a : Cls) : Cls := if a == MIO then .list else a

/-- STATIC ⇒ DYNAMIC at class level.  If `check_type_coercible(a, c)` passes (default flags) then every
    standard concrete class `b` below `a` — a str/bytes object only when `a` is exactly its class — is an
    instance of `c` or passes the run-time `check_type_coercible(b, c)`, with or without superclass_auto_cast. -/
theorem C21_tables_static_dynamic (sac : Bool) (b a c : Cls) (hb : isStdValueCls b = true)
    (hba : issub b (effCls a) = true) (hs : (isStrBytes b && a != b) = false)
    (hc : coercibleStatic (.cls a) c = true) :
    issub b c = true ∨ coercibleRT (cfgOf sac) b c = true := by
  have h0 : (!(isStdValueCls b && issub b (effCls a) && !(isStrBytes b && a != b))
      || Cls.all.all (fun c => !(coercibleStatic (.cls a) c) ||
          (issub b c || (coercibleRT (cfgOf true) b c && coercibleRT (cfgOf false) b c)))) = true :=
    forall_cls2 (P := fun b a => !(isStdValueCls b && issub b (effCls a) && !(isStrBytes b && a != b))
      || Cls.all.all (fun c => !(coercibleStatic (.cls a) c) ||
          (issub b c || (coercibleRT (cfgOf true) b c && coercibleRT (cfgOf false) b c)))) (by decide +kernel) b a
  rw [hb, hba, hs] at h0
  have h1 : (!(coercibleStatic (.cls a) c) ||
          (issub b c || (coercibleRT (cfgOf true) b c && coercibleRT (cfgOf false) b c))) = true :=
    forall_cls (P := fun c => !(coercibleStatic (.cls a) c) ||
          (issub b c || (coercibleRT (cfgOf true) b c && coercibleRT (cfgOf false) b c))) (by simpa using h0) c
  rw [hc] at h1
  cases h2 : issub b c
  · right
    rw [h2] at h1
    cases sac <;> simp_all
  · left; rfl

/-! ### shape of the restricted pattern grammar -/

theorem c21Origin_facts {o : Cls} (h : c21Origins.contains o = true) :
    (o == MIO) = false ∧ issub o .Mapping = false ∧ issub o .tuple = false ∧
    (ctorKind o = .noCtor ∨ o = .list) := by
  have h0 : (!(c21Origins.contains o) || (!(o == MIO) && !(issub o .Mapping) && !(issub o .tuple) &&
      (ctorKind o == .noCtor || o == .list))) = true :=
    forall_cls (P := fun o => !(c21Origins.contains o) || (!(o == MIO) && !(issub o .Mapping) && !(issub o .tuple) &&
      (ctorKind o == .noCtor || o == .list))) (by decide) o
  rw [h] at h0
  cases h1 : (o == MIO) <;> cases h2 : issub o .Mapping <;> cases h3 : issub o .tuple <;>
    cases h4 : (ctorKind o == .noCtor) <;> cases h5 : (o == Cls.list) <;> simp_all

theorem build_err {type_ : Cls} {ys : List V} {e : Err} (h : build type_ ys = .error e) : e = .type false :=
  construct_err h

theorem build_seqLike_ok {type_ : Cls} (ys : List V) (h : ctorKind type_ = .seqLike) :
    build type_ ys = .ok (.seq type_ ys) := by
  unfold build construct
  simp only [h, iter_seq]

/-- a pattern of the restricted grammar, at a position outside D25d, raises TypeError only -/
def IsTypeErr {α} (r : R α) : Prop := ∀ e, r = .error e → e.isType = true

theorem seqBody_typeErr {type_ : Cls} {f : V → R V} {xs : List V} (hf : ∀ x ∈ xs, IsTypeErr (f x)) :
    IsTypeErr (seqBody type_ f xs) := by
  intro e h
  unfold seqBody at h
  split at h
  · rename_i e' he
    cases h
    obtain ⟨x, hx, hfx⟩ := mapM'_err he
    exact hf x hx e hfx
  · rw [build_err h]; rfl

mutual
theorem coerce_typeErr (sac : Bool) : ∀ (t : Ty) (v : V), t.seqPat = true →
    hit (pbEx21 sac) pgEx21 t v = false → IsTypeErr (coerce (cfgOf sac) t v)
  | .any, v, _, _ => by intro e h; simp [coerce] at h
  | .cls c, v, _, _ => by
    intro e h
    simp only [coerce, coerceBasic] at h
    split at h
    · cases h
    · split at h
      · rw [construct_err h]; rfl
      · cases h; rfl
  | .union l, v, hw, h1 => by
    intro e h
    simp only [coerce] at h
    simp only [Ty.seqPat] at hw
    simp only [hit] at h1
    exact coerceUnion_typeErr sac l v false hw h1 e h
  | .tupleVar t, v, hw, h1 => by
    intro e h
    simp only [coerce] at h
    simp only [Ty.seqPat] at hw
    simp only [hit, Bool.or_eq_false_iff] at h1
    split at h
    · rename_i e' he
      cases h; rw [genType_err he]; rfl
    · split at h
      · cases h; rfl
      · rename_i xs hxs
        rw [elems_of_iter hxs] at h1
        exact seqBody_typeErr (fun x hx => coerce_typeErr sac t x hw (any_false_mem h1.2 hx)) e h
  | .gen o args, v, hw, h1 => by
    intro e h
    unfold coerce at h
    unfold hit at h1
    simp only [Ty.seqPat, Bool.and_eq_true, Bool.or_eq_true] at hw
    rcases hw with ⟨hor, hargs⟩
    rcases hor with ⟨hco, hlen⟩ | ⟨hto, hlen⟩
    · -- sequence-like origin, one argument
      obtain ⟨hmio, hnm, hnt, _⟩ := c21Origin_facts hco
      simp only [hmio, Bool.false_eq_true, ↓reduceIte, Bool.or_eq_false_iff, hnt] at h h1
      match args, hargs, hlen, h1, h with
      | [a], hargs, _, h1, h =>
        simp only [Ty.seqPatL_cons, Ty.seqPatL_nil, Bool.and_true] at hargs
        split at h
        · rename_i e' he
          cases h; rw [genType_err he]; rfl
        · rename_i type_ hty
          split at h
          · rename_i hmap
            exfalso
            rcases genType_ok hty with ⟨hi, rfl⟩ | ⟨_, _, rfl⟩
            · have := h1.1
              unfold pgEx21 at this
              rw [hi, hmap] at this
              simp at this
            · rw [hnm] at hmap; cases hmap
          · split at h
            · cases h; rfl
            · rename_i xs hxs
              rw [elems_of_iter hxs] at h1
              exact seqBody_typeErr (fun x hx => coerce_typeErr sac a x hargs (any_false_mem h1.2 hx)) e h
      | [], _, hlen, _, _ => simp at hlen
      | _ :: _ :: _, _, hlen, _, _ => simp at hlen
    · -- tuple
      have hto' : o = .tuple := by simpa using hto
      subst hto'
      have hmio : (Cls.tuple == MIO) = false := by decide
      have htt : issub Cls.tuple Cls.tuple = true := by decide
      simp only [hmio, Bool.false_eq_true, ↓reduceIte, Bool.or_eq_false_iff, htt] at h h1
      split at h
      · rename_i e' he
        cases h; rw [genType_err he]; rfl
      · rename_i type_ hty
        split at h
        · rename_i hmap
          exfalso
          have h3 := tuple_sub_only type_ (genType_issub hty)
          rw [h3, tuple_not_mapping] at hmap
          cases hmap
        · split at h
          · cases h; rfl
          · rename_i xs hxs
            rw [elems_of_iter hxs] at h1
            unfold tupleBody at h
            split at h
            · cases h; rfl
            · split at h
              · rename_i e' he
                cases h
                exact coerceZip_typeErr sac args xs hargs h1.2 e he
              · rw [build_err h]; rfl
theorem coerceUnion_typeErr (sac : Bool) : ∀ (l : List Ty) (v : V) (ar : Bool), Ty.seqPatL l = true →
    hitAny (pbEx21 sac) pgEx21 l v = false → IsTypeErr (coerceUnion (cfgOf sac) l v ar)
  | [], _, _, _, _ => by intro e h; simp only [coerceUnion] at h; cases h; rfl
  | a :: as, v, ar, hw, h1 => by
    intro e h
    simp only [coerceUnion] at h
    simp only [Ty.seqPatL_cons, Bool.and_eq_true] at hw
    simp only [hitAny_cons, Bool.or_eq_false_iff] at h1
    split at h
    · cases h
    · exact coerceUnion_typeErr sac as v _ hw.2 h1.2 e h
    · rename_i e' hne he
      cases h
      have := coerce_typeErr sac a v hw.1 h1.1 e he
      cases e <;> simp_all [Err.isType]
theorem coerceZip_typeErr (sac : Bool) : ∀ (l : List Ty) (xs : List V), Ty.seqPatL l = true →
    hitZip (pbEx21 sac) pgEx21 l xs = false → IsTypeErr (coerceZip (cfgOf sac) l xs)
  | [], _, _, _ => by intro e h; simp [coerceZip] at h
  | _ :: _, [], _, _ => by intro e h; simp [coerceZip] at h
  | a :: as, x :: xs, hw, h1 => by
    intro e h
    simp only [coerceZip] at h
    simp only [Ty.seqPatL_cons, Bool.and_eq_true] at hw
    simp only [hitZip_cons, Bool.or_eq_false_iff] at h1
    split at h
    · rename_i e' he
      cases h
      exact coerce_typeErr sac a x hw.1 h1.1 e he
    · split at h
      · rename_i e' he
        cases h
        exact coerceZip_typeErr sac as xs hw.2 h1.2 e he
      · cases h
end

end PydraModel.Typing
