import PydraModel.Typing.Defects
/-
Base-case lemmas over the class tables of Gen/TypeTables.lean (regenerated from the running interpreter on
every check).  Everything here is closed by `decide` over the finite class universe: a changed `issubclass`
entry, COERCIBLE_DEFAULT or NOT_COERCIBLE_DEFAULT row re-opens these lemmas.
-/
namespace PydraModel.Typing

theorem Cls.mem_all (c : Cls) : c ∈ Cls.all := by cases c <;> decide

/-- a property of every class follows from checking the finite list -/
theorem forall_cls {P : Cls → Bool} (h : Cls.all.all P = true) (c : Cls) : P c = true :=
  List.all_eq_true.mp h c (Cls.mem_all c)

theorem forall_cls2 {P : Cls → Cls → Bool} (h : Cls.all.all (fun a => Cls.all.all (P a)) = true) (a b : Cls) :
    P a b = true :=
  forall_cls (P := P a) (forall_cls (P := fun a => Cls.all.all (P a)) h a) b

/-- the parser with default tables -/
def cfgOf (sac : Bool) : Cfg := { sac := sac }

/-! ### issubclass -/

theorem issub_refl (c : Cls) : issub c c = true :=
  forall_cls (P := fun c => issub c c) (by decide) c

theorem issub_trans {a b c : Cls} (h1 : issub a b = true) (h2 : issub b c = true) : issub a c = true := by
  have h0 : (!(issub a b) || Cls.all.all (fun c => !(issub b c) || issub a c)) = true :=
    forall_cls2 (P := fun a b => !(issub a b) || Cls.all.all (fun c => !(issub b c) || issub a c)) (by decide) a b
  rw [h1] at h0
  have h3 : (!(issub b c) || issub a c) = true :=
    forall_cls (P := fun c => !(issub b c) || issub a c) (by simpa using h0) c
  rw [h2] at h3
  simpa using h3

/-! ### constructors return instances of their target -/

/-- the concrete class `construct tgt _` returns when it succeeds -/
def ctorResultCls (tgt : Cls) : Cls :=
  match ctorKind tgt with
  | .seqLike | .setLike | .dictLike => tgt
  | .strLike => .str
  | .bytesLike => .bytes
  | .floatLike => .float
  | .intLike => .int
  | .boolLike => .bool
  | .pathLike => .PosixPath
  | .fieldLike => tgt
  | .noCtor => tgt

theorem ctorResult_issub (tgt : Cls) : issub (ctorResultCls tgt) tgt = true :=
  forall_cls (P := fun t => issub (ctorResultCls t) t) (by decide) tgt

/-! ### shape facts used by the model's simplifications -/

/-- only `tuple` is a tuple among generic origins and value classes; tuples are never mappings -/
theorem tuple_sub_only (c : Cls) (h : issub c .tuple = true) : c = .tuple := by
  have h0 : (!(issub c .tuple) || c == .tuple) = true :=
    forall_cls (P := fun c => !(issub c .tuple) || c == .tuple) (by decide) c
  rw [h] at h0
  simpa using h0

theorem tuple_not_mapping : issub .tuple .Mapping = false := by decide

/-- the concrete classes values have -/
def isValueCls (c : Cls) : Bool :=
  seqValueClasses.contains c || c == .dict || [Cls.NoneType, .bool, .int, .float, .str, .bytes, .PosixPath].contains c

/-- classes of values that are mappings: only dict -/
theorem value_mapping_is_dict (c : Cls) (hv : isValueCls c = true) (h : issub c .Mapping = true) : c = .dict := by
  have h0 : (!(isValueCls c && issub c .Mapping) || c == .dict) = true :=
    forall_cls (P := fun c => !(isValueCls c && issub c .Mapping) || c == .dict) (by decide) c
  rw [hv, h] at h0
  simpa using h0

/-! ### D13: where a `str` can be expanded into its characters -/

def isGenOrigin (o : Cls) : Bool := seqOrigins.contains o || mapOrigins.contains o || o == .tuple

theorem genOK_isGenOrigin {o : Cls} {n : Nat} (hg : genOK o n = true) : isGenOrigin o = true := by
  unfold genOK at hg
  unfold isGenOrigin
  cases h1 : seqOrigins.contains o <;> cases h2 : mapOrigins.contains o <;> cases h3 : (o == Cls.tuple) <;>
    simp_all

/-- generic origins outside the D13 list neither count a `str` as an instance nor accept it by the tables
    (`superclass_auto_cast` on or off) -/
theorem C20_tables_strSafe_gen (sac : Bool) (o : Cls) (n : Nat) (hg : genOK o n = true)
    (hn : d13Origins.contains o = false) :
    issub .str o = false ∧ coercibleRT (cfgOf sac) .str o = false := by
  have h0 : (!(isGenOrigin o) || d13Origins.contains o
      || (!(issub .str o) && !(coercibleRT (cfgOf true) .str o) && !(coercibleRT (cfgOf false) .str o))) = true :=
    forall_cls (P := fun o => !(isGenOrigin o) || d13Origins.contains o
      || (!(issub .str o) && !(coercibleRT (cfgOf true) .str o) && !(coercibleRT (cfgOf false) .str o))) (by decide) o
  rw [genOK_isGenOrigin hg, hn] at h0
  cases h1 : issub .str o <;> cases h2 : coercibleRT (cfgOf true) .str o <;>
    cases h3 : coercibleRT (cfgOf false) .str o <;> cases sac <;> simp_all

/-- a bare class that accepts a `str` it is not an instance of either builds a path-like atom, cannot be
    constructed at all, is `str`, or is one of the D13 set classes -/
theorem C20_tables_strSafe_basic (sac : Bool) (c : Cls) (hc : coercibleRT (cfgOf sac) .str c = true) :
    ctorKind c = .pathLike ∨ ctorKind c = .noCtor ∨ ctorKind c = .strLike ∨ ctorKind c = .fieldLike ∨
      d13Basic.contains c = true := by
  have h0 : (!(coercibleRT (cfgOf true) .str c || coercibleRT (cfgOf false) .str c)
      || (ctorKind c == .pathLike || ctorKind c == .noCtor || ctorKind c == .strLike || ctorKind c == .fieldLike || d13Basic.contains c)) = true :=
    forall_cls (P := fun c => !(coercibleRT (cfgOf true) .str c || coercibleRT (cfgOf false) .str c)
      || (ctorKind c == .pathLike || ctorKind c == .noCtor || ctorKind c == .strLike || ctorKind c == .fieldLike || d13Basic.contains c)) (by decide) c
  have hc' : (coercibleRT (cfgOf true) .str c || coercibleRT (cfgOf false) .str c) = true := by
    cases sac <;> simp [hc]
  rw [hc'] at h0
  cases h1 : (ctorKind c == .pathLike) <;> cases h2 : (ctorKind c == .noCtor) <;>
    cases h3 : (ctorKind c == .strLike) <;> cases h5 : (ctorKind c == .fieldLike) <;> cases h4 : d13Basic.contains c <;> simp_all

/-- only `str` itself is a subclass of `str` -/
theorem str_sub_only (c : Cls) (h : issub c .str = true) : c = .str := by
  have h0 : (!(issub c .str) || c == .str) = true := forall_cls (P := fun c => !(issub c .str) || c == .str) (by decide) c
  rw [h] at h0
  simpa using h0

/-- every generic origin that counts a `str` as an instance is on the D13 list -/
theorem str_instance_origin (o : Cls) (n : Nat) (hg : genOK o n = true) (h : issub .str o = true) :
    d13Origins.contains o = true := by
  cases hn : d13Origins.contains o with
  | true => rfl
  | false => have := (C20_tables_strSafe_gen false o n hg hn).1; simp [h] at this

/-! ### D13b: where a container can be turned into a `str` -/

def isContainerCls (k : Cls) : Bool :=
  [Cls.list, .tuple, .set, .frozenset, .MultiInputObj, .range, .dict_keys, .dict_values, .dict].contains k

/-- a container class is accepted by a pattern whose constructor is `str(...)` only if it is set-like (D13b) -/
theorem C20_tables_seqJoin (sac : Bool) (k c : Cls) (hk : isContainerCls k = true)
    (hs : ctorKind c = .strLike) (hc : coercibleRT (cfgOf sac) k c = true) : isSetCls k = true ∧ c = .str := by
  have h0 : (!(isContainerCls k && ctorKind c == .strLike &&
      (coercibleRT (cfgOf true) k c || coercibleRT (cfgOf false) k c)) || (isSetCls k && c == .str)) = true :=
    forall_cls2 (P := fun k c => !(isContainerCls k && ctorKind c == .strLike &&
      (coercibleRT (cfgOf true) k c || coercibleRT (cfgOf false) k c)) || (isSetCls k && c == .str)) (by decide) k c
  have hc' : (coercibleRT (cfgOf true) k c || coercibleRT (cfgOf false) k c) = true := by
    cases sac <;> simp [hc]
  have hs' : (ctorKind c == .strLike) = true := by simp [hs]
  rw [hk, hs', hc'] at h0
  simpa using h0

end PydraModel.Typing
