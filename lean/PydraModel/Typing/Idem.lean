import PydraModel.Typing.Sound
/-
C20, clause 3: coercing an accepted value again leaves it unchanged (union-free types).
-/
namespace PydraModel.Typing

/-! ### set / dict construction is idempotent -/

/-- no earlier item is `==` to a later one -/
def NoEq (l : List V) : Prop := l.Pairwise (fun a b => pyEq a b = false)

theorem dedupAux_noEq : ∀ (xs acc : List V), NoEq acc.reverse → NoEq (dedupAux acc xs)
  | [], acc, h => by simpa [dedupAux] using h
  | x :: xs, acc, h => by
    simp only [dedupAux]
    split
    · exact dedupAux_noEq xs acc h
    · rename_i hx
      apply dedupAux_noEq xs (x :: acc)
      simp only [List.reverse_cons]
      unfold NoEq at h ⊢
      rw [List.pairwise_append]
      refine ⟨h, by simp, ?_⟩
      intro a ha b hb
      simp only [List.mem_singleton] at hb
      subst hb
      simp only [List.mem_reverse] at ha
      have hx' : acc.any (fun e => pyEq e b) = false := by simpa using hx
      exact any_false_mem hx' ha

theorem dedupAux_id : ∀ (xs acc : List V), NoEq (acc.reverse ++ xs) → dedupAux acc xs = acc.reverse ++ xs
  | [], acc, _ => by simp [dedupAux]
  | x :: xs, acc, h => by
    simp only [dedupAux]
    have hx : acc.any (fun e => pyEq e x) = false := by
      cases hh : acc.any (fun e => pyEq e x) with
      | false => rfl
      | true =>
        exfalso
        obtain ⟨e, he, hpe⟩ := List.any_eq_true.mp hh
        unfold NoEq at h
        rw [List.pairwise_append] at h
        have := h.2.2 e (by simpa using he) x (by simp)
        rw [this] at hpe; cases hpe
    simp only [hx, Bool.false_eq_true, ↓reduceIte]
    have := dedupAux_id xs (x :: acc) (by simpa using h)
    simpa using this

theorem dedup_idem (xs : List V) : dedup (dedup xs) = dedup xs := by
  unfold dedup
  have h := dedupAux_noEq xs [] (by simp [NoEq])
  have := dedupAux_id (dedupAux [] xs) [] (by simpa using h)
  simpa using this

theorem hashableL_iff : ∀ (l : List V), hashableL l = true ↔ ∀ x ∈ l, hashable x = true
  | [] => by simp [hashableL]
  | x :: xs => by
    simp only [hashableL, Bool.and_eq_true, List.mem_cons, forall_eq_or_imp]
    rw [hashableL_iff xs]

theorem hashableL_sub {zs ys : List V} (hsub : ∀ z ∈ zs, z ∈ ys) (h : hashableL ys = true) : hashableL zs = true :=
  (hashableL_iff zs).mpr (fun z hz => (hashableL_iff ys).mp h z (hsub z hz))

/-- inserting into a dict whose keys are pairwise different keeps that, and keeps keys/values aligned -/
theorem dictInsert_inv (k v : V) : ∀ (ks vs : List V), NoEq ks → ks.length = vs.length →
    NoEq (dictInsert k v ks vs).1 ∧ (dictInsert k v ks vs).1.length = (dictInsert k v ks vs).2.length ∧
    (∀ z ∈ (dictInsert k v ks vs).1, z = k ∨ z ∈ ks)
  | [], [], _, _ => by simp [dictInsert, NoEq]
  | [], _ :: _, _, hl => by simp at hl
  | _ :: _, [], _, hl => by simp at hl
  | k' :: ks, v' :: vs, hn, hl => by
    simp only [dictInsert]
    split
    · refine ⟨hn, by simpa using hl, fun z hz => Or.inr hz⟩
    · rename_i hne
      unfold NoEq at hn
      rw [List.pairwise_cons] at hn
      obtain ⟨ih1, ih2, ih3⟩ := dictInsert_inv k v ks vs hn.2 (by simpa using hl)
      refine ⟨?_, by simp [ih2], ?_⟩
      · unfold NoEq
        rw [List.pairwise_cons]
        refine ⟨?_, ih1⟩
        intro z hz
        rcases ih3 z hz with rfl | hz
        · simpa using hne
        · exact hn.1 z hz
      · intro z hz
        simp only [List.mem_cons] at hz ⊢
        rcases hz with rfl | hz
        · exact Or.inr (Or.inl rfl)
        · rcases ih3 z hz with h | h
          · exact Or.inl h
          · exact Or.inr (Or.inr h)

/-- inserting a key that is `==` to none of the present keys appends the item -/
theorem dictInsert_new (k v : V) : ∀ (ks vs : List V), ks.length = vs.length → (∀ k' ∈ ks, pyEq k' k = false) →
    dictInsert k v ks vs = (ks ++ [k], vs ++ [v])
  | [], [], _, _ => by simp [dictInsert]
  | [], _ :: _, hl, _ => by simp at hl
  | _ :: _, [], hl, _ => by simp at hl
  | k' :: ks, v' :: vs, hl, h => by
    simp only [dictInsert]
    have hk := h k' (by simp)
    simp only [hk, Bool.false_eq_true, ↓reduceIte]
    rw [dictInsert_new k v ks vs (by simpa using hl) (fun k'' hk'' => h k'' (by simp [hk'']))]
    simp

theorem dictBuild_inv : ∀ (ks vs : List V) (acc : List V × List V), NoEq acc.1 → acc.1.length = acc.2.length →
    NoEq (dictBuild ks vs acc).1 ∧ (dictBuild ks vs acc).1.length = (dictBuild ks vs acc).2.length
  | [], _, acc, h1, h2 => by simp only [dictBuild]; exact ⟨h1, h2⟩
  | _ :: _, [], acc, h1, h2 => by simp only [dictBuild]; exact ⟨h1, h2⟩
  | k :: ks, v :: vs, acc, h1, h2 => by
    simp only [dictBuild]
    obtain ⟨i1, i2, _⟩ := dictInsert_inv k v acc.1 acc.2 h1 h2
    exact dictBuild_inv ks vs _ i1 i2

theorem dictBuild_id : ∀ (ks vs : List V) (acc : List V × List V), NoEq (acc.1 ++ ks) →
    acc.1.length = acc.2.length → ks.length = vs.length → dictBuild ks vs acc = (acc.1 ++ ks, acc.2 ++ vs)
  | [], [], acc, _, _, _ => by simp [dictBuild]
  | [], _ :: _, _, _, _, hl => by simp at hl
  | _ :: _, [], _, _, _, hl => by simp at hl
  | k :: ks, v :: vs, acc, hn, h2, hl => by
    simp only [dictBuild]
    have hnew : ∀ k' ∈ acc.1, pyEq k' k = false := by
      intro k' hk'
      unfold NoEq at hn
      rw [List.pairwise_append] at hn
      exact hn.2.2 k' hk' k (by simp)
    rw [dictInsert_new k v acc.1 acc.2 h2 hnew]
    rw [dictBuild_id ks vs (acc.1 ++ [k], acc.2 ++ [v]) (by simpa using hn) (by simp [h2]) (by simpa using hl)]
    simp

/-! ### exact shape of what `build` returns -/

theorem build_form {type_ : Cls} {ys : List V} {v' : V} (h : build type_ ys = .ok v')
    (hs : ctorKind type_ ≠ .strLike) (hb : ctorKind type_ ≠ .bytesLike) :
    (ctorKind type_ = .seqLike ∧ v' = .seq type_ ys) ∨
    (ctorKind type_ = .setLike ∧ hashableL ys = true ∧ v' = .seq type_ (dedup ys)) := by
  unfold build construct at h
  cases hk : ctorKind type_ <;> simp only [hk] at h
  · simp only [iter_seq] at h
    cases h
    exact Or.inl ⟨rfl, rfl⟩
  · simp only [iter_seq] at h
    split at h
    · rename_i hh
      cases h
      exact Or.inr ⟨rfl, hh, rfl⟩
    · cases h
  · cases h
  · exact absurd hk hs
  · exact absurd hk hb
  · cases h
  · cases h
  · cases h
  · cases h
  · cases h
  · cases h

/-- re-building an already built container gives the same container -/
theorem build_again {type_ : Cls} {ys : List V} {v' : V} (h : build type_ ys = .ok v')
    (hs : ctorKind type_ ≠ .strLike) (hb : ctorKind type_ ≠ .bytesLike) :
    ∃ zs, v' = .seq type_ zs ∧ (∀ z ∈ zs, z ∈ ys) ∧ build type_ zs = .ok v' := by
  rcases build_form h hs hb with ⟨hk, rfl⟩ | ⟨hk, hh, rfl⟩
  · exact ⟨ys, rfl, fun z hz => hz, h⟩
  · refine ⟨dedup ys, rfl, fun z hz => dedup_mem hz, ?_⟩
    unfold build construct
    simp only [hk, iter_seq]
    rw [hashableL_sub (fun z hz => dedup_mem hz) hh, dedup_idem]
    rfl

theorem coerceZip_len (cfg : Cfg) : ∀ (l : List Ty) (xs ys : List V), l.length = xs.length →
    coerceZip cfg l xs = .ok ys → ys.length = xs.length
  | [], [], ys, _, h => by simp only [coerceZip] at h; cases h; rfl
  | [], _ :: _, _, hl, _ => by simp at hl
  | _ :: _, [], _, hl, _ => by simp at hl
  | a :: as, x :: xs, ys, hl, h => by
    simp only [coerceZip] at h
    split at h
    · cases h
    · split at h
      · cases h
      · rename_i ys' hys
        cases h
        simp [coerceZip_len cfg as xs ys' (by simpa using hl) hys]

mutual
/-- types without unions -/
def Ty.unionFree : Ty → Bool
  | .cls _ => true
  | .any => true
  | .union _ => false
  | .gen _ args => Ty.unionFreeL args
  | .tupleVar t => t.unionFree
def Ty.unionFreeL : List Ty → Bool
  | [] => true
  | a :: as => a.unionFree && Ty.unionFreeL as
end

@[simp] theorem Ty.unionFreeL_nil : Ty.unionFreeL [] = true := by simp [Ty.unionFreeL]
@[simp] theorem Ty.unionFreeL_cons (a : Ty) (as : List Ty) :
    Ty.unionFreeL (a :: as) = (a.unionFree && Ty.unionFreeL as) := by simp [Ty.unionFreeL]

/-- the items of a re-coerced container are fixpoints -/
theorem fix_of_mapM' {f : V → R V} {xs ys zs : List V} (hys : mapM' f xs = .ok ys) (hsub : ∀ z ∈ zs, z ∈ ys)
    (ih : ∀ x ∈ xs, ∀ y, f x = .ok y → f y = .ok y) : mapM' f zs = .ok zs := by
  apply mapM'_fix
  intro z hz
  obtain ⟨x, hx, hfx⟩ := (mapM'_ok hys).2 z (hsub z hz)
  exact ih x hx z hfx

mutual
/-- C20 idempotence on union-free patterns -/
theorem coerce_idem (sac : Bool) : ∀ (t : Ty) (v v' : V), t.wf = true → t.unionFree = true →
    hit pb13 pg13 t v = false → hit pNo pgBytes t v = false →
    coerce (cfgOf sac) t v = .ok v' → coerce (cfgOf sac) t v' = .ok v'
  | .any, _, _, _, _, _, _, _ => by simp [coerce]
  | .cls c, v, v', _, _, _, _, h => by
    have hi : isInstance v' c = true := by
      simp only [coerce, coerceBasic] at h
      split at h
      · rename_i hi; cases h; exact hi
      · split at h
        · exact construct_instance h
        · cases h
    simp [coerce, coerceBasic, hi]
  | .union l, _, _, _, hu, _, _, _ => by simp [Ty.unionFree] at hu
  | .tupleVar t, v, v', hw, hu, h1, h2, h => by
    simp only [coerce] at h ⊢
    simp only [Ty.wf] at hw
    simp only [Ty.unionFree] at hu
    simp only [hit, Bool.or_eq_false_iff] at h1 h2
    split at h
    · cases h
    · rename_i type_ hty
      split at h
      · cases h
      · rename_i xs hxs
        obtain ⟨ys, hys, hb⟩ := seqBody_ok h
        have hnsb := genType_not_strbytes (n := 1) (by decide) hty h1.1 h2.1
        obtain ⟨zs, rfl, hzs, hb2⟩ := build_again hb hnsb.1 hnsb.2
        have hel := elems_of_iter hxs
        rw [hel] at h1 h2
        have hgt : genType (cfgOf sac) .tuple (.seq type_ zs) = .ok type_ := by
          unfold genType isInstance
          simp [genType_issub hty]
        have hfix := fix_of_mapM' hys hzs
          (fun x hx y hfx => coerce_idem sac t x y hw hu (any_false_mem h1.2 hx) (any_false_mem h2.2 hx) hfx)
        simp only [hgt, iter_seq, seqBody, hfix, hb2]
  | .gen o args, v, v', hw, hu, h1, h2, h => by
    unfold coerce at h ⊢
    unfold hit at h1 h2
    simp only [Ty.wf, Bool.and_eq_true] at hw
    simp only [Ty.unionFree] at hu
    by_cases hmio : o = MIO
    · subst hmio
      simp only [beq_self_eq_true, ↓reduceIte] at h h1 h2 ⊢
      match args, hw, hu, h1, h2, h with
      | [a], hw, hu, h1, h2, h =>
        simp only [Ty.wfL_cons, Ty.wfL_nil, Bool.and_true] at hw
        simp only [Ty.unionFreeL_cons, Ty.unionFreeL_nil, Bool.and_true] at hu
        simp only [Bool.or_eq_false_iff] at h1 h2
        -- the stored value is a plain list of fixpoints
        have hkey : ∃ zs, v' = .seq .list zs ∧ mapM' (coerce (cfgOf sac) a) zs = .ok zs := by
          rcases multiBody_ok h with ⟨y, hy, rfl⟩ | ⟨xs, ys, hxs, hys, rfl⟩
          · refine ⟨[y], rfl, ?_⟩
            have := coerce_idem sac a v y hw.2 hu h1.1 h2.1 hy
            simp [mapM', this]
          · have hel := elems_of_iter hxs
            rw [hel] at h1 h2
            exact ⟨ys, rfl, fix_of_mapM' hys (fun z hz => hz)
              (fun x hx y hfx => coerce_idem sac a x y hw.2 hu (any_false_mem h1.2 hx) (any_false_mem h2.2 hx) hfx)⟩
        obtain ⟨zs, rfl, hfix⟩ := hkey
        have hns : (V.seq Cls.list zs).isStr = false := by
          show issub Cls.list Cls.str = false; decide
        unfold multiBody
        simp only [hns, Bool.false_eq_true, ↓reduceIte, iter_seq, hfix]
      | [], _, _, _, _, h => cases h
      | _ :: _ :: _, _, _, _, _, h => cases h
    · have hmio' : (o == MIO) = false := by simpa using hmio
      simp only [hmio', Bool.false_eq_true, ↓reduceIte, Bool.or_eq_false_iff] at h h1 h2 ⊢
      split at h
      · cases h
      · rename_i type_ hty
        have hsub := genType_issub hty
        have hnsb := genType_not_strbytes hw.1 hty h1.1 h2.1
        split at h
        · -- mapping
          rename_i hmap
          match args, hw, hu, h1, h2, h with
          | [kp, vp], hw, hu, h1, h2, h =>
            simp only [Ty.wfL_cons, Ty.wfL_nil, Bool.and_true, Bool.and_eq_true] at hw
            simp only [Ty.unionFreeL_cons, Ty.unionFreeL_nil, Bool.and_true, Bool.and_eq_true] at hu
            obtain ⟨c, ks, vs, ks', vs', rfl, hks, hvs, hb⟩ := mapBody_ok h
            have hnt : issub o .tuple = false := by
              cases ht : issub o .tuple with
              | false => rfl
              | true =>
                have h4 := tuple_sub_only type_ (issub_trans hsub ht)
                rw [h4, tuple_not_mapping] at hmap
                cases hmap
            simp only [hnt, Bool.false_eq_true, ↓reduceIte, elems_map, vals, Bool.or_eq_false_iff] at h1 h2
            -- shape of the stored dict
            unfold buildMap at hb
            split at hb
            · rename_i hhash
              simp only at hb
              unfold construct at hb
              rcases mapping_ctorKind type_ hmap with hk | hk <;> simp only [hk] at hb
              · cases hb
                have hinv := dictBuild_inv ks' vs' ([], []) (by simp [NoEq]) rfl
                have hmem := dictBuild_mem ks' vs' ([], [])
                have hk2 : ∀ z ∈ (dictBuild ks' vs' ([], [])).1, z ∈ ks' := by
                  intro z hz; rcases hmem.1 z hz with h | h
                  · simp at h
                  · exact h
                have hv2 : ∀ z ∈ (dictBuild ks' vs' ([], [])).2, z ∈ vs' := by
                  intro z hz; rcases hmem.2 z hz with h | h
                  · simp at h
                  · exact h
                have hfk := fix_of_mapM' hks hk2
                  (fun x hx y hfx => coerce_idem sac kp x y hw.2.1 hu.1 (any_false_mem h1.2.1 hx) (any_false_mem h2.2.1 hx) hfx)
                have hfv := fix_of_mapM' hvs hv2
                  (fun x hx y hfx => coerce_idem sac vp x y hw.2.2 hu.2 (any_false_mem h1.2.2 hx) (any_false_mem h2.2.2 hx) hfx)
                have hgt : genType (cfgOf sac) o (.map type_ (dictBuild ks' vs' ([], [])).1 (dictBuild ks' vs' ([], [])).2)
                    = .ok type_ := by
                  unfold genType isInstance
                  simp [hsub]
                have hid := dictBuild_id (dictBuild ks' vs' ([], [])).1 (dictBuild ks' vs' ([], [])).2 ([], [])
                  (by simpa using hinv.1) rfl hinv.2
                simp only [hgt, hmap, ↓reduceIte, mapBody, hfk, hfv]
                unfold buildMap
                rw [hashableL_sub hk2 hhash]
                simp only [↓reduceIte]
                rw [hid]
                unfold construct
                simp only [hk, List.nil_append]
              · cases hb
            · cases hb
          | [], _, _, _, _, h => cases h
          | [_], _, _, _, _, h => cases h
          | _ :: _ :: _ :: _, _, _, _, _, h => cases h
        · rename_i hmap
          have hmap' : issub type_ .Mapping = false := by simpa using hmap
          split at h
          · cases h
          · rename_i xs hxs
            have hel := elems_of_iter hxs
            split at h
            · -- tuple
              rename_i htup
              obtain ⟨hlen, ys, hys, hb⟩ := tupleBody_ok h
              have htt : type_ = .tuple := tuple_sub_only type_ (issub_trans hsub htup)
              subst htt
              have hb' : build .tuple ys = .ok (.seq .tuple ys) := rfl
              rw [hb'] at hb
              cases hb
              simp only [htup, ↓reduceIte, hel] at h1 h2
              have hgt : genType (cfgOf sac) o (.seq .tuple ys) = .ok .tuple := by
                unfold genType isInstance
                simp [hsub]
              have hl2 := coerceZip_len (cfgOf sac) args xs ys hlen hys
              have hz := coerceZip_idem sac args xs ys hw.2 hu h1.2 h2.2 hlen hys
              have hne : (args.length != ys.length) = false := by simp [hlen, hl2]
              simp only [hgt, hmap', Bool.false_eq_true, ↓reduceIte, iter_seq, htup, tupleBody, hne, hz, hb']
            · rename_i htup
              have htup' : issub o .tuple = false := by simpa using htup
              match args, hw, hu, h1, h2, h with
              | [a], hw, hu, h1, h2, h =>
                simp only [Ty.wfL_cons, Ty.wfL_nil, Bool.and_true] at hw
                simp only [Ty.unionFreeL_cons, Ty.unionFreeL_nil, Bool.and_true] at hu
                obtain ⟨ys, hys, hb⟩ := seqBody_ok h
                obtain ⟨zs, rfl, hzs, hb2⟩ := build_again hb hnsb.1 hnsb.2
                simp only [htup', Bool.false_eq_true, ↓reduceIte, hel] at h1 h2
                have hgt : genType (cfgOf sac) o (.seq type_ zs) = .ok type_ := by
                  unfold genType isInstance
                  simp [hsub]
                have hfix := fix_of_mapM' hys hzs
                  (fun x hx y hfx => coerce_idem sac a x y hw.2 hu (any_false_mem h1.2 hx) (any_false_mem h2.2 hx) hfx)
                simp only [hgt, hmap', Bool.false_eq_true, ↓reduceIte, iter_seq, htup', seqBody, hfix, hb2]
              | [], _, _, _, _, h => cases h
              | _ :: _ :: _, _, _, _, _, h => cases h
theorem coerceZip_idem (sac : Bool) : ∀ (l : List Ty) (xs ys : List V), Ty.wfL l = true → Ty.unionFreeL l = true →
    hitZip pb13 pg13 l xs = false → hitZip pNo pgBytes l xs = false → l.length = xs.length →
    coerceZip (cfgOf sac) l xs = .ok ys → coerceZip (cfgOf sac) l ys = .ok ys
  | [], [], ys, _, _, _, _, _, h => by
    simp only [coerceZip] at h; cases h; simp [coerceZip]
  | [], _ :: _, _, _, _, _, _, hl, _ => by simp at hl
  | _ :: _, [], _, _, _, _, _, hl, _ => by simp at hl
  | a :: as, x :: xs, ys, hw, hu, h1, h2, hl, h => by
    simp only [coerceZip] at h
    simp only [Ty.wfL_cons, Bool.and_eq_true] at hw
    simp only [Ty.unionFreeL_cons, Bool.and_eq_true] at hu
    simp only [hitZip_cons, Bool.or_eq_false_iff] at h1 h2
    split at h
    · cases h
    · rename_i y hy
      split at h
      · cases h
      · rename_i ys' hys
        cases h
        have i1 := coerce_idem sac a x y hw.1 hu.1 h1.1 h2.1 hy
        have i2 := coerceZip_idem sac as xs ys' hw.2 hu.2 h1.2 h2.2 (by simpa using hl) hys
        simp only [coerceZip, i1, i2]
end

end PydraModel.Typing
