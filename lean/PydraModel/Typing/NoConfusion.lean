import PydraModel.Typing.Sound
/-
C20, clause 2: strings are never silently split into sequences nor sequences joined into strings.
-/
namespace PydraModel.Typing

/-- What a `str` input may become: itself, a non-`str` atom (a path-like object built from the whole
    string), or a one-element list wrapping such an image (`MultiInputObj[...]`).  In particular never a
    container of its characters, and never a different `str`. -/
inductive StrImage (v : V) : V → Prop
  | same : StrImage v v
  | atom (c : Cls) (p : Payload) (h : c ≠ .str) : StrImage v (.atom c p)
  | wrap (w : V) (h : StrImage v w) : StrImage v (.seq .list [w])

theorem ctorResult_str {c : Cls} (h : ctorResultCls c = .str) : ctorKind c = .strLike := by
  have h0 : (!(ctorResultCls c == .str) || ctorKind c == .strLike) = true :=
    forall_cls (P := fun c => !(ctorResultCls c == .str) || ctorKind c == .strLike) (by decide) c
  have h1 : (ctorResultCls c == .str) = true := by simp [h]
  rw [h1] at h0
  simpa using h0

theorem container_not_str {k : Cls} (h : isContainerCls k = true) : issub k .str = false := by
  have h0 : (!(isContainerCls k) || !(issub k .str)) = true :=
    forall_cls (P := fun k => !(isContainerCls k) || !(issub k .str)) (by decide) k
  rw [h] at h0
  simpa using h0

theorem isStr_atom_str (s : Str) : (V.atom Cls.str (Payload.str s)).isStr = true := by
  show issub Cls.str Cls.str = true; decide
theorem isStr_seq_list (l : List V) : (V.seq Cls.list l).isStr = false := by
  show issub Cls.list Cls.str = false; decide

theorem d13Origins_tuple : d13Origins.contains Cls.tuple = false := by decide

mutual
/-- a `str` is only passed through, turned into a path-like atom, or wrapped whole -/
theorem coerce_strImage (sac : Bool) (s : Str) : ∀ (t : Ty) (v' : V), t.wf = true →
    hit pb13 pg13 t (.atom .str (.str s)) = false →
    coerce (cfgOf sac) t (.atom .str (.str s)) = .ok v' → StrImage (.atom .str (.str s)) v'
  | .any, v', _, _, h => by
    simp only [coerce] at h; cases h; exact .same
  | .cls c, v', _, h1, h => by
    simp only [coerce, coerceBasic] at h
    simp only [hit] at h1
    split at h
    · cases h; exact .same
    · split at h
      · rename_i hc
        have hstr : (V.atom Cls.str (Payload.str s)).isStr = true := isStr_atom_str s
        have hnb : d13Basic.contains c = false := by
          unfold pb13 at h1; rw [hstr] at h1; simpa using h1
        simp only [cls_atom] at hc
        rcases C20_tables_strSafe_basic sac c hc with hk | hk | hk | hk | hk
        · unfold construct at h
          simp only [hk] at h
          have h' : (Except.ok (V.atom Cls.PosixPath (Payload.str (pathNorm s))) : R V) = .ok v' := h
          cases h'
          exact .atom _ _ (by decide)
        · unfold construct at h
          simp only [hk] at h
          cases h
        · unfold construct at h
          simp only [hk] at h
          have h' : (Except.ok (V.atom Cls.str (Payload.str s)) : R V) = .ok v' := h
          cases h'
          exact .same
        · -- a fileformats Text wrapping the whole string
          unfold construct at h
          simp only [hk] at h
          split at h
          · cases h
            exact .atom _ _ (by intro hc'; subst hc'; revert hk; decide)
          · cases h
        · rw [hk] at hnb; cases hnb
      · cases h
  | .union l, v', hw, h1, h => by
    simp only [coerce] at h
    simp only [Ty.wf] at hw
    simp only [hit] at h1
    exact coerceUnion_strImage sac s l v' false hw h1 h
  | .tupleVar t, v', _, h1, h => by
    simp only [coerce] at h
    simp only [hit, Bool.or_eq_false_iff] at h1
    have hs := C20_tables_strSafe_gen sac .tuple 1 (by decide) d13Origins_tuple
    have : genType (cfgOf sac) .tuple (.atom .str (.str s)) = tErr := by
      unfold genType isInstance
      simp only [cls_atom, hs.1, hs.2, Bool.false_eq_true, ↓reduceIte]
    rw [this] at h
    cases h
  | .gen o args, v', hw, h1, h => by
    unfold coerce at h
    unfold hit at h1
    simp only [Ty.wf, Bool.and_eq_true] at hw
    by_cases hmio : o = MIO
    · subst hmio
      simp only [beq_self_eq_true, ↓reduceIte] at h h1
      match args, hw, h1, h with
      | [a], hw, h1, h =>
        simp only [Ty.wfL_cons, Ty.wfL_nil, Bool.and_true] at hw
        simp only [Bool.or_eq_false_iff] at h1
        unfold multiBody at h
        have hstr : (V.atom Cls.str (Payload.str s)).isStr = true := isStr_atom_str s
        simp only [hstr, ↓reduceIte] at h
        split at h
        · rename_i y hy
          cases h
          exact .wrap y (coerce_strImage sac s a y hw.2 h1.1 hy)
        · cases h
      | [], _, _, h => cases h
      | _ :: _ :: _, _, _, h => cases h
    · have hmio' : (o == MIO) = false := by simpa using hmio
      simp only [hmio', Bool.false_eq_true, ↓reduceIte, Bool.or_eq_false_iff] at h h1
      have hstr : (V.atom Cls.str (Payload.str s)).isStr = true := isStr_atom_str s
      have hno : d13Origins.contains o = false := by
        have := h1.1
        unfold pg13 at this; rw [hstr] at this; simpa using this
      have hs := C20_tables_strSafe_gen sac o args.length hw.1 hno
      have : genType (cfgOf sac) o (.atom .str (.str s)) = tErr := by
        unfold genType isInstance
        simp only [cls_atom, hs.1, hs.2, Bool.false_eq_true, ↓reduceIte]
      rw [this] at h
      cases h
theorem coerceUnion_strImage (sac : Bool) (s : Str) : ∀ (l : List Ty) (v' : V) (ar : Bool), Ty.wfL l = true →
    hitAny pb13 pg13 l (.atom .str (.str s)) = false →
    coerceUnion (cfgOf sac) l (.atom .str (.str s)) ar = .ok v' → StrImage (.atom .str (.str s)) v'
  | [], _, _, _, _, h => by simp [coerceUnion] at h
  | a :: as, v', ar, hw, h1, h => by
    simp only [coerceUnion] at h
    simp only [Ty.wfL_cons, Bool.and_eq_true] at hw
    simp only [hitAny_cons, Bool.or_eq_false_iff] at h1
    split at h
    · rename_i r hr
      cases h
      exact coerce_strImage sac s a v' hw.1 h1.1 hr
    · exact coerceUnion_strImage sac s as v' _ hw.2 h1.2 h
    · cases h
end

/-- the class of a re-built container is never `str` unless a `str` was being expanded -/
theorem built_not_str {cfg : Cfg} {o : Cls} {n : Nat} {v w v' : V} {type_ : Cls}
    (hg : genOK o n = true) (hk : isContainerCls v.cls = true) (ht : genType cfg o v = .ok type_)
    (hb : construct type_ w = .ok v') : v'.isStr = false := by
  cases hs : v'.isStr with
  | false => rfl
  | true =>
    exfalso
    unfold V.isStr at hs
    have h1 := str_sub_only _ hs
    rw [construct_cls hb] at h1
    have h2 := ctorKind_strLike (ctorResult_str h1)
    rcases genType_ok ht with ⟨_, rfl⟩ | ⟨_, _, rfl⟩
    · have := container_not_str hk
      rw [h2] at this
      revert this; decide
    · rw [h2, genOK_str] at hg; cases hg

mutual
/-- a container is never turned into a `str` (outside D13b) -/
theorem coerce_noJoin (sac : Bool) : ∀ (t : Ty) (v v' : V), t.wf = true → isContainerCls v.cls = true →
    hit pb13b pNo t v = false → coerce (cfgOf sac) t v = .ok v' → v'.isStr = false
  | .any, v, v', _, hk, _, h => by
    simp only [coerce] at h; cases h
    exact container_not_str hk
  | .cls c, v, v', _, hk, h1, h => by
    simp only [coerce, coerceBasic] at h
    simp only [hit] at h1
    split at h
    · cases h; exact container_not_str hk
    · split at h
      · rename_i hc
        cases hs : v'.isStr with
        | false => rfl
        | true =>
          exfalso
          unfold V.isStr at hs
          have h2 := str_sub_only _ hs
          rw [construct_cls h] at h2
          have h3 := C20_tables_seqJoin sac v.cls c hk (ctorResult_str h2) hc
          unfold pb13b at h1
          rw [h3.1, h3.2] at h1
          revert h1; decide
      · cases h
  | .union l, v, v', hw, hk, h1, h => by
    simp only [coerce] at h
    simp only [Ty.wf] at hw
    simp only [hit] at h1
    exact coerceUnion_noJoin sac l v v' false hw hk h1 h
  | .tupleVar t, v, v', _, hk, _, h => by
    simp only [coerce] at h
    split at h
    · cases h
    · rename_i type_ hty
      split at h
      · cases h
      · obtain ⟨ys, _, hb⟩ := seqBody_ok h
        exact built_not_str (n := 1) (by decide) hk hty hb
  | .gen o args, v, v', hw, hk, _, h => by
    unfold coerce at h
    simp only [Ty.wf, Bool.and_eq_true] at hw
    by_cases hmio : o = MIO
    · subst hmio
      simp only [beq_self_eq_true, ↓reduceIte] at h
      match args, h with
      | [a], h =>
        rcases multiBody_ok h with ⟨y, _, rfl⟩ | ⟨xs, ys, _, _, rfl⟩ <;> exact isStr_seq_list _
      | [], h => cases h
      | _ :: _ :: _, h => cases h
    · have hmio' : (o == MIO) = false := by simpa using hmio
      simp only [hmio', Bool.false_eq_true, ↓reduceIte] at h
      split at h
      · cases h
      · rename_i type_ hty
        split at h
        · match args, h with
          | [kp, vp], h =>
            obtain ⟨c, ks, vs, ks', vs', rfl, _, _, hb⟩ := mapBody_ok h
            unfold buildMap at hb
            split at hb
            · exact built_not_str hw.1 hk hty hb
            · cases hb
          | [], h => cases h
          | [_], h => cases h
          | _ :: _ :: _ :: _, h => cases h
        · split at h
          · cases h
          · split at h
            · obtain ⟨_, ys, _, hb⟩ := tupleBody_ok h
              exact built_not_str hw.1 hk hty hb
            · match args, h with
              | [a], h =>
                obtain ⟨ys, _, hb⟩ := seqBody_ok h
                exact built_not_str hw.1 hk hty hb
              | [], h => cases h
              | _ :: _ :: _, h => cases h
theorem coerceUnion_noJoin (sac : Bool) : ∀ (l : List Ty) (v v' : V) (ar : Bool), Ty.wfL l = true →
    isContainerCls v.cls = true → hitAny pb13b pNo l v = false →
    coerceUnion (cfgOf sac) l v ar = .ok v' → v'.isStr = false
  | [], _, _, _, _, _, _, h => by simp [coerceUnion] at h
  | a :: as, v, v', ar, hw, hk, h1, h => by
    simp only [coerceUnion] at h
    simp only [Ty.wfL_cons, Bool.and_eq_true] at hw
    simp only [hitAny_cons, Bool.or_eq_false_iff] at h1
    split at h
    · rename_i r hr
      cases h
      exact coerce_noJoin sac a v v' hw.1 hk h1.1 hr
    · exact coerceUnion_noJoin sac as v v' _ hw.2 hk h1.2 h
    · cases h
end

end PydraModel.Typing
