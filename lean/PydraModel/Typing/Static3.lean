import PydraModel.Typing.Static2
/-
C21, part 3: generic sources — what `check_type` established about the argument types, what a conforming
value looks like, and why `type_(items)` can be built.
-/
namespace PydraModel.Typing

/-- origin and argument types of a subscripted source type -/
def Ty.srcOf : Ty → Option (Cls × List Ty)
  | .gen o args => some (o, args)
  | .tupleVar t => some (.tuple, [t])
  | _ => none

theorem forAllR_ok {α} {f : α → R Unit} : ∀ {l : List α}, forAllR l f = .ok () → ∀ x ∈ l, f x = .ok ()
  | [], _, x, hx => by simp at hx
  | y :: ys, h, x, hx => by
    simp only [forAllR] at h
    split at h
    · cases h
    · rename_i u hu
      simp only [List.mem_cons] at hx
      rcases hx with rfl | hx
      · cases u; exact hu
      · exact forAllR_ok h x hx

theorem wfL_mem : ∀ {l : List Ty} {s : Ty}, Ty.wfL l = true → s ∈ l → s.wf = true
  | [], _, _, hs => by simp at hs
  | a :: as, s, h, hs => by
    simp only [Ty.wfL_cons, Bool.and_eq_true] at h
    simp only [List.mem_cons] at hs
    rcases hs with rfl | hs
    · exact h.1
    · exact wfL_mem h.2 hs

theorem anyFreeL_mem : ∀ {l : List Ty} {s : Ty}, Ty.anyFreeL l = true → s ∈ l → s.anyFree = true
  | [], _, _, hs => by simp at hs
  | a :: as, s, h, hs => by
    simp only [Ty.anyFreeL_cons, Bool.and_eq_true] at h
    simp only [List.mem_cons] at hs
    rcases hs with rfl | hs
    · exact h.1
    · exact anyFreeL_mem h.2 hs

theorem stdL_mem : ∀ {l : List V} {x : V}, V.stdL l = true → x ∈ l → x.std = true
  | [], _, _, hx => by simp at hx
  | a :: as, x, h, hx => by
    simp only [V.stdL_cons, Bool.and_eq_true] at h
    simp only [List.mem_cons] at hx
    rcases hx with rfl | hx
    · exact h.1
    · exact stdL_mem h.2 hx

/-! ### static side: what passed for the argument types -/

/-- pattern `o[p]` with a sequence-like origin -/
theorem expandCheck_seq_inv {o : Cls} {p S : Ty} (ho : c21Origins.contains o = true)
    (h : expandCheck (.gen o [p]) S = .ok ()) :
    ∃ o' as, S.srcOf = some (o', as) ∧ coercibleStatic (.cls o') o = true ∧ ∀ s ∈ as, expandCheck p s = .ok () := by
  obtain ⟨_, hnm, hnt, _⟩ := c21Origin_facts ho
  unfold expandCheck at h
  cases S with
  | cls a => cases h
  | any => cases h
  | union l => cases h
  | gen o' targs =>
    simp only [hnm, hnt, Bool.false_eq_true, ↓reduceIte] at h
    split at h
    · cases h
    · rename_i hc
      refine ⟨o', targs, rfl, by simpa using hc, ?_⟩
      exact forAllR_ok h
  | tupleVar t' =>
    simp only [hnm, hnt, Bool.false_eq_true, ↓reduceIte] at h
    split at h
    · cases h
    · rename_i hc
      refine ⟨.tuple, [t'], rfl, by simpa using hc, ?_⟩
      intro s hs
      simp only [List.mem_singleton] at hs
      subst hs; exact h

/-- pattern `tuple[p, ...]` -/
theorem expandCheck_tvar_inv {p S : Ty} (h : expandCheck (.tupleVar p) S = .ok ()) :
    ∃ o' as, S.srcOf = some (o', as) ∧ coercibleStatic (.cls o') .tuple = true ∧ ∀ s ∈ as, expandCheck p s = .ok () := by
  unfold expandCheck at h
  cases S with
  | cls a => cases h
  | any => cases h
  | union l => cases h
  | gen o' targs =>
    simp only at h
    split at h
    · cases h
    · rename_i hc
      split at h
      · exact ⟨o', targs, rfl, by simpa using hc, forAllR_ok h⟩
      · match targs, h with
        | [a], h =>
          refine ⟨o', [a], rfl, by simpa using hc, ?_⟩
          intro s hs
          simp only [List.mem_singleton] at hs
          subst hs; exact h
        | [], h => cases h
        | _ :: _ :: _, h => cases h
  | tupleVar t' =>
    refine ⟨.tuple, [t'], rfl, by decide, ?_⟩
    intro s hs
    simp only [List.mem_singleton] at hs
    subst hs; exact h

/-! ### value side: what a value conforming to a subscripted type looks like -/

theorem atom_iterable_strbytes {c : Cls} {p : Payload} (h : (V.atom c p).std = true)
    (hi : issub c .Iterable = true) : isStrBytes c = true := by
  simp only [V.std] at h
  have h0 : (!(isAtomCls c && issub c .Iterable) || isStrBytes c) = true :=
    forall_cls (P := fun c => !(isAtomCls c && issub c .Iterable) || isStrBytes c) (by decide) c
  rw [atomOK_cls h, hi] at h0
  simpa using h0

theorem genOrigin_iterable {o : Cls} {n : Nat} (h : genOK o n = true) : issub o .Iterable = true := by
  have h0 : (!(isGenOrigin o) || issub o .Iterable) = true :=
    forall_cls (P := fun o => !(isGenOrigin o) || issub o .Iterable) (by decide) o
  rw [genOK_isGenOrigin h] at h0; simpa using h0

theorem genOK_MIO {n : Nat} (h : genOK MIO n = true) : n = 1 := by
  unfold genOK at h
  have h1 : mapOrigins.contains MIO = false := by decide
  have h2 : (MIO == Cls.tuple) = false := by decide
  have h3 : seqOrigins.contains MIO = true := by decide
  rw [h1, h2, h3] at h
  simpa using h

theorem genOK_nontuple {o : Cls} {n : Nat} (h : genOK o n = true) (ht : issub o .tuple = false) : n = 1 ∨ n = 2 := by
  unfold genOK at h
  have hne : (o == Cls.tuple) = false := by
    cases hh : (o == Cls.tuple) with
    | false => rfl
    | true =>
      have : o = .tuple := by simpa using hh
      subst this
      revert ht; decide
  rw [hne] at h
  cases h1 : seqOrigins.contains o <;> cases h2 : mapOrigins.contains o <;> simp_all

theorem dict_not_tuple_origin {o : Cls} (h : issub .dict o = true) : issub o .tuple = false := by
  have h0 : (!(issub .dict o) || !(issub o .tuple)) = true :=
    forall_cls (P := fun o => !(issub .dict o) || !(issub o .tuple)) (by decide) o
  rw [h] at h0; simpa using h0

/-- items of a zip-conforming list each conform to one of the argument types -/
theorem conformsZip_mem : ∀ (as : List Ty) (xs : List V), conformsZip as xs = true →
    hitZip pbStrict pgStrict as xs = false →
    as.length = xs.length ∧ ∀ x ∈ xs, ∃ s ∈ as, conforms s x = true ∧ hit pbStrict pgStrict s x = false
  | [], [], _, _ => by simp
  | [], _ :: _, h, _ => by simp [conformsZip] at h
  | _ :: _, [], h, _ => by simp [conformsZip] at h
  | a :: as, x :: xs, h, hh => by
    simp only [conformsZip, Bool.and_eq_true] at h
    simp only [hitZip_cons, Bool.or_eq_false_iff] at hh
    obtain ⟨hl, ih⟩ := conformsZip_mem as xs h.2 hh.2
    refine ⟨by simp [hl], ?_⟩
    intro y hy
    simp only [List.mem_cons] at hy
    rcases hy with rfl | hy
    · exact ⟨a, by simp, h.1, hh.1⟩
    · obtain ⟨s, hs, h1, h2⟩ := ih y hy
      exact ⟨s, by simp [hs], h1, h2⟩

theorem all_any_mem {p q : V → Bool} {xs : List V} (h1 : xs.all p = true) (h2 : xs.any q = false) :
    ∀ x ∈ xs, p x = true ∧ q x = false := by
  intro x hx
  exact ⟨List.all_eq_true.mp h1 x hx, any_false_mem h2 hx⟩

/-- VALUE SHAPE: a standard value conforming to a subscripted source type is a list/tuple/set/frozenset/dict
    below the source origin whose items each conform to one of the source's argument types. -/
theorem conforms_gen_shape {S : Ty} {v : V} {o' : Cls} {as : List Ty} (hsrc : S.srcOf = some (o', as))
    (hwf : S.wf = true) (hc : conforms S v = true) (hv : v.std = true)
    (hst : hit pbStrict pgStrict S v = false) :
    ∃ xs, iter v = some xs ∧ V.stdL xs = true ∧ Ty.wfL as = true ∧
      (∀ x ∈ xs, ∃ s ∈ as, conforms s x = true ∧ hit pbStrict pgStrict s x = false) ∧
      issub v.cls (effCls o') = true ∧ isStrBytes v.cls = false ∧
      (stdSeqClasses.contains v.cls = true ∨ v.cls = .dict) ∧
      (issub o' .tuple = true → S = .gen o' as → conformsZip as xs = true ∧ hitZip pbStrict pgStrict as xs = false) := by
  cases S with
  | cls a => simp [Ty.srcOf] at hsrc
  | any => simp [Ty.srcOf] at hsrc
  | union l => simp [Ty.srcOf] at hsrc
  | tupleVar t =>
    simp only [Ty.srcOf, Option.some.injEq, Prod.mk.injEq] at hsrc
    obtain ⟨rfl, rfl⟩ := hsrc
    simp only [Ty.wf] at hwf
    simp only [conforms, Bool.and_eq_true, isInstance] at hc
    simp only [hit, Bool.or_eq_false_iff] at hst
    have hsb : isStrBytes v.cls = false := hst.1
    cases v with
    | atom c p =>
      exfalso
      have := atom_iterable_strbytes hv (issub_trans hc.1 (by decide))
      simp only [cls_atom] at hsb
      rw [hsb] at this; cases this
    | seq c l =>
      simp only [V.std, Bool.and_eq_true] at hv
      simp only [elems_seq] at hc hst
      refine ⟨l, rfl, hv.2, by simp [hwf], ?_, hc.1, hsb, Or.inl hv.1, ?_⟩
      · intro x hx
        obtain ⟨h1, h2⟩ := all_any_mem hc.2 hst.2 x hx
        exact ⟨t, by simp, h1, h2⟩
      · intro _ h; cases h
    | map c ks vs =>
      exfalso
      simp only [V.std, Bool.and_eq_true, beq_iff_eq] at hv
      simp only [cls_map] at hc
      rw [hv.1.1] at hc
      have := hc.1
      revert this; decide
  | gen o args =>
    simp only [Ty.srcOf, Option.some.injEq, Prod.mk.injEq] at hsrc
    obtain ⟨rfl, rfl⟩ := hsrc
    simp only [Ty.wf, Bool.and_eq_true] at hwf
    unfold conforms at hc
    unfold hit at hst
    unfold effCls
    by_cases hm : o = MIO
    · subst hm
      have hlen := genOK_MIO hwf.1
      simp only [beq_self_eq_true, ↓reduceIte, Bool.and_eq_true, isInstance] at hc hst ⊢
      match args, hlen, hwf, hc, hst with
      | [a], _, hwf, hc, hst =>
        simp only [Bool.or_eq_false_iff] at hst
        have hsb := strbytes_not_list _ hc.1
        cases v with
        | atom c p =>
          exfalso
          have := atom_iterable_strbytes hv (issub_trans hc.1 (by decide))
          simp only [cls_atom] at hsb
          rw [hsb] at this; cases this
        | seq c l =>
          simp only [V.std, Bool.and_eq_true] at hv
          simp only [elems_seq] at hc hst
          refine ⟨l, rfl, hv.2, hwf.2, ?_, hc.1, hsb, Or.inl hv.1, ?_⟩
          · intro x hx
            obtain ⟨h1, h2⟩ := all_any_mem hc.2 hst.2 x hx
            exact ⟨a, by simp, h1, h2⟩
          · intro h
            have : issub MIO Cls.tuple = false := by decide
            rw [this] at h; cases h
        | map c ks vs =>
          exfalso
          simp only [V.std, Bool.and_eq_true, beq_iff_eq] at hv
          simp only [cls_map] at hc
          rw [hv.1.1] at hc
          have := hc.1
          revert this; decide
    · have hm' : (o == MIO) = false := by simpa using hm
      simp only [hm', Bool.false_eq_true, ↓reduceIte, Bool.and_eq_true, Bool.or_eq_false_iff, isInstance] at hc hst ⊢
      have hsb : isStrBytes v.cls = false := hst.1
      cases v with
      | atom c p =>
        exfalso
        have := atom_iterable_strbytes hv (issub_trans hc.1 (genOrigin_iterable hwf.1))
        simp only [cls_atom] at hsb
        rw [hsb] at this; cases this
      | seq c l =>
        simp only [V.std, Bool.and_eq_true] at hv
        simp only [elems_seq, cls_seq] at hc hst ⊢
        by_cases ht : issub o .tuple = true
        · simp only [ht, ↓reduceIte] at hc hst
          obtain ⟨_, hmem⟩ := conformsZip_mem args l hc.2 hst.2
          exact ⟨l, rfl, hv.2, hwf.2, hmem, hc.1, hsb, Or.inl hv.1, fun _ _ => ⟨hc.2, hst.2⟩⟩
        · have ht' : issub o .tuple = false := by simpa using ht
          simp only [ht', Bool.false_eq_true, ↓reduceIte] at hc hst
          match args, hwf, hc, hst with
          | [a], hwf, hc, hst =>
            refine ⟨l, rfl, hv.2, hwf.2, ?_, hc.1, hsb, Or.inl hv.1, ?_⟩
            · intro x hx
              obtain ⟨h1, h2⟩ := all_any_mem hc.2 hst.2 x hx
              exact ⟨a, by simp, h1, h2⟩
            · intro h; rw [ht'] at h; cases h
          | [], _, hc, _ => simp at hc
          | _ :: _ :: _, _, hc, _ => simp at hc
      | map c ks vs =>
        simp only [V.std, Bool.and_eq_true, beq_iff_eq] at hv
        simp only [elems_map, cls_map, vals] at hc hst ⊢
        have hcd : c = .dict := hv.1.1
        subst hcd
        have ht' := dict_not_tuple_origin hc.1
        simp only [ht', Bool.false_eq_true, ↓reduceIte] at hst
        match args, hwf, hc, hst with
        | [a], hwf, hc, hst =>
          refine ⟨ks, rfl, hv.1.2, hwf.2, ?_, hc.1, hsb, Or.inr rfl, ?_⟩
          · intro x hx
            obtain ⟨h1, h2⟩ := all_any_mem hc.2 hst.2 x hx
            exact ⟨a, by simp, h1, h2⟩
          · intro h; rw [ht'] at h; cases h
        | [kp, vp], hwf, hc, hst =>
          simp only [Bool.and_eq_true, Bool.or_eq_false_iff] at hc hst
          refine ⟨ks, rfl, hv.1.2, hwf.2, ?_, hc.1, hsb, Or.inr rfl, ?_⟩
          · intro x hx
            obtain ⟨h1, h2⟩ := all_any_mem hc.2.1 hst.2.1 x hx
            exact ⟨kp, by simp, h1, h2⟩
          · intro h; rw [ht'] at h; cases h
        | [], _, hc, _ => simp at hc
        | _ :: _ :: _ :: _, _, hc, _ => simp at hc

end PydraModel.Typing
