import PydraModel.Typing.Static4
import PydraModel.Typing.Idem
/-
C21 over the whole pattern grammar, part 1:
 * values stored by a `hashTy` pattern are hashable (so sets / dict keys can be built from them)
 * outside D25d every pattern of the grammar raises TypeError only
-/
namespace PydraModel.Typing

/-! ### hashable results -/

theorem construct_atom {tgt : Cls} {v v' : V} (h : construct tgt v = .ok v')
    (h1 : ctorKind tgt ≠ .seqLike) (h2 : ctorKind tgt ≠ .setLike) (h3 : ctorKind tgt ≠ .dictLike) :
    ∃ c p, v' = .atom c p := by
  unfold construct at h
  cases hk : ctorKind tgt <;> simp only [hk] at h
  · exact absurd hk h1
  · exact absurd hk h2
  · exact absurd hk h3
  · split at h
    · split at h <;> cases h <;> exact ⟨_, _, rfl⟩
    · cases h; exact ⟨_, _, rfl⟩
  · split at h
    · cases h; exact ⟨_, _, rfl⟩
    · split at h <;> cases h; exact ⟨_, _, rfl⟩
    · cases h
  · split at h
    · split at h <;> cases h; exact ⟨_, _, rfl⟩
    · cases h
  · split at h
    · split at h <;> cases h; exact ⟨_, _, rfl⟩
    · cases h
  · split at h
    · split at h <;> cases h; exact ⟨_, _, rfl⟩
    · cases h
  · split at h
    · split at h
      · cases h; exact ⟨_, _, rfl⟩
      · split at h <;> cases h; exact ⟨_, _, rfl⟩
    · cases h
  · split at h
    · split at h <;> cases h; exact ⟨_, _, rfl⟩
    · split at h <;> cases h; exact ⟨_, _, rfl⟩
    · cases h
  · cases h

theorem atomOnly_ctor {c : Cls} (h : atomOnlyClasses.contains c = true) :
    ctorKind c ≠ .seqLike ∧ ctorKind c ≠ .setLike ∧ ctorKind c ≠ .dictLike := by
  have h0 : (!(atomOnlyClasses.contains c) || (ctorKind c != .seqLike && ctorKind c != .setLike && ctorKind c != .dictLike)) = true :=
    forall_cls (P := fun c => !(atomOnlyClasses.contains c) || (ctorKind c != .seqLike && ctorKind c != .setLike && ctorKind c != .dictLike))
      (by decide) c
  rw [h] at h0
  simp only [Bool.not_true, Bool.false_or, Bool.and_eq_true, bne_iff_ne, ne_eq] at h0
  exact ⟨h0.1.1, h0.1.2, h0.2⟩

theorem atomOnly_no_container {c k : Cls} (h : atomOnlyClasses.contains c = true)
    (hk : (stdSeqClasses.contains k || k == .dict) = true) : issub k c = false := by
  have h0 : (!(atomOnlyClasses.contains c && (stdSeqClasses.contains k || k == .dict)) || !(issub k c)) = true :=
    forall_cls2 (P := fun c k => !(atomOnlyClasses.contains c && (stdSeqClasses.contains k || k == .dict)) || !(issub k c))
      (by decide) c k
  rw [h, hk] at h0
  simpa using h0

theorem hashable_atom (c : Cls) (p : Payload) : hashable (.atom c p) = true := by simp [hashable]

theorem hashable_seq_tuple (ys : List V) (h : hashableL ys = true) : hashable (.seq .tuple ys) = true := by
  simp [hashable, h]

theorem hashable_seq_frozenset (ys : List V) (h : hashableL ys = true) : hashable (.seq .frozenset ys) = true := by
  simp [hashable, h]

theorem frozenset_sub_only (c : Cls) (h : issub c .frozenset = true) : c = .frozenset := by
  have h0 : (!(issub c .frozenset) || c == .frozenset) = true :=
    forall_cls (P := fun c => !(issub c .frozenset) || c == .frozenset) (by decide) c
  rw [h] at h0
  simpa using h0

theorem stdL_strChars : ∀ (s : Str), V.stdL (strChars s) = true
  | [] => by simp [strChars]
  | ch :: s => by
    have ih := stdL_strChars s
    unfold strChars at ih ⊢
    simp [V.std, atomOK, ih]

theorem stdL_bytesInts : ∀ (b : List Nat), V.stdL (bytesInts b) = true
  | [] => by simp [bytesInts]
  | n :: b => by
    have ih := stdL_bytesInts b
    unfold bytesInts at ih ⊢
    simp only [List.map_cons, V.stdL_cons, V.std, atomOK, Bool.and_eq_true]
    exact ⟨by simp, ih⟩

/-- the items of a standard value are standard values -/
theorem std_iter {v : V} {xs : List V} (hv : v.std = true) (hx : iter v = some xs) : V.stdL xs = true := by
  cases v with
  | seq c l =>
    simp only [V.std, Bool.and_eq_true] at hv
    simp only [iter_seq, Option.some.injEq] at hx
    subst hx; exact hv.2
  | map c ks vs =>
    simp only [V.std, Bool.and_eq_true] at hv
    simp only [iter_map, Option.some.injEq] at hx
    subst hx; exact hv.1.2
  | atom c p =>
    unfold iter at hx
    simp only at hx
    split at hx
    · cases p with
      | unit => simp [iterate] at hx
      | int i => simp [iterate] at hx
      | str s =>
        simp only [iterate, Option.some.injEq] at hx
        subst hx
        exact stdL_strChars s
      | bytes b =>
        simp only [iterate, Option.some.injEq] at hx
        subst hx
        exact stdL_bytesInts b
    · cases hx

theorem hashableL_of_forall {ys : List V} (h : ∀ y ∈ ys, hashable y = true) : hashableL ys = true :=
  (hashableL_iff ys).mpr h

mutual
/-- a `hashTy` pattern stores hashable values only -/
theorem coerce_hashable (cfg : Cfg) : ∀ (t : Ty) (x y : V), t.wf = true → hashTy t = true → x.std = true →
    coerce cfg t x = .ok y → hashable y = true
  | .any, _, _, _, hh, _, _ => by simp [hashTy] at hh
  | .cls c, x, y, _, hh, hx, h => by
    simp only [hashTy] at hh
    simp only [coerce, coerceBasic] at h
    split at h
    · rename_i hi
      cases h
      -- an instance of a scalar class among the standard values is an atom
      cases x with
      | atom c' p => exact hashable_atom c' p
      | seq k l =>
        exfalso
        simp only [V.std, Bool.and_eq_true] at hx
        have := atomOnly_no_container hh (k := k) (by rw [hx.1]; rfl)
        unfold isInstance at hi
        simp only [cls_seq] at hi
        rw [this] at hi; cases hi
      | map k ks vs =>
        exfalso
        simp only [V.std, Bool.and_eq_true, beq_iff_eq] at hx
        have := atomOnly_no_container hh (k := k) (by rw [hx.1.1]; decide)
        unfold isInstance at hi
        simp only [cls_map] at hi
        rw [this] at hi; cases hi
    · split at h
      · obtain ⟨h1, h2, h3⟩ := atomOnly_ctor hh
        obtain ⟨c', p, rfl⟩ := construct_atom h h1 h2 h3
        exact hashable_atom c' p
      · cases h
  | .union l, x, y, hw, hh, hx, h => by
    simp only [coerce] at h
    simp only [Ty.wf] at hw
    simp only [hashTy] at hh
    exact coerceUnion_hashable cfg l x y false hw hh hx h
  | .tupleVar t, x, y, hw, hh, hx, h => by
    simp only [coerce] at h
    simp only [Ty.wf] at hw
    simp only [hashTy] at hh
    split at h
    · cases h
    · rename_i type_ hty
      split at h
      · cases h
      · rename_i xs hxs
        obtain ⟨ys, hys, hb⟩ := seqBody_ok h
        have htt := tuple_sub_only type_ (genType_issub hty)
        subst htt
        have hb' : build .tuple ys = .ok (.seq .tuple ys) := rfl
        rw [hb'] at hb; cases hb
        apply hashable_seq_tuple
        apply hashableL_of_forall
        intro y' hy'
        obtain ⟨x', hx', hfx⟩ := (mapM'_ok hys).2 y' hy'
        exact coerce_hashable cfg t x' y' hw hh (stdL_mem (std_iter hx hxs) hx') hfx
  | .gen o args, x, y, hw, hh, hx, h => by
    unfold coerce at h
    simp only [Ty.wf, Bool.and_eq_true] at hw
    simp only [hashTy, Bool.or_eq_true, Bool.and_eq_true, beq_iff_eq] at hh
    rcases hh with ⟨ho, hargs⟩ | ho
    · -- tuple[...]
      subst ho
      have hmio : (Cls.tuple == MIO) = false := by decide
      have htt : issub Cls.tuple Cls.tuple = true := by decide
      simp only [hmio, Bool.false_eq_true, ↓reduceIte, htt] at h
      split at h
      · cases h
      · rename_i type_ hty
        have ht2 := tuple_sub_only type_ (genType_issub hty)
        subst ht2
        simp only [tuple_not_mapping, Bool.false_eq_true, ↓reduceIte] at h
        split at h
        · cases h
        · rename_i xs hxs
          obtain ⟨hlen, ys, hys, hb⟩ := tupleBody_ok h
          have hb' : build .tuple ys = .ok (.seq .tuple ys) := rfl
          rw [hb'] at hb; cases hb
          apply hashable_seq_tuple
          exact coerceZip_hashable cfg args xs ys hw.2 hargs (std_iter hx hxs) hlen hys
    · -- frozenset[a]
      subst ho
      have hmio : (Cls.frozenset == MIO) = false := by decide
      have hnt : issub Cls.frozenset Cls.tuple = false := by decide
      simp only [hmio, Bool.false_eq_true, ↓reduceIte, hnt] at h
      split at h
      · cases h
      · rename_i type_ hty
        have ht2 := frozenset_sub_only type_ (genType_issub hty)
        subst ht2
        have hnm : issub Cls.frozenset Cls.Mapping = false := by decide
        simp only [hnm, Bool.false_eq_true, ↓reduceIte] at h
        split at h
        · cases h
        · match args, h with
          | [a], h =>
            obtain ⟨ys, _, hb⟩ := seqBody_ok h
            rcases build_form hb (by decide) (by decide) with ⟨hk, _⟩ | ⟨_, hhash, rfl⟩
            · exfalso; have : ctorKind Cls.frozenset = CtorKind.setLike := rfl
              rw [this] at hk; cases hk
            · exact hashable_seq_frozenset _ (hashableL_sub (fun z hz => dedup_mem hz) hhash)
          | [], h => cases h
          | _ :: _ :: _, h => cases h
theorem coerceUnion_hashable (cfg : Cfg) : ∀ (l : List Ty) (x y : V) (ar : Bool), Ty.wfL l = true →
    hashTyL l = true → x.std = true → coerceUnion cfg l x ar = .ok y → hashable y = true
  | [], _, _, _, _, _, _, h => by simp [coerceUnion] at h
  | a :: as, x, y, ar, hw, hh, hx, h => by
    simp only [coerceUnion] at h
    simp only [Ty.wfL_cons, Bool.and_eq_true] at hw
    simp only [hashTyL_cons, Bool.and_eq_true] at hh
    split at h
    · rename_i r hr
      cases h
      exact coerce_hashable cfg a x y hw.1 hh.1 hx hr
    · exact coerceUnion_hashable cfg as x y _ hw.2 hh.2 hx h
    · cases h
theorem coerceZip_hashable (cfg : Cfg) : ∀ (l : List Ty) (xs ys : List V), Ty.wfL l = true →
    hashTyL l = true → V.stdL xs = true → l.length = xs.length → coerceZip cfg l xs = .ok ys → hashableL ys = true
  | [], [], ys, _, _, _, _, h => by
    simp only [coerceZip] at h; cases h; simp [hashableL]
  | [], _ :: _, _, _, _, _, hl, _ => by simp at hl
  | _ :: _, [], _, _, _, _, hl, _ => by simp at hl
  | a :: as, x :: xs, ys, hw, hh, hx, hl, h => by
    simp only [coerceZip] at h
    simp only [Ty.wfL_cons, Bool.and_eq_true] at hw
    simp only [hashTyL_cons, Bool.and_eq_true] at hh
    simp only [V.stdL_cons, Bool.and_eq_true] at hx
    split at h
    · cases h
    · rename_i y hy
      split at h
      · cases h
      · rename_i ys' hys
        cases h
        simp only [hashableL, Bool.and_eq_true]
        exact ⟨coerce_hashable cfg a x y hw.1 hh.1 hx.1 hy,
               coerceZip_hashable cfg as xs ys' hw.2 hh.2 hx.2 (by simpa using hl) hys⟩
end

end PydraModel.Typing
