import PydraModel.Typing.Static3
/-
C21, part 4: the induction over the pattern.
-/
namespace PydraModel.Typing

theorem srcOf_anyFree {S : Ty} {o' : Cls} {as : List Ty} (hsrc : S.srcOf = some (o', as))
    (haf : S.anyFree = true) : Ty.anyFreeL as = true := by
  cases S with
  | cls a => simp [Ty.srcOf] at hsrc
  | any => simp [Ty.srcOf] at hsrc
  | union l => simp [Ty.srcOf] at hsrc
  | gen o args =>
    simp only [Ty.srcOf, Option.some.injEq, Prod.mk.injEq] at hsrc
    obtain ⟨rfl, rfl⟩ := hsrc
    simpa [Ty.anyFree] using haf
  | tupleVar t =>
    simp only [Ty.srcOf, Option.some.injEq, Prod.mk.injEq] at hsrc
    obtain ⟨rfl, rfl⟩ := hsrc
    simpa [Ty.anyFree] using haf

theorem stdSeq_seqLike {c : Cls} (h : stdSeqClasses.contains c = true) (hs : isSetCls c = false) :
    ctorKind c = .seqLike ∧ issub c .Mapping = false := by
  have h0 : (!(stdSeqClasses.contains c && !(isSetCls c)) || (ctorKind c == .seqLike && !(issub c .Mapping))) = true :=
    forall_cls (P := fun c => !(stdSeqClasses.contains c && !(isSetCls c)) || (ctorKind c == .seqLike && !(issub c .Mapping)))
      (by decide) c
  rw [h, hs] at h0
  cases h1 : (ctorKind c == .seqLike) <;> cases h2 : issub c .Mapping <;> simp_all

/-- WHY THE CONTAINER CAN BE RE-BUILT: with the static class test passed and outside D25b/D25d, `type_` is
    `list` or `tuple` (never a mapping), so `type_(items)` succeeds. -/
theorem genType_build_ok (sac : Bool) {oT o' : Cls} {v : V}
    (hoT : c21Origins.contains oT = true ∨ oT = .tuple)
    (hstd : isStdValueCls v.cls = true) (hsub : issub v.cls (effCls o') = true) (hsb : isStrBytes v.cls = false)
    (hcls : stdSeqClasses.contains v.cls = true ∨ v.cls = .dict)
    (hcs : coercibleStatic (.cls o') oT = true) (hex : pgEx21 oT v = false) :
    ∃ type_, genType (cfgOf sac) oT v = .ok type_ ∧ issub type_ .Mapping = false ∧ ctorKind type_ = .seqLike := by
  have hstep := C21_tables_static_dynamic sac v.cls o' oT hstd hsub (by rw [hsb]; rfl) hcs
  unfold genType
  unfold pgEx21 at hex
  by_cases hi : isInstance v oT = true
  · simp only [hi, ↓reduceIte]
    simp only [hi, Bool.not_true, Bool.false_and, Bool.true_and, Bool.false_or, Bool.or_eq_false_iff] at hex
    rcases hcls with hc | hc
    · obtain ⟨h1, h2⟩ := stdSeq_seqLike hc hex.2
      exact ⟨v.cls, rfl, h2, h1⟩
    · exfalso
      rw [hc] at hex
      have h := hex.1
      have hd : issub Cls.dict Cls.Mapping = true := by decide
      rw [hd] at h; cases h
  · have hi' : isInstance v oT = false := by simpa using hi
    have hco : coercibleRT (cfgOf sac) v.cls oT = true := by
      rcases hstep with h | h
      · unfold isInstance at hi'; rw [hi'] at h; cases h
      · exact h
    simp only [hi', Bool.false_eq_true, ↓reduceIte, hco]
    simp only [hi', Bool.not_false, Bool.true_and, Bool.false_and, Bool.or_false] at hex
    rcases hoT with ho | ho
    · obtain ⟨_, hnm, _, hk⟩ := c21Origin_facts ho
      rcases hk with hk | hk
      · exfalso; rw [hk] at hex; simp at hex
      · subst hk; exact ⟨.list, rfl, by decide, by decide⟩
    · subst ho; exact ⟨.tuple, rfl, by decide, by decide⟩

theorem OkAr_seqBody {type_ : Cls} {f : V → R V} {xs : List V} (hk : ctorKind type_ = .seqLike)
    (h : ∀ x ∈ xs, OkAr (f x)) : OkAr (seqBody type_ f xs) := by
  unfold seqBody
  rcases mapM'_OkAr h with ⟨ys, hys⟩ | he
  · rw [hys]; simp only; rw [build_seqLike_ok ys hk]; exact OkAr_ok _
  · rw [he]; exact Or.inr rfl

theorem conformsAny_pick : ∀ (l : List Ty) (v : V), conformsAny l v = true → hitAny pbStrict pgStrict l v = false →
    Ty.wfL l = true → Ty.anyFreeL l = true →
    ∃ t ∈ l, conforms t v = true ∧ hit pbStrict pgStrict t v = false ∧ t.wf = true ∧ t.anyFree = true
  | [], _, h, _, _, _ => by simp at h
  | a :: as, v, h, hh, hw, ha => by
    simp only [conformsAny_cons, Bool.or_eq_true] at h
    simp only [hitAny_cons, Bool.or_eq_false_iff] at hh
    simp only [Ty.wfL_cons, Bool.and_eq_true] at hw
    simp only [Ty.anyFreeL_cons, Bool.and_eq_true] at ha
    rcases h with h | h
    · exact ⟨a, by simp, h, hh.1, hw.1, ha.1⟩
    · obtain ⟨t, ht, h1, h2, h3, h4⟩ := conformsAny_pick as v h hh.2 hw.2 ha.2
      exact ⟨t, by simp [ht], h1, h2, h3, h4⟩

/-- once the arity flag is set, a union ends accepted or arity-rejected (alternatives raise TypeError only) -/
theorem coerceUnion_flag (sac : Bool) : ∀ (l : List Ty) (v : V), Ty.seqPatL l = true →
    hitAny (pbEx21 sac) pgEx21 l v = false → OkAr (coerceUnion (cfgOf sac) l v true)
  | [], _, _, _ => Or.inr rfl
  | a :: as, v, hw, h1 => by
    simp only [Ty.seqPatL_cons, Bool.and_eq_true] at hw
    simp only [hitAny_cons, Bool.or_eq_false_iff] at h1
    simp only [coerceUnion]
    cases hr : coerce (cfgOf sac) a v with
    | ok r => exact OkAr_ok r
    | error e =>
      have := coerce_typeErr sac a v hw.1 h1.1 e hr
      cases e with
      | type ar' => simp only [Bool.true_or]; exact coerceUnion_flag sac as v hw.2 h1.2
      | value => cases this
      | assertion => cases this
      | other n => cases this

/-- static side of a fixed tuple pattern -/
theorem expandCheck_tuple_inv {pargs : List Ty} {S : Ty} (h : expandCheck (.gen .tuple pargs) S = .ok ()) :
    (∃ o' targs, S = .gen o' targs ∧ coercibleStatic (.cls o') .tuple = true ∧
      ((issub o' .tuple = true ∧ pargs.length = targs.length ∧ checkZip pargs targs = .ok ()) ∨
       (issub o' .tuple = false ∧ ∃ a, targs = [a] ∧ checkAllPat pargs a = .ok ()))) ∨
    (∃ t', S = .tupleVar t' ∧ checkAllPat pargs t' = .ok ()) := by
  unfold expandCheck at h
  have hnm : issub Cls.tuple Cls.Mapping = false := by decide
  have htt : issub Cls.tuple Cls.tuple = true := by decide
  cases S with
  | cls a => cases h
  | any => cases h
  | union l => cases h
  | gen o' targs =>
    left
    simp only [hnm, htt, Bool.false_eq_true, ↓reduceIte] at h
    split at h
    · cases h
    · rename_i hc
      refine ⟨o', targs, rfl, by simpa using hc, ?_⟩
      split at h
      · rename_i ht
        split at h
        · cases h
        · rename_i hl
          exact Or.inl ⟨ht, by simpa using hl, h⟩
      · rename_i ht
        match targs, h with
        | [a], h => exact Or.inr ⟨by simpa using ht, a, rfl, h⟩
        | [], h => cases h
        | _ :: _ :: _, h => cases h
  | tupleVar t' =>
    right
    simp only [hnm, htt, Bool.false_eq_true, ↓reduceIte] at h
    split at h
    · cases h
    · exact ⟨t', rfl, h⟩

mutual
/-- C21 on patterns of the restricted grammar -/
theorem c21_main (sac : Bool) : ∀ (T S : Ty) (v : V), T.seqPat = true → S.wf = true → S.anyFree = true →
    v.std = true → expandCheck T S = .ok () → conforms S v = true → hit pbStrict pgStrict S v = false →
    hit (pbEx21 sac) pgEx21 T v = false → OkAr (coerce (cfgOf sac) T v)
  | .any, _, v, _, _, _, _, _, _, _, _ => by simp only [coerce]; exact OkAr_ok v
  | .cls c, S, v, _, _, haf, hv, hchk, hc, hst, hex => by
    simp only [expandCheck] at hchk
    simp only [hit] at hex
    simp only [coerce]
    exact Or.inl (basic_step sac S c v hchk haf hc hv hst hex)
  | .union pargs, S, v, hT, hwf, haf, hv, hchk, hc, hst, hex => by
    simp only [Ty.seqPat] at hT
    simp only [hit] at hex
    simp only [coerce]
    cases S with
    | union targs =>
      simp only [expandCheck] at hchk
      simp only [Ty.wf] at hwf
      simp only [Ty.anyFree] at haf
      simp only [conforms] at hc
      simp only [hit] at hst
      obtain ⟨t, ht, h1, h2, h3, h4⟩ := conformsAny_pick targs v hc hst hwf haf
      have := forAllR_ok hchk t ht
      exact c21_union sac pargs t v false hT h3 h4 hv this h1 h2 hex
    | cls a =>
      simp only [expandCheck] at hchk
      exact c21_union sac pargs _ v false hT hwf haf hv hchk hc hst hex
    | any => simp [Ty.anyFree] at haf
    | gen o args =>
      simp only [expandCheck] at hchk
      exact c21_union sac pargs _ v false hT hwf haf hv hchk hc hst hex
    | tupleVar t =>
      simp only [expandCheck] at hchk
      exact c21_union sac pargs _ v false hT hwf haf hv hchk hc hst hex
  | .tupleVar p, S, v, hT, hwf, haf, hv, hchk, hc, hst, hex => by
    simp only [Ty.seqPat] at hT
    simp only [hit, Bool.or_eq_false_iff] at hex
    obtain ⟨o', as, hsrc, hcs, hall⟩ := expandCheck_tvar_inv hchk
    obtain ⟨xs, hxs, hsx, hwas, hel, hsub, hsb, hcls, _⟩ := conforms_gen_shape hsrc hwf hc hv hst
    obtain ⟨type_, hty, hnm, hk⟩ := genType_build_ok sac (Or.inr rfl) (std_cls hv) hsub hsb hcls hcs hex.1
    have hafs := srcOf_anyFree hsrc haf
    simp only [coerce, hty, hxs]
    rw [elems_of_iter hxs] at hex
    apply OkAr_seqBody hk
    intro x hx
    obtain ⟨s, hs, h1, h2⟩ := hel x hx
    exact c21_main sac p s x hT (wfL_mem hwas hs) (anyFreeL_mem hafs hs) (stdL_mem hsx hx) (hall s hs) h1 h2
      (any_false_mem hex.2 hx)
  | .gen o args, S, v, hT, hwf, haf, hv, hchk, hc, hst, hex => by
    simp only [Ty.seqPat, Bool.and_eq_true, Bool.or_eq_true] at hT
    unfold hit at hex
    unfold coerce
    rcases hT with ⟨hor, hargs⟩
    rcases hor with ⟨hco, hlen⟩ | ⟨hto, hlen⟩
    · -- o[p], sequence-like origin
      obtain ⟨hmio, hnmo, hnt, _⟩ := c21Origin_facts hco
      cases args with
      | nil => simp at hlen
      | cons p rest =>
        cases rest with
        | cons q r => simp at hlen
        | nil =>
          simp only [Ty.seqPatL_cons, Ty.seqPatL_nil, Bool.and_true] at hargs
          simp only [hmio, Bool.false_eq_true, ↓reduceIte, hnt, Bool.or_eq_false_iff] at hex ⊢
          obtain ⟨o', as, hsrc, hcs, hall⟩ := expandCheck_seq_inv hco hchk
          obtain ⟨xs, hxs, hsx, hwas, hel, hsub, hsb, hcls, _⟩ := conforms_gen_shape hsrc hwf hc hv hst
          obtain ⟨type_, hty, hnm, hk⟩ := genType_build_ok sac (Or.inl hco) (std_cls hv) hsub hsb hcls hcs hex.1
          have hafs := srcOf_anyFree hsrc haf
          simp only [hty, hnm, Bool.false_eq_true, ↓reduceIte, hxs]
          rw [elems_of_iter hxs] at hex
          apply OkAr_seqBody hk
          intro x hx
          obtain ⟨s, hs, h1, h2⟩ := hel x hx
          exact c21_main sac p s x hargs (wfL_mem hwas hs) (anyFreeL_mem hafs hs) (stdL_mem hsx hx) (hall s hs) h1 h2
            (any_false_mem hex.2 hx)
    · -- tuple[p1, .., pn]
      have hto' : o = .tuple := by simpa using hto
      subst hto'
      have hmio : (Cls.tuple == MIO) = false := by decide
      have htt : issub Cls.tuple Cls.tuple = true := by decide
      simp only [hmio, Bool.false_eq_true, ↓reduceIte, htt, Bool.or_eq_false_iff] at hex ⊢
      have hshape : ∃ o' as, S.srcOf = some (o', as) ∧ coercibleStatic (.cls o') .tuple = true := by
        rcases expandCheck_tuple_inv hchk with ⟨o', targs, rfl, hcs, _⟩ | ⟨t', rfl, _⟩
        · exact ⟨o', targs, rfl, hcs⟩
        · exact ⟨.tuple, [t'], rfl, by decide⟩
      obtain ⟨o', as, hsrc, hcs⟩ := hshape
      obtain ⟨xs, hxs, hsx, hwas, hel, hsub, hsb, hcls, hzip⟩ := conforms_gen_shape hsrc hwf hc hv hst
      obtain ⟨type_, hty, hnm, hk⟩ := genType_build_ok sac (Or.inr rfl) (std_cls hv) hsub hsb hcls hcs hex.1
      have hafs := srcOf_anyFree hsrc haf
      simp only [hty, hnm, Bool.false_eq_true, ↓reduceIte, hxs]
      rw [elems_of_iter hxs] at hex
      unfold tupleBody
      by_cases hl : args.length = xs.length
      · have hl' : (args.length != xs.length) = false := by simp [hl]
        simp only [hl', Bool.false_eq_true, ↓reduceIte]
        have hz : OkAr (coerceZip (cfgOf sac) args xs) := by
          rcases expandCheck_tuple_inv hchk with ⟨o'', targs, rfl, _, hbr⟩ | ⟨t', rfl, hap⟩
          · simp only [Ty.srcOf, Option.some.injEq, Prod.mk.injEq] at hsrc
            obtain ⟨rfl, rfl⟩ := hsrc
            rcases hbr with ⟨ht, hlen2, hcz⟩ | ⟨_, a, rfl, hap⟩
            · obtain ⟨hcz2, hhz⟩ := hzip ht rfl
              exact c21_zip sac args targs xs hargs hwas hafs hsx hcz hlen2 hcz2 hhz hex.2
            · have hwa : a.wf = true := wfL_mem hwas (by simp)
              have haa : a.anyFree = true := anyFreeL_mem hafs (by simp)
              refine c21_allpat sac args a xs hargs hwa haa hsx hap hl ?_ hex.2
              intro x hx
              obtain ⟨s, hs, h1, h2⟩ := hel x hx
              simp only [List.mem_singleton] at hs
              subst hs; exact ⟨h1, h2⟩
          · simp only [Ty.srcOf, Option.some.injEq, Prod.mk.injEq] at hsrc
            obtain ⟨rfl, rfl⟩ := hsrc
            have hwa : t'.wf = true := wfL_mem hwas (by simp)
            have haa : t'.anyFree = true := anyFreeL_mem hafs (by simp)
            refine c21_allpat sac args t' xs hargs hwa haa hsx hap hl ?_ hex.2
            intro x hx
            obtain ⟨s, hs, h1, h2⟩ := hel x hx
            simp only [List.mem_singleton] at hs
            subst hs; exact ⟨h1, h2⟩
        rcases hz with ⟨ys, hys⟩ | he
        · rw [hys]; simp only; rw [build_seqLike_ok ys hk]; exact OkAr_ok _
        · rw [he]; exact Or.inr rfl
      · have hl' : (args.length != xs.length) = true := by simp [hl]
        simp only [hl', ↓reduceIte]
        exact Or.inr rfl
termination_by T => sizeOf T
/-- a non-union source against the alternatives of a union pattern -/
theorem c21_union (sac : Bool) : ∀ (pargs : List Ty) (S : Ty) (v : V) (ar : Bool), Ty.seqPatL pargs = true →
    S.wf = true → S.anyFree = true → v.std = true → checkUnionFirst pargs S = .ok () → conforms S v = true →
    hit pbStrict pgStrict S v = false → hitAny (pbEx21 sac) pgEx21 pargs v = false →
    OkAr (coerceUnion (cfgOf sac) pargs v ar)
  | [], _, _, _, _, _, _, _, hchk, _, _, _ => by simp [checkUnionFirst, tErr] at hchk
  | p :: ps, S, v, ar, hT, hwf, haf, hv, hchk, hc, hst, hex => by
    simp only [Ty.seqPatL_cons, Bool.and_eq_true] at hT
    simp only [hitAny_cons, Bool.or_eq_false_iff] at hex
    simp only [checkUnionFirst] at hchk
    simp only [coerceUnion]
    split at hchk
    · rename_i hp
      have := c21_main sac p S v hT.1 hwf haf hv hp hc hst hex.1
      rcases this with ⟨y, hy⟩ | he
      · rw [hy]; exact OkAr_ok y
      · rw [he]
        simp only [Bool.or_true]
        exact coerceUnion_flag sac ps v hT.2 hex.2
    · cases hr : coerce (cfgOf sac) p v with
      | ok r => exact OkAr_ok r
      | error e =>
        have := coerce_typeErr sac p v hT.1 hex.1 e hr
        cases e with
        | type ar' => exact c21_union sac ps S v _ hT.2 hwf haf hv hchk hc hst hex.2
        | value => cases this
        | assertion => cases this
        | other n => cases this
    · cases hchk
termination_by pargs => sizeOf pargs
/-- fixed tuple source against a fixed tuple pattern -/
theorem c21_zip (sac : Bool) : ∀ (pargs targs : List Ty) (xs : List V), Ty.seqPatL pargs = true →
    Ty.wfL targs = true → Ty.anyFreeL targs = true → V.stdL xs = true → checkZip pargs targs = .ok () →
    pargs.length = targs.length → conformsZip targs xs = true → hitZip pbStrict pgStrict targs xs = false →
    hitZip (pbEx21 sac) pgEx21 pargs xs = false → OkAr (coerceZip (cfgOf sac) pargs xs)
  | [], _, _, _, _, _, _, _, _, _, _, _ => by simp only [coerceZip]; exact OkAr_ok _
  | _ :: _, [], _, _, _, _, _, _, hl, _, _, _ => by simp at hl
  | _ :: _, _ :: _, [], _, _, _, _, _, _, hc, _, _ => by simp [conformsZip] at hc
  | p :: ps, t :: ts, x :: xs, hT, hwf, haf, hsx, hchk, hl, hc, hst, hex => by
    simp only [Ty.seqPatL_cons, Bool.and_eq_true] at hT
    simp only [Ty.wfL_cons, Bool.and_eq_true] at hwf
    simp only [Ty.anyFreeL_cons, Bool.and_eq_true] at haf
    simp only [V.stdL_cons, Bool.and_eq_true] at hsx
    simp only [conformsZip, Bool.and_eq_true] at hc
    simp only [hitZip_cons, Bool.or_eq_false_iff] at hst hex
    simp only [checkZip] at hchk
    simp only [coerceZip]
    split at hchk
    · cases hchk
    · rename_i u hp
      cases u
      have h1 := c21_main sac p t x hT.1 hwf.1 haf.1 hsx.1 hp hc.1 hst.1 hex.1
      have h2 := c21_zip sac ps ts xs hT.2 hwf.2 haf.2 hsx.2 hchk (by simpa using hl) hc.2 hst.2 hex.2
      rcases h1 with ⟨y, hy⟩ | he
      · rcases h2 with ⟨ys, hys⟩ | he2
        · simp only [hy, hys]; exact OkAr_ok _
        · simp only [hy, he2]; exact Or.inr rfl
      · simp only [he]; exact Or.inr rfl
termination_by pargs => sizeOf pargs
/-- a homogeneous source (list[s], tuple[s, ...]) against a fixed tuple pattern of the right length -/
theorem c21_allpat (sac : Bool) : ∀ (pargs : List Ty) (s : Ty) (xs : List V), Ty.seqPatL pargs = true →
    s.wf = true → s.anyFree = true → V.stdL xs = true → checkAllPat pargs s = .ok () →
    pargs.length = xs.length → (∀ x ∈ xs, conforms s x = true ∧ hit pbStrict pgStrict s x = false) →
    hitZip (pbEx21 sac) pgEx21 pargs xs = false → OkAr (coerceZip (cfgOf sac) pargs xs)
  | [], _, _, _, _, _, _, _, _, _, _ => by simp only [coerceZip]; exact OkAr_ok _
  | _ :: _, _, [], _, _, _, _, _, hl, _, _ => by simp at hl
  | p :: ps, s, x :: xs, hT, hwf, haf, hsx, hchk, hl, hall, hex => by
    simp only [Ty.seqPatL_cons, Bool.and_eq_true] at hT
    simp only [V.stdL_cons, Bool.and_eq_true] at hsx
    simp only [hitZip_cons, Bool.or_eq_false_iff] at hex
    simp only [checkAllPat] at hchk
    simp only [coerceZip]
    split at hchk
    · cases hchk
    · rename_i u hp
      cases u
      have hx := hall x (by simp)
      have h1 := c21_main sac p s x hT.1 hwf haf hsx.1 hp hx.1 hx.2 hex.1
      have h2 := c21_allpat sac ps s xs hT.2 hwf haf hsx.2 hchk (by simpa using hl)
          (fun x' hx' => hall x' (by simp [hx'])) hex.2
      rcases h1 with ⟨y, hy⟩ | he
      · rcases h2 with ⟨ys, hys⟩ | he2
        · simp only [hy, hys]; exact OkAr_ok _
        · simp only [hy, he2]; exact Or.inr rfl
      · simp only [he]; exact Or.inr rfl
termination_by pargs => sizeOf pargs
end

end PydraModel.Typing
