import PydraModel.Typing.Idem
/-
C20, clause 3 through unions: coercing an accepted value again leaves it unchanged whenever every Union
node met by the value is *stable* — the first alternative that accepts the value yields `y`, and every earlier
alternative either rejects `y` with a TypeError or returns `y` itself.  The complement of this decidable
hypothesis is finding D13u.
-/
namespace PydraModel.Typing

/-! ### decidable equality test on values (sound) -/

mutual
def V.beq : V → V → Bool
  | .atom c p, w =>
      match w with
      | .atom c' p' => c == c' && p == p'
      | _ => false
  | .seq c l, w =>
      match w with
      | .seq c' l' => c == c' && V.beqL l l'
      | _ => false
  | .map c ks vs, w =>
      match w with
      | .map c' ks' vs' => c == c' && V.beqL ks ks' && V.beqL vs vs'
      | _ => false
def V.beqL : List V → List V → Bool
  | [], ys => ys.isEmpty
  | x :: xs, ys =>
      match ys with
      | y :: ys' => V.beq x y && V.beqL xs ys'
      | [] => false
end

mutual
theorem V.beq_eq : ∀ (a b : V), V.beq a b = true → a = b
  | .atom c p, b, h => by
    cases b with
    | atom c' p' =>
      simp only [V.beq, Bool.and_eq_true, beq_iff_eq] at h
      rw [h.1, h.2]
    | seq c' l' => simp [V.beq] at h
    | map c' ks' vs' => simp [V.beq] at h
  | .seq c l, b, h => by
    cases b with
    | atom c' p' => simp [V.beq] at h
    | seq c' l' =>
      simp only [V.beq, Bool.and_eq_true, beq_iff_eq] at h
      rw [h.1, V.beqL_eq l l' h.2]
    | map c' ks' vs' => simp [V.beq] at h
  | .map c ks vs, b, h => by
    cases b with
    | atom c' p' => simp [V.beq] at h
    | seq c' l' => simp [V.beq] at h
    | map c' ks' vs' =>
      simp only [V.beq, Bool.and_eq_true, beq_iff_eq] at h
      rw [h.1.1, V.beqL_eq ks ks' h.1.2, V.beqL_eq vs vs' h.2]
theorem V.beqL_eq : ∀ (xs ys : List V), V.beqL xs ys = true → xs = ys
  | [], ys, h => by
    cases ys with
    | nil => rfl
    | cons y ys => simp [V.beqL] at h
  | x :: xs, ys, h => by
    cases ys with
    | nil => simp [V.beqL] at h
    | cons y ys =>
      simp only [V.beqL, Bool.and_eq_true] at h
      rw [V.beq_eq x y h.1, V.beqL_eq xs ys h.2]
end

/-! ### union stability -/

/-- re-coercing the stored value `y` by an earlier alternative `b` is harmless: TypeError, or `y` again -/
def goodAgain (cfg : Cfg) (y : V) (b : Ty) : Bool :=
  match coerce cfg b y with
  | .ok y' => V.beq y' y
  | .error e => e.isType

/-- the Union node `pre ++ l` (alternatives `pre` already rejected `v` with TypeError) is stable for `v` -/
def unionStable (cfg : Cfg) : List Ty → List Ty → V → Bool
  | _, [], _ => true
  | pre, a :: as, v =>
    match coerce cfg a v with
    | .ok y => pre.all (goodAgain cfg y)
    | .error (.type _) => unionStable cfg (pre ++ [a]) as v
    | .error _ => true

/-- D13u at one Union node -/
def puUnstable (sac : Bool) (l : List Ty) (v : V) : Bool := !(unionStable (cfgOf sac) [] l v)

/-- D13u match rule: some Union node met by the value is unstable -/
def d13u (sac : Bool) (t : Ty) (v : V) : Bool := hitX pNo pNoG (puUnstable sac) t v

/-- scanning `pre ++ a :: rest` on `y` when every alternative of `pre` is harmless and `a` fixes `y` -/
theorem coerceUnion_rescan (cfg : Cfg) : ∀ (pre : List Ty) (a : Ty) (rest : List Ty) (y : V),
    (∀ b ∈ pre, goodAgain cfg y b = true) → coerce cfg a y = .ok y → ∀ ar, coerceUnion cfg (pre ++ a :: rest) y ar = .ok y
  | [], a, rest, y, _, ha, ar => by simp [coerceUnion, ha]
  | b :: pre, a, rest, y, hg, ha, ar => by
    have hb := hg b (by simp)
    unfold goodAgain at hb
    simp only [List.cons_append, coerceUnion]
    split
    · rename_i r hr
      rw [hr] at hb
      rw [V.beq_eq r y hb]
    · exact coerceUnion_rescan cfg pre a rest y (fun b' hb' => hg b' (by simp [hb'])) ha _
    · rename_i e hne hr
      rw [hr] at hb
      cases e <;> simp_all [Err.isType]

mutual
/-- C20 idempotence on every pattern whose union nodes are stable for the value -/
theorem coerce_idemU (sac : Bool) : ∀ (t : Ty) (v v' : V), t.wf = true → hitX pNo pNoG (puUnstable sac) t v = false →
    hit pb13 pg13 t v = false → hit pNo pgBytes t v = false →
    coerce (cfgOf sac) t v = .ok v' → coerce (cfgOf sac) t v' = .ok v'
  | .any, _, _, _, _, _, _, _ => by simp [coerce]
  | .cls c, v, v', _, _, _, _, h => by
    have hi : isInstance v' c = true := by
      simp only [coerce, coerceBasic] at h
      split at h
      · rename_i hi; cases h; exact hi
      · split at h
        · exact construct_instance h
        · cases h
    simp [coerce, coerceBasic, hi]
  | .union l, v, v', hw, hu, h1, h2, h => by
    simp only [coerce] at h ⊢
    simp only [Ty.wf] at hw
    simp only [hit] at h1 h2
    simp only [hitX, Bool.or_eq_false_iff] at hu
    have hst : unionStable (cfgOf sac) [] l v = true := by
      have := hu.1
      unfold puUnstable at this
      simpa using this
    have := coerceUnion_idemU sac l [] v v' false hw hu.2 h1 h2 h hst false
    simpa using this
  | .tupleVar t, v, v', hw, hu, h1, h2, h => by
    simp only [coerce] at h ⊢
    simp only [Ty.wf] at hw
    simp only [hitX, pNoG, Bool.false_or] at hu
    simp only [hit, Bool.or_eq_false_iff] at h1 h2
    split at h
    · cases h
    · rename_i type_ hty
      split at h
      · cases h
      · rename_i xs hxs
        obtain ⟨ys, hys, hb⟩ := seqBody_ok h
        have hnsb := genType_not_strbytes (n := 1) (by decide) hty h1.1 h2.1
        obtain ⟨zs, rfl, hzs, hb2⟩ := build_again hb hnsb.1 hnsb.2
        have hel := elems_of_iter hxs
        rw [hel] at h1 h2 hu
        have hgt : genType (cfgOf sac) .tuple (.seq type_ zs) = .ok type_ := by
          unfold genType isInstance
          simp [genType_issub hty]
        have hfix := fix_of_mapM' hys hzs
          (fun x hx y hfx => coerce_idemU sac t x y hw (any_false_mem hu hx) (any_false_mem h1.2 hx) (any_false_mem h2.2 hx) hfx)
        simp only [hgt, iter_seq, seqBody, hfix, hb2]
  | .gen o args, v, v', hw, hu, h1, h2, h => by
    unfold coerce at h ⊢
    unfold hit at h1 h2
    simp only [Ty.wf, Bool.and_eq_true] at hw
    unfold hitX at hu
    by_cases hmio : o = MIO
    · subst hmio
      simp only [beq_self_eq_true, ↓reduceIte] at h h1 h2 hu ⊢
      match args, hw, hu, h1, h2, h with
      | [a], hw, hu, h1, h2, h =>
        simp only [Ty.wfL_cons, Ty.wfL_nil, Bool.and_true] at hw
        simp only [Bool.or_eq_false_iff] at h1 h2 hu
        -- the stored value is a plain list of fixpoints
        have hkey : ∃ zs, v' = .seq .list zs ∧ mapM' (coerce (cfgOf sac) a) zs = .ok zs := by
          rcases multiBody_ok h with ⟨y, hy, rfl⟩ | ⟨xs, ys, hxs, hys, rfl⟩
          · refine ⟨[y], rfl, ?_⟩
            have := coerce_idemU sac a v y hw.2 hu.1 h1.1 h2.1 hy
            simp [mapM', this]
          · have hel := elems_of_iter hxs
            rw [hel] at h1 h2 hu
            exact ⟨ys, rfl, fix_of_mapM' hys (fun z hz => hz)
              (fun x hx y hfx => coerce_idemU sac a x y hw.2 (any_false_mem hu.2 hx) (any_false_mem h1.2 hx) (any_false_mem h2.2 hx) hfx)⟩
        obtain ⟨zs, rfl, hfix⟩ := hkey
        have hns : (V.seq Cls.list zs).isStr = false := by
          show issub Cls.list Cls.str = false; decide
        unfold multiBody
        simp only [hns, Bool.false_eq_true, ↓reduceIte, iter_seq, hfix]
      | [], _, _, _, _, h => cases h
      | _ :: _ :: _, _, _, _, _, h => cases h
    · have hmio' : (o == MIO) = false := by simpa using hmio
      simp only [hmio', Bool.false_eq_true, ↓reduceIte, Bool.or_eq_false_iff] at h h1 h2 hu ⊢
      split at h
      · cases h
      · rename_i type_ hty
        have hsub := genType_issub hty
        have hnsb := genType_not_strbytes hw.1 hty h1.1 h2.1
        split at h
        · -- mapping
          rename_i hmap
          match args, hw, hu, h1, h2, h with
          | [kp, vp], hw, hu, h1, h2, h =>
            simp only [Ty.wfL_cons, Ty.wfL_nil, Bool.and_true, Bool.and_eq_true] at hw
            obtain ⟨c, ks, vs, ks', vs', rfl, hks, hvs, hb⟩ := mapBody_ok h
            have hnt : issub o .tuple = false := by
              cases ht : issub o .tuple with
              | false => rfl
              | true =>
                have h4 := tuple_sub_only type_ (issub_trans hsub ht)
                rw [h4, tuple_not_mapping] at hmap
                cases hmap
            simp only [hnt, Bool.false_eq_true, ↓reduceIte, elems_map, vals, Bool.or_eq_false_iff] at h1 h2 hu
            -- shape of the stored dict
            unfold buildMap at hb
            split at hb
            · rename_i hhash
              simp only at hb
              unfold construct at hb
              rcases mapping_ctorKind type_ hmap with hk | hk <;> simp only [hk] at hb
              · cases hb
                have hinv := dictBuild_inv ks' vs' ([], []) (by simp [NoEq]) rfl
                have hmem := dictBuild_mem ks' vs' ([], [])
                have hk2 : ∀ z ∈ (dictBuild ks' vs' ([], [])).1, z ∈ ks' := by
                  intro z hz; rcases hmem.1 z hz with h | h
                  · simp at h
                  · exact h
                have hv2 : ∀ z ∈ (dictBuild ks' vs' ([], [])).2, z ∈ vs' := by
                  intro z hz; rcases hmem.2 z hz with h | h
                  · simp at h
                  · exact h
                have hfk := fix_of_mapM' hks hk2
                  (fun x hx y hfx => coerce_idemU sac kp x y hw.2.1 (any_false_mem hu.2.1 hx) (any_false_mem h1.2.1 hx) (any_false_mem h2.2.1 hx) hfx)
                have hfv := fix_of_mapM' hvs hv2
                  (fun x hx y hfx => coerce_idemU sac vp x y hw.2.2 (any_false_mem hu.2.2 hx) (any_false_mem h1.2.2 hx) (any_false_mem h2.2.2 hx) hfx)
                have hgt : genType (cfgOf sac) o (.map type_ (dictBuild ks' vs' ([], [])).1 (dictBuild ks' vs' ([], [])).2)
                    = .ok type_ := by
                  unfold genType isInstance
                  simp [hsub]
                have hid := dictBuild_id (dictBuild ks' vs' ([], [])).1 (dictBuild ks' vs' ([], [])).2 ([], [])
                  (by simpa using hinv.1) rfl hinv.2
                simp only [hgt, hmap, ↓reduceIte, mapBody, hfk, hfv]
                unfold buildMap
                rw [hashableL_sub hk2 hhash]
                simp only [↓reduceIte]
                rw [hid]
                unfold construct
                simp only [hk, List.nil_append]
              · cases hb
            · cases hb
          | [], _, _, _, _, h => cases h
          | [_], _, _, _, _, h => cases h
          | _ :: _ :: _ :: _, _, _, _, _, h => cases h
        · rename_i hmap
          have hmap' : issub type_ .Mapping = false := by simpa using hmap
          split at h
          · cases h
          · rename_i xs hxs
            have hel := elems_of_iter hxs
            split at h
            · -- tuple
              rename_i htup
              obtain ⟨hlen, ys, hys, hb⟩ := tupleBody_ok h
              have htt : type_ = .tuple := tuple_sub_only type_ (issub_trans hsub htup)
              subst htt
              have hb' : build .tuple ys = .ok (.seq .tuple ys) := rfl
              rw [hb'] at hb
              cases hb
              simp only [htup, ↓reduceIte, hel] at h1 h2 hu
              have hgt : genType (cfgOf sac) o (.seq .tuple ys) = .ok .tuple := by
                unfold genType isInstance
                simp [hsub]
              have hl2 := coerceZip_len (cfgOf sac) args xs ys hlen hys
              have hz := coerceZip_idemU sac args xs ys hw.2 hu.2 h1.2 h2.2 hlen hys
              have hne : (args.length != ys.length) = false := by simp [hlen, hl2]
              simp only [hgt, hmap', Bool.false_eq_true, ↓reduceIte, iter_seq, htup, tupleBody, hne, hz, hb']
            · rename_i htup
              have htup' : issub o .tuple = false := by simpa using htup
              match args, hw, hu, h1, h2, h with
              | [a], hw, hu, h1, h2, h =>
                simp only [Ty.wfL_cons, Ty.wfL_nil, Bool.and_true] at hw
                obtain ⟨ys, hys, hb⟩ := seqBody_ok h
                obtain ⟨zs, rfl, hzs, hb2⟩ := build_again hb hnsb.1 hnsb.2
                simp only [htup', Bool.false_eq_true, ↓reduceIte, hel] at h1 h2 hu
                have hgt : genType (cfgOf sac) o (.seq type_ zs) = .ok type_ := by
                  unfold genType isInstance
                  simp [hsub]
                have hfix := fix_of_mapM' hys hzs
                  (fun x hx y hfx => coerce_idemU sac a x y hw.2 (any_false_mem hu.2 hx) (any_false_mem h1.2 hx) (any_false_mem h2.2 hx) hfx)
                simp only [hgt, hmap', Bool.false_eq_true, ↓reduceIte, iter_seq, htup', seqBody, hfix, hb2]
              | [], _, _, _, _, h => cases h
              | _ :: _ :: _, _, _, _, _, h => cases h
theorem coerceZip_idemU (sac : Bool) : ∀ (l : List Ty) (xs ys : List V), Ty.wfL l = true →
    hitXZip pNo pNoG (puUnstable sac) l xs = false → hitZip pb13 pg13 l xs = false → hitZip pNo pgBytes l xs = false → l.length = xs.length →
    coerceZip (cfgOf sac) l xs = .ok ys → coerceZip (cfgOf sac) l ys = .ok ys
  | [], [], ys, _, _, _, _, _, h => by
    simp only [coerceZip] at h; cases h; simp [coerceZip]
  | [], _ :: _, _, _, _, _, _, hl, _ => by simp at hl
  | _ :: _, [], _, _, _, _, _, hl, _ => by simp at hl
  | a :: as, x :: xs, ys, hw, hu, h1, h2, hl, h => by
    simp only [coerceZip] at h
    simp only [Ty.wfL_cons, Bool.and_eq_true] at hw
    simp only [hitXZip_cons, Bool.or_eq_false_iff] at hu
    simp only [hitZip_cons, Bool.or_eq_false_iff] at h1 h2
    split at h
    · cases h
    · rename_i y hy
      split at h
      · cases h
      · rename_i ys' hys
        cases h
        have i1 := coerce_idemU sac a x y hw.1 hu.1 h1.1 h2.1 hy
        have i2 := coerceZip_idemU sac as xs ys' hw.2 hu.2 h1.2 h2.2 (by simpa using hl) hys
        simp only [coerceZip, i1, i2]
theorem coerceUnion_idemU (sac : Bool) : ∀ (l pre : List Ty) (v y : V) (ar : Bool), Ty.wfL l = true →
    hitXAny pNo pNoG (puUnstable sac) l v = false → hitAny pb13 pg13 l v = false → hitAny pNo pgBytes l v = false →
    coerceUnion (cfgOf sac) l v ar = .ok y → unionStable (cfgOf sac) pre l v = true →
    ∀ ar', coerceUnion (cfgOf sac) (pre ++ l) y ar' = .ok y
  | [], _, _, _, _, _, _, _, _, h, _ => by simp [coerceUnion] at h
  | a :: as, pre, v, y, ar, hw, hu, h1, h2, h, hst => by
    intro ar'
    simp only [coerceUnion] at h
    simp only [unionStable] at hst
    simp only [Ty.wfL_cons, Bool.and_eq_true] at hw
    simp only [hitXAny_cons, Bool.or_eq_false_iff] at hu
    simp only [hitAny_cons, Bool.or_eq_false_iff] at h1 h2
    split at h
    · rename_i r hr
      cases h
      rw [hr] at hst
      have hfix := coerce_idemU sac a v y hw.1 hu.1 h1.1 h2.1 hr
      exact coerceUnion_rescan (cfgOf sac) pre a as y (by simpa using hst) hfix ar'
    · rename_i ar2 hr
      rw [hr] at hst
      have := coerceUnion_idemU sac as (pre ++ [a]) v y _ hw.2 hu.2 h1.2 h2.2 h hst ar'
      simpa using this
    · cases h
end

end PydraModel.Typing
