import PydraModel.Typing.Model
/-
Decidable side conditions used by the `_partial` theorems of C20 / C21 and by the driver:
well-formedness of types and values (the grammar the harness generates), and the *match rules* of the
known findings.  The class lists in the match rules are fixed here (they are NOT computed from the
generated tables): a table change that creates a new confusion is outside these rules on purpose.
-/
namespace PydraModel.Typing

/-! ## The grammar -/

def seqOrigins : List Cls :=
  [.list, .set, .frozenset, .Sequence, .MutableSequence, .SetABC, .MutableSet, .Iterable, .Collection, .MultiInputObj]
def mapOrigins : List Cls := [.dict, .Mapping, .MutableMapping]

/-- `o[args]` is a subscription the type grammar allows -/
def genOK (o : Cls) (n : Nat) : Bool :=
  (seqOrigins.contains o && n == 1) || (mapOrigins.contains o && n == 2) || (o == .tuple && n ≥ 1)

mutual
/-- well-formed type of the grammar -/
def Ty.wf : Ty → Bool
  | .cls _ => true
  | .any => true
  | .union l => Ty.wfL l
  | .gen o args => genOK o args.length && Ty.wfL args
  | .tupleVar t => t.wf
def Ty.wfL : List Ty → Bool
  | [] => true
  | a :: as => a.wf && Ty.wfL as
end

def seqValueClasses : List Cls := [.list, .tuple, .set, .frozenset, .MultiInputObj, .range, .dict_keys, .dict_values]

def atomOK (c : Cls) (p : Payload) : Bool :=
  match p with
  | .unit => c == .NoneType
  | .int i => c == .int || c == .float || ((c == .bool || c == .FieldBoolean) && (i == 0 || i == 1))
      || c == .FieldInteger || c == .FieldDecimal
  | .str _ => c == .str || c == .PosixPath || c == .FieldText
  | .bytes b => c == .bytes && b.all (· < 256)

mutual
def V.wf : V → Bool
  | .atom c p => atomOK c p
  | .seq c l => seqValueClasses.contains c && V.wfL l
  | .map c ks vs => c == .dict && ks.length == vs.length && V.wfL ks && V.wfL vs
def V.wfL : List V → Bool
  | [] => true
  | x :: xs => x.wf && V.wfL xs
end

/-! ## "Some position of the coercion of `v` by `t` satisfies …" (over-approximating union alternatives) -/

/-- the values of a dict (empty for anything else) -/
def vals : V → List V
  | .map _ _ vs => vs
  | _ => []

mutual
/-- `pb c v`: the basic pattern `c` meets the value `v`; `pg o v`: the generic origin `o` meets `v`. -/
def hit (pb pg : Cls → V → Bool) : Ty → V → Bool
  | .any, _ => false
  | .cls c, v => pb c v
  | .union l, v => hitAny pb pg l v
  | .tupleVar t, v => pg .tuple v || (elems v).any (fun x => hit pb pg t x)
  | .gen o args, v =>
      if o == MIO then
        (match args with
         | [a] => hit pb pg a v || (elems v).any (fun x => hit pb pg a x)
         | _ => false)
      else
        pg o v ||
        (if issub o .tuple then hitZip pb pg args (elems v)
         else
          (match args with
           | [a] => (elems v).any (fun x => hit pb pg a x)
           | [kp, vp] => (elems v).any (fun x => hit pb pg kp x) || (vals v).any (fun x => hit pb pg vp x)
           | _ => false))
def hitAny (pb pg : Cls → V → Bool) : List Ty → V → Bool
  | [], _ => false
  | a :: as, v => hit pb pg a v || hitAny pb pg as v
def hitZip (pb pg : Cls → V → Bool) : List Ty → List V → Bool
  | a :: as, x :: xs => hit pb pg a x || hitZip pb pg as xs
  | _, _ => false
end

/-! ## Known findings of C20 -/

/-- D13: generic origins that accept a `str` and expand it character by character -/
def d13Origins : List Cls := [.Sequence, .Iterable, .Collection, .set, .frozenset, .SetABC, .MutableSet]
/-- D13: bare classes that turn a `str` into the set of its characters -/
def d13Basic : List Cls := [.set, .frozenset]

def pb13 (c : Cls) (v : V) : Bool := v.isStr && d13Basic.contains c
def pg13 (o : Cls) (v : V) : Bool := v.isStr && d13Origins.contains o
def pNo (_ : Cls) (_ : V) : Bool := false
def pb13b (c : Cls) (v : V) : Bool := isSetCls v.cls && c == .str
def pgBytes (_ : Cls) (v : V) : Bool := v.cls == .bytes

/-- D13 match rule: a `str` reaches one of the patterns above. -/
def d13 (t : Ty) (v : V) : Bool := hit pb13 pg13 t v

/-- D13b match rule: a set-like container reaches the basic pattern `str` (it is stored as its `repr`). -/
def d13b (t : Ty) (v : V) : Bool := hit pb13b pNo t v

/-- restriction (not a finding by itself): a `bytes` object is expanded elementwise by a generic pattern -/
def bytesAtGen (t : Ty) (v : V) : Bool := hit pNo pgBytes t v

/-! ## C21: restricted pattern grammar, value restriction, exclusions -/

/-- generic origins allowed in the *pattern* `T` of the C21 theorem (besides `tuple`): sequence-like classes.
    Sets, mappings and MultiInputObj may appear in `T` as bare classes only. -/
def c21Origins : List Cls := [.list, .Sequence, .MutableSequence, .Iterable, .Collection]

mutual
/-- `T` is built from classes, Any, unions, `o[T]` with `o` sequence-like, `tuple[..]`, `tuple[T, ...]` -/
def Ty.seqPat : Ty → Bool
  | .cls _ => true
  | .any => true
  | .union l => Ty.seqPatL l
  | .gen o args => ((c21Origins.contains o && args.length == 1) || (o == .tuple && args.length ≥ 1)) && Ty.seqPatL args
  | .tupleVar t => t.seqPat
def Ty.seqPatL : List Ty → Bool
  | [] => true
  | a :: as => a.seqPat && Ty.seqPatL as
end

@[simp] theorem Ty.seqPatL_nil : Ty.seqPatL [] = true := by simp [Ty.seqPatL]
@[simp] theorem Ty.seqPatL_cons (a : Ty) (as : List Ty) : Ty.seqPatL (a :: as) = (a.seqPat && Ty.seqPatL as) := by
  simp [Ty.seqPatL]

def stdSeqClasses : List Cls := [.list, .tuple, .set, .frozenset]

mutual
/-- run-time values of the C21 theorem: scalars and list/tuple/set/frozenset/dict containers -/
def V.std : V → Bool
  | .atom c p => atomOK c p
  | .seq c l => stdSeqClasses.contains c && V.stdL l
  | .map c ks vs => c == .dict && V.stdL ks && V.stdL vs
def V.stdL : List V → Bool
  | [] => true
  | x :: xs => x.std && V.stdL xs
end

@[simp] theorem V.stdL_nil : V.stdL [] = true := by simp [V.stdL]
@[simp] theorem V.stdL_cons (x : V) (xs : List V) : V.stdL (x :: xs) = (x.std && V.stdL xs) := by simp [V.stdL]

def isStrBytes (c : Cls) : Bool := c == .str || c == .bytes

/-- (S, v): a str / bytes value inhabits only the bare class `str` / `bytes`, never an abstract
    sequence class or a generic type (`"abc"` as a `Sequence[str]` is C20's D13 territory) -/
def pbStrict (a : Cls) (v : V) : Bool := isStrBytes v.cls && a != v.cls
def pgStrict (_ : Cls) (v : V) : Bool := isStrBytes v.cls
def strictAtoms (S : Ty) (v : V) : Bool := !(hit pbStrict pgStrict S v)

def R.isOk {α} : R α → Bool
  | .ok _ => true
  | .error _ => false

/-- D25 / D25b / D25c at a bare class: the value is not an instance, the tables allow the coercion, and the
    constructor call raises (`bytes(['ab'])`, `Sequence({1})`, `os.PathLike('a')`, `set([[1]])`, `MultiInputObj(5)`) -/
def pbEx21 (sac : Bool) (c : Cls) (v : V) : Bool :=
  !(isInstance v c) && coercibleRT { sac := sac } v.cls c && !(R.isOk (construct c v))
/-- D25b at a generic origin (abstract origin, value not an instance), D25d (a dict instance of a non-mapping
    origin: ValueError), and the restriction that a set/frozenset value is not re-built through an abstract origin -/
def pgEx21 (o : Cls) (v : V) : Bool :=
  (!(isInstance v o) && ctorKind o == .noCtor) || (isInstance v o && (issub v.cls .Mapping || isSetCls v.cls))
def ex21 (sac : Bool) (T : Ty) (v : V) : Bool := hit (pbEx21 sac) pgEx21 T v

/-! ## General traversal: generic predicates see the pattern arguments, union nodes have their own predicate -/

mutual
/-- like `hit`, with `pg o args v` (the generic origin `o[args]` meets `v`) and `pu alts v` (a Union node meets `v`) -/
def hitX (pb : Cls → V → Bool) (pg : Cls → List Ty → V → Bool) (pu : List Ty → V → Bool) : Ty → V → Bool
  | .any, _ => false
  | .cls c, v => pb c v
  | .union l, v => pu l v || hitXAny pb pg pu l v
  | .tupleVar t, v => pg .tuple [t] v || (elems v).any (fun x => hitX pb pg pu t x)
  | .gen o args, v =>
      if o == MIO then
        (match args with
         | [a] => hitX pb pg pu a v || (elems v).any (fun x => hitX pb pg pu a x)
         | _ => false)
      else
        pg o args v ||
        (if issub o .tuple then hitXZip pb pg pu args (elems v)
         else
          (match args with
           | [a] => (elems v).any (fun x => hitX pb pg pu a x)
           | [kp, vp] => (elems v).any (fun x => hitX pb pg pu kp x) || (vals v).any (fun x => hitX pb pg pu vp x)
           | _ => false))
def hitXAny (pb : Cls → V → Bool) (pg : Cls → List Ty → V → Bool) (pu : List Ty → V → Bool) : List Ty → V → Bool
  | [], _ => false
  | a :: as, v => hitX pb pg pu a v || hitXAny pb pg pu as v
def hitXZip (pb : Cls → V → Bool) (pg : Cls → List Ty → V → Bool) (pu : List Ty → V → Bool) : List Ty → List V → Bool
  | a :: as, x :: xs => hitX pb pg pu a x || hitXZip pb pg pu as xs
  | _, _ => false
end

def pNoG (_ : Cls) (_ : List Ty) (_ : V) : Bool := false
def pNoU (_ : List Ty) (_ : V) : Bool := false

@[simp] theorem hitXAny_nil (pb : Cls → V → Bool) (pg : Cls → List Ty → V → Bool) (pu : List Ty → V → Bool) (v : V) :
    hitXAny pb pg pu [] v = false := by simp [hitXAny]
@[simp] theorem hitXAny_cons (pb : Cls → V → Bool) (pg : Cls → List Ty → V → Bool) (pu : List Ty → V → Bool)
    (a : Ty) (as : List Ty) (v : V) :
    hitXAny pb pg pu (a :: as) v = (hitX pb pg pu a v || hitXAny pb pg pu as v) := by simp [hitXAny]
@[simp] theorem hitXZip_cons (pb : Cls → V → Bool) (pg : Cls → List Ty → V → Bool) (pu : List Ty → V → Bool)
    (a : Ty) (as : List Ty) (x : V) (xs : List V) :
    hitXZip pb pg pu (a :: as) (x :: xs) = (hitX pb pg pu a x || hitXZip pb pg pu as xs) := by simp [hitXZip]

/-! ## C21, whole grammar: exclusions that see the item / key patterns -/

/-- classes all of whose (standard) instances are scalars -/
def atomOnlyClasses : List Cls := [.NoneType, .bool, .int, .float, .str, .bytes, .PosixPath, .Path, .PathLike]

mutual
/-- every value this pattern stores is hashable: scalars, tuples of such, frozensets, unions of such -/
def hashTy : Ty → Bool
  | .cls c => atomOnlyClasses.contains c
  | .any => false
  | .union l => hashTyL l
  | .gen o args => (o == .tuple && hashTyL args) || o == .frozenset
  | .tupleVar t => hashTy t
def hashTyL : List Ty → Bool
  | [] => true
  | a :: as => hashTy a && hashTyL as
end

@[simp] theorem hashTyL_nil : hashTyL [] = true := by simp [hashTyL]
@[simp] theorem hashTyL_cons (a : Ty) (as : List Ty) : hashTyL (a :: as) = (hashTy a && hashTyL as) := by simp [hashTyL]

def elemHashOK : List Ty → Bool
  | [a] => hashTy a
  | _ => true
def keyHashOK : List Ty → Bool
  | [kp, _] => hashTy kp
  | _ => true

/-- a set / frozenset is (re-)built at this position -/
def setBuild (o : Cls) (v : V) : Bool :=
  (isInstance v o && isSetCls v.cls) || (!(isInstance v o) && ctorKind o == .setLike)

/-- exclusions of the whole-grammar C21 theorem at a generic pattern `o[args]`:
    D25b (abstract origin, value not an instance), D25d (a dict instance of a non-mapping origin: ValueError),
    D25c in its static form (a set is built from items, or a dict from keys, whose pattern is not `hashTy`) -/
def pgEx21x (o : Cls) (args : List Ty) (v : V) : Bool :=
  (!(isInstance v o) && ctorKind o == .noCtor)
  || (isInstance v o && issub v.cls .Mapping && !(issub o .Mapping))
  || (setBuild o v && !(elemHashOK args))
  || (issub o .Mapping && !(keyHashOK args))
def ex21x (sac : Bool) (T : Ty) (v : V) : Bool := hitX (pbEx21 sac) pgEx21x pNoU T v

/-! ### unfolding lemmas for the list-level helper functions -/

@[simp] theorem Ty.wfL_nil : Ty.wfL [] = true := by simp [Ty.wfL]
@[simp] theorem Ty.wfL_cons (a : Ty) (as : List Ty) : Ty.wfL (a :: as) = (a.wf && Ty.wfL as) := by simp [Ty.wfL]
@[simp] theorem hitAny_nil (pb pg : Cls → V → Bool) (v : V) : hitAny pb pg [] v = false := by simp [hitAny]
@[simp] theorem hitAny_cons (pb pg : Cls → V → Bool) (a : Ty) (as : List Ty) (v : V) :
    hitAny pb pg (a :: as) v = (hit pb pg a v || hitAny pb pg as v) := by simp [hitAny]
@[simp] theorem hitZip_cons (pb pg : Cls → V → Bool) (a : Ty) (as : List Ty) (x : V) (xs : List V) :
    hitZip pb pg (a :: as) (x :: xs) = (hit pb pg a x || hitZip pb pg as xs) := by simp [hitZip]

end PydraModel.Typing
