import PydraModel.Gen.TypeTables
/-
Engine `Typing` (DESIGN §5.6): executable model of pydra/utils/typing.py

  TypeParser.__init__/expand_pattern   -> the pattern grammar `Ty`
  TypeParser.coerce and its inner functions (expand_and_coerce, coerce_basic, coerce_union,
    coerce_multi_input, coerce_mapping, coerce_tuple, coerce_sequence, coerce_obj)   -> `coerce`
  TypeParser.check_type and its inner functions (expand_and_check, check_basic, check_union,
    check_mapping, check_tuple, check_sequence) + the MultiInputObj retry                -> `checkType`
  check_coercible / check_type_coercible / is_instance / is_subclass                     -> `coercibleRT`,
    `coercibleStatic`, `isInstance`, `isSubTy`
  the class tables (`issub`, `coercibleDefault`, `notCoercibleDefault`) come from Gen/TypeTables.lean,
  regenerated from the running interpreter on every check.

The model mirrors the algorithm of the pinned commit, including its defects (D13, D25).
Not modelled: `attrs.NOTHING` / LazyField / StateArray pass-through of `__call__`, `ty.Type[...]`,
fileformats and numpy classes (outside the class universe), `match_any_of_union`.
-/
namespace PydraModel.Typing

abbrev Str := List Char

/-! ## Types (patterns) and values -/

/-- A declared type / an expanded pattern.  `None` is `cls NoneType`; `tuple[T, ...]` is `tupleVar T`;
    `MultiInputObj[T]` is `gen MultiInputObj [T]`; a bare class or an unsubscripted alias is `cls`. -/
inductive Ty
  | cls (c : Cls)
  | any
  | union (l : List Ty)
  | gen (o : Cls) (args : List Ty)
  | tupleVar (t : Ty)
  deriving Repr, Inhabited

inductive Payload
  | unit
  | int (i : Int)          -- int, bool (0/1), float (integral floats only)
  | str (s : Str)          -- str, PosixPath
  | bytes (b : List Nat)
  deriving Repr, DecidableEq, Inhabited

/-- A Python value with its concrete class. `seq`: list/tuple/set/frozenset/MultiInputObj/range/dict views,
    elements in iteration order; `map`: dict as parallel key/value lists in insertion order. -/
inductive V
  | atom (c : Cls) (p : Payload)
  | seq (c : Cls) (l : List V)
  | map (c : Cls) (ks vs : List V)
  deriving Repr, Inhabited

/-- Exceptions by class: `type arity` = TypeError (`arity` records that a fixed-length tuple length
    mismatch contributed), `value` = ValueError, `assertion` = AssertionError, `other` = any other class. -/
inductive Err
  | type (arity : Bool)
  | value
  | assertion
  | other (name : String)
  deriving Repr, DecidableEq, Inhabited

def Err.isType : Err → Bool
  | .type _ => true
  | _ => false

def Err.arity : Err → Bool
  | .type a => a
  | _ => false

abbrev R := Except Err

def tErr {α} : R α := .error (.type false)

def V.cls : V → Cls
  | .atom c _ => c
  | .seq c _ => c
  | .map c _ _ => c

/-- `isinstance(v, c)` -/
def isInstance (v : V) (c : Cls) : Bool := issub v.cls c

def V.isStr (v : V) : Bool := issub v.cls .str

/-! ## Python value helpers: iteration, hashing, equality, repr -/

def strChars (s : Str) : List V := s.map (fun ch => .atom .str (.str [ch]))
def bytesInts (b : List Nat) : List V := b.map (fun n => .atom .int (.int (Int.ofNat n)))

/-- `list(v)`: `none` when `v` is not iterable (TypeError). -/
def iterate : V → Option (List V)
  | .atom _ (.str s) => some (strChars s)       -- a PosixPath has a `str` payload but is not iterable:
  | .atom _ (.bytes b) => some (bytesInts b)
  | .atom _ _ => none
  | .seq _ l => some l
  | .map _ ks _ => some ks

/-- `iterate` restricted to the classes that really are iterable (`PosixPath` carries a str payload). -/
def iter (v : V) : Option (List V) :=
  match v with
  | .atom c _ => if issub c .Iterable then iterate v else none
  | _ => iterate v

mutual
/-- `hash(v)` succeeds (a `dict_values` view hashes by identity whatever it contains) -/
def hashable : V → Bool
  | .atom _ _ => true
  | .seq c l => c == .dict_values || ((c == .tuple || c == .frozenset || c == .range) && hashableL l)
  | .map _ _ _ => false
def hashableL : List V → Bool
  | [] => true
  | x :: xs => hashable x && hashableL xs
end

def isNumCls (c : Cls) : Bool := c == .int || c == .bool || c == .float
def isSetCls (c : Cls) : Bool := c == .set || c == .frozenset || c == .dict_keys

mutual
/-- Python `==` on the *hashable* part of the value universe (the only place the parser compares
    values is set/dict construction): numeric tower True == 1 == 1.0, tuple == tuple elementwise,
    set-like == set-like as sets.  Unhashable values never reach it (answer `false`). -/
def pyEq : V → V → Bool
  | .atom c p, w =>
      match w with
      | .atom c' p' => if isNumCls c && isNumCls c' then p == p' else c == c' && p == p'
      | _ => false
  | .seq c l, w =>
      match w with
      | .seq c' l' =>
        if isSetCls c && isSetCls c' then subL l l' && l'.all (fun y => memL2 l y)
        else c == c' && c != .dict_values && pyEqL l l'     -- dict_values compare by identity: distinct objects differ
      | _ => false
  | .map _ _ _, _ => false
def pyEqL : List V → List V → Bool
  | [], ys => ys.isEmpty
  | x :: xs, ys =>
    match ys with
    | y :: ys' => pyEq x y && pyEqL xs ys'
    | [] => false
/-- every element of the first list is `==` to some element of the second -/
def subL : List V → List V → Bool
  | [], _ => true
  | x :: xs, l' => l'.any (fun y => pyEq x y) && subL xs l'
/-- `y` is `==` to some element of the list -/
def memL2 : List V → V → Bool
  | [], _ => false
  | x :: xs, y => pyEq x y || memL2 xs y
end

/-- set construction: keep the first of `==` elements, in order -/
def dedupAux (acc : List V) : List V → List V
  | [] => acc.reverse
  | x :: xs => if acc.any (fun e => pyEq e x) then dedupAux acc xs else dedupAux (x :: acc) xs

def dedup (l : List V) : List V := dedupAux [] l

/-- dict construction from items in order: an `==` key keeps the first key object and takes the last value -/
def dictInsert (k v : V) : List V → List V → List V × List V
  | k' :: ks, v' :: vs =>
      if pyEq k' k then (k' :: ks, v :: vs)
      else let r := dictInsert k v ks vs; (k' :: r.1, v' :: r.2)
  | _, _ => ([k], [v])

def dictBuild : List V → List V → List V × List V → List V × List V
  | k :: ks, v :: vs, acc => dictBuild ks vs (dictInsert k v acc.1 acc.2)
  | _, _, acc => acc

/-! ### `repr` (needed because `str(list)` is reachable: D13) -/

def natDigits (n : Nat) : Str := (toString n).toList
def intRepr (i : Int) : Str := if i < 0 then '-' :: natDigits i.natAbs else natDigits i.natAbs

def hexDigit (n : Nat) : Char := if n < 10 then Char.ofNat (48 + n) else Char.ofNat (87 + n)

/-- `repr` of one character inside a str literal quoted with `q` -/
def reprChar (q : Char) (c : Char) : Str :=
  if c == '\\' then ['\\', '\\']
  else if c == q then ['\\', q]
  else if c == '\n' then ['\\', 'n']
  else if c == '\r' then ['\\', 'r']
  else if c == '\t' then ['\\', 't']
  else if c.toNat < 32 || c.toNat == 127 then ['\\', 'x', hexDigit (c.toNat / 16), hexDigit (c.toNat % 16)]
  else [c]

def strRepr (s : Str) : Str :=
  let q : Char := if s.contains '\'' && !s.contains '"' then '"' else '\''
  q :: (s.flatMap (reprChar q)) ++ [q]

def byteRepr (q : Char) (n : Nat) : Str :=
  if n == 92 then ['\\', '\\']
  else if n == q.toNat then ['\\', q]
  else if n == 10 then ['\\', 'n']
  else if n == 13 then ['\\', 'r']
  else if n == 9 then ['\\', 't']
  else if n < 32 || n ≥ 127 then ['\\', 'x', hexDigit (n / 16), hexDigit (n % 16)]
  else [Char.ofNat n]

def bytesRepr (b : List Nat) : Str :=
  let q : Char := if b.contains 39 && !b.contains 34 then '"' else '\''
  'b' :: q :: (b.flatMap (byteRepr q)) ++ [q]

def joinComma : List Str → Str
  | [] => []
  | [x] => x
  | x :: xs => x ++ [',', ' '] ++ joinComma xs

def isRange0 (l : List V) : Bool :=
  (l.zipIdx).all (fun (x, i) => match x with | .atom _ (.int j) => j == i | _ => false)

mutual
def pyRepr : V → Str
  | .atom c p =>
      match p with
      | .unit => "None".toList
      | .int i =>
          if c == .bool then (if i == 0 then "False".toList else "True".toList)
          else if c == .FieldInteger then "Integer(".toList ++ intRepr i ++ [')']
          else if c == .FieldDecimal then "Decimal(".toList ++ intRepr i ++ [')']
          else if c == .FieldBoolean then (if i == 0 then "Boolean(false)".toList else "Boolean(true)".toList)
          else if c == .float then intRepr i ++ ".0".toList
          else intRepr i
      | .str s =>
          if c == .PosixPath then "PosixPath(".toList ++ strRepr s ++ [')']
          else if c == .FieldText then "Text(\"".toList ++ s ++ "\")".toList
          else strRepr s
      | .bytes b => bytesRepr b
  | .seq c l =>
      let inner := joinComma (pyReprL l)
      if c == .tuple then
        (match l with
         | [_] => '(' :: inner ++ [',', ')']
         | _ => '(' :: inner ++ [')'])
      else if c == .set then (if l.isEmpty then "set()".toList else '{' :: inner ++ ['}'])
      else if c == .frozenset then
        (if l.isEmpty then "frozenset()".toList else "frozenset({".toList ++ inner ++ "})".toList)
      else if c == .range then "range(0, ".toList ++ natDigits l.length ++ [')']
      else if c == .dict_keys then "dict_keys([".toList ++ inner ++ "])".toList
      else if c == .dict_values then "dict_values([".toList ++ inner ++ "])".toList
      else '[' :: inner ++ [']']
  | .map _ ks vs =>
      '{' :: joinComma (List.zipWith (fun k v => k ++ [':', ' '] ++ v) (pyReprL ks) (pyReprL vs)) ++ ['}']
def pyReprL : List V → List Str
  | [] => []
  | x :: xs => pyRepr x :: pyReprL xs
end

/-- `str(v)` -/
def pyStr : V → Str
  | .atom _ (.str s) => s           -- str and PosixPath
  | v => pyRepr v

/-! ### PurePosixPath normalisation (`Path(s)`) -/

def splitSlash : Str → List Str
  | [] => [[]]
  | c :: cs =>
    if c == '/' then [] :: splitSlash cs
    else match splitSlash cs with
      | [] => [[c]]
      | p :: ps => (c :: p) :: ps

def joinSlash : List Str → Str
  | [] => []
  | [x] => x
  | x :: xs => x ++ ['/'] ++ joinSlash xs

def leadingSlashes : Str → Nat
  | '/' :: cs => leadingSlashes cs + 1
  | _ => 0

/-- `str(PurePosixPath(s))` -/
def pathNorm (s : Str) : Str :=
  let n := leadingSlashes s
  let root : Str := if n == 0 then [] else if n == 2 then ['/', '/'] else ['/']
  let parts := (splitSlash s).filter (fun p => !(p.isEmpty || p == ['.']))
  let body := joinSlash parts
  if root.isEmpty && body.isEmpty then ['.'] else root ++ body

/-! ## Constructors: `type_(obj)` of `coerce_obj` -/

inductive CtorKind
  | seqLike      -- list, tuple, MultiInputObj: keeps the elements
  | setLike      -- set, frozenset: hashable elements, deduplicated
  | dictLike     -- dict
  | strLike      -- str
  | bytesLike    -- bytes
  | floatLike | intLike | boolLike
  | pathLike     -- Path / PosixPath -> PosixPath
  | fieldLike    -- fileformats field.Integer / Decimal / Text / Boolean (wrap a primitive value)
  | noCtor       -- abstract classes, NoneType, object, range, dict views: the call raises TypeError
  deriving DecidableEq, Repr

def ctorKind : Cls → CtorKind
  | .list | .tuple | .MultiInputObj => .seqLike
  | .set | .frozenset => .setLike
  | .dict => .dictLike
  | .str => .strLike
  | .bytes => .bytesLike
  | .float => .floatLike
  | .int => .intLike
  | .bool => .boolLike
  | .Path | .PosixPath => .pathLike
  | .FieldInteger | .FieldDecimal | .FieldText | .FieldBoolean => .fieldLike
  | _ => .noCtor

/-- which classes carrying an integer payload a fileformats field constructor accepts -/
def fieldAccepts (tgt c : Cls) : Bool :=
  if tgt == .FieldInteger then c == .int || c == .bool || c == .FieldInteger
  else if tgt == .FieldDecimal then isNumCls c || c == .FieldInteger || c == .FieldDecimal
  else if tgt == .FieldBoolean then isNumCls c || c == .FieldBoolean || c == .FieldInteger
  else false

def byteOf : V → Option Nat
  | .atom c (.int i) => if (c == .int || c == .bool) && 0 ≤ i && i < 256 then some i.toNat else none
  | _ => none

/-- `tgt(v)` as called by `coerce_obj`; TypeError and ValueError both become TypeError there. -/
def construct (tgt : Cls) (v : V) : R V :=
  match ctorKind tgt with
  | .seqLike =>
      match iter v with
      | some xs => .ok (.seq tgt xs)
      | none => tErr
  | .setLike =>
      match iter v with
      | some xs => if hashableL xs then .ok (.seq tgt (dedup xs)) else tErr
      | none => tErr
  | .dictLike =>
      match v with
      | .map _ ks vs => .ok (.map tgt ks vs)
      | _ => tErr
  | .strLike =>
      match v with
      | .atom c (.str s) => if c == .str then .ok v else .ok (.atom .str (.str s))
      | _ => .ok (.atom .str (.str (pyStr v)))
  | .bytesLike =>
      match v with
      | .atom _ (.bytes b) => .ok (.atom .bytes (.bytes b))
      | .seq _ l =>
          match l.mapM byteOf with
          | some bs => .ok (.atom .bytes (.bytes bs))
          | none => tErr
      | _ => tErr
  | .floatLike =>
      match v with
      | .atom c (.int i) =>
          if isNumCls c || c == .FieldInteger || c == .FieldDecimal then .ok (.atom .float (.int i)) else tErr
      | _ => tErr
  | .intLike =>
      match v with
      | .atom c (.int i) => if isNumCls c || c == .FieldInteger then .ok (.atom .int (.int i)) else tErr
      | _ => tErr
  | .boolLike =>
      match v with
      | .atom c (.int i) =>
          if isNumCls c || c == .FieldBoolean || c == .FieldInteger then .ok (.atom .bool (.int (if i == 0 then 0 else 1)))
          else tErr
      | _ => tErr
  | .pathLike =>
      match v with
      | .atom c (.str s) =>
          if c == .PosixPath then .ok v
          else if c == .str || c == .FieldText then .ok (.atom .PosixPath (.str (pathNorm s))) else tErr
      | _ => tErr
  | .fieldLike =>
      match v with
      | .atom c (.int i) =>
          if fieldAccepts tgt c then
            .ok (.atom tgt (.int (if tgt == .FieldBoolean then (if i == 0 then 0 else 1) else i)))
          else tErr
      | .atom c (.str s) =>
          if tgt == .FieldText && (c == .str || c == .FieldText || c == .PosixPath) then .ok (.atom tgt (.str s)) else tErr
      | _ => tErr
  | .noCtor => tErr

/-! ## Coercibility tables: `check_type_coercible` -/

/-- `is_subclass(c, entry)` for a table entry -/
def subTT (c : Cls) : TT → Bool
  | .any => true
  | .cls e => issub c e

def matchesCrit (tab : List (TT × TT)) (src tgt : Cls) : Bool :=
  tab.any (fun e => subTT src e.1 && subTT tgt e.2)

structure Cfg where
  sac : Bool                                   -- superclass_auto_cast
  coercible : List (TT × TT) := coercibleDefault
  notCoercible : List (TT × TT) := notCoercibleDefault

/-- the parser installed on task fields by `make_converter` -/
def fieldCfg : Cfg := { sac := fieldParserSac }
/-- `TypeParser(T)` with default arguments -/
def plainCfg : Cfg := { sac := false }

/-- `check_type_coercible(src, tgt)` does not raise, for classes `src`, `tgt` -/
def coercibleRT (cfg : Cfg) (src tgt : Cls) : Bool :=
  src == tgt || (cfg.sac && issub tgt src) ||
    (matchesCrit cfg.coercible src tgt && !matchesCrit cfg.notCoercible src tgt)

/-! ## `TypeParser.coerce` -/

def MIO : Cls := .MultiInputObj

/-- `coerce_basic` -/
def coerceBasic (cfg : Cfg) (c : Cls) (v : V) : R V :=
  if isInstance v c then .ok v
  else if coercibleRT cfg v.cls c then construct c v
  else tErr

/-- the `type_` chosen by `expand_and_coerce` for a generic pattern with origin `o` -/
def genType (cfg : Cfg) (o : Cls) (v : V) : R Cls :=
  if isInstance v o then .ok v.cls
  else if coercibleRT cfg v.cls o then .ok o
  else tErr

/-- `coerce_obj(list_of_coerced_items, type_)` -/
def build (type_ : Cls) (ys : List V) : R V := construct type_ (.seq .list ys)

/-- `coerce_obj({k: v ...}, type_)` after the dict comprehension -/
def buildMap (type_ : Cls) (ks vs : List V) : R V :=
  if hashableL ks then
    let d := dictBuild ks vs ([], [])
    construct type_ (.map .dict d.1 d.2)
  else tErr

def mapM' (f : V → R V) : List V → R (List V)
  | [] => .ok []
  | x :: xs =>
    match f x with
    | .error e => .error e
    | .ok y =>
      match mapM' f xs with
      | .error e => .error e
      | .ok ys => .ok (y :: ys)

/-- `coerce_sequence(type_, obj_args, [p])`: coerce every item with `f`, re-build with `type_` -/
def seqBody (type_ : Cls) (f : V → R V) (xs : List V) : R V :=
  match mapM' f xs with
  | .error e => .error e
  | .ok ys => build type_ ys

/-- `coerce_mapping(obj, type_, [kp, vp])` -/
def mapBody (type_ : Cls) (fk fv : V → R V) (v : V) : R V :=
  match v with
  | .map _ ks vs =>
    match mapM' fk ks with
    | .error e => .error e
    | .ok ks' =>
      match mapM' fv vs with
      | .error e => .error e
      | .ok vs' => buildMap type_ ks' vs'
  | _ => tErr

/-- `coerce_multi_input(obj, [a])` with `f = expand_and_coerce(·, a)` -/
def multiBody (f : V → R V) (v : V) : R V :=
  if v.isStr then
    match f v with
    | .ok y => .ok (.seq .list [y])
    | .error e => .error e
  else
    -- try: coerce_sequence(list, obj, [a]) iterating obj itself
    let attempt : R V :=
      match iter v with
      | none => tErr
      | some xs =>
        match mapM' f xs with
        | .error e => .error e
        | .ok ys => .ok (.seq .list ys)
    match attempt with
    | .ok r => .ok r
    | .error (.type ar1) =>
        match f v with
        | .ok y => .ok (.seq .list [y])
        | .error (.type ar2) => .error (.type (ar1 || ar2))   -- the TypeError raised quotes both reasons
        | .error e => .error e
    | .error e => .error e

/-- generic pattern `tuple[a1, .., an]` once `type_` and the items are known -/
def tupleBody (type_ : Cls) (n : Nat) (fz : List V → R (List V)) (xs : List V) : R V :=
  if n != xs.length then .error (.type true)
  else
    match fz xs with
    | .error e => .error e
    | .ok ys => build type_ ys

mutual
/-- `expand_and_coerce(obj, pattern)` -/
def coerce (cfg : Cfg) : Ty → V → R V
  | .any, v => .ok v
  | .cls c, v => coerceBasic cfg c v
  | .union l, v => coerceUnion cfg l v false
  | .tupleVar t, v =>
      match genType cfg .tuple v with
      | .error e => .error e
      | .ok type_ =>
        match iter v with
        | none => tErr
        | some xs => seqBody type_ (coerce cfg t) xs
  | .gen o args, v =>
      if o == MIO then
        match args with
        | [a] => multiBody (coerce cfg a) v
        | _ => .error (.other "IndexError")
      else
        match genType cfg o v with
        | .error e => .error e
        | .ok type_ =>
          if issub type_ .Mapping then
            match args with
            | [kp, vp] => mapBody type_ (coerce cfg kp) (coerce cfg vp) v
            | _ => .error .value
          else
            match iter v with
            | none => tErr
            | some xs =>
              if issub o .tuple then tupleBody type_ args.length (coerceZip cfg args) xs
              else
                match args with
                | [a] => seqBody type_ (coerce cfg a) xs
                | _ => .error .assertion
/-- `coerce_union`: first alternative that does not raise TypeError -/
def coerceUnion (cfg : Cfg) : List Ty → V → Bool → R V
  | [], _, ar => .error (.type ar)
  | a :: as, v, ar =>
    match coerce cfg a v with
    | .ok r => .ok r
    | .error (.type ar') => coerceUnion cfg as v (ar || ar')
    | .error e => .error e
/-- `[expand_and_coerce(o, p) for o, p in zip(obj_args, pattern_args)]` -/
def coerceZip (cfg : Cfg) : List Ty → List V → R (List V)
  | a :: as, x :: xs =>
    match coerce cfg a x with
    | .error e => .error e
    | .ok y =>
      match coerceZip cfg as xs with
      | .error e => .error e
      | .ok ys => .ok (y :: ys)
  | _, _ => .ok []
end

/-! ## Reference semantics: `conforms t v` — value `v` has declared type `t` (independent of `coerce`) -/

def elems (v : V) : List V := (iter v).getD []

mutual
def conforms : Ty → V → Bool
  | .any, _ => true
  | .cls c, v => isInstance v c
  | .union l, v => conformsAny l v
  | .tupleVar t, v => isInstance v .tuple && (elems v).all (fun x => conforms t x)
  | .gen o args, v =>
      if o == MIO then
        isInstance v .list && (match args with | [a] => (elems v).all (fun x => conforms a x) | _ => false)
      else
        isInstance v o &&
        (match v with
         | .map _ ks vs =>
            (match args with
             | [kp, vp] => ks.all (fun x => conforms kp x) && vs.all (fun x => conforms vp x)
             | [a] => ks.all (fun x => conforms a x)
             | _ => false)
         | _ =>
            if issub o .tuple then conformsZip args (elems v)
            else (match args with | [a] => (elems v).all (fun x => conforms a x) | _ => false))
def conformsAny : List Ty → V → Bool
  | [], _ => false
  | a :: as, v => conforms a v || conformsAny as v
def conformsZip : List Ty → List V → Bool
  | [], [] => true
  | a :: as, x :: xs => conforms a x && conformsZip as xs
  | _, _ => false
end

/-! ## `TypeParser.check_type` (static check of a lazy connection; default flags) -/

/-- what `check_type_coercible` sees as its `source` -/
inductive Src
  | cls (c : Cls)
  | any
  | unionObj          -- `typing.Union` itself: `issubclass` raises TypeError

def Ty.src : Ty → Src
  | .cls c => .cls c
  | .any => .any
  | .union _ => .unionObj
  | .gen o _ => .cls o
  | .tupleVar _ => .cls .tuple

/-- `is_subclass(source, entry)` of `matches_criteria` -/
def srcSubTT : Src → TT → Option Bool
  | _, .any => some true
  | .any, .cls _ => some false
  | .cls c, .cls e => some (issub c e)
  | .unionObj, .cls _ => none           -- TypeError from issubclass

/-- `matches_criteria(tab)` is non-empty; `none` = TypeError raised while evaluating it -/
def matchesCritS (tab : List (TT × TT)) (src : Src) (tgt : Cls) : Option Bool :=
  match tab with
  | [] => some false
  | e :: rest =>
    match srcSubTT src e.1 with
    | none => none
    | some b =>
      if b && subTT tgt e.2 then
        -- the comprehension still evaluates the remaining rows (a later row may raise)
        match matchesCritS rest src tgt with
        | none => none
        | some _ => some true
      else matchesCritS rest src tgt

/-- static `check_type_coercible(source, target)` with `superclass_auto_cast=False` -/
def coercibleStatic (src : Src) (tgt : Cls) : Bool :=
  (match src with | .cls c => c == tgt | _ => false) ||
  (match matchesCritS coercibleDefault src tgt with
   | some true =>
      (match matchesCritS notCoercibleDefault src tgt with
       | some false => true
       | _ => false)
   | _ => false)

mutual
/-- `is_subclass(tp, c)` for a type object `tp` and a class `c` -/
def isSubTy : Ty → Cls → Bool
  | .cls a, c => issub a c
  | .any, _ => false
  | .union l, c => allSubTy l c
  | .gen o _, c => issub o c
  | .tupleVar _, c => issub .tuple c
def allSubTy : List Ty → Cls → Bool
  | [], _ => true
  | a :: as, c => isSubTy a c && allSubTy as c
end

/-- the arguments of a subscripted source type, as `check_tuple`/`check_sequence` see them -/
inductive TArgs
  | fixed (l : List Ty)
  | var (t : Ty)          -- (t, Ellipsis)

def checkBasic (tp : Ty) (c : Cls) : R Unit :=
  if isSubTy tp c then .ok () else if coercibleStatic tp.src c then .ok () else tErr

/-- run `f` on every element, stop at the first exception -/
def forAllR {α} : List α → (α → R Unit) → R Unit
  | [], _ => .ok ()
  | x :: xs, f =>
    match f x with
    | .error e => .error e
    | .ok _ => forAllR xs f

mutual
/-- `expand_and_check(tp, pattern)`; first argument is the pattern (structural recursion) -/
def expandCheck : Ty → Ty → R Unit
  | .any, _ => .ok ()
  | .cls c, tp => checkBasic tp c
  | .union pargs, tp =>
      match tp with
      | .union targs => forAllR targs (fun t => checkUnionFirst pargs t)   -- every source alternative
      | _ => checkUnionFirst pargs tp
  | .tupleVar p, tp =>
      match tp with
      | .gen o' targs =>
          if !coercibleStatic (.cls o') .tuple then tErr
          else if issub o' .tuple then forAllR targs (fun t => expandCheck p t)          -- fixed tuple source: every arg against p
          else (match targs with
                | [a] => expandCheck p a                          -- `tp_args += (Ellipsis,)`
                | _ => .error .assertion)
      | .tupleVar t' => expandCheck p t'
      | _ => tErr
  | .gen o pargs, tp =>
      match tp with
      | .gen o' targs =>
          if !coercibleStatic (.cls o') o then tErr
          else if issub o .Mapping then
            (match pargs, targs with
             | [kp, vp], [kt, vt] =>
                match expandCheck kp kt with
                | .error e => .error e
                | .ok _ => expandCheck vp vt
             | _, _ => .error .value)
          else if issub o .tuple then
            if issub o' .tuple then
              (if pargs.length != targs.length then tErr else checkZip pargs targs)
            else
              (match targs with
               | [a] => checkAllPat pargs a                        -- variadic source against each pattern arg
               | _ => .error .assertion)
          else
            (match pargs with
             | [p] => forAllR targs (fun t => expandCheck p t)
             | _ => .error .assertion)
      | .tupleVar t' =>
          if !coercibleStatic (.cls .tuple) o then tErr
          else if issub o .Mapping then
            (match pargs with
             | [_, _] => .error (.other "Ellipsis")               -- unreachable with the default tables
             | _ => .error .value)
          else if issub o .tuple then checkAllPat pargs t'
          else
            (match pargs with
             | [p] => expandCheck p t'
             | _ => .error .assertion)
      | _ => tErr
/-- non-union source against a union pattern: first alternative that passes -/
def checkUnionFirst : List Ty → Ty → R Unit
  | [], _ => tErr
  | p :: ps, tp =>
    match expandCheck p tp with
    | .ok _ => .ok ()
    | .error (.type _) => checkUnionFirst ps tp
    | .error e => .error e
/-- the one source type against every pattern arg -/
def checkAllPat : List Ty → Ty → R Unit
  | [], _ => .ok ()
  | p :: ps, t =>
    match expandCheck p t with
    | .error e => .error e
    | .ok _ => checkAllPat ps t
def checkZip : List Ty → List Ty → R Unit
  | p :: ps, t :: ts =>
    match expandCheck p t with
    | .error e => .error e
    | .ok _ => checkZip ps ts
  | _, _ => .ok ()
end

/-- `TypeParser(T).check_type(S)` (pattern first).  `S = Any` passes; a failed check against
    `MultiInputObj[a]` is retried against `a` (TypeError only). -/
def checkType : Ty → Ty → R Unit
  | T, S =>
    match S with
    | .any => .ok ()
    | _ =>
      match expandCheck T S with
      | .ok _ => .ok ()
      | .error e =>
        match T with
        | .gen o [a] =>
            if o == MIO && e.isType then
              (match checkType a S with
               | .ok _ => .ok ()
               | .error (.type _) => .error e
               | .error e' => .error e')
            else .error e
        | _ => .error e

/-! ## The attrs converter installed by `make_converter` (pydra/compose/base/builder.py) -/

/-- `ensure_list` (pre-converter of fields declared as bare `MultiInputObj`) -/
def ensureList (v : V) : V :=
  if v.cls == .NoneType then .seq .list []
  else if isInstance v .list then v
  else .seq .list [v]

/-- `from_list_if_single` (pre-converter of fields declared as `MultiOutputObj`) -/
def fromListIfSingle (v : V) : V :=
  if isInstance v .Sequence && !v.isStr then
    match iter v with
    | some [x] => x
    | some xs => .seq .list xs
    | none => v
  else v

/-- `field_type == MultiOutputObj`, i.e. `Union[list, object, MultiOutputType]` in any order -/
def isMultiOutputObj : Ty → Bool
  | .union l =>
      l.length == 3 &&
      [Cls.list, Cls.object, Cls.MultiOutputType].all (fun c => l.any (fun a => match a with | .cls c' => c' == c | _ => false))
  | _ => false

def preConvert (t : Ty) (v : V) : V :=
  match t with
  | .cls c => if c == MIO then ensureList v else v
  | _ => if isMultiOutputObj t then fromListIfSingle v else v

/-- Assigning `v` to a task field declared with type `t`: the converter pipeline ends with the type
    checker; an exception leaves the attribute as it was (`none` = nothing stored by this assignment). -/
def assignField (t : Ty) (v : V) : R V := coerce fieldCfg t (preConvert t v)

def setField (old : V) (t : Ty) (v : V) : V × Option Err :=
  match assignField t v with
  | .ok v' => (v', none)
  | .error e => (old, some e)

end PydraModel.Typing
