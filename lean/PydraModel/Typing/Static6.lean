import PydraModel.Typing.Static5
/-
C21 over the whole pattern grammar, part 2: TypeError-only lemma, building `type_(items)`, the induction,
and the MultiInputObj retry of `check_type`.
-/
namespace PydraModel.Typing

/-! ### table facts about generic origins -/

theorem origin_len {o : Cls} {n : Nat} (hg : genOK o n = true) :
    (issub o .Mapping = true → n = 2) ∧
    (issub o .Mapping = false → issub o .tuple = false → n = 1) := by
  have h0 : ((!(mapOrigins.contains o) || (issub o .Mapping && !(seqOrigins.contains o) && !(o == .tuple)))
      && (!(seqOrigins.contains o) || (!(issub o .Mapping) && !(mapOrigins.contains o) && !(o == .tuple)))
      && (!(o == .tuple) || (!(issub o .Mapping) && issub o .tuple))) = true :=
    forall_cls (P := fun o => (!(mapOrigins.contains o) || (issub o .Mapping && !(seqOrigins.contains o) && !(o == .tuple)))
      && (!(seqOrigins.contains o) || (!(issub o .Mapping) && !(mapOrigins.contains o) && !(o == .tuple)))
      && (!(o == .tuple) || (!(issub o .Mapping) && issub o .tuple))) (by decide) o
  unfold genOK at hg
  cases h1 : seqOrigins.contains o <;> cases h2 : mapOrigins.contains o <;> cases h3 : (o == Cls.tuple) <;>
    cases h4 : issub o .Mapping <;> cases h5 : issub o .tuple <;> simp_all

theorem nonmap_origin_ctor {o : Cls} {n : Nat} (hg : genOK o n = true) (hm : issub o .Mapping = false) :
    ctorKind o = .seqLike ∨ ctorKind o = .setLike ∨ ctorKind o = .noCtor := by
  have h0 : (!(isGenOrigin o) || issub o .Mapping ||
      (ctorKind o == .seqLike || ctorKind o == .setLike || ctorKind o == .noCtor)) = true :=
    forall_cls (P := fun o => !(isGenOrigin o) || issub o .Mapping ||
      (ctorKind o == .seqLike || ctorKind o == .setLike || ctorKind o == .noCtor)) (by decide) o
  rw [genOK_isGenOrigin hg, hm] at h0
  cases h1 : (ctorKind o == .seqLike) <;> cases h2 : (ctorKind o == .setLike) <;>
    cases h3 : (ctorKind o == .noCtor) <;> simp_all

theorem static_to_mapping {a c : Cls} (hc : coercibleStatic (.cls a) c = true) (hm : issub c .Mapping = true) :
    issub a .Mapping = true := by
  have h0 : (!(coercibleStatic (.cls a) c && issub c .Mapping) || issub a .Mapping) = true :=
    forall_cls2 (P := fun a c => !(coercibleStatic (.cls a) c && issub c .Mapping) || issub a .Mapping) (by decide +kernel) a c
  rw [hc, hm] at h0
  simpa using h0

theorem mapping_not_tuple_mio {a : Cls} (h : issub a .Mapping = true) : issub a .tuple = false ∧ (a == MIO) = false := by
  have h0 : (!(issub a .Mapping) || (!(issub a .tuple) && !(a == MIO))) = true :=
    forall_cls (P := fun a => !(issub a .Mapping) || (!(issub a .tuple) && !(a == MIO))) (by decide) a
  rw [h] at h0
  cases h1 : issub a .tuple <;> cases h2 : (a == MIO) <;> simp_all

/-! ### TypeError only -/

theorem mapBody_typeErr {type_ : Cls} {fk fv : V → R V} {v : V}
    (hk : ∀ x ∈ elems v, IsTypeErr (fk x)) (hv : ∀ x ∈ vals v, IsTypeErr (fv x)) :
    IsTypeErr (mapBody type_ fk fv v) := by
  intro e h
  unfold mapBody at h
  split at h
  · rename_i c ks vs
    simp only [elems_map] at hk
    simp only [vals] at hv
    split at h
    · rename_i e' he
      cases h
      obtain ⟨x, hx, hfx⟩ := mapM'_err he
      exact hk x hx e hfx
    · split at h
      · rename_i e' he
        cases h
        obtain ⟨x, hx, hfx⟩ := mapM'_err he
        exact hv x hx e hfx
      · unfold buildMap at h
        split at h
        · rw [construct_err h]; rfl
        · cases h; rfl
  · cases h; rfl

theorem multiBody_typeErr {f : V → R V} {v : V} (h0 : IsTypeErr (f v)) (hx : ∀ x ∈ elems v, IsTypeErr (f x)) :
    IsTypeErr (multiBody f v) := by
  intro e h
  unfold multiBody at h
  split at h
  · split at h
    · cases h
    · rename_i e' he
      cases h
      exact h0 e he
  · simp only at h
    split at h
    · cases h
    · split at h
      · cases h
      · cases h; rfl
      · rename_i e' hne he
        cases h
        exact h0 e he
    · rename_i e' hne hatt
      cases h
      -- the attempt itself raised something that is not a TypeError: impossible
      exfalso
      split at hatt
      · cases hatt; exact hne false rfl
      · rename_i xs hxs
        split at hatt
        · rename_i e'' he
          cases hatt
          obtain ⟨x, hx', hfx⟩ := mapM'_err he
          have := hx x (by rw [elems_of_iter hxs]; exact hx') e hfx
          cases e <;> simp_all [Err.isType]
        · cases hatt

/-- D25d clause and origin arities: in the Mapping branch the pattern has two arguments -/
theorem mapping_branch_len {cfg : Cfg} {o : Cls} {n : Nat} {args : List Ty} {v : V} {type_ : Cls}
    (hg : genOK o n = true) (ht : genType cfg o v = .ok type_) (hm : issub type_ .Mapping = true)
    (hex : pgEx21x o args v = false) : n = 2 := by
  apply (origin_len hg).1
  rcases genType_ok ht with ⟨hi, rfl⟩ | ⟨_, _, rfl⟩
  · cases hom : issub o .Mapping with
    | true => rfl
    | false =>
      exfalso
      unfold pgEx21x at hex
      rw [hi, hm, hom] at hex
      simp at hex
  · exact hm

theorem nonmapping_branch_len {cfg : Cfg} {o : Cls} {n : Nat} {v : V} {type_ : Cls}
    (hg : genOK o n = true) (ht : genType cfg o v = .ok type_) (hm : issub type_ .Mapping = false)
    (hnt : issub o .tuple = false) : n = 1 := by
  apply (origin_len hg).2 _ hnt
  cases hom : issub o .Mapping with
  | false => rfl
  | true =>
    exfalso
    have := issub_trans (genType_issub ht) hom
    rw [hm] at this; cases this

mutual
/-- every pattern of the grammar, outside D25d positions, raises TypeError only -/
theorem coerce_typeErrX (sac : Bool) : ∀ (t : Ty) (v : V), t.wf = true →
    hitX (pbEx21 sac) pgEx21x pNoU t v = false → IsTypeErr (coerce (cfgOf sac) t v)
  | .any, v, _, _ => by intro e h; simp [coerce] at h
  | .cls c, v, _, _ => by
    intro e h
    simp only [coerce, coerceBasic] at h
    split at h
    · cases h
    · split at h
      · rw [construct_err h]; rfl
      · cases h; rfl
  | .union l, v, hw, h1 => by
    intro e h
    simp only [coerce] at h
    simp only [Ty.wf] at hw
    simp only [hitX, pNoU, Bool.false_or] at h1
    exact coerceUnion_typeErrX sac l v false hw h1 e h
  | .tupleVar t, v, hw, h1 => by
    intro e h
    simp only [coerce] at h
    simp only [Ty.wf] at hw
    simp only [hitX, Bool.or_eq_false_iff] at h1
    split at h
    · rename_i e' he
      cases h; rw [genType_err he]; rfl
    · split at h
      · cases h; rfl
      · rename_i xs hxs
        rw [elems_of_iter hxs] at h1
        exact seqBody_typeErr (fun x hx => coerce_typeErrX sac t x hw (any_false_mem h1.2 hx)) e h
  | .gen o args, v, hw, h1 => by
    intro e h
    unfold coerce at h
    unfold hitX at h1
    simp only [Ty.wf, Bool.and_eq_true] at hw
    by_cases hmio : o = MIO
    · subst hmio
      simp only [beq_self_eq_true, ↓reduceIte] at h h1
      have hlen := genOK_MIO hw.1
      match args, hlen, hw, h1, h with
      | [a], _, hw, h1, h =>
        simp only [Ty.wfL_cons, Ty.wfL_nil, Bool.and_true] at hw
        simp only [Bool.or_eq_false_iff] at h1
        exact multiBody_typeErr (coerce_typeErrX sac a v hw.2 h1.1)
          (fun x hx => coerce_typeErrX sac a x hw.2 (any_false_mem h1.2 hx)) e h
    · have hmio' : (o == MIO) = false := by simpa using hmio
      simp only [hmio', Bool.false_eq_true, ↓reduceIte, Bool.or_eq_false_iff] at h h1
      split at h
      · rename_i e' he
        cases h; rw [genType_err he]; rfl
      · rename_i type_ hty
        split at h
        · rename_i hmap
          have hlen := mapping_branch_len hw.1 hty hmap h1.1
          have hnt : issub o .tuple = false := by
            cases ht : issub o .tuple with
            | false => rfl
            | true =>
              have h4 := tuple_sub_only type_ (issub_trans (genType_issub hty) ht)
              rw [h4, tuple_not_mapping] at hmap; cases hmap
          match args, hlen, hw, h1, h with
          | [kp, vp], _, hw, h1, h =>
            simp only [Ty.wfL_cons, Ty.wfL_nil, Bool.and_true, Bool.and_eq_true] at hw
            simp only [hnt, Bool.false_eq_true, ↓reduceIte, Bool.or_eq_false_iff] at h1
            exact mapBody_typeErr
              (fun x hx => coerce_typeErrX sac kp x hw.2.1 (any_false_mem h1.2.1 hx))
              (fun x hx => coerce_typeErrX sac vp x hw.2.2 (any_false_mem h1.2.2 hx)) e h
        · rename_i hmap
          have hmap' : issub type_ .Mapping = false := by simpa using hmap
          split at h
          · cases h; rfl
          · rename_i xs hxs
            split at h
            · rename_i htup
              simp only [htup, ↓reduceIte, elems_of_iter hxs] at h1
              unfold tupleBody at h
              split at h
              · cases h; rfl
              · split at h
                · rename_i e' he
                  cases h
                  exact coerceZip_typeErrX sac args xs hw.2 h1.2 e he
                · rw [build_err h]; rfl
            · rename_i htup
              have htup' : issub o .tuple = false := by simpa using htup
              have hlen := nonmapping_branch_len hw.1 hty hmap' htup'
              match args, hlen, hw, h1, h with
              | [a], _, hw, h1, h =>
                simp only [Ty.wfL_cons, Ty.wfL_nil, Bool.and_true] at hw
                simp only [htup', Bool.false_eq_true, ↓reduceIte, elems_of_iter hxs] at h1
                exact seqBody_typeErr (fun x hx => coerce_typeErrX sac a x hw.2 (any_false_mem h1.2 hx)) e h
theorem coerceUnion_typeErrX (sac : Bool) : ∀ (l : List Ty) (v : V) (ar : Bool), Ty.wfL l = true →
    hitXAny (pbEx21 sac) pgEx21x pNoU l v = false → IsTypeErr (coerceUnion (cfgOf sac) l v ar)
  | [], _, _, _, _ => by intro e h; simp only [coerceUnion] at h; cases h; rfl
  | a :: as, v, ar, hw, h1 => by
    intro e h
    simp only [coerceUnion] at h
    simp only [Ty.wfL_cons, Bool.and_eq_true] at hw
    simp only [hitXAny_cons, Bool.or_eq_false_iff] at h1
    split at h
    · cases h
    · exact coerceUnion_typeErrX sac as v _ hw.2 h1.2 e h
    · rename_i e' hne he
      cases h
      have := coerce_typeErrX sac a v hw.1 h1.1 e he
      cases e <;> simp_all [Err.isType]
theorem coerceZip_typeErrX (sac : Bool) : ∀ (l : List Ty) (xs : List V), Ty.wfL l = true →
    hitXZip (pbEx21 sac) pgEx21x pNoU l xs = false → IsTypeErr (coerceZip (cfgOf sac) l xs)
  | [], _, _, _ => by intro e h; simp [coerceZip] at h
  | _ :: _, [], _, _ => by intro e h; simp [coerceZip] at h
  | a :: as, x :: xs, hw, h1 => by
    intro e h
    simp only [coerceZip] at h
    simp only [Ty.wfL_cons, Bool.and_eq_true] at hw
    simp only [hitXZip_cons, Bool.or_eq_false_iff] at h1
    split at h
    · rename_i e' he
      cases h
      exact coerce_typeErrX sac a x hw.1 h1.1 e he
    · split at h
      · rename_i e' he
        cases h
        exact coerceZip_typeErrX sac as xs hw.2 h1.2 e he
      · cases h
end

end PydraModel.Typing
