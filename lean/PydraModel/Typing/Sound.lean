import PydraModel.Typing.Lemmas
/-
C20, clause 1: an accepted value is stored as a value that conforms to the declared type
(mutual structural induction over the pattern; every value, every nesting depth).
-/
namespace PydraModel.Typing

theorem genOK_str (n : Nat) : genOK .str n = false := by simp [genOK, seqOrigins, mapOrigins]
theorem genOK_bytes (n : Nat) : genOK .bytes n = false := by simp [genOK, seqOrigins, mapOrigins]

theorem isStr_of_cls {v : V} (h : v.cls = .str) : v.isStr = true := by
  unfold V.isStr; rw [h]; decide

/-- in a well-formed generic pattern the `type_` used to re-build the container is never `str` or `bytes`
    unless a str / bytes object is being expanded (D13 / the bytes restriction) -/
theorem genType_not_strbytes {cfg : Cfg} {o : Cls} {n : Nat} {v : V} {type_ : Cls}
    (hg : genOK o n = true) (ht : genType cfg o v = .ok type_)
    (h13 : pg13 o v = false) (hb : pgBytes o v = false) :
    ctorKind type_ ≠ .strLike ∧ ctorKind type_ ≠ .bytesLike := by
  constructor
  · intro hk
    have hts := ctorKind_strLike hk
    rcases genType_ok ht with ⟨hi, rfl⟩ | ⟨_, _, rfl⟩
    · have hstr : v.isStr = true := isStr_of_cls hts
      unfold isInstance at hi
      rw [hts] at hi
      have := str_instance_origin o n hg hi
      unfold pg13 at h13
      rw [hstr, this] at h13
      cases h13
    · rw [hts, genOK_str] at hg; cases hg
  · intro hk
    have hts := ctorKind_bytesLike hk
    rcases genType_ok ht with ⟨_, rfl⟩ | ⟨_, _, rfl⟩
    · simp [pgBytes, hts] at hb
    · rw [hts, genOK_bytes] at hg; cases hg

theorem all_of_mem {p : V → Bool} {zs ys : List V} (hsub : ∀ z ∈ zs, z ∈ ys) (h : ∀ y ∈ ys, p y = true) :
    zs.all p = true := by
  rw [List.all_eq_true]
  intro z hz
  exact h z (hsub z hz)

theorem any_false_mem {p : V → Bool} {xs : List V} (h : xs.any p = false) {x : V} (hx : x ∈ xs) : p x = false := by
  cases hp : p x with
  | false => rfl
  | true =>
    have : xs.any p = true := List.any_eq_true.mpr ⟨x, hx, hp⟩
    rw [h] at this; cases this

mutual
/-- C20 soundness on patterns -/
theorem coerce_sound (sac : Bool) : ∀ (t : Ty) (v v' : V), t.wf = true →
    hit pb13 pg13 t v = false → hit pNo pgBytes t v = false →
    coerce (cfgOf sac) t v = .ok v' → conforms t v' = true
  | .any, _, _, _, _, _, _ => by simp [conforms]
  | .cls c, v, v', _, _, _, h => by
    simp only [coerce, coerceBasic] at h
    simp only [conforms]
    split at h
    · rename_i hi; cases h; exact hi
    · split at h
      · exact construct_instance h
      · cases h
  | .union l, v, v', hw, h1, h2, h => by
    simp only [coerce] at h
    simp only [conforms]
    simp only [Ty.wf] at hw
    simp only [hit] at h1 h2
    exact coerceUnion_sound sac l v v' false hw h1 h2 h
  | .tupleVar t, v, v', hw, h1, h2, h => by
    simp only [coerce] at h
    simp only [Ty.wf] at hw
    simp only [hit, Bool.or_eq_false_iff] at h1 h2
    split at h
    · cases h
    · rename_i type_ hty
      split at h
      · cases h
      · rename_i xs hxs
        obtain ⟨ys, hys, hb⟩ := seqBody_ok h
        have hgt : genOK .tuple 1 = true := by decide
        have hnsb := genType_not_strbytes hgt hty h1.1 h2.1
        obtain ⟨zs, rfl, hzs⟩ := build_elems hb hnsb.1 hnsb.2
        have hel := elems_of_iter hxs
        have hall : ∀ y ∈ ys, conforms t y = true := by
          intro y hy
          obtain ⟨x, hx, hfx⟩ := (mapM'_ok hys).2 y hy
          rw [hel] at h1 h2
          exact coerce_sound sac t x y hw (any_false_mem h1.2 hx) (any_false_mem h2.2 hx) hfx
        simp only [conforms, elems_seq, isInstance, cls_seq, Bool.and_eq_true]
        exact ⟨genType_issub hty, all_of_mem hzs hall⟩
  | .gen o args, v, v', hw, h1, h2, h => by
    unfold coerce at h
    simp only [Ty.wf, Bool.and_eq_true] at hw
    by_cases hmio : o = MIO
    · subst hmio
      simp only [beq_self_eq_true, ↓reduceIte] at h
      unfold hit at h1 h2
      simp only [beq_self_eq_true, ↓reduceIte] at h1 h2
      match args, hw, h1, h2, h with
      | [a], hw, h1, h2, h =>
        simp only [Ty.wfL_cons, Ty.wfL_nil, Bool.and_true] at hw
        simp only [Bool.or_eq_false_iff] at h1 h2
        unfold conforms
        simp only [beq_self_eq_true, ↓reduceIte]
        rcases multiBody_ok h with ⟨y, hy, rfl⟩ | ⟨xs, ys, hxs, hys, rfl⟩
        · have := coerce_sound sac a v y hw.2 h1.1 h2.1 hy
          simp [isInstance, this, issub_refl]
        · have hel := elems_of_iter hxs
          rw [hel] at h1 h2
          have hall : ∀ y ∈ ys, conforms a y = true := by
            intro y hy
            obtain ⟨x, hx, hfx⟩ := (mapM'_ok hys).2 y hy
            exact coerce_sound sac a x y hw.2 (any_false_mem h1.2 hx) (any_false_mem h2.2 hx) hfx
          simp only [isInstance, cls_seq, issub_refl, elems_seq, Bool.true_and]
          exact all_of_mem (fun z hz => hz) hall
      | [], _, _, _, h => cases h
      | _ :: _ :: _, _, _, _, h => cases h
    · have hmio' : (o == MIO) = false := by simpa using hmio
      simp only [hmio', Bool.false_eq_true, ↓reduceIte] at h
      unfold hit at h1 h2
      simp only [hmio', Bool.false_eq_true, ↓reduceIte, Bool.or_eq_false_iff] at h1 h2
      split at h
      · cases h
      · rename_i type_ hty
        have hsub := genType_issub hty
        have hnsb := genType_not_strbytes hw.1 hty h1.1 h2.1
        split at h
        · -- mapping
          rename_i hmap
          match args, hw, h1, h2, h with
          | [kp, vp], hw, h1, h2, h =>
            simp only [Ty.wfL_cons, Ty.wfL_nil, Bool.and_true, Bool.and_eq_true] at hw
            obtain ⟨c, ks, vs, ks', vs', rfl, hks, hvs, hb⟩ := mapBody_ok h
            obtain ⟨ks'', vs'', rfl, hk2, hv2⟩ := buildMap_elems hb hmap
            have hnt : issub o .tuple = false := by
              cases ht : issub o .tuple with
              | false => rfl
              | true =>
                have h3 := issub_trans hsub ht
                have h4 := tuple_sub_only type_ h3
                rw [h4, tuple_not_mapping] at hmap
                cases hmap
            simp only [hnt, Bool.false_eq_true, ↓reduceIte, elems_map, vals, Bool.or_eq_false_iff] at h1 h2
            have hallk : ∀ y ∈ ks', conforms kp y = true := by
              intro y hy
              obtain ⟨x, hx, hfx⟩ := (mapM'_ok hks).2 y hy
              exact coerce_sound sac kp x y hw.2.1 (any_false_mem h1.2.1 hx) (any_false_mem h2.2.1 hx) hfx
            have hallv : ∀ y ∈ vs', conforms vp y = true := by
              intro y hy
              obtain ⟨x, hx, hfx⟩ := (mapM'_ok hvs).2 y hy
              exact coerce_sound sac vp x y hw.2.2 (any_false_mem h1.2.2 hx) (any_false_mem h2.2.2 hx) hfx
            unfold conforms
            simp only [hmio', Bool.false_eq_true, ↓reduceIte, isInstance, cls_map, hsub, Bool.true_and,
              Bool.and_eq_true]
            exact ⟨all_of_mem hk2 hallk, all_of_mem hv2 hallv⟩
          | [], _, _, _, h => cases h
          | [_], _, _, _, h => cases h
          | _ :: _ :: _ :: _, _, _, _, h => cases h
        · rename_i hmap
          split at h
          · cases h
          · rename_i xs hxs
            have hel := elems_of_iter hxs
            split at h
            · -- tuple
              rename_i htup
              obtain ⟨hlen, ys, hys, hb⟩ := tupleBody_ok h
              obtain ⟨zs, rfl, hzs⟩ := build_elems hb hnsb.1 hnsb.2
              have hto := tuple_sub_only o htup
              have htt : type_ = .tuple := tuple_sub_only type_ (issub_trans hsub htup)
              subst htt
              -- `build tuple ys` keeps the items as they are
              have hzy : zs = ys := by
                have : build .tuple ys = .ok (.seq .tuple ys) := rfl
                rw [this] at hb
                cases hb; rfl
              subst hzy
              simp only [htup, ↓reduceIte, hel] at h1 h2
              have hz := coerceZip_sound sac args xs zs hw.2 h1.2 h2.2 hlen hys
              unfold conforms
              simp only [hmio', Bool.false_eq_true, ↓reduceIte, isInstance, cls_seq, hsub, Bool.true_and,
                htup, elems_seq]
              exact hz
            · rename_i htup
              match args, hw, h1, h2, h with
              | [a], hw, h1, h2, h =>
                simp only [Ty.wfL_cons, Ty.wfL_nil, Bool.and_true] at hw
                obtain ⟨ys, hys, hb⟩ := seqBody_ok h
                obtain ⟨zs, rfl, hzs⟩ := build_elems hb hnsb.1 hnsb.2
                have htup' : issub o .tuple = false := by simpa using htup
                simp only [htup', Bool.false_eq_true, ↓reduceIte, hel] at h1 h2
                have hall : ∀ y ∈ ys, conforms a y = true := by
                  intro y hy
                  obtain ⟨x, hx, hfx⟩ := (mapM'_ok hys).2 y hy
                  exact coerce_sound sac a x y hw.2 (any_false_mem h1.2 hx) (any_false_mem h2.2 hx) hfx
                unfold conforms
                simp only [hmio', Bool.false_eq_true, ↓reduceIte, isInstance, cls_seq, hsub, Bool.true_and,
                  htup', elems_seq]
                exact all_of_mem hzs hall
              | [], _, _, _, h => cases h
              | _ :: _ :: _, _, _, _, h => cases h
theorem coerceUnion_sound (sac : Bool) : ∀ (l : List Ty) (v v' : V) (ar : Bool), Ty.wfL l = true →
    hitAny pb13 pg13 l v = false → hitAny pNo pgBytes l v = false →
    coerceUnion (cfgOf sac) l v ar = .ok v' → conformsAny l v' = true
  | [], _, _, _, _, _, _, h => by simp [coerceUnion] at h
  | a :: as, v, v', ar, hw, h1, h2, h => by
    simp only [coerceUnion] at h
    simp only [Ty.wfL_cons, Bool.and_eq_true] at hw
    simp only [hitAny_cons, Bool.or_eq_false_iff] at h1 h2
    simp only [conformsAny, Bool.or_eq_true]
    split at h
    · rename_i r hr
      cases h
      exact Or.inl (coerce_sound sac a v v' hw.1 h1.1 h2.1 hr)
    · exact Or.inr (coerceUnion_sound sac as v v' _ hw.2 h1.2 h2.2 h)
    · cases h
theorem coerceZip_sound (sac : Bool) : ∀ (l : List Ty) (xs ys : List V), Ty.wfL l = true →
    hitZip pb13 pg13 l xs = false → hitZip pNo pgBytes l xs = false → l.length = xs.length →
    coerceZip (cfgOf sac) l xs = .ok ys → conformsZip l ys = true
  | [], [], ys, _, _, _, _, h => by
    simp only [coerceZip] at h; cases h; simp [conformsZip]
  | [], _ :: _, _, _, _, _, hl, _ => by simp at hl
  | _ :: _, [], _, _, _, _, hl, _ => by simp at hl
  | a :: as, x :: xs, ys, hw, h1, h2, hl, h => by
    simp only [coerceZip] at h
    simp only [Ty.wfL_cons, Bool.and_eq_true] at hw
    simp only [hitZip_cons, Bool.or_eq_false_iff] at h1 h2
    split at h
    · cases h
    · rename_i y hy
      split at h
      · cases h
      · rename_i ys' hys
        cases h
        simp only [conformsZip, Bool.and_eq_true]
        exact ⟨coerce_sound sac a x y hw.1 h1.1 h2.1 hy,
               coerceZip_sound sac as xs ys' hw.2 h1.2 h2.2 (by simpa using hl) hys⟩
end

end PydraModel.Typing
