import PydraModel.Typing.Tables
/-
Helper lemmas for C20 / C21: `mapM'`, the container constructors (`dedup`, `dictBuild`, `construct`,
`build`, `buildMap`), and the shape of `conforms` on constructed values.
-/
namespace PydraModel.Typing

/-! ### mapM' -/

theorem mapM'_ok {f : V → R V} : ∀ {xs ys : List V}, mapM' f xs = .ok ys →
    ys.length = xs.length ∧ ∀ y ∈ ys, ∃ x ∈ xs, f x = .ok y
  | [], ys, h => by
    simp only [mapM'] at h
    cases h
    simp
  | x :: xs, ys, h => by
    simp only [mapM'] at h
    split at h
    · cases h
    · rename_i y hy
      split at h
      · cases h
      · rename_i ys' hys
        cases h
        have ih := mapM'_ok hys
        refine ⟨by simp [ih.1], ?_⟩
        intro z hz
        simp only [List.mem_cons] at hz
        rcases hz with rfl | hz
        · exact ⟨x, by simp, hy⟩
        · obtain ⟨x', hx', hfx⟩ := ih.2 z hz
          exact ⟨x', by simp [hx'], hfx⟩

/-- if `f` succeeds on every element, so does `mapM' f` -/
theorem mapM'_of_forall {f : V → R V} : ∀ {xs : List V}, (∀ x ∈ xs, ∃ y, f x = .ok y) → ∃ ys, mapM' f xs = .ok ys
  | [], _ => ⟨[], rfl⟩
  | x :: xs, h => by
    obtain ⟨y, hy⟩ := h x (by simp)
    obtain ⟨ys, hys⟩ := mapM'_of_forall (xs := xs) (fun x' hx' => h x' (by simp [hx']))
    exact ⟨y :: ys, by simp [mapM', hy, hys]⟩

/-- `mapM' f` is the identity on a list of fixpoints -/
theorem mapM'_fix {f : V → R V} : ∀ {xs : List V}, (∀ x ∈ xs, f x = .ok x) → mapM' f xs = .ok xs
  | [], _ => rfl
  | x :: xs, h => by
    have hx := h x (by simp)
    have := mapM'_fix (xs := xs) (fun x' hx' => h x' (by simp [hx']))
    simp [mapM', hx, this]

/-! ### dedup / dictBuild keep only elements they were given -/

theorem dedupAux_mem : ∀ (xs acc : List V) (z : V), z ∈ dedupAux acc xs → z ∈ acc ∨ z ∈ xs
  | [], acc, z, h => by simp only [dedupAux, List.mem_reverse] at h; exact Or.inl h
  | x :: xs, acc, z, h => by
    simp only [dedupAux] at h
    split at h
    · rcases dedupAux_mem xs acc z h with h | h
      · exact Or.inl h
      · exact Or.inr (by simp [h])
    · rcases dedupAux_mem xs (x :: acc) z h with h | h
      · simp only [List.mem_cons] at h
        rcases h with rfl | h
        · exact Or.inr (by simp)
        · exact Or.inl h
      · exact Or.inr (by simp [h])

theorem dedup_mem {xs : List V} {z : V} (h : z ∈ dedup xs) : z ∈ xs := by
  rcases dedupAux_mem xs [] z h with h | h
  · simp at h
  · exact h

theorem dictInsert_mem (k v : V) : ∀ (ks vs : List V),
    (∀ z ∈ (dictInsert k v ks vs).1, z = k ∨ z ∈ ks) ∧ (∀ z ∈ (dictInsert k v ks vs).2, z = v ∨ z ∈ vs)
  | [], vs => by simp [dictInsert]
  | k' :: ks, [] => by simp [dictInsert]
  | k' :: ks, v' :: vs => by
    simp only [dictInsert]
    split
    · constructor
      · intro z hz; exact Or.inr hz
      · intro z hz
        simp only [List.mem_cons] at hz ⊢
        rcases hz with rfl | hz
        · exact Or.inl rfl
        · exact Or.inr (Or.inr hz)
    · have ih := dictInsert_mem k v ks vs
      constructor
      · intro z hz
        simp only [List.mem_cons] at hz ⊢
        rcases hz with rfl | hz
        · exact Or.inr (Or.inl rfl)
        · rcases ih.1 z hz with h | h
          · exact Or.inl h
          · exact Or.inr (Or.inr h)
      · intro z hz
        simp only [List.mem_cons] at hz ⊢
        rcases hz with rfl | hz
        · exact Or.inr (Or.inl rfl)
        · rcases ih.2 z hz with h | h
          · exact Or.inl h
          · exact Or.inr (Or.inr h)

theorem dictBuild_mem : ∀ (ks vs : List V) (acc : List V × List V),
    (∀ z ∈ (dictBuild ks vs acc).1, z ∈ acc.1 ∨ z ∈ ks) ∧ (∀ z ∈ (dictBuild ks vs acc).2, z ∈ acc.2 ∨ z ∈ vs)
  | [], vs, acc => by
    simp only [dictBuild]
    exact ⟨fun z hz => Or.inl hz, fun z hz => Or.inl hz⟩
  | k :: ks, [], acc => by
    simp only [dictBuild]
    exact ⟨fun z hz => Or.inl hz, fun z hz => Or.inl hz⟩
  | k :: ks, v :: vs, acc => by
    simp only [dictBuild]
    have ih := dictBuild_mem ks vs (dictInsert k v acc.1 acc.2)
    have hi := dictInsert_mem k v acc.1 acc.2
    constructor
    · intro z hz
      rcases ih.1 z hz with h | h
      · rcases hi.1 z h with rfl | h
        · exact Or.inr (by simp)
        · exact Or.inl h
      · exact Or.inr (by simp [h])
    · intro z hz
      rcases ih.2 z hz with h | h
      · rcases hi.2 z h with rfl | h
        · exact Or.inr (by simp)
        · exact Or.inl h
      · exact Or.inr (by simp [h])

/-! ### iteration -/

@[simp] theorem iter_seq (c : Cls) (l : List V) : iter (.seq c l) = some l := rfl
@[simp] theorem iter_map (c : Cls) (ks vs : List V) : iter (.map c ks vs) = some ks := rfl
@[simp] theorem elems_seq (c : Cls) (l : List V) : elems (.seq c l) = l := rfl
@[simp] theorem elems_map (c : Cls) (ks vs : List V) : elems (.map c ks vs) = ks := rfl
@[simp] theorem cls_seq (c : Cls) (l : List V) : (V.seq c l).cls = c := rfl
@[simp] theorem cls_map (c : Cls) (ks vs : List V) : (V.map c ks vs).cls = c := rfl
@[simp] theorem cls_atom (c : Cls) (p : Payload) : (V.atom c p).cls = c := rfl

theorem elems_of_iter {v : V} {xs : List V} (h : iter v = some xs) : elems v = xs := by
  simp [elems, h]

/-! ### what the constructors return -/

/-- the class of whatever `construct tgt` returns -/
theorem construct_cls {tgt : Cls} {v v' : V} (h : construct tgt v = .ok v') : v'.cls = ctorResultCls tgt := by
  unfold construct at h
  unfold ctorResultCls
  cases hk : ctorKind tgt <;> simp only [hk] at h ⊢
  · split at h <;> cases h; rfl
  · split at h
    · split at h <;> cases h; rfl
    · cases h
  · split at h <;> cases h; rfl
  · split at h
    · rename_i c s
      split at h
      · rename_i hc
        cases h
        simpa using hc
      · cases h; rfl
    · cases h; rfl
  · split at h
    · cases h; rfl
    · split at h <;> cases h; rfl
    · cases h
  · split at h
    · split at h <;> cases h; rfl
    · cases h
  · split at h
    · split at h <;> cases h; rfl
    · cases h
  · split at h
    · split at h <;> cases h; rfl
    · cases h
  · split at h
    · rename_i c s
      split at h
      · rename_i hc
        cases h
        simpa using hc
      · split at h <;> cases h; rfl
    · cases h
  · split at h
    · split at h <;> cases h; rfl
    · split at h <;> cases h; rfl
    · cases h
  · cases h

/-- `construct tgt v` is an instance of `tgt` -/
theorem construct_instance {tgt : Cls} {v v' : V} (h : construct tgt v = .ok v') : isInstance v' tgt = true := by
  unfold isInstance
  rw [construct_cls h]
  exact ctorResult_issub tgt

/-- a Mapping class is `dict` or cannot be constructed -/
theorem mapping_ctorKind (c : Cls) (h : issub c .Mapping = true) : ctorKind c = .dictLike ∨ ctorKind c = .noCtor := by
  have h0 : (!(issub c .Mapping) || (ctorKind c == .dictLike || ctorKind c == .noCtor)) = true :=
    forall_cls (P := fun c => !(issub c .Mapping) || (ctorKind c == .dictLike || ctorKind c == .noCtor)) (by decide) c
  rw [h] at h0
  cases h1 : (ctorKind c == .dictLike) <;> cases h2 : (ctorKind c == .noCtor) <;> simp_all

theorem ctorKind_strLike {c : Cls} (h : ctorKind c = .strLike) : c = .str := by
  cases c <;> simp [ctorKind] at h ⊢

theorem ctorKind_bytesLike {c : Cls} (h : ctorKind c = .bytesLike) : c = .bytes := by
  cases c <;> simp [ctorKind] at h ⊢

/-- re-building a container from coerced items: unless `type_` is `str`/`bytes`, the result is a
    container of class `type_` whose items are among the coerced items -/
theorem build_elems {type_ : Cls} {ys : List V} {v' : V} (h : build type_ ys = .ok v')
    (hs : ctorKind type_ ≠ .strLike) (hb : ctorKind type_ ≠ .bytesLike) :
    ∃ zs, v' = .seq type_ zs ∧ ∀ z ∈ zs, z ∈ ys := by
  unfold build construct at h
  cases hk : ctorKind type_ <;> simp only [hk] at h
  · simp only [iter_seq] at h
    cases h
    exact ⟨ys, rfl, fun z hz => hz⟩
  · simp only [iter_seq] at h
    split at h
    · cases h
      exact ⟨dedup ys, rfl, fun z hz => dedup_mem hz⟩
    · cases h
  · cases h
  · exact absurd hk hs
  · exact absurd hk hb
  · cases h
  · cases h
  · cases h
  · cases h
  · cases h
  · cases h

/-- items of a list re-built with `build` when `type_` is one of the element-preserving classes -/
theorem buildMap_elems {type_ : Cls} {ks vs : List V} {v' : V} (h : buildMap type_ ks vs = .ok v')
    (hm : issub type_ .Mapping = true) :
    ∃ ks' vs', v' = .map type_ ks' vs' ∧ (∀ z ∈ ks', z ∈ ks) ∧ (∀ z ∈ vs', z ∈ vs) := by
  unfold buildMap at h
  split at h
  · simp only at h
    unfold construct at h
    rcases mapping_ctorKind type_ hm with hk | hk <;> simp only [hk] at h
    · cases h
      have hm := dictBuild_mem ks vs ([], [])
      refine ⟨_, _, rfl, ?_, ?_⟩
      · intro z hz
        rcases hm.1 z hz with h | h
        · simp at h
        · exact h
      · intro z hz
        rcases hm.2 z hz with h | h
        · simp at h
        · exact h
    · cases h
  · cases h

theorem genType_ok {cfg : Cfg} {o : Cls} {v : V} {type_ : Cls} (h : genType cfg o v = .ok type_) :
    (isInstance v o = true ∧ type_ = v.cls) ∨ (isInstance v o = false ∧ coercibleRT cfg v.cls o = true ∧ type_ = o) := by
  unfold genType at h
  split at h
  · rename_i hi
    cases h
    exact Or.inl ⟨hi, rfl⟩
  · rename_i hi
    split at h
    · rename_i hc
      cases h
      exact Or.inr ⟨by simpa using hi, hc, rfl⟩
    · cases h

theorem genType_issub {cfg : Cfg} {o : Cls} {v : V} {type_ : Cls} (h : genType cfg o v = .ok type_) :
    issub type_ o = true := by
  rcases genType_ok h with ⟨hi, rfl⟩ | ⟨_, _, rfl⟩
  · exact hi
  · exact issub_refl _

theorem seqBody_ok {type_ : Cls} {f : V → R V} {xs : List V} {v' : V} (h : seqBody type_ f xs = .ok v') :
    ∃ ys, mapM' f xs = .ok ys ∧ build type_ ys = .ok v' := by
  unfold seqBody at h
  split at h
  · cases h
  · rename_i ys hys
    exact ⟨ys, hys, h⟩

theorem mapBody_ok {type_ : Cls} {fk fv : V → R V} {v v' : V} (h : mapBody type_ fk fv v = .ok v') :
    ∃ c ks vs ks' vs', v = .map c ks vs ∧ mapM' fk ks = .ok ks' ∧ mapM' fv vs = .ok vs' ∧ buildMap type_ ks' vs' = .ok v' := by
  unfold mapBody at h
  split at h
  · rename_i c ks vs
    split at h
    · cases h
    · rename_i ks' hks
      split at h
      · cases h
      · rename_i vs' hvs
        exact ⟨c, ks, vs, ks', vs', rfl, hks, hvs, h⟩
  · cases h

theorem tupleBody_ok {type_ : Cls} {n : Nat} {fz : List V → R (List V)} {xs : List V} {v' : V}
    (h : tupleBody type_ n fz xs = .ok v') : n = xs.length ∧ ∃ ys, fz xs = .ok ys ∧ build type_ ys = .ok v' := by
  unfold tupleBody at h
  split at h
  · cases h
  · rename_i hn
    split at h
    · cases h
    · rename_i ys hys
      exact ⟨by simpa using hn, ys, hys, h⟩

theorem multiBody_ok {f : V → R V} {v v' : V} (h : multiBody f v = .ok v') :
    (∃ y, f v = .ok y ∧ v' = .seq .list [y]) ∨
    (∃ xs ys, iter v = some xs ∧ mapM' f xs = .ok ys ∧ v' = .seq .list ys) := by
  unfold multiBody at h
  split at h
  · split at h
    · rename_i y hy
      cases h
      exact Or.inl ⟨y, hy, rfl⟩
    · cases h
  · simp only at h
    split at h
    · rename_i r hr
      cases h
      split at hr
      · cases hr
      · rename_i xs hxs
        split at hr
        · cases hr
        · rename_i ys hys
          cases hr
          exact Or.inr ⟨xs, ys, hxs, hys, rfl⟩
    · split at h
      · rename_i y hy
        cases h
        exact Or.inl ⟨y, hy, rfl⟩
      · cases h
      · cases h
    · cases h

end PydraModel.Typing
