import PydraModel.Typing.Static7
/-
C21 over the whole pattern grammar, part 4: `check_type` with its MultiInputObj retry.
-/
namespace PydraModel.Typing

/-- `check_type(S)` accepted ⇒ the run-time coercion accepts every conforming standard value (arity aside),
    including when acceptance came from the MultiInputObj retry (`MultiInputObj[a]` checked as `a`). -/
theorem c21_checkTypeX (sac : Bool) : ∀ (T S : Ty) (v : V), T.wf = true → S.wf = true → S.anyFree = true →
    v.std = true → checkType T S = .ok () → conforms S v = true → hit pbStrict pgStrict S v = false →
    hitX (pbEx21 sac) pgEx21x pNoU T v = false → OkAr (coerce (cfgOf sac) T v)
  | T, S, v, hT, hwf, haf, hv, hchk, hc, hst, hex => by
    unfold checkType at hchk
    have hS : ∀ (r : R Unit), (match S with | .any => (.ok () : R Unit) | _ => r) = .ok () → r = .ok () := by
      intro r h
      cases S with
      | any => simp [Ty.anyFree] at haf
      | cls a => exact h
      | union l => exact h
      | gen o args => exact h
      | tupleVar t => exact h
    have h := hS _ hchk
    split at h
    · rename_i u hu
      cases u
      exact c21_mainX sac T S v hT hwf haf hv hu hc hst hex
    · rename_i e he
      split at h
      · rename_i o a
        split at h
        · rename_i hcond
          simp only [Bool.and_eq_true, beq_iff_eq] at hcond
          have ho : o = MIO := hcond.1
          subst ho
          split at h
          · rename_i hrec
            -- accepted through the retry: the whole value was checked against `a`
            simp only [Ty.wf, Ty.wfL_cons, Ty.wfL_nil, Bool.and_true, Bool.and_eq_true] at hT
            unfold hitX at hex
            simp only [beq_self_eq_true, ↓reduceIte, Bool.or_eq_false_iff] at hex
            have hwhole := c21_checkTypeX sac a S v hT.2 hwf haf hv hrec hc hst hex.1
            unfold coerce
            simp only [beq_self_eq_true, ↓reduceIte]
            exact OkAr_multi_whole hwhole
              (fun x hx => coerce_typeErrX sac a x hT.2 (any_false_mem hex.2 hx))
          · cases h
          · cases h
        · cases h
      · cases h
termination_by T => sizeOf T

end PydraModel.Typing
