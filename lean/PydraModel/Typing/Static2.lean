import PydraModel.Typing.Static
/-
C21, part 2: the basic (class-level) case and the shape of values that conform to a generic source type.
-/
namespace PydraModel.Typing

mutual
/-- source types without `Any` (an `Any` source is accepted statically whatever the target) -/
def Ty.anyFree : Ty → Bool
  | .cls _ => true
  | .any => false
  | .union l => Ty.anyFreeL l
  | .gen _ args => Ty.anyFreeL args
  | .tupleVar t => t.anyFree
def Ty.anyFreeL : List Ty → Bool
  | [] => true
  | a :: as => a.anyFree && Ty.anyFreeL as
end

@[simp] theorem Ty.anyFreeL_nil : Ty.anyFreeL [] = true := by simp [Ty.anyFreeL]
@[simp] theorem Ty.anyFreeL_cons (a : Ty) (as : List Ty) : Ty.anyFreeL (a :: as) = (a.anyFree && Ty.anyFreeL as) := by
  simp [Ty.anyFreeL]
@[simp] theorem conformsAny_nil (v : V) : conformsAny [] v = false := by simp [conformsAny]
@[simp] theorem conformsAny_cons (a : Ty) (as : List Ty) (v : V) :
    conformsAny (a :: as) v = (conforms a v || conformsAny as v) := by simp [conformsAny]
@[simp] theorem allSubTy_nil (c : Cls) : allSubTy [] c = true := by simp [allSubTy]
@[simp] theorem allSubTy_cons (a : Ty) (as : List Ty) (c : Cls) :
    allSubTy (a :: as) c = (isSubTy a c && allSubTy as c) := by simp [allSubTy]

/-- the classes scalars have -/
def isAtomCls (c : Cls) : Bool :=
  [Cls.NoneType, .bool, .int, .float, .str, .bytes, .PosixPath, .FieldInteger, .FieldDecimal, .FieldText, .FieldBoolean].contains c

theorem atomOK_cls {c : Cls} {p : Payload} (h : atomOK c p = true) : isAtomCls c = true := by
  cases p <;> cases c <;> simp [atomOK, isAtomCls] at h ⊢

theorem std_cls {v : V} (h : v.std = true) : isStdValueCls v.cls = true := by
  cases v with
  | atom c p =>
    simp only [V.std] at h
    simp only [cls_atom]
    have h0 : (!(isAtomCls c) || isStdValueCls c) = true :=
      forall_cls (P := fun c => !(isAtomCls c) || isStdValueCls c) (by decide) c
    rw [atomOK_cls h] at h0
    simpa using h0
  | seq c l =>
    simp only [V.std, Bool.and_eq_true] at h
    simp only [cls_seq]
    have h0 : (!(stdSeqClasses.contains c) || isStdValueCls c) = true :=
      forall_cls (P := fun c => !(stdSeqClasses.contains c) || isStdValueCls c) (by decide) c
    rw [h.1] at h0; simpa using h0
  | map c ks vs =>
    simp only [V.std, Bool.and_eq_true, beq_iff_eq] at h
    simp only [cls_map]
    rw [h.1.1]; decide

/-- a value below `MultiInputObj`'s static class: a plain list is an instance of, or coercible to, every
    super-class of MultiInputObj -/
theorem mio_sub_step (sac : Bool) (b c : Cls) (hb : issub b .list = true) (hs : isStdValueCls b = true)
    (hc : issub MIO c = true) : issub b c = true ∨ coercibleRT (cfgOf sac) b c = true := by
  have h0 : (!(issub b .list && isStdValueCls b && issub MIO c) ||
      (issub b c || (coercibleRT (cfgOf true) b c && coercibleRT (cfgOf false) b c))) = true :=
    forall_cls2 (P := fun b c => !(issub b .list && isStdValueCls b && issub MIO c) ||
      (issub b c || (coercibleRT (cfgOf true) b c && coercibleRT (cfgOf false) b c))) (by decide +kernel) b c
  rw [hb, hs, hc] at h0
  cases h2 : issub b c
  · right; rw [h2] at h0; cases sac <;> simp_all
  · left; rfl

theorem strbytes_not_list (b : Cls) (h : issub b .list = true) : isStrBytes b = false := by
  have h0 : (!(issub b .list) || !(isStrBytes b)) = true :=
    forall_cls (P := fun b => !(issub b .list) || !(isStrBytes b)) (by decide) b
  rw [h] at h0; simpa using h0

/-- the class a conforming value is an instance of, for a source type with a class/origin -/
theorem conforms_src_cls {S : Ty} {v : V} {a : Cls} (hsrc : S.src = .cls a) (hc : conforms S v = true)
    (hst : hit pbStrict pgStrict S v = false) :
    issub v.cls (effCls a) = true ∧ (isStrBytes v.cls && a != v.cls) = false := by
  cases S with
  | cls a' =>
    simp only [Ty.src] at hsrc
    cases hsrc
    simp only [conforms, isInstance] at hc
    simp only [hit] at hst
    refine ⟨?_, hst⟩
    unfold effCls
    split
    · rename_i hm
      have : a = MIO := by simpa using hm
      subst this
      have h0 : (!(issub v.cls MIO) || issub v.cls .list) = true :=
        forall_cls (P := fun b => !(issub b MIO) || issub b .list) (by decide) v.cls
      rw [hc] at h0; simpa using h0
    · exact hc
  | any => simp [Ty.src] at hsrc
  | union l => simp [Ty.src] at hsrc
  | gen o args =>
    simp only [Ty.src] at hsrc
    cases hsrc
    unfold conforms at hc
    unfold hit at hst
    unfold effCls
    by_cases hm : a = MIO
    · subst hm
      simp only [beq_self_eq_true, ↓reduceIte, Bool.and_eq_true] at hc ⊢
      refine ⟨hc.1, ?_⟩
      rw [strbytes_not_list _ hc.1]; rfl
    · have hm' : (a == MIO) = false := by simpa using hm
      simp only [hm', Bool.false_eq_true, ↓reduceIte, Bool.and_eq_true, Bool.or_eq_false_iff] at hc hst ⊢
      refine ⟨hc.1, ?_⟩
      have := hst.1
      unfold pgStrict at this
      rw [this]; rfl
  | tupleVar t =>
    simp only [Ty.src] at hsrc
    cases hsrc
    simp only [conforms, Bool.and_eq_true] at hc
    simp only [hit, Bool.or_eq_false_iff] at hst
    refine ⟨hc.1, ?_⟩
    have := hst.1
    unfold pgStrict at this
    rw [this]; rfl

mutual
/-- `is_subclass(S, c)` and `v : S` give an instance of `c` (or, for a plain list standing for a
    MultiInputObj[...], a class the tables coerce to `c`) -/
theorem subTy_step (sac : Bool) : ∀ (S : Ty) (v : V) (c : Cls), isSubTy S c = true → conforms S v = true →
    v.std = true → isInstance v c = true ∨ coercibleRT (cfgOf sac) v.cls c = true
  | .cls a, v, c, hs, hc, _ => by
    simp only [isSubTy] at hs
    simp only [conforms, isInstance] at hc
    exact Or.inl (issub_trans hc hs)
  | .any, _, _, hs, _, _ => by simp [isSubTy] at hs
  | .union l, v, c, hs, hc, hv => by
    simp only [isSubTy] at hs
    simp only [conforms] at hc
    exact subTyL_step sac l v c hs hc hv
  | .gen o args, v, c, hs, hc, hv => by
    simp only [isSubTy] at hs
    unfold conforms at hc
    by_cases hm : o = MIO
    · subst hm
      simp only [beq_self_eq_true, ↓reduceIte, Bool.and_eq_true] at hc
      exact mio_sub_step sac v.cls c hc.1 (std_cls hv) hs
    · have hm' : (o == MIO) = false := by simpa using hm
      simp only [hm', Bool.false_eq_true, ↓reduceIte, Bool.and_eq_true] at hc
      exact Or.inl (issub_trans hc.1 hs)
  | .tupleVar t, v, c, hs, hc, _ => by
    simp only [isSubTy] at hs
    simp only [conforms, Bool.and_eq_true] at hc
    exact Or.inl (issub_trans hc.1 hs)
theorem subTyL_step (sac : Bool) : ∀ (l : List Ty) (v : V) (c : Cls), allSubTy l c = true → conformsAny l v = true →
    v.std = true → isInstance v c = true ∨ coercibleRT (cfgOf sac) v.cls c = true
  | [], _, _, _, hc, _ => by simp at hc
  | a :: as, v, c, hs, hc, hv => by
    simp only [allSubTy_cons, Bool.and_eq_true] at hs
    simp only [conformsAny_cons, Bool.or_eq_true] at hc
    rcases hc with hc | hc
    · exact subTy_step sac a v c hs.1 hc hv
    · exact subTyL_step sac as v c hs.2 hc hv
end

/-- BASIC CASE of C21: `check_basic(S, c)` passes ⇒ a conforming standard value is accepted by
    `coerce_basic`, unless the constructor call raises (D25 / D25b / D25c at a bare class). -/
theorem basic_step (sac : Bool) (S : Ty) (c : Cls) (v : V) (hchk : checkBasic S c = .ok ())
    (haf : S.anyFree = true) (hc : conforms S v = true) (hv : v.std = true)
    (hst : hit pbStrict pgStrict S v = false) (hex : pbEx21 sac c v = false) :
    ∃ y, coerceBasic (cfgOf sac) c v = .ok y := by
  have hstep : isInstance v c = true ∨ coercibleRT (cfgOf sac) v.cls c = true := by
    unfold checkBasic at hchk
    split at hchk
    · rename_i hs
      exact subTy_step sac S v c hs hc hv
    · split at hchk
      · rename_i hcs
        -- the source has a class: Any is excluded, a Union object never passes the table test
        cases hsrc : S.src with
        | cls a =>
          rw [hsrc] at hcs
          obtain ⟨h1, h2⟩ := conforms_src_cls hsrc hc hst
          exact C21_tables_static_dynamic sac v.cls a c (std_cls hv) h1 h2 hcs
        | any =>
          cases S <;> simp [Ty.src] at hsrc
          simp [Ty.anyFree] at haf
        | unionObj =>
          rw [hsrc] at hcs
          have : coercibleStatic Src.unionObj c = false := by
            unfold coercibleStatic
            have hm : matchesCritS coercibleDefault Src.unionObj c = none := by
              have h0 : (Cls.all.all (fun c => (matchesCritS coercibleDefault Src.unionObj c).isNone)) = true := by decide
              have := forall_cls (P := fun c => (matchesCritS coercibleDefault Src.unionObj c).isNone) h0 c
              simpa using this
            simp [hm]
          rw [this] at hcs; cases hcs
      · cases hchk
  unfold coerceBasic
  rcases hstep with hi | hco
  · exact ⟨v, by simp [hi]⟩
  · by_cases hi : isInstance v c = true
    · exact ⟨v, by simp [hi]⟩
    · have hi' : isInstance v c = false := by simpa using hi
      simp only [hi', Bool.false_eq_true, ↓reduceIte, hco]
      unfold pbEx21 at hex
      have hco' : coercibleRT { sac := sac } v.cls c = true := hco
      rw [hi', hco'] at hex
      cases hr : construct c v with
      | ok y => exact ⟨y, rfl⟩
      | error e => rw [hr] at hex; simp [R.isOk] at hex

end PydraModel.Typing
