import PydraModel.WfState.WholeB6
/-
Workflow-level theorem, part C: all nodes, and the final statement.
-/
namespace PydraModel.WfState.Simple
open PydraModel.WfState PydraModel.WfState.Model

/-- `NodeExecution.start` on any node of the class. -/
theorem runNode_ok (E : Env) (hall : AllFacts E) (nodes : List Node) (sts : Sts) (N : Nat) (hA : InvA E sts N)
    (senv : Spec.Env) (rs : Ress) (nd : Node) (hI : InvB E senv rs nd.name) (hF : Facts E nd) (hlt : nd.name < N)
    (hsize : ∀ f, sizeOf nodes (nd.name, f) = nd.lstLen f) :
    ∃ sts' r, runNode nodes sts rs nd = .ok (sts', r) ∧ InvA E sts' N ∧
      ResOK (E.axes nd.name)
        ((rowMajor (sizesOf (E.axes nd.name))).map (Spec.jobOut senv [] nd (keysOf (E.axes nd.name)))) r := by
  by_cases hax : E.axes nd.name = []
  · obtain ⟨r, hr, hok⟩ := runNode_stateless E nodes sts N hA senv rs nd.name hI nd hF rfl hlt hax
    exact ⟨sts, r, hr, hA, hok⟩
  · obtain ⟨s, hget, hs⟩ := hA.some nd.name hlt hax
    rw [entry_of_facts hF] at hs
    obtain ⟨sts', r, hr, hA', hok⟩ := runStateful_ok E hall nodes sts N hA senv rs nd hI hF hlt hax s hs hsize
    refine ⟨sts', r, ?_, hA', hok⟩
    unfold runNode
    rw [hget]; exact hr

theorem sizeOf_mem (nodes : List Node) (hnd : (nodes.map (·.name)).Nodup) (nd : Node) (hm : nd ∈ nodes) (f : Fld) :
    sizeOf nodes (nd.name, f) = nd.lstLen f := by
  induction nodes with
  | nil => simp at hm
  | cons a nodes ih =>
    simp only [List.map_cons, List.nodup_cons] at hnd
    rcases List.mem_cons.mp hm with rfl | hmem
    · simp [Model.sizeOf]
    · have hne : ¬ a.name = nd.name := fun he => hnd.1 (he ▸ List.mem_map.mpr ⟨nd, hmem, rfl⟩)
      simp only [Model.sizeOf, hne, if_false]
      exact ih hnd.2 hmem

theorem firstFailure_nil (order : List Node) : firstFailure order [] = none := by
  induction order with
  | nil => rfl
  | cons nd rest ih => simp [firstFailure, assocGet, ih]

/-- All remaining nodes: the model starts every node (nothing fails, nothing is blocked) and its results stay in step with
    the reference's environment. -/
theorem runAll_ok (E : Env) (hall : AllFacts E) (nodes : List Node) (N : Nat) (rest : List Node)
    (hF : ∀ nd ∈ rest, Facts E nd ∧ (∀ f, sizeOf nodes (nd.name, f) = nd.lstLen f))
    (o : Outcomes) (senv : Spec.Env) (n : Nat) (hA : InvA E o.sts N) (hI : InvB E senv o.rs n)
    (hfail : o.failed = []) (hblk : o.blocked = [])
    (hnames : ∀ k (hk : k < rest.length), rest[k].name = n + k) (hN : n + rest.length = N) :
    ∃ senv', (runAll nodes rest o).failed = [] ∧ Spec.evalNodes senv [] rest = .ok senv' ∧
      InvB E senv' (runAll nodes rest o).rs N ∧ InvA E (runAll nodes rest o).sts N := by
  induction rest generalizing o senv n with
  | nil =>
    simp only [List.length_nil, Nat.add_zero] at hN
    subst hN
    exact ⟨senv, hfail, rfl, hI, hA⟩
  | cons nd rest ih =>
    have hn : nd.name = n := by
      have := hnames 0 (Nat.zero_lt_succ _)
      simp only [List.getElem_cons_zero, Nat.add_zero] at this
      exact this
    obtain ⟨hFnd, hsize⟩ := hF nd (by simp)
    have hlt : nd.name < N := by rw [hn, ← hN]; simp
    subst hn
    obtain ⟨sts', r, hr, hA', hok⟩ := runNode_ok E hall nodes o.sts N hA senv o.rs nd hI hFnd hlt hsize
    have hev := evalNode_ok E senv o.rs nd.name hI nd hFnd rfl
    have hV : ((rowMajor (sizesOf (E.axes nd.name))).map (Spec.jobOut senv [] nd (keysOf (E.axes nd.name)))).length
        = prodL (sizesOf (E.axes nd.name)) := by rw [List.length_map, length_rowMajor]
    have hI' := invB_append hI _ r hV hok
    have hcond : (nd.lazyUps.any fun p => (o.failed.any fun e => e.1 == p.2) || o.blocked.contains p.2) = false := by
      rw [hfail, hblk]; simp
    obtain ⟨senv', h1, h2, h3, h4⟩ := ih
      (fun nd' h' => hF nd' (List.mem_cons_of_mem _ h'))
      { o with sts := sts', rs := o.rs ++ [(nd.name, r)] } _ (nd.name + 1) hA' hI' hfail hblk
      (by
        intro k hk
        have := hnames (k + 1) (Nat.succ_lt_succ hk)
        simp only [List.getElem_cons_succ] at this
        rw [this]
        show (nd.name + (k + 1) : Nat) = nd.name + 1 + k
        exact (Nat.add_right_comm nd.name 1 k ▸ rfl : nd.name + (k + 1) = nd.name + 1 + k) |> fun _ => by omega)
      (by simp only [List.length_cons] at hN; omega)
    refine ⟨senv', ?_, ?_, ?_, ?_⟩
    · simp only [runAll, hcond, Bool.false_eq_true, if_false, hr]; exact h1
    · simp only [Spec.evalNodes, hev, bind, Except.bind]; exact h2
    · simp only [runAll, hcond, Bool.false_eq_true, if_false, hr]; exact h3
    · simp only [runAll, hcond, Bool.false_eq_true, if_false, hr]; exact h4

/-! ### reading the results back -/

theorem mapM_ok_of_forall {α β : Type} (l : List α) (f : α → M β) (g : α → β) (h : ∀ a ∈ l, f a = .ok (g a)) :
    l.mapM f = .ok (l.map g) := by
  induction l with
  | nil => rfl
  | cons a l ih =>
    simp [List.mapM_cons, h a (by simp), ih (fun b hb => h b (List.mem_cons_of_mem _ hb)), bind, Except.bind, pure,
      Except.pure]

theorem mapM_ok_of_forall_str {α β : Type} (l : List α) (f : α → Except String β) (g : α → β)
    (h : ∀ a ∈ l, f a = .ok (g a)) : l.mapM f = .ok (l.map g) := by
  induction l with
  | nil => rfl
  | cons a l ih =>
    simp [List.mapM_cons, h a (by simp), ih (fun b hb => h b (List.mem_cons_of_mem _ hb)), bind, Except.bind, pure,
      Except.pure]

theorem nat_ne_aux (m i : Nat) : ¬ m = m + 1 + i := by omega
theorem nat_eq_aux (m i : Nat) : m + (i + 1) = m + 1 + i := by omega

/-- An association list whose names are `a, a+1, …` holds, at position `i`, the entry found by looking up `a + i`. -/
theorem rs_getElem (rs : Ress) (a : Nat) (h : rnames rs = List.range' a rs.length) :
    ∀ i (hi : i < rs.length), rs[i] = (a + i, rs.get (a + i)) := by
  induction rs generalizing a with
  | nil => intro i hi; simp at hi
  | cons e rs ih =>
    obtain ⟨m, r⟩ := e
    simp only [rnames, List.map_cons, List.length_cons, List.range'_succ, List.cons.injEq] at h
    obtain ⟨hm, hrest⟩ := h
    subst hm
    intro i hi
    cases i with
    | zero => simp [Ress.get]
    | succ i =>
      have := ih (m + 1) hrest i (by simp only [List.length_cons] at hi; omega)
      simp only [List.getElem_cons_succ, this, Ress.get]
      have hne : ¬ (m : Nat) = m + 1 + i := nat_ne_aux m i
      have e1 : (m : Nat) + (i + 1) = m + 1 + i := nat_eq_aux m i
      rw [e1]; simp [hne]

theorem senv_getElem (senv : Spec.Env) (a : Nat) (h : snames senv = List.range' a senv.length) :
    ∀ i (hi : i < senv.length), ∃ r, senv[i] = (a + i, r) ∧ senv.get (a + i) = some r := by
  induction senv generalizing a with
  | nil => intro i hi; simp at hi
  | cons e senv ih =>
    obtain ⟨m, r⟩ := e
    simp only [snames, List.map_cons, List.length_cons, List.range'_succ, List.cons.injEq] at h
    obtain ⟨hm, hrest⟩ := h
    subst hm
    intro i hi
    cases i with
    | zero => exact ⟨r, by simp, by simp [Spec.Env.get]⟩
    | succ i =>
      obtain ⟨r', h1, h2⟩ := ih (m + 1) hrest i (by simp only [List.length_cons] at hi; omega)
      have hne : ¬ (m : Nat) = m + 1 + i := nat_ne_aux m i
      have e1 : (m : Nat) + (i + 1) = m + 1 + i := nat_eq_aux m i
      refine ⟨r', by simp [h1, e1], ?_⟩
      rw [e1]; simp [Spec.Env.get, hne, h2]

/-- The per-node observables (job counts, job outputs) of the model and of the reference coincide. -/
theorem jobs_eq (E : Env) (senv : Spec.Env) (rs : Ress) (N : Nat) (hI : InvB E senv rs N) :
    (rs.map fun p => (p.1, p.2.outs.length)) = (senv.map fun p => (p.1, p.2.jobs)) ∧
    (rs.map fun p => (p.1, p.2.outs)) = (senv.map fun p => (p.1, p.2.jobOuts)) := by
  have hlr : rs.length = N := by
    have := congrArg List.length hI.rnames; simpa [rnames] using this
  have hls : senv.length = N := by
    have := congrArg List.length hI.snames; simpa [snames] using this
  have hr := rs_getElem rs 0 (by rw [hI.rnames, hlr, List.range_eq_range'])
  have hs := senv_getElem senv 0 (by rw [hI.snames, hls, List.range_eq_range'])
  constructor <;>
  · apply List.ext_getElem (by simp [hlr, hls])
    intro i h1 h2
    have hi : i < N := by simpa [hlr] using h1
    obtain ⟨r, hse, hget⟩ := hs i (by rw [hls]; exact hi)
    obtain ⟨V, hgetV, _, hres⟩ := hI.node i hi
    simp only [Nat.zero_add] at hget
    rw [hget] at hgetV
    have hrV : r = specRes (E.axes i) V := Option.some.inj hgetV
    simp only [List.getElem_map, hr i (by rw [hlr]; exact hi), hse, Nat.zero_add, hrV, specRes, hres.outs]

end PydraModel.WfState.Simple
