import PydraModel.WfState.Model
/-
Running a constructed workflow a second time (C30: the construct cache hands the SAME `Workflow` object — the same node and
`State` objects — to every task with equal inputs, and every `Submitter` call applies `Workflow._create_graph` to them
again).  `runTwice` is the model of two consecutive runs over the same state objects: the second run starts from the states
the first run left behind (`Outcomes.sts`), re-applies the graph pass and runs all nodes with fresh results.
-/
namespace PydraModel.WfState.Model

/-- What the caller sees of one execution: the first failure in start order, or outputs and per-node jobs. -/
def resultOf (w : Wf) (o : Outcomes) : M Result :=
  match firstFailure (startOrder w.nodes) o.failed with
  | some e => throw e
  | none => do
    let outs ← w.outs.mapM fun n => getValue (o.rs.get n) none
    return { outs := outs, jobs := o.rs.map fun (n, r) => (n, r.outs.length), jobOuts := o.rs.map fun (n, r) => (n, r.outs) }

/-- One `Submitter` call on already constructed nodes whose state objects are `sts`. -/
def execute (w : Wf) (sts : Sts) : M (Result × Sts) := do
  let sts ← graphPass sts w.nodes
  let o := runAll w.nodes w.nodes { sts := sts }
  return (← resultOf w o, o.sts)

theorem run_eq_execute (w : Wf) :
    run w = (do let sts ← constructPass [] w.nodes; let r ← execute w sts; return r.1) := by
  unfold run execute resultOf
  cases constructPass [] w.nodes with
  | error e => rfl
  | ok sts =>
    simp only [bind, Except.bind]
    cases graphPass sts w.nodes with
    | error e => rfl
    | ok sts2 =>
      simp only [pure, Except.pure]
      cases firstFailure (startOrder w.nodes) (runAll w.nodes w.nodes { sts := sts2 }).failed with
      | some e => rfl
      | none =>
        simp only [bind, Except.bind]
        cases List.mapM (fun n => getValue ((runAll w.nodes w.nodes { sts := sts2 }).rs.get n) none) w.outs <;> rfl

/-- Two consecutive runs of the same constructed workflow: the first result, and the second run's outcome. -/
def runTwice (w : Wf) : M (Result × M Result) := do
  let sts ← constructPass [] w.nodes
  let (r1, sts1) ← execute w sts
  return (r1, do let r ← execute w sts1; return r.1)

end PydraModel.WfState.Model
