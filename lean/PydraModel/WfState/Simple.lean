import PydraModel.WfState.Spec
import PydraModel.WfState.Model
/-
C03, workflow-level theorem: the class `Simple` for which `Model.run w` and `Spec.run w` are PROVED to agree.

  * no combiner anywhere;
  * own splitters are absent, over one field, or OUTER over two different fields (no scalar/inner splitter);
  * every split field holds a non-empty literal list;
  * nodes are named by their position and refer to earlier nodes only;
  * at every node: each upstream that has a state feeds exactly ONE field, the axes of the connected upstream states and
    the node's own axes are pairwise disjoint and duplicate-free (`NoSharedOrigin` at the level of axes), and no connected
    upstream state is itself fed by another connected upstream state.

    (The "one field" and "not fed by another connected one" conditions are consequences of the axis condition — a state that
    feeds two fields, or that sits below another connected state, contributes its axes twice — and are listed because the
    proofs use them directly: the class is "no combiner, no scalar splitter, the merged axes of every node are duplicate-free".)

All of it is decidable (`Simple.simple : Wf → Bool`) and is evaluated by the driver on every generated workflow.
-/
namespace PydraModel.WfState.Simple
open PydraModel.WfState

/-- What the class bookkeeping remembers of an earlier node: its axes (no combiners: the concatenation of its upstreams'
    axes and its own) and the names of its upstream nodes that have a state. -/
structure Entry where
  axes : List (Key × Nat)
  sups : List (Fld × Name)      -- connections (field, upstream) to upstream nodes that have a state
  cur : Model.OTree := none     -- the node's own splitter
  deriving Inhabited, Repr

abbrev Env := List Entry      -- entry `i` describes node `i`

def Env.axes (env : Env) (u : Name) : List (Key × Nat) := (env[u]?.map (·.axes)).getD []
def Env.sups (env : Env) (u : Name) : List Name := (env[u]?.map fun e => e.sups.map (·.2)).getD []
def Env.entry (env : Env) (u : Name) : Entry := env[u]?.getD default

/-- The node's own axes (outer splitter: two axes). -/
def ownAx (nd : Node) : List (Key × Nat) :=
  match nd.split with
  | .no => []
  | .single f => [((nd.name, f), nd.lstLen f)]
  | .outer f g => [((nd.name, f), nd.lstLen f), ((nd.name, g), nd.lstLen g)]
  | .inner _ _ => []

/-- The lazy connections to upstream nodes that have a state. -/
def sUps (env : Env) (nd : Node) : List (Fld × Name) := nd.lazyUps.filter fun p => !(env.axes p.2).isEmpty

/-- Axes inherited from the upstream states, in the order of the connected fields. -/
def upAx (env : Env) (nd : Node) : List (Key × Nat) := ((sUps env nd).map fun p => env.axes p.2).flatten

def entryOf (env : Env) (nd : Node) : Entry :=
  { axes := upAx env nd ++ ownAx nd, sups := sUps env nd, cur := Model.ownTree nd }

/-- The conditions on one node, given the bookkeeping of the earlier nodes. -/
def nodeOK (env : Env) (nd : Node) : Bool :=
  nd.name == env.length &&
  nd.comb.isEmpty && nd.ownComb.isEmpty &&
  (match nd.split with
    | .inner _ _ => false
    | .outer f g => f != g
    | _ => true) &&
  nd.split.fields.all (fun f => match nd.src f with | .lst vs => !vs.isEmpty | _ => false) &&
  nd.lazyUps.all (fun p => p.2 < nd.name) &&
  decide ((sUps env nd).map (·.2)).Nodup &&
  decide ((upAx env nd ++ ownAx nd).map (·.1)).Nodup &&
  (sUps env nd).all (fun p => (env.sups p.2).all fun r => !((sUps env nd).map (·.2)).contains r)

def simpleFrom (env : Env) : List Node → Bool
  | [] => true
  | nd :: rest => nodeOK env nd && simpleFrom (env ++ [entryOf env nd]) rest

/-- The class of the workflow-level theorem. -/
def simple (w : Wf) : Bool := simpleFrom [] w.nodes && w.outs.all (· < w.nodes.length)

end PydraModel.WfState.Simple
