import PydraModel.WfState.WholeB2
/-
Workflow-level theorem, part B3: a node WITH a state — `set_input_groups`, the own enumeration and the job enumeration.
-/
namespace PydraModel.WfState.Simple
open PydraModel.WfState PydraModel.WfState.Model

theorem leaves_ne_nil (t : Tree) : t.leaves ≠ [] := by
  induction t with
  | leaf k => simp [Tree.leaves]
  | outer l r ihl _ => simp [Tree.leaves, ihl]
  | inner l r ihl _ => simp [Tree.leaves, ihl]

theorem mergePrev_nil (sts : Sts) (prev : List Name) : mergePrev sts prev [] = .ok [] := by
  induction prev with
  | nil => rfl
  | cons u rest ih => simp [mergePrev, dedup, ih]

theorem splitsGroups_own (nd : Node) (hni : ∀ f g, nd.split ≠ .inner f g) : splitsGroups (ownTree nd) [] = .ok [] := by
  unfold ownTree
  cases hsp : nd.split with
  | no => rfl
  | single f => rfl
  | outer f g => simp [splitsGroups, Tree.groupsEval, bind, Except.bind, SG.fresh, pure, Except.pure]
  | inner f g => exact absurd hsp (hni f g)

/-- `set_input_groups` on a plain state: nothing to combine, no exception. -/
theorem setInputGroups_ok (E : Env) (sts : Sts) (N : Nat) (hA : InvA E sts N) (nd : Node) (hF : Facts E nd)
    (s : St) (hs : StOK (entryOf E nd) s)
    (hprev : ∀ u ∈ (sUps E nd).map (·.2), u < N ∧ E.axes u ≠ []) :
    setInputGroups sts s = .ok { s with ran := true, curCombAll := [], prevCombAll := [] } := by
  have hsprev : s.prev = (sUps E nd).map (·.2) := hs.prev
  have hcur : s.cur = ownTree nd := hs.cur
  unfold setInputGroups
  simp only [hs.comb, hs.ownComb, List.filter_nil, List.isEmpty_nil, if_true, mergePrev_nil, hcur,
    splitsGroups_own nd hF.notInner, bind, Except.bind, pure, Except.pure, dedup]
  have hleft : ∀ b : Bool, (!s.prev.isEmpty && b &&
      (List.filter (fun c => !([] : List Key).contains c) (List.flatMap oleaves (finalsOf sts s.prev))).isEmpty) = false := by
    intro b
    cases hp : s.prev with
    | nil => simp
    | cons u rest =>
      have hall := finals_all_some E sts N hA s.prev (by rw [hsprev]; exact hprev)
      rw [hp] at hall
      have hu := hall ((sts.getSt u).finalTree) (by simp [finalsOf])
      obtain ⟨t, ht⟩ := Option.isSome_iff_exists.mp hu
      have : (List.filter (fun c => !([] : List Key).contains c)
          (List.flatMap oleaves (finalsOf sts (u :: rest)))).isEmpty = false := by
        rw [List.isEmpty_eq_false_iff]
        cases hl : t.leaves with
        | nil => exact absurd hl (leaves_ne_nil t)
        | cons a l =>
          intro hnil
          have hmem : a ∈ List.filter (fun c => !([] : List Key).contains c)
              (List.flatMap oleaves (finalsOf sts (u :: rest))) := by
            rw [List.mem_filter]
            refine ⟨?_, by simp⟩
            rw [List.mem_flatMap]
            exact ⟨(sts.getSt u).finalTree, by simp [finalsOf], by rw [ht]; simp [oleaves, hl]⟩
          rw [hnil] at hmem; simp at hmem
      rw [this, Bool.and_false]
  split <;> simp only [hleft, Bool.false_eq_true, if_false]

/-! ### the own enumeration -/

theorem flattenL_eq_flatten {α : Type} (l : List (List α)) : flattenL l = l.flatten := by
  induction l with
  | nil => rfl
  | cons x l ih => simp [flattenL] at ih ⊢; rw [ih]

/-- The model's own enumeration, in terms of the reference's own axes. -/
def ownOpt (nd : Node) : Option (List (List Nat) × List Key) :=
  if ownAx nd = [] then none else some (rowMajor (sizesOf (ownAx nd)), keysOf (ownAx nd))

theorem ownEnum_ok {E : Env} {nd : Node} (hF : Facts E nd) (size : Key → Nat)
    (hsize : ∀ f, size (nd.name, f) = nd.lstLen f) : ownEnum size (ownTree nd) = .ok (ownOpt nd) := by
  unfold ownEnum ownTree ownOpt ownAx
  cases hsp : nd.split with
  | no => rfl
  | single f =>
    simp only [Tree.enum, hsize, bind, Except.bind, pure, Except.pure, sizesOf, keysOf, List.map_cons, List.map_nil,
      rowMajor_singleton]
    simp
  | outer f g =>
    simp only [Tree.enum, hsize, bind, Except.bind, pure, Except.pure, sizesOf, keysOf, List.map_cons, List.map_nil]
    have := rowMajor_append [nd.lstLen f] [nd.lstLen g]
    simp only [List.cons_append, List.nil_append, rowMajor_singleton] at this
    simp [this]
  | inner f g => exact absurd hsp (hF.notInner f g)

theorem ownLen_ownOpt (nd : Node) : ownLen (ownOpt nd) = prodL (sizesOf (ownAx nd)) := by
  unfold ownOpt ownLen
  by_cases h : ownAx nd = []
  · simp [h, prodL]
  · simp only [h, if_false]
    exact length_rowMajor _

end PydraModel.WfState.Simple
