import PydraModel.WfState.WholeB2
/-
Workflow-level theorem, part B3: a node WITH a state — `set_input_groups`, the own enumeration and the job enumeration.
-/
namespace PydraModel.WfState.Simple
open PydraModel.WfState PydraModel.WfState.Model

theorem leaves_ne_nil (t : Tree) : t.leaves ≠ [] := by
  induction t with
  | leaf k => simp [Tree.leaves]
  | outer l r ihl _ => simp [Tree.leaves, ihl]
  | inner l r ihl _ => simp [Tree.leaves, ihl]

theorem mergePrev_nil (sts : Sts) (prev : List Name) : mergePrev sts prev [] = .ok [] := by
  induction prev with
  | nil => rfl
  | cons u rest ih => simp [mergePrev, dedup, ih]

theorem splitsGroups_own (nd : Node) (hni : ∀ f g, nd.split ≠ .inner f g) : splitsGroups (ownTree nd) [] = .ok [] := by
  unfold ownTree
  cases hsp : nd.split with
  | no => rfl
  | single f => rfl
  | outer f g => simp [splitsGroups, Tree.groupsEval, bind, Except.bind, SG.fresh, pure, Except.pure]
  | inner f g => exact absurd hsp (hni f g)

/-- `set_input_groups` on a plain state: nothing to combine, no exception. -/
theorem setInputGroups_ok (E : Env) (sts : Sts) (N : Nat) (hA : InvA E sts N) (nd : Node) (hF : Facts E nd)
    (s : St) (hs : StOK (entryOf E nd) s)
    (hprev : ∀ u ∈ (sUps E nd).map (·.2), u < N ∧ E.axes u ≠ []) :
    setInputGroups sts s = .ok { s with ran := true, curCombAll := [], prevCombAll := [] } := by
  have hsprev : s.prev = (sUps E nd).map (·.2) := hs.prev
  have hcur : s.cur = ownTree nd := hs.cur
  unfold setInputGroups
  simp only [hs.comb, hs.ownComb, List.filter_nil, List.isEmpty_nil, if_true, mergePrev_nil, hcur,
    splitsGroups_own nd hF.notInner, bind, Except.bind, pure, Except.pure, dedup]
  have hleft : ∀ b : Bool, (!s.prev.isEmpty && b &&
      (List.flatMap (prevGroupKeys sts []) s.prev).isEmpty) = false := by
    intro b
    cases hp : s.prev with
    | nil => simp
    | cons u rest =>
      have hu : u ∈ (sUps E nd).map (·.2) := by rw [← hsprev, hp]; simp
      obtain ⟨su, hget, hok⟩ := hA.some u (hprev u hu).1 (hprev u hu).2
      have hfull : su.finalTree.isSome = true := by rw [hok.final]; exact hok.full
      obtain ⟨t, ht⟩ := Option.isSome_iff_exists.mp hfull
      have hkeys : prevGroupKeys sts [] u = t.leaves := by
        unfold prevGroupKeys St.groupKeysNow
        simp [getSt_of_get hget, hok.comb, ht, oleaves]
      have : (List.flatMap (prevGroupKeys sts []) (u :: rest)).isEmpty = false := by
        rw [List.isEmpty_eq_false_iff]
        intro hnil
        simp only [List.flatMap_cons, List.append_eq_nil_iff] at hnil
        exact leaves_ne_nil t (hkeys ▸ hnil.1)
      rw [this, Bool.and_false]
  split <;> simp only [hleft, Bool.false_eq_true, if_false]

/-! ### the own enumeration -/

theorem flattenL_eq_flatten {α : Type} (l : List (List α)) : flattenL l = l.flatten := by
  induction l with
  | nil => rfl
  | cons x l ih => simp [flattenL] at ih ⊢; rw [ih]

/-- The model's own enumeration, in terms of the reference's own axes. -/
def ownOpt (nd : Node) : Option (List (List Nat) × List Key) :=
  if ownAx nd = [] then none else some (rowMajor (sizesOf (ownAx nd)), keysOf (ownAx nd))

theorem ownEnum_ok {E : Env} {nd : Node} (hF : Facts E nd) (size : Key → Nat)
    (hsize : ∀ f, size (nd.name, f) = nd.lstLen f) : ownEnum size (ownTree nd) = .ok (ownOpt nd) := by
  unfold ownEnum ownTree ownOpt ownAx
  cases hsp : nd.split with
  | no => rfl
  | single f =>
    simp only [Tree.enum, hsize, bind, Except.bind, pure, Except.pure, sizesOf, keysOf, List.map_cons, List.map_nil,
      rowMajor_singleton]
    simp
  | outer f g =>
    simp only [Tree.enum, hsize, bind, Except.bind, pure, Except.pure, sizesOf, keysOf, List.map_cons, List.map_nil]
    have := rowMajor_append [nd.lstLen f] [nd.lstLen g]
    simp only [List.cons_append, List.nil_append, rowMajor_singleton] at this
    simp [this]
  | inner f g => exact absurd hsp (hF.notInner f g)

theorem ownLen_ownOpt (nd : Node) : ownLen (ownOpt nd) = prodL (sizesOf (ownAx nd)) := by
  unfold ownOpt ownLen
  by_cases h : ownAx nd = []
  · simp [h, prodL]
  · simp only [h, if_false]
    exact length_rowMajor _

end PydraModel.WfState.Simple
