import PydraModel.WfState.WholeB3
/-
Workflow-level theorem, part B4: the enumeration of the jobs of a node with a state, and the index blocks of `prepare_inputs`.
-/
namespace PydraModel.WfState.Simple
open PydraModel.WfState PydraModel.WfState.Model

/-- Every node name below `E.length` is a node of the class (with its `Facts`). -/
def AllFacts (E : Env) : Prop := ∀ u, u < E.length → ∃ nd : Node, nd.name = u ∧ Facts E nd

/-- Origin tags: the axes of node `u` were created by `u` or by an earlier node. -/
theorem axes_origin_le (E : Env) (hall : AllFacts E) : ∀ u, u < E.length → ∀ a ∈ E.axes u, a.1.1 ≤ u := by
  intro u
  induction u using Nat.strongRecOn with
  | _ u ih =>
    intro hu a ha
    obtain ⟨nd, hn, hF⟩ := hall u hu
    rw [← hn, axes_of_facts hF] at ha
    rcases List.mem_append.mp ha with h | h
    · unfold upAx at h
      obtain ⟨l, hl, hal⟩ := List.mem_flatten.mp h
      obtain ⟨p, hp, rfl⟩ := List.mem_map.mp hl
      have hp2 : p.2 < u := hn ▸ hF.refs p (List.mem_filter.mp hp).1
      have := ih p.2 hp2 (Nat.lt_trans hp2 hu) a hal
      exact Nat.le_trans this (Nat.le_of_lt hp2)
    · unfold ownAx at h
      cases hsp : nd.split with
      | no => rw [hsp] at h; simp at h
      | single f => rw [hsp] at h; simp at h; subst h; simp [hn]
      | outer f g =>
        rw [hsp] at h; simp at h
        rcases h with h | h <;> (subst h; simp [hn])
      | inner f g => rw [hsp] at h; simp at h

theorem zipWith_map_map {α β γ δ : Type} (f : β → γ → δ) (g : α → β) (h : α → γ) (l : List α) :
    List.zipWith f (l.map g) (l.map h) = l.map fun a => f (g a) (h a) := by
  induction l with
  | nil => rfl
  | cons a l ih => simp [ih]

theorem assocGet_mk (S : List (Fld × Name)) (p : Fld × Name) (hp : p ∈ S) (hnd : (S.map (·.2)).Nodup) :
    assocGet (S.map mk) p.2 = some [p.1] := by
  induction S with
  | nil => simp at hp
  | cons q S ih =>
    simp only [List.map_cons, List.nodup_cons] at hnd
    rcases List.mem_cons.mp hp with rfl | hmem
    · simp [assocGet, mk]
    · have hne : ¬ q.2 = p.2 := by
        intro he
        exact hnd.1 (he ▸ List.mem_map.mpr ⟨p, hmem, rfl⟩)
      simp only [List.map_cons, assocGet, mk, hne, if_false]
      exact ih hmem hnd.2

/-- What the invariants say about the connected upstream states of a node. -/
theorem sUps_res (E : Env) (senv : Spec.Env) (rs : Ress) (n : Nat) (hI : InvB E senv rs n) (nd : Node) (hF : Facts E nd)
    (hn : nd.name = n) : ∀ p ∈ sUps E nd,
      (rs.get p.2).indFinal = rowMajor (sizesOf (E.axes p.2)) ∧ (rs.get p.2).keysFinal = keysOf (E.axes p.2) ∧
      (rs.get p.2).statesIndFinal.length = prodL (sizesOf (E.axes p.2)) := by
  intro p hp
  have hu : p.2 < n := hn ▸ hF.refs p (List.mem_filter.mp hp).1
  have hax := sUps_axes_ne p hp
  obtain ⟨V, _, _, hr⟩ := hI.node p.2 hu
  exact ⟨hr.indFinal hax, hr.keysFinal hax, hr.nFinal hax⟩

theorem sizesOf_upAx (E : Env) (nd : Node) :
    sizesOf (upAx E nd) = ((sUps E nd).map fun p => sizesOf (E.axes p.2)).flatten := by
  simp [sizesOf, upAx, List.map_flatten, List.map_map, Function.comp_def]

theorem keysOf_upAx (E : Env) (nd : Node) :
    keysOf (upAx E nd) = ((sUps E nd).map fun p => keysOf (E.axes p.2)).flatten := by
  simp [keysOf, upAx, List.map_flatten, List.map_map, Function.comp_def]

/-- JOB ENUMERATION of a node of the class: the product of the upstream enumerations and the own enumeration, tuples
    concatenated, is the reference's row-major enumeration of the node's axes; the key list is the axes' key list. -/
theorem enumeration_ok (E : Env) (senv : Spec.Env) (rs : Ress) (n : Nat) (hI : InvB E senv rs n) (nd : Node)
    (hF : Facts E nd) (hn : nd.name = n) :
    (cart (((sUps E nd).map fun p => rs.get p.2).map (·.indFinal) ++
        ownBlock (ownOpt nd))).map flattenL
      = rowMajor (sizesOf (E.axes n)) ∧
    ((sUps E nd).map fun p => rs.get p.2).flatMap (·.keysFinal) ++ ownKeyList (ownOpt nd)
      = keysOf (E.axes n) := by
  have hres := sUps_res E senv rs n hI nd hF hn
  have hax : E.axes n = upAx E nd ++ ownAx nd := hn ▸ axes_of_facts hF
  have hblocks : ((sUps E nd).map fun p => rs.get p.2).map (·.indFinal)
      = ((sUps E nd).map fun p => sizesOf (E.axes p.2)).map rowMajor := by
    simp only [List.map_map]
    apply List.map_congr_left
    intro p hp
    exact (hres p hp).1
  have hkeys : ((sUps E nd).map fun p => rs.get p.2).flatMap (·.keysFinal) = keysOf (upAx E nd) := by
    rw [keysOf_upAx, List.flatMap_def, List.map_map]
    congr 1
    apply List.map_congr_left
    intro p hp
    exact (hres p hp).2.1
  have hfl : ∀ l : List (List (List Nat)), l.map flattenL = l.map List.flatten :=
    fun l => List.map_congr_left fun x _ => flattenL_eq_flatten x
  rw [hblocks, hkeys, hax, hfl]
  unfold ownOpt
  by_cases ho : ownAx nd = []
  · simp only [ho, if_true, List.append_nil, ownBlock, ownKeyList]
    exact ⟨by rw [cart_rowMajor_blocks, sizesOf_upAx], by first | rfl | trivial⟩
  · simp only [ho, if_false, ownBlock, ownKeyList]
    constructor
    · have : ((sUps E nd).map fun p => sizesOf (E.axes p.2)).map rowMajor ++ [rowMajor (sizesOf (ownAx nd))]
          = (((sUps E nd).map fun p => sizesOf (E.axes p.2)) ++ [sizesOf (ownAx nd)]).map rowMajor := by simp
      rw [this, cart_rowMajor_blocks]
      simp [sizesOf_upAx, sizesOf, List.flatten_append]
    · simp [keysOf]

/-- The index blocks of `prepare_inputs` on the class: one upstream, one field, one index. -/
theorem prevs_ok (E : Env) (senv : Spec.Env) (rs : Ress) (n : Nat) (hI : InvB E senv rs n) (nd : Node) (hF : Facts E nd)
    (hn : nd.name = n) :
    ((sUps E nd).map (·.2)).map (fun u => ((rs.get u).statesIndFinal.length, (assocGet ((sUps E nd).map mk) u).getD []))
      = List.zipWith (fun a f => (prodL (a.map (·.2)), [f])) ((sUps E nd).map fun p => E.axes p.2) ((sUps E nd).map (·.1)) := by
  have hres := sUps_res E senv rs n hI nd hF hn
  rw [zipWith_map_map, List.map_map]
  apply List.map_congr_left
  intro p hp
  simp only [Function.comp]
  rw [(hres p hp).2.2, assocGet_mk _ p hp hF.supsNodup]
  rfl

end PydraModel.WfState.Simple
