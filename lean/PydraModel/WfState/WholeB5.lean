import PydraModel.WfState.WholeB4
/-
Workflow-level theorem, part B5: every job of a node with a state receives what the reference's job at the same point
receives.
-/
namespace PydraModel.WfState.Simple
open PydraModel.WfState PydraModel.WfState.Model

theorem mapM_eq_ok {α β : Type} (l : List α) (f : α → M β) (out : List β) (hlen : out.length = l.length)
    (h : ∀ j (hj : j < l.length), f l[j] = .ok (out[j]'(hlen ▸ hj))) : l.mapM f = .ok out := by
  induction l generalizing out with
  | nil =>
    cases out with
    | nil => rfl
    | cons b out => simp at hlen
  | cons a l ih =>
    cases out with
    | nil => simp at hlen
    | cons b out =>
      have h0 := h 0 (by simp)
      simp only [List.getElem_cons_zero] at h0
      have ih' := ih out (by simpa using hlen) (by
        intro j hj
        have := h (j + 1) (by simp; omega)
        simpa using this)
      simp [List.mapM_cons, h0, ih', bind, Except.bind, pure, Except.pure]

/-- The distinct fields of the lazy connections. -/
theorem lazyUps_fields_nodup (nd : Node) : (nd.lazyUps.map (·.1)).Nodup := by
  have key : ∀ l : List Fld, l.Nodup →
      ((l.filterMap fun f => match nd.src f with | .up u => some (f, u) | _ => Option.none).map (·.1)).Nodup ∧
      ∀ f, f ∈ (l.filterMap fun f => match nd.src f with | .up u => some (f, u) | _ => Option.none).map (·.1) → f ∈ l := by
    intro l
    induction l with
    | nil => intro _; simp
    | cons a l ih =>
      intro hnd
      obtain ⟨ih1, ih2⟩ := ih (List.nodup_cons.mp hnd).2
      cases hs : nd.src a with
      | up u =>
        simp only [List.filterMap_cons, hs, List.map_cons, List.nodup_cons, List.mem_cons]
        refine ⟨⟨fun hm => (List.nodup_cons.mp hnd).1 (ih2 a hm), ih1⟩, ?_⟩
        intro f hf
        rcases hf with hf | hf
        · exact Or.inl hf
        · exact Or.inr (ih2 f hf)
      | none => simp only [List.filterMap_cons, hs]; exact ⟨ih1, fun f hf => List.mem_cons_of_mem _ (ih2 f hf)⟩
      | const v => simp only [List.filterMap_cons, hs]; exact ⟨ih1, fun f hf => List.mem_cons_of_mem _ (ih2 f hf)⟩
      | lst vs => simp only [List.filterMap_cons, hs]; exact ⟨ih1, fun f hf => List.mem_cons_of_mem _ (ih2 f hf)⟩
  exact (key Fld.all (by decide)).1

theorem sUps_fields_nodup (E : Env) (nd : Node) : ((sUps E nd).map (·.1)).Nodup := by
  have h := lazyUps_fields_nodup nd
  unfold sUps
  exact List.Nodup.sublist (List.Sublist.map _ List.filter_sublist) h

/-- Own axes: keys are the node's split fields. -/
theorem ownAx_keys (nd : Node) : keysOf (ownAx nd) = (match nd.split with | .inner _ _ => [] | s => s.fields).map fun f => (nd.name, f) := by
  unfold ownAx keysOf
  cases nd.split <;> rfl

theorem mem_ownAx_keys {E : Env} {nd : Node} (hF : Facts E nd) (f : Fld) :
    (nd.name, f) ∈ keysOf (ownAx nd) ↔ f ∈ nd.split.fields := by
  rw [ownAx_keys]
  cases hsp : nd.split with
  | inner a b => exact absurd hsp (hF.notInner a b)
  | no => simp [Split.fields]
  | single a =>
    simp only [Split.fields, List.map_cons, List.map_nil, List.mem_singleton, Prod.mk.injEq, true_and]
  | outer a b =>
    simp only [Split.fields, List.map_cons, List.map_nil, List.mem_cons, Prod.mk.injEq, true_and, List.not_mem_nil,
      or_false]

/-- The size of the own axis of a split field is the length of its list. -/
theorem ownAx_size {nd : Node} (f : Fld) (a : Key × Nat) (ha : a ∈ ownAx nd) (hk : a.1 = (nd.name, f)) :
    a.2 = nd.lstLen f := by
  unfold ownAx at ha
  cases hsp : nd.split with
  | no => rw [hsp] at ha; simp at ha
  | single g =>
    rw [hsp] at ha; simp at ha; subst ha
    simp only [Prod.mk.injEq, true_and] at hk; rw [hk]
  | outer g h =>
    rw [hsp] at ha; simp at ha
    rcases ha with ha | ha <;> (subst ha; simp only [Prod.mk.injEq, true_and] at hk; rw [hk])
  | inner g h => rw [hsp] at ha; simp at ha

/-- A coordinate of a point of the row-major enumeration is below the size of its axis. -/
theorem coordOf_decode_lt (ax : List (Key × Nat)) (hnd : (keysOf ax).Nodup) (j : Nat) (hj : j < prodL (sizesOf ax))
    (a : Key × Nat) (ha : a ∈ ax) : Spec.coordOf (keysOf ax) (decode (sizesOf ax) j) a.1 < a.2 := by
  induction ax generalizing j with
  | nil => simp at ha
  | cons b ax ih =>
    simp only [sizesOf, keysOf, List.map_cons, prodL] at hj hnd ⊢
    have hpos : 0 < prodL (ax.map (·.2)) := by
      rcases Nat.eq_zero_or_pos (prodL (ax.map (·.2))) with h0 | h0
      · rw [h0] at hj; simp at hj
      · exact h0
    simp only [decode, Spec.coordOf]
    rcases List.mem_cons.mp ha with rfl | hmem
    · simp only [if_true]
      exact Nat.div_lt_of_lt_mul (by rw [Nat.mul_comm]; exact hj)
    · have hne : ¬ b.1 = a.1 := by
        intro he
        exact (List.nodup_cons.mp hnd).1 (he ▸ List.mem_map.mpr ⟨a, hmem, rfl⟩)
      simp only [hne, if_false]
      exact ih (List.nodup_cons.mp hnd).2 _ (Nat.mod_lt _ hpos) hmem

theorem mkDict_get?_none {κ : Type} [DecidableEq κ] (ks : List κ) (vs : List Nat) (q : κ) (h : q ∉ ks) :
    (mkDict ks vs).get? q = none := by
  unfold mkDict
  rw [mkDictAux_get?_not_mem [] ks vs q h]; rfl

theorem encode_map_lt (ax : List (Key × Nat)) (g : Key → Nat) (h : ∀ a ∈ ax, g a.1 < a.2) :
    encode (sizesOf ax) (ax.map fun a => g a.1) < prodL (sizesOf ax) := by
  induction ax with
  | nil => simp [encode, prodL, sizesOf]
  | cons b ax ih =>
    simp only [sizesOf, List.map_cons, encode, prodL]
    have hb := h b (by simp)
    have ih' := ih (fun a ha => h a (List.mem_cons_of_mem _ ha))
    simp only [sizesOf] at ih'
    calc g b.1 * prodL (ax.map (·.2)) + encode (ax.map (·.2)) (ax.map fun a => g a.1)
        < g b.1 * prodL (ax.map (·.2)) + prodL (ax.map (·.2)) := Nat.add_lt_add_left ih' _
      _ = (g b.1 + 1) * prodL (ax.map (·.2)) := by rw [Nat.add_mul, Nat.one_mul]
      _ ≤ b.2 * prodL (ax.map (·.2)) := Nat.mul_le_mul_right _ hb

/-- A key that `prepare_inputs` does not produce is absent from every job's index dictionary. -/
theorem inputs_get_none (name : Name) (prevs : List (Nat × List Fld)) (own : Option (List (List Nat) × List Key))
    (j : Nat) (idx : Dict Key) (h : (inputsIndOf name prevs own)[j]? = some idx) (k : Key)
    (hk1 : k ∉ prevKeys name prevs) (hk2 : ∀ e ks, own = some (e, ks) → k ∉ ks) : idx.get? k = none := by
  have key : ∀ (blocks : List (List (List Nat))) (keys : List Key), k ∉ keys →
      (if blocks.isEmpty then [] else (cart blocks).map fun t => mkDict keys (flattenL t))[j]? = some idx →
      idx.get? k = none := by
    intro blocks keys hkk hh
    by_cases hb : blocks.isEmpty = true
    · simp [hb] at hh
    · simp only [hb, Bool.false_eq_true, if_false] at hh
      rw [List.getElem?_map] at hh
      obtain ⟨t, _, ht⟩ := Option.map_eq_some_iff.mp hh
      rw [← ht]
      exact mkDict_get?_none _ _ k hkk
  cases own with
  | none => exact key _ _ (by simpa [ownKeyList] using hk1) h
  | some p =>
    obtain ⟨e, ks⟩ := p
    exact key _ _ (fun hm => by
      rcases List.mem_append.mp hm with h1 | h1
      · exact hk1 h1
      · exact hk2 e ks rfl h1) h

theorem ownOpt_keys (nd : Node) : (match ownOpt nd with | some (_, ks) => ks | none => []) = keysOf (ownAx nd) := by
  unfold ownOpt
  by_cases ho : ownAx nd = []
  · simp [ho, keysOf]
  · simp [ho]

/-- The connection pairs as the two parallel lists the node-level routing theorem speaks about. -/
abbrev upsL (E : Env) (nd : Node) : List (List (Key × Nat)) := (sUps E nd).map fun p => E.axes p.2
abbrev fsL (E : Env) (nd : Node) : List Fld := (sUps E nd).map (·.1)
abbrev prevsL (E : Env) (nd : Node) : List (Nat × List Fld) :=
  List.zipWith (fun a f => (prodL (a.map (·.2)), [f])) (upsL E nd) (fsL E nd)

theorem prevKeys_prevsL (E : Env) (nd : Node) : prevKeys nd.name (prevsL E nd) = (fsL E nd).map fun f => (nd.name, f) := by
  have : prevsL E nd = List.zipWith (fun n f => (n, [f])) ((upsL E nd).map fun a => prodL (a.map (·.2))) (fsL E nd) := by
    simp [prevsL, List.zipWith_map_left]
  rw [this, prevKeys_single nd.name _ _ (by simp [fsL, upsL])]

/-- ONE INPUT OF ONE JOB.  Job `j` of a node of the class: the model's value for field `f` (element of the split list, or the
    upstream output at the routed state index) is the reference's value at the point `decode sizes j`. -/
theorem jobField_ok (E : Env) (hall : AllFacts E) (senv : Spec.Env) (rs : Ress) (nd : Node)
    (hI : InvB E senv rs nd.name) (hF : Facts E nd)
    (j : Nat) (hj : j < prodL (sizesOf (E.axes nd.name))) (idx : Dict Key)
    (hidx : (inputsIndOf nd.name (prevsL E nd) (ownOpt nd))[j]? = some idx) (f : Fld) :
    jobField rs nd idx (mkDict (keysOf (E.axes nd.name)) (decode (sizesOf (E.axes nd.name)) j)) f
      = .ok (Spec.fieldVal senv [] nd (keysOf (E.axes nd.name)) (decode (sizesOf (E.axes nd.name)) j) f) := by
  have hax : E.axes nd.name = upAx E nd ++ ownAx nd := axes_of_facts hF
  have hknd : (keysOf (E.axes nd.name)).Nodup := by rw [hax]; exact hF.keysNodup
  have hlen : (keysOf (E.axes nd.name)).length = (decode (sizesOf (E.axes nd.name)) j).length := by
    rw [decode_length]; simp [keysOf, sizesOf]
  -- keys of inherited axes carry the names of earlier nodes
  have hup : ∀ a ∈ upAx E nd, a.1.1 < nd.name := by
    intro a ha
    unfold upAx at ha
    obtain ⟨l, hl, hal⟩ := List.mem_flatten.mp ha
    obtain ⟨p, hp, rfl⟩ := List.mem_map.mp hl
    have hp2 : p.2 < nd.name := hF.refs p (List.mem_filter.mp hp).1
    exact Nat.lt_of_le_of_lt (axes_origin_le E hall p.2 (Nat.lt_trans hp2 hF.lt) a hal) hp2
  unfold jobField Spec.fieldVal
  by_cases hsplit : f ∈ nd.split.fields
  · -- a field of the own splitter
    obtain ⟨vs, hsrc, _⟩ := hF.lists f hsplit
    have hkown : (nd.name, f) ∈ keysOf (ownAx nd) := (mem_ownAx_keys hF f).mpr hsplit
    have hk : (nd.name, f) ∈ keysOf (E.axes nd.name) := by
      rw [hax]; simp only [keysOf, List.map_append]; exact List.mem_append_right _ hkown
    obtain ⟨a, ha, hak⟩ := List.mem_map.mp hkown
    have hlt : Spec.coordOf (keysOf (E.axes nd.name)) (decode (sizesOf (E.axes nd.name)) j) (nd.name, f) < vs.length := by
      have := coordOf_decode_lt (E.axes nd.name) hknd j hj a (by rw [hax]; exact List.mem_append_right _ ha)
      rw [hak, ownAx_size f a ha hak] at this
      simpa [Node.lstLen, hsrc] using this
    rw [mkDict_get?_coordOf _ _ hlen hknd _ hk]
    simp only [hsrc, List.getElem?_eq_getElem hlt, hsplit, if_true, Spec.resolve]
    rw [List.getD_eq_getElem?_getD, List.getElem?_eq_getElem hlt]; rfl
  · -- any other field: not a state key of this node
    have hnk : (nd.name, f) ∉ keysOf (E.axes nd.name) := by
      rw [hax]; simp only [keysOf, List.map_append]
      intro hm
      rcases List.mem_append.mp hm with h | h
      · obtain ⟨a, ha, hak⟩ := List.mem_map.mp h
        have := hup a ha
        rw [hak] at this; exact Nat.lt_irrefl _ this
      · exact hsplit ((mem_ownAx_keys hF f).mp h)
    rw [mkDict_get?_none _ _ _ hnk]
    unfold resolveField
    cases hsrc : nd.src f with
    | none => rfl
    | const v => rfl
    | lst vs => simp [hsplit]
    | up u =>
      have hmem := mem_lazyUps hsrc
      have hu : u < nd.name := hF.refs _ hmem
      simp only
      by_cases hau : E.axes u = []
      · -- an upstream without a state: no index, its single output
        have hnone : idx.get? (nd.name, f) = none := by
          apply inputs_get_none nd.name (prevsL E nd) (ownOpt nd) j idx hidx
          · rw [prevKeys_prevsL]
            intro h
            obtain ⟨g, hg, hgk⟩ := List.mem_map.mp h
            have hgf : g = f := (Prod.mk.inj hgk).2
            subst hgf
            obtain ⟨p, hp, hpg⟩ := List.mem_map.mp hg
            have hp' : p ∈ nd.lazyUps := (List.mem_filter.mp hp).1
            have : p.2 = u := lazyUps_fun (by rw [← hpg]; exact hp') hmem
            exact sUps_axes_ne p hp (this ▸ hau)
          · intro e ks hek h
            have hkk : ks = keysOf (ownAx nd) := by
              unfold ownOpt at hek
              by_cases ho : ownAx nd = []
              · simp [ho] at hek
              · simp only [ho, if_false, Option.some.injEq, Prod.mk.injEq] at hek; exact hek.2.symm
            rw [hkk] at h
            exact hsplit ((mem_ownAx_keys hF f).mp h)
        obtain ⟨r, hget, hval⟩ := read_stateless E senv rs nd.name hI u hu hau
          (keysOf (E.axes nd.name)) (decode (sizesOf (E.axes nd.name)) j)
        simp only [hnone, hget, hval]
      · -- an upstream with a state: the routed index
        have hpS : (f, u) ∈ sUps E nd := List.mem_filter.mpr ⟨hmem, by simpa using hau⟩
        obtain ⟨m, hm, hSm⟩ := List.getElem_of_mem hpS
        have hmu : m < (upsL E nd).length := by simpa [upsL] using hm
        have hflat : (upsL E nd).flatten ++ ownAx nd = E.axes nd.name := by rw [hax]; rfl
        have hroute := fanin_disjoint nd.name (upsL E nd) (fsL E nd) (ownAx nd) (ownOpt nd)
          (by simp [fsL, upsL]) (sUps_fields_nodup E nd)
          (by
            have := hF.keysNodup
            simpa [upsL, upAx, List.map_append, List.map_flatten, List.map_map, Function.comp_def] using this)
          (ownLen_ownOpt nd)
          (by
            intro e k hek g hg hgk
            have hkk : k = keysOf (ownAx nd) := by
              unfold ownOpt at hek
              by_cases ho : ownAx nd = []
              · simp [ho] at hek
              · simp only [ho, if_false, Option.some.injEq, Prod.mk.injEq] at hek; exact hek.2.symm
            rw [hkk] at hgk
            have hgs := (mem_ownAx_keys hF g).mp hgk
            obtain ⟨vs, hvs, _⟩ := hF.lists g hgs
            obtain ⟨p, hp, hpg⟩ := List.mem_map.mp hg
            have := lazyUps_src (List.mem_filter.mp hp).1
            rw [hpg, hvs] at this; cases this)
          j (by rw [hflat]; exact hj) m hmu
        have hfm : (fsL E nd)[m]'(by simpa [fsL] using hm) = f := by simp only [fsL, List.getElem_map, hSm]
        have hum : (upsL E nd)[m] = E.axes u := by simp only [upsL, List.getElem_map, hSm]
        rw [hidx, hfm, hflat, rowMajor_getElem? _ j hj, hum] at hroute
        simp only [Option.bind_some, Option.map_some] at hroute
        obtain ⟨r, hget, hval⟩ := read_stateful E senv rs nd.name hI u hu hau
          (keysOf (E.axes nd.name)) (decode (sizesOf (E.axes nd.name)) j) _ rfl
          (encode_map_lt (E.axes u) _ (by
            intro a ha
            apply coordOf_decode_lt (E.axes nd.name) hknd j hj a
            rw [hax]
            apply List.mem_append_left
            unfold upAx
            exact List.mem_flatten.mpr ⟨E.axes u, List.mem_map.mpr ⟨(f, u), hpS, rfl⟩, ha⟩))
        simp only [hroute, hget, hval]

end PydraModel.WfState.Simple
