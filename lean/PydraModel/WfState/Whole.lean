import PydraModel.WfState.WholeC
import PydraModel.WfState.Rerun
/-
C03, workflow-level theorem, final assembly: on the class `Simple.simple` the model of pydra's mechanism and the nested-loop
reference produce the same outputs, the same number of jobs per node and the same job outputs per node, and neither fails.
-/
namespace PydraModel.WfState.Simple
open PydraModel.WfState PydraModel.WfState.Model

/-- Reading a workflow output: the whole list for a node with a state, the single value otherwise. -/
theorem read_out (E : Env) (senv : Spec.Env) (rs : Ress) (N : Nat) (hI : InvB E senv rs N) (u : Name) (hu : u < N) :
    ∃ r, senv.get u = some r ∧ getValue (rs.get u) none = .ok (Spec.outVal r) := by
  obtain ⟨V, hget, _, hr⟩ := hI.node u hu
  refine ⟨_, hget, ?_⟩
  unfold getValue
  by_cases hax : E.axes u = []
  · have hs : (rs.get u).hasState = false := by rw [hr.hasState, hax]; rfl
    simp [hs, hr.outs, Spec.outVal, specRes, hax]
  · have hs : (rs.get u).hasState = true := by rw [hr.hasState]; simp [hax]
    simp [hs, hr.comb, hr.outs, Spec.outVal, specRes, hax]

/-- Everything the class gives, in the form the pass lemmas want it. -/
structure Setup (w : Wf) (E : Env) : Prop where
  facts : ∀ nd ∈ w.nodes, Facts E nd
  names : ∀ k (hk : k < w.nodes.length), w.nodes[k].name = 0 + k
  all : AllFacts E
  nodup : (w.nodes.map (·.name)).Nodup
  lt : ∀ nd ∈ w.nodes, nd.name < w.nodes.length
  outs : ∀ n ∈ w.outs, n < w.nodes.length

theorem setup_of_simple (w : Wf) (h : simple w = true) : Setup w (envFrom [] w.nodes) := by
  simp only [simple, Bool.and_eq_true, List.all_eq_true, decide_eq_true_eq] at h
  obtain ⟨hs, houts⟩ := h
  have hEl : (envFrom [] w.nodes).length = w.nodes.length := by simp [envFrom_length]
  have hF : ∀ nd ∈ w.nodes, Facts (envFrom [] w.nodes) nd := facts_of_simpleFrom [] w.nodes hs
  have hnm : ∀ k (hk : k < w.nodes.length), w.nodes[k].name = 0 + k := by
    intro k hk; simpa using names_of_simpleFrom [] w.nodes hs k hk
  have hnm' : ∀ k (hk : k < w.nodes.length), w.nodes[k].name = k := by
    intro k hk; simpa using hnm k hk
  refine ⟨hF, hnm, ?_, ?_, ?_, houts⟩
  · intro u hu
    have hu' : u < w.nodes.length := hEl ▸ hu
    exact ⟨w.nodes[u], hnm' u hu', hF _ (List.getElem_mem hu')⟩
  · have : w.nodes.map (·.name) = List.range w.nodes.length := by
      apply List.ext_getElem (by simp)
      intro i h1 h2
      simp only [List.getElem_map, List.getElem_range]
      exact hnm' i (by simpa using h1)
    rw [this]; exact List.nodup_range
  · intro nd hnd
    obtain ⟨k, hk, rfl⟩ := List.getElem_of_mem hnd
    rw [hnm' k hk]; exact hk

/-- One execution over plain state objects: the graph pass keeps them plain, every node starts, the result is the
    reference's, and the state objects left behind are plain again. -/
theorem execute_ok (w : Wf) (E : Env) (S : Setup w E) (sts : Sts) (hA : InvA E sts w.nodes.length) :
    ∃ m sts' s, execute w sts = .ok (m, sts') ∧ InvA E sts' w.nodes.length ∧ Spec.run w = .ok s ∧
      m.outs = s.outs ∧ m.jobs = s.jobs ∧ m.jobOuts = s.jobOuts := by
  obtain ⟨sts2, hg, hA2⟩ := graphPass_ok E w.nodes sts w.nodes.length hA (fun nd hnd => ⟨S.facts nd hnd, S.lt nd hnd⟩)
  have hB0 : InvB E [] [] 0 :=
    { snames := rfl, rnames := rfl, node := fun u hu => absurd hu (Nat.not_lt_zero u) }
  obtain ⟨senv, hfail, hev, hB, hA3⟩ := runAll_ok E S.all w.nodes w.nodes.length w.nodes
    (fun nd hnd => ⟨S.facts nd hnd, fun f => sizeOf_mem w.nodes S.nodup nd hnd f⟩)
    { sts := sts2 } [] 0 hA2 hB0 rfl rfl S.names (Nat.zero_add _)
  obtain ⟨o, ho⟩ : ∃ o, o = runAll w.nodes w.nodes { sts := sts2 } := ⟨_, rfl⟩
  rw [← ho] at hfail hB hA3
  let g : Name → Val := fun n => match senv.get n with | some r => Spec.outVal r | none => .null
  have hmo : (w.outs.mapM fun n => getValue (o.rs.get n) none) = .ok (w.outs.map g) := by
    apply mapM_ok_of_forall
    intro n hn
    obtain ⟨r, hget, hval⟩ := read_out E senv o.rs w.nodes.length hB n (S.outs n hn)
    simp only [g, hget]; exact hval
  obtain ⟨hj1, hj2⟩ := jobs_eq E senv o.rs w.nodes.length hB
  refine ⟨{ outs := w.outs.map g, jobs := o.rs.map fun (n, r) => (n, r.outs.length),
             jobOuts := o.rs.map fun (n, r) => (n, r.outs) }, o.sts,
           { outs := w.outs.map g, jobs := senv.map fun (n, r) => (n, r.jobs),
             jobOuts := senv.map fun (n, r) => (n, r.jobOuts) }, ?_, hA3, ?_, ?_⟩
  · simp only [execute, hg, bind, Except.bind, resultOf]
    rw [← ho, hfail, firstFailure_nil]
    simp only [hmo, bind, Except.bind, pure, Except.pure]
  · simp only [Spec.run, hev, bind, Except.bind, pure, Except.pure]
    rw [mapM_ok_of_forall_str w.outs _ g (by
      intro n hn
      obtain ⟨r, hget, _⟩ := read_out E senv o.rs w.nodes.length hB n (S.outs n hn)
      simp only [g, hget])]
  · exact ⟨rfl, hj1, hj2⟩

theorem construct_ok (w : Wf) (E : Env) (S : Setup w E) :
    ∃ sts, constructPass [] w.nodes = .ok sts ∧ InvA E sts w.nodes.length := by
  have hA0 : InvA E [] 0 :=
    { names := rfl, le := Nat.zero_le _, none := fun u hu => absurd hu (Nat.not_lt_zero u),
      some := fun u hu => absurd hu (Nat.not_lt_zero u) }
  obtain ⟨sts1, hc, hA1⟩ := constructPass_ok E w.nodes [] 0 hA0 S.facts S.names
  rw [Nat.zero_add] at hA1
  exact ⟨sts1, hc, hA1⟩

/-- **The workflow-level statement on the class `Simple`.** -/
theorem simple_agrees (w : Wf) (h : simple w = true) :
    ∃ m s, Model.run w = .ok m ∧ Spec.run w = .ok s ∧ m.outs = s.outs ∧ m.jobs = s.jobs ∧ m.jobOuts = s.jobOuts := by
  have S := setup_of_simple w h
  obtain ⟨sts, hc, hA⟩ := construct_ok w _ S
  obtain ⟨m, sts', s, hex, _, hsp, heq⟩ := execute_ok w _ S sts hA
  exact ⟨m, s, by simp [run_eq_execute, hc, hex, bind, Except.bind, pure, Except.pure], hsp, heq⟩

/-- **A second run over the same node and state objects** (what the construct cache causes) gives the same result. -/
theorem simple_rerun (w : Wf) (h : simple w = true) :
    ∃ m, Model.run w = .ok m ∧ ∃ r2, Model.runTwice w = .ok (m, r2) ∧ r2 = .ok m := by
  have S := setup_of_simple w h
  obtain ⟨sts, hc, hA⟩ := construct_ok w _ S
  obtain ⟨m, sts', s, hex, hA', hsp, ho, hj, hjo⟩ := execute_ok w _ S sts hA
  obtain ⟨m2, sts'', s2, hex2, _, hsp2, ho2, hj2, hjo2⟩ := execute_ok w _ S sts' hA'
  have hs : s2 = s := by rw [hsp] at hsp2; exact (Except.ok.inj hsp2).symm
  subst hs
  have hm : m2 = m := by
    cases m; cases m2; simp only at ho hj hjo ho2 hj2 hjo2; simp [ho, hj, hjo, ho2, hj2, hjo2]
  subst hm
  refine ⟨m2, by simp [run_eq_execute, hc, hex, bind, Except.bind, pure, Except.pure],
    (do let r ← execute w sts'; return r.1), ?_, ?_⟩
  · simp only [runTwice, hc, hex, bind, Except.bind, pure, Except.pure]
  · simp [hex2, bind, Except.bind, pure, Except.pure]

end PydraModel.WfState.Simple
