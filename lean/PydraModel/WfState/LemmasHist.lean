import PydraModel.WfState.Model
/-
Helper lemmas for C03: `_add_state_history` is the identity when no previous state lists a connected root.
-/
namespace PydraModel.WfState
open Model

theorem histPrevLoop_noop (wCur : List Name) (infos : List UpInfo) (acc : Other × List Name)
    (h : ∀ i ∈ infos, i.prev.filter wCur.contains = []) : histPrevLoop wCur infos acc = .ok acc := by
  induction infos generalizing acc with
  | nil => rfl
  | cons i rest ih =>
    obtain ⟨other, prev⟩ := acc
    have hi := h i (by simp)
    simp only [histPrevLoop, hi, List.isEmpty_nil, if_true]
    exact ih _ (fun i' hi' => h i' (List.mem_cons_of_mem _ hi'))

theorem histBothLoop_noop (wCur : List Name) (infos : List UpInfo) (prev : List Name)
    (h : ∀ i ∈ infos, i.prev.filter wCur.contains = []) : histBothLoop wCur infos prev = .ok prev := by
  induction infos generalizing prev with
  | nil => rfl
  | cons i rest ih =>
    have hi := h i (by simp)
    simp only [histBothLoop, hi, dedup, removeAll]
    exact ih _ (fun i' hi' => h i' (List.mem_cons_of_mem _ hi'))

theorem historyCore_noop (infos : List UpInfo) (other : Other) (prev : List Name)
    (h : ∀ i ∈ infos, i.hasOther = true → ∀ r ∈ i.prev, r ∉ rootsOf infos) :
    historyCore infos other prev = .ok (other, prev) := by
  have hf : ∀ (p : UpInfo → Bool), (∀ i, p i = true → i.hasOther = true) →
      ∀ i ∈ infos.filter p, i.prev.filter (rootsOf infos).contains = [] := by
    intro p hp i hi
    rw [List.filter_eq_nil_iff]
    intro r hr hc
    have hmem := List.mem_filter.mp hi
    exact h i hmem.1 (hp i hmem.2) r hr (by simpa using hc)
  unfold historyCore
  simp only [bind, Except.bind]
  rw [histPrevLoop_noop _ _ _ (hf _ (by intro i hi; simp at hi; exact hi.1))]
  simp only
  rw [histBothLoop_noop _ _ _ (hf _ (by intro i hi; simp at hi; exact hi.1))]
  rfl


end PydraModel.WfState
