import PydraModel.WfState.WholeA
import PydraModel.WfState.LemmasRoute
import PydraModel.WfState.LemmasEnum
/-
Workflow-level theorem, part B1: the invariant that ties the model's run-time results to the reference's environment, and
the reference's evaluation of one node of the class in closed form.
-/
namespace PydraModel.WfState.Simple
open PydraModel.WfState PydraModel.WfState.Model

abbrev sizesOf (ax : List (Key × Nat)) : List Nat := ax.map (·.2)
abbrev keysOf (ax : List (Key × Nat)) : List Key := ax.map (·.1)

/-- The model's run-time result of a node with axes `ax` and job outputs `V`. -/
structure ResOK (ax : List (Key × Nat)) (V : List Val) (r : RunRes) : Prop where
  outs : r.outs = V
  hasState : r.hasState = !ax.isEmpty
  comb : r.comb = false
  indFinal : ax ≠ [] → r.indFinal = rowMajor (sizesOf ax)
  keysFinal : ax ≠ [] → r.keysFinal = keysOf ax
  nFinal : ax ≠ [] → r.statesIndFinal.length = prodL (sizesOf ax)

/-- The reference's result of the same node. -/
def specRes (ax : List (Key × Nat)) (V : List Val) : Spec.Res := { axes := ax, vals := V, jobs := V.length, jobOuts := V }

def snames (senv : Spec.Env) : List Name := senv.map (·.1)
def rnames (rs : Ress) : List Name := rs.map (·.1)

/-- After `n` nodes: reference environment and model results describe the same job outputs, node by node. -/
structure InvB (E : Env) (senv : Spec.Env) (rs : Ress) (n : Nat) : Prop where
  snames : snames senv = List.range n
  rnames : rnames rs = List.range n
  node : ∀ u, u < n → ∃ V, senv.get u = some (specRes (E.axes u) V) ∧ V.length = prodL (sizesOf (E.axes u)) ∧
    ResOK (E.axes u) V (rs.get u)

theorem senv_get_append (senv : Spec.Env) (n : Name) (r : Spec.Res) (u : Name) :
    Spec.Env.get (senv ++ [(n, r)]) u = if u ∈ snames senv then senv.get u else if n = u then some r else none := by
  induction senv with
  | nil => simp [snames, Spec.Env.get]
  | cons e senv ih =>
    obtain ⟨m, s⟩ := e
    simp only [List.cons_append, Spec.Env.get, snames, List.map_cons, List.mem_cons]
    by_cases hm : m = u
    · simp [hm]
    · have : ¬ u = m := fun h => hm h.symm
      simp only [hm, if_false, this, false_or]
      exact ih

theorem rs_get_append (rs : Ress) (n : Name) (r : RunRes) (u : Name) :
    Ress.get (rs ++ [(n, r)]) u = if u ∈ rnames rs then rs.get u else if n = u then r else {} := by
  induction rs with
  | nil => simp [rnames, Ress.get]
  | cons e rs ih =>
    obtain ⟨m, s⟩ := e
    simp only [List.cons_append, Ress.get, rnames, List.map_cons, List.mem_cons]
    by_cases hm : m = u
    · simp [hm]
    · have : ¬ u = m := fun h => hm h.symm
      simp only [hm, if_false, this, false_or]
      exact ih

theorem invB_append {E : Env} {senv : Spec.Env} {rs : Ress} {n : Nat} (hI : InvB E senv rs n)
    (V : List Val) (r : RunRes) (hV : V.length = prodL (sizesOf (E.axes n))) (hr : ResOK (E.axes n) V r) :
    InvB E (senv ++ [(n, specRes (E.axes n) V)]) (rs ++ [(n, r)]) (n + 1) := by
  refine ⟨?_, ?_, ?_⟩
  · simp [snames, List.range_succ]; exact hI.snames
  · simp [rnames, List.range_succ]; exact hI.rnames
  · intro u hu
    rw [senv_get_append, rs_get_append]
    by_cases hlt : u < n
    · have h1 : u ∈ snames senv := by rw [hI.snames]; exact List.mem_range.mpr hlt
      have h2 : u ∈ rnames rs := by rw [hI.rnames]; exact List.mem_range.mpr hlt
      simp only [h1, h2, if_true]
      exact hI.node u hlt
    · have hun : u = n := by omega
      subst hun
      have h1 : u ∉ snames senv := by rw [hI.snames]; simp
      have h2 : u ∉ rnames rs := by rw [hI.rnames]; simp
      simp only [h1, h2, if_false, if_true]
      exact ⟨V, rfl, hV, hr⟩

/-! ### the reference on one node -/

theorem unionAxes_disjoint (acc new : List (Key × Nat)) (h : ∀ a ∈ new, a.1 ∉ keysOf acc) :
    Spec.unionAxes acc new = acc ++ new := by
  unfold Spec.unionAxes
  congr 1
  rw [List.filter_eq_self]
  intro a ha
  have := h a ha
  simp only [Bool.not_eq_true', List.any_eq_false, beq_iff_eq]
  intro b hb hba
  exact this (List.mem_map.mpr ⟨b, hb, hba⟩)

/-- `Spec.upAxes` on the class: the concatenation of the connected upstream axes. -/
theorem upAxes_fold (E : Env) (senv : Spec.Env) (rs : Ress) (n : Nat) (hI : InvB E senv rs n)
    (l : List (Fld × Name)) (acc : List (Key × Nat)) (hl : ∀ p ∈ l, p.2 < n)
    (hnd : (keysOf (acc ++ ((l.filter (stateful E)).map fun p => E.axes p.2).flatten)).Nodup) :
    l.foldlM (init := acc) (fun acc (p : Fld × Name) =>
        match senv.get p.2 with
        | some r => Except.ok (Spec.unionAxes acc r.axes)
        | none => Except.error "unknown-upstream")
      = .ok (acc ++ ((l.filter (stateful E)).map fun p => E.axes p.2).flatten) := by
  induction l generalizing acc with
  | nil => simp; rfl
  | cons p l ih =>
    obtain ⟨V, hget, _, _⟩ := hI.node p.2 (hl p (by simp))
    have hl' : ∀ q ∈ l, q.2 < n := fun q hq => hl q (List.mem_cons_of_mem _ hq)
    simp only [List.foldlM_cons, hget, specRes, bind, Except.bind]
    by_cases hax : E.axes p.2 = []
    · have hst : stateful E p = false := by simp [stateful, hax]
      rw [hax, unionAxes_disjoint acc [] (by simp)]
      simp only [List.append_nil, List.filter_cons, hst]
      exact ih acc hl' (by simpa [List.filter_cons, hst] using hnd)
    · have hst : stateful E p = true := by
        simp only [stateful, Bool.not_eq_true', List.isEmpty_eq_false_iff]; exact hax
      simp only [List.filter_cons, hst, if_true, List.map_cons, List.flatten_cons] at hnd ⊢
      have hdis : ∀ a ∈ E.axes p.2, a.1 ∉ keysOf acc := by
        intro a ha hmem
        simp only [keysOf, List.map_append] at hnd
        have := (List.nodup_append.mp hnd).2.2 a.1 hmem a.1
          (List.mem_append_left _ (List.mem_map.mpr ⟨a, ha, rfl⟩))
        exact this rfl
      rw [unionAxes_disjoint acc _ hdis, ih (acc ++ E.axes p.2) hl' (by simpa [List.append_assoc] using hnd)]
      simp [List.append_assoc]

theorem ownAxes_ok {E : Env} {nd : Node} (hF : Facts E nd) : Spec.ownAxes nd = .ok (ownAx nd, []) := by
  unfold Spec.ownAxes ownAx
  cases hsp : nd.split with
  | no => rfl
  | single f => rfl
  | outer f g => rfl
  | inner f g => exact absurd hsp (hF.notInner f g)

/-- The reference's evaluation of a node of the class, in closed form. -/
theorem evalNode_ok (E : Env) (senv : Spec.Env) (rs : Ress) (n : Nat) (hI : InvB E senv rs n) (nd : Node)
    (hF : Facts E nd) (hn : nd.name = n) :
    Spec.evalNode senv [] nd = .ok
      (specRes (E.axes n) ((rowMajor (sizesOf (E.axes n))).map (Spec.jobOut senv [] nd (keysOf (E.axes n)))), []) := by
  have hax : E.axes n = upAx E nd ++ ownAx nd := hn ▸ axes_of_facts hF
  have hups : Spec.upAxes senv nd = .ok (upAx E nd) := by
    unfold Spec.upAxes
    have := upAxes_fold E senv rs n hI nd.lazyUps [] (fun p hp => hn ▸ hF.refs p hp) (by
      simp only [List.nil_append, ← sUps_eq_filter]
      have := hF.keysNodup
      simp only [List.map_append] at this
      exact (List.nodup_append.mp this).1)
    simp only [List.nil_append, ← sUps_eq_filter] at this
    exact this
  unfold Spec.evalNode
  simp only [hups, ownAxes_ok hF, bind, Except.bind, hF.comb, List.isEmpty_nil, if_true, pure, Except.pure,
    List.append_nil, ← hax]
  simp [specRes, List.map_map, Function.comp_def]

end PydraModel.WfState.Simple
