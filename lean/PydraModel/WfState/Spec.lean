import PydraModel.WfState.Basic
/-
C03 reference semantics: an independent nested-loop interpreter with origin-tagged axes.

* A node's state is the ordered union (by origin-tagged axis) of its upstream *final* states' axes, in the order of the
  connected fields, followed by its own axes (outer = two axes, inner = one axis shared by both fields).
* One job per point of the product of the axes, row-major (left-most axis slowest).
* The value of an upstream output at a job is the upstream final value whose coordinates agree with the job's
  coordinates on the upstream's axes.
* A combiner removes its axes; the final value at a point of the remaining axes is the list of the job outputs whose
  coordinates restrict to that point, in job enumeration order.

Nothing here looks at how pydra computes any of this (no splitter RPN, no index dictionaries, no state history).
-/
namespace PydraModel.WfState.Spec
open PydraModel.WfState

/-- Final result of a node: its final axes and one value per point of their product, row-major. -/
structure Res where
  axes : List (Key × Nat)
  vals : List Val
  jobs : Nat
  jobOuts : List Val := []       -- what every job returned (before combining), in job order
  deriving Inhabited

abbrev Env := List (Name × Res)

def Env.get (env : Env) (n : Name) : Option Res :=
  match env with
  | [] => none
  | (m, r) :: rest => if m = n then some r else Env.get rest n

/-- Ordered union: keep `acc`, append the axes of `new` that are not present yet (by origin tag). -/
def unionAxes (acc new : List (Key × Nat)) : List (Key × Nat) :=
  acc ++ new.filter fun a => !(acc.any fun b => b.1 == a.1)

/-- Zipped fields share one axis: the second field of an inner split is an alias of the first. -/
abbrev Aliases := List (Key × Key)

def resolve (al : Aliases) (k : Key) : Key :=
  match al with
  | [] => k
  | (a, b) :: rest => if a = k then b else resolve rest k

def ownAxes (nd : Node) : Except String (List (Key × Nat) × Aliases) :=
  match nd.split with
  | .no => .ok ([], [])
  | .single f => .ok ([((nd.name, f), nd.lstLen f)], [])
  | .outer f g => .ok ([((nd.name, f), nd.lstLen f), ((nd.name, g), nd.lstLen g)], [])
  | .inner f g =>
    if nd.lstLen f = nd.lstLen g then .ok ([((nd.name, f), nd.lstLen f)], [((nd.name, g), (nd.name, f))])
    else .error "shape"

/-- Coordinate of axis `k` at the point `coords` of the axes `axes` (0 if absent: never happens for well-formed input). -/
def coordOf (axes : List Key) (coords : List Nat) (k : Key) : Nat :=
  match axes, coords with
  | a :: as, c :: cs => if a = k then c else coordOf as cs k
  | _, _ => 0

/-- The upstream final value whose coordinates agree with the job's on the upstream's axes. -/
def lookupUp (r : Res) (axes : List Key) (coords : List Nat) : Val :=
  r.vals.getD (encode (r.axes.map (·.2)) (r.axes.map fun a => coordOf axes coords a.1)) .null

def fieldVal (env : Env) (al : Aliases) (nd : Node) (axes : List Key) (coords : List Nat) (f : Fld) : Val :=
  match nd.src f with
  | .none => .null
  | .const v => v
  | .lst vs =>
    if f ∈ nd.split.fields then vs.getD (coordOf axes coords (resolve al (nd.name, f))) .null
    else .list vs
  | .up u =>
    match env.get u with
    | some r => lookupUp r axes coords
    | none => .null

def jobOut (env : Env) (al : Aliases) (nd : Node) (axes : List Key) (coords : List Nat) : Val :=
  nd.encode (fieldVal env al nd axes coords .x) (fieldVal env al nd axes coords .y) (fieldVal env al nd axes coords .z)
    (fieldVal env al nd axes coords .u) (fieldVal env al nd axes coords .v)

def upAxes (env : Env) (nd : Node) : Except String (List (Key × Nat)) :=
  nd.lazyUps.foldlM (init := []) fun acc (_, u) =>
    match env.get u with
    | some r => .ok (unionAxes acc r.axes)
    | none => .error "unknown-upstream"

def evalNode (env : Env) (al : Aliases) (nd : Node) : Except String (Res × Aliases) := do
  let ups ← upAxes env nd
  let (own, al') ← ownAxes nd
  let al := al' ++ al
  let axes := ups ++ own
  let keys := axes.map (·.1)
  let points := rowMajor (axes.map (·.2))
  let outs := points.map fun c => (c, jobOut env al nd keys c)
  if nd.comb.isEmpty then
    return ({ axes := axes, vals := outs.map (·.2), jobs := outs.length, jobOuts := outs.map (·.2) }, al)
  else
    let combAxes := nd.comb.map (resolve al)
    let keep := axes.filter fun a => !(combAxes.contains a.1)
    let groups := (rowMajor (keep.map (·.2))).map fun fc =>
      Val.list ((outs.filter fun (c, _) => (keep.map fun a => coordOf keys c a.1) == fc).map (·.2))
    return ({ axes := keep, vals := groups, jobs := outs.length, jobOuts := outs.map (·.2) }, al)

def evalNodes (env : Env) (al : Aliases) : List Node → Except String Env
  | [] => .ok env
  | nd :: rest => do
    let (r, al') ← evalNode env al nd
    evalNodes (env ++ [(nd.name, r)]) al' rest

/-- Observable result of a workflow: the workflow outputs and the per-node job counts. -/
structure Result where
  outs : List Val
  jobs : List (Name × Nat)
  jobOuts : List (Name × List Val) := []
  deriving Inhabited

def outVal (r : Res) : Val :=
  if r.axes.isEmpty then r.vals.getD 0 .null else .list r.vals

def run (w : Wf) : Except String Result := do
  let env ← evalNodes [] [] w.nodes
  let outs ← w.outs.mapM fun o => match env.get o with
    | some r => Except.ok (outVal r)
    | none => Except.error "unknown-output"
  return { outs := outs, jobs := env.map fun (n, r) => (n, r.jobs), jobOuts := env.map fun (n, r) => (n, r.jobOuts) }

end PydraModel.WfState.Spec
