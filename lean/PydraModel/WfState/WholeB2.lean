import PydraModel.WfState.WholeB1
/-
Workflow-level theorem, part B2: reading upstream values, and a node without a state.
-/
namespace PydraModel.WfState.Simple
open PydraModel.WfState PydraModel.WfState.Model

theorem mem_lazyUps {nd : Node} {f : Fld} {u : Name} (h : nd.src f = .up u) : (f, u) ∈ nd.lazyUps := by
  unfold Node.lazyUps
  exact List.mem_filterMap.mpr ⟨f, by cases f <;> simp [Fld.all], by simp [h]⟩

theorem lazyUps_src {nd : Node} {p : Fld × Name} (h : p ∈ nd.lazyUps) : nd.src p.1 = .up p.2 := by
  unfold Node.lazyUps at h
  obtain ⟨f, _, hf⟩ := List.mem_filterMap.mp h
  cases hs : nd.src f with
  | up u => rw [hs] at hf; simp at hf; subst hf; exact hs
  | none => rw [hs] at hf; simp at hf
  | const v => rw [hs] at hf; simp at hf
  | lst vs => rw [hs] at hf; simp at hf

/-- Each field is connected to at most one upstream. -/
theorem lazyUps_fun {nd : Node} {f : Fld} {u v : Name} (h1 : (f, u) ∈ nd.lazyUps) (h2 : (f, v) ∈ nd.lazyUps) : u = v := by
  have a := lazyUps_src h1
  have b := lazyUps_src h2
  simp only at a b
  rw [a] at b
  exact Src.up.inj b

/-- Reading an upstream without a state: its single output, in the model and in the reference. -/
theorem read_stateless (E : Env) (senv : Spec.Env) (rs : Ress) (n : Nat) (hI : InvB E senv rs n) (u : Name) (hu : u < n)
    (hax : E.axes u = []) (keys : List Key) (c : List Nat) :
    ∃ r, senv.get u = some r ∧ getValue (rs.get u) none = .ok (Spec.lookupUp r keys c) := by
  obtain ⟨V, hget, _, hr⟩ := hI.node u hu
  refine ⟨_, hget, ?_⟩
  rw [hax] at hr
  unfold getValue
  have hs : (rs.get u).hasState = false := by rw [hr.hasState]; rfl
  simp only [hs, Bool.not_false, if_true, hr.outs]
  simp [Spec.lookupUp, specRes, hax, encode]

/-- Reading an upstream with a state at index `i`: the `i`-th job output. -/
theorem read_stateful (E : Env) (senv : Spec.Env) (rs : Ress) (n : Nat) (hI : InvB E senv rs n) (u : Name) (hu : u < n)
    (hax : E.axes u ≠ []) (keys : List Key) (c : List Nat) (i : Nat)
    (hi : i = encode (sizesOf (E.axes u)) ((E.axes u).map fun a => Spec.coordOf keys c a.1))
    (hlt : i < prodL (sizesOf (E.axes u))) :
    ∃ r, senv.get u = some r ∧ getValue (rs.get u) (some i) = .ok (Spec.lookupUp r keys c) := by
  obtain ⟨V, hget, hV, hr⟩ := hI.node u hu
  refine ⟨_, hget, ?_⟩
  unfold getValue
  have hs : (rs.get u).hasState = true := by
    rw [hr.hasState]; simp [hax]
  have hiV : i < V.length := by rw [hV]; exact hlt
  simp only [hs, Bool.not_true, Bool.false_eq_true, if_false, hr.comb, hr.outs, List.getElem?_eq_getElem hiV]
  simp only [Spec.lookupUp, specRes, ← hi]
  rw [List.getD_eq_getElem?_getD, List.getElem?_eq_getElem hiV]; rfl

/-- A field of a node that has no upstream state and no own splitter. -/
theorem field_stateless (E : Env) (senv : Spec.Env) (rs : Ress) (n : Nat) (hI : InvB E senv rs n) (nd : Node)
    (hF : Facts E nd) (hn : nd.name = n) (hs : sUps E nd = []) (hsp : nd.split = .no) (f : Fld) :
    resolveField rs nd f none = .ok (Spec.fieldVal senv [] nd [] [] f) := by
  unfold resolveField Spec.fieldVal
  cases hsrc : nd.src f with
  | none => rfl
  | const v => rfl
  | lst vs => simp [hsp, Split.fields]
  | up u =>
    have hmem := mem_lazyUps hsrc
    have hu : u < n := hn ▸ hF.refs _ hmem
    have hax : E.axes u = [] := by
      cases hc : E.axes u with
      | nil => rfl
      | cons a l =>
        exfalso
        have : (f, u) ∈ sUps E nd := List.mem_filter.mpr ⟨hmem, by simp [hc]⟩
        rw [hs] at this; simp at this
    obtain ⟨r, hget, hval⟩ := read_stateless E senv rs n hI u hu hax [] []
    simp only [hget, hval]

/-- `NodeExecution.start` on a node of the class without a state: one job, the reference's single point. -/
theorem runNode_stateless (E : Env) (nodes : List Node) (sts : Sts) (N : Nat) (hA : InvA E sts N)
    (senv : Spec.Env) (rs : Ress) (n : Nat) (hI : InvB E senv rs n) (nd : Node) (hF : Facts E nd)
    (hn : nd.name = n) (hlt : n < N) (hax : E.axes n = []) :
    ∃ r, runNode nodes sts rs nd = .ok (sts, r) ∧
      ResOK (E.axes n) ((rowMajor (sizesOf (E.axes n))).map (Spec.jobOut senv [] nd (keysOf (E.axes n)))) r := by
  have haxn : upAx E nd ++ ownAx nd = [] := by rw [← axes_of_facts hF, hn]; exact hax
  have hs : sUps E nd = [] := (upAx_nil_iff E nd).mp (List.append_eq_nil_iff.mp haxn).1
  have hsp : nd.split = .no := by
    have := (List.append_eq_nil_iff.mp haxn).2
    unfold ownAx at this
    cases h : nd.split with
    | no => rfl
    | single f => rw [h] at this; simp at this
    | outer f g => rw [h] at this; simp at this
    | inner f g => exact absurd h (hF.notInner f g)
  unfold runNode
  rw [hn, hA.none n hlt hax]
  simp only [field_stateless E senv rs n hI nd hF hn hs hsp, bind, Except.bind, pure, Except.pure]
  refine ⟨_, rfl, ?_⟩
  rw [hax]
  refine ⟨?_, rfl, rfl, fun h => absurd rfl h, fun h => absurd rfl h, fun h => absurd rfl h⟩
  simp [rowMajor_nil, Spec.jobOut, sizesOf, keysOf]

end PydraModel.WfState.Simple
