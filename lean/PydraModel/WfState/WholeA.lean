import PydraModel.WfState.WholeFacts
import PydraModel.WfState.LemmasHist
/-
Workflow-level theorem, part A: on a workflow of the class, `Node._set_state` (construction) and `Workflow._create_graph`
leave every node with the plain state object: the connected upstream states in field order, one field each, no history
rewriting, no exception.
-/
namespace PydraModel.WfState.Simple
open PydraModel.WfState PydraModel.WfState.Model

/-! ### association-list facts -/

def names (sts : Sts) : List Name := sts.map (·.1)

theorem get_append (sts : Sts) (n : Name) (x : Option St) (u : Name) :
    Sts.get (sts ++ [(n, x)]) u = if u ∈ names sts then sts.get u else if n = u then x else none := by
  induction sts with
  | nil => simp [names, Sts.get]
  | cons e sts ih =>
    obtain ⟨m, s⟩ := e
    simp only [List.cons_append, Sts.get, names, List.map_cons, List.mem_cons]
    by_cases hm : m = u
    · simp [hm]
    · have : ¬ u = m := fun h => hm h.symm
      simp only [hm, if_false, this, false_or]
      exact ih

theorem names_set (sts : Sts) (u : Name) (x : Option St) (h : u ∈ names sts) : names (sts.set u x) = names sts := by
  induction sts with
  | nil => simp [names] at h
  | cons e sts ih =>
    obtain ⟨m, s⟩ := e
    simp only [Sts.set]
    by_cases hm : m = u
    · simp [hm, names]
    · simp only [hm, if_false, names, List.map_cons, List.cons.injEq, true_and]
      have : u ∈ names sts := by
        simp only [names, List.map_cons, List.mem_cons] at h
        rcases h with h | h
        · exact absurd h.symm hm
        · exact h
      exact ih this

theorem get_set (sts : Sts) (u : Name) (x : Option St) (v : Name) (h : u ∈ names sts) :
    (sts.set u x).get v = if u = v then x else sts.get v := by
  induction sts with
  | nil => simp [names] at h
  | cons e sts ih =>
    obtain ⟨m, s⟩ := e
    simp only [Sts.set]
    by_cases hm : m = u
    · subst hm
      by_cases hv : m = v
      · simp [Sts.get, hv]
      · simp [Sts.get, hv]
    · have hu : u ∈ names sts := by
        simp only [names, List.map_cons, List.mem_cons] at h
        rcases h with h | h
        · exact absurd h.symm hm
        · exact h
      simp only [hm, if_false, Sts.get]
      by_cases hv : m = v
      · subst hv
        have : ¬ u = m := fun h => hm h.symm
        simp [this]
      · simp only [hv, if_false]
        exact ih hu

theorem mem_range_names {sts : Sts} {n : Nat} (h : names sts = List.range n) (u : Nat) : u ∈ names sts ↔ u < n := by
  rw [h]; exact List.mem_range

/-! ### the invariant -/

/-- The plain state object of a node described by the class entry `e`. -/
structure StOK (e : Entry) (s : St) : Prop where
  comb : s.comb = []
  ownComb : s.ownComb = []
  cur : s.cur = e.cur
  other : s.other = e.sups.map fun p => (p.2, [p.1])
  prev : s.prev = e.sups.map (·.2)
  full : s.fullPre.isSome = true

/-- The state objects of the first `n` nodes are the plain ones: none for a node without axes. -/
structure InvA (E : Env) (sts : Sts) (n : Nat) : Prop where
  names : names sts = List.range n
  le : n ≤ E.length
  none : ∀ u, u < n → E.axes u = [] → sts.get u = none
  some : ∀ u, u < n → E.axes u ≠ [] → ∃ s, sts.get u = some s ∧ StOK (E.entry u) s

theorem StOK.final {e : Entry} {s : St} (h : StOK e s) : s.finalTree = s.fullPre := by
  unfold St.finalTree; simp [h.comb]

theorem depth_pos (t : Tree) : 0 < t.depth [] := by
  induction t with
  | leaf k => simp [Tree.depth]
  | outer l r ihl _ => simp only [Tree.depth]; omega
  | inner l r ihl ihr =>
    simp only [Tree.depth]
    have : ¬ r.depth [] = 0 := by omega
    simp [this, ihl]

theorem addField_not_mem (acc : Other) (u : Name) (f : Fld) (h : u ∉ acc.map (·.1)) :
    addField acc u f = acc ++ [(u, [f])] := by
  induction acc with
  | nil => rfl
  | cons e acc ih =>
    obtain ⟨m, fl⟩ := e
    have hm : ¬ m = u := fun e => h (by simp [e])
    simp only [addField, hm, if_false, List.cons_append]
    rw [ih (fun hh => h (by simp [hh]))]

/-- Which lazy connections lead to an upstream with a state. -/
def stateful (E : Env) (p : Fld × Name) : Bool := !(E.axes p.2).isEmpty

def mk (p : Fld × Name) : Name × List Fld := (p.2, [p.1])

theorem upsByDepth_ok (E : Env) (sts : Sts) (n : Nat) (hI : InvA E sts n) (l : List (Fld × Name)) (acc : Other)
    (hl : ∀ p ∈ l, p.2 < n) (hnd : (acc.map (·.1) ++ (l.filter (stateful E)).map (·.2)).Nodup) :
    upsByDepth sts l acc = .ok (acc ++ (l.filter (stateful E)).map mk) := by
  induction l generalizing acc with
  | nil => simp [upsByDepth]
  | cons p l ih =>
    obtain ⟨f, u⟩ := p
    have hu : u < n := hl (f, u) (by simp)
    have hl' : ∀ p ∈ l, p.2 < n := fun p hp => hl p (List.mem_cons_of_mem _ hp)
    by_cases hax : E.axes u = []
    · have hst : stateful E (f, u) = false := by simp [stateful, hax]
      simp only [upsByDepth, hI.none u hu hax, List.filter_cons, hst]
      exact ih acc hl' (by simpa [List.filter_cons, hst] using hnd)
    · have hst : stateful E (f, u) = true := by
        simp only [stateful, Bool.not_eq_true', List.isEmpty_eq_false_iff]; exact hax
      obtain ⟨su, hget, hok⟩ := hI.some u hu hax
      obtain ⟨t, ht⟩ := Option.isSome_iff_exists.mp hok.full
      have hnd' := hnd
      simp only [List.filter_cons, hst, if_true, List.map_cons] at hnd'
      have hnot : u ∉ acc.map (·.1) := by
        intro hm
        have := (List.nodup_append.mp hnd').2.2 u hm u (by simp)
        exact this rfl
      simp only [upsByDepth, hget, ht, hok.comb, depth_pos t, if_true, List.filter_cons, hst, List.map_cons]
      rw [addField_not_mem acc u f hnot, ih (acc ++ [(u, [f])]) hl' (by
        simp only [List.map_append, List.map_cons, List.map_nil, List.append_assoc, List.cons_append, List.nil_append]
        exact hnd')]
      simp [mk]

theorem upsByFinal_eq (E : Env) (sts : Sts) (n : Nat) (hI : InvA E sts n) (l : List (Fld × Name)) (acc : Other)
    (hl : ∀ p ∈ l, p.2 < n) (hnd : (acc.map (·.1) ++ (l.filter (stateful E)).map (·.2)).Nodup) :
    upsByFinal sts l acc = acc ++ (l.filter (stateful E)).map mk := by
  induction l generalizing acc with
  | nil => simp [upsByFinal]
  | cons p l ih =>
    obtain ⟨f, u⟩ := p
    have hu : u < n := hl (f, u) (by simp)
    have hl' : ∀ p ∈ l, p.2 < n := fun p hp => hl p (List.mem_cons_of_mem _ hp)
    by_cases hax : E.axes u = []
    · have hst : stateful E (f, u) = false := by simp [stateful, hax]
      simp only [upsByFinal, hI.none u hu hax, List.filter_cons, hst]
      exact ih acc hl' (by simpa [List.filter_cons, hst] using hnd)
    · have hst : stateful E (f, u) = true := by
        simp only [stateful, Bool.not_eq_true', List.isEmpty_eq_false_iff]; exact hax
      obtain ⟨su, hget, hok⟩ := hI.some u hu hax
      have hnd' := hnd
      simp only [List.filter_cons, hst, if_true, List.map_cons] at hnd'
      have hnot : u ∉ acc.map (·.1) := by
        intro hm
        have := (List.nodup_append.mp hnd').2.2 u hm u (by simp)
        exact this rfl
      simp only [upsByFinal, hget, hok.final, hok.full, if_true, List.filter_cons, hst, List.map_cons]
      rw [addField_not_mem acc u f hnot, ih (acc ++ [(u, [f])]) hl' (by
        simp only [List.map_append, List.map_cons, List.map_nil, List.append_assoc, List.cons_append, List.nil_append]
        exact hnd')]
      simp [mk]

/-! ### trees of the plain states -/

theorem outerStep_isSome (acc t : OTree) : (outerStep acc t).isSome = (acc.isSome || t.isSome) := by
  cases acc <;> cases t <;> rfl

theorem foldl_outer_isSome (ts : List OTree) (acc : OTree) :
    (ts.foldl outerStep acc).isSome = (acc.isSome || ts.any Option.isSome) := by
  induction ts generalizing acc with
  | nil => simp
  | cons t ts ih =>
    simp only [List.foldl_cons, List.any_cons]
    rw [ih, outerStep_isSome, Bool.or_assoc]

theorem outerAll_isSome (ts : List OTree) : (outerAll ts).isSome = ts.any Option.isSome := by
  unfold outerAll
  rw [foldl_outer_isSome]; simp

theorem sups_eq_entry (E : Env) (u : Name) : E.sups u = (E.entry u).sups.map (·.2) := by
  unfold Env.sups Env.entry
  cases E[u]? <;> rfl

theorem axes_eq_entry (E : Env) (u : Name) : E.axes u = (E.entry u).axes := by
  unfold Env.axes Env.entry
  cases E[u]? <;> rfl

theorem getSt_of_get {sts : Sts} {u : Name} {s : St} (h : sts.get u = some s) : sts.getSt u = s := by
  unfold Sts.getSt; rw [h]; rfl

/-- The final splitters of stateful upstream nodes are all present. -/
theorem finals_all_some (E : Env) (sts : Sts) (n : Nat) (hI : InvA E sts n) (prev : List Name)
    (hprev : ∀ u ∈ prev, u < n ∧ E.axes u ≠ []) : ∀ t ∈ finalsOf sts prev, t.isSome = true := by
  intro t ht
  unfold finalsOf at ht
  obtain ⟨u, hu, rfl⟩ := List.mem_map.mp ht
  obtain ⟨su, hget, hok⟩ := hI.some u (hprev u hu).1 (hprev u hu).2
  rw [getSt_of_get hget, hok.final]; exact hok.full

theorem setTrees_full (E : Env) (sts : Sts) (n : Nat) (hI : InvA E sts n) (s : St)
    (hprev : ∀ u ∈ s.prev, u < n ∧ E.axes u ≠ []) (hne : s.prev ≠ [] ∨ s.cur.isSome = true) :
    (setTrees sts s).fullPre.isSome = true := by
  unfold setTrees
  simp only
  rw [outerAll_isSome]
  simp only [List.any_cons, List.any_nil, Bool.or_false]
  rcases hne with h | h
  · rw [outerAll_isSome]
    have hall := finals_all_some E sts n hI s.prev hprev
    cases hp : s.prev with
    | nil => exact absurd hp h
    | cons u rest =>
      have : (finalsOf sts (u :: rest)) = (sts.getSt u).finalTree :: finalsOf sts rest := rfl
      rw [hp] at hall
      rw [this, List.any_cons, hall _ (by rw [this]; simp)]
      rfl
  · rw [h]; simp

/-! ### `_add_state_history` and `update_connections` on the class -/

theorem rootsOf_subset (infos : List UpInfo) : ∀ r ∈ rootsOf infos, r ∈ infos.map (·.name) := by
  intro r hr
  unfold rootsOf at hr
  obtain ⟨i, hi, rfl⟩ := List.mem_map.mp hr
  exact List.mem_map.mpr ⟨i, (List.mem_filter.mp hi).1, rfl⟩

theorem addStateHistory_noop (E : Env) (sts : Sts) (n : Nat) (hI : InvA E sts n) (s : St) (prev : List Name)
    (hprev : ∀ u ∈ prev, u < n ∧ E.axes u ≠ [])
    (hhist : ∀ u ∈ prev, ∀ r ∈ E.sups u, r ∉ prev) :
    addStateHistory sts s prev = .ok (s, prev) := by
  unfold addStateHistory
  rw [historyCore_noop]
  · rfl
  · intro i hi _ r hr hroot
    obtain ⟨u, hu, rfl⟩ := List.mem_map.mp hi
    have hrp : r ∈ prev := by
      have := rootsOf_subset _ r hroot
      simp only [List.map_map] at this
      obtain ⟨v, hv, hvr⟩ := List.mem_map.mp this
      simp only [Function.comp, upInfo] at hvr
      rw [← hvr]; exact hv
    obtain ⟨su, hget, hok⟩ := hI.some u (hprev u hu).1 (hprev u hu).2
    have : r ∈ E.sups u := by
      simp only [upInfo, getSt_of_get hget, hok.prev] at hr
      rw [sups_eq_entry]; exact hr
    exact hhist u hu r this hrp

theorem addMissing_all_mem (sts : Sts) (l : List (Name × List Fld)) (prev : List Name) (b : Bool)
    (h : ∀ p ∈ l, p.1 ∈ prev) : addMissing sts l (prev, b) = (prev, b) := by
  induction l with
  | nil => rfl
  | cons p l ih =>
    obtain ⟨u, fl⟩ := p
    have hu : prev.contains u = true := List.contains_iff_mem.mpr (h (u, fl) (by simp))
    simp only [addMissing, hu, Bool.not_true, Bool.false_and]
    exact ih (fun p hp => h p (List.mem_cons_of_mem _ hp))

/-- Construction: no prev-state part yet. -/
theorem connect_first (E : Env) (sts : Sts) (n : Nat) (hI : InvA E sts n) (s : St) (other : Other)
    (hs : s.prev = [])
    (hprev : ∀ u ∈ other.map (·.1), u < n ∧ E.axes u ≠ [])
    (hhist : ∀ u ∈ other.map (·.1), ∀ r ∈ E.sups u, r ∉ other.map (·.1)) :
    connect sts s other = .ok (setTrees sts { s with other := other, prev := other.map (·.1) }) := by
  unfold connect
  simp only [hs, List.isEmpty_nil, if_true]
  rw [addStateHistory_noop E sts n hI _ _ hprev hhist]
  rfl

/-- `_create_graph`: the prev-state part is already complete. -/
theorem connect_second (E : Env) (sts : Sts) (n : Nat) (hI : InvA E sts n) (s : St) (other : Other)
    (hs : s.prev = other.map (·.1)) (hne : other ≠ [])
    (hprev : ∀ u ∈ other.map (·.1), u < n ∧ E.axes u ≠ [])
    (hhist : ∀ u ∈ other.map (·.1), ∀ r ∈ E.sups u, r ∉ other.map (·.1)) :
    connect sts s other = .ok (setTrees sts { s with other := other }) := by
  unfold connect
  have hne' : s.prev.isEmpty = false := by
    rw [hs]; cases other with
    | nil => exact absurd rfl hne
    | cons p l => rfl
  simp only [hne', Bool.false_eq_true, if_false]
  rw [addMissing_all_mem sts other.reverse s.prev false (by
    intro p hp
    rw [hs]; exact List.mem_map.mpr ⟨p, List.mem_reverse.mp hp, rfl⟩)]
  simp only [Bool.false_eq_true, if_false, Nat.lt_irrefl, decide_false, Bool.or_false]
  by_cases hlen : s.prev.length > 1
  · have hall : (s.prev.any fun u => !(other.any fun p => p.1 == u)) = false := by
      rw [hs, List.any_eq_false]
      intro u hu
      obtain ⟨p, hp, rfl⟩ := List.mem_map.mp hu
      simp only [Bool.not_eq_true, Bool.not_eq_false', List.any_eq_true]
      exact ⟨p, hp, by simp⟩
    simp only [hlen, decide_true, if_true, hall, Bool.false_eq_true, if_false]
    rw [addStateHistory_noop E sts n hI _ s.prev (by rw [hs]; exact hprev) (by rw [hs]; exact hhist)]
    rfl
  · simp only [hlen, decide_false, Bool.false_eq_true, if_false]

/-! ### one node -/

theorem sUps_eq_filter (E : Env) (nd : Node) : sUps E nd = nd.lazyUps.filter (stateful E) := rfl

theorem entry_of_facts {E : Env} {nd : Node} (hF : Facts E nd) : E.entry nd.name = entryOf E nd := by
  unfold Env.entry; rw [hF.entry]; rfl

theorem axes_of_facts {E : Env} {nd : Node} (hF : Facts E nd) : E.axes nd.name = upAx E nd ++ ownAx nd := by
  rw [axes_eq_entry, entry_of_facts hF]; rfl

theorem sUps_axes_ne {E : Env} {nd : Node} : ∀ p ∈ sUps E nd, E.axes p.2 ≠ [] := by
  intro p hp
  have := (List.mem_filter.mp hp).2
  simpa using this

theorem upAx_nil_iff (E : Env) (nd : Node) : upAx E nd = [] ↔ sUps E nd = [] := by
  constructor
  · intro h
    cases hs : sUps E nd with
    | nil => rfl
    | cons p l =>
      exfalso
      have hp : E.axes p.2 ≠ [] := sUps_axes_ne p (by rw [hs]; simp)
      unfold upAx at h
      rw [hs] at h
      simp only [List.map_cons, List.flatten_cons, List.append_eq_nil_iff] at h
      exact hp h.1
  · intro h; unfold upAx; rw [h]; rfl

theorem ownAx_nil_iff {E : Env} {nd : Node} (hF : Facts E nd) : ownAx nd = [] ↔ ownTree nd = none := by
  unfold ownAx ownTree
  cases hsp : nd.split with
  | no => simp
  | single f => simp
  | outer f g => simp
  | inner f g => exact absurd hsp (hF.notInner f g)

theorem sUps_facts {E : Env} {nd : Node} (hF : Facts E nd) (n : Nat) (hn : nd.name = n) :
    (∀ u ∈ (sUps E nd).map (·.2), u < n ∧ E.axes u ≠ []) ∧
    (∀ u ∈ (sUps E nd).map (·.2), ∀ r ∈ E.sups u, r ∉ (sUps E nd).map (·.2)) := by
  constructor
  · intro u hu
    obtain ⟨p, hp, rfl⟩ := List.mem_map.mp hu
    exact ⟨hn ▸ hF.refs p (List.mem_filter.mp hp).1, sUps_axes_ne p hp⟩
  · intro u hu r hr
    obtain ⟨p, hp, rfl⟩ := List.mem_map.mp hu
    exact hF.hist p hp r hr

theorem map_mk_fst (l : List (Fld × Name)) : (l.map mk).map (·.1) = l.map (·.2) := by
  simp [List.map_map, Function.comp_def, mk]

/-- `Node._set_state` on a node of the class. -/
theorem constructNode_ok (E : Env) (sts : Sts) (n : Nat) (hI : InvA E sts n) (nd : Node) (hF : Facts E nd)
    (hn : nd.name = n) :
    ∃ x, constructNode sts nd = .ok x ∧ (E.axes n = [] → x = none) ∧
      (E.axes n ≠ [] → ∃ s, x = some s ∧ StOK (E.entry n) s) := by
  have hother := upsByDepth_ok E sts n hI nd.lazyUps [] (fun p hp => hn ▸ hF.refs p hp)
    (by simpa [← sUps_eq_filter] using hF.supsNodup)
  simp only [List.nil_append, ← sUps_eq_filter] at hother
  obtain ⟨hprev, hhist⟩ := sUps_facts hF n hn
  have hax : E.axes n = upAx E nd ++ ownAx nd := hn ▸ axes_of_facts hF
  have hent : E.entry n = entryOf E nd := hn ▸ entry_of_facts hF
  unfold constructNode
  rw [hother]
  simp only [bind, Except.bind, hF.comb, List.isEmpty_nil, Bool.and_true, pure, Except.pure]
  by_cases hs : sUps E nd = []
  · -- no upstream state
    simp only [hs, List.map_nil, List.isEmpty_nil, Bool.and_true, if_true]
    cases hc : ownTree nd with
    | none =>
      simp only [Option.isNone_none, if_true]
      refine ⟨none, rfl, fun _ => rfl, ?_⟩
      intro hne; exfalso; apply hne
      rw [hax, (upAx_nil_iff E nd).mpr hs, (ownAx_nil_iff hF).mpr hc]; rfl
    | some t =>
      simp only [Option.isNone_some, Bool.false_eq_true, if_false]
      refine ⟨_, rfl, ?_, ?_⟩
      · intro he; exfalso
        rw [hax] at he
        have := (ownAx_nil_iff hF).mp (List.append_eq_nil_iff.mp he).2
        rw [hc] at this; exact absurd this (by simp)
      · intro _
        refine ⟨_, rfl, ?_⟩
        rw [hent]
        refine ⟨rfl, hF.ownComb, ?_, ?_, ?_, ?_⟩
        · simp [setTrees, entryOf, hc]
        · simp [setTrees, entryOf, hs]
        · simp [setTrees, entryOf, hs]
        · apply setTrees_full E sts n hI
          · intro u hu; simp at hu
          · right; simp [hc]
  · -- upstream states: `update_connections`
    have hne : ((sUps E nd).map mk).isEmpty = false := by
      cases hl : sUps E nd with
      | nil => exact absurd hl hs
      | cons p l => rfl
    simp only [hne, Bool.and_false, Bool.false_eq_true, if_false]
    rw [connect_first E sts n hI _ ((sUps E nd).map mk) (by simp [setTrees])
      (by rw [map_mk_fst]; exact hprev) (by rw [map_mk_fst]; exact hhist)]
    refine ⟨_, rfl, ?_, ?_⟩
    · intro he; exfalso
      rw [hax] at he
      exact hs ((upAx_nil_iff E nd).mp (List.append_eq_nil_iff.mp he).1)
    · intro _
      refine ⟨_, rfl, ?_⟩
      rw [hent]
      refine ⟨?_, ?_, ?_, ?_, ?_, ?_⟩
      · simp [setTrees]
      · simp [setTrees, hF.ownComb]
      · simp [setTrees, entryOf]
      · simp [setTrees, entryOf, mk]
      · show List.map (·.1) ((sUps E nd).map mk) = _
        rw [map_mk_fst]; rfl
      · apply setTrees_full E sts n hI
        · intro u hu
          simp only [map_mk_fst] at hu
          exact hprev u hu
        · left
          simp only [map_mk_fst]
          intro h
          exact hs (List.map_eq_nil_iff.mp h)

/-- `Workflow._create_graph` on a node of the class: nothing to do, or the same plain state again. -/
theorem graphNode_ok (E : Env) (sts : Sts) (N : Nat) (hI : InvA E sts N) (nd : Node) (hF : Facts E nd)
    (hlt : nd.name < N) :
    ∃ x, graphNode sts nd = .ok x ∧
      (x = none ∨ ∃ s', x = some s' ∧ StOK (E.entry nd.name) s' ∧ E.axes nd.name ≠ []) := by
  have hother := upsByFinal_eq E sts N hI nd.lazyUps []
    (fun p hp => Nat.lt_trans (hF.refs p hp) hlt) (by simpa [← sUps_eq_filter] using hF.supsNodup)
  simp only [List.nil_append, ← sUps_eq_filter] at hother
  obtain ⟨hprev, hhist⟩ := sUps_facts hF nd.name rfl
  have hprev' : ∀ u ∈ (sUps E nd).map (·.2), u < N ∧ E.axes u ≠ [] :=
    fun u hu => ⟨Nat.lt_trans (hprev u hu).1 hlt, (hprev u hu).2⟩
  unfold graphNode
  simp only [hother]
  by_cases hs : sUps E nd = []
  · simp only [hs, List.map_nil, List.isEmpty_nil, if_true]
    exact ⟨none, rfl, Or.inl rfl⟩
  · have hne : ((sUps E nd).map mk).isEmpty = false := by
      cases hl : sUps E nd with
      | nil => exact absurd hl hs
      | cons p l => rfl
    have hne' : (sUps E nd).map mk ≠ [] := by
      intro h; rw [h] at hne; simp at hne
    have hax : E.axes nd.name ≠ [] := by
      rw [axes_of_facts hF]
      intro he
      exact hs ((upAx_nil_iff E nd).mp (List.append_eq_nil_iff.mp he).1)
    obtain ⟨s, hget, hok⟩ := hI.some nd.name hlt hax
    have hent := entry_of_facts hF
    have hso : s.other = (sUps E nd).map mk := by rw [hok.other, hent]; rfl
    have hsp : s.prev = ((sUps E nd).map mk).map (·.1) := by rw [hok.prev, hent, map_mk_fst]; rfl
    simp only [hne, Bool.false_eq_true, if_false, hget, hso]
    rw [connect_second E sts N hI s _ hsp hne' (by rw [map_mk_fst]; exact hprev') (by rw [map_mk_fst]; exact hhist)]
    simp only [bind, Except.bind, pure, Except.pure]
    refine ⟨_, rfl, Or.inr ⟨_, rfl, ?_, hax⟩⟩
    refine ⟨?_, ?_, ?_, ?_, ?_, ?_⟩
    · simp [setTrees, hok.comb]
    · simp [setTrees, hok.ownComb]
    · simp [setTrees, hok.cur]
    · show (sUps E nd).map mk = _
      rw [hent]; rfl
    · show s.prev = _
      exact hok.prev
    · apply setTrees_full E sts N hI
      · intro u hu
        have : u ∈ (sUps E nd).map (·.2) := by
          have h2 : u ∈ s.prev := hu
          rw [hsp, map_mk_fst] at h2; exact h2
        exact hprev' u this
      · left
        show s.prev ≠ []
        rw [hsp, map_mk_fst]
        intro h; exact hs (List.map_eq_nil_iff.mp h)

/-! ### the two passes -/

theorem invA_append {E : Env} {sts : Sts} {n : Nat} (hI : InvA E sts n) (hn : n < E.length) (x : Option St)
    (hnone : E.axes n = [] → x = none) (hsome : E.axes n ≠ [] → ∃ s, x = some s ∧ StOK (E.entry n) s) :
    InvA E (sts ++ [(n, x)]) (n + 1) := by
  have hnot : n ∉ names sts := by rw [hI.names]; simp
  refine ⟨?_, hn, ?_, ?_⟩
  · simp [names, List.range_succ]; exact hI.names
  · intro u hu hax
    rw [get_append]
    by_cases hmem : u ∈ names sts
    · simp only [hmem, if_true]
      exact hI.none u ((mem_range_names hI.names u).mp hmem) hax
    · have hun : u = n := by
        have : ¬ u < n := fun h => hmem ((mem_range_names hI.names u).mpr h)
        omega
      subst hun
      simp [hmem, hnone hax]
  · intro u hu hax
    rw [get_append]
    by_cases hmem : u ∈ names sts
    · simp only [hmem, if_true]
      exact hI.some u ((mem_range_names hI.names u).mp hmem) hax
    · have hun : u = n := by
        have : ¬ u < n := fun h => hmem ((mem_range_names hI.names u).mpr h)
        omega
      subst hun
      simp only [hmem, if_false, if_true]
      exact hsome hax

theorem invA_set {E : Env} {sts : Sts} {N : Nat} (hI : InvA E sts N) (u : Nat) (hu : u < N) (s' : St)
    (hax : E.axes u ≠ []) (hok : StOK (E.entry u) s') : InvA E (sts.set u (some s')) N := by
  have hmem : u ∈ names sts := (mem_range_names hI.names u).mpr hu
  refine ⟨by rw [names_set sts u _ hmem]; exact hI.names, hI.le, ?_, ?_⟩
  · intro v hv hv0
    rw [get_set sts u _ v hmem]
    by_cases huv : u = v
    · subst huv; exact absurd hv0 hax
    · simp only [huv, if_false]; exact hI.none v hv hv0
  · intro v hv hv0
    rw [get_set sts u _ v hmem]
    by_cases huv : u = v
    · subst huv; simp only [if_true]; exact ⟨s', rfl, hok⟩
    · simp only [huv, if_false]; exact hI.some v hv hv0

/-- `Node._set_state` over the remaining nodes. -/
theorem constructPass_ok (E : Env) (rest : List Node) (sts : Sts) (n : Nat) (hI : InvA E sts n)
    (hF : ∀ nd ∈ rest, Facts E nd) (hnames : ∀ k (hk : k < rest.length), rest[k].name = n + k) :
    ∃ sts', constructPass sts rest = .ok sts' ∧ InvA E sts' (n + rest.length) := by
  induction rest generalizing sts n with
  | nil => exact ⟨sts, rfl, by simpa using hI⟩
  | cons nd rest ih =>
    have hn : nd.name = n := by
      have := hnames 0 (Nat.zero_lt_succ _)
      simp only [List.getElem_cons_zero, Nat.add_zero] at this
      exact this
    have hFnd := hF nd (by simp)
    obtain ⟨x, hx, hnone, hsome⟩ := constructNode_ok E sts n hI nd hFnd hn
    have hI' := invA_append hI (hn ▸ hFnd.lt) x hnone hsome
    obtain ⟨sts', hs', hI''⟩ := ih (sts ++ [(n, x)]) (n + 1) hI'
      (fun nd' h' => hF nd' (List.mem_cons_of_mem _ h'))
      (by
        intro k hk
        have := hnames (k + 1) (Nat.succ_lt_succ hk)
        simp only [List.getElem_cons_succ] at this
        rw [this]
        show (n + (k + 1) : Nat) = n + 1 + k
        omega)
    refine ⟨sts', ?_, by simpa [Nat.add_assoc, Nat.add_comm 1] using hI''⟩
    simp only [constructPass, hx, bind, Except.bind, hn]
    exact hs'

/-- `Workflow._create_graph` over the remaining nodes. -/
theorem graphPass_ok (E : Env) (rest : List Node) (sts : Sts) (N : Nat) (hI : InvA E sts N)
    (hF : ∀ nd ∈ rest, Facts E nd ∧ nd.name < N) :
    ∃ sts', graphPass sts rest = .ok sts' ∧ InvA E sts' N := by
  induction rest generalizing sts with
  | nil => exact ⟨sts, rfl, hI⟩
  | cons nd rest ih =>
    obtain ⟨hFnd, hlt⟩ := hF nd (by simp)
    obtain ⟨x, hx, hcase⟩ := graphNode_ok E sts N hI nd hFnd hlt
    rcases hcase with rfl | ⟨s', rfl, hok, hax⟩
    · obtain ⟨sts', hs', hI'⟩ := ih sts hI (fun nd' h' => hF nd' (List.mem_cons_of_mem _ h'))
      exact ⟨sts', by simp only [graphPass, hx, bind, Except.bind]; exact hs', hI'⟩
    · obtain ⟨sts', hs', hI'⟩ := ih _ (invA_set hI nd.name hlt s' hax hok) (fun nd' h' => hF nd' (List.mem_cons_of_mem _ h'))
      exact ⟨sts', by simp only [graphPass, hx, bind, Except.bind]; exact hs', hI'⟩

end PydraModel.WfState.Simple
