import PydraModel.WfState.Basic
/-
C03 model of the *code's mechanism* (pinned commit), including its defects.

Mirrors, at the level of splitter trees / index tuples / index dictionaries:

* `Node._get_upstream_states` (criterion `state.depth() > 0`) and `Node._set_state`          → `constructPass`
* `Workflow._create_graph` (criterion `state.splitter_rpn_final` non-empty, `update_connections`
  re-applied; `NodeExecution.state` has no setter)                                           → `graphPass`
* `State._connect_splitters / _complete_prev_state / _remove_repeated / _add_state_history`  → `connect`, `addStateHistory`
* `State.set_input_groups / _merge_previous_groups / _add_current_groups` with
  `splits_groups` / `combine_final_groups`                                                   → `setInputGroups`, `splitsGroups`
* `State.prepare_states_ind / prepare_states_combined_ind / prepare_inputs`,
  `NodeExecution.start/_split_task/_resolve_lazy_inputs`, `LazyOutField._get_value`          → `runNode`, `getValue`

A splitter in RPN is represented by the binary tree it denotes (`splitter2rpn`/`rpn2splitter` are inverse on the
shapes that occur: own splitters over at most two fields, prev-state parts that are left-nested outer products).
Python dicts are association lists with replace-in-place assignment (`Dict`).  Exceptions are outcomes (`Crash`).
Every function is structurally recursive (kernel-evaluable).
-/
namespace PydraModel.WfState.Model
open PydraModel.WfState

inductive Crash
  | typeError | valueError | attributeError | keyError | indexError | pydraStateError | assertionError
  deriving DecidableEq, Repr, Inhabited

inductive Err
  | crash (c : Crash)              -- the code raises this exception class
  | unmodelled (why : String)      -- the code's behaviour depends on something outside the model (set iteration order)
  | malformed (why : String)       -- not a well-formed case (unknown node …): driver input error
  deriving Repr, Inhabited

abbrev M := Except Err

/-- Splitter tree over dotted keys: `outer` = `*` (list), `inner` = `.` (tuple). -/
inductive Tree
  | leaf (k : Key)
  | outer (l r : Tree)
  | inner (l r : Tree)
  deriving Repr, Inhabited, DecidableEq

abbrev OTree := Option Tree

def Tree.leaves : Tree → List Key
  | .leaf k => [k]
  | .outer l r => l.leaves ++ r.leaves
  | .inner l r => l.leaves ++ r.leaves

def oleaves : OTree → List Key
  | none => []
  | some t => t.leaves

/-- `remove_inp_from_splitter_rpn`: drop the named leaves together with their operators. -/
def Tree.remove (names : List Key) : Tree → OTree
  | .leaf k => if names.contains k then none else some (.leaf k)
  | .outer l r =>
    match l.remove names, r.remove names with
    | none, r' => r'
    | l', none => l'
    | some l', some r' => some (.outer l' r')
  | .inner l r =>
    match l.remove names, r.remove names with
    | none, r' => r'
    | l', none => l'
    | some l', some r' => some (.inner l' r')

/-- `State.depth()`: fields count 1 unless named in the (explicit) combiner; `*` adds, `.` is Python's `R and L`. -/
def Tree.depth (comb : List Key) : Tree → Nat
  | .leaf k => if comb.contains k then 0 else 1
  | .outer l r => l.depth comb + r.depth comb
  | .inner l r => if r.depth comb = 0 then 0 else l.depth comb

/-- Left-nested outer product of the present trees (`[a, b, c]` → `a b * c *`). -/
def outerStep (acc t : OTree) : OTree :=
  match acc, t with
  | none, t => t
  | acc, none => acc
  | some a, some b => some (.outer a b)

def outerAll (ts : List OTree) : OTree := ts.foldl outerStep none

/-- `State.splits` on a tree of fields: flat index tuples (row-major; `.` zips and checks the shapes) and the key list. -/
def Tree.enum (size : Key → Nat) : Tree → M (List (List Nat) × List Key)
  | .leaf k => .ok ((List.range (size k)).map ([·]), [k])
  | .outer l r => do
    let (a, ka) ← l.enum size
    let (b, kb) ← r.enum size
    return (a.flatMap fun x => b.map fun y => x ++ y, ka ++ kb)
  | .inner l r => do
    let (a, ka) ← l.enum size
    let (b, kb) ← r.enum size
    if a.length ≠ b.length then throw (.crash .valueError)
    return (List.zipWith (· ++ ·) a b, ka ++ kb)

/-- DOCUMENTATION VARIANT, no longer part of the model (`combinedInd` uses the keys of `Tree.enum`): the key list
    `State.splits` returned BEFORE the fix of D46 (/repo 932a47fa).  The old code kept ONE flat list while it evaluated the
    RPN: two unprocessed operands were appended (`keys + L + R`), an unprocessed RIGHT operand was appended (`keys + R`),
    but an unprocessed LEFT operand of a processed right operand was put in front of EVERYTHING collected so far
    (`keys = new_keys_L + keys`) — also in front of the keys of groups standing to its left in the splitter — while the
    index tuples were nested in splitter order.  The fixed code carries the keys with each processed stack term
    (`keys = keys_L + keys_R`): the leaves in nesting order, i.e. `Tree.leaves` (= the key list of `Tree.enum`).
    `C03_witness_key_order` (Props/C03.lean) shows the two differ. -/
def Tree.splitsKeysAux : Tree → List Key → List Key
  | .leaf _, ks => ks
  | .outer l r, ks =>
    match l, r with
    | .leaf a, .leaf b => ks ++ [a, b]
    | .leaf a, r' => a :: r'.splitsKeysAux ks
    | l', .leaf b => l'.splitsKeysAux ks ++ [b]
    | l', r' => r'.splitsKeysAux (l'.splitsKeysAux ks)
  | .inner l r, ks =>
    match l, r with
    | .leaf a, .leaf b => ks ++ [a, b]
    | .leaf a, r' => a :: r'.splitsKeysAux ks
    | l', .leaf b => l'.splitsKeysAux ks ++ [b]
    | l', r' => r'.splitsKeysAux (l'.splitsKeysAux ks)

def Tree.splitsKeys : Tree → List Key
  | .leaf k => [k]
  | t => t.splitsKeysAux []

/-! ### `splits_groups` / `combine_final_groups` -/

/-- A group entry: an axis number or a list of axis numbers. -/
inductive G
  | one (n : Nat)
  | many (l : List Nat)
  deriving DecidableEq, Repr, Inhabited

def G.el : G → List Nat
  | .one n => [n]
  | .many l => l

abbrev Groups := List (Key × G)

def Groups.set (g : Groups) (k : Key) (v : G) : Groups :=
  match g with
  | [] => [(k, v)]
  | (k', v') :: r => if k' = k then (k', v) :: r else (k', v') :: Groups.set r k v

def Groups.get? (g : Groups) (k : Key) : Option G :=
  match g with
  | [] => none
  | (k', v') :: r => if k' = k then some v' else Groups.get? r k

structure SG where
  groups : Groups := []
  cnt : Option Nat := none

def SG.fresh (s : SG) : Nat × SG :=
  let n := match s.cnt with | none => 0 | some c => c + 1
  (n, { s with cnt := some n })

def indexOf (l : List Nat) (v : Nat) : Nat :=
  match l with
  | [] => 0
  | x :: r => if x = v then 0 else indexOf r v + 1

/-- The stack machine of `splits_groups`, on the tree: returns the pushed item (a field name or a group). -/
def Tree.groupsEval : Tree → SG → M ((Key ⊕ G) × SG)
  | .leaf k, s => .ok (.inl k, s)
  | .inner l r, s => do
    let (L, s) ← l.groupsEval s
    let (R, s) ← r.groupsEval s
    match L, R with
    | .inl kl, .inl kr =>
      let (g, s) := s.fresh
      return (.inr (.one g), { s with groups := (s.groups.set kl (.one g)).set kr (.one g) })
    | .inr gl, .inl kr => return (.inr gl, { s with groups := s.groups.set kr gl })
    | .inl kl, .inr gr => return (.inr gr, { s with groups := s.groups.set kl gr })
    | .inr gl, .inr gr =>
      if gl.el.length ≠ gr.el.length then throw (.crash .valueError)
      let groups := s.groups.map fun (k, v) =>
        match v with
        | .one n => if gr.el.contains n then (k, G.one (gl.el.getD (indexOf gr.el n) 0)) else (k, v)
        | v => (k, v)
      return (.inr gl, { s with groups := groups })
  | .outer l r, s => do
    let (L, s) ← l.groupsEval s
    let (R, s) ← r.groupsEval s
    match L, R with
    | .inl kl, .inl kr =>
      let (a, s) := s.fresh
      let (b, s) := s.fresh
      return (.inr (.many [a, b]), { s with groups := (s.groups.set kl (.one a)).set kr (.one b) })
    | .inr gl, .inl kr =>
      let (b, s) := s.fresh
      return (.inr (.many (gl.el ++ [b])), { s with groups := s.groups.set kr (.one b) })
    | .inl kl, .inr gr =>
      let (a, s) := s.fresh
      return (.inr (.many (a :: gr.el)), { s with groups := s.groups.set kl (.one a) })
    | .inr gl, .inr gr => return (.inr (.many (gl.el ++ gr.el)), s)

def dedup {α : Type} [DecidableEq α] : List α → List α
  | [] => []
  | x :: r => if r.contains x then dedup r else x :: dedup r

/-- `combine_final_groups` as far as it can raise, and its `combiner_all`. -/
def combineFinal (combiner : List Key) (groups : Groups) (stack : List Nat) : M (List Key) := do
  -- combiner_all
  let mut combAll : List Key := []
  for c in combiner do
    match groups.get? c with
    | none => throw (.crash .keyError)
    | some g =>
      for gr in g.el do
        combAll := combAll ++ (groups.filter fun (_, v) => v.el.contains gr).map (·.1)
  combAll := dedup combAll
  -- removal from the (single-level) stack
  let mut st := stack
  let mut removed : List Nat := []
  for c in combiner do
    match groups.get? c with
    | none => throw (.crash .keyError)
    | some g =>
      for gr in g.el do
        if st.contains gr then
          removed := gr :: removed
          st := st.erase gr
        else if removed.contains gr then
          pure ()
        else throw (.crash .pydraStateError)
  -- map_gr_nr: every group left on the stack must be the group of a remaining field
  let grFinal := (groups.filter fun (k, _) => !(combAll.contains k)).flatMap fun (_, v) => v.el
  for gr in st do
    if !(grFinal.contains gr) then throw (.crash .keyError)
  return combAll

/-- `splits_groups(rpn, combiner)`: only `combiner_all` and the exceptions matter to the model. -/
def splitsGroups (t : OTree) (combiner : List Key) : M (List Key) :=
  match t with
  | none => .ok []
  | some (.leaf k) =>
    if combiner.isEmpty then .ok []
    else if combiner == [k] then .ok combiner
    else .error (.crash .pydraStateError)
  | some t => do
    let (top, s) ← t.groupsEval {}
    if combiner.isEmpty then return []
    let stack := match top with | .inl _ => [] | .inr g => g.el
    combineFinal combiner s.groups stack

/-! ### State objects -/

structure St where
  name : Name
  other : List (Name × List Fld) := []   -- `other_states`: upstream name ↦ connected fields (ordered dict)
  prev : List Name := []                 -- names `U` of the `_U` in `prev_state_splitter` (flat list)
  cur : OTree := none                    -- `current_splitter`
  comb : List Key := []                  -- explicit combiner
  ownComb : List Key := []               -- `current_combiner` (substring test on the dotted names, see `Node.ownComb`)
  prevPre : OTree := none                -- `prev_state_splitter_rpn` as cached when the splitter was set
  fullPre : OTree := none                -- `splitter_rpn` as cached when the splitter was set
  ran : Bool := false                    -- `set_input_groups` has run: `*_combiner_all` are available
  curCombAll : List Key := []
  prevCombAll : List Key := []
  deriving Inhabited

abbrev Sts := List (Name × Option St)

/-- The state object of node `n` (`none`: the node has no state, or — never for driver-checked input — is unknown). -/
def Sts.get (sts : Sts) (n : Name) : Option St :=
  match sts with
  | [] => none
  | (m, s) :: r => if m = n then s else Sts.get r n

def Sts.getSt (sts : Sts) (n : Name) : St := (sts.get n).getD default

def Sts.set (sts : Sts) (n : Name) (s : Option St) : Sts :=
  match sts with
  | [] => [(n, s)]
  | (m, s') :: r => if m = n then (m, s) :: r else (m, s') :: Sts.set r n s

/-- `current_combiner_all + prev_state_combiner_all` (explicit names before `set_input_groups` has run). -/
def St.combAll (s : St) : List Key :=
  if s.ran then s.curCombAll ++ s.prevCombAll
  else s.ownComb ++ (s.comb.filter fun c => !(s.ownComb.contains c))

/-- `splitter_rpn_final`. -/
def St.finalTree (s : St) : OTree :=
  if s.comb.isEmpty then s.fullPre else s.fullPre.bind (Tree.remove s.combAll)

def ownTree (nd : Node) : OTree :=
  match nd.split with
  | .no => none
  | .single f => some (.leaf (nd.name, f))
  | .outer f g => some (.outer (.leaf (nd.name, f)) (.leaf (nd.name, g)))
  | .inner f g => some (.inner (.leaf (nd.name, f)) (.leaf (nd.name, g)))

/-- Final splitters of the previous states, as they are now. -/
def finalsOf (sts : Sts) (prev : List Name) : List OTree := prev.map fun u => (sts.getSt u).finalTree

/-- The splitter setter: caches `prev_state_splitter_rpn` and `splitter_rpn` with the upstream finals as they are now. -/
def setTrees (sts : Sts) (s : St) : St :=
  let prevPre := outerAll (finalsOf sts s.prev)
  { s with prevPre := prevPre, fullPre := outerAll [prevPre, s.cur] }

def assocGet {β : Type} (l : List (Name × β)) (n : Name) : Option β :=
  match l with
  | [] => none
  | (m, b) :: r => if m = n then some b else assocGet r n

def assocSet {β : Type} (l : List (Name × β)) (n : Name) (b : β) : List (Name × β) :=
  match l with
  | [] => [(n, b)]
  | (m, b') :: r => if m = n then (m, b) :: r else (m, b') :: assocSet r n b

/-- `list.index`/replace: substitute the first occurrence of `u` by `new`. -/
def replaceFirst (l : List Name) (u : Name) (new : List Name) : List Name :=
  match l with
  | [] => []
  | x :: r => if x = u then new ++ r else x :: replaceFirst r u new

/-- What `_add_state_history` looks at in a previous state `u`: has it connections of its own, a current splitter,
    and which states are in its prev-state part. -/
structure UpInfo where
  name : Name
  hasOther : Bool
  hasCur : Bool
  prev : List Name
  deriving Inhabited

def upInfo (sts : Sts) (u : Name) : UpInfo :=
  let su := sts.getSt u
  { name := u, hasOther := !su.other.isEmpty, hasCur := su.cur.isSome, prev := su.prev }

/-- `othst_w_currst`: previous states without connections of their own. -/
def rootsOf (infos : List UpInfo) : List Name := (infos.filter fun i => !i.hasOther).map (·.name)

abbrev Other := List (Name × List Fld)

/-- `other[r] = other[r] + other[u]` for every repeated `r`. -/
def mergeFields (other : Other) (fu : List Fld) : List Name → Other
  | [] => other
  | r :: rest => mergeFields (assocSet other r ((assocGet other r).getD [] ++ fu)) fu rest

/-- First loop of `_add_state_history` (`othst_w_prevst`: connections, no current splitter). -/
def histPrevLoop (wCur : List Name) : List UpInfo → Other × List Name → M (Other × List Name)
  | [], acc => .ok acc
  | i :: rest, (other, prev) =>
    let rep := i.prev.filter wCur.contains
    if rep.isEmpty then histPrevLoop wCur rest (other, prev)
    else
      let fu := (assocGet other i.name).getD []
      let other := mergeFields other fu rep
      let new := dedup (i.prev.filter fun x => !(wCur.contains x))
      match new with
      | [] => histPrevLoop wCur rest (other, prev.erase i.name)
      | [x] => histPrevLoop wCur rest (assocSet other x fu, replaceFirst prev i.name [x])
      | _ => .error (.unmodelled "iteration order of the set new_st")

/-- `previous_splitters.remove(r)` for every repeated `r` (`ValueError` when it is already gone). -/
def removeAll : List Name → List Name → M (List Name)
  | [], prev => .ok prev
  | r :: rest, prev => if prev.contains r then removeAll rest (prev.erase r) else .error (.crash .valueError)

/-- Second loop (`othst_w_currst_prevst`: connections and a current splitter; "not tested, needs more work"). -/
def histBothLoop (wCur : List Name) : List UpInfo → List Name → M (List Name)
  | [], prev => .ok prev
  | i :: rest, prev => do
    let prev ← removeAll (dedup (i.prev.filter wCur.contains)) prev
    histBothLoop wCur rest prev

/-- `_add_state_history` on the classified elements. -/
def historyCore (infos : List UpInfo) (other : Other) (prev : List Name) : M (Other × List Name) := do
  let wCur := rootsOf infos
  let wPrev := infos.filter fun i => i.hasOther && !i.hasCur
  let wBoth := infos.filter fun i => i.hasOther && i.hasCur
  let (other, prev) ← histPrevLoop wCur wPrev (other, prev)
  let prev ← histBothLoop wCur wBoth prev
  return (other, prev)

/-- `_add_state_history`: rewrites the list of previous states and the `other_states` dictionary. -/
def addStateHistory (sts : Sts) (s : St) (prev : List Name) : M (St × List Name) := do
  let (other, prev) ← historyCore (prev.map (upInfo sts)) s.other prev
  return ({ s with other := other }, prev)

/-- `_complete_prev_state(prev_state=…)` on an existing prev-state part (second pass): connected states with a final
    splitter that are missing from it are put in front, last connected first; the flag records that some state was put in
    front of a *list* (`[f"_{name}", prev_state]` is then nested). -/
def addMissing (sts : Sts) : List (Name × List Fld) → List Name × Bool → List Name × Bool
  | [], acc => acc
  | (u, _) :: rest, (prev, nested) =>
    if !(prev.contains u) && (sts.getSt u).finalTree.isSome then
      addMissing sts rest (u :: prev, nested || decide (prev.length > 1))
    else addMissing sts rest (prev, nested)

/-- `update_connections(new_other_states)` → `_connect_splitters` → `_complete_prev_state`. -/
def connect (sts : Sts) (s : St) (other : List (Name × List Fld)) : M St :=
  let s := { s with other := other }
  if s.prev.isEmpty then do
    -- no prev-state part yet (construction): all connected states, then the history rewriting
    let (s, prev) ← addStateHistory sts s (other.map (·.1))
    return setTrees sts { s with prev := prev }
  else
    let (prev0, nested) := addMissing sts other.reverse (s.prev, false)
    -- `_remove_repeated` evaluates `el[1:] not in self.other_states` with `el` a list: unhashable
    if nested then .error (.crash .typeError)
    else if s.prev.length > 1 || prev0.length > s.prev.length then
      -- `_remove_repeated`: every `_U` of the list must (still) be a connected state with a final splitter — not so on a
      -- later run when `U`'s final splitter became empty once its `current_combiner_all` was known
      if prev0.any (fun u => !(other.any fun p => p.1 == u)) then .error (.crash .pydraStateError)
      else do
        let (s, prev) ← addStateHistory sts s prev0
        return setTrees sts { s with prev := prev }
    else .ok (setTrees sts { s with prev := prev0 })

def addField (other : List (Name × List Fld)) (u : Name) (f : Fld) : List (Name × List Fld) :=
  match other with
  | [] => [(u, [f])]
  | (m, fl) :: r => if m = u then (m, fl ++ [f]) :: r else (m, fl) :: addField r u f

/-- `Node._get_upstream_states`: the connected upstream states with `depth() > 0`, with the fields they feed. -/
def upsByDepth (sts : Sts) : List (Fld × Name) → Other → M Other
  | [], acc => .ok acc
  | (f, u) :: rest, acc =>
    match sts.get u with
    | none => upsByDepth sts rest acc
    | some su =>
      match su.fullPre with
      | none => .error (.crash .assertionError)          -- `depth()` on an empty RPN
      | some t => upsByDepth sts rest (if t.depth su.comb > 0 then addField acc u f else acc)

/-- `Workflow._create_graph`'s criterion: the connected upstream states whose `splitter_rpn_final` is non-empty. -/
def upsByFinal (sts : Sts) : List (Fld × Name) → Other → Other
  | [], acc => acc
  | (f, u) :: rest, acc =>
    match sts.get u with
    | none => upsByFinal sts rest acc
    | some su => upsByFinal sts rest (if su.finalTree.isSome then addField acc u f else acc)

/-- `Node._set_state` for one node. -/
def constructNode (sts : Sts) (nd : Node) : M (Option St) := do
  let other ← upsByDepth sts nd.lazyUps []
  let cur := ownTree nd
  if cur.isNone && nd.comb.isEmpty && other.isEmpty then return none
  else
    let s := setTrees sts { name := nd.name, cur := cur, comb := nd.comb, ownComb := nd.ownComb }
    if other.isEmpty then return some s else return some (← connect sts s other)

/-- `Node._get_upstream_states` + `Node._set_state`, for all nodes in construction order. -/
def constructPass (sts : Sts) : List Node → M Sts
  | [] => .ok sts
  | nd :: rest => do
    let s ← constructNode sts nd
    constructPass (sts ++ [(nd.name, s)]) rest

/-- `Workflow._create_graph` for one node: `none` = nothing to update. -/
def graphNode (sts : Sts) (nd : Node) : M (Option St) :=
  let other := upsByFinal sts nd.lazyUps []
  if other.isEmpty then .ok none
  else
    match sts.get nd.name with
    | none => .error (.crash .attributeError)            -- `NodeExecution.state` has no setter
    | some s =>
      -- a State built without other_states never ran `_connect_splitters`: no `_current_splitter_rpn`
      if s.other.isEmpty then .error (.crash .attributeError)
      else do return some (← connect sts s other)

/-- `Workflow._create_graph`: recomputes `other_states` with the criterion `splitter_rpn_final` non-empty. -/
def graphPass (sts : Sts) : List Node → M Sts
  | [] => .ok sts
  | nd :: rest => do
    match ← graphNode sts nd with
    | none => graphPass sts rest
    | some s => graphPass (sts.set nd.name (some s)) rest

/-! ### Run time -/

structure RunRes where
  hasState : Bool := false
  outs : List Val := []
  statesInd : List (Dict Key) := []
  statesIndFinal : List (Dict Key) := []
  indFinal : List (List Nat) := []
  keysFinal : List Key := []
  comb : Bool := false
  deriving Inhabited

abbrev Ress := List (Name × RunRes)

def Ress.get (rs : Ress) (n : Name) : RunRes :=
  match rs with
  | [] => {}
  | (m, r) :: rest => if m = n then r else Ress.get rest n

/-- `LazyOutField._get_value(state_index)`. -/
def getValue (r : RunRes) (stateIndex : Option Nat) : M Val :=
  if !r.hasState then
    let v := r.outs.getD 0 .null
    match stateIndex with
    | none => .ok v
    | some i =>
      match v with
      | .list l => if h : i < l.length then .ok l[i] else .error (.crash .indexError)
      | _ => .error (.crash .typeError)
  else if r.comb then
    if r.indFinal.isEmpty then .ok (.list r.outs)
    else
      let group (i : Nat) : M Val :=
        match r.statesIndFinal[i]? with
        | none => .error (.crash .indexError)
        | some fin =>
          -- `upstream_node._tasks[i]` for every state index `i` whose items include the final index's items
          let sel := (List.zipWith (fun sd j => (sd, j)) r.statesInd (List.range r.statesInd.length)).filter
            fun (sd, _) => Dict.subset fin sd
          if sel.any (fun (_, j) => j ≥ r.outs.length) then .error (.crash .keyError)
          else .ok (.list (sel.map fun (_, j) => r.outs.getD j .null))
      match stateIndex with
      | none => do return .list (← (List.range r.indFinal.length).mapM group)
      | some i => group i
  else
    match stateIndex with
    | none => .ok (.list r.outs)
    | some i => match r.outs[i]? with
      | some v => .ok v
      | none => .error (.crash .keyError)

/-- `prepare_inputs`, index blocks of the previous states: the first one is zipped with itself once per connected
    field, every later one contributes a single index whatever the number of connected fields. -/
def prevBlocks : Bool → List (Nat × List Fld) → List (List (List Nat))
  | _, [] => []
  | first, (n, fl) :: rest =>
    ((List.range n).map fun i => if first then fl.map fun _ => i else [i]) :: prevBlocks false rest

/-- `keys_inp_prev`: one key per connected field. -/
def prevKeys (name : Name) : List (Nat × List Fld) → List Key
  | [] => []
  | (_, fl) :: rest => fl.map (fun f => (name, f)) ++ prevKeys name rest

def flattenL {α : Type} (l : List (List α)) : List α := l.foldr (· ++ ·) []

/-- `State.inputs_ind`: for every job the dictionary `"<node>.<field>" ↦ index into the upstream's final states`. -/
def ownBlock : Option (List (List Nat) × List Key) → List (List (List Nat))
  | some (e, _) => [e]
  | none => []

def ownKeyList : Option (List (List Nat) × List Key) → List Key
  | some (_, k) => k
  | none => []

def inputsIndOf (name : Name) (prevs : List (Nat × List Fld)) (own : Option (List (List Nat) × List Key)) :
    List (Dict Key) :=
  let blocks := prevBlocks true prevs ++ ownBlock own
  let keys := prevKeys name prevs ++ ownKeyList own
  if blocks.isEmpty then [] else (cart blocks).map fun t => mkDict keys (flattenL t)

def sizeOf (nodes : List Node) (k : Key) : Nat :=
  match nodes with
  | [] => 0
  | nd :: rest => if nd.name = k.1 then nd.lstLen k.2 else sizeOf rest k

/-- The loop of `_merge_previous_groups` over the previous states: combiner keys that reach into a previous state's final
    splitter are closed over that state's groups. -/
def mergePrev (sts : Sts) : List Name → List Key → M (List Key)
  | [], acc => .ok acc
  | u :: rest, acc => do
    let ft := (sts.getSt u).finalTree
    let stComb := (dedup acc).filter (oleaves ft).contains
    if stComb.isEmpty then mergePrev sts rest acc
    else mergePrev sts rest (acc ++ (← splitsGroups ft stComb))

/-- Keys of `st.group_for_inputs_final` of an upstream state that HAS RUN, as `_merge_previous_groups` of a consumer sees
    them.  For a state without combiner: the leaves of its final splitter.  For a state with a combiner the stored groups
    were computed at ITS run from ITS upstreams' final splitters as they were then (after those had run), which can be
    fewer than its own cached `splitter_rpn_final` says (D29: an upstream's final splitter shrinks once its
    `current_combiner_all` is known).  One level of that recursion is modelled. -/
def St.groupKeysNow (sts : Sts) (su : St) : List Key :=
  if su.comb.isEmpty then oleaves su.finalTree
  else
    ((su.prev.flatMap fun w => oleaves (sts.getSt w).finalTree).filter fun k => !(su.prevCombAll.contains k)) ++
    ((oleaves su.cur).filter fun k => !(su.curCombAll.contains k))

/-- What one previous state contributes to `group_for_inputs_final`: its final splitter minus the combined keys when the
    consumer's prev-state combiner reaches into it (`st_combiner`), its stored groups otherwise. -/
def prevGroupKeys (sts : Sts) (prevAll : List Key) (u : Name) : List Key :=
  let su := sts.getSt u
  let lv := oleaves su.finalTree
  if lv.any prevAll.contains then lv.filter fun k => !(prevAll.contains k)
  else (su.groupKeysNow sts).filter fun k => !(prevAll.contains k)

/-- `set_input_groups` (`_merge_previous_groups`, `splits_groups` of the current part, `_add_current_groups`):
    computes `*_combiner_all`; raises what the code raises. -/
def setInputGroups (sts : Sts) (s : St) : M St := do
  let curComb := s.ownComb
  let prevComb := s.comb.filter fun c => !(s.ownComb.contains c)
  let prevAll ←
    if s.other.isEmpty then pure prevComb
    else do
      let p0 ← if prevComb.isEmpty then pure [] else splitsGroups s.prevPre prevComb
      mergePrev sts s.prev p0
  let curAll ← splitsGroups s.cur curComb
  let prevAll := dedup prevAll
  -- keys of the previous states' final groups (as they are now, after those states have run) that are not combined
  let left := s.prev.flatMap (prevGroupKeys sts prevAll)
  -- `_add_current_groups`: max() over the (empty) previous groups
  if !s.prev.isEmpty && s.cur.isSome && left.isEmpty then throw (.crash .valueError)
  return { s with ran := true, curCombAll := curAll, prevCombAll := prevAll }

def resolveField (rs : Ress) (nd : Node) (f : Fld) (stateIndex : Option Nat) : M Val :=
  match nd.src f with
  | .none => .ok .null
  | .const v => .ok v
  | .lst vs => .ok (.list vs)
  | .up u => getValue (rs.get u) stateIndex

/-- The node's own enumeration (`State.splits` of the current splitter) with its keys. -/
def ownEnum (size : Key → Nat) (cur : OTree) : M (Option (List (List Nat) × List Key)) :=
  match cur with
  | none => .ok none
  | some t => do return some (← t.enum size)

/-- `prepare_states_combined_ind`: the final enumeration, its keys and the final index dictionaries of a state with a
    combiner (raises what the code raises). -/
def combinedInd (size : Key → Nat) (sts : Sts) (s : St) (statesInd : List (Dict Key)) :
    M (List (List Nat) × List Key) := do
  let finals := finalsOf sts s.prev
  -- splitter2rpn: a `_U` whose `splitter_final` is None inside a list
  if s.prev.length + (if s.cur.isSome then 1 else 0) ≥ 2 && finals.any Option.isNone then
    throw (.crash .pydraStateError)
  let fullNow := outerAll (finals ++ [s.cur])
  match fullNow.bind (Tree.remove (s.curCombAll ++ s.prevCombAll)) with
  | some combined =>
    -- `State.splits`: index tuples and their keys, both in splitter (nesting) order
    let (e, k) ← combined.enum size
    -- ind_map[tuple(st[k] for k in keys_final)]: a missing key or an unknown tuple is a KeyError
    if statesInd.all fun sd => (k.map sd.get?).all Option.isSome && e.contains ((k.map sd.get?).map fun o => o.getD 0) then
      return (e, k)
    else throw (.crash .keyError)
  | none => return ([], [])

/-- One job's input for field `f`: the element of the split list, or the (routed) upstream value. -/
def jobField (rs : Ress) (nd : Node) (idx sd : Dict Key) (f : Fld) : M Val :=
  match sd.get? (nd.name, f) with
  | some i =>
    match nd.src f with
    | .lst vs => match vs[i]? with
      | some v => .ok v
      | none => .error (.crash .indexError)
    | _ => .error (.malformed "split-field-not-a-list")
  | none => resolveField rs nd f (idx.get? (nd.name, f))

def jobOut (rs : Ress) (nd : Node) (job : Dict Key × Dict Key) : M Val := do
  return nd.encode (← jobField rs nd job.1 job.2 .x) (← jobField rs nd job.1 job.2 .y) (← jobField rs nd job.1 job.2 .z)
    (← jobField rs nd job.1 job.2 .u) (← jobField rs nd job.1 job.2 .v)

/-- `NodeExecution.start` for a node with a state: `prepare_states`, `prepare_inputs`, `_split_task`. -/
def runStateful (nodes : List Node) (sts : Sts) (rs : Ress) (nd : Node) (s : St) : M (Sts × RunRes) := do
  let size := sizeOf nodes
  let s ← setInputGroups sts s
  let sts := sts.set nd.name (some s)
  -- prepare_states_ind: product of the upstream final enumerations and the own enumeration
  let rus := s.prev.map rs.get
  let own ← ownEnum size s.cur
  let blocks := rus.map (·.indFinal) ++ ownBlock own
  let keys := rus.flatMap (·.keysFinal) ++ ownKeyList own
  let indL := (cart blocks).map flattenL
  let statesInd := indL.map (mkDict keys)
  let (indFinal, keysFinal, statesIndFinal) ←
    if s.comb.isEmpty then pure (indL, keys, statesInd)
    else do
      let (e, k) ← combinedInd size sts s statesInd
      pure (e, k, e.map (mkDict k))
  -- prepare_inputs
  let prevs := s.prev.map fun u => ((rs.get u).statesIndFinal.length, (assocGet s.other u).getD [])
  let inputsInd := inputsIndOf nd.name prevs own
  -- _split_task: zip(inputs_ind, states_val)
  let outs ← (List.zip inputsInd statesInd).mapM (jobOut rs nd)
  return (sts, { hasState := true, outs := outs, statesInd := statesInd, statesIndFinal := statesIndFinal,
                 indFinal := indFinal, keysFinal := keysFinal, comb := !s.comb.isEmpty })

/-- `NodeExecution.start` for one node. -/
def runNode (nodes : List Node) (sts : Sts) (rs : Ress) (nd : Node) : M (Sts × RunRes) :=
  match sts.get nd.name with
  | none => do
    let vx ← resolveField rs nd .x none
    let vy ← resolveField rs nd .y none
    let vz ← resolveField rs nd .z none
    let vu ← resolveField rs nd .u none
    let vv ← resolveField rs nd .v none
    return (sts, { hasState := false, outs := [nd.encode vx vy vz vu vv] })
  | some s => runStateful nodes sts rs nd s

/-- Every node's outcome, computed in construction order: its result, or the exception its start raises; a node behind a
    failed one is never started (`blocked`).  State objects and results are threaded through the nodes that did start. -/
structure Outcomes where
  sts : Sts
  rs : Ress := []
  failed : List (Name × Err) := []     -- nodes whose start raised, with the exception
  blocked : List Name := []            -- nodes that could not start

def runAll (nodes : List Node) : List Node → Outcomes → Outcomes
  | [], o => o
  | nd :: rest, o =>
    if nd.lazyUps.any fun (_, u) => (o.failed.any fun e => e.1 == u) || o.blocked.contains u then
      runAll nodes rest { o with blocked := o.blocked ++ [nd.name] }
    else
      match runNode nodes o.sts o.rs nd with
      | .ok (sts, r) => runAll nodes rest { o with sts := sts, rs := o.rs ++ [(nd.name, r)] }
      | .error e => runAll nodes rest { o with failed := o.failed ++ [(nd.name, e)] }

structure Result where
  outs : List Val
  jobs : List (Name × Nat)
  jobOuts : List (Name × List Val) := []
  deriving Inhabited

/-- Depth level of every node (`DiGraph.sorting`: roots first, then the nodes all of whose predecessors are sorted, …). -/
def levels (nodes : List Node) : List (Name × Nat) :=
  nodes.foldl (init := []) fun acc nd =>
    let l := nd.lazyUps.foldl (init := 0) fun m (_, u) => max m ((assocGet acc u).getD 0 + 1)
    acc ++ [(nd.name, l)]

/-- The order in which the submitter starts the nodes: by level, construction order within a level
    (`Submitter.get_runnable_tasks` walks `graph.sorted_nodes` and starts a node once all its predecessors are done).
    Only the identity of the first failing node depends on it. -/
def startOrder (nodes : List Node) : List Node :=
  let lv := levels nodes
  (List.range (nodes.length + 1)).flatMap fun l => nodes.filter fun nd => (assocGet lv nd.name).getD 0 == l

/-- The exception that surfaces: that of the first node, in start order, whose start raised. -/
def firstFailure (order : List Node) (failed : List (Name × Err)) : Option Err :=
  match order with
  | [] => none
  | nd :: rest =>
    match assocGet failed nd.name with
    | some e => some e
    | none => firstFailure rest failed

def run (w : Wf) : M Result := do
  let sts ← constructPass [] w.nodes
  let sts ← graphPass sts w.nodes
  let o := runAll w.nodes w.nodes { sts := sts }
  match firstFailure (startOrder w.nodes) o.failed with
  | some e => throw e
  | none =>
    let outs ← w.outs.mapM fun n => getValue (o.rs.get n) none
    return { outs := outs, jobs := o.rs.map fun (n, r) => (n, r.outs.length), jobOuts := o.rs.map fun (n, r) => (n, r.outs) }

end PydraModel.WfState.Model
