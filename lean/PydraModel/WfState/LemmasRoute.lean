import PydraModel.WfState.Lemmas
import PydraModel.WfState.Model
import PydraModel.WfState.Spec
/-
Helper lemmas tying the mixed-radix theorem to the model's `inputs_ind` dictionaries (`Model.inputsIndOf`).
-/
namespace PydraModel.WfState
open Model

/-! ### dictionaries -/

theorem Dict.get?_set {κ : Type} [DecidableEq κ] (d : Dict κ) (k q : κ) (v : Nat) :
    (Dict.set d k v).get? q = if k = q then some v else d.get? q := by
  induction d with
  | nil => simp [Dict.set, Dict.get?]
  | cons e d ih =>
    obtain ⟨k', v'⟩ := e
    simp only [Dict.set]
    by_cases h1 : k' = k
    · subst h1
      by_cases h2 : k' = q <;> simp [Dict.get?, h2]
    · by_cases h2 : k' = q
      · subst h2
        have : ¬ k = k' := fun h => h1 h.symm
        simp [Dict.get?, h1, this]
      · simp [Dict.get?, h1, h2, ih]

theorem mkDictAux_get?_not_mem {κ : Type} [DecidableEq κ] (acc : Dict κ) (ks : List κ) (vs : List Nat) (q : κ)
    (h : q ∉ ks) : (mkDictAux acc ks vs).get? q = acc.get? q := by
  induction ks generalizing acc vs with
  | nil => cases vs <;> rfl
  | cons k ks ih =>
    cases vs with
    | nil => rfl
    | cons v vs =>
      simp only [mkDictAux]
      rw [ih _ _ (fun hm => h (List.mem_cons_of_mem _ hm)), Dict.get?_set]
      have : ¬ k = q := fun e => h (e ▸ List.mem_cons_self)
      simp [this]

/-- `dict(zip(keys, vals))[keys[m]] = vals[m]` when the key is not repeated later. -/
theorem mkDictAux_get?_getElem {κ : Type} [DecidableEq κ] (acc : Dict κ) (ks : List κ) (vs : List Nat) (m : Nat)
    (hm : m < ks.length) (hv : m < vs.length) (hnd : ks[m] ∉ ks.drop (m + 1)) :
    (mkDictAux acc ks vs).get? ks[m] = some vs[m] := by
  induction ks generalizing acc vs m with
  | nil => simp at hm
  | cons k ks ih =>
    cases vs with
    | nil => simp at hv
    | cons v vs =>
      simp only [mkDictAux]
      cases m with
      | zero =>
        simp only [List.getElem_cons_zero]
        simp only [Nat.zero_add, List.drop_succ_cons, List.drop_zero, List.getElem_cons_zero] at hnd
        rw [mkDictAux_get?_not_mem _ _ _ _ hnd, Dict.get?_set]
        simp
      | succ m =>
        simp only [List.getElem_cons_succ]
        exact ih _ vs m (by simpa using hm) (by simpa using hv) (by simpa using hnd)

theorem mkDict_get?_append {κ : Type} [DecidableEq κ] (ka kb : List κ) (va vb : List Nat) (m : Nat)
    (hl : ka.length = va.length) (hm : m < ka.length) (hnd : ka.Nodup) (hdis : ka[m] ∉ kb) :
    (mkDict (ka ++ kb) (va ++ vb)).get? ka[m] = some (va[m]'(hl ▸ hm)) := by
  unfold mkDict
  have h1 : m < (ka ++ kb).length := by simp; omega
  have h2 : m < (va ++ vb).length := by simp; omega
  have e1 : (ka ++ kb)[m] = ka[m] := List.getElem_append_left hm
  have e2 : (va ++ vb)[m] = va[m]'(hl ▸ hm) := List.getElem_append_left (hl ▸ hm)
  have := mkDictAux_get?_getElem [] (ka ++ kb) (va ++ vb) m h1 h2 (by
    rw [e1]
    intro hmem
    rw [List.drop_append] at hmem
    rcases List.mem_append.mp hmem with hmem | hmem
    · -- ka nodup: ka[m] not in ka.drop (m+1)
      have hsplit : ka = ka.take (m + 1) ++ ka.drop (m + 1) := (List.take_append_drop _ _).symm
      rw [hsplit] at hnd
      have hd := (List.nodup_append.mp hnd).2.2
      exact hd ka[m] (by rw [List.mem_take_iff_getElem]; exact ⟨m, by omega, rfl⟩) ka[m] hmem rfl
    · exact hdis (List.mem_of_mem_drop hmem))
  rw [e1, e2] at this
  exact this

/-! ### index blocks of `prepare_inputs` -/

def idxBlock (n : Nat) : List (List Nat) := (List.range n).map ([·])

theorem length_idxBlock (n : Nat) : (idxBlock n).length = n := by simp [idxBlock]

/-- With one connected field per previous state, every block of `prepare_inputs` is `[[0], [1], …]`. -/
theorem prevBlocks_single (first : Bool) (ns : List Nat) (fs : List Fld) (h : fs.length = ns.length) :
    prevBlocks first (List.zipWith (fun n f => (n, [f])) ns fs) = ns.map idxBlock := by
  induction ns generalizing fs first with
  | nil => cases fs <;> simp_all [prevBlocks]
  | cons n ns ih =>
    cases fs with
    | nil => simp at h
    | cons f fs =>
      simp only [List.zipWith_cons_cons, prevBlocks, List.map_cons]
      rw [ih false fs (by simpa using h)]
      congr 1
      unfold idxBlock
      apply List.map_congr_left
      intro i _
      cases first <;> simp

theorem prevKeys_single (name : Name) (ns : List Nat) (fs : List Fld) (h : fs.length = ns.length) :
    prevKeys name (List.zipWith (fun n f => (n, [f])) ns fs) = fs.map fun f => (name, f) := by
  induction ns generalizing fs with
  | nil => cases fs <;> simp_all [prevKeys]
  | cons n ns ih =>
    cases fs with
    | nil => simp at h
    | cons f fs =>
      simp only [List.zipWith_cons_cons, prevKeys, List.map_cons, List.map_nil, List.cons_append, List.nil_append]
      rw [ih fs (by simpa using h)]

theorem pick_idxBlocks (ns ds : List Nat) (hl : ds.length = ns.length)
    (h : ∀ i (hi : i < ds.length), ds[i] < ns[i]'(hl ▸ hi)) : pick (ns.map idxBlock) ds = ds.map ([·]) := by
  induction ns generalizing ds with
  | nil =>
    cases ds with
    | nil => rfl
    | cons d ds => simp at hl
  | cons n ns ih =>
    cases ds with
    | nil => simp at hl
    | cons d ds =>
      simp only [List.map_cons, pick]
      have h0 := h 0 (by simp)
      simp only [List.getElem_cons_zero] at h0
      congr 1
      · unfold idxBlock
        rw [List.getD_eq_getElem?_getD, List.getElem?_map, List.getElem?_range h0]; rfl
      · apply ih ds (by simpa using hl)
        intro i hi
        have := h (i + 1) (by simp; omega)
        simpa using this

theorem pick_append {α : Type} [Inhabited α] (A B : List (List α)) (da db : List Nat) (h : da.length = A.length) :
    pick (A ++ B) (da ++ db) = pick A da ++ pick B db := by
  induction A generalizing da with
  | nil =>
    cases da with
    | nil => rfl
    | cons d da => simp at h
  | cons a A ih =>
    cases da with
    | nil => simp at h
    | cons d da =>
      simp only [List.cons_append, pick]
      rw [ih da (by simpa using h)]

theorem flattenL_append {α : Type} (a b : List (List α)) : flattenL (a ++ b) = flattenL a ++ flattenL b := by
  induction a with
  | nil => rfl
  | cons x a ih => simp [flattenL, List.foldr_cons] at ih ⊢; rw [ih]

theorem flattenL_singletons (ds : List Nat) : flattenL (ds.map ([·])) = ds := by
  induction ds with
  | nil => rfl
  | cons d ds ih => simp [flattenL] at ih ⊢; exact ih

/-- Number of points contributed by the node's own splitter (1 when it has none). -/
def ownLen : Option (List (List Nat) × List Key) → Nat
  | some (e, _) => e.length
  | none => 1

theorem route_core (name : Name) (ns : List Nat) (fs : List Fld) (hlen : fs.length = ns.length)
    (hnd : fs.Nodup) (T : List (List (List Nat))) (kT : List Key) (hkdis : ∀ f ∈ fs, (name, f) ∉ kT)
    (j : Nat) (hj : j < prodL ns * prodL (T.map List.length)) (m : Nat) (hm : m < fs.length) :
    ((((cart (ns.map idxBlock ++ T)).map fun t => mkDict ((fs.map fun f => (name, f)) ++ kT) (flattenL t))[j]?).bind
        fun d => d.get? (name, fs[m]))
      = some ((decode ns (j / prodL (T.map List.length)))[m]'(by rw [decode_length]; omega)) := by
  have hlens : (ns.map idxBlock ++ T).map List.length = ns ++ T.map List.length := by
    simp [List.map_append, List.map_map, Function.comp_def, length_idxBlock]
  have hjj' : j < prodL (ns ++ T.map List.length) := by rw [prodL_append]; exact hj
  have hjj : j < prodL ((ns.map idxBlock ++ T).map List.length) := by rw [hlens]; exact hjj'
  rw [List.getElem?_map, cart_getElem? _ j hjj, hlens]
  rw [decode_append ns _ j hjj']
  have hpos : 0 < prodL (T.map List.length) := by
    rcases Nat.eq_zero_or_pos (prodL (T.map List.length)) with h0 | h0
    · rw [h0] at hj; simp at hj
    · exact h0
  have hq : j / prodL (T.map List.length) < prodL ns := Nat.div_lt_of_lt_mul (by rw [Nat.mul_comm]; exact hj)
  rw [pick_append _ _ _ _ (by rw [decode_length]; simp)]
  rw [pick_idxBlocks ns _ (decode_length ns _) (decode_lt ns _ hq)]
  simp only [Option.map_some, Option.bind_some, flattenL_append, flattenL_singletons]
  have hm' : m < (fs.map fun f => (name, f)).length := by simpa using hm
  have key := mkDict_get?_append (fs.map fun f => (name, f)) kT (decode ns (j / prodL (T.map List.length)))
    (flattenL (pick T (decode (T.map List.length) (j % prodL (T.map List.length))))) m
    (by rw [decode_length]; simp [hlen]) hm'
    (List.Pairwise.map _ (fun a b hab h => hab (Prod.mk.inj h).2) hnd)
    (by simp only [List.getElem_map]; exact hkdis _ (List.getElem_mem hm))
  simp only [List.getElem_map] at key
  exact key

/-- THE MODEL'S ROUTING: with one connected field per previous state, the dictionary of job `j` maps the field
    connected to previous state `m` to digit `m` of `j / ownLen` over the radices `ns` (numbers of final states). -/
theorem inputsIndOf_single_get (name : Name) (ns : List Nat) (fs : List Fld) (hlen : fs.length = ns.length)
    (hnd : fs.Nodup) (own : Option (List (List Nat) × List Key))
    (hown : ∀ e k, own = some (e, k) → ∀ f ∈ fs, (name, f) ∉ k)
    (j : Nat) (hj : j < prodL ns * ownLen own) (m : Nat) (hm : m < fs.length) :
    ((inputsIndOf name (List.zipWith (fun n f => (n, [f])) ns fs) own)[j]?).bind (fun d => d.get? (name, fs[m]))
      = some ((decode ns (j / ownLen own))[m]'(by rw [decode_length]; omega)) := by
  have hne : ∀ T : List (List (List Nat)), (ns.map idxBlock ++ T).isEmpty = false := by
    intro T
    cases ns with
    | nil => rw [List.length_nil] at hlen; omega
    | cons n ns => rfl
  unfold inputsIndOf
  rw [prevBlocks_single true ns fs hlen, prevKeys_single name ns fs hlen]
  cases own with
  | none =>
    simp only [hne, Bool.false_eq_true, if_false]
    have := route_core name ns fs hlen hnd [] [] (by simp) j (by simpa [prodL, ownLen] using hj) m hm
    simpa [prodL, ownLen, ownBlock, ownKeyList] using this
  | some p =>
    obtain ⟨e, k⟩ := p
    simp only [hne, Bool.false_eq_true, if_false]
    have := route_core name ns fs hlen hnd [e] k (hown e k rfl) j (by simpa [prodL, ownLen] using hj) m hm
    simpa [prodL, ownLen, ownBlock, ownKeyList] using this

/-! ### the spec's coordinate lookup -/

theorem splitBlocks_append {α : Type} (lens : List Nat) (a b : List α) (h : lens.sum ≤ a.length) :
    splitBlocks lens (a ++ b) = splitBlocks lens a := by
  induction lens generalizing a with
  | nil => rfl
  | cons n lens ih =>
    simp only [List.sum_cons] at h
    simp only [splitBlocks]
    rw [List.take_append_of_le_length (by omega), List.drop_append]
    have : n - a.length = 0 := by omega
    rw [this, List.drop_zero, ih _ (by simp; omega)]

open Spec in
theorem coordOf_append_left (a b : List Key) (ca cb : List Nat) (k : Key) (hl : a.length = ca.length) (hk : k ∈ a) :
    coordOf (a ++ b) (ca ++ cb) k = coordOf a ca k := by
  induction a generalizing ca with
  | nil => simp at hk
  | cons x a ih =>
    cases ca with
    | nil => simp at hl
    | cons c ca =>
      simp only [List.cons_append, coordOf]
      by_cases hx : x = k
      · simp [hx]
      · simp only [hx, if_false]
        exact ih ca (by simpa using hl) (by
          rcases List.mem_cons.mp hk with h | h
          · exact absurd h.symm hx
          · exact h)

open Spec in
theorem coordOf_append_right (a b : List Key) (ca cb : List Nat) (k : Key) (hl : a.length = ca.length) (hk : k ∉ a) :
    coordOf (a ++ b) (ca ++ cb) k = coordOf b cb k := by
  induction a generalizing ca with
  | nil =>
    cases ca with
    | nil => rfl
    | cons c ca => simp at hl
  | cons x a ih =>
    cases ca with
    | nil => simp at hl
    | cons c ca =>
      simp only [List.cons_append, coordOf]
      have hx : ¬ x = k := fun e => hk (e ▸ List.mem_cons_self)
      simp only [hx, if_false]
      exact ih ca (by simpa using hl) (fun hm => hk (List.mem_cons_of_mem _ hm))

open Spec in
/-- Looking up all keys of a duplicate-free axis list at a point returns the point. -/
theorem coordOf_self (a : List Key) (ca : List Nat) (hl : a.length = ca.length) (hnd : a.Nodup) :
    a.map (coordOf a ca) = ca := by
  induction a generalizing ca with
  | nil =>
    cases ca with
    | nil => rfl
    | cons c ca => simp at hl
  | cons x a ih =>
    cases ca with
    | nil => simp at hl
    | cons c ca =>
      have hx : x ∉ a := (List.nodup_cons.mp hnd).1
      simp only [List.map_cons, coordOf, if_true]
      congr 1
      rw [← ih ca (by simpa using hl) (List.nodup_cons.mp hnd).2]
      apply List.map_congr_left
      intro k hk
      have : ¬ x = k := fun e => hx (e ▸ hk)
      simp only [this, if_false]
      rw [ih ca (by simpa using hl) (List.nodup_cons.mp hnd).2]

open Spec in
/-- COORDINATE RESTRICTION: when the axes of the upstreams are pairwise disjoint (the concatenation has no duplicate),
    looking up upstream `m`'s axes at a point of the merged axes returns block `m` of the point. -/
theorem coordOf_block (kss : List (List Key)) (rest : List Key) (c : List Nat)
    (hl : c.length = (kss.flatten ++ rest).length) (hnd : (kss.flatten ++ rest).Nodup)
    (m : Nat) (hm : m < kss.length) :
    kss[m].map (coordOf (kss.flatten ++ rest) c) = (splitBlocks (kss.map List.length) c).getD m [] := by
  induction kss generalizing c m with
  | nil => simp at hm
  | cons K kss ih =>
    -- split the point into the part for K and the remainder
    have hc : c = c.take K.length ++ c.drop K.length := (List.take_append_drop _ _).symm
    have hlK : K.length = (c.take K.length).length := by
      simp only [List.flatten_cons, List.length_append] at hl
      rw [List.length_take]; omega
    simp only [List.flatten_cons, List.append_assoc] at hnd hl ⊢
    have hndK : K.Nodup := (List.nodup_append.mp hnd).1
    have hndR : (kss.flatten ++ rest).Nodup := (List.nodup_append.mp hnd).2.1
    have hdisj := (List.nodup_append.mp hnd).2.2
    cases m with
    | zero =>
      simp only [List.getElem_cons_zero, List.map_cons, splitBlocks, List.getD_cons_zero]
      rw [hc]
      have : K.map (coordOf (K ++ (kss.flatten ++ rest)) (c.take K.length ++ c.drop K.length))
           = K.map (coordOf K (c.take K.length)) := by
        apply List.map_congr_left
        intro k hk
        exact coordOf_append_left K _ _ _ k hlK hk
      rw [this, coordOf_self K _ hlK hndK]
      simp
    | succ m =>
      simp only [List.getElem_cons_succ, List.map_cons, splitBlocks, List.getD_cons_succ]
      have hmm : m < kss.length := by simpa using hm
      rw [← ih (c.drop K.length) (by simp [List.length_drop]; simp at hl; omega) hndR m hmm]
      apply List.map_congr_left
      intro k hk
      have hkR : k ∈ kss.flatten ++ rest :=
        List.mem_append_left _ (List.mem_flatten.mpr ⟨kss[m], List.getElem_mem hmm, hk⟩)
      have hkK : k ∉ K := fun h => hdisj k h k hkR rfl
      conv => lhs; rw [hc]
      exact coordOf_append_right K _ _ _ k hlK hkK

end PydraModel.WfState

namespace PydraModel.WfState
open Spec

/-! ### combiner grouping: dictionary inclusion = coordinate restriction -/

theorem Dict.set_append_new {κ : Type} [DecidableEq κ] (d : Dict κ) (k : κ) (v : Nat) (h : ∀ e ∈ d, e.1 ≠ k) :
    Dict.set d k v = d ++ [(k, v)] := by
  induction d with
  | nil => rfl
  | cons e d ih =>
    obtain ⟨k', v'⟩ := e
    have hk : ¬ k' = k := h (k', v') (by simp)
    simp only [Dict.set, hk, if_false, List.cons_append]
    rw [ih (fun e he => h e (List.mem_cons_of_mem _ he))]

/-- With duplicate-free keys, `dict(zip(keys, vals))` is the zipped list itself. -/
theorem mkDictAux_nodup {κ : Type} [DecidableEq κ] (acc : Dict κ) (ks : List κ) (vs : List Nat)
    (hnd : ks.Nodup) (hdis : ∀ e ∈ acc, e.1 ∉ ks) : mkDictAux acc ks vs = acc ++ List.zip ks vs := by
  induction ks generalizing acc vs with
  | nil => cases vs <;> simp [mkDictAux]
  | cons k ks ih =>
    cases vs with
    | nil => simp [mkDictAux]
    | cons v vs =>
      simp only [mkDictAux, List.zip_cons_cons]
      have hk : ∀ e ∈ acc, e.1 ≠ k := fun e he hek => hdis e he (hek ▸ List.mem_cons_self)
      rw [Dict.set_append_new acc k v hk, ih _ vs (List.nodup_cons.mp hnd).2]
      · simp
      · intro e he
        rcases List.mem_append.mp he with he | he
        · exact fun hm => hdis e he (List.mem_cons_of_mem _ hm)
        · simp only [List.mem_singleton] at he
          subst he
          exact (List.nodup_cons.mp hnd).1

theorem mkDict_nodup {κ : Type} [DecidableEq κ] (ks : List κ) (vs : List Nat) (hnd : ks.Nodup) :
    mkDict ks vs = List.zip ks vs := by
  unfold mkDict
  rw [mkDictAux_nodup [] ks vs hnd (by simp)]
  rfl

/-- Reading key `k` of the dictionary of a job = the job's coordinate on axis `k`. -/
theorem mkDict_get?_coordOf (keys : List Key) (c : List Nat) (hl : keys.length = c.length) (hnd : keys.Nodup)
    (k : Key) (hk : k ∈ keys) : (mkDict keys c).get? k = some (coordOf keys c k) := by
  rw [mkDict_nodup keys c hnd]
  induction keys generalizing c with
  | nil => simp at hk
  | cons a keys ih =>
    cases c with
    | nil => simp at hl
    | cons x c =>
      simp only [List.zip_cons_cons, Dict.get?, coordOf]
      by_cases ha : a = k
      · simp [ha]
      · simp only [ha, if_false]
        exact ih c (by simpa using hl) (List.nodup_cons.mp hnd).2 (by
          rcases List.mem_cons.mp hk with h | h
          · exact absurd h.symm ha
          · exact h)

/-- COMBINER GROUPING.  The code selects the jobs of a group by dictionary inclusion
    (`set(states_ind[j].items()) ⊇ set(states_ind_final[i].items())`, `LazyOutField._get_value.group_values`); the
    reference selects them by restricting the job's coordinates to the remaining axes.  With duplicate-free keys (no
    shared origin) the two tests coincide, for every job and every group. -/
theorem C03_group_test (keys keysF : List Key) (c fc : List Nat)
    (hl : keys.length = c.length) (hlF : keysF.length = fc.length)
    (hnd : keys.Nodup) (hndF : keysF.Nodup) (hsub : ∀ k ∈ keysF, k ∈ keys) :
    Dict.subset (mkDict keysF fc) (mkDict keys c) = (keysF.map (coordOf keys c) == fc) := by
  rw [mkDict_nodup keysF fc hndF]
  unfold Dict.subset
  induction keysF generalizing fc with
  | nil =>
    cases fc with
    | nil => rfl
    | cons x fc => simp at hlF
  | cons k keysF ih =>
    cases fc with
    | nil => simp at hlF
    | cons x fc =>
      have hk := mkDict_get?_coordOf keys c hl hnd k (hsub k (by simp))
      simp only [List.zip_cons_cons, List.all_cons, List.map_cons, hk]
      rw [ih fc (by simpa using hlF) (List.nodup_cons.mp hndF).2 (fun k' hk' => hsub k' (List.mem_cons_of_mem _ hk'))]
      simp only [List.cons_beq_cons, Option.some_beq_some]

end PydraModel.WfState

namespace PydraModel.WfState
open Model

/-- Fan-in from disjoint origins, node level (restated as `C03_fanin_disjoint` in Props/C03.lean). -/
theorem fanin_disjoint (name : Name) (ups : List (List (Key × Nat))) (fs : List Fld)
    (ownAxes : List (Key × Nat)) (own : Option (List (List Nat) × List Key))
    (hlen : fs.length = ups.length) (hfs : fs.Nodup)
    (hdisj : ((ups.map (·.map (·.1))).flatten ++ ownAxes.map (·.1)).Nodup)
    (hown : ownLen own = prodL (ownAxes.map (·.2)))
    (hk : ∀ e k, own = some (e, k) → ∀ f ∈ fs, (name, f) ∉ k)
    (j : Nat) (hj : j < prodL ((ups.flatten ++ ownAxes).map (·.2))) (m : Nat) (hm : m < ups.length) :
    ((inputsIndOf name (List.zipWith (fun a f => (prodL (a.map (·.2)), [f])) ups fs) own)[j]?).bind
        (fun d => d.get? (name, fs[m]'(hlen ▸ hm)))
      = ((rowMajor ((ups.flatten ++ ownAxes).map (·.2)))[j]?).map fun c =>
          encode (ups[m].map (·.2)) (ups[m].map fun a => Spec.coordOf ((ups.flatten ++ ownAxes).map (·.1)) c a.1) := by
  -- notation
  let ss : List (List Nat) := ups.map (·.map (·.2))
  let kss : List (List Key) := ups.map (·.map (·.1))
  let oS : List Nat := ownAxes.map (·.2)
  have hsizes : (ups.flatten ++ ownAxes).map (·.2) = ss.flatten ++ oS := by
    simp [ss, oS, List.map_append, List.map_flatten]
  have hkeys : (ups.flatten ++ ownAxes).map (·.1) = kss.flatten ++ ownAxes.map (·.1) := by
    simp [kss, List.map_append, List.map_flatten]
  have hlens : kss.map List.length = ss.map List.length := by
    simp [kss, ss, List.map_map, Function.comp_def]
  have hj' : j < prodL (ss.flatten ++ oS) := by rw [← hsizes]; exact hj
  have hjm : j < prodL (ss.map prodL) * ownLen own := by
    rw [hown, prodL_flatten, ← prodL_append]; exact hj'
  have hpos : 0 < prodL oS := by
    rcases Nat.eq_zero_or_pos (prodL oS) with h0 | h0
    · rw [prodL_append, h0] at hj'; simp at hj'
    · exact h0
  have hq : j / prodL oS < prodL ss.flatten :=
    Nat.div_lt_of_lt_mul (by rw [Nat.mul_comm, ← prodL_append]; exact hj')
  -- model side
  have hz : List.zipWith (fun a f => (prodL (a.map (·.2)), [f])) ups fs
          = List.zipWith (fun n f => (n, [f])) (ss.map prodL) fs := by
    simp [ss, List.zipWith_map_left, List.map_map]
  have hmf : m < fs.length := hlen ▸ hm
  have hlen' : fs.length = (ss.map prodL).length := by simp [ss, hlen]
  rw [hz, inputsIndOf_single_get name (ss.map prodL) fs hlen' hfs own hk j hjm m hmf]
  -- spec side
  rw [hsizes, rowMajor_getElem? _ j hj', Option.map_some, hkeys]
  congr 1
  have hcl : (decode (ss.flatten ++ oS) j).length = (kss.flatten ++ ownAxes.map (·.1)).length := by
    rw [decode_length]
    simp [kss, ss, oS, List.length_flatten, List.map_map, Function.comp_def]
  have hkm : m < kss.length := by simpa [kss] using hm
  have hblock := coordOf_block kss (ownAxes.map (·.1)) (decode (ss.flatten ++ oS) j) hcl hdisj m hkm
  have e1 : (ups[m].map fun a => Spec.coordOf (kss.flatten ++ ownAxes.map (·.1)) (decode (ss.flatten ++ oS) j) a.1)
          = kss[m].map (Spec.coordOf (kss.flatten ++ ownAxes.map (·.1)) (decode (ss.flatten ++ oS) j)) := by
    simp [kss, List.map_map, Function.comp_def]
  rw [e1, hblock, hlens, decode_append _ _ _ hj']
  rw [splitBlocks_append _ _ _ (by rw [decode_length, List.length_flatten]; exact Nat.le_refl _)]
  -- the mixed-radix theorem
  have hr := decode_blocks ss (j / prodL oS) hq
  have hml : m < (List.zipWith encode ss (splitBlocks (ss.map List.length) (decode ss.flatten (j / prodL oS)))).length := by
    rw [hr, decode_length]; simp [ss]; exact hm
  have hsb : m < (splitBlocks (ss.map List.length) (decode ss.flatten (j / prodL oS))).length := by
    rw [List.length_zipWith] at hml; omega
  have := congrArg (fun l => l[m]?) hr
  simp only [List.getElem?_eq_getElem hml, List.getElem_zipWith] at this
  rw [List.getElem?_eq_getElem (by rw [decode_length]; simp [ss]; exact hm)] at this
  have h3 := Option.some.inj this
  rw [List.getD_eq_getElem?_getD, List.getElem?_eq_getElem hsb, Option.getD_some]
  have hs : ss[m]'(by simp [ss]; exact hm) = ups[m].map (·.2) := by simp [ss]
  rw [hs] at h3
  rw [h3, hown]


end PydraModel.WfState
