/-
Engine `WfState` (DESIGN §5.2, property C03): shared definitions of the workflow-state model and spec.

A workflow is a list of nodes in construction order.  Every node is the task `Enc5(tag, x, y, z, u, v) -> [tag, x, y, z, u, v]`
(its output encodes its inputs, so routing is visible in the outputs).  Node names are positions (`Nat`), fields an
enumeration: everything below is kernel-evaluable (`decide +kernel`) and free of `String` comparisons.

Self-contained on purpose (the single-task splitter algebra `StateAlg` is a separate engine): this file has its own
small definitions of axes, outer product (`cart`), mixed-radix `encode`/`decode`.
-/
namespace PydraModel.WfState

/-- Node name = position in the workflow's node list. -/
abbrev Name := Nat

/-- Input fields of the encoder task, in the task's field order. -/
inductive Fld | x | y | z | u | v
  deriving DecidableEq, Repr, Inhabited

def Fld.all : List Fld := [.x, .y, .z, .u, .v]

/-- A dotted state key `"<node>.<field>"` (pydra: `f"{name}.{field}"`). -/
abbrev Key := Name × Fld

/-- JSON-like values flowing through the workflow. -/
inductive Val
  | null
  | int (i : Int)
  | str (s : String)
  | tag (n : Name)          -- the encoder's first output component: the node's name
  | list (l : List Val)
  deriving Repr, Inhabited

/-- Where a node's input field comes from. -/
inductive Src
  | none                         -- field left at its default (`None`)
  | const (v : Val)              -- literal, or a workflow input carrying a constant
  | lst (vs : List Val)          -- literal list (or workflow input): split over iff the field is in `split`
  | up (n : Name)                -- `out` of an earlier node
  deriving Repr, Inhabited

/-- The node's own splitter over its own fields. -/
inductive Split
  | no
  | single (f : Fld)             -- `.split("f", f=[…])`
  | outer (f g : Fld)            -- `.split(["f","g"], …)`
  | inner (f g : Fld)            -- `.split(("f","g"), …)`
  deriving DecidableEq, Repr, Inhabited

structure Node where
  name : Name
  x : Src
  y : Src
  z : Src
  split : Split
  comb : List Key                -- combiner, dotted names (own fields dotted with the node's own name)
  nested : Bool := false         -- the node is itself a workflow (`ia = Enc5(tag, x, y, z, u, v); ib = Enc5(tag, ia.out)`)
  /-- `State.current_combiner`: the combiner keys pydra treats as the node's *own* — those whose dotted string CONTAINS the
      node's name (`self.name in comb`, a substring test).  `none` = exactly the keys of the node itself (what it is whenever
      no node name is a substring of another node's dotted key); the driver computes it from the real strings. -/
  ownCombOverride : Option (List Key) := none
  u : Src := .none               -- fourth and fifth input field (fan-ins of more than three upstream nodes)
  v : Src := .none
  deriving Repr, Inhabited

/-- The combiner keys classified as "current" by `State.current_combiner`. -/
def Node.ownComb (nd : Node) : List Key :=
  match nd.ownCombOverride with
  | some l => l
  | none => nd.comb.filter fun c => c.1 == nd.name

def Node.src (nd : Node) : Fld → Src
  | .x => nd.x
  | .y => nd.y
  | .z => nd.z
  | .u => nd.u
  | .v => nd.v

/-- What one job of the node returns: the encoder's `[tag, x, y, z, u, v]`; a nested-workflow node wraps it once more. -/
def Node.encode (nd : Node) (vx vy vz vu vv : Val) : Val :=
  if nd.nested then .list [.tag nd.name, .list [.tag nd.name, vx, vy, vz, vu, vv], .null, .null, .null, .null]
  else .list [.tag nd.name, vx, vy, vz, vu, vv]

structure Wf where
  nodes : List Node
  outs : List Name               -- workflow outputs: `out` of these nodes
  deriving Repr, Inhabited

/-- Fields of a split, in splitter order. -/
def Split.fields : Split → List Fld
  | .no => []
  | .single f => [f]
  | .outer f g => [f, g]
  | .inner f g => [f, g]

/-- Lazy connections of a node in the task's field order (`attrs_values` order): `(field, upstream)`. -/
def Node.lazyUps (nd : Node) : List (Fld × Name) :=
  Fld.all.filterMap fun f => match nd.src f with
    | .up u => some (f, u)
    | _ => Option.none

/-- Length of the list a field is split over (0 when the field is not a literal list). -/
def Node.lstLen (nd : Node) (f : Fld) : Nat :=
  match nd.src f with
  | .lst vs => vs.length
  | _ => 0

/-! ### Enumerations -/

/-- Row-major Cartesian product of a list of lists (`itertools.product(*blocks)`): left-most slowest. -/
def cart {α : Type} : List (List α) → List (List α)
  | [] => [[]]
  | b :: bs => b.flatMap fun a => (cart bs).map (a :: ·)

/-- All coordinate tuples of a product of axes with the given sizes, row-major. -/
def rowMajor (sizes : List Nat) : List (List Nat) := cart (sizes.map List.range)

def prodL : List Nat → Nat
  | [] => 1
  | s :: ss => s * prodL ss

/-- Mixed-radix value of a coordinate tuple (Horner): the position of `coords` in `rowMajor sizes`. -/
def encode : List Nat → List Nat → Nat
  | _ :: ss, c :: cs => c * prodL ss + encode ss cs
  | _, _ => 0

/-- Mixed-radix digits of `j` (div-mod decomposition), most significant first. -/
def decode : List Nat → Nat → List Nat
  | [], _ => []
  | _ :: ss, j => (j / prodL ss) :: decode ss (j % prodL ss)

/-- Association list used as a Python dict: assignment replaces the value and keeps the first insertion position. -/
abbrev Dict (κ : Type) := List (κ × Nat)

def Dict.set {κ : Type} [DecidableEq κ] (d : Dict κ) (k : κ) (v : Nat) : Dict κ :=
  match d with
  | [] => [(k, v)]
  | (k', v') :: r => if k' = k then (k', v) :: r else (k', v') :: Dict.set r k v

def Dict.get? {κ : Type} [DecidableEq κ] (d : Dict κ) (k : κ) : Option Nat :=
  match d with
  | [] => none
  | (k', v') :: r => if k' = k then some v' else Dict.get? r k

def mkDictAux {κ : Type} [DecidableEq κ] (acc : Dict κ) : List κ → List Nat → Dict κ
  | k :: ks, v :: vs => mkDictAux (Dict.set acc k v) ks vs
  | _, _ => acc

/-- `dict(zip(keys, vals))` (zip truncates; later duplicates overwrite, keeping the first position). -/
def mkDict {κ : Type} [DecidableEq κ] (keys : List κ) (vals : List Nat) : Dict κ := mkDictAux [] keys vals

/-- `set(big.items()) >= set(small.items())`. -/
def Dict.subset {κ : Type} [DecidableEq κ] (small big : Dict κ) : Bool :=
  small.all fun (k, v) => big.get? k == some v

end PydraModel.WfState
