import PydraModel.WfState.Basic
/-
Helper lemmas for C03: row-major Cartesian products and mixed-radix arithmetic (all by induction, unbounded).
-/
namespace PydraModel.WfState

theorem prodL_append (a b : List Nat) : prodL (a ++ b) = prodL a * prodL b := by
  induction a with
  | nil => simp [prodL]
  | cons s a ih => simp [prodL, ih, Nat.mul_assoc]

theorem prodL_flatten (ss : List (List Nat)) : prodL (ss.map prodL) = prodL ss.flatten := by
  induction ss with
  | nil => rfl
  | cons s ss ih => simp [prodL, prodL_append, ih]

theorem prodL_pos_of_lt {ss : List Nat} {j : Nat} (h : j < prodL ss) : 0 < prodL ss := by omega

theorem length_flatMap_const {α β : Type} (l : List α) (f : α → List β) (n : Nat)
    (hf : ∀ a, (f a).length = n) : (l.flatMap f).length = l.length * n := by
  induction l with
  | nil => simp
  | cons a l ih => simp [List.flatMap_cons, hf, ih, Nat.add_mul, Nat.add_comm]

/-- Number of points of a product = product of the block lengths. -/
theorem length_cart {α : Type} (bs : List (List α)) : (cart bs).length = prodL (bs.map List.length) := by
  induction bs with
  | nil => rfl
  | cons b bs ih =>
    simp only [cart, List.map_cons, prodL]
    rw [length_flatMap_const b _ (cart bs).length (by intro a; simp), ih]

/-- Element `j` of a `flatMap` whose pieces all have length `n`. -/
theorem getElem?_flatMap_const {α β : Type} (l : List α) (f : α → List β) (n : Nat)
    (hf : ∀ a, (f a).length = n) (hn : 0 < n) (j : Nat) :
    (l.flatMap f)[j]? = (l[j / n]?).bind fun a => (f a)[j % n]? := by
  induction l generalizing j with
  | nil => simp
  | cons a l ih =>
    rw [List.flatMap_cons]
    by_cases hj : j < n
    · rw [List.getElem?_append_left (by rw [hf]; exact hj)]
      have h0 : j / n = 0 := Nat.div_eq_of_lt hj
      have h1 : j % n = j := Nat.mod_eq_of_lt hj
      simp [h0, h1]
    · have hge : n ≤ j := Nat.le_of_not_lt hj
      rw [List.getElem?_append_right (by rw [hf]; exact hge), hf, ih (j - n)]
      rw [Nat.div_eq_sub_div hn hge, Nat.mod_eq_sub_mod hge]
      simp

theorem decode_length (ss : List Nat) (j : Nat) : (decode ss j).length = ss.length := by
  induction ss generalizing j with
  | nil => rfl
  | cons s ss ih => simp [decode, ih]

/-- Pick one element per block according to a digit list. -/
def pick {α : Type} [Inhabited α] : List (List α) → List Nat → List α
  | b :: bs, d :: ds => b.getD d default :: pick bs ds
  | _, _ => []

/-- KEY LEMMA: element `j` of the row-major product is, block by block, the element selected by the mixed-radix
    digits of `j` (radices = block lengths). -/
theorem cart_getElem? {α : Type} [Inhabited α] (bs : List (List α)) (j : Nat)
    (h : j < prodL (bs.map List.length)) :
    (cart bs)[j]? = some (pick bs (decode (bs.map List.length) j)) := by
  induction bs generalizing j with
  | nil =>
    have : j = 0 := by simp [prodL] at h; exact h
    subst this; rfl
  | cons b bs ih =>
    simp only [List.map_cons, prodL] at h
    have hn : (cart bs).length = prodL (bs.map List.length) := length_cart bs
    have hpos : 0 < prodL (bs.map List.length) := by
      rcases Nat.eq_zero_or_pos (prodL (bs.map List.length)) with h0 | h0
      · rw [h0] at h; simp at h
      · exact h0
    simp only [cart]
    rw [getElem?_flatMap_const b _ (prodL (bs.map List.length)) (by intro a; simp [hn]) hpos j]
    have hq : j / prodL (bs.map List.length) < b.length :=
      Nat.div_lt_of_lt_mul (by rw [Nat.mul_comm]; exact h)
    have hr : j % prodL (bs.map List.length) < prodL (bs.map List.length) := Nat.mod_lt _ hpos
    rw [List.getElem?_eq_getElem hq]
    simp only [Option.bind_some, List.getElem?_map, ih _ hr, Option.map_some, List.map_cons, decode, pick]
    congr 2
    rw [List.getD_eq_getElem?_getD, List.getElem?_eq_getElem hq]; rfl

theorem pick_range (sizes : List Nat) (ds : List Nat) (hl : ds.length = sizes.length)
    (h : ∀ i (hi : i < ds.length), ds[i] < sizes[i]'(hl ▸ hi)) : pick (sizes.map List.range) ds = ds := by
  induction sizes generalizing ds with
  | nil =>
    cases ds with
    | nil => rfl
    | cons d ds => simp at hl
  | cons s sizes ih =>
    cases ds with
    | nil => simp at hl
    | cons d ds =>
      simp only [List.map_cons, pick]
      have h0 := h 0 (by simp)
      simp only [List.getElem_cons_zero] at h0
      rw [List.getD_eq_getElem?_getD, List.getElem?_range h0]
      simp only [Option.getD_some]
      congr 1
      apply ih ds (by simpa using hl)
      intro i hi
      have := h (i + 1) (by simp; omega)
      simpa using this

/-- Every mixed-radix digit is below its radix. -/
theorem decode_lt (ss : List Nat) (j : Nat) (h : j < prodL ss) :
    ∀ i (hi : i < (decode ss j).length), (decode ss j)[i] < ss[i]'(decode_length ss j ▸ hi) := by
  induction ss generalizing j with
  | nil => intro i hi; simp [decode] at hi
  | cons s ss ih =>
    intro i hi
    simp only [prodL] at h
    have hpos : 0 < prodL ss := by
      rcases Nat.eq_zero_or_pos (prodL ss) with h0 | h0
      · rw [h0] at h; simp at h
      · exact h0
    cases i with
    | zero =>
      simp only [decode, List.getElem_cons_zero]
      exact Nat.div_lt_of_lt_mul (by rw [Nat.mul_comm]; exact h)
    | succ i =>
      simp only [decode, List.getElem_cons_succ]
      exact ih (j % prodL ss) (Nat.mod_lt _ hpos) i (by simp [decode] at hi; omega)

/-- The spec's coordinate enumeration: point `j` of `rowMajor sizes` is the digit list of `j`. -/
theorem rowMajor_getElem? (sizes : List Nat) (j : Nat) (h : j < prodL sizes) :
    (rowMajor sizes)[j]? = some (decode sizes j) := by
  have hl : (sizes.map List.range).map List.length = sizes := by simp [List.map_map, Function.comp_def]
  unfold rowMajor
  rw [cart_getElem? _ j (by rw [hl]; exact h), hl]
  congr 1
  exact pick_range sizes (decode sizes j) (decode_length sizes j) (decode_lt sizes j h)

theorem length_rowMajor (sizes : List Nat) : (rowMajor sizes).length = prodL sizes := by
  unfold rowMajor
  rw [length_cart]
  simp [List.map_map, Function.comp_def]

/-- Horner evaluation inverts the div-mod decomposition. -/
theorem encode_decode (ss : List Nat) (j : Nat) (h : j < prodL ss) : encode ss (decode ss j) = j := by
  induction ss generalizing j with
  | nil => simp [prodL] at h; simp [encode, h]
  | cons s ss ih =>
    simp only [prodL] at h
    have hpos : 0 < prodL ss := by
      rcases Nat.eq_zero_or_pos (prodL ss) with h0 | h0
      · rw [h0] at h; simp at h
      · exact h0
    simp only [decode, encode]
    rw [ih _ (Nat.mod_lt _ hpos), Nat.mul_comm]
    exact Nat.div_add_mod j (prodL ss)

/-- Digits of `j` over concatenated radices = digits of the quotient over the first block ++ digits of the remainder. -/
theorem decode_append (a b : List Nat) (j : Nat) (h : j < prodL (a ++ b)) :
    decode (a ++ b) j = decode a (j / prodL b) ++ decode b (j % prodL b) := by
  induction a generalizing j with
  | nil =>
    simp only [List.nil_append] at h
    simp [decode, Nat.mod_eq_of_lt h]
  | cons s a ih =>
    simp only [List.cons_append, prodL] at h
    have hpos : 0 < prodL (a ++ b) := by
      rcases Nat.eq_zero_or_pos (prodL (a ++ b)) with h0 | h0
      · rw [h0] at h; simp at h
      · exact h0
    simp only [List.cons_append, decode]
    rw [ih _ (Nat.mod_lt _ hpos), prodL_append]
    have e1 : j / (prodL a * prodL b) = j / prodL b / prodL a := by
      rw [Nat.div_div_eq_div_mul, Nat.mul_comm]
    have e2 : j % (prodL a * prodL b) / prodL b = j / prodL b % prodL a := by
      rw [Nat.mul_comm]; exact Nat.mod_mul_right_div_self j (prodL b) (prodL a)
    have e3 : j % (prodL a * prodL b) % prodL b = j % prodL b := Nat.mod_mul_left_mod j (prodL a) (prodL b)
    rw [e1, e2, e3]

/-- Cut a list into consecutive blocks of the given lengths. -/
def splitBlocks {α : Type} : List Nat → List α → List (List α)
  | [], _ => []
  | n :: ns, l => l.take n :: splitBlocks ns (l.drop n)

/-- MIXED-RADIX THEOREM: decompose `j` over the flat radices `ss.flatten` (the spec's coordinates over all axes),
    cut the digits into the blocks of the upstreams, re-encode each block over that upstream's radices: the result is
    the decomposition of `j` over the block radices `ss.map prodL` (the model's per-upstream indices). -/
theorem decode_blocks (ss : List (List Nat)) (j : Nat) (h : j < prodL ss.flatten) :
    List.zipWith encode ss (splitBlocks (ss.map List.length) (decode ss.flatten j)) = decode (ss.map prodL) j := by
  induction ss generalizing j with
  | nil => rfl
  | cons s ss ih =>
    simp only [List.flatten_cons] at h
    have hp := prodL_append s ss.flatten
    have hposR : 0 < prodL ss.flatten := by
      rcases Nat.eq_zero_or_pos (prodL ss.flatten) with h0 | h0
      · rw [hp, h0] at h; simp at h
      · exact h0
    simp only [List.flatten_cons, List.map_cons, splitBlocks, decode]
    rw [decode_append s ss.flatten j h]
    rw [List.take_left' (decode_length s _), List.drop_left' (decode_length s _)]
    simp only [List.zipWith_cons_cons]
    rw [ih _ (Nat.mod_lt _ hposR), prodL_flatten]
    congr 1
    apply encode_decode
    apply Nat.div_lt_of_lt_mul
    rw [Nat.mul_comm, ← hp]; exact h

end PydraModel.WfState
