import PydraModel.WfState.Lemmas
/-
More enumeration algebra for C03 (workflow-level theorem): products of products.
-/
namespace PydraModel.WfState

theorem flatMap_congr' {α β : Type} (l : List α) (f g : α → List β) (h : ∀ a ∈ l, f a = g a) :
    l.flatMap f = l.flatMap g := by
  induction l with
  | nil => rfl
  | cons a l ih =>
    rw [List.flatMap_cons, List.flatMap_cons, h a (by simp), ih (fun b hb => h b (List.mem_cons_of_mem _ hb))]

theorem flatMap_singleton' {α β : Type} (l : List α) (f : α → β) : (l.flatMap fun a => [f a]) = l.map f := by
  induction l with
  | nil => rfl
  | cons a l ih => rw [List.flatMap_cons, ih]; rfl

/-- The product over concatenated block lists is the product of the products, concatenating the tuples. -/
theorem cart_append {α : Type} (A B : List (List α)) :
    cart (A ++ B) = (cart A).flatMap fun a => (cart B).map (a ++ ·) := by
  induction A with
  | nil => simp [cart]
  | cons b A ih =>
    simp only [List.cons_append, cart, ih]
    rw [List.flatMap_assoc]
    apply flatMap_congr'
    intro x _
    rw [List.map_flatMap, List.flatMap_map]
    apply flatMap_congr'
    intro a _
    simp [List.map_map, Function.comp_def]

theorem rowMajor_append (s t : List Nat) :
    rowMajor (s ++ t) = (rowMajor s).flatMap fun x => (rowMajor t).map (x ++ ·) := by
  unfold rowMajor
  rw [List.map_append, cart_append]

theorem rowMajor_nil : rowMajor [] = [[]] := rfl

theorem rowMajor_singleton (n : Nat) : rowMajor [n] = (List.range n).map ([·]) := by
  simp only [rowMajor, List.map_cons, List.map_nil, cart, List.map_cons, List.map_nil]
  exact flatMap_singleton' _ _

/-- ENUMERATION OF A NODE WITH UPSTREAM STATES: the product of the upstream enumerations (each the row-major enumeration
    of that upstream's axes), tuples concatenated, is the row-major enumeration of all axes. -/
theorem cart_rowMajor_blocks (ss : List (List Nat)) :
    (cart (ss.map rowMajor)).map List.flatten = rowMajor ss.flatten := by
  induction ss with
  | nil => rfl
  | cons s ss ih =>
    simp only [List.map_cons, cart, List.flatten_cons]
    rw [rowMajor_append, ← ih, List.map_flatMap]
    apply flatMap_congr'
    intro x _
    simp [List.map_map, Function.comp_def]

end PydraModel.WfState
