import PydraModel.WfState.Simple
/-
Workflow-level theorem, part 0: what `Simple.simple` gives for every node, stated in the FULL class environment.
-/
namespace PydraModel.WfState.Simple
open PydraModel.WfState

/-- The class environment after the nodes `rest`, starting from `env`. -/
def envFrom (env : Env) : List Node → Env
  | [] => env
  | nd :: rest => envFrom (env ++ [entryOf env nd]) rest

theorem envFrom_length (env : Env) (rest : List Node) : (envFrom env rest).length = env.length + rest.length := by
  induction rest generalizing env with
  | nil => simp [envFrom]
  | cons nd rest ih => simp [envFrom, ih]; omega

/-- Earlier entries never change. -/
theorem envFrom_getElem? (env : Env) (rest : List Node) (u : Nat) (h : u < env.length) :
    (envFrom env rest)[u]? = env[u]? := by
  induction rest generalizing env with
  | nil => rfl
  | cons nd rest ih =>
    simp only [envFrom]
    rw [ih (env ++ [entryOf env nd]) (by simp; omega), List.getElem?_append_left h]

theorem axes_envFrom (env : Env) (rest : List Node) (u : Nat) (h : u < env.length) :
    (envFrom env rest).axes u = env.axes u := by
  unfold Env.axes; rw [envFrom_getElem? env rest u h]

theorem sups_envFrom (env : Env) (rest : List Node) (u : Nat) (h : u < env.length) :
    (envFrom env rest).sups u = env.sups u := by
  unfold Env.sups; rw [envFrom_getElem? env rest u h]

/-- A node that refers to earlier nodes only sees the same upstream states in any extension of the environment. -/
theorem sUps_envFrom (env : Env) (rest : List Node) (nd : Node) (h : ∀ p ∈ nd.lazyUps, p.2 < env.length) :
    sUps (envFrom env rest) nd = sUps env nd := by
  unfold sUps
  apply List.filter_congr
  intro p hp
  rw [axes_envFrom env rest p.2 (h p hp)]

theorem upAx_envFrom (env : Env) (rest : List Node) (nd : Node) (h : ∀ p ∈ nd.lazyUps, p.2 < env.length) :
    upAx (envFrom env rest) nd = upAx env nd := by
  unfold upAx
  rw [sUps_envFrom env rest nd h]
  congr 1
  apply List.map_congr_left
  intro p hp
  have : p ∈ nd.lazyUps := (List.mem_filter.mp hp).1
  exact axes_envFrom env rest p.2 (h p this)

theorem entryOf_envFrom (env : Env) (rest : List Node) (nd : Node) (h : ∀ p ∈ nd.lazyUps, p.2 < env.length) :
    entryOf (envFrom env rest) nd = entryOf env nd := by
  unfold entryOf
  rw [upAx_envFrom env rest nd h, sUps_envFrom env rest nd h]

/-- What the class says about one node, in the full environment `E`. -/
structure Facts (E : Env) (nd : Node) : Prop where
  lt : nd.name < E.length
  entry : E[nd.name]? = some (entryOf E nd)
  comb : nd.comb = []
  ownComb : nd.ownComb = []
  notInner : ∀ f g, nd.split ≠ .inner f g
  outerNe : ∀ f g, nd.split = .outer f g → f ≠ g
  lists : ∀ f ∈ nd.split.fields, ∃ vs, nd.src f = .lst vs ∧ vs ≠ []
  refs : ∀ p ∈ nd.lazyUps, p.2 < nd.name
  supsNodup : ((sUps E nd).map (·.2)).Nodup
  keysNodup : ((upAx E nd ++ ownAx nd).map (·.1)).Nodup
  hist : ∀ p ∈ sUps E nd, ∀ r ∈ E.sups p.2, r ∉ (sUps E nd).map (·.2)

theorem facts_of_nodeOK (env : Env) (nd : Node) (h : nodeOK env nd = true) (rest : List Node) :
    Facts (envFrom (env ++ [entryOf env nd]) rest) nd := by
  unfold nodeOK at h
  simp only [Bool.and_eq_true, beq_iff_eq, List.isEmpty_iff, List.all_eq_true, decide_eq_true_eq] at h
  obtain ⟨⟨⟨⟨⟨⟨⟨⟨hname, hcomb⟩, hown⟩, hsplit⟩, hlists⟩, hrefs⟩, hsn⟩, hkn⟩, hhist⟩ := h
  have hrefs' : ∀ p ∈ nd.lazyUps, p.2 < env.length := by
    intro p hp; rw [← hname]; exact hrefs p hp
  have hlen1 : (env ++ [entryOf env nd]).length = env.length + 1 := by simp
  have hrefs'' : ∀ p ∈ nd.lazyUps, p.2 < (env ++ [entryOf env nd]).length := by
    intro p hp; rw [hlen1]; exact Nat.lt_succ_of_lt (hrefs' p hp)
  have hs : sUps (envFrom (env ++ [entryOf env nd]) rest) nd = sUps env nd := by
    rw [sUps_envFrom _ rest nd hrefs'']
    exact sUps_envFrom env [nd] nd hrefs'
  have hu : upAx (envFrom (env ++ [entryOf env nd]) rest) nd = upAx env nd := by
    rw [upAx_envFrom _ rest nd hrefs'']
    exact upAx_envFrom env [nd] nd hrefs'
  have he : entryOf (envFrom (env ++ [entryOf env nd]) rest) nd = entryOf env nd := by
    rw [entryOf_envFrom _ rest nd hrefs'']
    exact entryOf_envFrom env [nd] nd hrefs'
  have hnlt : nd.name < (env ++ [entryOf env nd]).length := by rw [hlen1, hname]; exact Nat.lt_succ_self _
  refine ⟨?_, ?_, hcomb, hown, ?_, ?_, ?_, ?_, ?_, ?_, ?_⟩
  · rw [envFrom_length]; exact Nat.lt_of_lt_of_le hnlt (Nat.le_add_right _ _)
  · rw [envFrom_getElem? _ rest nd.name hnlt, he, hname]
    simp
  · intro f g hfg; rw [hfg] at hsplit; simp at hsplit
  · intro f g hfg; rw [hfg] at hsplit; simpa using hsplit
  · intro f hf
    have := hlists f hf
    cases hsrc : nd.src f with
    | lst vs => exact ⟨vs, rfl, by rw [hsrc] at this; simpa using this⟩
    | none => rw [hsrc] at this; simp at this
    | const v => rw [hsrc] at this; simp at this
    | up u => rw [hsrc] at this; simp at this
  · intro p hp; have := hrefs p hp; simpa using this
  · rw [hs]; exact hsn
  · rw [hu]; exact hkn
  · rw [hs]
    intro p hp r hr
    have hp2 : p.2 < env.length := hrefs' p (List.mem_filter.mp hp).1
    have hr' : r ∈ env.sups p.2 := by
      rw [sups_envFrom _ rest p.2 (hrefs'' p (List.mem_filter.mp hp).1)] at hr
      have := sups_envFrom env [nd] p.2 hp2
      simp only [envFrom] at this
      rw [this] at hr; exact hr
    have := hhist p hp r hr'
    simpa using this

/-- Every node of a workflow in the class has its `Facts` in the full environment. -/
theorem facts_of_simpleFrom (env : Env) (rest : List Node) (h : simpleFrom env rest = true) :
    ∀ nd ∈ rest, Facts (envFrom env rest) nd := by
  induction rest generalizing env with
  | nil => intro nd hnd; simp at hnd
  | cons n0 rest ih =>
    simp only [simpleFrom, Bool.and_eq_true] at h
    intro nd hnd
    rcases List.mem_cons.mp hnd with rfl | hmem
    · exact facts_of_nodeOK env nd h.1 rest
    · exact ih (env ++ [entryOf env n0]) h.2 nd hmem

/-- Nodes are named by their positions. -/
theorem names_of_simpleFrom (env : Env) (rest : List Node) (h : simpleFrom env rest = true) :
    ∀ k (hk : k < rest.length), rest[k].name = env.length + k := by
  induction rest generalizing env with
  | nil => intro k hk; simp at hk
  | cons n0 rest ih =>
    simp only [simpleFrom, Bool.and_eq_true] at h
    intro k hk
    cases k with
    | zero =>
      have := h.1; unfold nodeOK at this
      simp only [Bool.and_eq_true, beq_iff_eq] at this
      simpa using this.1.1.1.1.1.1.1.1
    | succ k =>
      have hk' : k < rest.length := Nat.lt_of_succ_lt_succ (by simpa using hk)
      have := ih (env ++ [entryOf env n0]) h.2 k hk'
      simp only [List.getElem_cons_succ]
      rw [this, List.length_append]
      show env.length + 1 + k = env.length + (k + 1)
      omega

end PydraModel.WfState.Simple
