import Lean.Data.Json
import PydraModel.WfState.Spec
/-
C03: decidable class predicates on workflows — the hypotheses under which the node-level theorems apply at every node
(`inClass`) and the match rules of the known findings.  They are defined on the *case structure* only (which node feeds
which field, which node splits / combines what): no model run, no spec evaluation.

Origin-tagged bookkeeping per node:
  `fin`   the spec's final axes (after the node's combiner)
  `hist`  the *origins*: nodes whose own splitter is in the history of the node's state.  A combiner does not remove an
          origin from the history (pydra's `_add_state_history` looks at `prev_state_splitter`, not at what is left).
-/
namespace PydraModel.WfState.Class
open PydraModel.WfState Lean

/-- Shape of a final splitter: which axes, nested how (the operators do not matter here). -/
inductive Sh
  | leaf (k : Key)
  | op (l r : Sh)
  deriving Repr, Inhabited

def Sh.leaves : Sh → List Key
  | .leaf k => [k]
  | .op l r => l.leaves ++ r.leaves

def Sh.remove (drop : Key → Bool) : Sh → Option Sh
  | .leaf k => if drop k then none else some (.leaf k)
  | .op l r =>
    match l.remove drop, r.remove drop with
    | none, r' => r'
    | l', none => l'
    | some l', some r' => some (.op l' r')

/-- The key list `State.splits` builds for a splitter of this shape: an unprocessed left operand of an already processed
    right operand is put in front of ALL keys collected so far (the bookkeeping BEFORE the fix of D46; kept to recognise
    the shape, which is inside `inClass` again). -/
def Sh.keysAux : Sh → List Key → List Key
  | .leaf _, ks => ks
  | .op l r, ks =>
    match l, r with
    | .leaf a, .leaf b => ks ++ [a, b]
    | .leaf a, r' => a :: r'.keysAux ks
    | l', .leaf b => l'.keysAux ks ++ [b]
    | l', r' => r'.keysAux (l'.keysAux ks)

def Sh.keys : Sh → List Key
  | .leaf k => [k]
  | t => t.keysAux []

def shStep (acc t : Option Sh) : Option Sh :=
  match acc, t with
  | none, t => t
  | acc, none => acc
  | some a, some b => some (.op a b)

structure Info where
  name : Name
  ups : List (Name × List Fld)     -- stateful upstreams (non-empty final axes) with the fields they feed, field order
  upAxes : List Key                -- ordered union of their final axes
  own : List Key                   -- the node's own axes
  comb : List Key                  -- combiner, resolved to axes
  fin : List Key
  hist : List Name
  shape : Option Sh := none        -- nesting of the final splitter: upstream shapes in connection order, then the own part
  misordered : Bool := false       -- the node has a combiner and `splits` lists the keys of what is left in another order
                                   -- than the index tuples are nested (old bookkeeping, D46 fixed)
  deriving Inhabited, Repr

abbrev Infos := List Info

def Infos.get (is : Infos) (n : Name) : Option Info := is.find? fun i => i.name == n

def addField (other : List (Name × List Fld)) (u : Name) (f : Fld) : List (Name × List Fld) :=
  match other with
  | [] => [(u, [f])]
  | (m, fl) :: r => if m = u then (m, fl ++ [f]) :: r else (m, fl) :: addField r u f

def unionKeys (acc new : List Key) : List Key := acc ++ new.filter fun a => !(acc.contains a)
def unionNames (acc new : List Name) : List Name := acc ++ new.filter fun a => !(acc.contains a)

def ownKeys (nd : Node) : List Key × Spec.Aliases :=
  match nd.split with
  | .no => ([], [])
  | .single f => ([(nd.name, f)], [])
  | .outer f g => ([(nd.name, f), (nd.name, g)], [])
  | .inner f g => ([(nd.name, f)], [((nd.name, g), (nd.name, f))])

def infoOf (is : Infos) (al : Spec.Aliases) (nd : Node) : Info × Spec.Aliases :=
  let ups := nd.lazyUps.foldl (init := []) fun acc (f, u) =>
    match is.get u with
    | some i => if i.fin.isEmpty then acc else addField acc u f
    | none => acc
  let upAxes := ups.foldl (init := []) fun acc (u, _) => unionKeys acc ((is.get u).map (·.fin) |>.getD [])
  let (own, al') := ownKeys nd
  let al := al' ++ al
  let comb := nd.comb.map (Spec.resolve al)
  let fin := (upAxes ++ own).filter fun a => !(comb.contains a)
  let hist := ups.foldl (init := if own.isEmpty then [] else [nd.name]) fun acc (u, _) =>
    unionNames acc ((is.get u).map (·.hist) |>.getD [])
  let ownShape : Option Sh := match nd.split with
    | .no => none
    | .single f => some (.leaf (nd.name, f))
    | .outer f g => some (.op (.leaf (nd.name, f)) (.leaf (nd.name, g)))
    | .inner f g => some (.op (.leaf (nd.name, f)) (.leaf (nd.name, g)))
  let upShapes : List (Option Sh) := ups.map fun p => (is.get p.1).bind (·.shape)
  let full := (upShapes ++ [ownShape]).foldl shStep none
  let shape := full.bind (Sh.remove fun k => comb.contains (Spec.resolve al k))
  let misordered := !nd.comb.isEmpty && (match shape with
    | some t => t.keys != t.leaves
    | none => false)
  ({ name := nd.name, ups := ups, upAxes := upAxes, own := own, comb := comb, fin := fin, hist := hist, shape := shape,
     misordered := misordered }, al)

def infos (nodes : List Node) : Infos × Spec.Aliases :=
  nodes.foldl (init := ([], [])) fun (is, al) nd =>
    let (i, al) := infoOf is al nd
    (is ++ [i], al)

def intersects {α : Type} [BEq α] (a b : List α) : Bool := a.any b.contains

/-- Two different upstream states of the node share an origin. -/
def sharedOrigin (is : Infos) (i : Info) : Bool :=
  let hs := i.ups.map fun (u, _) => (is.get u).map (·.hist) |>.getD []
  (List.range hs.length).any fun a => (List.range hs.length).any fun b =>
    a < b && intersects (hs.getD a []) (hs.getD b [])

/-- A second or later upstream state is connected through two or more fields (D38). -/
def laterMulti (i : Info) : Bool := i.ups.tail.any fun (_, fl) => fl.length ≥ 2

/-- The node has an own splitter and its combiner removes every inherited axis (D37). -/
def combAllPrev (i : Info) : Bool :=
  !i.own.isEmpty && !i.upAxes.isEmpty && i.upAxes.all i.comb.contains

/-- The combiner names one field of a zipped pair without naming the other. -/
def partialZip (al : Spec.Aliases) (nd : Node) : Bool :=
  al.any fun (b, a) => (nd.comb.contains a && !nd.comb.contains b) || (nd.comb.contains b && !nd.comb.contains a)

def hasConsumer (nodes : List Node) (n : Name) : Bool :=
  nodes.any fun nd => nd.lazyUps.any fun (_, u) => u == n

/-- Directly connected root states: stateful upstreams that have no stateful upstream themselves (`othst_w_currst`). -/
def rootsOf (is : Infos) (i : Info) : List Name :=
  (i.ups.filter fun (u, _) => ((is.get u).map (·.ups.isEmpty)).getD false).map (·.1)

/-- Upstream `v` (which has upstream states itself) is directly fed by a root that also feeds the node: the situation in
    which `_add_state_history` rewrites the node's list of previous states. -/
def triggers (is : Infos) (i : Info) (v : Name) : Bool :=
  match is.get v with
  | some iv => !iv.ups.isEmpty && intersects (iv.ups.map (·.1)) (rootsOf is i)
  | none => false

/-- Some upstream with an own splitter triggers the rewrite: the root is dropped from the node's splitter (D31). -/
def dropsRoot (is : Infos) (i : Info) : Bool :=
  i.ups.any fun (v, _) => triggers is i v && ((is.get v).map (fun iv => !iv.own.isEmpty)).getD false

/-- Some upstream without an own splitter triggers the rewrite (the triangle when nothing else is connected; D30 when
    the rewritten list keeps two or more states). -/
def mergesInto (is : Infos) (i : Info) : Bool :=
  i.ups.any fun (v, _) => triggers is i v && ((is.get v).map (fun iv => iv.own.isEmpty)).getD false

/-- The node's name is a substring of the dotted name of a combiner key that belongs to another node: pydra's
    `current_combiner` (`self.name in comb`) then treats an inherited axis as the node's own (D39). -/
def nameClash (nd : Node) : Bool := !(nd.ownComb == nd.comb.filter fun c => c.1 == nd.name)

structure Flags where
  shared : Bool            -- some node has two upstream states sharing an origin
  dropsRoot : Bool         -- … and an own-splitter descendant of a connected root is connected too   (D31 shape)
  mergesInto : Bool        -- … and a splitter-less descendant of a connected root is connected too    (triangle / D30 shape)
  sharedComb : Bool        -- shared origins and some node of the workflow has a combiner
  laterMulti : Bool        -- D38
  combAllPrev : Bool       -- D37
  partialZipFeeds : Bool   -- D29
  nameClash : Bool         -- D39
  keyOrder : Bool          -- the shape on which D46 (fixed in /repo 932a47fa) showed; a coverage counter, not an exclusion
  deriving Repr, DecidableEq

def flags (w : Wf) : Flags :=
  let (is, al) := infos w.nodes
  let sh := is.any (sharedOrigin is)
  { shared := sh
    dropsRoot := is.any fun i => sharedOrigin is i && dropsRoot is i
    mergesInto := is.any fun i => sharedOrigin is i && mergesInto is i
    sharedComb := sh && w.nodes.any fun nd => !nd.comb.isEmpty
    laterMulti := is.any laterMulti
    combAllPrev := is.any combAllPrev
    partialZipFeeds := w.nodes.any fun nd => partialZip al nd && hasConsumer w.nodes nd.name
    nameClash := w.nodes.any nameClash
    keyOrder := is.any (·.misordered) }

/-- `NoSharedOrigin`: at every node the upstream states have pairwise disjoint origins. -/
def noSharedOrigin (w : Wf) : Bool := !(flags w).shared

/-- The class in which the node-level theorems apply at every node and in which the implementation is required to agree
    with the nested-loop reference (a disagreement there is a VIOLATION, never a known finding). -/
def inClass (w : Wf) : Bool :=
  let f := flags w
  !f.shared && !f.laterMulti && !f.combAllPrev && !f.partialZipFeeds && !f.nameClash

/-- Structural well-formedness = the generator's domain. -/
def wellFormed (w : Wf) : Bool :=
  let (is, al) := infos w.nodes
  (List.range w.nodes.length == w.nodes.map (·.name)) &&
  (w.nodes.all fun nd =>
    nd.lazyUps.all (fun (_, u) => u < nd.name) &&
    nd.split.fields.all (fun f => nd.lstLen f > 0) &&
    (match nd.split with
      | .outer f g => f != g
      | .inner f g => f != g && nd.lstLen f == nd.lstLen g
      | _ => true) &&
    (match is.get nd.name with
      | some i => nd.comb.all fun c => (i.upAxes ++ i.own).contains (Spec.resolve al c)
      | none => false)) &&
  w.outs.all (fun o => o < w.nodes.length)

def toJson (w : Wf) : Json :=
  let f := flags w
  Json.mkObj [("shared", f.shared), ("dropsRoot", f.dropsRoot), ("mergesInto", f.mergesInto),
    ("sharedComb", f.sharedComb), ("laterMulti", f.laterMulti), ("combAllPrev", f.combAllPrev),
    ("partialZipFeeds", f.partialZipFeeds), ("nameClash", f.nameClash), ("keyOrder", f.keyOrder), ("inClass", inClass w),
    ("wellFormed", wellFormed w)]

end PydraModel.WfState.Class
