import PydraModel.WfState.WholeB5
/-
Workflow-level theorem, part B6: `NodeExecution.start` on a node of the class with a state.
-/
namespace PydraModel.WfState.Simple
open PydraModel.WfState PydraModel.WfState.Model

theorem prodL_sizes_upAx (E : Env) (nd : Node) :
    prodL ((upsL E nd).map fun a => prodL (a.map (·.2))) = prodL (sizesOf (upAx E nd)) := by
  have := prodL_flatten ((sUps E nd).map fun p => sizesOf (E.axes p.2))
  rw [sizesOf_upAx, ← this]
  simp [upsL, List.map_map, Function.comp_def, sizesOf]

theorem lengths_idxBlocks (ns : List Nat) : (ns.map idxBlock).map List.length = ns := by
  induction ns with
  | nil => rfl
  | cons n ns ih => simp [length_idxBlock, ih]

theorem inputsIndOf_length (name : Name) (ns : List Nat) (fs : List Fld) (hlen : fs.length = ns.length)
    (own : Option (List (List Nat) × List Key)) (hne : ns ≠ [] ∨ own.isSome = true) :
    (inputsIndOf name (List.zipWith (fun n f => (n, [f])) ns fs) own).length = prodL ns * ownLen own := by
  unfold inputsIndOf
  rw [prevBlocks_single true ns fs hlen]
  cases own with
  | none =>
    have hns : ns ≠ [] := by
      rcases hne with h | h
      · exact h
      · simp at h
    have hemp : (ns.map idxBlock).isEmpty = false := by
      cases ns with
      | nil => exact absurd rfl hns
      | cons n ns => rfl
    simp only [ownBlock, ownKeyList, List.append_nil, hemp, Bool.false_eq_true, if_false, List.length_map, length_cart,
      lengths_idxBlocks, ownLen, Nat.mul_one]
  | some p =>
    obtain ⟨e, ks⟩ := p
    have hemp : (ns.map idxBlock ++ [e]).isEmpty = false := by simp
    simp only [ownBlock, ownKeyList, hemp, Bool.false_eq_true, if_false, List.length_map, length_cart, List.map_append,
      lengths_idxBlocks, List.map_cons, List.map_nil, prodL_append, ownLen, prodL, Nat.mul_one]

/-- Number of index dictionaries produced by `prepare_inputs` = number of points of the node's axes. -/
theorem inputs_length (E : Env) (nd : Node) (hF : Facts E nd) (hax : E.axes nd.name ≠ []) :
    (inputsIndOf nd.name (prevsL E nd) (ownOpt nd)).length = prodL (sizesOf (E.axes nd.name)) := by
  have haxe : E.axes nd.name = upAx E nd ++ ownAx nd := axes_of_facts hF
  have hprevs : prevsL E nd = List.zipWith (fun n f => (n, [f])) ((upsL E nd).map fun a => prodL (a.map (·.2))) (fsL E nd) := by
    simp [prevsL, List.zipWith_map_left]
  have hP : prodL (sizesOf (E.axes nd.name)) = prodL (sizesOf (upAx E nd)) * prodL (sizesOf (ownAx nd)) := by
    rw [haxe]; simp only [sizesOf, List.map_append]; exact prodL_append _ _
  rw [hprevs, inputsIndOf_length nd.name _ _ (by simp [fsL, upsL]) (ownOpt nd), prodL_sizes_upAx, ownLen_ownOpt, hP]
  by_cases hS : sUps E nd = []
  · right
    unfold ownOpt
    have : ownAx nd ≠ [] := by
      intro ho; apply hax; rw [haxe, ho, (upAx_nil_iff E nd).mpr hS]; rfl
    simp [this]
  · left
    intro h
    apply hS
    have := List.map_eq_nil_iff.mp h
    exact List.map_eq_nil_iff.mp this

/-- `enumeration_ok` for a state object whose `prev` is the list of connected upstream states. -/
theorem enumeration_ok' (E : Env) (senv : Spec.Env) (rs : Ress) (nd : Node) (hI : InvB E senv rs nd.name)
    (hF : Facts E nd) (prev : List Name) (hp : prev = (sUps E nd).map (·.2)) :
    (cart ((prev.map rs.get).map (·.indFinal) ++ ownBlock (ownOpt nd))).map flattenL
      = rowMajor (sizesOf (E.axes nd.name)) ∧
    (prev.map rs.get).flatMap (·.keysFinal) ++ ownKeyList (ownOpt nd)
      = keysOf (E.axes nd.name) := by
  subst hp
  have hmm : List.map rs.get (List.map (·.2) (sUps E nd)) = (sUps E nd).map fun p => rs.get p.2 := by
    rw [List.map_map]; rfl
  rw [hmm]
  exact enumeration_ok E senv rs nd.name hI nd hF rfl

theorem prevs_ok' (E : Env) (senv : Spec.Env) (rs : Ress) (nd : Node) (hI : InvB E senv rs nd.name)
    (hF : Facts E nd) (prev : List Name) (other : Other) (hp : prev = (sUps E nd).map (·.2))
    (ho : other = (sUps E nd).map mk) :
    prev.map (fun u => ((rs.get u).statesIndFinal.length, (assocGet other u).getD [])) = prevsL E nd := by
  subst hp; subst ho
  exact prevs_ok E senv rs nd.name hI nd hF rfl

/-- `NodeExecution.start` on a node of the class with a state: the jobs and their inputs are the reference's. -/
theorem runStateful_ok (E : Env) (hall : AllFacts E) (nodes : List Node) (sts : Sts) (N : Nat) (hA : InvA E sts N)
    (senv : Spec.Env) (rs : Ress) (nd : Node) (hI : InvB E senv rs nd.name) (hF : Facts E nd) (hlt : nd.name < N)
    (hax : E.axes nd.name ≠ []) (s : St) (hs : StOK (entryOf E nd) s)
    (hsize : ∀ f, sizeOf nodes (nd.name, f) = nd.lstLen f) :
    ∃ sts' r, runStateful nodes sts rs nd s = .ok (sts', r) ∧ InvA E sts' N ∧
      ResOK (E.axes nd.name)
        ((rowMajor (sizesOf (E.axes nd.name))).map (Spec.jobOut senv [] nd (keysOf (E.axes nd.name)))) r := by
  obtain ⟨hprev, _⟩ := sUps_facts hF nd.name rfl
  have hprev' : ∀ u ∈ (sUps E nd).map (·.2), u < N ∧ E.axes u ≠ [] :=
    fun u hu => ⟨Nat.lt_trans (hprev u hu).1 hlt, (hprev u hu).2⟩
  have hsig := setInputGroups_ok E sts N hA nd hF s hs hprev'
  have hsprev : s.prev = (sUps E nd).map (·.2) := hs.prev
  have hsother : s.other = (sUps E nd).map mk := hs.other
  have hscur : s.cur = ownTree nd := hs.cur
  obtain ⟨henum, hkeys⟩ := enumeration_ok' E senv rs nd hI hF s.prev hsprev
  have hprevs := prevs_ok' E senv rs nd hI hF s.prev s.other hsprev hsother
  have hown := ownEnum_ok hF (sizeOf nodes) hsize
  -- the job list
  have hplen : (rowMajor (sizesOf (E.axes nd.name))).length = prodL (sizesOf (E.axes nd.name)) := length_rowMajor _
  have hilen := inputs_length E nd hF hax
  have hjobs : (List.zip (inputsIndOf nd.name (prevsL E nd) (ownOpt nd))
        ((rowMajor (sizesOf (E.axes nd.name))).map (mkDict (keysOf (E.axes nd.name))))).mapM (jobOut rs nd)
      = .ok ((rowMajor (sizesOf (E.axes nd.name))).map (Spec.jobOut senv [] nd (keysOf (E.axes nd.name)))) := by
    refine mapM_eq_ok _ _ _ (by rw [List.length_map, List.length_zip, List.length_map, hilen, hplen, Nat.min_self]) ?_
    intro j hj
    have hjP : j < prodL (sizesOf (E.axes nd.name)) := by
      simp only [List.length_zip, List.length_map, hilen, hplen, Nat.min_self] at hj; exact hj
    have hji : j < (inputsIndOf nd.name (prevsL E nd) (ownOpt nd)).length := by rw [hilen]; exact hjP
    have hjp : j < (rowMajor (sizesOf (E.axes nd.name))).length := by rw [hplen]; exact hjP
    have hpt : (rowMajor (sizesOf (E.axes nd.name)))[j] = decode (sizesOf (E.axes nd.name)) j := by
      have := rowMajor_getElem? (sizesOf (E.axes nd.name)) j hjP
      rw [List.getElem?_eq_getElem hjp] at this
      exact Option.some.inj this
    have hf := jobField_ok E hall senv rs nd hI hF j hjP _ (List.getElem?_eq_getElem hji)
    simp only [List.getElem_zip, List.getElem_map, hpt, jobOut, hf, bind, Except.bind, pure, Except.pure]
    rfl
  unfold runStateful
  simp only [hsig, bind, Except.bind, hscur, hown, pure, Except.pure, henum, hkeys, hprevs, hs.comb, List.isEmpty_nil,
    if_true, hjobs]
  refine ⟨_, _, rfl, ?_, ?_⟩
  · apply invA_set hA nd.name hlt _ hax
    rw [entry_of_facts hF]
    exact ⟨by first | rfl | exact hs.comb, hs.ownComb, by first | rfl | exact hs.cur, hs.other, hs.prev, hs.full⟩
  · refine ⟨rfl, by simp [hax], by simp [hs.comb], fun _ => rfl, fun _ => rfl, fun _ => ?_⟩
    simp [hplen]

end PydraModel.WfState.Simple
