import Lean.Data.Json
/-
JSON-lines plumbing shared by the model drivers (`lake env lean --run Drivers/<Engine>.lean`).
Only drivers import this file; no theorem depends on it.
-/
open Lean

namespace PydraModel.DriverUtil

partial def loop (h : IO.FS.Stream) (out : IO.FS.Stream) (handle : Json → Json) : IO Unit := do
  let line ← h.getLine
  if line.isEmpty then return ()
  let t := line.trimAscii.toString
  if t.isEmpty then loop h out handle else
  let ans := match Json.parse t with
    | .ok j => handle j
    | .error e => Json.mkObj [("error", Json.str s!"bad-json: {e}")]
  out.putStrLn ans.compress
  loop h out handle

def run (handle : Json → Json) : IO Unit := do
  loop (← IO.getStdin) (← IO.getStdout) handle
  (← IO.getStdout).flush

def getStr (j : Json) (k : String) : Except String String := j.getObjValAs? String k
def getNat (j : Json) (k : String) : Except String Nat := j.getObjValAs? Nat k
def getArr (j : Json) (k : String) : Except String (Array Json) := j.getObjValAs? (Array Json) k
def err (msg : String) : Json := Json.mkObj [("error", Json.str msg)]

end PydraModel.DriverUtil
