import PydraModel.JobProto.Conc
/-
C10 machinery, part 2: MUTUAL EXCLUSION — for any number of processes, any programs without bare lock
operations (lock markers are only touched through `with <lock>:` blocks), any interleaving of steps and process
deaths: a live process is inside `with <job lock>:` exactly when the marker names it; hence at most one live
process is inside at any time.  Proof: invariant over `gmove`, by case analysis of `Cfg.next` and of the lock
actions; the lock contract enters through `acquire` (a marker of a LIVE process is never broken).
-/
namespace PydraModel.JobProto

def Act.isLockOp : Act → Bool
  | .lockAcquire _ => true
  | .lockRelease _ => true
  | _ => false

/-- lock markers are only touched through `withLock` -/
def Prog.noBareLock : Prog → Bool
  | .skip => true
  | .act a => !a.isLockOp
  | .seq p q => p.noBareLock && q.noBareLock
  | .tryExceptFinally _ b e f => b.noBareLock && e.noBareLock && f.noBareLock
  | .withLock _ b => b.noBareLock
  | .ifNotRerun b => b.noBareLock
  | .ifAuditProv b => b.noBareLock

def Frame.wf : Frame → Bool
  | .seqK q _ => q.noBareLock
  | .tryK _ e f _ _ => e.noBareLock && f.noBareLock
  | .handlerK f _ => f.noBareLock
  | .finK _ => true
  | .lockK _ _ => true

def Focus.wf : Focus → Bool
  | .prog p _ => p.noBareLock
  | .ctl _ => true

def Cfg.wf (cfg : Cfg) : Bool := cfg.focus.wf && cfg.stack.all Frame.wf

/-- the shapes a step of a well-formed configuration can have -/
inductive NextShape (cfg : Cfg) : Next → Prop
  | tau (c' : Cfg) (hj : jobFrames c'.stack = jobFrames cfg.stack) (hw : c'.wf = true) : NextShape cfg (.tau c')
  | done (c : Ctl) : NextShape cfg (.done c)
  | plain (i : Nat) (a : Act) (k : Ctl → Cfg) (ha : a.isLockOp = false)
      (hk : ∀ c, (k c).stack = cfg.stack ∧ (k c).wf = true) : NextShape cfg (.action i a k)
  | acquire (i : Nat) (l : LockId) (k : Ctl → Cfg) (irel : Nat)
      (hn : (k .normal).stack = .lockK l irel :: cfg.stack ∧ (k .normal).wf = true)
      (hk : ∀ c, c ≠ .normal → (k c).stack = cfg.stack ∧ (k c).wf = true) : NextShape cfg (.action i (.lockAcquire l) k)
  | release (i : Nat) (l : LockId) (k : Ctl → Cfg) (st : List Frame) (hs : cfg.stack = .lockK l i :: st)
      (hk : ∀ c, (k c).stack = st ∧ (k c).wf = true) : NextShape cfg (.action i (.lockRelease l) k)

theorem next_shape (rr pv : Bool) (cfg : Cfg) (hw : cfg.wf = true) : NextShape cfg (cfg.next rr pv) := by
  obtain ⟨focus, stack⟩ := cfg
  simp only [Cfg.wf, Bool.and_eq_true] at hw
  obtain ⟨hf, hs⟩ := hw
  cases focus with
  | prog p i =>
    simp only [Focus.wf] at hf
    cases p with
    | skip => exact .tau _ rfl (by simp [Cfg.wf, Focus.wf, hs])
    | act a =>
      simp only [Prog.noBareLock, Bool.not_eq_true'] at hf
      exact .plain i a _ hf (fun c => ⟨rfl, by simp [Cfg.wf, Focus.wf, hs]⟩)
    | seq p q =>
      simp only [Prog.noBareLock, Bool.and_eq_true] at hf
      exact .tau _ rfl (by simp [Cfg.wf, Focus.wf, Frame.wf, hf.1, hf.2, hs])
    | tryExceptFinally ca b e f =>
      simp only [Prog.noBareLock, Bool.and_eq_true] at hf
      exact .tau _ rfl (by simp [Cfg.wf, Focus.wf, Frame.wf, hf.1.1, hf.1.2, hf.2, hs])
    | withLock l b =>
      simp only [Prog.noBareLock] at hf
      refine .acquire i l _ (i + 1 + b.size) ?_ ?_
      · simp [Cfg.wf, Focus.wf, Frame.wf, hf, hs]
      · intro c hc
        simp [hc, Cfg.wf, Focus.wf, hs]
    | ifNotRerun b =>
      simp only [Prog.noBareLock] at hf
      simp only [Cfg.next]
      cases rr
      · exact .tau _ rfl (by simp [Cfg.wf, Focus.wf, hf, hs])
      · exact .tau _ rfl (by simp [Cfg.wf, Focus.wf, hs])
    | ifAuditProv b =>
      simp only [Prog.noBareLock] at hf
      simp only [Cfg.next]
      cases pv
      · exact .tau _ rfl (by simp [Cfg.wf, Focus.wf, hs])
      · exact .tau _ rfl (by simp [Cfg.wf, Focus.wf, hf, hs])
  | ctl c =>
    cases stack with
    | nil => exact .done c
    | cons fr st =>
      simp only [List.all_cons, Bool.and_eq_true] at hs
      obtain ⟨hfr, hst⟩ := hs
      cases fr with
      | seqK q iq =>
        simp only [Frame.wf] at hfr
        simp only [Cfg.next]
        by_cases hc : c = .normal
        · simp only [hc, if_true]
          exact .tau _ (by simp [jobFrames]) (by simp [Cfg.wf, Focus.wf, hfr, hst])
        · simp only [hc, if_false]
          exact .tau _ (by simp [jobFrames]) (by simp [Cfg.wf, Focus.wf, hst])
      | tryK ca e f ie jf =>
        simp only [Frame.wf, Bool.and_eq_true] at hfr
        simp only [Cfg.next]
        cases hcb : c.caughtBy ca
        · simp only [Bool.false_eq_true, if_false]
          exact .tau _ (by simp [jobFrames]) (by simp [Cfg.wf, Focus.wf, Frame.wf, hfr.2, hst])
        · simp only [if_true]
          exact .tau _ (by simp [jobFrames]) (by simp [Cfg.wf, Focus.wf, Frame.wf, hfr.1, hfr.2, hst])
      | handlerK f jf =>
        simp only [Frame.wf] at hfr
        exact .tau _ (by simp [jobFrames]) (by simp [Cfg.wf, Focus.wf, Frame.wf, hfr, hst])
      | finK pending => exact .tau _ (by simp [jobFrames]) (by simp [Cfg.wf, Focus.wf, hst])
      | lockK l irel =>
        exact .release irel l _ st rfl (fun c' => ⟨rfl, by simp [Cfg.wf, Focus.wf, hst]⟩)

/-! ### What the actions do to the job-lock marker -/

theorem noteRaise_jobLock (r : Core × Ctl × List Ev) : (noteRaise r).1.jobLock = r.1.jobLock ∧ (noteRaise r).2.1 = r.2.1 := by
  obtain ⟨c, ctl, evs⟩ := r
  cases ctl <;> exact ⟨rfl, rfl⟩

theorem coreStep_plain (env : Env) (i : Nat) (a : Act) (c : Core) (ha : a.isLockOp = false) :
    (coreStep env .none i a c).1.jobLock = c.jobLock ∧ (coreStep env .none i a c).2.1 ≠ .blocked := by
  have h := noteRaise_jobLock (coreEffect env a c)
  simp only [coreStep]
  rw [h.1, h.2]
  obtain ⟨d, r, jl, sl, info, cwd, scwd, rv, je, lrb⟩ := c
  obtain ⟨rr, pv, bf, ac⟩ := env
  cases a with
  | lockAcquire l => cases ha
  | lockRelease l => cases ha
  | returnIfCachedOk =>
    rcases rv with _ | ⟨e, o⟩
    · exact ⟨rfl, by simp [coreEffect]⟩
    · cases e <;> exact ⟨rfl, by simp [coreEffect]⟩
  | restoreCwd => cases scwd <;> exact ⟨rfl, by simp [coreEffect]⟩
  | saveResult => cases rv <;> cases d <;> exact ⟨rfl, by simp [coreEffect]⟩
  | markErrored => cases rv <;> exact ⟨rfl, by simp [coreEffect]⟩
  | collectOutputs => cases rv <;> exact ⟨rfl, by simp [coreEffect]⟩
  | body => cases bf <;> exact ⟨rfl, by simp [coreEffect]⟩
  | auditStart => cases ac <;> cases d <;> exact ⟨rfl, by simp [coreEffect]⟩
  | chdirJob => cases d <;> exact ⟨rfl, by simp [coreEffect]⟩
  | clearDir => cases d <;> exact ⟨rfl, by simp [coreEffect]⟩
  | mkDir => cases d <;> exact ⟨rfl, by simp [coreEffect]⟩
  | saveJob => cases d <;> exact ⟨rfl, by simp [coreEffect]⟩
  | recordError => cases d <;> exact ⟨rfl, by simp [coreEffect]⟩
  | unlinkInfo => cases info <;> exact ⟨rfl, by simp [coreEffect]⟩
  | _ => exact ⟨rfl, by simp [coreEffect]⟩

theorem coreStep_save (env : Env) (i : Nat) (c : Core) :
    (coreStep env .none i (.lockAcquire .save) c).1.jobLock = c.jobLock ∧
    (coreStep env .none i (.lockRelease .save) c).1.jobLock = c.jobLock := by
  have h1 := noteRaise_jobLock (coreEffect env (.lockAcquire .save) c)
  have h2 := noteRaise_jobLock (coreEffect env (.lockRelease .save) c)
  simp only [coreStep]
  rw [h1.1, h2.1]
  constructor
  · simp only [coreEffect, getLock]
    cases acquire c.saveLock <;> rfl
  · rfl

/-- acquisition of the job lock: blocked by a live holder (and by oneself), else the marker becomes mine -/
theorem coreStep_acquire_job (env : Env) (i : Nat) (c : Core) :
    ((c.jobLock = .free ∨ c.jobLock = .otherDead) ∧ (coreStep env .none i (.lockAcquire .job) c).1.jobLock = .mine ∧
      (coreStep env .none i (.lockAcquire .job) c).2.1 = .normal) ∨
    ((c.jobLock = .mine ∨ c.jobLock = .otherLive) ∧ (coreStep env .none i (.lockAcquire .job) c).2.1 = .blocked) := by
  have h := noteRaise_jobLock (coreEffect env (.lockAcquire .job) c)
  simp only [coreStep]
  rw [h.1, h.2]
  obtain ⟨d, r, jl, sl, info, cwd, scwd, rv, je, lrb⟩ := c
  cases jl
  · exact .inl ⟨.inl rfl, rfl, rfl⟩
  · exact .inr ⟨.inl rfl, rfl⟩
  · exact .inr ⟨.inr rfl, rfl⟩
  · exact .inl ⟨.inr rfl, rfl, rfl⟩

theorem coreStep_release_job (env : Env) (i : Nat) (c : Core) :
    (coreStep env .none i (.lockRelease .job) c).1.jobLock = .free ∧
    (coreStep env .none i (.lockRelease .job) c).2.1 = .normal := by
  have h := noteRaise_jobLock (coreEffect env (.lockRelease .job) c)
  simp only [coreStep]
  rw [h.1, h.2]
  exact ⟨rfl, rfl⟩

theorem unview_view (alive : Pid → Bool) (pid : Pid) (old : Option Pid) :
    unviewLock pid old (viewLock alive pid old) = old := by
  cases old with
  | none => rfl
  | some q =>
    simp only [viewLock]
    by_cases h : q = pid
    · simp [h, unviewLock]
    · simp only [h, if_false]
      cases alive q <;> rfl

/-! ### The invariant -/

/-- every configuration is well formed; a LIVE process is inside at most one `with <job lock>:`, and inside one
    exactly when the marker names it -/
def MutexInv (g : Global) : Prop :=
  (∀ pid, (g.procs pid).cfg.wf = true) ∧
  ∀ pid, (g.procs pid).alive = true →
    jobFrames (g.procs pid).cfg.stack ≤ 1 ∧ (jobFrames (g.procs pid).cfg.stack = 1 ↔ g.sh.jobLock = some pid)

theorem mutexInv_init (p : Prog) (hp : p.noBareLock = true) (envs : Pid → Env) (dir : Bool) (result : ResFile) :
    MutexInv (Global.init p envs dir result) := by
  refine ⟨fun pid => ?_, fun pid _ => ?_⟩
  · simp [Global.init, Cfg.wf, Focus.wf, hp]
  · simp [Global.init, jobFrames]

/-- writing back an action of `pid` that leaves its stack and its view of the job marker unchanged -/
theorem inv_writeBack_same (g : Global) (hI : MutexInv g) (pid : Pid) (c : Core) (evs : List Ev) (cfg : Cfg)
    (mid : Bool) (hst : cfg.stack = (g.procs pid).cfg.stack) (hwf : cfg.wf = true)
    (hl : c.jobLock = viewLock g.alive pid g.sh.jobLock) : MutexInv (writeBack g pid c evs cfg mid) := by
  obtain ⟨hW, hM⟩ := hI
  have hjl : (writeBack g pid c evs cfg mid).sh.jobLock = g.sh.jobLock := by
    simp only [writeBack]; rw [hl]; exact unview_view _ _ _
  refine ⟨fun q => ?_, fun q hq => ?_⟩
  · by_cases h : q = pid
    · simp [writeBack, h, hwf]
    · simp [writeBack, h, hW q]
  · rw [hjl]
    by_cases h : q = pid
    · subst h
      have ha : (g.procs q).alive = true := by simpa [writeBack] using hq
      have := hM q ha
      simpa [writeBack, hst] using this
    · have ha : (g.procs q).alive = true := by simpa [writeBack, h] using hq
      have := hM q ha
      simpa [writeBack, h] using this

theorem inv_setProc_cfg (g : Global) (hI : MutexInv g) (pid : Pid) (p' : Proc)
    (hj : jobFrames p'.cfg.stack = jobFrames (g.procs pid).cfg.stack) (hw : p'.cfg.wf = true)
    (ha : p'.alive = true → (g.procs pid).alive = true) : MutexInv (setProc g pid p') := by
  obtain ⟨hW, hM⟩ := hI
  refine ⟨fun q => ?_, fun q hq => ?_⟩
  · by_cases h : q = pid
    · simp [setProc, h, hw]
    · simp [setProc, h, hW q]
  · by_cases h : q = pid
    · subst h
      have hq' : p'.alive = true := by simpa [setProc] using hq
      have := hM q (ha hq')
      simpa [setProc, hj] using this
    · have ha' : (g.procs q).alive = true := by simpa [setProc, h] using hq
      simpa [setProc, h] using hM q ha'

theorem viewLock_mine_iff (alive : Pid → Bool) (pid : Pid) (l : Option Pid) :
    viewLock alive pid l = .mine ↔ l = some pid := by
  cases l with
  | none => simp [viewLock]
  | some q =>
    simp only [viewLock]
    by_cases h : q = pid
    · simp [h]
    · simp only [h, if_false]
      cases alive q <;> simp [h]

theorem viewLock_free_or_dead (alive : Pid → Bool) (pid : Pid) (l : Option Pid)
    (h : viewLock alive pid l = .free ∨ viewLock alive pid l = .otherDead) :
    ∀ q, alive q = true → l ≠ some q := by
  intro q hq hl
  subst hl
  simp only [viewLock] at h
  by_cases hqp : q = pid
  · simp [hqp] at h
  · simp [hqp, hq] at h

theorem mutexInv_step (g : Global) (hI : MutexInv g) (pid : Pid) : MutexInv (gstep g pid) := by
  unfold gstep
  simp only []
  split
  · exact hI
  · rename_i hlive
    have halive : (g.procs pid).alive = true := by
      cases h : (g.procs pid).alive <;> simp [h] at hlive ⊢
    have hshape := next_shape (g.procs pid).env.rerun (g.procs pid).env.prov (g.procs pid).cfg (hI.1 pid)
    cases hnext : (g.procs pid).cfg.next (g.procs pid).env.rerun (g.procs pid).env.prov with
    | tau cfg' =>
      rw [hnext] at hshape
      cases hshape with
      | tau _ hj hw => exact inv_setProc_cfg g hI pid _ hj hw (fun h => h)
    | done c => exact inv_setProc_cfg g hI pid _ rfl (hI.1 pid) (fun h => h)
    | action i a k =>
      rw [hnext] at hshape
      simp only []
      split
      · -- first half of the result write: nothing but the result file changes
        exact inv_writeBack_same g hI pid _ _ _ _ rfl (hI.1 pid) rfl
      · cases hshape with
        | plain _ _ _ ha hk =>
          obtain ⟨hjl, hnb⟩ := coreStep_plain (g.procs pid).env i a (viewCore g pid) ha
          simp only [hnb, if_false]
          exact inv_writeBack_same g hI pid _ _ _ _ (hk _).1 (hk _).2 hjl
        | acquire _ l _ irel hn hk =>
          cases l with
          | save =>
            split
            · exact hI
            · rename_i hnb
              have hjl := (coreStep_save (g.procs pid).env i (viewCore g pid)).1
              by_cases hc : (coreStep (g.procs pid).env .none i (.lockAcquire .save) (viewCore g pid)).2.1 = .normal
              · -- a save-lock frame is pushed: the number of job frames is unchanged
                obtain ⟨hW, hM⟩ := hI
                have hjl' : (writeBack g pid (coreStep (g.procs pid).env .none i (.lockAcquire .save) (viewCore g pid)).1
                    (coreStep (g.procs pid).env .none i (.lockAcquire .save) (viewCore g pid)).2.2
                    (k (coreStep (g.procs pid).env .none i (.lockAcquire .save) (viewCore g pid)).2.1) false).sh.jobLock
                    = g.sh.jobLock := by
                  simp only [writeBack]; rw [hjl]; exact unview_view _ _ _
                refine ⟨fun q => ?_, fun q hq => ?_⟩
                · by_cases h : q = pid
                  · simp [writeBack, h, hc, hn.2]
                  · simp [writeBack, h, hW q]
                · rw [hjl']
                  by_cases h : q = pid
                  · subst h
                    have := hM q halive
                    simpa [writeBack, hc, hn.1, jobFrames] using this
                  · have ha' : (g.procs q).alive = true := by simpa [writeBack, h] using hq
                    simpa [writeBack, h] using hM q ha'
              · exact inv_writeBack_same g hI pid _ _ _ _ (hk _ hc).1 (hk _ hc).2 hjl
          | job =>
            rcases coreStep_acquire_job (g.procs pid).env i (viewCore g pid) with ⟨hfree, hmine, hnorm⟩ | ⟨_, hblk⟩
            · simp only [hnorm, reduceCtorEq, if_false]
              obtain ⟨hW, hM⟩ := hI
              have hview : viewLock g.alive pid g.sh.jobLock = .free ∨ viewLock g.alive pid g.sh.jobLock = .otherDead := hfree
              have hnotmine : g.sh.jobLock ≠ some pid := by
                intro h
                have := (viewLock_mine_iff g.alive pid g.sh.jobLock).mpr h
                rcases hview with h' | h' <;> rw [this] at h' <;> cases h'
              have hothers := viewLock_free_or_dead g.alive pid g.sh.jobLock hview
              have hzero : jobFrames (g.procs pid).cfg.stack = 0 := by
                have := hM pid halive
                have h1 : jobFrames (g.procs pid).cfg.stack ≠ 1 := fun h => hnotmine (this.2.mp h)
                omega
              have hjl' : (writeBack g pid (coreStep (g.procs pid).env .none i (.lockAcquire .job) (viewCore g pid)).1
                  (coreStep (g.procs pid).env .none i (.lockAcquire .job) (viewCore g pid)).2.2
                  (k .normal) false).sh.jobLock = some pid := by
                simp only [writeBack]; rw [hmine]; rfl
              refine ⟨fun q => ?_, fun q hq => ?_⟩
              · by_cases h : q = pid
                · simp [writeBack, h, hn.2]
                · simp [writeBack, h, hW q]
              · rw [hjl']
                by_cases h : q = pid
                · subst h
                  simp [writeBack, hn.1, jobFrames, hzero]
                · have ha' : (g.procs q).alive = true := by simpa [writeBack, h] using hq
                  have hq1 := hM q ha'
                  have hne : g.sh.jobLock ≠ some q := hothers q ha'
                  have h1 : jobFrames (g.procs q).cfg.stack ≠ 1 := fun hh => hne (hq1.2.mp hh)
                  have hsome : (some pid : Option Pid) ≠ some q := fun hh => h (Option.some.inj hh).symm
                  simp only [writeBack, h, if_false]
                  exact ⟨hq1.1, ⟨fun hh => absurd hh h1, fun hh => absurd hh hsome⟩⟩
            · simp only [hblk, if_true]
              exact hI
        | release _ l _ st hs hk =>
          cases l with
          | save =>
            have hnb : (coreStep (g.procs pid).env .none i (.lockRelease .save) (viewCore g pid)).2.1 ≠ .blocked := by
              have h := noteRaise_jobLock (coreEffect (g.procs pid).env (.lockRelease .save) (viewCore g pid))
              simp only [coreStep]; rw [h.2]; simp [coreEffect]
            simp only [hnb, if_false]
            have hjl := (coreStep_save (g.procs pid).env i (viewCore g pid)).2
            obtain ⟨hW, hM⟩ := hI
            have hjl' : (writeBack g pid (coreStep (g.procs pid).env .none i (.lockRelease .save) (viewCore g pid)).1
                (coreStep (g.procs pid).env .none i (.lockRelease .save) (viewCore g pid)).2.2
                (k (coreStep (g.procs pid).env .none i (.lockRelease .save) (viewCore g pid)).2.1) false).sh.jobLock
                = g.sh.jobLock := by
              simp only [writeBack]; rw [hjl]; exact unview_view _ _ _
            refine ⟨fun q => ?_, fun q hq => ?_⟩
            · by_cases h : q = pid
              · simp [writeBack, h, (hk _).2]
              · simp [writeBack, h, hW q]
            · rw [hjl']
              by_cases h : q = pid
              · subst h
                have := hM q halive
                rw [hs] at this
                simpa [writeBack, (hk _).1, jobFrames] using this
              · have ha' : (g.procs q).alive = true := by simpa [writeBack, h] using hq
                simpa [writeBack, h] using hM q ha'
          | job =>
            obtain ⟨hfree, hnorm⟩ := coreStep_release_job (g.procs pid).env i (viewCore g pid)
            simp only [hnorm, reduceCtorEq, if_false]
            obtain ⟨hW, hM⟩ := hI
            have hp := hM pid halive
            rw [hs] at hp
            simp only [jobFrames] at hp
            have hst0 : jobFrames st = 0 := by omega
            have hmine : g.sh.jobLock = some pid := hp.2.mp (by omega)
            have hjl' : (writeBack g pid (coreStep (g.procs pid).env .none i (.lockRelease .job) (viewCore g pid)).1
                (coreStep (g.procs pid).env .none i (.lockRelease .job) (viewCore g pid)).2.2
                (k .normal) false).sh.jobLock = none := by
              simp only [writeBack]; rw [hfree]; rfl
            refine ⟨fun q => ?_, fun q hq => ?_⟩
            · by_cases h : q = pid
              · simp [writeBack, h, (hk _).2]
              · simp [writeBack, h, hW q]
            · rw [hjl']
              by_cases h : q = pid
              · subst h
                simp [writeBack, (hk _).1, hst0]
              · have ha' : (g.procs q).alive = true := by simpa [writeBack, h] using hq
                have hq1 := hM q ha'
                have hne : g.sh.jobLock ≠ some q := by
                  rw [hmine]; intro hh; exact h (Option.some.inj hh).symm
                have h1 : jobFrames (g.procs q).cfg.stack ≠ 1 := fun hh => hne (hq1.2.mp hh)
                simp only [writeBack, h, if_false]
                exact ⟨hq1.1, ⟨fun hh => absurd hh h1, fun hh => by cases hh⟩⟩

theorem mutexInv_die (g : Global) (hI : MutexInv g) (pid : Pid) : MutexInv (gdie g pid) := by
  unfold gdie
  exact inv_setProc_cfg g hI pid _ rfl (hI.1 pid) (fun h => by cases h)

theorem mutexInv_run (g : Global) (hI : MutexInv g) (ms : List Move) : MutexInv (grun g ms) := by
  induction ms generalizing g with
  | nil => exact hI
  | cons m ms ih =>
    apply ih
    cases m with
    | step pid => exact mutexInv_step g hI pid
    | die pid => exact mutexInv_die g hI pid

/-- at most one live process is inside `with <job lock>:` -/
theorem mutex_of_inv (g : Global) (hI : MutexInv g) (p q : Pid) (hp : (g.procs p).alive = true)
    (hq : (g.procs q).alive = true) (hpi : (g.procs p).cfg.holdsJob = true) (hqi : (g.procs q).cfg.holdsJob = true) :
    p = q := by
  have h1 := hI.2 p hp
  have h2 := hI.2 q hq
  simp only [Cfg.holdsJob, bne_iff_ne, ne_eq] at hpi hqi
  have e1 : g.sh.jobLock = some p := h1.2.mp (by omega)
  have e2 : g.sh.jobLock = some q := h2.2.mp (by omega)
  rw [e1] at e2
  exact Option.some.inj e2

end PydraModel.JobProto
