import PydraModel.JobProto.CacheHist
/-
Helper lemmas for C11 (refinement to the abstract cache, frame, counting invariant, determinism invariant).
-/
namespace PydraModel.JobProto.CacheHist

/-! ### look-up -/

theorem alookup_abs (st : St) (k : Key) (ls : List Loc) :
    alookup (abs st).cache k ls = lookupWith true st.store k ls := by
  induction ls with
  | nil => rfl
  | cons l ls ih =>
    simp only [alookup, lookupWith, abs]
    cases h : st.store l k <;> simp [absCell] <;> exact ih

theorem lookup_some_mem (skip : Bool) (s : Store) (k : Key) (ls : List Loc) (r : Res)
    (h : lookupWith skip s k ls = some r) : ∃ l ∈ ls, s l k = .complete r := by
  induction ls with
  | nil => simp [lookupWith] at h
  | cons l ls ih =>
    simp only [lookupWith] at h
    cases hc : s l k with
    | absent =>
      rw [hc] at h
      obtain ⟨l', hl', he⟩ := ih h
      exact ⟨l', by simp [hl'], he⟩
    | incomplete =>
      rw [hc] at h
      cases skip with
      | true =>
        simp at h
        obtain ⟨l', hl', he⟩ := ih h
        exact ⟨l', by simp [hl'], he⟩
      | false => simp at h
    | complete r' =>
      rw [hc] at h
      simp at h
      exact ⟨l, by simp, by rw [hc, h]⟩

/-- with the repaired `load_result`, a complete result anywhere in the list is found, whatever leftover
    directories precede it -/
theorem lookup_finds (s : Store) (k : Key) (ls : List Loc) (l : Loc) (r : Res) (hl : l ∈ ls)
    (h : s l k = .complete r) : ∃ r', lookupWith true s k ls = some r' := by
  induction ls with
  | nil => simp at hl
  | cons x xs ih =>
    simp only [lookupWith]
    cases hc : s x k with
    | complete r' => exact ⟨r', rfl⟩
    | absent =>
      rcases List.mem_cons.mp hl with rfl | hm
      · rw [h] at hc; cases hc
      · exact ih hm
    | incomplete =>
      rcases List.mem_cons.mp hl with rfl | hm
      · rw [h] at hc; cases hc
      · simpa using ih hm

theorem lookup_root_complete (skip : Bool) (s : Store) (k : Key) (w : Loc) (ro : List Loc) (r : Res)
    (h : s w k = .complete r) : lookupWith skip s k (w :: ro) = some r := by
  simp [lookupWith, h]

@[simp] theorem set_same (s : Store) (l : Loc) (k : Key) (c : Cell) : (s.set l k c) l k = c := by
  simp [Store.set]

theorem set_other (s : Store) (l l' : Loc) (k k' : Key) (c : Cell) (h : ¬ (l' = l ∧ k' = k)) :
    (s.set l k c) l' k' = s l' k' := by
  simp [Store.set, h]

/-! ### refinement -/

theorem abs_hit (st : St) (k : Key) (sb : Sub) (v : Nat) : abs (hit st k sb v) = abs st := rfl

theorem abs_execute (st : St) (k : Key) (sb : Sub) (found : Option Res) (r : Res) :
    abs (execute st k sb found r) = ⟨(abs st).cache.set sb.root k (some r), (abs st).bump k⟩ := by
  simp only [abs, execute, ASt.bump, Store.set]
  congr 1
  funext l' k'
  by_cases h : l' = sb.root ∧ k' = k <;> simp [h, absCell, ACache.set]

theorem cachedTest_abs (st : St) (k : Key) (sb : Sub) :
    cachedTest true st k sb = aTest (abs st) k sb := by
  simp [cachedTest, aTest, alookup_abs]

theorem abs_execute' (st : St) (k : Key) (sb : Sub) (found : Option Res) (r : Res) :
    abs (execute st k sb found r) = aStore (abs st) k sb r := abs_execute st k sb found r

theorem refine_task (W : World) (st : St) (n : Nat) (sb : Sub) :
    abs (runTask W true st n sb).1 = (specTask W (abs st) n sb).1
    ∧ (runTask W true st n sb).2 = (specTask W (abs st) n sb).2 := by
  unfold runTask specTask
  rw [cachedTest_abs]
  show _ ∧ _
  unfold aTest
  generalize (if sb.rerun then none else alookup (abs st).cache (.task n) sb.locs) = f
  cases f with
  | none => exact ⟨abs_execute _ _ _ _ _, rfl⟩
  | some r =>
    cases r with
    | ok v => exact ⟨rfl, rfl⟩
    | err => exact ⟨abs_execute _ _ _ _ _, rfl⟩

theorem refine_nodes (W : World) (p : Bool) (nodes : Nodes) (sb : Sub) (st : St) :
    abs (runNodes W true true p sb st nodes).1 = (specNodes W p sb (abs st) nodes).1
    ∧ (runNodes W true true p sb st nodes).2 = (specNodes W p sb (abs st) nodes).2 := by
  induction nodes generalizing sb st with
  | nil => exact ⟨rfl, rfl⟩
  | task n rest ih =>
    obtain ⟨h1, h2⟩ := refine_task W st n sb
    simp only [runNodes, specNodes]
    cases hr : runTask W true st n sb with
    | mk st1 r =>
      cases hs : specTask W (abs st) n sb with
      | mk a1 r' =>
        rw [hr, hs] at h1 h2
        simp only at h1 h2
        subst h2
        cases r with
        | ok v => rw [← h1]; exact ih sb st1
        | err => exact ⟨h1, rfl⟩
  | wf n inner rest ihi ihr =>
    obtain ⟨i1, i2⟩ := ihi (innerSub p sb) st
    have hsb : nodeSub true sb = sb := rfl
    simp only [runNodes, specNodes, hsb, cachedTest_abs]
    cases hR : runNodes W true true p (innerSub p sb) st inner with
    | mk stI b =>
      cases hS : specNodes W p (innerSub p sb) (abs st) inner with
      | mk aI b' =>
        rw [hR, hS] at i1 i2
        simp only at i1 i2
        subst i2
        subst i1
        cases hf : aTest (abs st) (.wf n) sb with
        | none =>
          cases b with
          | false => exact ⟨abs_execute' _ _ _ _ _, rfl⟩
          | true =>
            simp only [if_true]
            rw [← abs_execute' stI (.wf n) sb none]
            exact ihr sb _
        | some r =>
          cases r with
          | ok v => exact ihr sb (hit st (.wf n) sb v)
          | err =>
            cases b with
            | false => exact ⟨abs_execute' _ _ _ _ _, rfl⟩
            | true =>
              simp only [if_true]
              rw [← abs_execute' stI (.wf n) sb (some .err)]
              exact ihr sb _

theorem refine_wf (W : World) (st : St) (n : Nat) (nodes : Nodes) (sb : Sub) (p : Bool) :
    abs (runWf W true true st n nodes sb p).1 = (specWf W (abs st) n nodes sb p).1
    ∧ (runWf W true true st n nodes sb p).2 = (specWf W (abs st) n nodes sb p).2 := by
  unfold runWf specWf
  rw [cachedTest_abs]
  obtain ⟨h1, h2⟩ := refine_nodes W p nodes (innerSub p sb) st
  cases hf : aTest (abs st) (.wf n) sb with
  | none => dsimp only; exact ⟨by rw [abs_execute', h1, h2], by rw [h2]⟩
  | some r =>
    cases r with
    | ok v => exact ⟨rfl, rfl⟩
    | err => dsimp only; exact ⟨by rw [abs_execute', h1, h2], by rw [h2]⟩

/-- what `runTask` returns is what a look-up afterwards finds -/
theorem readBack_task (W : World) (st : St) (n : Nat) (sb : Sub) :
    readBack true (runTask W true st n sb).1 (.task n) sb = some (runTask W true st n sb).2 := by
  unfold runTask
  cases hf : cachedTest true st (.task n) sb with
  | none => simp [readBack, execute, Sub.locs, lookupWith]
  | some r =>
    cases r with
    | err => simp [readBack, execute, Sub.locs, lookupWith]
    | ok v =>
      simp only [readBack, hit]
      unfold cachedTest at hf
      split at hf
      · cases hf
      · exact hf

theorem lookup_congr (skip : Bool) (s s' : Store) (k : Key) (ls : List Loc) (h : ∀ l, s l k = s' l k) :
    lookupWith skip s k ls = lookupWith skip s' k ls := by
  induction ls with
  | nil => rfl
  | cons l ls ih => simp only [lookupWith, h l, ih]

theorem readBack_wf (W : World) (nest : Bool) (st : St) (n : Nat) (nodes : Nodes) (sb : Sub) (p : Bool) :
    readBack true (runWf W true nest st n nodes sb p).1 (.wf n) sb = some (runWf W true nest st n nodes sb p).2 := by
  unfold runWf
  cases hf : cachedTest true st (.wf n) sb with
  | none => simp [readBack, execute, Sub.locs, lookupWith]
  | some r =>
    cases r with
    | err => simp [readBack, execute, Sub.locs, lookupWith]
    | ok v =>
      simp only [readBack, hit]
      unfold cachedTest at hf
      split at hf
      · cases hf
      · exact hf

theorem refine_step (W : World) (st : St) (op : Op) :
    abs (step W true true st op).1 = (specStep W (abs st) op).1
    ∧ (step W true true st op).2 = (specStep W (abs st) op).2 := by
  cases op with
  | submit n sb =>
    obtain ⟨h1, h2⟩ := refine_task W st n sb
    exact ⟨h1, by simp only [step, specStep, readBack_task, h2]⟩
  | submitWf n nodes sb p =>
    obtain ⟨h1, h2⟩ := refine_wf W st n nodes sb p
    exact ⟨h1, by simp only [step, specStep, readBack_wf, h2]⟩
  | plant l k =>
    refine ⟨?_, rfl⟩
    simp only [step, specStep, abs, Store.set]
    congr 1
    funext l' k'
    by_cases h : l' = l ∧ k' = k <;> simp [h, absCell, ACache.set]

theorem refine_trace (W : World) (ops : List Op) (st : St) :
    (trace W true true st ops).1 = (specTrace W (abs st) ops).1
    ∧ abs (trace W true true st ops).2 = (specTrace W (abs st) ops).2 := by
  induction ops generalizing st with
  | nil => exact ⟨rfl, rfl⟩
  | cons op ops ih =>
    obtain ⟨h1, h2⟩ := refine_step W st op
    obtain ⟨i1, i2⟩ := ih (step W true true st op).1
    simp only [trace, specTrace]
    rw [← h1, ← h2]
    exact ⟨by rw [i1], i2⟩

/-! ### a generic way to carry a state predicate through the node jobs of a workflow, at every depth -/

/-- if `P` survives a task job, an early return and the saving of a workflow result (for the workflow identities
    allowed by `okKey`), it survives the node jobs of a workflow at every nesting depth -/
theorem runNodes_pres (W : World) (skip nest p : Bool) (w0 : Loc) (okKey : Nat → Prop) (P : St → Prop)
    (hTask : ∀ st n sb, sb.root = w0 → P st → P (runTask W skip st n sb).1)
    (hHit : ∀ st m sb v, sb.root = w0 → okKey m → P st → P (hit st (.wf m) sb v))
    (hExec : ∀ st m sb found r, sb.root = w0 → okKey m → P st → P (execute st (.wf m) sb found r))
    (nodes : Nodes) (hkeys : ∀ m ∈ nodes.wfKeys, okKey m) :
    ∀ (sb : Sub) (st : St), sb.root = w0 → P st → P (runNodes W skip nest p sb st nodes).1 := by
  induction nodes with
  | nil => intro sb st _ h; exact h
  | task n rest ih =>
    intro sb st hw h
    simp only [runNodes]
    have h1 := hTask st n sb hw h
    cases hr : runTask W skip st n sb with
    | mk st1 r =>
      rw [hr] at h1
      cases r with
      | ok v => exact ih (fun m hm => hkeys m (by simpa [Nodes.wfKeys] using hm)) sb st1 hw h1
      | err => exact h1
  | wf n inner rest ihi ihr =>
    intro sb st hw h
    have hn : okKey n := hkeys n (by simp [Nodes.wfKeys])
    have hki : ∀ m ∈ inner.wfKeys, okKey m := fun m hm => hkeys m (by simp [Nodes.wfKeys, hm])
    have hkr : ∀ m ∈ rest.wfKeys, okKey m := fun m hm => hkeys m (by simp [Nodes.wfKeys, hm])
    simp only [runNodes]
    have hwj : (nodeSub nest sb).root = w0 := hw
    have hwi : (innerSub p (nodeSub nest sb)).root = w0 := hw
    generalize nodeSub nest sb = sbJob at hwj hwi ⊢
    cases hf : cachedTest skip st (.wf n) sbJob with
    | some r =>
      cases r with
      | ok v => exact ihr hkr sb _ hw (hHit st n sbJob v hwj hn h)
      | err =>
        simp only []
        have hin := ihi hki (innerSub p sbJob) st hwi h
        have hex := hExec _ n sbJob (some .err) (wfRes W n (runNodes W skip nest p (innerSub p sbJob) st inner).2) hwj hn hin
        split
        · exact ihr hkr sb _ hw hex
        · exact hex
    | none =>
      simp only []
      have hin := ihi hki (innerSub p sbJob) st hwi h
      have hex := hExec _ n sbJob none (wfRes W n (runNodes W skip nest p (innerSub p sbJob) st inner).2) hwj hn hin
      split
      · exact ihr hkr sb _ hw hex
      · exact hex

theorem runWf_pres (W : World) (skip nest p : Bool) (okKey : Nat → Prop) (P : St → Prop) (sb : Sub)
    (hTask : ∀ st n sb', sb'.root = sb.root → P st → P (runTask W skip st n sb').1)
    (hHit : ∀ st m sb' v, sb'.root = sb.root → okKey m → P st → P (hit st (.wf m) sb' v))
    (hExec : ∀ st m sb' found r, sb'.root = sb.root → okKey m → P st → P (execute st (.wf m) sb' found r))
    (n : Nat) (nodes : Nodes) (hn : okKey n) (hkeys : ∀ m ∈ nodes.wfKeys, okKey m) (st : St) (h : P st) :
    P (runWf W skip nest st n nodes sb p).1 := by
  unfold runWf
  have hin := runNodes_pres W skip nest p sb.root okKey P hTask hHit hExec nodes hkeys
    (innerSub p sb) st rfl h
  cases cachedTest skip st (.wf n) sb with
  | none => exact hExec _ n sb _ _ rfl hn hin
  | some r =>
    cases r with
    | ok v => exact hHit st n sb v rfl hn h
    | err => exact hExec _ n sb _ _ rfl hn hin

/-! ### frame: only `cache_root` is written -/

theorem runTask_frame (W : World) (skip : Bool) (st : St) (n : Nat) (sb : Sub) (l : Loc) (hl : l ≠ sb.root) (k : Key) :
    (runTask W skip st n sb).1.store l k = st.store l k := by
  unfold runTask
  cases cachedTest skip st (.task n) sb with
  | none => simp [execute, Store.set, hl]
  | some r => cases r <;> simp [execute, hit, Store.set, hl]

theorem execute_frame (st : St) (k' : Key) (sb : Sub) (found : Option Res) (r : Res) (l : Loc) (hl : l ≠ sb.root)
    (k : Key) : (execute st k' sb found r).store l k = st.store l k := by
  simp [execute, Store.set, hl]

theorem runNodes_frame (W : World) (skip nest p : Bool) (sb : Sub) (nodes : Nodes) (st : St) (l : Loc)
    (hl : l ≠ sb.root) (k : Key) : (runNodes W skip nest p sb st nodes).1.store l k = st.store l k := by
  refine runNodes_pres W skip nest p sb.root (fun _ => True) (fun s => s.store l k = st.store l k) ?_ ?_ ?_
    nodes (fun _ _ => trivial) sb st rfl rfl
  · intro s n sb' hr h; rw [runTask_frame W skip s n sb' l (by rw [hr]; exact hl) k]; exact h
  · intro s m sb' v _ _ h; exact h
  · intro s m sb' found r hr _ h; rw [execute_frame s _ sb' found r l (by rw [hr]; exact hl) k]; exact h

theorem runWf_frame (W : World) (skip nest : Bool) (st : St) (n : Nat) (nodes : Nodes) (sb : Sub) (p : Bool)
    (l : Loc) (hl : l ≠ sb.root) (k : Key) : (runWf W skip nest st n nodes sb p).1.store l k = st.store l k := by
  refine runWf_pres W skip nest p (fun _ => True) (fun s => s.store l k = st.store l k) sb ?_ ?_ ?_
    n nodes trivial (fun _ _ => trivial) st rfl
  · intro s n sb' hr h; rw [runTask_frame W skip s n sb' l (by rw [hr]; exact hl) k]; exact h
  · intro s m sb' v _ _ h; exact h
  · intro s m sb' found r hr _ h; rw [execute_frame s _ sb' found r l (by rw [hr]; exact hl) k]; exact h

theorem step_frame (W : World) (skip nest : Bool) (st : St) (op : Op) (l : Loc)
    (hroot : op.root? ≠ some l) (hplant : ∀ k, op ≠ .plant l k) (k : Key) :
    (step W skip nest st op).1.store l k = st.store l k := by
  cases op with
  | submit n sb =>
    exact runTask_frame W skip st n sb l (fun h => hroot (by simp [Op.root?, h])) k
  | submitWf n nodes sb p =>
    exact runWf_frame W skip nest st n nodes sb p l (fun h => hroot (by simp [Op.root?, h])) k
  | plant l' k' =>
    simp only [step, Store.set]
    by_cases h : l = l' ∧ k = k'
    · exact absurd (by rw [h.1, h.2]) (hplant k)
    · simp [h]

/-! ### counting invariant (at most once) -/

def Cell.isComplete : Cell → Bool
  | .complete _ => true
  | _ => false

/-- executions into `(w, k)` are paid for by: one first execution while nothing complete is there (`b`),
    rerun submissions, submissions whose cached-result test saw an errored result, and killed runs (`p`) -/
def Inv (w : Loc) (k : Key) (st : St) (p : Nat) : Prop :=
  execsAt st.log w k + (if (st.store w k).isComplete then 0 else 1)
    ≤ rerunsAt st.log w k + foundErrAt st.log w k + p + 1

theorem execsAt_cons (e : Event) (log : List Event) (w : Loc) (k : Key) :
    execsAt (e :: log) w k = execsAt log w k + (if e.key = k ∧ e.root = w ∧ e.executed = true then 1 else 0) := by
  simp [execsAt, List.countP_cons]

theorem rerunsAt_cons (e : Event) (log : List Event) (w : Loc) (k : Key) :
    rerunsAt (e :: log) w k = rerunsAt log w k + (if e.key = k ∧ e.root = w ∧ e.rerun = true then 1 else 0) := by
  simp [rerunsAt, List.countP_cons]

theorem foundErrAt_cons (e : Event) (log : List Event) (w : Loc) (k : Key) :
    foundErrAt (e :: log) w k
      = foundErrAt log w k + (if e.key = k ∧ e.root = w ∧ e.found = some .err then 1 else 0) := by
  simp [foundErrAt, List.countP_cons]

theorem ite_le_one (c : Prop) [Decidable c] : (if c then 1 else 0 : Nat) ≤ 1 := by split <;> omega

theorem inv_hit (w : Loc) (k : Key) (st : St) (p : Nat) (k' : Key) (sb : Sub) (v : Nat)
    (h : Inv w k st p) : Inv w k (hit st k' sb v) p := by
  unfold Inv at *
  show execsAt (_ :: st.log) w k + (if (st.store w k).isComplete then 0 else 1)
      ≤ rerunsAt (_ :: st.log) w k + foundErrAt (_ :: st.log) w k + p + 1
  rw [execsAt_cons, rerunsAt_cons, foundErrAt_cons]
  simp only [Bool.false_eq_true, and_false, if_false, reduceCtorEq, Option.some.injEq, Nat.add_zero]
  omega

theorem inv_execute (w : Loc) (k : Key) (st : St) (p : Nat) (k' : Key) (sb : Sub) (found : Option Res) (r : Res)
    (h : Inv w k st p)
    (hpay : k' = k → sb.root = w → (st.store w k).isComplete = true → sb.rerun = true ∨ found = some .err) :
    Inv w k (execute st k' sb found r) p := by
  unfold Inv at *
  show execsAt (_ :: st.log) w k + (if ((st.store.set sb.root k' (.complete r)) w k).isComplete then 0 else 1)
      ≤ rerunsAt (_ :: st.log) w k + foundErrAt (_ :: st.log) w k + p + 1
  rw [execsAt_cons, rerunsAt_cons, foundErrAt_cons]
  by_cases hk : k' = k ∧ sb.root = w
  · obtain ⟨rfl, rfl⟩ := hk
    simp only [set_same, Cell.isComplete, true_and, and_self, if_true]
    cases hc : (st.store sb.root k').isComplete with
    | false =>
      simp only [hc, Bool.false_eq_true, if_false] at h
      omega
    | true =>
      simp only [hc, if_true] at h
      rcases hpay rfl rfl hc with hr | hf
      · simp only [hr, if_true]; omega
      · simp only [hf, if_true]; omega
  · have hcell : (st.store.set sb.root k' (.complete r)) w k = st.store w k :=
      set_other _ _ _ _ _ _ (by intro ⟨a, b⟩; exact hk ⟨b.symm, a.symm⟩)
    have e1 : ¬ (k' = k ∧ sb.root = w ∧ True) := fun ⟨a, b, _⟩ => hk ⟨a, b⟩
    have e2 : ¬ (k' = k ∧ sb.root = w ∧ sb.rerun = true) := fun ⟨a, b, _⟩ => hk ⟨a, b⟩
    have e3 : ¬ (k' = k ∧ sb.root = w ∧ found = some Res.err) := fun ⟨a, b, _⟩ => hk ⟨a, b⟩
    rw [hcell]
    simp only [e1, e2, e3, if_false, Nat.add_zero]
    exact h

/-- if the root cell is complete, the cached-result test either is skipped (rerun) or sees that cell -/
theorem cachedTest_root_complete (skip : Bool) (st : St) (k : Key) (sb : Sub)
    (hc : (st.store sb.root k).isComplete = true) :
    sb.rerun = true ∨ ∃ r, st.store sb.root k = .complete r ∧ cachedTest skip st k sb = some r := by
  cases hr : sb.rerun with
  | true => left; rfl
  | false =>
    right
    cases hcell : st.store sb.root k with
    | absent => simp [hcell, Cell.isComplete] at hc
    | incomplete => simp [hcell, Cell.isComplete] at hc
    | complete r => exact ⟨r, rfl, by simp [cachedTest, hr, Sub.locs, lookupWith, hcell]⟩

theorem inv_runTask (W : World) (skip : Bool) (w : Loc) (k : Key) (st : St) (p : Nat) (n : Nat) (sb : Sub)
    (h : Inv w k st p) : Inv w k (runTask W skip st n sb).1 p := by
  unfold runTask
  cases hf : cachedTest skip st (.task n) sb with
  | none =>
    refine inv_execute w k st p _ sb _ _ h ?_
    intro hk hw hc
    subst hk; subst hw
    rcases cachedTest_root_complete skip st _ sb hc with hr | ⟨r, _, ht⟩
    · exact Or.inl hr
    · rw [hf] at ht; cases ht
  | some r =>
    cases r with
    | ok v => exact inv_hit w k st p _ sb v h
    | err =>
      refine inv_execute w k st p _ sb _ _ h ?_
      intro _ _ _
      exact Or.inr rfl

theorem runTask_store_wf (W : World) (skip : Bool) (st : St) (n : Nat) (sb : Sub) (l : Loc) (m : Nat) :
    (runTask W skip st n sb).1.store l (.wf m) = st.store l (.wf m) := by
  unfold runTask
  cases cachedTest skip st (.task n) sb with
  | none => simp [execute, Store.set]
  | some r => cases r <;> simp [execute, hit, Store.set]

/-- workflow cells of an identity that does not occur among the nodes are not touched by running them -/
theorem runNodes_store_wf (W : World) (skip nest p : Bool) (sb : Sub) (nodes : Nodes) (st : St) (l : Loc) (m : Nat)
    (hm : m ∉ nodes.wfKeys) : (runNodes W skip nest p sb st nodes).1.store l (.wf m) = st.store l (.wf m) := by
  refine runNodes_pres W skip nest p sb.root (fun m' => m' ≠ m) (fun s => s.store l (.wf m) = st.store l (.wf m))
    ?_ ?_ ?_ nodes (fun m' hm' he => hm (he ▸ hm')) sb st rfl rfl
  · intro s n sb' _ h; rw [runTask_store_wf]; exact h
  · intro s m' sb' v _ _ h; exact h
  · intro s m' sb' found r _ hne h
    have : ¬ (l = sb'.root ∧ Key.wf m = Key.wf m') := by
      intro ⟨_, he⟩; injection he with he; exact hne he.symm
    simp only [execute, Store.set, this, if_false]
    exact h

theorem inv_runNodes (W : World) (skip nest pr : Bool) (w : Loc) (k : Key) (p : Nat) (nodes : Nodes)
    (hac : nodes.Acyclic) : ∀ (sb : Sub) (st : St), Inv w k st p → Inv w k (runNodes W skip nest pr sb st nodes).1 p := by
  induction nodes with
  | nil => intro sb st h; exact h
  | task n rest ih =>
    intro sb st h
    simp only [runNodes]
    have h1 := inv_runTask W skip w k st p n sb h
    cases hr : runTask W skip st n sb with
    | mk st1 r =>
      rw [hr] at h1
      cases r with
      | ok v => exact ih hac sb st1 h1
      | err => exact h1
  | wf n inner rest ihi ihr =>
    intro sb st h
    obtain ⟨hni, haci, hacr⟩ := hac
    simp only [runNodes]
    generalize nodeSub nest sb = sbJob
    have hin := ihi haci (innerSub pr sbJob) st h
    have hstore : ∀ l, (runNodes W skip nest pr (innerSub pr sbJob) st inner).1.store l (.wf n) = st.store l (.wf n) :=
      fun l => runNodes_store_wf W skip nest pr _ inner st l n hni
    cases hf : cachedTest skip st (.wf n) sbJob with
    | none =>
      simp only []
      have hex : Inv w k (execute (runNodes W skip nest pr (innerSub pr sbJob) st inner).1 (.wf n) sbJob none
          (wfRes W n (runNodes W skip nest pr (innerSub pr sbJob) st inner).2)) p := by
        refine inv_execute w k _ p _ sbJob _ _ hin ?_
        intro hk hw hc
        subst hk; subst hw
        rw [hstore] at hc
        rcases cachedTest_root_complete skip st _ sbJob hc with hr | ⟨r, _, ht⟩
        · exact Or.inl hr
        · rw [hf] at ht; cases ht
      split
      · exact ihr hacr sb _ hex
      · exact hex
    | some r =>
      cases r with
      | ok v => exact ihr hacr sb _ (inv_hit w k st p _ sbJob v h)
      | err =>
        simp only []
        have hex : Inv w k (execute (runNodes W skip nest pr (innerSub pr sbJob) st inner).1 (.wf n) sbJob (some .err)
            (wfRes W n (runNodes W skip nest pr (innerSub pr sbJob) st inner).2)) p :=
          inv_execute w k _ p _ sbJob _ _ hin (fun _ _ _ => Or.inr rfl)
        split
        · exact ihr hacr sb _ hex
        · exact hex

theorem inv_runWf (W : World) (skip nest : Bool) (w : Loc) (k : Key) (st : St) (p : Nat) (n : Nat) (nodes : Nodes)
    (sb : Sub) (pr : Bool) (hn : n ∉ nodes.wfKeys) (hac : nodes.Acyclic) (h : Inv w k st p) :
    Inv w k (runWf W skip nest st n nodes sb pr).1 p := by
  unfold runWf
  have hin := inv_runNodes W skip nest pr w k p nodes hac (innerSub pr sb) st h
  have hstore : ∀ l, (runNodes W skip nest pr (innerSub pr sb) st nodes).1.store l (.wf n) = st.store l (.wf n) :=
    fun l => runNodes_store_wf W skip nest pr _ nodes st l n hn
  cases hf : cachedTest skip st (.wf n) sb with
  | none =>
    refine inv_execute w k _ p _ sb _ _ hin ?_
    intro hk hw hc
    subst hk; subst hw
    rw [hstore] at hc
    rcases cachedTest_root_complete skip st _ sb hc with hr | ⟨r, _, ht⟩
    · exact Or.inl hr
    · rw [hf] at ht; cases ht
  | some r =>
    cases r with
    | ok v => exact inv_hit w k st p _ sb v h
    | err =>
      refine inv_execute w k _ p _ sb _ _ hin ?_
      intro _ _ _
      exact Or.inr rfl

theorem inv_step (W : World) (skip nest : Bool) (w : Loc) (k : Key) (st : St) (p : Nat) (op : Op) (hac : op.Acyclic)
    (h : Inv w k st p) : Inv w k (step W skip nest st op).1 (p + (if op = .plant w k then 1 else 0)) := by
  cases op with
  | submit n sb => simpa [step] using inv_runTask W skip w k st p n sb h
  | submitWf n nodes sb pr => simpa [step] using inv_runWf W skip nest w k st p n nodes sb pr hac.1 hac.2 h
  | plant l k' =>
    unfold Inv at *
    simp only [step]
    by_cases hk : l = w ∧ k' = k
    · obtain ⟨rfl, rfl⟩ := hk
      simp only [set_same, Cell.isComplete, if_true]
      split at h <;> simp at h ⊢ <;> omega
    · have hcell : (st.store.set l k' .incomplete) w k = st.store w k :=
        set_other _ _ _ _ _ _ (by intro ⟨a, b⟩; exact hk ⟨a.symm, b.symm⟩)
      have hne : ¬ (Op.plant l k' = Op.plant w k) := by
        intro he; injection he with a b; exact hk ⟨a, b⟩
      simp only [hcell, hne, if_false, Nat.add_zero]
      exact h

theorem inv_run (W : World) (skip nest : Bool) (w : Loc) (k : Key) (ops : List Op) (hac : ∀ op ∈ ops, op.Acyclic)
    (st : St) (p : Nat) (h : Inv w k st p) : Inv w k (run W skip nest st ops) (p + plantsAt ops w k) := by
  induction ops generalizing st p with
  | nil => simpa [run, trace, plantsAt] using h
  | cons op ops ih =>
    have h1 := inv_step W skip nest w k st p op (hac op (by simp)) h
    have h2 := ih (fun o ho => hac o (by simp [ho])) (step W skip nest st op).1 _ h1
    simp only [run, trace] at h2 ⊢
    have : p + (if op = .plant w k then 1 else 0) + plantsAt ops w k = p + plantsAt (op :: ops) w k := by
      simp only [plantsAt, List.countP_cons]
      by_cases he : op = .plant w k <;> simp [he] <;> omega
    rw [← this]
    exact h2

/-! ### deterministic tasks: every stored result is the value of a fresh execution -/

def Good (W : World) (n : Nat) (st : St) : Prop :=
  ∀ l r, st.store l (.task n) = .complete r → r = W.body n 0

theorem good_hit (W : World) (n : Nat) (st : St) (k : Key) (sb : Sub) (v : Nat) (h : Good W n st) :
    Good W n (hit st k sb v) := h

theorem good_execute (W : World) (n : Nat) (st : St) (k : Key) (sb : Sub) (found : Option Res) (r : Res)
    (h : Good W n st) (hr : k = .task n → r = W.body n 0) : Good W n (execute st k sb found r) := by
  intro l r' hc
  simp only [execute, Store.set] at hc
  split at hc
  · rename_i hh
    cases hc
    exact hr hh.2.symm
  · exact h l r' hc

theorem good_runTask (W : World) (skip : Bool) (n : Nat) (hdet : ∀ i, W.body n i = W.body n 0) (st : St) (m : Nat)
    (sb : Sub) (h : Good W n st) : Good W n (runTask W skip st m sb).1 := by
  unfold runTask
  cases cachedTest skip st (.task m) sb with
  | none => exact good_execute W n st _ sb _ _ h (by intro he; injection he with he; subst he; exact hdet _)
  | some r =>
    cases r with
    | ok v => exact h
    | err => exact good_execute W n st _ sb _ _ h (by intro he; injection he with he; subst he; exact hdet _)

theorem good_step (W : World) (skip nest : Bool) (n : Nat) (hdet : ∀ i, W.body n i = W.body n 0) (st : St) (op : Op)
    (h : Good W n st) : Good W n (step W skip nest st op).1 := by
  cases op with
  | submit m sb => exact good_runTask W skip n hdet st m sb h
  | submitWf m nodes sb p =>
    refine runWf_pres W skip nest p (fun _ => True) (Good W n) sb ?_ ?_ ?_ m nodes trivial (fun _ _ => trivial) st h
    · intro s m' sb' _ hs; exact good_runTask W skip n hdet s m' sb' hs
    · intro s m' sb' v _ _ hs; exact hs
    · intro s m' sb' found r _ _ hs; exact good_execute W n s _ sb' found r hs (by intro he; cases he)
  | plant l k =>
    intro l' r hc
    simp only [step, Store.set] at hc
    split at hc
    · cases hc
    · exact h l' r hc

theorem runTask_value (W : World) (skip : Bool) (n : Nat) (hdet : ∀ i, W.body n i = W.body n 0) (st : St) (sb : Sub)
    (h : Good W n st) : (runTask W skip st n sb).2 = W.body n 0 := by
  unfold runTask
  cases hf : cachedTest skip st (.task n) sb with
  | none => exact hdet _
  | some r =>
    cases r with
    | err => exact hdet _
    | ok v =>
      simp only
      unfold cachedTest at hf
      split at hf
      · cases hf
      · obtain ⟨l, _, hc⟩ := lookup_some_mem skip st.store _ _ _ hf
        exact h l _ hc

/-- for a task that deterministically succeeds no cached-result test ever sees an errored result -/
def NoErrLog (n : Nat) (log : List Event) : Prop := ∀ e ∈ log, e.key = .task n → e.found ≠ some .err

theorem cachedTest_good (W : World) (skip : Bool) (n : Nat) (st : St) (sb : Sub) (h : Good W n st) (r : Res)
    (hf : cachedTest skip st (.task n) sb = some r) : r = W.body n 0 := by
  unfold cachedTest at hf
  split at hf
  · cases hf
  · obtain ⟨l, _, hc⟩ := lookup_some_mem skip st.store _ _ _ hf
    exact h l _ hc

theorem noerr_runTask (W : World) (skip : Bool) (n : Nat) (v0 : Nat) (hok : W.body n 0 = .ok v0) (st : St) (m : Nat)
    (sb : Sub) (hg : Good W n st) (h : NoErrLog n st.log) : NoErrLog n (runTask W skip st m sb).1.log := by
  unfold runTask
  cases hf : cachedTest skip st (.task m) sb with
  | none =>
    intro e he
    simp only [execute, List.mem_cons] at he
    rcases he with rfl | he
    · intro _; simp
    · exact h e he
  | some r =>
    cases r with
    | ok v =>
      intro e he
      simp only [hit, List.mem_cons] at he
      rcases he with rfl | he
      · intro _; simp
      · exact h e he
    | err =>
      intro e he
      simp only [execute, List.mem_cons] at he
      rcases he with rfl | he
      · intro hk
        simp only at hk
        injection hk with hk
        subst hk
        have := cachedTest_good W skip m st sb hg _ hf
        rw [hok] at this
        cases this
      · exact h e he

theorem noerr_step (W : World) (skip nest : Bool) (n : Nat) (v0 : Nat) (hok : W.body n 0 = .ok v0)
    (hdet : ∀ i, W.body n i = W.body n 0) (st : St) (op : Op)
    (hg : Good W n st) (h : NoErrLog n st.log) :
    Good W n (step W skip nest st op).1 ∧ NoErrLog n (step W skip nest st op).1.log := by
  cases op with
  | submit m sb => exact ⟨good_runTask W skip n hdet st m sb hg, noerr_runTask W skip n v0 hok st m sb hg h⟩
  | submitWf m nodes sb p =>
    refine runWf_pres W skip nest p (fun _ => True) (fun s => Good W n s ∧ NoErrLog n s.log) sb ?_ ?_ ?_ m nodes trivial
      (fun _ _ => trivial) st ⟨hg, h⟩
    · intro s m' sb' _ hs
      exact ⟨good_runTask W skip n hdet s m' sb' hs.1, noerr_runTask W skip n v0 hok s m' sb' hs.1 hs.2⟩
    · intro s m' sb' v _ _ hs
      refine ⟨hs.1, ?_⟩
      intro e he
      simp only [hit, List.mem_cons] at he
      rcases he with rfl | he
      · intro hk; cases hk
      · exact hs.2 e he
    · intro s m' sb' found r _ _ hs
      refine ⟨good_execute W n s _ sb' found r hs.1 (by intro he; cases he), ?_⟩
      intro e he
      simp only [execute, List.mem_cons] at he
      rcases he with rfl | he
      · intro hk; cases hk
      · exact hs.2 e he
  | plant l k =>
    refine ⟨?_, h⟩
    intro l' r hc
    simp only [step, Store.set] at hc
    split at hc
    · cases hc
    · exact hg l' r hc

theorem noerr_run (W : World) (skip nest : Bool) (n : Nat) (v0 : Nat) (hok : W.body n 0 = .ok v0)
    (hdet : ∀ i, W.body n i = W.body n 0) (ops : List Op) (st : St)
    (hg : Good W n st) (h : NoErrLog n st.log) : NoErrLog n (run W skip nest st ops).log := by
  induction ops generalizing st with
  | nil => exact h
  | cons op ops ih =>
    obtain ⟨g1, h1⟩ := noerr_step W skip nest n v0 hok hdet st op hg h
    exact ih _ g1 h1

theorem foundErrAt_zero (n : Nat) (log : List Event) (w : Loc) (h : NoErrLog n log) :
    foundErrAt log w (.task n) = 0 := by
  unfold foundErrAt
  rw [List.countP_eq_zero]
  intro e he
  simp only [decide_eq_true_eq, not_and]
  intro hk _
  exact h e he hk

/-! ### rerun -/

theorem runTask_rerun (W : World) (skip : Bool) (st : St) (n : Nat) (sb : Sub) (h : sb.rerun = true) :
    runTask W skip st n sb =
      (execute st (.task n) sb none (W.body n (st.execs (.task n))), W.body n (st.execs (.task n))) := by
  simp [runTask, cachedTest, h]

theorem runTask_execs_other (W : World) (skip : Bool) (st : St) (n : Nat) (sb : Sub) (k : Key) (hk : k ≠ .task n) :
    (runTask W skip st n sb).1.execs k = st.execs k := by
  unfold runTask
  cases cachedTest skip st (.task n) sb with
  | none => simp [execute, hk]
  | some r => cases r <;> simp [execute, hit, hk]

theorem execute_execs (st : St) (k' : Key) (sb : Sub) (found : Option Res) (r : Res) (k : Key) :
    (execute st k' sb found r).execs k = st.execs k + (if k = k' then 1 else 0) := by
  simp only [execute]
  by_cases h : k = k'
  · subst h; simp
  · simp [h]

/-- a rerun level with propagation on: if all node jobs succeed, every task and every nested workflow below this
    level has been executed once more per occurrence — at every depth -/
theorem runNodes_rerun_execs (W : World) (skip : Bool) (nodes : Nodes) :
    ∀ (sb : Sub) (st st' : St), sb.rerun = true → runNodes W skip true true sb st nodes = (st', true) →
      (∀ m, st'.execs (.task m) = st.execs (.task m) + nodes.countTask m)
      ∧ (∀ k, st'.execs (.wf k) = st.execs (.wf k) + nodes.countWf k) := by
  induction nodes with
  | nil =>
    intro sb st st' _ h
    simp only [runNodes, Prod.mk.injEq, and_true] at h
    subst h
    simp [Nodes.countTask, Nodes.countWf]
  | task n rest ih =>
    intro sb st st' hr h
    simp only [runNodes] at h
    rw [runTask_rerun W skip st n sb hr] at h
    cases hb : W.body n (st.execs (.task n)) with
    | err => rw [hb] at h; simp at h
    | ok v =>
      rw [hb] at h
      simp only at h
      obtain ⟨h1, h2⟩ := ih sb _ st' hr h
      refine ⟨fun m => ?_, fun k => ?_⟩
      · rw [h1 m, execute_execs]
        simp only [Nodes.countTask, Key.task.injEq]
        by_cases hm : n = m
        · subst hm; simp; omega
        · have : ¬ m = n := fun e => hm e.symm
          simp [hm, this]
      · rw [h2 k, execute_execs]
        simp [Nodes.countWf]
  | wf n inner rest ihi ihr =>
    intro sb st st' hr h
    have hns : nodeSub true sb = sb := rfl
    have his : (innerSub true sb).rerun = true := by simp [innerSub, hr]
    have hct : cachedTest skip st (.wf n) sb = none := by simp [cachedTest, hr]
    simp only [runNodes, hns, hct] at h
    cases hR : runNodes W skip true true (innerSub true sb) st inner with
    | mk stI b =>
      rw [hR] at h
      cases b with
      | false => simp at h
      | true =>
        simp only [if_true] at h
        obtain ⟨i1, i2⟩ := ihi (innerSub true sb) st stI his hR
        obtain ⟨r1, r2⟩ := ihr sb _ st' hr h
        refine ⟨fun m => ?_, fun k => ?_⟩
        · rw [r1 m, execute_execs, i1 m]
          simp [Nodes.countTask]; omega
        · rw [r2 k, execute_execs, i2 k]
          simp only [Nodes.countWf, Key.wf.injEq]
          by_cases hk : n = k
          · subst hk; simp; omega
          · have : ¬ k = n := fun e => hk e.symm
            simp [hk, this]; omega

end PydraModel.JobProto.CacheHist
