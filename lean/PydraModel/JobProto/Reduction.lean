import PydraModel.JobProto.Discipline
import PydraModel.JobProto.SmallBig
/-
C10 machinery, part 5: FROM INTERLEAVINGS TO SERIAL CALLS.

For programs satisfying `LockDiscipline`, any number of processes and ANY interleaving of single actions (no
process deaths, no rerun, body succeeds): the accesses to the job directory happen inside the job lock, one holder
at a time (Mutex.lean, Discipline.lean), and actions outside the lock touch no shared state (`coreStep_local`: the
"mover" fact).  Hence each process's run is — as far as its own state and the job directory are concerned — the
UNINTERRUPTED (solo, hence big-step, SmallBig.lean) run of its call from the settled world it finds when it
acquires the lock.  The proof is an invariant with a prophecy: "if this process ran alone from here it would end
well", maintained for the lock holder over the real world and for everybody else over every settled world they
can still find; a finite check on the skeleton (`InitGood`) starts it.
-/
namespace PydraModel.JobProto

abbrev Files := Bool × ResFile

def mkCore (F : Files) (jl sl : LockSt) (l : Local) : Core :=
  { dir := F.1, result := F.2, jobLock := jl, saveLock := sl, info := l.info, cwd := l.cwd, savedCwd := l.savedCwd,
    resVar := l.resVar, jobErrored := l.jobErrored, lastRaiseBase := l.lastRaiseBase }

def locOf (c : Core) (mid : Bool) : Local :=
  { info := c.info, cwd := c.cwd, savedCwd := c.savedCwd, resVar := c.resVar, jobErrored := c.jobErrored,
    lastRaiseBase := c.lastRaiseBase, midWrite := mid }

/-- state of the solo machine: the core, the number of task bodies entered, and "every release of the job lock so
    far left the target world behind (and the save lock free)" -/
structure SoloSt where
  core : Core
  execs : Nat
  ok : Bool
deriving DecidableEq, Repr

abbrev Target := Files × Nat

def cSem (env : Env) (target : Target) : Sem SoloSt where
  act i a s :=
    (⟨(coreStep env .none i a s.core).1, s.execs + execsIn (coreStep env .none i a s.core).2.2,
      if a = .lockRelease .job then
        s.ok && decide ((((coreStep env .none i a s.core).1.dir, (coreStep env .none i a s.core).1.result),
          s.execs + execsIn (coreStep env .none i a s.core).2.2) = target) &&
          decide ((coreStep env .none i a s.core).1.saveLock = .free)
      else s.ok⟩,
     (coreStep env .none i a s.core).2.1)
  rerun _ := env.rerun
  prov _ := env.prov

/-- the call has returned the complete good result into the target world, with both locks free -/
def GoodR (target : Target) (y : Cfg × SoloSt) : Prop :=
  y.1 = ⟨.ctl .returning, []⟩ ∧ y.2.core.resVar = some ⟨false, true⟩ ∧
  ((y.2.core.dir, y.2.core.result), y.2.execs) = target ∧
  y.2.core.jobLock = .free ∧ y.2.core.saveLock = .free ∧ y.2.ok = true

instance (target : Target) (y : Cfg × SoloSt) : Decidable (GoodR target y) := by unfold GoodR; infer_instance

def fin (env : Env) (target : Target) (N : Nat) (x : Cfg × SoloSt) : Cfg × SoloSt := soloIter (cSem env target) N x

theorem good_fixpoint (env : Env) (target : Target) (y : Cfg × SoloSt) (h : GoodR target y) :
    soloStep (cSem env target) y = y := by
  obtain ⟨cfg, s⟩ := y
  obtain ⟨h1, _⟩ := h
  simp only at h1
  subst h1
  rfl

theorem fin_step (env : Env) (target : Target) (N : Nat) (x : Cfg × SoloSt)
    (h : GoodR target (fin env target N x)) : fin env target N (soloStep (cSem env target) x) = fin env target N x := by
  have hfix := good_fixpoint env target _ h
  unfold fin at *
  have e1 : soloIter (cSem env target) N (soloStep (cSem env target) x) = soloIter (cSem env target) (N + 1) x := rfl
  rw [e1, soloIter_add, soloIter_one, hfix]

theorem soloStep_ok_mono (env : Env) (target : Target) (x : Cfg × SoloSt)
    (h : (soloStep (cSem env target) x).2.ok = true) : x.2.ok = true := by
  unfold soloStep at h
  split at h
  · exact h
  · exact h
  · rename_i i a k _
    simp only [cSem] at h
    split at h
    · simp only [Bool.and_eq_true] at h; exact h.1.1
    · exact h

theorem fin_ok_mono (env : Env) (target : Target) (N : Nat) (x : Cfg × SoloSt)
    (h : (fin env target N x).2.ok = true) : x.2.ok = true := by
  induction N generalizing x with
  | zero => exact h
  | succ n ih => exact soloStep_ok_mono env target x (ih _ h)

/-! ### The mover fact: actions that do not need the job lock touch no shared state -/

/-- an action a process may perform without the job lock, other than taking / releasing that lock -/
def Act.isFree (a : Act) : Bool := !a.needsJobLock && a != .lockAcquire .job && a != .lockRelease .job

/-- a free action reads and writes only the process's own state: in any two worlds it does the same to the local
    state, ends the same way, emits the same events, and leaves directory, result file and both markers alone;
    it never enters a task body -/
theorem coreStep_local (env : Env) (i : Nat) (a : Act) (ha : a.isFree = true) (F F' : Files) (jl sl jl' sl' : LockSt)
    (l : Local) :
    coreStep env .none i a (mkCore F jl sl l) =
      (mkCore F jl sl (locOf (coreStep env .none i a (mkCore F' jl' sl' l)).1 l.midWrite),
       (coreStep env .none i a (mkCore F' jl' sl' l)).2) ∧
    execsIn (coreStep env .none i a (mkCore F' jl' sl' l)).2.2 = 0 ∧
    (coreStep env .none i a (mkCore F' jl' sl' l)).2.1 ≠ .blocked := by
  obtain ⟨info, cwd, scwd, rv, je, lrb, mid⟩ := l
  obtain ⟨rr, pv, bf, ac⟩ := env
  cases a with
  | lockAcquire k => cases k <;> simp [Act.isFree, Act.needsJobLock, Act.touchesDir] at ha
  | lockRelease k => cases k <;> simp [Act.isFree, Act.needsJobLock, Act.touchesDir] at ha
  | returnIfCachedOk =>
    rcases rv with _ | ⟨e, o⟩
    · exact ⟨rfl, rfl, by simp [coreStep, coreEffect, noteRaise, mkCore]⟩
    · cases e <;> exact ⟨rfl, rfl, by simp [coreStep, coreEffect, noteRaise, mkCore]⟩
  | restoreCwd => cases scwd <;> exact ⟨rfl, rfl, by simp [coreStep, coreEffect, noteRaise, mkCore]⟩
  | markErrored => cases rv <;> exact ⟨rfl, rfl, by simp [coreStep, coreEffect, noteRaise, mkCore]⟩
  | collectOutputs => cases rv <;> exact ⟨rfl, rfl, by simp [coreStep, coreEffect, noteRaise, mkCore]⟩
  | unlinkInfo => cases info <;> exact ⟨rfl, rfl, by simp [coreStep, coreEffect, noteRaise, mkCore]⟩
  | reraise => cases lrb <;> exact ⟨rfl, rfl, by simp [coreStep, coreEffect, noteRaise, mkCore]⟩
  | body => simp [Act.isFree, Act.needsJobLock, Act.touchesDir] at ha
  | chdirJob => simp [Act.isFree, Act.needsJobLock, Act.touchesDir] at ha
  | auditStart => simp [Act.isFree, Act.needsJobLock, Act.touchesDir] at ha
  | clearDir => simp [Act.isFree, Act.needsJobLock, Act.touchesDir] at ha
  | mkDir => simp [Act.isFree, Act.needsJobLock, Act.touchesDir] at ha
  | ensureDir => simp [Act.isFree, Act.needsJobLock, Act.touchesDir] at ha
  | saveJob => simp [Act.isFree, Act.needsJobLock, Act.touchesDir] at ha
  | saveResult => simp [Act.isFree, Act.needsJobLock, Act.touchesDir] at ha
  | copyOutputs => simp [Act.isFree, Act.needsJobLock, Act.touchesDir] at ha
  | recordError => simp [Act.isFree, Act.needsJobLock, Act.touchesDir] at ha
  | loadResult => simp [Act.isFree, Act.needsJobLock, Act.touchesDir] at ha
  | _ => exact ⟨rfl, rfl, by simp [coreStep, coreEffect, noteRaise, mkCore]⟩

/-! ### Shapes of a real step -/

def files (g : Global) : Files := (g.sh.dir, g.sh.result)
def ex (g : Global) : Nat := execsIn (g.sh.evs.map Prod.snd)

theorem viewCore_eq (g : Global) (q : Pid) :
    viewCore g q = mkCore (files g) (viewLock g.alive q g.sh.jobLock) (viewLock g.alive q g.sh.saveLock) (g.procs q).loc :=
  rfl

/-- the first half of the result write is due -/
def midCond (g : Global) (pid : Pid) (a : Act) : Bool :=
  a = .saveResult && !(g.procs pid).loc.midWrite && (viewCore g pid).dir && (viewCore g pid).resVar.isSome

inductive StepKind (g : Global) (pid : Pid) : Global → Prop
  | idle : StepKind g pid g
  | tau (cfg' : Cfg) (h : (g.procs pid).cfg.next (g.procs pid).env.rerun (g.procs pid).env.prov = .tau cfg') :
      StepKind g pid (setProc g pid { g.procs pid with cfg := cfg' })
  | done (c : Ctl) (h : (g.procs pid).cfg.next (g.procs pid).env.rerun (g.procs pid).env.prov = .done c) :
      StepKind g pid (setProc g pid { g.procs pid with ended := some c })
  | mid (i : Nat) (k : Ctl → Cfg)
      (h : (g.procs pid).cfg.next (g.procs pid).env.rerun (g.procs pid).env.prov = .action i .saveResult k)
      (hm : midCond g pid .saveResult = true) :
      StepKind g pid (writeBack g pid { viewCore g pid with result := .trunc } [] (g.procs pid).cfg true)
  | act (i : Nat) (a : Act) (k : Ctl → Cfg)
      (h : (g.procs pid).cfg.next (g.procs pid).env.rerun (g.procs pid).env.prov = .action i a k)
      (hm : midCond g pid a = false)
      (hb : (coreStep (g.procs pid).env .none i a (viewCore g pid)).2.1 ≠ .blocked) :
      StepKind g pid (writeBack g pid (coreStep (g.procs pid).env .none i a (viewCore g pid)).1
        (coreStep (g.procs pid).env .none i a (viewCore g pid)).2.2
        (k (coreStep (g.procs pid).env .none i a (viewCore g pid)).2.1) false)

theorem gstep_kind (g : Global) (pid : Pid) : StepKind g pid (gstep g pid) := by
  unfold gstep
  simp only []
  split
  · exact .idle
  · cases hnext : (g.procs pid).cfg.next (g.procs pid).env.rerun (g.procs pid).env.prov with
    | tau cfg' => exact .tau cfg' hnext
    | done c => exact .done c hnext
    | action i a k =>
      simp only []
      by_cases hm : midCond g pid a = true
      · have ha : a = .saveResult := by
          simp only [midCond, Bool.and_eq_true, decide_eq_true_eq] at hm
          exact hm.1.1.1
        subst ha
        have : (decide (Act.saveResult = Act.saveResult) && !(g.procs pid).loc.midWrite && (viewCore g pid).dir &&
            (viewCore g pid).resVar.isSome) = true := hm
        rw [if_pos this]
        exact .mid i k hnext hm
      · have hm' : midCond g pid a = false := by cases h : midCond g pid a <;> simp_all
        have : ¬ ((decide (a = Act.saveResult) && !(g.procs pid).loc.midWrite && (viewCore g pid).dir &&
            (viewCore g pid).resVar.isSome) = true) := hm
        rw [if_neg this]
        by_cases hb : (coreStep (g.procs pid).env .none i a (viewCore g pid)).2.1 = .blocked
        · rw [if_pos hb]; exact .idle
        · rw [if_neg hb]; exact .act i a k hnext hm' hb

/-! ### Projections and the invariant -/

/-- the real world as the lock holder sees it -/
def X (g : Global) (q : Pid) : Cfg × SoloSt := ((g.procs q).cfg, ⟨viewCore g q, ex g, true⟩)

/-- process `q` in the settled world `Fe` with both locks free (what it will find if it gets the lock then) -/
def Hy (g : Global) (q : Pid) (Fe : Target) : Cfg × SoloSt :=
  ((g.procs q).cfg, ⟨mkCore Fe.1 .free .free (g.procs q).loc, Fe.2, true⟩)

/-- the settled worlds a process that does not hold the lock can still find when it gets it: the target world,
    and the initial world as long as nobody has taken the lock -/
def Fut (F0 : Files) (target : Target) (g : Global) : List Target :=
  (if g.sh.jobLock = none ∧ (files g, ex g) = (F0, 0) then [((F0, 0) : Target)] else []) ++ [target]

structure RedInv (envs : Pid → Env) (F0 : Files) (target : Target) (N : Nat) (g : Global) : Prop where
  mutex : MutexInv g
  disc : DiscInv g
  alive : ∀ q, (g.procs q).alive = true
  env : ∀ q, (g.procs q).env = envs q
  saveFree : g.sh.jobLock = none → g.sh.saveLock = none
  saveMine : ∀ h, g.sh.jobLock = some h → g.sh.saveLock = none ∨ g.sh.saveLock = some h
  unl : g.sh.jobLock = none → (files g, ex g) = (F0, 0) ∨ (files g, ex g) = target
  hold : ∀ h, g.sh.jobLock = some h → GoodR target (fin (envs h) target N (X g h))
  others : ∀ q, g.sh.jobLock ≠ some q → ∀ Fe ∈ Fut F0 target g, GoodR target (fin (envs q) target N (Hy g q Fe))

theorem execsIn_app (a b : List Ev) : execsIn (a ++ b) = execsIn a + execsIn b := by
  simp [execsIn, List.count_append]

theorem ex_writeBack (g : Global) (pid : Pid) (c : Core) (evs : List Ev) (cfg : Cfg) (mid : Bool) :
    ex (writeBack g pid c evs cfg mid) = ex g + execsIn evs := by
  simp only [ex, writeBack, List.map_append, List.map_map]
  rw [execsIn_app, Nat.add_comm]
  congr 1
  have : List.map (Prod.snd ∘ fun e => (pid, e)) evs = evs := by
    induction evs with
    | nil => rfl
    | cons e es ih => simp [List.map, ih]
  rw [this]

theorem alive_writeBack (g : Global) (pid : Pid) (c : Core) (evs : List Ev) (cfg : Cfg) (mid : Bool) :
    (writeBack g pid c evs cfg mid).alive = g.alive := by
  funext q
  simp only [Global.alive, writeBack]
  by_cases h : q = pid
  · simp [h]
  · simp [h]

theorem fut_mem_target (F0 : Files) (target : Target) (g : Global) : target ∈ Fut F0 target g := by
  simp [Fut]

theorem fut_sub (F0 : Files) (target : Target) (g g' : Global)
    (h : g'.sh.jobLock = none → (files g', ex g') = (F0, 0) →
      (g.sh.jobLock = none ∧ (files g, ex g) = (F0, 0)) ∨ ((F0, 0) : Target) = target) :
    ∀ Fe ∈ Fut F0 target g', Fe ∈ Fut F0 target g := by
  intro Fe hFe
  simp only [Fut, List.mem_append, List.mem_singleton] at hFe ⊢
  rcases hFe with hFe | hFe
  · split at hFe
    · rename_i hc
      simp only [List.mem_singleton] at hFe
      rcases h hc.1 hc.2 with h1 | h1
      · left; rw [if_pos h1]; simpa using hFe
      · right; rw [hFe, h1]
    · cases hFe
  · exact .inr hFe

/-- the solo machine performs bookkeeping steps exactly as the real one -/
theorem soloStep_tau (env : Env) (target : Target) (cfg cfg' : Cfg) (s : SoloSt)
    (h : cfg.next env.rerun env.prov = .tau cfg') : soloStep (cSem env target) (cfg, s) = (cfg', s) := by
  simp [soloStep, cSem, h]

theorem soloStep_done (env : Env) (target : Target) (cfg : Cfg) (c : Ctl) (s : SoloSt)
    (h : cfg.next env.rerun env.prov = .done c) : soloStep (cSem env target) (cfg, s) = (cfg, s) := by
  simp [soloStep, cSem, h]

theorem soloStep_act (env : Env) (target : Target) (cfg : Cfg) (i : Nat) (a : Act) (k : Ctl → Cfg) (s : SoloSt)
    (h : cfg.next env.rerun env.prov = .action i a k) :
    soloStep (cSem env target) (cfg, s) =
      (k ((cSem env target).act i a s).2, ((cSem env target).act i a s).1) := by
  simp [soloStep, cSem, h]

/-! ### Preservation: bookkeeping steps -/

theorem viewCore_setProc (g : Global) (pid : Pid) (p' : Proc) (hl : p'.loc = (g.procs pid).loc)
    (ha : p'.alive = (g.procs pid).alive) (q : Pid) : viewCore (setProc g pid p') q = viewCore g q := by
  have hal : (setProc g pid p').alive = g.alive := by
    funext r
    simp only [Global.alive, setProc]
    by_cases h : r = pid
    · simp [h, ha]
    · simp [h]
  simp only [viewCore, hal]
  by_cases h : q = pid
  · subst h; simp [setProc, hl]
  · simp [setProc, h]

theorem red_setProc (envs : Pid → Env) (F0 : Files) (target : Target) (N : Nat) (g : Global)
    (hI : RedInv envs F0 target N g) (pid : Pid) (p' : Proc)
    (hl : p'.loc = (g.procs pid).loc) (ha : p'.alive = (g.procs pid).alive) (he : p'.env = (g.procs pid).env)
    (hs : ∀ s, soloStep (cSem (envs pid) target) ((g.procs pid).cfg, s) = (p'.cfg, s))
    (hM : MutexInv (setProc g pid p')) (hD : DiscInv (setProc g pid p')) :
    RedInv envs F0 target N (setProc g pid p') := by
  have hsh : (setProc g pid p').sh = g.sh := rfl
  have hfiles : files (setProc g pid p') = files g := rfl
  have hex : ex (setProc g pid p') = ex g := rfl
  have hX : ∀ q, X (setProc g pid p') q =
      if q = pid then (p'.cfg, (X g q).2) else X g q := by
    intro q
    simp only [X, viewCore_setProc g pid p' hl ha, hex]
    by_cases h : q = pid
    · simp [h, setProc]
    · simp [h, setProc]
  have hHy : ∀ q Fe, Hy (setProc g pid p') q Fe = if q = pid then (p'.cfg, (Hy g q Fe).2) else Hy g q Fe := by
    intro q Fe
    simp only [Hy]
    by_cases h : q = pid
    · subst h; simp [setProc, hl]
    · simp [h, setProc]
  refine ⟨hM, hD, ?_, ?_, hI.saveFree, hI.saveMine, hI.unl, ?_, ?_⟩
  · intro q
    by_cases h : q = pid
    · subst h; simp [setProc, ha, hI.alive q]
    · simp [setProc, h, hI.alive q]
  · intro q
    by_cases h : q = pid
    · subst h; simp [setProc, he, hI.env q]
    · simp [setProc, h, hI.env q]
  · intro h hh
    have hg := hI.hold h hh
    rw [hX]
    by_cases hq : h = pid
    · subst hq
      simp only [if_true]
      have := fin_step (envs h) target N (X g h) hg
      rw [show soloStep (cSem (envs h) target) (X g h) = (p'.cfg, (X g h).2) from hs _] at this
      rw [this]; exact hg
    · simp only [hq, if_false]; exact hg
  · intro q hq Fe hFe
    have hFe' : Fe ∈ Fut F0 target g := hFe
    have hg := hI.others q hq Fe hFe'
    rw [hHy]
    by_cases hqp : q = pid
    · subst hqp
      simp only [if_true]
      have := fin_step (envs q) target N (Hy g q Fe) hg
      rw [show soloStep (cSem (envs q) target) (Hy g q Fe) = (p'.cfg, (Hy g q Fe).2) from hs _] at this
      rw [this]; exact hg
    · simp only [hqp, if_false]; exact hg

/-! ### Views after an action has been written back -/

theorem view_unview (alive : Pid → Bool) (pid : Pid) (old : Option Pid) (s : LockSt)
    (h : s = viewLock alive pid old ∨ s = .free ∨ s = .mine) : viewLock alive pid (unviewLock pid old s) = s := by
  rcases h with h | h | h
  · rw [h, unview_view]
  · subst h; rfl
  · subst h; simp [unviewLock, viewLock]

/-- the marker views an action leaves are the old ones, `free` or `mine` -/
theorem coreStep_lockviews (env : Env) (i : Nat) (a : Act) (c : Core) :
    ((coreStep env .none i a c).1.jobLock = c.jobLock ∨ (coreStep env .none i a c).1.jobLock = .free ∨
      (coreStep env .none i a c).1.jobLock = .mine) ∧
    ((coreStep env .none i a c).1.saveLock = c.saveLock ∨ (coreStep env .none i a c).1.saveLock = .free ∨
      (coreStep env .none i a c).1.saveLock = .mine) := by
  obtain ⟨d, r, jl, sl, info, cwd, scwd, rv, je, lrb⟩ := c
  obtain ⟨rr, pv, bf, ac⟩ := env
  cases a with
  | lockAcquire l => cases l <;> cases jl <;> cases sl <;> simp [coreStep, coreEffect, noteRaise, getLock, setLock, acquire]
  | lockRelease l => cases l <;> simp [coreStep, coreEffect, noteRaise, setLock]
  | returnIfCachedOk =>
    rcases rv with _ | ⟨e, o⟩
    · simp [coreStep, coreEffect, noteRaise]
    · cases e <;> simp [coreStep, coreEffect, noteRaise]
  | restoreCwd => cases scwd <;> simp [coreStep, coreEffect, noteRaise]
  | saveResult => cases rv <;> cases d <;> simp [coreStep, coreEffect, noteRaise]
  | markErrored => cases rv <;> simp [coreStep, coreEffect, noteRaise]
  | collectOutputs => cases rv <;> simp [coreStep, coreEffect, noteRaise]
  | body => cases bf <;> simp [coreStep, coreEffect, noteRaise]
  | auditStart => cases ac <;> cases d <;> simp [coreStep, coreEffect, noteRaise]
  | chdirJob => cases d <;> simp [coreStep, coreEffect, noteRaise]
  | clearDir => cases d <;> simp [coreStep, coreEffect, noteRaise]
  | mkDir => cases d <;> simp [coreStep, coreEffect, noteRaise]
  | saveJob => cases d <;> simp [coreStep, coreEffect, noteRaise]
  | recordError => cases d <;> simp [coreStep, coreEffect, noteRaise]
  | unlinkInfo => cases info <;> simp [coreStep, coreEffect, noteRaise]
  | _ => simp [coreStep, coreEffect, noteRaise]

theorem viewCore_writeBack_self (g : Global) (pid : Pid) (c : Core) (evs : List Ev) (cfg : Cfg) (mid : Bool)
    (hj : c.jobLock = viewLock g.alive pid g.sh.jobLock ∨ c.jobLock = .free ∨ c.jobLock = .mine)
    (hs : c.saveLock = viewLock g.alive pid g.sh.saveLock ∨ c.saveLock = .free ∨ c.saveLock = .mine) :
    viewCore (writeBack g pid c evs cfg mid) pid = c := by
  have e1 := view_unview g.alive pid g.sh.jobLock c.jobLock hj
  have e2 := view_unview g.alive pid g.sh.saveLock c.saveLock hs
  obtain ⟨d, r, jl, sl, info, cwd, scwd, rv, je, lrb⟩ := c
  simp only [viewCore, alive_writeBack]
  simp only at e1 e2
  simp [writeBack, e1, e2]

theorem viewCore_writeBack_other (g : Global) (pid : Pid) (c : Core) (evs : List Ev) (cfg : Cfg) (mid : Bool) (q : Pid)
    (h : q ≠ pid) :
    viewCore (writeBack g pid c evs cfg mid) q =
      mkCore (c.dir, c.result) (viewLock g.alive q (unviewLock pid g.sh.jobLock c.jobLock))
        (viewLock g.alive q (unviewLock pid g.sh.saveLock c.saveLock)) (g.procs q).loc := by
  simp only [viewCore, alive_writeBack]
  simp [writeBack, h, mkCore]

theorem mkCore_locOf (c : Core) (mid : Bool) : mkCore (c.dir, c.result) c.jobLock c.saveLock (locOf c mid) = c := by
  obtain ⟨d, r, jl, sl, info, cwd, scwd, rv, je, lrb⟩ := c
  rfl

theorem procs_writeBack_self (g : Global) (pid : Pid) (c : Core) (evs : List Ev) (cfg : Cfg) (mid : Bool) :
    ((writeBack g pid c evs cfg mid).procs pid).cfg = cfg ∧ ((writeBack g pid c evs cfg mid).procs pid).loc = locOf c mid ∧
    ((writeBack g pid c evs cfg mid).procs pid).env = (g.procs pid).env ∧
    ((writeBack g pid c evs cfg mid).procs pid).alive = (g.procs pid).alive ∧
    ((writeBack g pid c evs cfg mid).procs pid).ended = (g.procs pid).ended := by
  simp [writeBack, locOf]

theorem procs_writeBack_other (g : Global) (pid : Pid) (c : Core) (evs : List Ev) (cfg : Cfg) (mid : Bool) (q : Pid)
    (h : q ≠ pid) : (writeBack g pid c evs cfg mid).procs q = g.procs q := by
  simp [writeBack, h]

/-- the acting process after its action, as its own solo machine sees it -/
theorem X_writeBack (g : Global) (pid : Pid) (i : Nat) (a : Act) (k : Ctl → Cfg) (env : Env) :
    X (writeBack g pid (coreStep env .none i a (viewCore g pid)).1 (coreStep env .none i a (viewCore g pid)).2.2
        (k (coreStep env .none i a (viewCore g pid)).2.1) false) pid =
      (k (coreStep env .none i a (viewCore g pid)).2.1,
       ⟨(coreStep env .none i a (viewCore g pid)).1, ex g + execsIn (coreStep env .none i a (viewCore g pid)).2.2, true⟩) := by
  obtain ⟨hj, hs⟩ := coreStep_lockviews env i a (viewCore g pid)
  simp only [X, ex_writeBack]
  rw [viewCore_writeBack_self g pid _ _ _ _ hj hs]
  simp [writeBack]

/-! ### One own action under the prophecy -/

theorem own_step (env : Env) (target : Target) (N : Nat) (cfg : Cfg) (i : Nat) (a : Act) (k : Ctl → Cfg) (c : Core)
    (n : Nat) (hnext : cfg.next env.rerun env.prov = .action i a k)
    (hG : GoodR target (fin env target N (cfg, ⟨c, n, true⟩))) :
    (a = .lockRelease .job →
      (((coreStep env .none i a c).1.dir, (coreStep env .none i a c).1.result), n + execsIn (coreStep env .none i a c).2.2)
        = target ∧ (coreStep env .none i a c).1.saveLock = .free) ∧
    GoodR target (fin env target N
      (k (coreStep env .none i a c).2.1, ⟨(coreStep env .none i a c).1, n + execsIn (coreStep env .none i a c).2.2, true⟩)) := by
  have hs := soloStep_act env target cfg i a k ⟨c, n, true⟩ hnext
  have hf := fin_step env target N _ hG
  have hG' : GoodR target (fin env target N (soloStep (cSem env target) (cfg, ⟨c, n, true⟩))) := by rw [hf]; exact hG
  have hok := fin_ok_mono env target N _ hG'.2.2.2.2.2
  rw [hs] at hok hG'
  simp only [cSem] at hok hG'
  by_cases ha : a = .lockRelease .job
  · simp only [ha, if_true, Bool.true_and, Bool.and_eq_true, decide_eq_true_eq] at hok
    refine ⟨fun _ => by rw [ha]; exact hok, ?_⟩
    have hok' : (true && decide ((((coreStep env .none i (.lockRelease .job) c).1.dir,
        (coreStep env .none i (.lockRelease .job) c).1.result), n + execsIn (coreStep env .none i (.lockRelease .job) c).2.2)
        = target) && decide ((coreStep env .none i (.lockRelease .job) c).1.saveLock = .free)) = true := by
      simp [hok.1, hok.2]
    subst ha
    simp only [if_true, hok'] at hG'
    exact hG'
  · simp only [ha, if_false] at hG'
    exact ⟨fun h => absurd h ha, hG'⟩

/-- writing the result ignores what the file contained -/
theorem saveResult_ignores (env : Env) (i : Nat) (c : Core) (x : ResFile) (hd : c.dir = true) (hr : c.resVar.isSome = true) :
    coreStep env .none i .saveResult { c with result := x } = coreStep env .none i .saveResult c := by
  obtain ⟨d, r, jl, sl, info, cwd, scwd, rv, je, lrb⟩ := c
  simp only at hd hr
  subst hd
  cases rv with
  | none => cases hr
  | some v => rfl

theorem fin_of_soloStep_eq (env : Env) (target : Target) (N : Nat) (x x' : Cfg × SoloSt)
    (h : soloStep (cSem env target) x' = soloStep (cSem env target) x) (hN : N ≠ 0) :
    fin env target N x' = fin env target N x := by
  cases N with
  | zero => exact absurd rfl hN
  | succ n => simp only [fin, soloIter, h]

/-! ### Who may do what -/

theorem holds_iff (g : Global) (hM : MutexInv g) (q : Pid) (ha : (g.procs q).alive = true) :
    (g.procs q).cfg.holdsJob = true ↔ g.sh.jobLock = some q := by
  have h := hM.2 q ha
  have h1 := h.1
  simp only [Cfg.holdsJob, bne_iff_ne, ne_eq]
  constructor
  · intro hne; exact h.2.mp (by omega)
  · intro he hz
    have := h.2.mpr he
    rw [hz] at this
    cases this

theorem holder_of_needs (g : Global) (hM : MutexInv g) (hD : DiscInv g) (pid : Pid) (hal : (g.procs pid).alive = true)
    (i : Nat) (a : Act) (k : Ctl → Cfg)
    (hnext : (g.procs pid).cfg.next (g.procs pid).env.rerun (g.procs pid).env.prov = .action i a k)
    (ha : a.needsJobLock = true) : g.sh.jobLock = some pid := by
  have : nextAct g pid = some a := by simp [nextAct, hnext]
  exact (holds_iff g hM pid hal).mp (access_inside_lock g hD pid a this ha)

theorem holder_of_release (g : Global) (hM : MutexInv g) (pid : Pid) (hal : (g.procs pid).alive = true)
    (i : Nat) (k : Ctl → Cfg)
    (hnext : (g.procs pid).cfg.next (g.procs pid).env.rerun (g.procs pid).env.prov = .action i (.lockRelease .job) k) :
    g.sh.jobLock = some pid := by
  have hs := next_shape (g.procs pid).env.rerun (g.procs pid).env.prov (g.procs pid).cfg (hM.1 pid)
  rw [hnext] at hs
  cases hs with
  | plain _ _ _ ha _ => simp [Act.isLockOp] at ha
  | release _ _ _ st hst _ =>
    apply (holds_iff g hM pid hal).mp
    simp [Cfg.holdsJob, hst, jobFrames]

/-- classification of the action a process is about to perform -/
theorem act_class (a : Act) : a.needsJobLock = true ∨ a = .lockAcquire .job ∨ a = .lockRelease .job ∨ a.isFree = true := by
  by_cases h1 : a.needsJobLock = true
  · exact .inl h1
  · by_cases h2 : a = .lockAcquire .job
    · exact .inr (.inl h2)
    · by_cases h3 : a = .lockRelease .job
      · exact .inr (.inr (.inl h3))
      · right; right; right
        simp [Act.isFree, h1, h2, h3]

/-! ### Preservation: actions -/

section act
variable (envs : Pid → Env) (F0 : Files) (target : Target) (N : Nat) (g : Global)
variable (hI : RedInv envs F0 target N g) (pid : Pid) (i : Nat) (a : Act) (k : Ctl → Cfg)

theorem fut_locked (g' : Global) (hl : g'.sh.jobLock ≠ none) : ∀ Fe ∈ Fut F0 target g', Fe = target := by
  intro Fe hFe
  simp only [Fut, List.mem_append, List.mem_singleton] at hFe
  rcases hFe with hFe | hFe
  · rw [if_neg (fun h => hl h.1)] at hFe; cases hFe
  · exact hFe

include hI in
/-- the acting process keeps (or has just taken) the job lock -/
theorem red_keep (r : Core × Ctl × List Ev) (hr : r = coreStep (envs pid) .none i a (viewCore g pid))
    (hnext : (g.procs pid).cfg.next (envs pid).rerun (envs pid).prov = .action i a k)
    (hGood : GoodR target (fin (envs pid) target N (X g pid)))
    (hown : g.sh.jobLock = some pid ∨ g.sh.jobLock = none)
    (hmine : r.1.jobLock = .mine) (hM : MutexInv (writeBack g pid r.1 r.2.2 (k r.2.1) false)) (hD : DiscInv (writeBack g pid r.1 r.2.2 (k r.2.1) false)) :
    RedInv envs F0 target N (writeBack g pid r.1 r.2.2 (k r.2.1) false) := by
  have hown' := own_step (envs pid) target N (g.procs pid).cfg i a k (viewCore g pid) (ex g) hnext hGood
  have hX := X_writeBack g pid i a k (envs pid)
  rw [← hr] at hown' hX
  have hjl : (writeBack g pid r.1 r.2.2 (k r.2.1) false).sh.jobLock = some pid := by
    simp [writeBack, hmine, unviewLock]
  have hsaveOld : g.sh.saveLock = none ∨ g.sh.saveLock = some pid := by
    rcases hown with h | h
    · exact hI.saveMine pid h
    · exact .inl (hI.saveFree h)
  refine ⟨hM, hD, ?_, ?_, ?_, ?_, ?_, ?_, ?_⟩
  · intro q
    by_cases h : q = pid
    · subst h; rw [(procs_writeBack_self g q _ _ _ _).2.2.2.1]; exact hI.alive q
    · rw [procs_writeBack_other g pid _ _ _ _ q h]; exact hI.alive q
  · intro q
    by_cases h : q = pid
    · subst h; rw [(procs_writeBack_self g q _ _ _ _).2.2.1]; exact hI.env q
    · rw [procs_writeBack_other g pid _ _ _ _ q h]; exact hI.env q
  · intro h; rw [hjl] at h; cases h
  · intro h hh
    rw [hjl] at hh
    cases hh
    have hv := (coreStep_lockviews (envs pid) i a (viewCore g pid)).2
    rw [← hr] at hv
    have hsl : (writeBack g pid r.1 r.2.2 (k r.2.1) false).sh.saveLock = unviewLock pid g.sh.saveLock r.1.saveLock := rfl
    rw [hsl]
    rcases hv with hv | hv | hv
    · rw [hv]
      have : (viewCore g pid).saveLock = viewLock g.alive pid g.sh.saveLock := rfl
      rw [this, unview_view]; exact hsaveOld
    · rw [hv]; exact .inl rfl
    · rw [hv]; exact .inr rfl
  · intro h; rw [hjl] at h; cases h
  · intro h hh
    rw [hjl] at hh
    cases hh
    rw [hX]; exact hown'.2
  · intro q hq Fe hFe
    have hqp : q ≠ pid := fun h => hq (by rw [hjl, h])
    have hFe' := fut_locked F0 target _ (by rw [hjl]; simp) Fe hFe
    subst hFe'
    have hHy : Hy (writeBack g pid r.1 r.2.2 (k r.2.1) false) q Fe = Hy g q Fe := by
      simp only [Hy, procs_writeBack_other g pid _ _ _ _ q hqp]
    rw [hHy]
    apply hI.others q _ Fe (fut_mem_target F0 Fe g)
    rcases hown with h | h
    · rw [h]; intro hh; exact hqp (Option.some.inj hh).symm
    · rw [h]; simp

include hI in
/-- the holder releases the job lock: the world it leaves is the target world -/
theorem red_release (r : Core × Ctl × List Ev)
    (hr : r = coreStep (envs pid) .none i (.lockRelease .job) (viewCore g pid))
    (hnext : (g.procs pid).cfg.next (envs pid).rerun (envs pid).prov = .action i (.lockRelease .job) k)
    (hh : g.sh.jobLock = some pid)
    (hM : MutexInv (writeBack g pid r.1 r.2.2 (k r.2.1) false)) (hD : DiscInv (writeBack g pid r.1 r.2.2 (k r.2.1) false)) :
    RedInv envs F0 target N (writeBack g pid r.1 r.2.2 (k r.2.1) false) := by
  have hGood := hI.hold pid hh
  have hown' := own_step (envs pid) target N (g.procs pid).cfg i (.lockRelease .job) k (viewCore g pid) (ex g) hnext hGood
  have hX := X_writeBack g pid i (.lockRelease .job) k (envs pid)
  have hrel := coreStep_release_job (envs pid) i (viewCore g pid)
  rw [← hr] at hown' hX hrel
  obtain ⟨htarget', hG'⟩ := hown'
  have htarget := htarget' rfl
  have hjl : (writeBack g pid r.1 r.2.2 (k r.2.1) false).sh.jobLock = none := by
    simp [writeBack, hrel.1, unviewLock]
  have hsl : (writeBack g pid r.1 r.2.2 (k r.2.1) false).sh.saveLock = none := by
    simp [writeBack, (htarget).2, unviewLock]
  have hfe : (files (writeBack g pid r.1 r.2.2 (k r.2.1) false), ex (writeBack g pid r.1 r.2.2 (k r.2.1) false)) = target := by
    rw [ex_writeBack]; exact htarget.1
  refine ⟨hM, hD, ?_, ?_, fun _ => hsl, ?_, fun _ => .inr hfe, ?_, ?_⟩
  · intro q
    by_cases h : q = pid
    · subst h; rw [(procs_writeBack_self g q _ _ _ _).2.2.2.1]; exact hI.alive q
    · rw [procs_writeBack_other g pid _ _ _ _ q h]; exact hI.alive q
  · intro q
    by_cases h : q = pid
    · subst h; rw [(procs_writeBack_self g q _ _ _ _).2.2.1]; exact hI.env q
    · rw [procs_writeBack_other g pid _ _ _ _ q h]; exact hI.env q
  · intro h hh'; rw [hjl] at hh'; cases hh'
  · intro h hh'; rw [hjl] at hh'; cases hh'
  · intro q _ Fe hFe
    -- every world a process can still find is the target world
    have hFe' : Fe = target := by
      simp only [Fut, List.mem_append, List.mem_singleton] at hFe
      rcases hFe with hFe | hFe
      · split at hFe
        · rename_i hc
          simp only [List.mem_singleton] at hFe
          rw [hFe, ← hc.2, hfe]
        · cases hFe
      · exact hFe
    subst hFe'
    by_cases hqp : q = pid
    · subst hqp
      -- the releasing process itself: its hypothetical world is the real one
      have hHy : Hy (writeBack g q r.1 r.2.2 (k r.2.1) false) q Fe = X (writeBack g q r.1 r.2.2 (k r.2.1) false) q := by
        rw [hX]
        simp only [Hy, (procs_writeBack_self g q _ _ _ _).1, (procs_writeBack_self g q _ _ _ _).2.1]
        have hc : mkCore Fe.1 .free .free (locOf r.1 false) = r.1 := by
          have := mkCore_locOf r.1 false
          rw [hrel.1, htarget.2] at this
          rw [← htarget.1]; exact this
        rw [hc, ← htarget.1]
      rw [hHy, hX]; exact hG'
    · have hHy : Hy (writeBack g pid r.1 r.2.2 (k r.2.1) false) q Fe = Hy g q Fe := by
        simp only [Hy, procs_writeBack_other g pid _ _ _ _ q hqp]
      rw [hHy]
      apply hI.others q _ Fe (fut_mem_target F0 Fe g)
      rw [hh]; intro hh'; exact hqp (Option.some.inj hh').symm

theorem mkCore_locOf_mk (F F' : Files) (jl sl jl' sl' : LockSt) (l : Local) (b : Bool) :
    mkCore F jl sl (locOf (mkCore F' jl' sl' l) b) = mkCore F jl sl l := by
  obtain ⟨info, cwd, scwd, rv, je, lrb, mid⟩ := l
  rfl

/-- what a free action does, computed in a canonical world (it does not depend on the world) -/
def locStep (env : Env) (i : Nat) (a : Act) (l : Local) : Local × Ctl × List Ev :=
  (locOf (coreStep env .none i a (mkCore (false, .absent) .free .free l)).1 false,
   (coreStep env .none i a (mkCore (false, .absent) .free .free l)).2)

theorem coreStep_free (env : Env) (i : Nat) (a : Act) (ha : a.isFree = true) (F : Files) (jl sl : LockSt) (l : Local) :
    coreStep env .none i a (mkCore F jl sl l) =
      (mkCore F jl sl (locStep env i a l).1, (locStep env i a l).2) ∧ execsIn (locStep env i a l).2.2 = 0 := by
  have h := coreStep_local env i a ha F (false, .absent) jl sl .free .free l
  refine ⟨?_, h.2.1⟩
  rw [h.1]
  simp only [locStep]
  congr 1

include hI in
/-- a process that does not hold the job lock performs a free action: nothing shared changes -/
theorem red_free (r : Core × Ctl × List Ev) (hr : r = coreStep (envs pid) .none i a (viewCore g pid))
    (hnext : (g.procs pid).cfg.next (envs pid).rerun (envs pid).prov = .action i a k)
    (hnh : g.sh.jobLock ≠ some pid) (hfree : a.isFree = true)
    (hM : MutexInv (writeBack g pid r.1 r.2.2 (k r.2.1) false)) (hD : DiscInv (writeBack g pid r.1 r.2.2 (k r.2.1) false)) :
    RedInv envs F0 target N (writeBack g pid r.1 r.2.2 (k r.2.1) false) := by
  -- the action in the real world, by locality
  have hreal := coreStep_free (envs pid) i a hfree (files g) (viewLock g.alive pid g.sh.jobLock)
    (viewLock g.alive pid g.sh.saveLock) (g.procs pid).loc
  rw [← viewCore_eq, ← hr] at hreal
  obtain ⟨hreq, h0⟩ := hreal
  have hjl : (writeBack g pid r.1 r.2.2 (k r.2.1) false).sh.jobLock = g.sh.jobLock := by
    simp only [writeBack]; rw [hreq]; exact unview_view _ _ _
  have hsl : (writeBack g pid r.1 r.2.2 (k r.2.1) false).sh.saveLock = g.sh.saveLock := by
    simp only [writeBack]; rw [hreq]; exact unview_view _ _ _
  have hfiles : files (writeBack g pid r.1 r.2.2 (k r.2.1) false) = files g := by
    simp only [files, writeBack]; rw [hreq]; rfl
  have hex : ex (writeBack g pid r.1 r.2.2 (k r.2.1) false) = ex g := by
    rw [ex_writeBack, hreq]; simp only; omega
  have hfut : Fut F0 target (writeBack g pid r.1 r.2.2 (k r.2.1) false) = Fut F0 target g := by
    simp only [Fut, hjl, hfiles, hex]
  have hview : ∀ q, q ≠ pid → viewCore (writeBack g pid r.1 r.2.2 (k r.2.1) false) q = viewCore g q := by
    intro q hq
    rw [viewCore_writeBack_other g pid _ _ _ _ q hq, viewCore_eq]
    have e1 : unviewLock pid g.sh.jobLock r.1.jobLock = g.sh.jobLock := hjl
    have e2 : unviewLock pid g.sh.saveLock r.1.saveLock = g.sh.saveLock := hsl
    have e3 : (r.1.dir, r.1.result) = files g := hfiles
    rw [e1, e2, e3]
  refine ⟨hM, hD, ?_, ?_, ?_, ?_, ?_, ?_, ?_⟩
  · intro q
    by_cases h : q = pid
    · subst h; rw [(procs_writeBack_self g q _ _ _ _).2.2.2.1]; exact hI.alive q
    · rw [procs_writeBack_other g pid _ _ _ _ q h]; exact hI.alive q
  · intro q
    by_cases h : q = pid
    · subst h; rw [(procs_writeBack_self g q _ _ _ _).2.2.1]; exact hI.env q
    · rw [procs_writeBack_other g pid _ _ _ _ q h]; exact hI.env q
  · intro h; rw [hjl] at h; rw [hsl]; exact hI.saveFree h
  · intro h hh; rw [hjl] at hh; rw [hsl]; exact hI.saveMine h hh
  · intro h; rw [hjl] at h; rw [hfiles, hex]; exact hI.unl h
  · intro h hh
    rw [hjl] at hh
    have hhp : h ≠ pid := fun e => hnh (e ▸ hh)
    have : X (writeBack g pid r.1 r.2.2 (k r.2.1) false) h = X g h := by
      simp only [X, hview h hhp, hex, procs_writeBack_other g pid _ _ _ _ h hhp]
    rw [this]; exact hI.hold h hh
  · intro q hq Fe hFe
    rw [hjl] at hq
    rw [hfut] at hFe
    have hg := hI.others q hq Fe hFe
    by_cases hqp : q = pid
    · subst hqp
      -- the same action in the hypothetical world
      obtain ⟨hhyp, _⟩ := coreStep_free (envs q) i a hfree Fe.1 .free .free (g.procs q).loc
      have hown' := own_step (envs q) target N (g.procs q).cfg i a k (mkCore Fe.1 .free .free (g.procs q).loc) Fe.2 hnext hg
      rw [hhyp] at hown'
      have hHy : Hy (writeBack g q r.1 r.2.2 (k r.2.1) false) q Fe =
          (k (locStep (envs q) i a (g.procs q).loc).2.1,
           ⟨mkCore Fe.1 .free .free (locStep (envs q) i a (g.procs q).loc).1,
            Fe.2 + execsIn (locStep (envs q) i a (g.procs q).loc).2.2, true⟩) := by
        simp only [Hy, (procs_writeBack_self g q _ _ _ _).1, (procs_writeBack_self g q _ _ _ _).2.1]
        rw [hreq, h0]
        simp only [Nat.add_zero]
        rw [mkCore_locOf_mk]
      rw [hHy]; exact hown'.2
    · have hHy : Hy (writeBack g pid r.1 r.2.2 (k r.2.1) false) q Fe = Hy g q Fe := by
        simp only [Hy, procs_writeBack_other g pid _ _ _ _ q hqp]
      rw [hHy]; exact hg

include hI in
/-- first half of the result write by the lock holder: only the result file changes, and the write that follows
    does not look at it -/
theorem red_mid
    (hnext : (g.procs pid).cfg.next (envs pid).rerun (envs pid).prov = .action i .saveResult k)
    (hm : midCond g pid .saveResult = true) (hh : g.sh.jobLock = some pid)
    (hM : MutexInv (writeBack g pid { viewCore g pid with result := .trunc } [] (g.procs pid).cfg true))
    (hD : DiscInv (writeBack g pid { viewCore g pid with result := .trunc } [] (g.procs pid).cfg true)) :
    RedInv envs F0 target N (writeBack g pid { viewCore g pid with result := .trunc } [] (g.procs pid).cfg true) := by
  have hGood := hI.hold pid hh
  simp only [midCond, Bool.and_eq_true, decide_eq_true_eq] at hm
  obtain ⟨⟨_, hdir⟩, hrv⟩ := hm
  have hjl : (writeBack g pid { viewCore g pid with result := .trunc } [] (g.procs pid).cfg true).sh.jobLock = g.sh.jobLock := by
    simp only [writeBack]; exact unview_view _ _ _
  have hsl : (writeBack g pid { viewCore g pid with result := .trunc } [] (g.procs pid).cfg true).sh.saveLock = g.sh.saveLock := by
    simp only [writeBack]; exact unview_view _ _ _
  have hex : ex (writeBack g pid { viewCore g pid with result := .trunc } [] (g.procs pid).cfg true) = ex g := by
    rw [ex_writeBack]; rfl
  have hvc : viewCore (writeBack g pid { viewCore g pid with result := .trunc } [] (g.procs pid).cfg true) pid =
      { viewCore g pid with result := .trunc } :=
    viewCore_writeBack_self g pid _ _ _ _ (.inl rfl) (.inl rfl)
  have hN : N ≠ 0 := by
    intro h0
    subst h0
    have : (X g pid).1 = ⟨.ctl .returning, []⟩ := hGood.1
    simp only [X] at this
    rw [this] at hnext
    simp [Cfg.next] at hnext
  have hXeq : fin (envs pid) target N (X (writeBack g pid { viewCore g pid with result := .trunc } [] (g.procs pid).cfg true) pid)
      = fin (envs pid) target N (X g pid) := by
    apply fin_of_soloStep_eq _ _ _ _ _ _ hN
    simp only [X, hvc, hex, (procs_writeBack_self g pid _ _ _ _).1]
    rw [soloStep_act _ _ _ i .saveResult k _ hnext, soloStep_act _ _ _ i .saveResult k _ hnext]
    simp only [cSem]
    rw [saveResult_ignores (envs pid) i (viewCore g pid) .trunc hdir hrv]
  refine ⟨hM, hD, ?_, ?_, ?_, ?_, ?_, ?_, ?_⟩
  · intro q
    by_cases h : q = pid
    · subst h; rw [(procs_writeBack_self g q _ _ _ _).2.2.2.1]; exact hI.alive q
    · rw [procs_writeBack_other g pid _ _ _ _ q h]; exact hI.alive q
  · intro q
    by_cases h : q = pid
    · subst h; rw [(procs_writeBack_self g q _ _ _ _).2.2.1]; exact hI.env q
    · rw [procs_writeBack_other g pid _ _ _ _ q h]; exact hI.env q
  · intro h; rw [hjl, hh] at h; cases h
  · intro h hh'; rw [hjl] at hh'; rw [hsl]; exact hI.saveMine h hh'
  · intro h; rw [hjl, hh] at h; cases h
  · intro h hh'
    rw [hjl, hh] at hh'
    cases hh'
    rw [hXeq]; exact hGood
  · intro q hq Fe hFe
    rw [hjl] at hq
    have hqp : q ≠ pid := fun e => hq (e ▸ hh)
    have hFe' := fut_locked F0 target _ (by rw [hjl, hh]; simp) Fe hFe
    subst hFe'
    have hHy : Hy (writeBack g pid { viewCore g pid with result := .trunc } [] (g.procs pid).cfg true) q Fe = Hy g q Fe := by
      simp only [Hy, procs_writeBack_other g pid _ _ _ _ q hqp]
    rw [hHy]
    exact hI.others q hq Fe (fut_mem_target F0 Fe g)

end act

theorem jobLock_kept (env : Env) (i : Nat) (a : Act) (c : Core) (h1 : a ≠ .lockAcquire .job) (h2 : a ≠ .lockRelease .job) :
    (coreStep env .none i a c).1.jobLock = c.jobLock := by
  by_cases hl : a.isLockOp = true
  · cases a with
    | lockAcquire l => cases l; · exact absurd rfl h1
                       exact (coreStep_save env i c).1
    | lockRelease l => cases l; · exact absurd rfl h2
                       exact (coreStep_save env i c).2
    | _ => simp [Act.isLockOp] at hl
  · have : a.isLockOp = false := by cases h : a.isLockOp <;> simp_all
    exact (coreStep_plain env i a c this).1

theorem viewLock_alive_cases (g : Global) (hal : ∀ q, (g.procs q).alive = true) (pid : Pid) (l : Option Pid) :
    (l = none ∧ viewLock g.alive pid l = .free) ∨ (l = some pid ∧ viewLock g.alive pid l = .mine) ∨
    ((∃ q, l = some q ∧ q ≠ pid) ∧ viewLock g.alive pid l = .otherLive) := by
  cases l with
  | none => exact .inl ⟨rfl, rfl⟩
  | some q =>
    by_cases h : q = pid
    · subst h; exact .inr (.inl ⟨rfl, by simp [viewLock]⟩)
    · refine .inr (.inr ⟨⟨q, rfl, h⟩, ?_⟩)
      have : g.alive q = true := hal q
      simp [viewLock, h, this]

/-- ONE MOVE of any process preserves the invariant -/
theorem red_step (envs : Pid → Env) (F0 : Files) (target : Target) (N : Nat) (g : Global)
    (hI : RedInv envs F0 target N g) (pid : Pid) : RedInv envs F0 target N (gstep g pid) := by
  have hM := mutexInv_step g hI.mutex pid
  have hD := discInv_step g hI.disc pid
  have hk := gstep_kind g pid
  have henv := hI.env pid
  generalize gstep g pid = g' at hk hM hD ⊢
  cases hk with
  | idle => exact hI
  | tau cfg' h =>
    rw [henv] at h
    exact red_setProc envs F0 target N g hI pid _ rfl rfl rfl (fun s => soloStep_tau _ _ _ _ s h) hM hD
  | done c h =>
    rw [henv] at h
    exact red_setProc envs F0 target N g hI pid _ rfl rfl rfl (fun s => soloStep_done _ _ _ c s h) hM hD
  | mid i k h hm =>
    have hh := holder_of_needs g hI.mutex hI.disc pid (hI.alive pid) i .saveResult k h (by decide)
    rw [henv] at h
    exact red_mid envs F0 target N g hI pid i k h hm hh hM hD
  | act i a k h hm hb =>
    have h' := h
    rw [henv] at h' hb hM hD ⊢
    rcases act_class a with hneed | hacq | hrel | hfree
    · -- needs the job lock: the process holds it, and keeps it
      have hh := holder_of_needs g hI.mutex hI.disc pid (hI.alive pid) i a k h hneed
      have h1 : a ≠ .lockAcquire .job := by intro e; subst e; simp [Act.needsJobLock, Act.touchesDir] at hneed
      have h2 : a ≠ .lockRelease .job := by intro e; subst e; simp [Act.needsJobLock, Act.touchesDir] at hneed
      have hmine : (coreStep (envs pid) .none i a (viewCore g pid)).1.jobLock = .mine := by
        rw [jobLock_kept _ _ _ _ h1 h2]
        exact (viewLock_mine_iff g.alive pid g.sh.jobLock).mpr hh
      exact red_keep envs F0 target N g hI pid i a k _ rfl h' (hI.hold pid hh) (.inl hh) hmine hM hD
    · subst hacq
      rcases coreStep_acquire_job (envs pid) i (viewCore g pid) with ⟨hfree, hmine, _⟩ | ⟨_, hblk⟩
      · have hv : viewLock g.alive pid g.sh.jobLock = .free ∨ viewLock g.alive pid g.sh.jobLock = .otherDead := hfree
        have hnone : g.sh.jobLock = none := by
          rcases viewLock_alive_cases g hI.alive pid g.sh.jobLock with ⟨h0, _⟩ | ⟨_, hv'⟩ | ⟨_, hv'⟩
          · exact h0
          · rcases hv with hv | hv <;> rw [hv'] at hv <;> cases hv
          · rcases hv with hv | hv <;> rw [hv'] at hv <;> cases hv
        have hsnone := hI.saveFree hnone
        have hXH : X g pid = Hy g pid (files g, ex g) := by
          simp only [X, Hy, viewCore_eq, hnone, hsnone, viewLock]
        have hmem : (files g, ex g) ∈ Fut F0 target g := by
          rcases hI.unl hnone with hu | hu
          · simp only [Fut, List.mem_append, List.mem_singleton]
            left; rw [if_pos ⟨hnone, hu⟩]; simp [hu]
          · rw [hu]; exact fut_mem_target F0 target g
        have hGood := hI.others pid (by rw [hnone]; simp) _ hmem
        rw [← hXH] at hGood
        exact red_keep envs F0 target N g hI pid i _ k _ rfl h' hGood (.inr hnone) hmine hM hD
      · exact absurd hblk hb
    · subst hrel
      have hh := holder_of_release g hI.mutex pid (hI.alive pid) i k h
      exact red_release envs F0 target N g hI pid i k _ rfl h' hh hM hD
    · by_cases hh : g.sh.jobLock = some pid
      · have h1 : a ≠ .lockAcquire .job := by intro e; subst e; simp [Act.isFree] at hfree
        have h2 : a ≠ .lockRelease .job := by intro e; subst e; simp [Act.isFree] at hfree
        have hmine : (coreStep (envs pid) .none i a (viewCore g pid)).1.jobLock = .mine := by
          rw [jobLock_kept _ _ _ _ h1 h2]
          exact (viewLock_mine_iff g.alive pid g.sh.jobLock).mpr hh
        exact red_keep envs F0 target N g hI pid i a k _ rfl h' (hI.hold pid hh) (.inl hh) hmine hM hD
      · exact red_free envs F0 target N g hI pid i a k _ rfl h' hh hfree hM hD

/-! ### Runs, the initial state, and what the invariant gives -/

/-- an interleaving without process deaths: the sequence of the processes that move -/
def grunSteps (g : Global) : List Pid → Global
  | [] => g
  | q :: qs => grunSteps (gstep g q) qs

theorem red_run (envs : Pid → Env) (F0 : Files) (target : Target) (N : Nat) (g : Global)
    (hI : RedInv envs F0 target N g) (qs : List Pid) : RedInv envs F0 target N (grunSteps g qs) := by
  induction qs generalizing g with
  | nil => exact hI
  | cons q qs ih => exact ih _ (red_step envs F0 target N g hI q)

/-- a process whose call has ended stands at the end of its program -/
def EndInv (g : Global) : Prop := ∀ q c, (g.procs q).ended = some c → (g.procs q).cfg = ⟨.ctl c, []⟩

theorem next_done (rr pv : Bool) (cfg : Cfg) (c : Ctl) (h : cfg.next rr pv = .done c) : cfg = ⟨.ctl c, []⟩ := by
  obtain ⟨focus, stack⟩ := cfg
  cases focus with
  | prog p i => cases p <;> simp [Cfg.next] at h
  | ctl c' =>
    cases stack with
    | nil => simp only [Cfg.next, Next.done.injEq] at h; rw [h]
    | cons fr st => cases fr <;> simp [Cfg.next] at h

theorem endInv_step (g : Global) (hE : EndInv g) (pid : Pid) : EndInv (gstep g pid) := by
  unfold gstep
  simp only []
  split
  · exact hE
  · rename_i hguard
    have hnone : (g.procs pid).ended = none := by
      cases h : (g.procs pid).ended with
      | none => rfl
      | some c => simp [h] at hguard
    cases hnext : (g.procs pid).cfg.next (g.procs pid).env.rerun (g.procs pid).env.prov with
    | tau cfg' =>
      intro q c hq
      by_cases h : q = pid
      · subst h; simp [setProc, hnone] at hq
      · simp only [setProc, h, if_false] at hq ⊢; exact hE q c hq
    | done c0 =>
      intro q c hq
      by_cases h : q = pid
      · subst h
        simp only [setProc, if_true, Option.some.injEq] at hq ⊢
        subst hq
        exact next_done _ _ _ _ hnext
      · simp only [setProc, h, if_false] at hq ⊢; exact hE q c hq
    | action i a k =>
      simp only []
      split
      · intro q c hq
        by_cases h : q = pid
        · subst h; simp [writeBack, hnone] at hq
        · simp only [writeBack, h, if_false] at hq ⊢; exact hE q c hq
      · split
        · exact hE
        · intro q c hq
          by_cases h : q = pid
          · subst h; simp [writeBack, hnone] at hq
          · simp only [writeBack, h, if_false] at hq ⊢; exact hE q c hq

theorem endInv_run (g : Global) (hE : EndInv g) (qs : List Pid) : EndInv (grunSteps g qs) := by
  induction qs generalizing g with
  | nil => exact hE
  | cons q qs ih => exact ih _ (endInv_step g hE q)

theorem soloIter_fix {σ : Type} (S : Sem σ) (x : Cfg × σ) (h : soloStep S x = x) : ∀ n, soloIter S n x = x := by
  intro n
  induction n with
  | zero => rfl
  | succ n ih => simp only [soloIter, h, ih]

/-- the world every submitter must leave behind: a complete good result, the body entered once — or not at all if
    the complete good result was there from the start -/
def isGoodRes : ResFile → Bool
  | .complete ⟨false, true⟩ => true
  | _ => false

def targetOf (F0 : Files) : Target := ((true, .complete ⟨false, true⟩), if F0.1 && isGoodRes F0.2 then 0 else 1)

def PlainEnv (ac : Bool) (env : Env) : Prop := env.rerun = false ∧ env.bodyFails = none ∧ env.auditChdir = ac

/-- FINITE CHECK (per skeleton): a submitter that runs alone — from the initial world or from the target world,
    for every legal initial result file — returns the complete good result into the target world within `N` moves,
    and every release of the job lock on its way leaves the target world behind -/
def InitGood (p : Prog) (ac : Bool) (N : Nat) : Prop :=
  ∀ d0 ∈ [false, true],
    ∀ r0 ∈ [ResFile.absent, .trunc, .complete ⟨false, true⟩, .complete ⟨true, false⟩], ∀ pv ∈ [false, true],
      ∀ Fe ∈ [(((d0, r0), 0) : Target), targetOf (d0, r0)],
        GoodR (targetOf (d0, r0)) (fin ⟨false, pv, none, ac⟩ (targetOf (d0, r0)) N
          (⟨.prog p 0, []⟩, ⟨mkCore Fe.1 .free .free Local.fresh, Fe.2, true⟩))

instance (p : Prog) (ac : Bool) (N : Nat) : Decidable (InitGood p ac N) := by unfold InitGood; infer_instance

theorem legal_mem (r : ResFile) (h : r.legal = true) :
    r ∈ [ResFile.absent, .trunc, .complete ⟨false, true⟩, .complete ⟨true, false⟩] := by
  rcases r with _ | _ | ⟨⟨e, o⟩⟩ <;> (try cases e) <;> (try cases o) <;> simp [ResFile.legal] at h ⊢

theorem redInv_init (p : Prog) (hnb : p.noBareLock = true) (hout : p.outsideOK = true) (ac : Bool) (N : Nat)
    (hG : InitGood p ac N) (envs : Pid → Env) (hpl : ∀ q, PlainEnv ac (envs q)) (d0 : Bool) (r0 : ResFile)
    (hleg : r0.legal = true) :
    RedInv envs (d0, r0) (targetOf (d0, r0)) N (Global.init p envs d0 r0) := by
  refine ⟨mutexInv_init p hnb envs d0 r0, discInv_init p hout envs d0 r0, fun _ => rfl, fun _ => rfl, fun _ => rfl,
    ?_, fun _ => .inl rfl, ?_, ?_⟩
  · intro h hh; cases hh
  · intro h hh; cases hh
  · intro q _ Fe hFe
    obtain ⟨e1, e2, e3⟩ := hpl q
    have henv : envs q = ⟨false, (envs q).prov, none, ac⟩ := by
      cases hq : envs q with
      | mk rr pv bf ac' => rw [hq] at e1 e2 e3; simp only at e1 e2 e3; subst e1 e2 e3; rfl
    have hFe' : Fe ∈ [(((d0, r0), 0) : Target), targetOf (d0, r0)] := by
      simp only [Fut, List.mem_append, List.mem_singleton] at hFe
      rcases hFe with hFe | hFe
      · split at hFe
        · simp only [List.mem_singleton] at hFe; simp [hFe]
        · cases hFe
      · simp [hFe]
    have := hG d0 (by cases d0 <;> simp) r0 (legal_mem r0 hleg) (envs q).prov (by cases (envs q).prov <;> simp) Fe hFe'
    rw [henv]
    exact this

/-- what the invariant says about a state -/
theorem once_of_inv (envs : Pid → Env) (F0 : Files) (target : Target) (N : Nat) (g : Global)
    (hI : RedInv envs F0 target N g) (hE : EndInv g) :
    (∀ q c, (g.procs q).ended = some c → c = .returning ∧ (g.procs q).loc.resVar = some ⟨false, true⟩) ∧
    (g.sh.jobLock = none → (files g, ex g) = (F0, 0) ∨ (files g, ex g) = target) ∧
    (g.sh.jobLock = none → (∃ q, (g.procs q).ended.isSome = true) → (files g, ex g) = target) ∧
    (∀ a b, (g.procs a).cfg.holdsJob = true → (g.procs b).cfg.holdsJob = true → a = b) := by
  -- an ended submitter, seen in any world it could still find
  have hend : ∀ q c, (g.procs q).ended = some c → ∀ Fe ∈ Fut F0 target g, GoodR target (Hy g q Fe) := by
    intro q c hq Fe hFe
    have hcfg := hE q c hq
    have hnh : g.sh.jobLock ≠ some q := by
      intro hh
      have := (holds_iff g hI.mutex q (hI.alive q)).mpr hh
      simp [Cfg.holdsJob, hcfg, jobFrames] at this
    have hgood := hI.others q hnh Fe hFe
    have hfix : soloStep (cSem (envs q) target) (Hy g q Fe) = Hy g q Fe := by
      simp only [soloStep, Hy, hcfg, Cfg.next]
    unfold fin at hgood
    rw [soloIter_fix _ _ hfix] at hgood
    exact hgood
  refine ⟨?_, hI.unl, ?_, ?_⟩
  · intro q c hq
    have hg := hend q c hq _ (fut_mem_target _ _ g)
    have h1 : (g.procs q).cfg = ⟨.ctl .returning, []⟩ := hg.1
    rw [hE q c hq] at h1
    simp only [Cfg.mk.injEq, Focus.ctl.injEq, and_true] at h1
    exact ⟨h1, hg.2.1⟩
  · intro hl ⟨q, hq⟩
    cases hqe : (g.procs q).ended with
    | none => rw [hqe] at hq; cases hq
    | some c =>
      rcases hI.unl hl with hu | hu
      · have hmem : ((F0, 0) : Target) ∈ Fut F0 target g := by
          simp only [Fut, List.mem_append, List.mem_singleton]
          left; rw [if_pos ⟨hl, hu⟩]; simp
        have hg := hend q c hqe _ hmem
        have h3 := hg.2.2.1
        simp only [Hy, mkCore] at h3
        rw [hu]; exact h3
      · exact hu
  · intro a b ha hb
    exact mutex_of_inv g hI.mutex a b (hI.alive a) (hI.alive b) ha hb

/-- MAIN THEOREM: any interleaving (no deaths) of any number of plain submitters of a disciplined program whose
    solo runs are good:
    * every submitter whose call has ended has returned the complete good result;
    * whenever nobody holds the lock the world is the initial one or the target one, and it is the target one
      (result complete and good, body entered exactly once — or never, if the good result was there from the
      start) as soon as one submitter has ended;
    * at most one submitter is inside the job lock. -/
theorem once_interleaved (p : Prog) (hnb : p.noBareLock = true) (hout : p.outsideOK = true) (ac : Bool) (N : Nat)
    (hG : InitGood p ac N) (envs : Pid → Env) (hpl : ∀ q, PlainEnv ac (envs q)) (d0 : Bool) (r0 : ResFile)
    (hleg : r0.legal = true) (qs : List Pid) :
    (∀ q c, ((grunSteps (Global.init p envs d0 r0) qs).procs q).ended = some c →
      c = .returning ∧ ((grunSteps (Global.init p envs d0 r0) qs).procs q).loc.resVar = some ⟨false, true⟩) ∧
    ((grunSteps (Global.init p envs d0 r0) qs).sh.jobLock = none →
      (files (grunSteps (Global.init p envs d0 r0) qs), ex (grunSteps (Global.init p envs d0 r0) qs)) = ((d0, r0), 0) ∨
      (files (grunSteps (Global.init p envs d0 r0) qs), ex (grunSteps (Global.init p envs d0 r0) qs)) = targetOf (d0, r0)) ∧
    ((grunSteps (Global.init p envs d0 r0) qs).sh.jobLock = none →
      (∃ q, ((grunSteps (Global.init p envs d0 r0) qs).procs q).ended.isSome = true) →
      (files (grunSteps (Global.init p envs d0 r0) qs), ex (grunSteps (Global.init p envs d0 r0) qs)) = targetOf (d0, r0)) ∧
    (∀ a b, ((grunSteps (Global.init p envs d0 r0) qs).procs a).cfg.holdsJob = true →
      ((grunSteps (Global.init p envs d0 r0) qs).procs b).cfg.holdsJob = true → a = b) :=
  once_of_inv envs (d0, r0) (targetOf (d0, r0)) N _
    (red_run envs (d0, r0) (targetOf (d0, r0)) N _ (redInv_init p hnb hout ac N hG envs hpl d0 r0 hleg) qs)
    (endInv_run (Global.init p envs d0 r0) (fun q c h => by cases h) qs)

end PydraModel.JobProto
