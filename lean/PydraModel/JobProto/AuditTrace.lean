/-
Engine `JobProto`, part `AuditTrace` (DESIGN §5.4, property C36): the provenance messages of an execution.

Code mirrored (pydra/engine/audit.py, pydra/engine/job.py, pydra/utils/messenger.py), with PROV auditing on:

* `Job.run` / `Job.run_async` of a job whose body runs (a cached job returns before any audit call):
    `audit.start_audit`   `self.aid = uuid; user_id = uuid;  send {"@id": aid, "@type": "job", "startedAtTime": …}`
    `audit.audit_task`    (only in the synchronous `run`)  `send {"@id": self.aid, "Label": job.name, …}`
    `audit.monitor`       (RESOURCE) `self.mid = uuid; send {"@id": mid, "@type": "monitor", "wasStartedBy": self.aid}`
    body                  for a workflow job: the node jobs, each a `Job` of its own, one after the other
    `audit.finalize_audit` in `finally` (RESOURCE) `send {"@id": self.mid, "wasEndedBy": self.aid}`, `self.eid = uuid`,
                          `send {"@id": eid, "@type": "runtime", "prov:wasGeneratedBy": self.aid}`,
                          `send {"@type": "prov:Generation", "entity_generated": eid, "hadActivity": self.mid}`;
                          then `send {"@id": self.aid, "endedAtTime": …, "errored": result.errored}`
* `Job.__init__`: `self.audit = copy(submitter.audit)` — every job has its own `Audit` object, hence its own
  `aid/mid/eid` attributes (`shared = false`).  `shared = true` is the pinned commit (`self.audit =
  submitter.audit`: one object for a workflow job and all its node jobs), kept only as documentation of the
  repaired defect D21.
* `gen_uuid()` is modelled as a counter (`uuid4` never repeats: trusted).

An execution is a forest in first-child / next-sibling form: `node info kids rest` is a job with nested jobs
`kids`, followed by its later siblings `rest`; a single submission is `node info kids nil`.  Core Lean only.
-/
namespace PydraModel.JobProto.Audit

structure Info where
  label : Nat
  errored : Bool      -- `result.errored` of the job
  sync : Bool         -- ran through `Job.run` (true) or `Job.run_async` (false)
deriving DecidableEq, Repr

inductive Forest
  | nil
  | node (i : Info) (kids : Forest) (rest : Forest)
deriving DecidableEq, Repr

inductive Msg
  | start (aid : Nat)
  | task (aid label : Nat)
  | monStart (mid aid : Nat)
  | monEnd (mid aid : Nat)
  | runtime (eid aid : Nat)
  | generation (eid mid : Nat)
  | end_ (aid : Nat) (errored : Bool)
deriving DecidableEq, Repr

/-- the attributes of one `Audit` object -/
structure Reg where
  aid : Nat
  mid : Nat
  eid : Nat
deriving DecidableEq, Repr

/-- messages, next unused uuid, and the `Audit` object the *submitter* holds afterwards -/
def emit (shared resource : Bool) : Forest → Nat → Reg → List Msg × Nat × Reg
  | .nil, n, rg => ([], n, rg)
  | .node i kids rest, n, rg =>
    -- start_audit (two uuids: the activity and `executedBy`)
    let rg1 : Reg := { rg with aid := n }
    let pre1 := Msg.start rg1.aid :: (if i.sync then [Msg.task rg1.aid i.label] else [])
    let n1 := n + 2
    -- monitor
    let pre2 := if resource then [Msg.monStart n1 rg1.aid] else []
    let rg2 : Reg := if resource then { rg1 with mid := n1 } else rg1
    let n2 := if resource then n1 + 1 else n1
    -- body
    let body := emit shared resource kids n2 rg2
    -- the object `finalize_audit` reads: the job's own copy, or the one object everybody wrote to
    let rgF : Reg := if shared then body.2.2 else rg2
    let n3 := body.2.1
    let post := if resource then [Msg.monEnd rgF.mid rgF.aid, Msg.runtime n3 rgF.aid, Msg.generation n3 rgF.mid] else []
    let rg4 : Reg := if resource then { rgF with eid := n3 } else rgF
    let n4 := if resource then n3 + 1 else n3
    let mine := pre1 ++ pre2 ++ body.1 ++ post ++ [Msg.end_ rgF.aid i.errored]
    -- later siblings: in the shared variant they inherit the object as this job left it
    let r := emit shared resource rest n4 (if shared then rg4 else rg)
    (mine ++ r.1, r.2.1, r.2.2)

def trace (shared resource : Bool) (f : Forest) (n : Nat) : List Msg := (emit shared resource f n ⟨0, 0, 0⟩).1

/-! ### what the trace should be about: the executed jobs and the uuids they are given -/

def Forest.size : Forest → Nat
  | .nil => 0
  | .node _ kids rest => 1 + kids.size + rest.size

/-- uuids consumed by a forest -/
def used (resource : Bool) : Forest → Nat
  | .nil => 0
  | .node _ kids rest => 2 + (if resource then 2 else 0) + used resource kids + used resource rest

/-- the executed jobs in pre-order with the activity id each one draws -/
def jobs (resource : Bool) : Forest → Nat → List (Nat × Info)
  | .nil, _ => []
  | .node i kids rest, n =>
    let n2 := n + 2 + (if resource then 1 else 0)
    let n4 := n2 + used resource kids + (if resource then 1 else 0)
    (n, i) :: (jobs resource kids n2 ++ jobs resource rest n4)

/-! ### projections of a trace -/

def starts (tr : List Msg) : List Nat := tr.filterMap (fun m => match m with | .start a => some a | _ => none)

def ends (tr : List Msg) : List (Nat × Bool) :=
  tr.filterMap (fun m => match m with | .end_ a e => some (a, e) | _ => none)

def tasks (tr : List Msg) : List (Nat × Nat) :=
  tr.filterMap (fun m => match m with | .task a l => some (a, l) | _ => none)

def monStarts (tr : List Msg) : List Nat :=
  tr.filterMap (fun m => match m with | .monStart _ a => some a | _ => none)

def monEnds (tr : List Msg) : List Nat :=
  tr.filterMap (fun m => match m with | .monEnd _ a => some a | _ => none)

/-! ### the record log seen without knowing what kind of activity a record belongs to -/

/-- the activity a record opens: a record with `startedAtTime` opens the activity named by its `@id` (a job
    activity or a monitor activity) -/
def Msg.opens : Msg → Option Nat
  | .start a => some a
  | .monStart m _ => some m
  | _ => none

/-- the activity a record closes: a record with `endedAtTime` closes the activity named by its `@id` -/
def Msg.closes : Msg → Option Nat
  | .end_ a _ => some a
  | .monEnd m _ => some m
  | _ => none

def opened (tr : List Msg) : List Nat := tr.filterMap Msg.opens
def closed (tr : List Msg) : List Nat := tr.filterMap Msg.closes

/-- every activity id is opened at most once, and has exactly as many end records as start records under that
    very id: each started activity — job or monitor — has exactly one end record, and nothing else is ended -/
def WellClosed (tr : List Msg) : Prop :=
  (opened tr).Nodup ∧ ∀ id, (closed tr).count id = (opened tr).count id

end PydraModel.JobProto.Audit
