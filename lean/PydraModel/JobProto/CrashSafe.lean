import PydraModel.JobProto.Crash
/-
C12 machinery: the two finite checks that are evaluated on a skeleton (`ClosedUnderCrash`, `ResubmissionGood`),
and the general theorem `crashSafe_of` that lifts them to EVERY initial world, EVERY crash position (any
natural number), torn or not, and every resubmission.
-/
namespace PydraModel.JobProto

/-- the complete correct result: not errored, outputs present -/
def good : ResVal := ⟨false, true⟩

def allEnvs (ac : Bool) : List Env :=
  [false, true].flatMap fun rr => [false, true].flatMap fun pv =>
    [none, some false, some true].map fun bf => ⟨rr, pv, bf, ac⟩

theorem mem_allEnvs (env : Env) : env ∈ allEnvs env.auditChdir := by
  obtain ⟨rr, pv, bf, ac⟩ := env
  cases rr <;> cases pv <;> rcases bf with _ | b <;> (try cases b) <;> simp [allEnvs]

def ResFile.isGood : ResFile → Bool
  | .complete ⟨false, true⟩ => true
  | _ => false

theorem ResFile.isGood_iff (r : ResFile) : r.isGood = true ↔ r = .complete good := by
  rcases r with _ | _ | ⟨⟨e, o⟩⟩ <;> (try cases e) <;> (try cases o) <;> simp [ResFile.isGood, good]

def LockSt.isOtherLive : LockSt → Bool
  | .otherLive => true
  | _ => false

/-- A crash state is harmless: no marker of a live process, a legal result file (so the next process again
    finds an initial shape), and a complete good result is on disk only if it was there before or the task
    body finished in this run. -/
def CrashClosed (c0 : Core) (s : World) : Prop :=
  s.core.jobLock.isOtherLive = false ∧ s.core.saveLock.isOtherLive = false ∧ s.core.result.legal = true ∧
  (s.core.result.isGood = true → c0.result.isGood = true ∨ finishedIn s.evs = 1)

instance (c0 : Core) (s : World) : Decidable (CrashClosed c0 s) := by unfold CrashClosed; infer_instance

/-- whatever a dying process leaves behind, the next process finds fresh process state and no live lock holder
    (the dead process's markers are stale); only the result file's legality depends on the skeleton -/
theorem afterDeath_mem (c : Core) (hj : c.jobLock.isOtherLive = false) (hs : c.saveLock.isOtherLive = false)
    (hl : c.result.legal = true) : normC (afterDeathC c) ∈ baseCores := by
  apply initial_normC_mem
  obtain ⟨d, r, jl, sl, info, cwd, scwd, rv, je, lrb⟩ := c
  simp only at hj hs hl
  refine ⟨hl, ?_, ?_, rfl, rfl, rfl, rfl, rfl, rfl⟩
  · cases jl <;> simp_all [afterDeathC, staleLock, LockSt.noLiveHolder, LockSt.isOtherLive]
  · cases sl <;> simp_all [afterDeathC, staleLock, LockSt.noLiveHolder, LockSt.isOtherLive]

/-- FINITE CHECK A (per skeleton): every crash state of every representative world is harmless. -/
def ClosedUnderCrash (p : Prog) (ac : Bool) : Prop :=
  ∀ c0 ∈ baseCores, ∀ env ∈ allEnvs ac, ∀ s ∈ crashStates p env ⟨c0, []⟩, CrashClosed c0 s

instance (p : Prog) (ac : Bool) : Decidable (ClosedUnderCrash p ac) := by unfold ClosedUnderCrash; infer_instance

/-- check A for one behaviour of the task body (the check is split so that no single evaluation is long) -/
def ClosedUnderCrashAt (p : Prog) (ac : Bool) (bf : Option Bool) : Prop :=
  ∀ c0 ∈ baseCores, ∀ rr ∈ [false, true], ∀ pv ∈ [false, true],
    ∀ s ∈ crashStates p ⟨rr, pv, bf, ac⟩ ⟨c0, []⟩, CrashClosed c0 s

instance (p : Prog) (ac : Bool) (bf : Option Bool) : Decidable (ClosedUnderCrashAt p ac bf) := by
  unfold ClosedUnderCrashAt; infer_instance

theorem closedUnderCrash_of_parts (p : Prog) (ac : Bool) (h0 : ClosedUnderCrashAt p ac none)
    (h1 : ClosedUnderCrashAt p ac (some false)) (h2 : ClosedUnderCrashAt p ac (some true)) :
    ClosedUnderCrash p ac := by
  intro c0 hc0 env henv s hs
  obtain ⟨rr, pv, bf, ac'⟩ := env
  simp only [allEnvs, List.mem_flatMap, List.mem_map] at henv
  obtain ⟨rr', hrr, pv', hpv, bf', hbf, heq⟩ := henv
  cases heq
  simp only [List.mem_cons, List.not_mem_nil, or_false] at hbf
  rcases hbf with rfl | rfl | rfl
  · exact h0 c0 hc0 rr hrr pv hpv s hs
  · exact h1 c0 hc0 rr hrr pv hpv s hs
  · exact h2 c0 hc0 rr hrr pv hpv s hs

/-- a submission (task body succeeds) from representative `c1` ends well: it returns the complete correct
    result, that result is on disk, the body ran once — or not at all if the result was already there —
    and both locks are free -/
def ResubGood (c1 : Core) (r2 : World × Ctl) : Prop :=
  outcome r2 = .returned (some good) ∧ r2.1.core.result = .complete good ∧
  (execsIn r2.1.evs = 1 ∨ (execsIn r2.1.evs = 0 ∧ c1.result = .complete good)) ∧
  r2.1.core.jobLock = .free ∧ r2.1.core.saveLock = .free

instance (c1 : Core) (r2 : World × Ctl) : Decidable (ResubGood c1 r2) := by unfold ResubGood; infer_instance

/-- FINITE CHECK B (per skeleton) -/
def ResubmissionGood (p : Prog) (ac : Bool) : Prop :=
  ∀ c1 ∈ baseCores, ∀ rr ∈ [false, true], ∀ pv ∈ [false, true],
    ResubGood c1 (exec p ⟨rr, pv, none, ac⟩ .none ⟨c1, []⟩)

instance (p : Prog) (ac : Bool) : Decidable (ResubmissionGood p ac) := by unfold ResubmissionGood; infer_instance

/-- C12 for one crash scenario: the process running `p` in `w0` under `env1` dies as `f` says; a new process
    resubmits under `env2` (body succeeds).  The resubmission returns the complete correct result (never a
    partial one), having re-executed the body or found a complete result that is legitimate (it was there before
    the crashed run, or the crashed run's body had finished); both locks can be acquired afterwards. -/
def CrashSafe (p : Prog) (w0 : World) (env1 : Env) (f : Fault) (env2 : Env) : Prop :=
  let r1 := exec p env1 f w0
  let w1 := afterDeath r1.1
  let r2 := exec p env2 .none w1
  outcome r2 = .returned (some good) ∧ r2.1.core.result = .complete good ∧
  (r2.1.execs = w1.execs + 1 ∨
    (r2.1.execs = w1.execs ∧ w1.core.result = .complete good ∧
      (w0.core.result = .complete good ∨ r1.1.finished = w0.finished + 1))) ∧
  (acquire r2.1.core.jobLock).isSome = true ∧ (acquire r2.1.core.saveLock).isSome = true

theorem normL_free_acquirable (l : LockSt) (h : normL l = .free) : (acquire l).isSome = true := by
  cases l <;> simp_all [normL, acquire]

theorem crashSafe_of (p : Prog) (ac : Bool) (hA : ClosedUnderCrash p ac) (hB : ResubmissionGood p ac)
    (w0 : World) (h0 : w0.core.Initial) (env1 : Env) (h1 : env1.auditChdir = ac) (j : Nat) (f : Fault)
    (hf : f = .dieAt j ∨ f = .tornAt j) (rr2 pv2 : Bool) :
    CrashSafe p w0 env1 f ⟨rr2, pv2, none, ac⟩ := by
  -- the crashed run, reduced to its representative
  have hc0 := initial_normC_mem w0.core h0
  obtain ⟨e1c, e1e, _⟩ := exec_reduce p env1 f w0
  have hmem : (exec p env1 f ⟨normC w0.core, []⟩).1 ∈ crashStates p env1 ⟨normC w0.core, []⟩ := by
    rcases hf with rfl | rfl
    · exact exec_die_mem p env1 j _
    · exact exec_torn_mem p env1 j _
  have henv : env1 ∈ allEnvs ac := h1 ▸ mem_allEnvs env1
  obtain ⟨hlj, hls, hleg, hlegit⟩ := hA _ hc0 env1 henv _ hmem
  have hshape := afterDeath_mem _ hlj hls hleg
  -- the resubmission, reduced to its representative
  obtain ⟨e2c, e2e, e2ctl⟩ := exec_reduce p ⟨rr2, pv2, none, ac⟩ .none (afterDeath (exec p env1 f w0).1)
  have hrep : normC (afterDeath (exec p env1 f w0).1).core =
      normC (afterDeathC (exec p env1 f ⟨normC w0.core, []⟩).1.core) := by
    show normC (afterDeathC _) = _
    rw [← normC_afterDeathC, e1c]
  rw [hrep] at e2c e2e e2ctl
  obtain ⟨b1, b2, b3, b4, b5⟩ := hB _ hshape rr2 (by cases rr2 <;> simp) pv2 (by cases pv2 <;> simp)
  -- facts about the cores: `normC` only touches the locks
  have hres : ∀ c : Core, (normC c).result = c.result := fun _ => rfl
  have hrv : ∀ c : Core, (normC c).resVar = c.resVar := fun _ => rfl
  refine ⟨?_, ?_, ?_, ?_, ?_⟩
  · -- outcome
    unfold outcome at b1 ⊢
    rw [e2ctl]
    rw [← e2c] at b1
    simpa [hrv] using b1
  · rw [← hres, e2c]; exact b2
  · -- executed again, or legitimately cached
    have hx : (exec p ⟨rr2, pv2, none, ac⟩ .none (afterDeath (exec p env1 f w0).1)).1.execs =
        (afterDeath (exec p env1 f w0).1).execs +
          execsIn (exec p ⟨rr2, pv2, none, ac⟩ .none
            ⟨normC (afterDeathC (exec p env1 f ⟨normC w0.core, []⟩).1.core), []⟩).1.evs := by
      simp only [World.execs]
      rw [e2e, execsIn_append, Nat.add_comm]
    rcases b3 with b3 | ⟨b3, b3'⟩
    · left; rw [hx, b3]
    · right
      refine ⟨by rw [hx, b3]; rfl, ?_, ?_⟩
      · -- the result found by the resubmission is the one the crash left
        have : (afterDeath (exec p env1 f w0).1).core.result = (exec p env1 f ⟨normC w0.core, []⟩).1.core.result := by
          show (afterDeathC _).result = _
          rw [← e1c]; rfl
        rw [this]
        exact b3'
      · have hr1 : (exec p env1 f ⟨normC w0.core, []⟩).1.core.result = .complete good := b3'
        rcases hlegit ((ResFile.isGood_iff _).mpr hr1) with hl | hl
        · left; exact (ResFile.isGood_iff _).mp hl
        · right
          simp only [World.finished]
          rw [e1e, finishedIn_append, hl, Nat.add_comm]
  · apply normL_free_acquirable
    have : (normC (exec p ⟨rr2, pv2, none, ac⟩ .none (afterDeath (exec p env1 f w0).1)).1.core).jobLock = .free := by
      rw [e2c]; exact b4
    exact this
  · apply normL_free_acquirable
    have : (normC (exec p ⟨rr2, pv2, none, ac⟩ .none (afterDeath (exec p env1 f w0).1)).1.core).saveLock = .free := by
      rw [e2c]; exact b5
    exact this

end PydraModel.JobProto
