import PydraModel.JobProto.Prog
/-
General lemmas about the control-flow interpreter `Prog.run` (any program, any action semantics):

* `run_sim`     — simulation: two action semantics related step by step give related runs (used for counter
                  independence and for "a stale marker behaves like no marker");
* `halt_or_log` — crash prefixes: a run that halts right before (or inside) action `j` ends in the state that
                  the fault-free run has logged for position `j`, or `j` is never reached and the two runs agree.
                  This turns "for every crash point" (one run per point) into ONE logged run per world.
-/
namespace PydraModel.JobProto

variable {σ τ : Type}

/-! ### Simulation -/

/-- two results are related: states by `R`, controls equal -/
def RelRes (R : σ → τ → Prop) (x : σ × Ctl) (y : τ × Ctl) : Prop := R x.1 y.1 ∧ x.2 = y.2

theorem thenIfNormal_sim {R : σ → τ → Prop} {r : σ × Ctl} {r' : τ × Ctl} {k : σ → σ × Ctl} {k' : τ → τ × Ctl}
    (h : RelRes R r r') (hk : ∀ s t, R s t → RelRes R (k s) (k' t)) :
    RelRes R (thenIfNormal r k) (thenIfNormal r' k') := by
  unfold thenIfNormal
  rw [h.2]
  split
  · exact hk _ _ h.1
  · exact h

theorem handledBy_sim {R : σ → τ → Prop} {ca : Bool} {r : σ × Ctl} {r' : τ × Ctl} {k : σ → σ × Ctl}
    {k' : τ → τ × Ctl} (h : RelRes R r r') (hk : ∀ s t, R s t → RelRes R (k s) (k' t)) :
    RelRes R (handledBy ca r k) (handledBy ca r' k') := by
  unfold handledBy
  rw [h.2]
  split
  · exact hk _ _ h.1
  · exact h

theorem thenFinally_sim {R : σ → τ → Prop} {r : σ × Ctl} {r' : τ × Ctl} {k : σ → σ × Ctl} {k' : τ → τ × Ctl}
    (h : RelRes R r r') (hk : ∀ s t, R s t → RelRes R (k s) (k' t)) :
    RelRes R (thenFinally r k) (thenFinally r' k') := by
  unfold thenFinally
  rw [h.2]
  split
  · exact h
  · have := hk _ _ h.1
    exact ⟨this.1, by show Ctl.over _ _ = Ctl.over _ _; rw [this.2]⟩

theorem run_sim (S : Sem σ) (T : Sem τ) (R : σ → τ → Prop)
    (hact : ∀ i a s t, R s t → RelRes R (S.act i a s) (T.act i a t))
    (hre : ∀ s t, R s t → S.rerun s = T.rerun t) (hpr : ∀ s t, R s t → S.prov s = T.prov t) :
    ∀ (p : Prog) (i : Nat) (s : σ) (t : τ), R s t → RelRes R (p.run S i s) (p.run T i t) := by
  intro p
  induction p with
  | skip => intro i s t h; exact ⟨h, rfl⟩
  | act a => intro i s t h; exact hact i a s t h
  | seq p q ihp ihq =>
    intro i s t h
    exact thenIfNormal_sim (ihp i s t h) (fun s t h => ihq _ s t h)
  | tryExceptFinally ca b e f ihb ihe ihf =>
    intro i s t h
    exact thenFinally_sim (handledBy_sim (ihb i s t h) (fun s t h => ihe _ s t h)) (fun s t h => ihf _ s t h)
  | withLock l b ih =>
    intro i s t h
    exact thenIfNormal_sim (hact i _ s t h)
      (fun s t h => thenFinally_sim (ih _ s t h) (fun s t h => hact _ _ s t h))
  | ifNotRerun b ih =>
    intro i s t h
    simp only [Prog.run]
    rw [hre s t h]
    split
    · exact ⟨h, rfl⟩
    · exact ih i s t h
  | ifAuditProv b ih =>
    intro i s t h
    simp only [Prog.run]
    rw [hpr s t h]
    split
    · exact ih i s t h
    · exact ⟨h, rfl⟩

/-- special case: a function on states commuting with every action -/
theorem run_map (S : Sem σ) (T : Sem τ) (g : σ → τ)
    (hact : ∀ i a s, (T.act i a (g s)) = (g (S.act i a s).1, (S.act i a s).2))
    (hre : ∀ s, S.rerun s = T.rerun (g s)) (hpr : ∀ s, S.prov s = T.prov (g s)) (p : Prog) (i : Nat) (s : σ) :
    p.run T i (g s) = (g (p.run S i s).1, (p.run S i s).2) := by
  have h := run_sim S T (fun s t => t = g s)
    (by intro i a s t h; subst h; rw [hact]; exact ⟨rfl, rfl⟩)
    (by intro s t h; subst h; exact hre s) (by intro s t h; subst h; exact hpr s) p i s (g s) rfl
  exact Prod.ext h.1 h.2.symm

/-! ### Crash prefixes -/

/-- the process halts at position `j`: `h a s` is what the interrupted action leaves behind -/
def haltSem (S : Sem σ) (j : Nat) (h : Act → σ → σ) : Sem σ where
  act i a s := if i = j then (h a s, .dead) else S.act i a s
  rerun := S.rerun
  prov := S.prov

abbrev Log (σ : Type) := List (Nat × Act × σ)

/-- the fault-free semantics, logging `(position, action, state before the action)` (newest first) -/
def logSem (S : Sem σ) : Sem (σ × Log σ) where
  act i a s := (((S.act i a s.1).1, (i, a, s.1) :: s.2), (S.act i a s.1).2)
  rerun s := S.rerun s.1
  prov s := S.prov s.1

/-- a continuation on logged states only ever extends the log -/
def LogMono (k : σ × Log σ → (σ × Log σ) × Ctl) : Prop :=
  ∀ s log x, x ∈ log → x ∈ (k (s, log)).1.2

theorem thenIfNormal_mono {r : (σ × Log σ) × Ctl} {k} {x : Nat × Act × σ} (h : x ∈ r.1.2) (hk : LogMono k) :
    x ∈ (thenIfNormal r k).1.2 := by
  unfold thenIfNormal
  split
  · exact hk r.1.1 r.1.2 x h
  · exact h

theorem handledBy_mono {ca : Bool} {r : (σ × Log σ) × Ctl} {k} {x : Nat × Act × σ} (h : x ∈ r.1.2)
    (hk : LogMono k) : x ∈ (handledBy ca r k).1.2 := by
  unfold handledBy
  split
  · exact hk r.1.1 r.1.2 x h
  · exact h

theorem thenFinally_mono {r : (σ × Log σ) × Ctl} {k} {x : Nat × Act × σ} (h : x ∈ r.1.2) (hk : LogMono k) :
    x ∈ (thenFinally r k).1.2 := by
  unfold thenFinally
  split
  · exact h
  · exact hk r.1.1 r.1.2 x h

theorem act_mono (S : Sem σ) (i : Nat) (a : Act) : LogMono ((logSem S).act i a) := by
  intro s log x hx
  exact List.mem_cons_of_mem _ hx

theorem log_mono (S : Sem σ) : ∀ (p : Prog) (i : Nat), LogMono (p.run (logSem S) i) := by
  intro p
  induction p with
  | skip => intro i s log x hx; exact hx
  | act a => intro i; exact act_mono S i a
  | seq p q ihp ihq =>
    intro i s log x hx
    exact thenIfNormal_mono (ihp i s log x hx) (ihq _)
  | tryExceptFinally ca b e f ihb ihe ihf =>
    intro i s log x hx
    exact thenFinally_mono (handledBy_mono (ihb i s log x hx) (ihe _)) (ihf _)
  | withLock l b ih =>
    intro i s log x hx
    refine thenIfNormal_mono (act_mono S i _ s log x hx) ?_
    intro s log x hx
    exact thenFinally_mono (ih _ s log x hx) (act_mono S _ _)
  | ifNotRerun b ih =>
    intro i s log x hx
    simp only [Prog.run]
    split
    · exact hx
    · exact ih i s log x hx
  | ifAuditProv b ih =>
    intro i s log x hx
    simp only [Prog.run]
    split
    · exact ih i s log x hx
    · exact hx

/-- what `halt_or_log` says about one pair of runs: they agree, or the halting run died in the state
    `h a s0` where `(j, a, s0)` was logged by the fault-free run -/
def HaltOrLog (j : Nat) (h : Act → σ → σ) (rH : σ × Ctl) (rL : (σ × Log σ) × Ctl) : Prop :=
  (rH.1 = rL.1.1 ∧ rH.2 = rL.2) ∨ (rH.2 = .dead ∧ ∃ a s0, (j, a, s0) ∈ rL.1.2 ∧ rH.1 = h a s0)

/-- continuations are related on every common state -/
def HolK (j : Nat) (h : Act → σ → σ) (kH : σ → σ × Ctl) (kL : σ × Log σ → (σ × Log σ) × Ctl) : Prop :=
  ∀ s log, HaltOrLog j h (kH s) (kL (s, log))

theorem thenIfNormal_hol {j : Nat} {h : Act → σ → σ} {rH rL kH kL} (hr : HaltOrLog j h rH rL)
    (hk : HolK j h kH kL) (hm : LogMono kL) : HaltOrLog j h (thenIfNormal rH kH) (thenIfNormal rL kL) := by
  unfold thenIfNormal
  rcases hr with ⟨h1, h2⟩ | ⟨hd, a, s0, hmem, hs⟩
  · rw [h2]
    split
    · have := hk rH.1 rL.1.2
      rw [h1] at this ⊢
      exact this
    · exact .inl ⟨h1, h2⟩
  · rw [hd]
    simp only [reduceCtorEq, if_false]
    exact .inr ⟨hd, a, s0, thenIfNormal_mono hmem hm, hs⟩

theorem handledBy_hol {j : Nat} {h : Act → σ → σ} {ca : Bool} {rH rL kH kL} (hr : HaltOrLog j h rH rL)
    (hk : HolK j h kH kL) (hm : LogMono kL) : HaltOrLog j h (handledBy ca rH kH) (handledBy ca rL kL) := by
  unfold handledBy
  rcases hr with ⟨h1, h2⟩ | ⟨hd, a, s0, hmem, hs⟩
  · rw [h2]
    split
    · have := hk rH.1 rL.1.2
      rw [h1] at this ⊢
      exact this
    · exact .inl ⟨h1, h2⟩
  · rw [hd]
    have e1 : Ctl.caughtBy ca Ctl.dead = false := rfl
    rw [e1]
    simp only [Bool.false_eq_true, if_false]
    exact .inr ⟨hd, a, s0, handledBy_mono hmem hm, hs⟩

theorem thenFinally_hol {j : Nat} {h : Act → σ → σ} {rH rL kH kL} (hr : HaltOrLog j h rH rL)
    (hk : HolK j h kH kL) (hm : LogMono kL) : HaltOrLog j h (thenFinally rH kH) (thenFinally rL kL) := by
  unfold thenFinally
  rcases hr with ⟨h1, h2⟩ | ⟨hd, a, s0, hmem, hs⟩
  · rw [h2]
    split
    · exact .inl ⟨h1, h2⟩
    · have := hk rH.1 rL.1.2
      rw [h1] at this ⊢
      rcases this with ⟨g1, g2⟩ | ⟨gd, a, s0, gm, gs⟩
      · exact .inl ⟨g1, by show Ctl.over _ _ = Ctl.over _ _; rw [g2]⟩
      · refine .inr ⟨?_, a, s0, gm, gs⟩
        show Ctl.over _ _ = Ctl.dead
        rw [gd]
        simp [Ctl.over]
  · rw [hd]
    have e1 : Ctl.stops Ctl.dead = true := rfl
    rw [e1]
    simp only [if_true]
    exact .inr ⟨hd, a, s0, thenFinally_mono hmem hm, hs⟩

theorem act_hol (S : Sem σ) (j : Nat) (h : Act → σ → σ) (i : Nat) (a : Act) :
    HolK j h ((haltSem S j h).act i a) ((logSem S).act i a) := by
  intro s log
  simp only [haltSem, logSem]
  by_cases hij : i = j
  · subst hij
    simp only [if_true]
    exact .inr ⟨rfl, a, s, List.mem_cons_self, rfl⟩
  · simp only [if_neg hij]
    exact .inl ⟨rfl, rfl⟩

theorem halt_or_log (S : Sem σ) (j : Nat) (h : Act → σ → σ) :
    ∀ (p : Prog) (i : Nat), HolK j h (p.run (haltSem S j h) i) (p.run (logSem S) i) := by
  intro p
  induction p with
  | skip => intro i s log; exact .inl ⟨rfl, rfl⟩
  | act a => intro i; exact act_hol S j h i a
  | seq p q ihp ihq =>
    intro i s log
    exact thenIfNormal_hol (ihp i s log) (ihq _) (log_mono S q _)
  | tryExceptFinally ca b e f ihb ihe ihf =>
    intro i s log
    exact thenFinally_hol (handledBy_hol (ihb i s log) (ihe _) (log_mono S e _)) (ihf _) (log_mono S f _)
  | withLock l b ih =>
    intro i s log
    refine thenIfNormal_hol (act_hol S j h i _ s log) ?_ ?_
    · intro s log
      exact thenFinally_hol (ih _ s log) (act_hol S j h _ _) (act_mono S _ _)
    · intro s log x hx
      exact thenFinally_mono (log_mono S b _ s log x hx) (act_mono S _ _)
  | ifNotRerun b ih =>
    intro i s log
    simp only [Prog.run]
    have : (haltSem S j h).rerun s = (logSem S).rerun (s, log) := rfl
    rw [this]
    split
    · exact .inl ⟨rfl, rfl⟩
    · exact ih i s log
  | ifAuditProv b ih =>
    intro i s log
    simp only [Prog.run]
    have : (haltSem S j h).prov s = (logSem S).prov (s, log) := rfl
    rw [this]
    split
    · exact ih i s log
    · exact .inl ⟨rfl, rfl⟩

/-- the logged run is the plain run plus the log -/
theorem log_fst (S : Sem σ) (p : Prog) (i : Nat) (s : σ) (log : Log σ) :
    ((p.run (logSem S) i (s, log)).1.1, (p.run (logSem S) i (s, log)).2) = p.run S i s := by
  have h := run_sim (logSem S) S (fun s t => s.1 = t)
    (by intro i a s t h; subst h; exact ⟨rfl, rfl⟩) (by intro s t h; subst h; rfl) (by intro s t h; subst h; rfl)
    p i (s, log) s rfl
  exact Prod.ext h.1 h.2

end PydraModel.JobProto
