import PydraModel.Gen.JobSkeleton
/-
Regenerated tie for C11 / C19 / C36: facts about the statement skeleton of `Job.run` / `Job.run_async` that
`harness/extractors/job_skeleton.py` extracts from the CURRENT source on every run (`Gen/JobSkeleton.lean`).
The hand-written models CacheHist / HashCheck / AuditTrace assume these orders; here they are re-checked by
`decide` against what the source says now.
-/
namespace PydraModel.JobProto.Skel
open PydraModel.JobProto PydraModel.Gen.JobSkeleton

/-- the actions performed, in order, in a scenario -/
def acts (p : Prog) (sc : Scenario) : List Act := (p.trace sc).1.map (·.2)

def withProv (sc : Scenario) : Scenario := { sc with prov := true }
def withRerun (sc : Scenario) : Scenario := { sc with rerun := true }

/-- `a` is performed exactly once and `b` exactly once, `a` first -/
def onceBefore (a b : Act) (l : List Act) : Bool :=
  l.count a == 1 && l.count b == 1 && decide (l.idxOf a < l.idxOf b)

/-- C19: on the normal path of both `run` and `run_async` the hash check is performed exactly once, after the
    body, after the result has been saved, after the job lock has been released, and it is the last thing
    before `return`; when the body raises it is skipped (the exception itself is the report). -/
theorem C19_skeleton :
    (∀ p ∈ [jobRun, jobRunAsync],
      onceBefore .body .saveResult (acts p Scenario.plain) = true
      ∧ onceBefore .saveResult (.lockRelease .job) (acts p Scenario.plain) = true
      ∧ onceBefore (.lockRelease .job) .checkHashes (acts p Scenario.plain) = true
      ∧ onceBefore .checkHashes .ret (acts p Scenario.plain) = true
      ∧ (acts p Scenario.bodyRaises).count .checkHashes = 0
      ∧ (p.trace Scenario.bodyRaises).2 = .raising false) := by
  decide

/-- C36: every execution — body succeeding or raising — performs `start_audit` once before the body and
    `finalize_audit` once after it (in `finally`), before the result is saved; a cached job performs neither;
    `audit_task` is called by the synchronous `run` only, between the two, and only under PROV. -/
theorem C36_skeleton :
    (∀ p ∈ [jobRun, jobRunAsync], ∀ sc ∈ [Scenario.plain, Scenario.bodyRaises, withProv Scenario.plain,
        withProv Scenario.bodyRaises],
      onceBefore .auditStart .body (acts p sc) = true
      ∧ onceBefore .body .auditFinal (acts p sc) = true
      ∧ onceBefore .auditFinal .saveResult (acts p sc) = true)
    ∧ (∀ p ∈ [jobRun, jobRunAsync], ∀ sc ∈ [Scenario.cached, withProv Scenario.cached],
      (acts p sc).count .auditStart = 0 ∧ (acts p sc).count .auditFinal = 0 ∧ (acts p sc).count .auditTask = 0)
    ∧ (∀ sc ∈ [withProv Scenario.plain, withProv Scenario.bodyRaises],
      onceBefore .auditStart .auditTask (acts jobRun sc) = true ∧ onceBefore .auditTask .body (acts jobRun sc) = true
      ∧ (acts jobRunAsync sc).count .auditTask = 0)
    ∧ (acts jobRun Scenario.plain).count .auditTask = 0 := by
  decide

/-- C11: the cached-result test happens under the job lock; a cached successful result ends the run without
    clearing, creating or writing anything; otherwise the directory is cleared and recreated, the body runs and
    a result is saved — also when the body raises (after `record_error` / `errored = True`); with `rerun` the
    test is skipped altogether. -/
theorem C11_skeleton :
    (∀ p ∈ [jobRun, jobRunAsync],
      onceBefore (.lockAcquire .job) .loadResult (acts p Scenario.cached) = true
      ∧ onceBefore .loadResult .returnIfCachedOk (acts p Scenario.cached) = true
      ∧ (∀ a ∈ [Act.clearDir, .mkDir, .saveJob, .body, .saveResult, .recordError, .writeInfo],
          (acts p Scenario.cached).count a = 0)
      ∧ onceBefore .returnIfCachedOk .clearDir (acts p Scenario.plain) = true
      ∧ onceBefore .clearDir .mkDir (acts p Scenario.plain) = true
      ∧ onceBefore .mkDir .body (acts p Scenario.plain) = true
      ∧ onceBefore .body .saveResult (acts p Scenario.plain) = true
      ∧ onceBefore .saveResult (.lockRelease .job) (acts p Scenario.plain) = true
      ∧ onceBefore .body .recordError (acts p Scenario.bodyRaises) = true
      ∧ onceBefore .recordError .markErrored (acts p Scenario.bodyRaises) = true
      ∧ onceBefore .markErrored .saveResult (acts p Scenario.bodyRaises) = true
      ∧ (acts p (withRerun Scenario.plain)).count .loadResult = 0
      ∧ (acts p (withRerun Scenario.plain)).count .body = 1) := by
  decide

end PydraModel.JobProto.Skel
