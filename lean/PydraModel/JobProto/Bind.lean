/-
Return-value binding of python tasks: `PythonTask._run` (pydra/compose/python.py) followed by
`PythonOutputs._from_job` / `Outputs._from_job` (pydra/compose/base/task.py), as it is in the tree NOW (after the
D9 repair: a returned dict lacking a mandatory output raises).

    returned is None                      -> every output is None
    no output fields                      -> ValueError
    exactly one output field              -> that output is the returned object, whatever it is
    tuple of len(outputs) elements        -> positional
    dict                                  -> RuntimeError if a mandatory output is not a key, else the keys present
    anything else                         -> RuntimeError
then every output not bound is NOTHING if mandatory, else its default.
Core Lean only.
-/
namespace PydraModel.JobProto.Bind

abbrev Name := Nat

/-- shape of the object the function returned -/
inductive Ret
  | none                     -- `None`
  | tuple (n : Nat)          -- a tuple with `n` elements
  | dict (keys : List Name)  -- a dict with these keys
  | other                    -- anything else
deriving DecidableEq, Repr

structure Out where
  name : Name
  mandatory : Bool
deriving DecidableEq, Repr

/-- value an output ends up with -/
inductive Val
  | pyNone            -- `None`
  | whole             -- the returned object itself
  | elem (i : Nat)    -- element `i` of the returned tuple
  | key (k : Name)    -- `returned[k]`
  | nothing           -- `attrs.NOTHING`
  | default           -- the field's default
deriving DecidableEq, Repr

inductive BindErr | noOutputFields | missingMandatory | wrongShape
deriving DecidableEq, Repr

/-- `job.return_values` after `PythonTask._run` -/
def returnValues (ret : Ret) (outs : List Out) : Except BindErr (List (Name × Val)) :=
  match ret with
  | .none => .ok (outs.map fun o => (o.name, .pyNone))
  | _ =>
    if outs.isEmpty then .error .noOutputFields
    else if outs.length = 1 then .ok (outs.map fun o => (o.name, .whole))
    else match ret with
      | .tuple n =>
        if n = outs.length then .ok (outs.zipIdx.map fun (o, i) => (o.name, .elem i)) else .error .wrongShape
      | .dict ks =>
        if (outs.filter fun o => o.mandatory && !ks.contains o.name).isEmpty then
          .ok ((outs.filter fun o => ks.contains o.name).map fun o => (o.name, .key o.name))
        else .error .missingMandatory
      | _ => .error .wrongShape

/-- `Outputs._from_job`: defaults (NOTHING for mandatory outputs), overwritten by the return values -/
def fromJob (outs : List Out) (rv : List (Name × Val)) : List (Name × Val) :=
  outs.map fun o =>
    match rv.lookup o.name with
    | some v => (o.name, v)
    | none => (o.name, if o.mandatory then .nothing else .default)

def bindReturn (ret : Ret) (outs : List Out) : Except BindErr (List (Name × Val)) :=
  match returnValues ret outs with
  | .ok rv => .ok (fromJob outs rv)
  | .error e => .error e

/-! ### Specification -/

/-- does the returned object provide a value for output `o`? (`None` stands for "every output is None") -/
def provides (ret : Ret) (outs : List Out) (o : Out) : Bool :=
  match ret with
  | .none => true
  | .tuple n => outs.length == 1 || n == outs.length
  | .dict ks => outs.length == 1 || ks.contains o.name
  | .other => outs.length == 1

/-- can the returned object be bound at all? -/
def usable (ret : Ret) (outs : List Out) : Bool :=
  match ret with
  | .none => true
  | .tuple n => !outs.isEmpty && (outs.length == 1 || n == outs.length)
  | .dict _ => !outs.isEmpty
  | .other => outs.length == 1

def isOk {ε α} : Except ε α → Bool
  | .ok _ => true
  | .error _ => false

theorem filter_isEmpty_iff {α} (l : List α) (p : α → Bool) : (l.filter p).isEmpty = true ↔ ∀ x ∈ l, p x = false := by
  rw [List.isEmpty_iff, List.filter_eq_nil_iff]
  constructor
  · intro h x hx; simpa using h x hx
  · intro h x hx; simp [h x hx]

/-- DECISION THEOREM (any number of outputs, any dict): binding succeeds exactly when the object is usable and
    provides every mandatory output -/
theorem bind_ok_iff (ret : Ret) (outs : List Out) :
    isOk (bindReturn ret outs) = true ↔
      (usable ret outs = true ∧ ∀ o ∈ outs, o.mandatory = true → provides ret outs o = true) := by
  unfold bindReturn returnValues
  cases ret with
  | none => simp [isOk, usable, provides]
  | other =>
    by_cases he : outs.isEmpty = true
    · have : outs = [] := List.isEmpty_iff.mp he
      subst this; simp [isOk, usable]
    · by_cases h1 : outs.length = 1
      · simp [he, h1, isOk, usable, provides]
      · simp [he, h1, isOk, usable]
  | tuple n =>
    by_cases he : outs.isEmpty = true
    · have : outs = [] := List.isEmpty_iff.mp he
      subst this; simp [isOk, usable]
    · by_cases h1 : outs.length = 1
      · simp [he, h1, isOk, usable, provides]
      · by_cases hn : n = outs.length
        · simp [he, h1, hn, isOk, usable, provides]
        · simp [he, h1, hn, isOk, usable]
  | dict ks =>
    by_cases he : outs.isEmpty = true
    · have : outs = [] := List.isEmpty_iff.mp he
      subst this; simp [isOk, usable]
    · by_cases h1 : outs.length = 1
      · simp [he, h1, isOk, usable, provides]
      · simp only [he, h1, Bool.false_eq_true, if_false]
        by_cases hm : (outs.filter fun o => o.mandatory && !ks.contains o.name).isEmpty = true
        · simp only [hm, if_true, isOk, usable, he, Bool.not_false, provides, true_and]
          rw [filter_isEmpty_iff] at hm
          constructor
          · intro _ o ho hmand
            have := hm o ho
            simp [hmand] at this
            simp [this]
          · intro _; trivial
        · simp only [hm, Bool.false_eq_true, if_false, isOk, usable, he, Bool.not_false, provides, true_and,
            false_iff]
          intro hall
          apply hm
          rw [filter_isEmpty_iff]
          intro o ho
          cases hmand : o.mandatory
          · rfl
          · have := hall o ho hmand
            have h1' : (outs.length == 1) = false := by simp [h1]
            simp [h1'] at this
            simp [this]

/-- C13: a mandatory output that the returned object does not provide makes the task fail -/
theorem missing_mandatory_is_error (ret : Ret) (outs : List Out)
    (h : ∃ o ∈ outs, o.mandatory = true ∧ provides ret outs o = false) : isOk (bindReturn ret outs) = false := by
  cases hok : isOk (bindReturn ret outs)
  · rfl
  · obtain ⟨o, ho, hm, hp⟩ := h
    have := ((bind_ok_iff ret outs).mp hok).2 o ho hm
    rw [hp] at this
    cases this

theorem lookup_map_self (outs : List Out) (v : Out → Val) (o : Out) (ho : o ∈ outs) :
    ∃ w, (outs.map fun o => (o.name, v o)).lookup o.name = some w := by
  induction outs with
  | nil => cases ho
  | cons a as ih =>
    simp only [List.map_cons, List.lookup_cons]
    by_cases hn : o.name = a.name
    · simp [hn]
    · have : (o.name == a.name) = false := by simp [hn]
      rw [this]
      rcases List.mem_cons.mp ho with rfl | h
      · exact absurd rfl hn
      · exact ih h

/-! ### Converse: on success no mandatory output is left unbound -/

theorem lookup_of_mem (l : List (Name × Val)) (k : Name) (v : Val) (h : (k, v) ∈ l) :
    ∃ w, l.lookup k = some w ∧ (k, w) ∈ l := by
  induction l with
  | nil => cases h
  | cons a as ih =>
    obtain ⟨ka, va⟩ := a
    simp only [List.lookup_cons]
    by_cases hk : k = ka
    · subst hk
      exact ⟨va, by simp, List.mem_cons_self⟩
    · have hne : (k == ka) = false := by simp [hk]
      rw [hne]
      rcases List.mem_cons.mp h with h | h
      · cases h; exact absurd rfl hk
      · obtain ⟨w, hw, hm⟩ := ih h
        exact ⟨w, hw, List.mem_cons_of_mem _ hm⟩

/-- the values `PythonTask._run` binds are never `NOTHING` -/
theorem returnValues_no_nothing (ret : Ret) (outs : List Out) (rv : List (Name × Val))
    (h : returnValues ret outs = .ok rv) : ∀ b ∈ rv, b.2 ≠ .nothing := by
  intro b hb
  unfold returnValues at h
  cases ret with
  | none =>
    simp only [Except.ok.injEq] at h; subst h
    simp only [List.mem_map] at hb
    obtain ⟨o, _, rfl⟩ := hb
    simp
  | other =>
    by_cases he : outs.isEmpty = true
    · simp [he] at h
    · by_cases h1 : outs.length = 1
      · simp only [he, h1, Bool.false_eq_true, if_false, if_true, Except.ok.injEq] at h; subst h
        simp only [List.mem_map] at hb
        obtain ⟨o, _, rfl⟩ := hb
        simp
      · simp [he, h1] at h
  | tuple n =>
    by_cases he : outs.isEmpty = true
    · simp [he] at h
    · by_cases h1 : outs.length = 1
      · simp only [he, h1, Bool.false_eq_true, if_false, if_true, Except.ok.injEq] at h; subst h
        simp only [List.mem_map] at hb
        obtain ⟨o, _, rfl⟩ := hb
        simp
      · by_cases hn : n = outs.length
        · simp only [he, h1, hn, Bool.false_eq_true, if_false, if_true, Except.ok.injEq] at h; subst h
          simp only [List.mem_map] at hb
          obtain ⟨⟨o, i⟩, _, rfl⟩ := hb
          simp
        · simp [he, h1, hn] at h
  | dict ks =>
    by_cases he : outs.isEmpty = true
    · simp [he] at h
    · by_cases h1 : outs.length = 1
      · simp only [he, h1, Bool.false_eq_true, if_false, if_true, Except.ok.injEq] at h; subst h
        simp only [List.mem_map] at hb
        obtain ⟨o, _, rfl⟩ := hb
        simp
      · simp only [he, h1, Bool.false_eq_true, if_false] at h
        split at h
        · simp only [Except.ok.injEq] at h; subst h
          simp only [List.mem_map] at hb
          obtain ⟨o, _, rfl⟩ := hb
          simp
        · cases h

/-- every mandatory output is bound by `PythonTask._run` when it succeeds -/
theorem returnValues_binds_mandatory (ret : Ret) (outs : List Out) (rv : List (Name × Val))
    (h : returnValues ret outs = .ok rv) (o : Out) (ho : o ∈ outs) (hm : o.mandatory = true) :
    ∃ v, (o.name, v) ∈ rv := by
  unfold returnValues at h
  cases ret with
  | none =>
    simp only [Except.ok.injEq] at h; subst h
    exact ⟨.pyNone, List.mem_map.mpr ⟨o, ho, rfl⟩⟩
  | other =>
    by_cases he : outs.isEmpty = true
    · simp [he] at h
    · by_cases h1 : outs.length = 1
      · simp only [he, h1, Bool.false_eq_true, if_false, if_true, Except.ok.injEq] at h; subst h
        exact ⟨.whole, List.mem_map.mpr ⟨o, ho, rfl⟩⟩
      · simp [he, h1] at h
  | tuple n =>
    by_cases he : outs.isEmpty = true
    · simp [he] at h
    · by_cases h1 : outs.length = 1
      · simp only [he, h1, Bool.false_eq_true, if_false, if_true, Except.ok.injEq] at h; subst h
        exact ⟨.whole, List.mem_map.mpr ⟨o, ho, rfl⟩⟩
      · by_cases hn : n = outs.length
        · simp only [he, h1, hn, Bool.false_eq_true, if_false, if_true, Except.ok.injEq] at h; subst h
          obtain ⟨i, hi, hget⟩ := List.getElem_of_mem ho
          refine ⟨.elem i, List.mem_map.mpr ⟨(o, i), ?_, rfl⟩⟩
          rw [List.mem_zipIdx_iff_getElem?]
          simp [hget, hi]
        · simp [he, h1, hn] at h
  | dict ks =>
    by_cases he : outs.isEmpty = true
    · simp [he] at h
    · by_cases h1 : outs.length = 1
      · simp only [he, h1, Bool.false_eq_true, if_false, if_true, Except.ok.injEq] at h; subst h
        exact ⟨.whole, List.mem_map.mpr ⟨o, ho, rfl⟩⟩
      · simp only [he, h1, Bool.false_eq_true, if_false] at h
        split at h
        · rename_i hempty
          simp only [Except.ok.injEq] at h; subst h
          have := (filter_isEmpty_iff _ _).mp hempty o ho
          simp only [hm, Bool.true_and, Bool.not_eq_false'] at this
          exact ⟨.key o.name, List.mem_map.mpr ⟨o, List.mem_filter.mpr ⟨ho, this⟩, rfl⟩⟩
        · cases h

/-- CONVERSE BINDING CLAUSE: when binding succeeds, no mandatory output is `NOTHING` -/
theorem no_nothing_on_success (ret : Ret) (outs : List Out) (bs : List (Name × Val))
    (h : bindReturn ret outs = .ok bs) :
    ∀ o ∈ outs, o.mandatory = true → ∃ v, v ≠ .nothing ∧ (o.name, v) ∈ bs := by
  intro o ho hm
  unfold bindReturn at h
  cases hrv : returnValues ret outs with
  | error e => rw [hrv] at h; cases h
  | ok rv =>
    rw [hrv] at h
    simp only [Except.ok.injEq] at h
    subst h
    obtain ⟨v, hv⟩ := returnValues_binds_mandatory ret outs rv hrv o ho hm
    obtain ⟨w, hw, hwm⟩ := lookup_of_mem rv o.name v hv
    refine ⟨w, returnValues_no_nothing ret outs rv hrv _ hwm, ?_⟩
    unfold fromJob
    refine List.mem_map.mpr ⟨o, ho, ?_⟩
    simp [hw]

end PydraModel.JobProto.Bind
