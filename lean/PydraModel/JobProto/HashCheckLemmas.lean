import PydraModel.JobProto.HashCheck
/-
Helper lemmas for C19.
-/
namespace PydraModel.JobProto.HashCheck

theorem filterMap_congr' {α β : Type} (l : List α) (f g : α → Option β) (h : ∀ x ∈ l, f x = g x) :
    l.filterMap f = l.filterMap g := by
  induction l with
  | nil => rfl
  | cons a as ih =>
    simp only [List.filterMap_cons, h a (by simp)]
    rw [ih (fun x hx => h x (by simp [hx]))]

variable {V H C : Type} [DecidableEq H] (hash : V → H) (combine : List (Name × H) → C)

/-- the fields whose hash after the body differs from the hash at checksum time (the reference) -/
def changedSpec (f : Name → V → V) (ins : List (Name × V)) : List Name :=
  ins.filterMap (fun p => if hash (f p.1 p.2) = hash p.2 then none else some p.1)

theorem lookup_computeHashes (ins : List (Name × V)) (hn : (ins.map (·.1)).Nodup) (n : Name) (v : V)
    (h : (n, v) ∈ ins) : (computeHashes hash ins).lookup n = some (hash v) := by
  induction ins with
  | nil => simp at h
  | cons p ps ih =>
    obtain ⟨m, w⟩ := p
    simp only [List.map_cons, List.nodup_cons] at hn
    simp only [computeHashes, List.map_cons, List.lookup_cons]
    rcases List.mem_cons.mp h with heq | hmem
    · injection heq with h1 h2
      subst h1; subst h2
      simp
    · have hne : n ≠ m := by
        intro he
        subst he
        exact hn.1 (List.mem_map.mpr ⟨(n, v), hmem, rfl⟩)
      have : (n == m) = false := by simp [hne]
      rw [this]
      exact ih hn.2 hmem

/-- the state of a job once its checksum has been read -/
def submitted (ins : List (Name × V)) : Job V H C :=
  ⟨⟨ins, some (computeHashes hash ins)⟩, some (combine (computeHashes hash ins))⟩

theorem getChecksum_fresh (memo : Bool) (ins : List (Name × V)) :
    (Job.fresh ins : Job V H C).getChecksum hash combine memo
      = (submitted hash combine ins, combine (computeHashes hash ins)) := by
  cases memo <;> rfl

theorem getChecksum_submitted (ins : List (Name × V)) :
    (submitted hash combine ins).getChecksum hash combine true
      = (submitted hash combine ins, combine (computeHashes hash ins)) := rfl

theorem changed_eq (f : Name → V → V) (ins : List (Name × V)) (hn : (ins.map (·.1)).Nodup) :
    (computeHashes hash (mutate f ins)).filterMap
        (fun p => if (computeHashes hash ins).lookup p.1 = some p.2 then none else some p.1)
      = changedSpec hash f ins := by
  unfold changedSpec computeHashes mutate
  rw [List.map_map, List.filterMap_map]
  apply filterMap_congr'
  intro p hp
  obtain ⟨n, v⟩ := p
  have := lookup_computeHashes hash ins hn n v hp
  simp only [Function.comp, computeHashes] at this ⊢
  rw [this]
  by_cases he : hash (f n v) = hash v
  · simp [he]
  · have : ¬ (hash v = hash (f n v)) := fun h => he h.symm
    simp [he, this]

theorem runJob_memo (check : Bool) (f : Name → V → V) (ins : List (Name × V)) (hn : (ins.map (·.1)).Nodup)
    (j : Job V H C) (hj : j = Job.fresh ins ∨ j = submitted hash combine ins) :
    runJob hash combine true check j f
      = { dir := combine (computeHashes hash ins),
          raised := check && !(changedSpec hash f ins).isEmpty,
          changed := changedSpec hash f ins } := by
  have hc := changed_eq hash f ins hn
  rcases hj with rfl | rfl
  · simp only [runJob, getChecksum_fresh]
    simp only [submitted, Job.getChecksum, hashChanges, Option.getD, hc, if_true]
  · simp only [runJob, getChecksum_submitted]
    simp only [submitted, Job.getChecksum, hashChanges, Option.getD, hc, if_true]

theorem changedSpec_nonempty (f : Name → V → V) (ins : List (Name × V)) :
    (changedSpec hash f ins).isEmpty = false ↔ ∃ p ∈ ins, hash (f p.1 p.2) ≠ hash p.2 := by
  unfold changedSpec
  induction ins with
  | nil => simp
  | cons p ps ih =>
    simp only [List.filterMap_cons]
    by_cases he : hash (f p.1 p.2) = hash p.2
    · simp only [he, if_true, ih]
      constructor
      · rintro ⟨q, hq, hne⟩; exact ⟨q, by simp [hq], hne⟩
      · rintro ⟨q, hq, hne⟩
        rcases List.mem_cons.mp hq with rfl | hm
        · exact absurd he hne
        · exact ⟨q, hm, hne⟩
    · simp only [he, if_false, List.isEmpty_cons, true_iff]
      exact ⟨p, by simp, he⟩

end PydraModel.JobProto.HashCheck
