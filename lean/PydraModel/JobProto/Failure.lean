import PydraModel.JobProto.Lifecycle
/-
C13 machinery: what a failing task body leaves behind and what the submitter reports (`Submitter.__call__` +
`Task.__call__`), as cheap decidable checks on representatives plus the lifting to every initial world.
-/
namespace PydraModel.JobProto

/-- `submit` is a post-processing of the result of `exec` -/
def reportAfter (r : World × Ctl) (raiseErrors inProcess : Bool) (errInit : FileSt) : Report :=
  let c1 : Core := if inProcess then r.1.core else { r.1.core with jobErrored := false }
  let ef := errFileAfter errInit r.1.evs
  match r.2 with
  | .dead => .died
  | .blocked => .blocked
  | .raising base =>
    if base then .originalException true
    else if raiseErrors || (jobResult c1).isNone then .originalException false
    else reportOf c1 ef
  | _ => reportOf c1 ef

theorem submit_report (p : Prog) (env : Env) (f : Fault) (re ip : Bool) (x : FileSt) (w : World) :
    (submit p env f re ip x w).2 = reportAfter (exec p env f w) re ip x := by
  unfold submit reportAfter
  cases h : (exec p env f w).2 <;> simp only [h, apply_ite Prod.snd]

/-- the report depends on the core only through `_errored`, the directory and the result file -/
def reportKey (c : Core) : Bool × Bool × ResFile := (c.jobErrored, c.dir, c.result)

theorem jobResult_key (c c' : Core) (h : reportKey c = reportKey c') : jobResult c = jobResult c' := by
  simp only [reportKey, Prod.mk.injEq] at h
  obtain ⟨h1, h2, h3⟩ := h
  simp [jobResult, h1, h2, h3]

theorem reportAfter_congr (r r' : World × Ctl) (re ip : Bool) (x x' : FileSt) (h2 : r.2 = r'.2)
    (hk : reportKey r.1.core = reportKey r'.1.core) (he : errFileAfter x r.1.evs = errFileAfter x' r'.1.evs) :
    reportAfter r re ip x = reportAfter r' re ip x' := by
  have hk' := hk
  simp only [reportKey, Prod.mk.injEq] at hk'
  obtain ⟨k1, k2, k3⟩ := hk'
  have hj : ∀ b : Bool, jobResult (if b then r.1.core else { r.1.core with jobErrored := false }) =
      jobResult (if b then r'.1.core else { r'.1.core with jobErrored := false }) := by
    intro b
    cases b
    · exact jobResult_key _ _ (by simp [reportKey, k2, k3])
    · exact jobResult_key _ _ hk
  have hd : ∀ b : Bool, (if b then r.1.core else { r.1.core with jobErrored := false }).dir =
      (if b then r'.1.core else { r'.1.core with jobErrored := false }).dir := by
    intro b; cases b <;> exact k2
  unfold reportAfter reportOf
  simp only [h2, he, hj ip, hd ip]

/-- the report in any world is the report on its representative, with the error file the history left -/
theorem report_lift (p : Prog) (env : Env) (f : Fault) (re ip : Bool) (x : FileSt) (w0 : World) :
    reportAfter (exec p env f w0) re ip x =
      reportAfter (exec p env f ⟨normC w0.core, []⟩) re ip (errFileAfter x w0.evs) := by
  obtain ⟨h2, he, hd, hr, _, _, _, hje, _, _⟩ := exec_base p env f w0
  apply reportAfter_congr _ _ _ _ _ _ h2
  · simp [reportKey, hje, hd, hr]
  · rw [he, errFileAfter_append]
    have := errFileAfter_append (errFileAfter x w0.evs) (exec p env f ⟨normC w0.core, []⟩).1.evs []
    rw [List.append_nil] at this
    rw [this]
    rfl

/-! ### What a failing body leaves behind -/

def ResFile.isErroredComplete : ResFile → Bool
  | .complete ⟨true, false⟩ => true
  | _ => false

/-- the call does execute the body: rerun requested, or no complete good result to serve -/
def Executes (rerun : Bool) (c : Core) : Prop := rerun = true ∨ ¬ (c.result.isGood = true ∧ c.dir = true)

instance (rerun : Bool) (c : Core) : Decidable (Executes rerun c) := by unfold Executes; infer_instance

/-- after a call whose task body raised (kind `base`): the exception propagates, the body was entered once, the
    job directory holds a complete ERRORED result (never a successful one), the error file has been written, and
    the next submission finds an initial shape (in particular a legal result file) -/
def FailureBase (base : Bool) (rb : World × Ctl) : Prop :=
  rb.2 = .raising base ∧ execsIn rb.1.evs = 1 ∧ finishedIn rb.1.evs = 0 ∧ rb.1.core.dir = true ∧
  rb.1.core.result.isErroredComplete = true ∧ errDecided rb.1.evs = some .complete ∧
  jobDecided rb.1.evs = some .complete ∧ (nextJobC rb.1.core).Initial

instance (base : Bool) (rb : World × Ctl) : Decidable (FailureBase base rb) := by unfold FailureBase; infer_instance

/-- what `Task.__call__` reports for a failing body: the exception itself (debug worker, or a `BaseException`),
    else a RuntimeError carrying the recorded error -/
def expectedFailureReport (base raiseErrors : Bool) : Report :=
  if base then .originalException true else if raiseErrors then .originalException false
  else .failedWithRecordedError

/-- FINITE CHECK (per skeleton): failing bodies -/
def FailureNoFault (p : Prog) (ac : Bool) : Prop :=
  ∀ c0 ∈ baseCores, ∀ rr ∈ [false, true], ∀ pv ∈ [false, true], ∀ base ∈ [false, true], Executes rr c0 →
    FailureBase base (exec p ⟨rr, pv, some base, ac⟩ .none ⟨c0, []⟩) ∧
    ∀ re ∈ [false, true], ∀ ip ∈ [false, true], ∀ x ∈ [FileSt.absent, .trunc, .complete],
      reportAfter (exec p ⟨rr, pv, some base, ac⟩ .none ⟨c0, []⟩) re ip x = expectedFailureReport base re

instance (p : Prog) (ac : Bool) : Decidable (FailureNoFault p ac) := by unfold FailureNoFault; infer_instance

/-- FINITE CHECK (per skeleton): a submission whose body succeeds reports the outputs — whatever was cached
    before (nothing, a torn file, an errored result, a good result), in-process or through a worker process -/
def SuccessReported (p : Prog) (ac : Bool) : Prop :=
  ∀ c0 ∈ baseCores, ∀ rr ∈ [false, true], ∀ pv ∈ [false, true],
    ∀ re ∈ [false, true], ∀ ip ∈ [false, true], ∀ x ∈ [FileSt.absent, .trunc, .complete],
      reportAfter (exec p ⟨rr, pv, none, ac⟩ .none ⟨c0, []⟩) re ip x = .outputs true

instance (p : Prog) (ac : Bool) : Decidable (SuccessReported p ac) := by unfold SuccessReported; infer_instance

theorem fileSt_mem (x : FileSt) : x ∈ [FileSt.absent, .trunc, .complete] := by cases x <;> simp

theorem bool_mem (b : Bool) : b ∈ [false, true] := by cases b <;> simp

/-- general form of a failing call, for every initial world -/
def FailureOK (base : Bool) (w0 : World) (r : World × Ctl) : Prop :=
  r.2 = .raising base ∧ r.1.execs = w0.execs + 1 ∧ r.1.finished = w0.finished ∧ r.1.core.dir = true ∧
  r.1.core.result = .complete ⟨true, false⟩ ∧ (∀ x, errFileAfter x r.1.evs = .complete) ∧
  (∀ x, jobFileAfter x r.1.evs = .complete) ∧ (nextJob r.1).core.Initial

theorem isErroredComplete_iff (r : ResFile) : r.isErroredComplete = true ↔ r = .complete ⟨true, false⟩ := by
  rcases r with _ | _ | ⟨⟨e, o⟩⟩ <;> (try cases e) <;> (try cases o) <;> simp [ResFile.isErroredComplete]

theorem executes_normC (rr : Bool) (c : Core) (h : Executes rr c) : Executes rr (normC c) := h

theorem failure_lift (p : Prog) (ac : Bool) (hF : FailureNoFault p ac) (w0 : World) (h0 : w0.core.Initial)
    (rr pv base : Bool) (hex : Executes rr w0.core) :
    FailureOK base w0 (exec p ⟨rr, pv, some base, ac⟩ .none w0) := by
  obtain ⟨h2, he, hd, hr, hi, hc, _, _, hjl, hsl⟩ := exec_base p ⟨rr, pv, some base, ac⟩ .none w0
  obtain ⟨⟨b1, b2, b3, b4, b5, b6, b7, b8⟩, _⟩ :=
    hF _ (initial_normC_mem w0.core h0) rr (bool_mem rr) pv (bool_mem pv) base (bool_mem base) hex
  refine ⟨h2.trans b1, ?_, ?_, hd.trans b4, ?_, ?_, ?_, ?_⟩
  · simp only [World.execs]; rw [he, execsIn_append, b2, Nat.add_comm]
  · simp only [World.finished]; rw [he, finishedIn_append, b3, Nat.zero_add]
  · rw [hr]; exact (isErroredComplete_iff _).mp b5
  · intro x; rw [he, errFileAfter_append, b6]; rfl
  · intro x; rw [he, jobFileAfter_append, b7]; rfl
  · obtain ⟨i1, i2, i3, i4, i5, _, _, _, _⟩ := b8
    refine ⟨?_, ?_, ?_, ?_, ?_, rfl, rfl, rfl, rfl⟩
    · show (exec p _ .none w0).1.core.result.legal = true
      rw [hr]; exact i1
    · show (exec p _ .none w0).1.core.jobLock.noLiveHolder = true
      apply normL_noLive; rw [hjl]; exact i2
    · show (exec p _ .none w0).1.core.saveLock.noLiveHolder = true
      apply normL_noLive; rw [hsl]; exact i3
    · show (exec p _ .none w0).1.core.info = false
      rw [hi]; exact i4
    · show (exec p _ .none w0).1.core.cwd = .orig
      rw [hc]; exact i5

end PydraModel.JobProto
