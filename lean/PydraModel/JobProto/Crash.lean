import PydraModel.JobProto.Model
import PydraModel.JobProto.Lemmas
/-
General `exec` lemmas that reduce statements about EVERY initial world to finitely many representative
cores with an empty log (`baseCores`), and statements about EVERY crash point to the states logged by ONE
fault-free run:

* `exec_evs`    — a run does not depend on the event log it starts with (the log is only appended to);
* `exec_norm`   — a stale marker of a dead process behaves exactly like no marker;
* `exec_die_mem`, `exec_torn_mem` — the world left by a crash at any position is one of `crashStates`.
-/
namespace PydraModel.JobProto

/-! ### Independence of the initial log -/

def withPrefix (evs0 : List Ev) (w : World) : World := ⟨w.core, w.evs ++ evs0⟩

theorem step_withPrefix (env : Env) (f : Fault) (evs0 : List Ev) (i : Nat) (a : Act) (w : World) :
    step env f i a (withPrefix evs0 w) = (withPrefix evs0 (step env f i a w).1, (step env f i a w).2) := by
  simp [step, liftStep, withPrefix, List.append_assoc]

theorem exec_evs (p : Prog) (env : Env) (f : Fault) (c : Core) (evs0 : List Ev) :
    exec p env f ⟨c, evs0⟩ =
      (⟨(exec p env f ⟨c, []⟩).1.core, (exec p env f ⟨c, []⟩).1.evs ++ evs0⟩, (exec p env f ⟨c, []⟩).2) := by
  have h := run_map (jobSem env f) (jobSem env f) (withPrefix evs0)
    (fun i a s => step_withPrefix env f evs0 i a s) (fun _ => rfl) (fun _ => rfl) p 0 ⟨c, []⟩
  simpa [withPrefix, exec] using h

/-! ### A stale marker behaves like no marker -/

def normL : LockSt → LockSt
  | .otherDead => .free
  | s => s

def normC (c : Core) : Core := { c with jobLock := normL c.jobLock, saveLock := normL c.saveLock }

def normW (w : World) : World := ⟨normC w.core, w.evs⟩

theorem acquire_normL (s : LockSt) : acquire (normL s) = acquire s := by cases s <;> rfl

theorem noteRaise_normC (r : Core × Ctl × List Ev) :
    noteRaise (normC r.1, r.2) = (normC (noteRaise r).1, (noteRaise r).2) := by
  obtain ⟨c, ctl, evs⟩ := r
  cases ctl <;> rfl

theorem coreEffect_normC (env : Env) (a : Act) (c : Core) :
    coreEffect env a (normC c) = (normC (coreEffect env a c).1, (coreEffect env a c).2) := by
  obtain ⟨d, r, jl, sl, info, cwd, scwd, rv, je, lrb⟩ := c
  obtain ⟨rr, pv, bf, ac⟩ := env
  cases a with
  | lockAcquire l => cases l <;> cases jl <;> cases sl <;> rfl
  | lockRelease l => cases l <;> rfl
  | returnIfCachedOk =>
    rcases rv with _ | ⟨e, o⟩
    · rfl
    · cases e <;> rfl
  | restoreCwd => cases scwd <;> rfl
  | saveResult => cases rv <;> cases d <;> rfl
  | markErrored => cases rv <;> rfl
  | collectOutputs => cases rv <;> rfl
  | body => cases bf <;> rfl
  | auditStart => cases ac <;> cases d <;> rfl
  | chdirJob => cases d <;> rfl
  | clearDir => cases d <;> rfl
  | mkDir => cases d <;> rfl
  | saveJob => cases d <;> rfl
  | recordError => cases d <;> rfl
  | unlinkInfo => cases info <;> rfl
  | _ => rfl

theorem tornEffect_normC (a : Act) (c : Core) :
    tornEffect a (normC c) = (normC (tornEffect a c).1, (tornEffect a c).2) := by
  obtain ⟨d, r, jl, sl, info, cwd, scwd, rv, je, lrb⟩ := c
  cases a <;> first | rfl | (cases d <;> rfl)

theorem coreStep_normC (env : Env) (f : Fault) (i : Nat) (a : Act) (c : Core) :
    coreStep env f i a (normC c) = (normC (coreStep env f i a c).1, (coreStep env f i a c).2) := by
  have hE : noteRaise (coreEffect env a (normC c)) =
      (normC (noteRaise (coreEffect env a c)).1, (noteRaise (coreEffect env a c)).2) := by
    rw [coreEffect_normC]; exact noteRaise_normC _
  cases f with
  | none => exact hE
  | raiseAt j base =>
    simp only [coreStep]
    split
    · rfl
    · exact hE
  | dieAt j =>
    simp only [coreStep]
    split
    · rfl
    · exact hE
  | tornAt j =>
    simp only [coreStep]
    split
    · rw [tornEffect_normC]
    · exact hE

theorem step_normW (env : Env) (f : Fault) (i : Nat) (a : Act) (w : World) :
    step env f i a (normW w) = (normW (step env f i a w).1, (step env f i a w).2) := by
  simp [step, liftStep, normW, coreStep_normC]

theorem exec_norm (p : Prog) (env : Env) (f : Fault) (w : World) :
    exec p env f (normW w) = (normW (exec p env f w).1, (exec p env f w).2) :=
  run_map (jobSem env f) (jobSem env f) normW (fun i a s => step_normW env f i a s) (fun _ => rfl)
    (fun _ => rfl) p 0 w

/-- both reductions at once: the run from any world, expressed by the run from its representative -/
theorem exec_reduce (p : Prog) (env : Env) (f : Fault) (w : World) :
    let r := exec p env f w
    let rb := exec p env f ⟨normC w.core, []⟩
    normC r.1.core = rb.1.core ∧ r.1.evs = rb.1.evs ++ w.evs ∧ r.2 = rb.2 := by
  have h1 := exec_norm p env f w
  have h2 := exec_evs p env f (normC w.core) w.evs
  have h3 : normW w = ⟨normC w.core, w.evs⟩ := rfl
  rw [h3, h2] at h1
  have ha := congrArg (fun x => x.1.core) h1
  have hb := congrArg (fun x => x.1.evs) h1
  have hc := congrArg (fun x => x.2) h1
  simp only [normW] at ha hb hc
  exact ⟨ha.symm, hb.symm, hc.symm⟩

/-! ### Crash states -/

/-- the world left behind when the process dies inside action `a` (a write leaves a strict prefix) -/
def tornW (a : Act) (w : World) : World := ⟨(tornEffect a w.core).1, (tornEffect a w.core).2 ++ w.evs⟩

theorem jobSem_die (env : Env) (j : Nat) : jobSem env (.dieAt j) = haltSem (jobSem env .none) j (fun _ w => w) := by
  simp only [jobSem, haltSem, Sem.mk.injEq, and_true]
  funext i a w
  simp only [step, coreStep, liftStep]
  split <;> simp

theorem jobSem_torn (env : Env) (j : Nat) : jobSem env (.tornAt j) = haltSem (jobSem env .none) j tornW := by
  simp only [jobSem, haltSem, Sem.mk.injEq, and_true]
  funext i a w
  simp only [step, coreStep, liftStep, tornW]
  split <;> simp

/-- the logged fault-free run -/
def loggedRun (p : Prog) (env : Env) (w : World) : (World × Log World) × Ctl :=
  p.run (logSem (jobSem env .none)) 0 (w, [])

/-- every world a crash (right before, or inside, any action) can leave behind -/
def crashStates (p : Prog) (env : Env) (w : World) : List World :=
  (loggedRun p env w).1.1 :: (loggedRun p env w).1.2.flatMap fun e => [e.2.2, tornW e.2.1 e.2.2]

theorem exec_die_mem (p : Prog) (env : Env) (j : Nat) (w : World) :
    (exec p env (.dieAt j) w).1 ∈ crashStates p env w := by
  have h := halt_or_log (jobSem env .none) j (fun _ w => w) p 0 w []
  unfold exec
  rw [jobSem_die]
  unfold crashStates loggedRun
  rcases h with ⟨h1, _⟩ | ⟨_, a, s0, hm, hs⟩
  · rw [h1]; exact List.mem_cons_self
  · rw [hs]
    refine List.mem_cons_of_mem _ (List.mem_flatMap.mpr ⟨(j, a, s0), hm, ?_⟩)
    simp

theorem exec_torn_mem (p : Prog) (env : Env) (j : Nat) (w : World) :
    (exec p env (.tornAt j) w).1 ∈ crashStates p env w := by
  have h := halt_or_log (jobSem env .none) j tornW p 0 w []
  unfold exec
  rw [jobSem_torn]
  unfold crashStates loggedRun
  rcases h with ⟨h1, _⟩ | ⟨_, a, s0, hm, hs⟩
  · rw [h1]; exact List.mem_cons_self
  · rw [hs]
    refine List.mem_cons_of_mem _ (List.mem_flatMap.mpr ⟨(j, a, s0), hm, ?_⟩)
    simp

/-! ### Representatives -/

theorem normC_afterDeathC (c : Core) : normC (afterDeathC (normC c)) = normC (afterDeathC c) := by
  simp only [normC, afterDeathC]
  cases c.jobLock <;> cases c.saveLock <;> rfl

theorem initial_normC_mem (c : Core) (h : c.Initial) : normC c ∈ baseCores := by
  obtain ⟨d, r, jl, sl, info, cwd, scwd, rv, je, lrb⟩ := c
  obtain ⟨h1, h2, h3, h4, h5, h6, h7, h8, h9⟩ := h
  simp only at h1 h2 h3 h4 h5 h6 h7 h8 h9
  subst h4 h5 h6 h7 h8 h9
  cases jl <;> simp [LockSt.noLiveHolder] at h2 <;> cases sl <;> simp [LockSt.noLiveHolder] at h3 <;>
    cases d <;> (rcases r with _ | _ | ⟨⟨e, o⟩⟩) <;> (try cases e) <;> (try cases o) <;>
    simp [ResFile.legal] at h1 <;> decide

theorem execsIn_append (a b : List Ev) : execsIn (a ++ b) = execsIn a + execsIn b := by
  simp [execsIn, List.count_append]

theorem finishedIn_append (a b : List Ev) : finishedIn (a ++ b) = finishedIn a + finishedIn b := by
  simp [finishedIn, List.count_append]

theorem hooksIn_append (a b : List Ev) : hooksIn (a ++ b) = hooksIn b ++ hooksIn a := by
  simp [hooksIn, List.filterMap_append]

end PydraModel.JobProto
