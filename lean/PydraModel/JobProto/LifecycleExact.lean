import PydraModel.JobProto.Lifecycle
/-
C35, exact form: the positions at which an injected exception breaks the lifecycle postcondition are EXACTLY the
D20 positions — after the info file has been written, not after the working directory has been restored, and
neither in the `try:` body nor in the `except` handler (i.e. the statements between `_populate_filesystem` and
`try:`, and the statements of `finally:`).
-/
namespace PydraModel.JobProto

/-- the D20 positions of a skeleton (syntactic) -/
def Prog.d20Positions (p : Prog) : List Nat :=
  let fl := p.flatten
  let first := fl.idxOf .writeInfo
  let last := fl.length - 1 - fl.reverse.idxOf .restoreCwd
  (positions p).filter fun i => decide (first < i) && decide (i ≤ last) && !(p.guardedPositions 0).contains i

/-- all other positions -/
def Prog.safePositions (p : Prog) : List Nat := (positions p).filter fun i => !p.d20Positions.contains i

/-- the safe positions outside the `try:` body (those inside are covered by `LifecycleTryBody`) -/
def Prog.extraPositions (p : Prog) : List Nat := p.safePositions.filter fun i => !(p.tryBodyPositions 0).contains i

/-- FINITE CHECK: injection at the safe positions outside the try body, one task behaviour and exception kind -/
def LifecycleExtra (p : Prog) (ac : Bool) (bf : Option Bool) (base : Bool) : Prop :=
  ∀ i ∈ p.extraPositions, ∀ c0 ∈ baseCores, ∀ rr ∈ [false, true], ∀ pv ∈ [false, true],
    LifecycleBase c0 (exec p ⟨rr, pv, bf, ac⟩ (.raiseAt i base) ⟨c0, []⟩)

instance (p : Prog) (ac : Bool) (bf : Option Bool) (base : Bool) : Decidable (LifecycleExtra p ac bf base) := by
  unfold LifecycleExtra; infer_instance

/-- FINITE CHECK: at every D20 position an injected exception breaks the postcondition already in the simplest
    scenario (empty cache location, body succeeds, provenance on so that every position is reached) -/
def D20Fails (p : Prog) (ac : Bool) : Prop :=
  ∀ i ∈ p.d20Positions, ¬ LifecycleBase Core.fresh (exec p ⟨false, true, none, ac⟩ (.raiseAt i false) World.fresh)

instance (p : Prog) (ac : Bool) : Decidable (D20Fails p ac) := by unfold D20Fails; infer_instance

theorem lifecycleAt_safe_of_parts (p : Prog) (ac : Bool)
    (hT : ∀ i ∈ p.tryBodyPositions 0, LifecycleAt p ac i)
    (hE : ∀ bf ∈ [none, some false, some true], ∀ base ∈ [false, true], LifecycleExtra p ac bf base) :
    ∀ i ∈ p.safePositions, LifecycleAt p ac i := by
  intro i hi
  by_cases ht : i ∈ p.tryBodyPositions 0
  · exact hT i ht
  · have hx : i ∈ p.extraPositions := by
      simp only [Prog.extraPositions, List.mem_filter, Bool.not_eq_true', List.contains_eq_mem, decide_eq_false_iff_not]
      exact ⟨hi, ht⟩
    intro c0 hc0 env henv base hbase
    obtain ⟨hrr, hpv, hac, hbf⟩ := mem_allEnvs_cases henv
    obtain ⟨rr, pv, bf, ac'⟩ := env
    simp only at hrr hpv hac hbf
    subst hac
    have hbf' : bf ∈ [none, some false, some true] := by
      rcases hbf with rfl | rfl | rfl <;> simp
    exact hE bf hbf' base hbase i hx c0 hc0 rr hrr pv hpv

theorem mem_safe_or_d20 (p : Prog) (i : Nat) (hi : i ∈ positions p) : i ∈ p.safePositions ∨ i ∈ p.d20Positions := by
  by_cases h : i ∈ p.d20Positions
  · exact .inr h
  · left
    simp only [Prog.safePositions, List.mem_filter, Bool.not_eq_true', List.contains_eq_mem, decide_eq_false_iff_not]
    exact ⟨hi, h⟩

end PydraModel.JobProto
