import PydraModel.Gen.JobSkeleton
import PydraModel.JobProto.Lifecycle
/- Finite checks of C35 / C13 on the GENERATED skeleton of `Job.run_async` (kernel evaluation; see `Lifecycle.lean`). -/
namespace PydraModel.JobProto.CheckAsync
open PydraModel.JobProto PydraModel.Gen.JobSkeleton
set_option maxRecDepth 100000

theorem noFault : LifecycleNoFault jobRunAsync auditStartChdir := by decide +kernel
theorem hooks : HooksNoFault jobRunAsync auditStartChdir := by decide +kernel
theorem try_ok_exc : LifecycleTryBody jobRunAsync auditStartChdir none false := by decide +kernel
theorem try_ok_base : LifecycleTryBody jobRunAsync auditStartChdir none true := by decide +kernel
theorem try_exc_exc : LifecycleTryBody jobRunAsync auditStartChdir (some false) false := by decide +kernel
theorem try_exc_base : LifecycleTryBody jobRunAsync auditStartChdir (some false) true := by decide +kernel
theorem try_base_exc : LifecycleTryBody jobRunAsync auditStartChdir (some true) false := by decide +kernel
theorem try_base_base : LifecycleTryBody jobRunAsync auditStartChdir (some true) true := by decide +kernel

theorem tryBody : ∀ i ∈ jobRunAsync.tryBodyPositions 0, LifecycleAt jobRunAsync auditStartChdir i := by
  apply lifecycleAt_of_parts
  intro bf hbf base hbase
  simp only [List.mem_cons, List.not_mem_nil, or_false] at hbf hbase
  rcases hbf with rfl | rfl | rfl <;> rcases hbase with rfl | rfl
  · exact try_ok_exc
  · exact try_ok_base
  · exact try_exc_exc
  · exact try_exc_base
  · exact try_base_exc
  · exact try_base_base

end PydraModel.JobProto.CheckAsync
