import PydraModel.JobProto.Conc
/-
The small-step machine of `Conc.lean` (`Cfg.next`), run by ONE process without interruption over any action
semantics `S`, computes exactly the big-step `Prog.run S` — for every skeleton, every state, every frame stack
below it — as long as no action halts the process (`dead` / `blocked` are dealt with at process level in the
interleaving semantics: a dead process makes no moves, a blocked acquisition is retried).
This is what ties the interleaving semantics (C10) to the sequential semantics (C12, C13, C35).
-/
namespace PydraModel.JobProto

variable {σ : Type}

/-- one uninterrupted move of a single process over `S` -/
def soloStep (S : Sem σ) (x : Cfg × σ) : Cfg × σ :=
  match x.1.next (S.rerun x.2) (S.prov x.2) with
  | .tau c' => (c', x.2)
  | .done _ => x
  | .action i a k => ((k (S.act i a x.2).2), (S.act i a x.2).1)

def soloIter (S : Sem σ) : Nat → Cfg × σ → Cfg × σ
  | 0, x => x
  | n + 1, x => soloIter S n (soloStep S x)

theorem soloIter_add (S : Sem σ) (m n : Nat) (x : Cfg × σ) :
    soloIter S (m + n) x = soloIter S n (soloIter S m x) := by
  induction m generalizing x with
  | zero => simp [soloIter]
  | succ m ih =>
    have : m + 1 + n = (m + n) + 1 := by omega
    rw [this]
    simp only [soloIter]
    exact ih _

theorem soloIter_one (S : Sem σ) (x : Cfg × σ) : soloIter S 1 x = soloStep S x := rfl

/-- reaching `y` from `x` in some number of moves -/
def Reaches (S : Sem σ) (x y : Cfg × σ) : Prop := ∃ n, soloIter S n x = y

theorem Reaches.refl (S : Sem σ) (x : Cfg × σ) : Reaches S x x := ⟨0, rfl⟩

theorem Reaches.trans {S : Sem σ} {x y z : Cfg × σ} (h1 : Reaches S x y) (h2 : Reaches S y z) : Reaches S x z := by
  obtain ⟨m, hm⟩ := h1
  obtain ⟨n, hn⟩ := h2
  exact ⟨m + n, by rw [soloIter_add, hm, hn]⟩

theorem Reaches.step {S : Sem σ} {x y : Cfg × σ} (h : soloStep S x = y) : Reaches S x y := ⟨1, h⟩

theorem stops_over (a b : Ctl) (h : (a.over b).stops = false) (_ha : a.stops = false) : b.stops = false := by
  cases b <;> simp_all [Ctl.over, Ctl.stops]

/-- SMALL-STEP = BIG-STEP for a run in which the process is not halted -/
theorem small_big (S : Sem σ) :
    ∀ (p : Prog) (i : Nat) (s : σ) (st : List Frame), (p.run S i s).2.stops = false →
      Reaches S (⟨.prog p i, st⟩, s) (⟨.ctl (p.run S i s).2, st⟩, (p.run S i s).1) := by
  intro p
  induction p with
  | skip => intro i s st _; exact .step rfl
  | act a => intro i s st _; exact .step rfl
  | seq p q ihp ihq =>
    intro i s st h
    simp only [Prog.run, thenIfNormal] at h ⊢
    have h0 : Reaches S (⟨.prog (.seq p q) i, st⟩, s) (⟨.prog p i, .seqK q (i + p.size) :: st⟩, s) := .step rfl
    by_cases hn : (p.run S i s).2 = .normal
    · rw [if_pos hn] at h ⊢
      have hp : (p.run S i s).2.stops = false := by rw [hn]; rfl
      have h1 := ihp i s (.seqK q (i + p.size) :: st) hp
      have h2 : Reaches S (⟨.ctl (p.run S i s).2, .seqK q (i + p.size) :: st⟩, (p.run S i s).1)
          (⟨.prog q (i + p.size), st⟩, (p.run S i s).1) := .step (by simp [soloStep, Cfg.next, hn])
      exact h0.trans (h1.trans (h2.trans (ihq _ _ st h)))
    · rw [if_neg hn] at h ⊢
      have h1 := ihp i s (.seqK q (i + p.size) :: st) h
      have h2 : Reaches S (⟨.ctl (p.run S i s).2, .seqK q (i + p.size) :: st⟩, (p.run S i s).1)
          (⟨.ctl (p.run S i s).2, st⟩, (p.run S i s).1) := .step (by simp [soloStep, Cfg.next, hn])
      exact h0.trans (h1.trans h2)
  | tryExceptFinally ca b e f ihb ihe ihf =>
    intro i s st h
    simp only [Prog.run] at h ⊢
    have h0 : Reaches S (⟨.prog (.tryExceptFinally ca b e f) i, st⟩, s)
        (⟨.prog b i, .tryK ca e f (i + b.size) (i + b.size + e.size) :: st⟩, s) := .step rfl
    -- the block entered before `finally`
    by_cases hc : (b.run S i s).2.caughtBy ca = true
    · -- handler runs
      have hbs : (b.run S i s).2.stops = false := by
        cases hb : (b.run S i s).2 <;> simp_all [Ctl.caughtBy, Ctl.stops]
      simp only [handledBy, hc, if_true] at h ⊢
      have hes : (e.run S (i + b.size) (b.run S i s).1).2.stops = false := by
        cases hst : (e.run S (i + b.size) (b.run S i s).1).2.stops
        · rfl
        · simp [thenFinally, hst] at h
      simp only [thenFinally, hes, Bool.false_eq_true, if_false] at h ⊢
      have hfs := stops_over _ _ h hes
      have h1 := ihb i s (.tryK ca e f (i + b.size) (i + b.size + e.size) :: st) hbs
      have h2 : Reaches S (⟨.ctl (b.run S i s).2, .tryK ca e f (i + b.size) (i + b.size + e.size) :: st⟩, (b.run S i s).1)
          (⟨.prog e (i + b.size), .handlerK f (i + b.size + e.size) :: st⟩, (b.run S i s).1) :=
        .step (by simp [soloStep, Cfg.next, hc])
      have h3 := ihe (i + b.size) (b.run S i s).1 (.handlerK f (i + b.size + e.size) :: st) hes
      have h4 : Reaches S
          (⟨.ctl (e.run S (i + b.size) (b.run S i s).1).2, .handlerK f (i + b.size + e.size) :: st⟩,
            (e.run S (i + b.size) (b.run S i s).1).1)
          (⟨.prog f (i + b.size + e.size), .finK (e.run S (i + b.size) (b.run S i s).1).2 :: st⟩,
            (e.run S (i + b.size) (b.run S i s).1).1) := .step rfl
      have h5 := ihf (i + b.size + e.size) (e.run S (i + b.size) (b.run S i s).1).1
        (.finK (e.run S (i + b.size) (b.run S i s).1).2 :: st) hfs
      have h6 : Reaches S
          (⟨.ctl (f.run S (i + b.size + e.size) (e.run S (i + b.size) (b.run S i s).1).1).2,
            .finK (e.run S (i + b.size) (b.run S i s).1).2 :: st⟩,
            (f.run S (i + b.size + e.size) (e.run S (i + b.size) (b.run S i s).1).1).1)
          (⟨.ctl ((e.run S (i + b.size) (b.run S i s).1).2.over
              (f.run S (i + b.size + e.size) (e.run S (i + b.size) (b.run S i s).1).1).2), st⟩,
            (f.run S (i + b.size + e.size) (e.run S (i + b.size) (b.run S i s).1).1).1) := .step rfl
      exact h0.trans (h1.trans (h2.trans (h3.trans (h4.trans (h5.trans h6)))))
    · -- not caught: straight to `finally`
      have hc' : (b.run S i s).2.caughtBy ca = false := by
        cases hx : (b.run S i s).2.caughtBy ca
        · rfl
        · exact absurd hx hc
      simp only [handledBy, hc', Bool.false_eq_true, if_false] at h ⊢
      have hbs : (b.run S i s).2.stops = false := by
        cases hst : (b.run S i s).2.stops
        · rfl
        · simp [thenFinally, hst] at h
      simp only [thenFinally, hbs, Bool.false_eq_true, if_false] at h ⊢
      have hfs := stops_over _ _ h hbs
      have h1 := ihb i s (.tryK ca e f (i + b.size) (i + b.size + e.size) :: st) hbs
      have h2 : Reaches S (⟨.ctl (b.run S i s).2, .tryK ca e f (i + b.size) (i + b.size + e.size) :: st⟩, (b.run S i s).1)
          (⟨.prog f (i + b.size + e.size), .finK (b.run S i s).2 :: st⟩, (b.run S i s).1) :=
        .step (by simp [soloStep, Cfg.next, hc'])
      have h5 := ihf (i + b.size + e.size) (b.run S i s).1 (.finK (b.run S i s).2 :: st) hfs
      have h6 : Reaches S
          (⟨.ctl (f.run S (i + b.size + e.size) (b.run S i s).1).2, .finK (b.run S i s).2 :: st⟩,
            (f.run S (i + b.size + e.size) (b.run S i s).1).1)
          (⟨.ctl ((b.run S i s).2.over (f.run S (i + b.size + e.size) (b.run S i s).1).2), st⟩,
            (f.run S (i + b.size + e.size) (b.run S i s).1).1) := .step rfl
      exact h0.trans (h1.trans (h2.trans (h5.trans h6)))
  | withLock l b ih =>
    intro i s st h
    simp only [Prog.run, thenIfNormal] at h ⊢
    by_cases hn : (S.act i (.lockAcquire l) s).2 = .normal
    · rw [if_pos hn] at h ⊢
      have hbs : (b.run S (i + 1) (S.act i (.lockAcquire l) s).1).2.stops = false := by
        cases hst : (b.run S (i + 1) (S.act i (.lockAcquire l) s).1).2.stops
        · rfl
        · simp [thenFinally, hst] at h
      simp only [thenFinally, hbs, Bool.false_eq_true, if_false] at h ⊢
      have h0 : Reaches S (⟨.prog (.withLock l b) i, st⟩, s)
          (⟨.prog b (i + 1), .lockK l (i + 1 + b.size) :: st⟩, (S.act i (.lockAcquire l) s).1) :=
        .step (by simp [soloStep, Cfg.next, hn])
      have h1 := ih (i + 1) (S.act i (.lockAcquire l) s).1 (.lockK l (i + 1 + b.size) :: st) hbs
      have h2 : Reaches S
          (⟨.ctl (b.run S (i + 1) (S.act i (.lockAcquire l) s).1).2, .lockK l (i + 1 + b.size) :: st⟩,
            (b.run S (i + 1) (S.act i (.lockAcquire l) s).1).1)
          (⟨.ctl ((b.run S (i + 1) (S.act i (.lockAcquire l) s).1).2.over
              (S.act (i + 1 + b.size) (.lockRelease l) (b.run S (i + 1) (S.act i (.lockAcquire l) s).1).1).2), st⟩,
            (S.act (i + 1 + b.size) (.lockRelease l) (b.run S (i + 1) (S.act i (.lockAcquire l) s).1).1).1) :=
        .step rfl
      exact h0.trans (h1.trans h2)
    · rw [if_neg hn] at h ⊢
      exact .step (by simp [soloStep, Cfg.next, hn])
  | ifNotRerun b ih =>
    intro i s st h
    simp only [Prog.run] at h ⊢
    by_cases hr : S.rerun s = true
    · rw [if_pos hr] at h ⊢
      exact .step (by simp [soloStep, Cfg.next, hr])
    · have hr' : S.rerun s = false := by cases hx : S.rerun s <;> simp_all
      rw [if_neg hr] at h ⊢
      have h0 : Reaches S (⟨.prog (.ifNotRerun b) i, st⟩, s) (⟨.prog b i, st⟩, s) :=
        .step (by simp [soloStep, Cfg.next, hr'])
      exact h0.trans (ih i s st h)
  | ifAuditProv b ih =>
    intro i s st h
    simp only [Prog.run] at h ⊢
    by_cases hr : S.prov s = true
    · rw [if_pos hr] at h ⊢
      have h0 : Reaches S (⟨.prog (.ifAuditProv b) i, st⟩, s) (⟨.prog b i, st⟩, s) :=
        .step (by simp [soloStep, Cfg.next, hr])
      exact h0.trans (ih i s st h)
    · have hr' : S.prov s = false := by cases hx : S.prov s <;> simp_all
      rw [if_neg hr] at h ⊢
      exact .step (by simp [soloStep, Cfg.next, hr'])

/-- a whole call: from the start of `p` the machine reaches `done` with the big-step result -/
theorem small_big_call (S : Sem σ) (p : Prog) (s : σ) (h : (p.run S 0 s).2.stops = false) :
    Reaches S (⟨.prog p 0, []⟩, s) (⟨.ctl (p.run S 0 s).2, []⟩, (p.run S 0 s).1) :=
  small_big S p 0 s [] h

end PydraModel.JobProto
